import DustVerif.Model.Time
import DustVerif.Props.C14
import DustVerif.Props.C38
