import DustVerif.Proofs.WireSetNew
import DustVerif.Proofs.WireSize
/-! Accessors `SequenceNumberSet::set()` / `FragmentNumberSet::set()` are total on every decoded set
    (D-wire-4, with fixes/D-wire-4.patch and the committed D5 fix). -/
namespace DustVerif.Wire
open Outcome

/-- the sets carried by a submessage can be iterated without panic -/
def Sub.accessorsOk : Sub → Prop
  | .gap _ _ _ set => ∃ l, snsetMembers set = ok l
  | .ackNack _ _ _ set _ => ∃ l, snsetMembers set = ok l
  | .nackFrag _ _ _ set _ => ∃ l, fnsetMembers set = ok l
  | _ => True

theorem snsetMembersTo_total (s : SNSet) (k : Nat) (hk : k ≤ s.numBits) (h256 : s.numBits ≤ 256)
    (hov : 0 < s.numBits → s.base + ((s.numBits : Int) - 1) < 9223372036854775808) :
    ∃ l, snsetMembersTo s k = ok l := by
  induction k with
  | zero => exact ⟨[], by simp [snsetMembersTo]⟩
  | succ k ih =>
    obtain ⟨l, he⟩ := ih (by omega)
    have h1 : ¬ k / 32 ≥ 8 := by omega
    have h2 : ¬ s.base + (k : Int) ≥ 9223372036854775808 := by
      have := hov (by omega)
      omega
    by_cases hb : getBit s.bitmap k = true
    · exact ⟨l ++ [s.base + (k : Int)], by simp [snsetMembersTo, he, h1, h2, hb]⟩
    · exact ⟨l, by simp [snsetMembersTo, he, h1, hb]⟩

/-- what the decoder with fixes/D-wire-4.patch lets through -/
theorem snsetRead_ok_shape (le : Bool) (d : List Nat) (s : SNSet) (r : List Nat)
    (h : snsetRead true le d = ok (s, r)) :
    s.numBits ≤ 256 ∧ (0 < s.numBits → s.base + ((s.numBits : Int) - 1) < 9223372036854775808) := by
  unfold snsetRead at h
  cases h1 : readSN le d with
  | err e => simp [h1] at h
  | panic => simp [h1] at h
  | ok p1 =>
    obtain ⟨base, d1⟩ := p1
    cases h2 : readU32 le d1 with
    | err e => simp [h1, h2] at h
    | panic => simp [h1, h2] at h
    | ok p2 =>
      obtain ⟨nb, d2⟩ := p2
      simp only [h1, h2] at h
      split at h
      · simp at h
      · rename_i hnb
        split at h
        · simp at h
        · rename_i hc
          cases h3 : readWords le (min (divCeil32 nb) 8) d2 with
          | err e => simp [h3] at h
          | panic => simp [h3] at h
          | ok p3 =>
            obtain ⟨ws, d3⟩ := p3
            simp [h3] at h
            obtain ⟨hs, _⟩ := h
            subst hs
            refine ⟨by simp; omega, ?_⟩
            intro hpos
            simp only at hpos ⊢
            have hc' : ¬ (nb > 0 ∧ base + ((nb : Int) - 1) ≥ 9223372036854775808) := fun hh => hc ⟨trivial, hh⟩
            by_cases hge : base + ((nb : Int) - 1) ≥ 9223372036854775808
            · exact absurd ⟨by omega, hge⟩ hc'
            · omega

theorem snsetRead_accessor_total (le : Bool) (d : List Nat) (s : SNSet) (r : List Nat)
    (h : snsetRead true le d = ok (s, r)) : ∃ l, snsetMembers s = ok l := by
  obtain ⟨h256, hov⟩ := snsetRead_ok_shape le d s r h
  exact snsetMembersTo_total s s.numBits (Nat.le_refl _) h256 hov

theorem fnExpandTo_lt (base : Nat) (bm : List Nat) (k : Nat) (l : List Nat)
    (h : fnExpandTo true base bm k = ok l) : ∀ m ∈ l, m < P32 := by
  induction k generalizing l with
  | zero =>
    simp [fnExpandTo] at h
    subst h
    simp
  | succ k ih =>
    rw [fnExpandTo] at h
    cases h0 : fnExpandTo true base bm k with
    | err e => simp [h0] at h
    | panic => simp [h0] at h
    | ok l0 =>
      have ih0 := ih l0 h0
      simp only [h0] at h
      by_cases hb : getBit bm k = true
      · by_cases hov : base + k ≥ P32
        · simp [hb, hov] at h
        · simp [hb, hov] at h
          subst h
          intro m hm
          simp at hm
          rcases hm with hm | hm
          · exact ih0 m hm
          · omega
      · simp [hb] at h
        subst h
        exact ih0

theorem fnsetRead_accessor_total (le : Bool) (d : List Nat) (s : FNSet) (r : List Nat)
    (h : fnsetRead true le d = ok (s, r)) : ∃ l, fnsetMembers s = ok l := by
  cases h1 : readU32 le d with
  | err e => simp [fnsetRead, h1] at h
  | panic => simp at h1
  | ok p1 =>
    obtain ⟨base, d1⟩ := p1
    cases h2 : readU32 le d1 with
    | err e => simp [fnsetRead, h1, h2] at h
    | panic => simp at h2
    | ok p2 =>
      obtain ⟨nb, d2⟩ := p2
      by_cases hnb : nb > 256
      · simp [fnsetRead, h1, h2, hnb] at h
      · cases h3 : readWords le (min (divCeil32 nb) 8) d2 with
        | err e => simp [fnsetRead, h1, h2, h3, hnb] at h
        | panic => simp at h3
        | ok p3 =>
          obtain ⟨ws, d3⟩ := p3
          rw [fnsetRead_eq true le d d1 d2 d3 ws base nb h1 h2 h3 (by simp [hnb])] at h
          cases h4 : fnExpand true base (padWords ws) nb with
          | err e => simp [h4] at h
          | panic => simp [h4] at h
          | ok members =>
            have hb := fnExpand_bound true base (padWords ws) nb members h4
            have hlt : ∀ m ∈ members, m < P32 := by
              unfold fnExpand at h4
              cases h5 : fnExpandTo true base (padWords ws) (min nb 256) with
              | err e => simp [h5] at h4
              | panic => simp [h5] at h4
              | ok l0 =>
                simp [h5, hnb] at h4
                subst h4
                exact fnExpandTo_lt base _ _ l0 h5
            obtain ⟨nb', bm', he, hl, hw, hbits, _, hm, hor⟩ :=
              fnsetNewLoop_spec base members 0 zeroBitmap (by simp [zeroBitmap])
                (by intro w hw; simp [zeroBitmap] at hw; omega) hb
            simp [h4, fnsetNew, he] at h
            obtain ⟨hs, _⟩ := h
            subst hs
            by_cases hz : nb' = 0
            · subst hz
              exact ⟨[], by simp [fnsetMembers, fnsetMembersTo]⟩
            · have hbound : nb' ≤ 256 ∧ base + nb' ≤ 4294967296 := by
                rcases hor with h0 | ⟨x, hx, hnx⟩
                · omega
                · have a := hb x hx
                  have b := hlt x hx
                  unfold P32 at b
                  omega
              obtain ⟨l, hl', _⟩ := fnsetMembersTo_spec { base := base, numBits := nb', bitmap := bm' } nb'
                hbound.1 hbound.2
              exact ⟨l, hl'⟩

/-! ### per parser, per dispatch, per loop -/
theorem gapRead_accessors (le : Bool) (d : List Nat) (s : Sub) (h : gapRead true le d = ok s) : s.accessorsOk := by
  unfold gapRead at h
  repeat' split at h
  all_goals (try (simp at h; done))
  all_goals (
    simp at h
    subst h
    exact snsetRead_accessor_total _ _ _ _ (by assumption))

theorem ackNackRead_accessors (le : Bool) (fl : Nat) (d : List Nat) (s : Sub) (h : ackNackRead true le fl d = ok s) :
    s.accessorsOk := by
  unfold ackNackRead at h
  repeat' split at h
  all_goals (try (simp at h; done))
  all_goals (
    simp at h
    subst h
    exact snsetRead_accessor_total _ _ _ _ (by assumption))

theorem nackFragRead_accessors (le : Bool) (d : List Nat) (s : Sub) (h : nackFragRead true le d = ok s) :
    s.accessorsOk := by
  unfold nackFragRead at h
  repeat' split at h
  all_goals (try (simp at h; done))
  all_goals (
    simp at h
    subst h
    exact fnsetRead_accessor_total _ _ _ _ (by assumption))

theorem dataRead_accessors (le : Bool) (fl len : Nat) (d : List Nat) (s : Sub) (h : dataRead le fl len d = ok s) :
    s.accessorsOk := by
  unfold dataRead at h
  repeat' split at h
  all_goals (try (simp at h; done))
  all_goals (simp at h; subst h; simp [Sub.accessorsOk])
theorem dataFragRead_accessors (le : Bool) (fl len : Nat) (d : List Nat) (s : Sub) (h : dataFragRead le fl len d = ok s) :
    s.accessorsOk := by
  unfold dataFragRead at h
  repeat' split at h
  all_goals (try (simp at h; done))
  all_goals (simp at h; subst h; simp [Sub.accessorsOk])
theorem heartbeatRead_accessors (le : Bool) (fl : Nat) (d : List Nat) (s : Sub) (h : heartbeatRead le fl d = ok s) :
    s.accessorsOk := by
  unfold heartbeatRead at h
  repeat' split at h
  all_goals (try (simp at h; done))
  all_goals (simp at h; subst h; simp [Sub.accessorsOk])
theorem heartbeatFragRead_accessors (le : Bool) (d : List Nat) (s : Sub) (h : heartbeatFragRead le d = ok s) :
    s.accessorsOk := by
  unfold heartbeatFragRead at h
  repeat' split at h
  all_goals (try (simp at h; done))
  all_goals (simp at h; subst h; simp [Sub.accessorsOk])
theorem infoDstRead_accessors (d : List Nat) (s : Sub) (h : infoDstRead d = ok s) : s.accessorsOk := by
  unfold infoDstRead at h
  repeat' split at h
  all_goals (try (simp at h; done))
  all_goals (simp at h; subst h; simp [Sub.accessorsOk])
theorem infoSrcRead_accessors (le : Bool) (d : List Nat) (s : Sub) (h : infoSrcRead le d = ok s) : s.accessorsOk := by
  unfold infoSrcRead at h
  repeat' split at h
  all_goals (try (simp at h; done))
  all_goals (simp at h; subst h; simp [Sub.accessorsOk])
theorem infoReplyRead_accessors (le : Bool) (fl : Nat) (d : List Nat) (s : Sub) (h : infoReplyRead le fl d = ok s) :
    s.accessorsOk := by
  unfold infoReplyRead at h
  repeat' split at h
  all_goals (try (simp at h; done))
  all_goals (simp at h; subst h; simp [Sub.accessorsOk])
theorem infoTsRead_accessors (le : Bool) (fl : Nat) (d : List Nat) (s : Sub) (h : infoTsRead le fl d = ok s) :
    s.accessorsOk := by
  unfold infoTsRead at h
  repeat' split at h
  all_goals (try (simp at h; done))
  all_goals (simp at h; subst h; simp [Sub.accessorsOk])

theorem decodeSub_accessors (c : Cfg) (hd : c.d5 = true) (hc : c.snchk = true) (id fl len : Nat) (le : Bool)
    (v : List Nat) (s : Sub) (h : decodeSub c id fl len le v = ok s) : s.accessorsOk := by
  have := decodeSub_cases c id fl len le v (fun o => ∀ s, o = ok s → s.accessorsOk)
    (by rw [hc]; exact ackNackRead_accessors le fl v) (dataRead_accessors le fl len v)
    (dataFragRead_accessors le fl len v) (by rw [hc]; exact gapRead_accessors le v)
    (heartbeatRead_accessors le fl v) (heartbeatFragRead_accessors le v) (infoDstRead_accessors v)
    (infoReplyRead_accessors le fl v) (infoSrcRead_accessors le v) (infoTsRead_accessors le fl v)
    (by rw [hd]; exact nackFragRead_accessors le v)
    (by intro s hs; simp at hs; subst hs; simp [Sub.accessorsOk]) (by intro s hs; simp at hs)
  exact this s h

/-- anything true of every dispatched submessage is true of every submessage the loop returns -/
theorem decodeLoop_all (c : Cfg) (P : Sub → Prop)
    (hP : ∀ id fl len le v s, decodeSub c id fl len le v = ok s → P s)
    (fuel : Nat) (v : List Nat) (ss : List Sub) (h : decodeLoop c fuel v = ok ss) : ∀ s ∈ ss, P s := by
  induction fuel generalizing v ss with
  | zero =>
    simp [decodeLoop] at h
    subst h
    simp
  | succ k ih =>
    unfold decodeLoop at h
    split at h
    · simp only [] at h
      split at h
      · simp at h; subst h; simp
      · split at h
        · split at h
          · rename_i s hs
            split at h
            · rename_i ss' hrec
              simp at h
              subst h
              intro x hx
              simp at hx
              rcases hx with hx | hx
              · subst hx; exact hP _ _ _ _ _ _ hs
              · exact ih _ _ hrec x hx
            · simp at h
            · simp at h
          · exact ih _ _ h
          · simp at h
        · split at h
          · rename_i s hs
            split at h
            · rename_i ss' hrec
              simp at h
              subst h
              intro x hx
              simp at hx
              rcases hx with hx | hx
              · subst hx; exact hP _ _ _ _ _ _ hs
              · exact ih _ _ hrec x hx
            · simp at h
            · simp at h
          · exact ih _ _ h
          · simp at h
    · simp at h; subst h; simp

end DustVerif.Wire
