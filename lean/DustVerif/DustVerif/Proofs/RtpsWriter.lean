import DustVerif.Proofs.RtpsFrag
/-! Writer side of the `rtps` model: everything the writer emits is genuine (made from a change of the
    publication log). Used by Props/C01, C02. -/
namespace DustVerif.Rtps

/-- the submessage does not forge: DATA carries a published change, DATA_FRAG a genuine fragment of one -/
def SubGenuine (log : List Change) (f : Nat) : Sub → Prop
  | .data sn p => (⟨sn, p⟩ : Change) ∈ log
  | .frag fr => ∃ c, c ∈ log ∧ Genuine c f fr
  | _ => True

def DgramGenuine (log : List Change) (f : Nat) (d : Dgram) : Prop := ∀ s, s ∈ d.subs → SubGenuine log f s
def DgramsGenuine (log : List Change) (f : Nat) (ds : List Dgram) : Prop := ∀ d, d ∈ ds → DgramGenuine log f d

theorem SubGenuine.mono {log log' : List Change} {f : Nat} (h : ∀ c, c ∈ log → c ∈ log') (s : Sub)
    (hs : SubGenuine log f s) : SubGenuine log' f s := by
  cases s <;> simp only [SubGenuine] at hs ⊢
  · exact h _ hs
  · obtain ⟨c, hc, g⟩ := hs; exact ⟨c, h c hc, g⟩

theorem DgramsGenuine.mono {log log' : List Change} {f : Nat} (h : ∀ c, c ∈ log → c ∈ log') (ds : List Dgram)
    (hd : DgramsGenuine log f ds) : DgramsGenuine log' f ds :=
  fun d hdm s hs => SubGenuine.mono h s (hd d hdm s hs)

theorem DgramsGenuine.nil (log : List Change) (f : Nat) : DgramsGenuine log f [] := by
  intro d hd; cases hd

theorem DgramsGenuine.append {log : List Change} {f : Nat} {a b : List Dgram} (ha : DgramsGenuine log f a)
    (hb : DgramsGenuine log f b) : DgramsGenuine log f (a ++ b) := by
  intro d hd
  rcases List.mem_append.mp hd with h | h
  · exact ha d h
  · exact hb d h

theorem DgramsGenuine.sublist {log : List Change} {f : Nat} {a b : List Dgram} (h : a.Sublist b)
    (hb : DgramsGenuine log f b) : DgramsGenuine log f a := fun d hd => hb d (h.subset hd)

theorem dgramsGenuine_single {log : List Change} {f : Nat} (subs : List Sub)
    (h : ∀ s, s ∈ subs → SubGenuine log f s) : DgramsGenuine log f [mkW subs] := by
  intro d hd
  simp only [List.mem_singleton] at hd
  subst hd
  exact h

theorem findChange_some {cs : List Change} {sn : Nat} {c : Change} (h : findChange cs sn = some c) :
    c ∈ cs ∧ c.sn = sn := by
  unfold findChange at h
  refine ⟨List.mem_of_find?_eq_some h, ?_⟩
  have := List.find?_some h
  simpa [hasSn] using this

theorem sendable_some {cs : List Change} {b : Bool} {fr sn : Nat} {c : Change} (h : sendable cs b fr sn = some c) :
    c ∈ cs ∧ c.sn = sn ∧ (b = true → sn > fr) := by
  unfold sendable at h
  split at h
  · cases h
  · rename_i hn
    obtain ⟨h1, h2⟩ := findChange_some h
    refine ⟨h1, h2, ?_⟩
    intro hb
    by_cases hgt : sn > fr
    · exact hgt
    · exact absurd ⟨hb, hgt⟩ hn

theorem frag_genuine {log : List Change} {f : Nat} {c : Change} (hc : c ∈ log) (k : Nat) (hk : k < fragCount c f) :
    SubGenuine log f (.frag (asDataFrag c f k)) := ⟨c, hc, k, hk, rfl⟩

theorem fragDgrams_genuine {log : List Change} {f : Nat} {c : Change} (hc : c ∈ log) (n : Nat) (hn : n ≤ fragCount c f) :
    DgramsGenuine log f (fragDgrams c f n) := by
  induction n with
  | zero => exact DgramsGenuine.nil log f
  | succ k ih =>
    unfold fragDgrams
    apply DgramsGenuine.append (ih (by omega))
    apply dgramsGenuine_single
    intro s hs
    simp only [List.mem_cons, List.not_mem_nil, or_false] at hs
    rcases hs with rfl | rfl | rfl
    · trivial
    · trivial
    · exact frag_genuine hc k (by omega)

theorem fragDgramsHb_genuine {log : List Change} {f : Nat} {c : Change} (hc : c ∈ log) (hn : 1 ≤ fragCount c f)
    (hb : Sub) (hhb : SubGenuine log f hb) : DgramsGenuine log f (fragDgramsHb c f (fragCount c f) hb) := by
  unfold fragDgramsHb
  apply DgramsGenuine.append (fragDgrams_genuine hc _ (by omega))
  apply dgramsGenuine_single
  intro s hs
  simp only [List.mem_cons, List.not_mem_nil, or_false] at hs
  rcases hs with rfl | rfl | rfl | rfl
  · trivial
  · trivial
  · exact frag_genuine hc _ (by omega)
  · exact hhb

theorem genHb_genuine (log : List Change) (f : Nat) (p : RProxy) (cs : List Change) (now : Nat) :
    SubGenuine log f (p.genHb cs now).2 := by
  simp [RProxy.genHb, SubGenuine]

theorem data_dgram_genuine {log : List Change} {f : Nat} {c : Change} (hc : c ∈ log) (extra : List Sub)
    (hextra : ∀ s, s ∈ extra → SubGenuine log f s) :
    DgramsGenuine log f [mkW (.dst :: .ts :: .data c.sn c.payload :: extra)] := by
  apply dgramsGenuine_single
  intro s hs
  simp only [List.mem_cons] at hs
  rcases hs with rfl | rfl | rfl | h
  · trivial
  · trivial
  · exact hc
  · exact hextra s h

theorem gap_dgram_genuine (log : List Change) (f : Nat) (subs : List Sub)
    (h : ∀ s, s ∈ subs → (s = .dst ∨ (∃ a b c, s = .gap a b c) ∨ (∃ a b c d e, s = .hb a b c d e))) :
    DgramsGenuine log f [mkW subs] := by
  apply dgramsGenuine_single
  intro s hs
  rcases h s hs with rfl | ⟨a, b, c, rfl⟩ | ⟨a, b, c, d, e, rfl⟩ <;> trivial

/-! ### the emission loops -/

theorem beLoop_genuine (cfg : Cfg) (log cs : List Change) (f : Nat) (hcs : ∀ c, c ∈ cs → c ∈ log) (fuel : Nat)
    (p : RProxy) (acc : List Dgram) (hacc : DgramsGenuine log f acc) :
    DgramsGenuine log f (beLoop cfg cs f fuel p acc).2 := by
  induction fuel generalizing p acc with
  | zero => exact hacc
  | succ fuel ih =>
    unfold beLoop
    split
    · exact hacc
    · rename_i n hn
      split
      · have hg : DgramsGenuine log f [mkW [.gap (p.highestSent + 1) n []]] :=
          gap_dgram_genuine log f _ (by intro s hs; simp at hs; subst hs; exact Or.inr (Or.inl ⟨_, _, _, rfl⟩))
        split
        · exact ih _ _ (hacc.append hg)
        · exact ih _ _ (hacc.append hg)
      · split
        · rename_i c hc
          obtain ⟨hmem, _, _⟩ := sendable_some hc
          split
          · exact ih _ _ (hacc.append (fragDgrams_genuine (hcs c hmem) _ (Nat.le_refl _)))
          · exact ih _ _ (hacc.append (data_dgram_genuine (hcs c hmem) [] (by intro s hs; cases hs)))
        · exact ih _ _ (hacc.append (gap_dgram_genuine log f _
            (by intro s hs; simp at hs; subst hs; exact Or.inr (Or.inl ⟨_, _, _, rfl⟩))))

theorem relUnsentLoop_genuine (cfg : Cfg) (log cs : List Change) (f now : Nat) (hcs : ∀ c, c ∈ cs → c ∈ log)
    (fuel : Nat) (p : RProxy) (acc : List Dgram) (hacc : DgramsGenuine log f acc) :
    DgramsGenuine log f (relUnsentLoop cfg cs f now fuel p acc).2 := by
  induction fuel generalizing p acc with
  | zero => exact hacc
  | succ fuel ih =>
    unfold relUnsentLoop
    split
    · exact hacc
    · rename_i n hn
      split
      · have hg : DgramsGenuine log f [mkW [.dst, .gap (p.highestSent + 1) n [], (p.genHb cs now).2]] :=
          gap_dgram_genuine log f _ (by
            intro s hs
            simp only [List.mem_cons, List.not_mem_nil, or_false] at hs
            rcases hs with rfl | rfl | rfl
            · exact Or.inl rfl
            · exact Or.inr (Or.inl ⟨_, _, _, rfl⟩)
            · exact Or.inr (Or.inr ⟨_, _, _, _, _, rfl⟩))
        simp only
        split
        · exact ih _ _ (hacc.append hg)
        · exact ih _ _ (hacc.append hg)
      · split
        · rename_i c hc
          obtain ⟨hmem, _, _⟩ := sendable_some hc
          simp only
          split
          · rename_i hgt
            exact ih _ _ (hacc.append (fragDgramsHb_genuine (hcs c hmem) (by omega) _ (genHb_genuine log f p cs now)))
          · exact ih _ _ (hacc.append (data_dgram_genuine (hcs c hmem) [(p.genHb cs now).2]
              (by intro s hs; simp only [List.mem_singleton] at hs; subst hs; exact genHb_genuine log f p cs now)))
        · exact ih _ _ (hacc.append (gap_dgram_genuine log f _ (by
            intro s hs
            simp only [List.mem_cons, List.not_mem_nil, or_false] at hs
            rcases hs with rfl | rfl
            · exact Or.inl rfl
            · exact Or.inr (Or.inl ⟨_, _, _, rfl⟩))))

theorem relRequestedLoop_genuine (log cs : List Change) (f now : Nat) (hcs : ∀ c, c ∈ cs → c ∈ log)
    (fuel : Nat) (p : RProxy) (acc : List Dgram) (hacc : DgramsGenuine log f acc) :
    DgramsGenuine log f (relRequestedLoop cs f now fuel p acc).2 := by
  induction fuel generalizing p acc with
  | zero => exact hacc
  | succ fuel ih =>
    unfold relRequestedLoop
    split
    · exact hacc
    · rename_i m hm
      simp only
      split
      · rename_i c hc
        obtain ⟨hmem, _, _⟩ := sendable_some hc
        split
        · rename_i hgt
          refine ih _ _ (hacc.append ?_)
          apply dgramsGenuine_single
          intro s hs
          simp only [List.mem_cons, List.not_mem_nil, or_false] at hs
          rcases hs with rfl | rfl | rfl | rfl
          · trivial
          · trivial
          · exact frag_genuine (hcs c hmem) 0 (by omega)
          · exact genHb_genuine log f _ cs now
        · exact ih _ _ (hacc.append (data_dgram_genuine (hcs c hmem) [_]
            (by intro s hs; simp only [List.mem_singleton] at hs; subst hs; exact genHb_genuine log f _ cs now)))
      · exact ih _ _ (hacc.append (gap_dgram_genuine log f _ (by
          intro s hs
          simp only [List.mem_cons, List.not_mem_nil, or_false] at hs
          rcases hs with rfl | rfl
          · exact Or.inl rfl
          · exact Or.inr (Or.inl ⟨_, _, _, rfl⟩))))

theorem relTop_genuine (cfg : Cfg) (log cs : List Change) (f now : Nat) (hcs : ∀ c, c ∈ cs → c ∈ log)
    (p : RProxy) : DgramsGenuine log f (p.relTop cfg cs f now).2 := by
  unfold RProxy.relTop
  split
  · exact relUnsentLoop_genuine cfg log cs f now hcs _ _ _ (DgramsGenuine.nil log f)
  · split
    · exact DgramsGenuine.nil log f
    · split
      · exact gap_dgram_genuine log f _ (by
          intro s hs
          simp only [List.mem_cons, List.not_mem_nil, or_false] at hs
          rcases hs with rfl | rfl
          · exact Or.inl rfl
          · exact Or.inr (Or.inr ⟨_, _, _, _, _, rfl⟩))
      · exact DgramsGenuine.nil log f

theorem relMiddle_genuine (log cs : List Change) (f now : Nat) (hcs : ∀ c, c ∈ cs → c ∈ log)
    (p : RProxy) : DgramsGenuine log f (RProxy.relMiddle cs f now p).2 := by
  unfold RProxy.relMiddle
  split
  · exact relRequestedLoop_genuine log cs f now hcs _ _ _ (DgramsGenuine.nil log f)
  · exact DgramsGenuine.nil log f

theorem writeReliable_genuine (cfg : Cfg) (log cs : List Change) (f now : Nat) (hcs : ∀ c, c ∈ cs → c ∈ log)
    (p : RProxy) : DgramsGenuine log f (p.writeReliable cfg cs f now).2 :=
  (relTop_genuine cfg log cs f now hcs p).append (relMiddle_genuine log cs f now hcs _)

theorem proxy_writeMessage_genuine (cfg : Cfg) (log cs : List Change) (f now : Nat) (hcs : ∀ c, c ∈ cs → c ∈ log)
    (p : RProxy) : DgramsGenuine log f (p.writeMessage cfg cs f now).2 := by
  unfold RProxy.writeMessage
  split
  · exact writeReliable_genuine cfg log cs f now hcs p
  · exact beLoop_genuine cfg log cs f hcs _ _ _ (DgramsGenuine.nil log f)

/-! ### writer entry points: emitted datagrams are genuine; `changes` and `f` are untouched -/

theorem Writer.writeMessage_genuine (cfg : Cfg) (log : List Change) (w : Writer) (now : Nat)
    (hcs : ∀ c, c ∈ w.changes → c ∈ log) : DgramsGenuine log w.f (w.writeMessage cfg now).2 := by
  unfold Writer.writeMessage
  split
  · exact DgramsGenuine.nil log w.f
  · exact proxy_writeMessage_genuine cfg log w.changes w.f now hcs _

theorem Writer.writeMessage_changes (cfg : Cfg) (w : Writer) (now : Nat) :
    (w.writeMessage cfg now).1.changes = w.changes ∧ (w.writeMessage cfg now).1.f = w.f := by
  unfold Writer.writeMessage
  split <;> simp

theorem nackFragAnswers_genuine (cfg : Cfg) (log : List Change) (c : Change) (f : Nat) (hc : c ∈ log) (reqs : List Nat) :
    DgramsGenuine log f (nackFragAnswers cfg c f reqs) := by
  induction reqs with
  | nil => exact DgramsGenuine.nil log f
  | cons r rest ih =>
    unfold nackFragAnswers
    refine DgramsGenuine.append ?_ ih
    unfold nackFragAnswer
    split
    · split
      · rename_i h
        apply dgramsGenuine_single
        intro s hs
        simp only [List.mem_cons, List.not_mem_nil, or_false] at hs
        rcases hs with rfl | rfl | rfl
        · trivial
        · trivial
        · exact frag_genuine hc _ (by omega)
      · exact DgramsGenuine.nil log f
    · split
      · rename_i h
        apply dgramsGenuine_single
        intro s hs
        simp only [List.mem_cons, List.not_mem_nil, or_false] at hs
        rcases hs with rfl | rfl | rfl
        · trivial
        · trivial
        · exact frag_genuine hc _ h
      · exact DgramsGenuine.nil log f

theorem Writer.onAcknack_genuine (cfg : Cfg) (log : List Change) (w : Writer) (base : Nat) (set : List Nat)
    (count now : Nat) (hcs : ∀ c, c ∈ w.changes → c ∈ log) :
    DgramsGenuine log w.f (w.onAcknack cfg base set count now).2 := by
  unfold Writer.onAcknack
  split
  · exact DgramsGenuine.nil log w.f
  · split
    · exact writeReliable_genuine cfg log w.changes w.f now hcs _
    · exact DgramsGenuine.nil log w.f

theorem Writer.onAcknack_changes (cfg : Cfg) (w : Writer) (base : Nat) (set : List Nat) (count now : Nat) :
    (w.onAcknack cfg base set count now).1.changes = w.changes ∧ (w.onAcknack cfg base set count now).1.f = w.f := by
  unfold Writer.onAcknack
  split
  · simp
  · split <;> simp

theorem Writer.onNackFrag_genuine (cfg : Cfg) (log : List Change) (w : Writer) (sn base : Nat) (set : List Nat)
    (count : Nat) (hcs : ∀ c, c ∈ w.changes → c ∈ log) :
    DgramsGenuine log w.f (w.onNackFrag cfg sn base set count).2 := by
  unfold Writer.onNackFrag
  split
  · exact DgramsGenuine.nil log w.f
  · split
    · split
      · rename_i c hc
        exact nackFragAnswers_genuine cfg log c w.f (hcs c (findChange_some hc).1) _
      · exact gap_dgram_genuine log w.f _ (by
          intro s hs
          simp only [List.mem_cons, List.not_mem_nil, or_false] at hs
          rcases hs with rfl | rfl
          · exact Or.inl rfl
          · exact Or.inr (Or.inl ⟨_, _, _, rfl⟩))
    · exact DgramsGenuine.nil log w.f

theorem Writer.onNackFrag_changes (cfg : Cfg) (w : Writer) (sn base : Nat) (set : List Nat) (count : Nat) :
    (w.onNackFrag cfg sn base set count).1.changes = w.changes ∧ (w.onNackFrag cfg sn base set count).1.f = w.f := by
  unfold Writer.onNackFrag
  split
  · simp
  · split
    · split <;> simp
    · simp

theorem Writer.onSub_genuine (cfg : Cfg) (log : List Change) (w : Writer) (now : Nat) (s : Sub)
    (hcs : ∀ c, c ∈ w.changes → c ∈ log) : DgramsGenuine log w.f (w.onSub cfg now s).2 := by
  cases s
  case acknack b st c fin => exact Writer.onAcknack_genuine cfg log w b st c now hcs
  case nackfrag sn b st c => exact Writer.onNackFrag_genuine cfg log w sn b st c hcs
  all_goals exact DgramsGenuine.nil log w.f

theorem Writer.onSub_changes (cfg : Cfg) (w : Writer) (now : Nat) (s : Sub) :
    (w.onSub cfg now s).1.changes = w.changes ∧ (w.onSub cfg now s).1.f = w.f := by
  cases s
  case acknack b st c fin => exact Writer.onAcknack_changes cfg w b st c now
  case nackfrag sn b st c => exact Writer.onNackFrag_changes cfg w sn b st c
  all_goals exact ⟨rfl, rfl⟩

theorem Writer.onSubs_changes (cfg : Cfg) (w : Writer) (now : Nat) (subs : List Sub) :
    (w.onSubs cfg now subs).1.changes = w.changes ∧ (w.onSubs cfg now subs).1.f = w.f := by
  induction subs generalizing w with
  | nil => exact ⟨rfl, rfl⟩
  | cons s rest ih =>
    simp only [Writer.onSubs]
    have h1 := Writer.onSub_changes cfg w now s
    have h2 := ih (w.onSub cfg now s).1
    exact ⟨h2.1.trans h1.1, h2.2.trans h1.2⟩

theorem Writer.onSubs_genuine (cfg : Cfg) (log : List Change) (w : Writer) (now : Nat) (subs : List Sub)
    (hcs : ∀ c, c ∈ w.changes → c ∈ log) : DgramsGenuine log w.f (w.onSubs cfg now subs).2 := by
  induction subs generalizing w with
  | nil => exact DgramsGenuine.nil log w.f
  | cons s rest ih =>
    simp only [Writer.onSubs]
    have h1 := Writer.onSub_changes cfg w now s
    have h2 := ih (w.onSub cfg now s).1 (by rw [h1.1]; exact hcs)
    rw [h1.2] at h2
    exact (Writer.onSub_genuine cfg log w now s hcs).append h2

end DustVerif.Rtps
