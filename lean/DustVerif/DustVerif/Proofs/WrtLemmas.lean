import DustVerif.Model.WriterEnt
/-! Helper lemmas about the writer model: what the RTPS send loops may emit and which proxy fields they touch;
    frame properties of the entity operations. -/
namespace DustVerif.Wrt

-- ------------------------------------------------------------------------------------------- proxies

/-- the fields of a reader proxy that only an ACKNACK or a (re)match may change -/
def SameAck (p p' : Proxy) : Prop :=
  p'.id = p.id ∧ p'.reliable = p.reliable ∧ p'.highestAcked = p.highestAcked ∧ p'.firstRelevant = p.firstRelevant
    ∧ p'.lastAckCount = p.lastAckCount

theorem SameAck.refl (p : Proxy) : SameAck p p := ⟨rfl, rfl, rfl, rfl, rfl⟩

theorem SameAck.trans {a b c : Proxy} (h1 : SameAck a b) (h2 : SameAck b c) : SameAck a c := by
  obtain ⟨a1, a2, a3, a4, a5⟩ := h1
  obtain ⟨b1, b2, b3, b4, b5⟩ := h2
  exact ⟨b1.trans a1, b2.trans a2, b3.trans a3, b4.trans a4, b5.trans a5⟩

theorem mkHb_same (p : Proxy) (cs : List Change) (now : Int) : SameAck p (mkHb p cs now).1 := by
  simp [mkHb, SameAck]

theorem raiseSent_same (p : Proxy) (n : Nat) : SameAck p (raiseSent p n) := by
  unfold raiseSent; split <;> simp [SameAck]

theorem sendUnsentRel_same (cs : List Change) (now : Int) (fuel : Nat) :
    ∀ (p : Proxy) (acc : List Dgram), SameAck p (sendUnsentRel cs now fuel p acc).1 := by
  induction fuel with
  | zero => intro p acc; simp [sendUnsentRel, SameAck.refl]
  | succ n ih =>
    intro p acc
    simp only [sendUnsentRel]
    split
    · exact SameAck.refl p
    · split
      · exact SameAck.trans (SameAck.trans (mkHb_same p cs now) (raiseSent_same _ _)) (ih _ _)
      · split
        · split
          · exact SameAck.trans (SameAck.trans (mkHb_same p cs now) (raiseSent_same _ _)) (ih _ _)
          · exact SameAck.trans (raiseSent_same _ _) (ih _ _)
        · exact SameAck.trans (raiseSent_same _ _) (ih _ _)

theorem sendUnsentBe_same (cs : List Change) (fuel : Nat) :
    ∀ (p : Proxy) (acc : List Dgram), SameAck p (sendUnsentBe cs fuel p acc).1 := by
  induction fuel with
  | zero => intro p acc; simp [sendUnsentBe, SameAck.refl]
  | succ n ih =>
    intro p acc
    simp only [sendUnsentBe]
    split
    · exact SameAck.refl p
    · split
      · exact SameAck.trans (raiseSent_same _ _) (ih _ _)
      · split
        · split
          · exact SameAck.trans (raiseSent_same _ _) (ih _ _)
          · exact SameAck.trans (raiseSent_same _ _) (ih _ _)
        · exact SameAck.trans (raiseSent_same _ _) (ih _ _)

theorem dropReq_same (p : Proxy) (l : List Nat) : SameAck p { p with requested := l } := by
  simp [SameAck]

theorem sendRequested_same (cs : List Change) (now : Int) (fuel : Nat) :
    ∀ (p : Proxy) (acc : List Dgram), SameAck p (sendRequested cs now fuel p acc).1 := by
  induction fuel with
  | zero => intro p acc; simp [sendRequested, SameAck.refl]
  | succ n ih =>
    intro p acc
    simp only [sendRequested]
    split
    · exact SameAck.refl p
    · split
      · split
        · exact SameAck.trans (SameAck.trans (dropReq_same p _) (mkHb_same _ cs now)) (ih _ _)
        · exact SameAck.trans (dropReq_same p _) (ih _ _)
      · exact SameAck.trans (dropReq_same p _) (ih _ _)

theorem wmrTop_same (cs : List Change) (now : Int) (p : Proxy) : SameAck p (wmrTop cs now p).1 := by
  unfold wmrTop
  split
  · exact sendUnsentRel_same cs now _ p []
  · split
    · exact SameAck.refl p
    · split
      · exact mkHb_same p cs now
      · exact SameAck.refl p

theorem writeMessageReliable_same (cs : List Change) (now : Int) (p : Proxy) :
    SameAck p (writeMessageReliable cs now p).1 := by
  unfold writeMessageReliable
  split
  · exact wmrTop_same cs now p
  · exact SameAck.trans (wmrTop_same cs now p) (sendRequested_same cs now _ _ _)

theorem writeMessageProxy_same (cs : List Change) (now : Int) (p : Proxy) :
    SameAck p (writeMessageProxy cs now p).1 := by
  unfold writeMessageProxy
  split
  · exact writeMessageReliable_same cs now p
  · exact sendUnsentBe_same cs _ p []

/-- every proxy after `write_message` stems from one before it, with the acknowledgement state untouched -/
theorem writeMessageAll_mem (cs : List Change) (now : Int) :
    ∀ (ps : List Proxy), ∀ p' ∈ (writeMessageAll cs now ps).1, ∃ p ∈ ps, SameAck p p' := by
  intro ps
  induction ps with
  | nil => intro p' h; simp [writeMessageAll] at h
  | cons p ps ih =>
    intro p' h
    simp only [writeMessageAll, List.mem_cons] at h
    rcases h with h | h
    · exact ⟨p, List.mem_cons_self, h ▸ writeMessageProxy_same cs now p⟩
    · obtain ⟨x, hx, hr⟩ := ih p' h
      exact ⟨x, List.mem_cons_of_mem _ hx, hr⟩

/-- is_change_acknowledged is not changed by sending -/
theorem isAckedBy_writeMessageAll (cs : List Change) (now : Int) (sn : Nat) :
    ∀ (ps : List Proxy), isAckedBy (writeMessageAll cs now ps).1 sn = isAckedBy ps sn := by
  intro ps
  induction ps with
  | nil => rfl
  | cons p ps ih =>
    obtain ⟨_, h2, h3, _, _⟩ := writeMessageProxy_same cs now p
    simp only [isAckedBy, writeMessageAll, List.any_cons, unackedBy, h2, h3, Bool.not_or] at ih ⊢
    rw [ih]

/-- every reliable proxy has acknowledged `sn` -/
theorem isAckedBy_true_iff (ps : List Proxy) (sn : Nat) :
    isAckedBy ps sn = true ↔ ∀ p ∈ ps, p.reliable = true → sn ≤ p.highestAcked := by
  induction ps with
  | nil => simp [isAckedBy]
  | cons p ps ih =>
    simp only [isAckedBy, List.any_cons, Bool.not_or, Bool.and_eq_true, List.mem_cons, forall_eq_or_imp] at ih ⊢
    rw [ih]
    constructor
    · rintro ⟨h1, h2⟩
      refine ⟨?_, h2⟩
      intro hr
      simp [unackedBy, hr] at h1
      omega
    · rintro ⟨h1, h2⟩
      refine ⟨?_, h2⟩
      cases hr : p.reliable
      · simp [unackedBy, hr]
      · have := h1 hr
        simp [unackedBy, hr]; omega

-- ------------------------------------------------------------------------------------------- emissions

theorem findChange_mem {sn : Nat} {cs : List Change} {c : Change} (h : findChange sn cs = some c) : c ∈ cs := by
  induction cs with
  | nil => simp [findChange] at h
  | cons x xs ih =>
    simp only [findChange] at h
    split at h
    · cases h; exact List.mem_cons_self
    · exact List.mem_cons_of_mem _ (ih h)

theorem dataOf_append (a b : List Dgram) : dataOf (a ++ b) = dataOf a ++ dataOf b := by
  induction a with
  | nil => rfl
  | cons d ds ih => simp [dataOf, ih]

theorem sendUnsentRel_data (cs : List Change) (now : Int) (fuel : Nat) :
    ∀ (p : Proxy) (acc : List Dgram), ∀ c ∈ dataOf (sendUnsentRel cs now fuel p acc).2, c ∈ cs ∨ c ∈ dataOf acc := by
  induction fuel with
  | zero => intro p acc c hc; simp [sendUnsentRel] at hc; exact Or.inr hc
  | succ n ih =>
    intro p acc c hc
    simp only [sendUnsentRel] at hc
    split at hc
    · exact Or.inr hc
    · split at hc
      · rcases ih _ _ c hc with h | h
        · exact Or.inl h
        · simp [dataOf_append, dataOf, subData, mkHb] at h; exact Or.inr h
      · split at hc
        · rename_i c0 hf
          split at hc
          · rcases ih _ _ c hc with h | h
            · exact Or.inl h
            · simp [dataOf_append, dataOf, subData, mkHb] at h
              rcases h with h | h
              · exact Or.inr h
              · subst h; exact Or.inl (findChange_mem hf)
          · rcases ih _ _ c hc with h | h
            · exact Or.inl h
            · simp [dataOf_append, dataOf, subData] at h; exact Or.inr h
        · rcases ih _ _ c hc with h | h
          · exact Or.inl h
          · simp [dataOf_append, dataOf, subData] at h; exact Or.inr h

theorem sendUnsentBe_data (cs : List Change) (fuel : Nat) :
    ∀ (p : Proxy) (acc : List Dgram), ∀ c ∈ dataOf (sendUnsentBe cs fuel p acc).2, c ∈ cs ∨ c ∈ dataOf acc := by
  induction fuel with
  | zero => intro p acc c hc; simp [sendUnsentBe] at hc; exact Or.inr hc
  | succ n ih =>
    intro p acc c hc
    simp only [sendUnsentBe] at hc
    split at hc
    · exact Or.inr hc
    · split at hc
      · rcases ih _ _ c hc with h | h
        · exact Or.inl h
        · simp [dataOf_append, dataOf, subData] at h; exact Or.inr h
      · split at hc
        · rename_i c0 hf
          split at hc
          · rcases ih _ _ c hc with h | h
            · exact Or.inl h
            · simp [dataOf_append, dataOf, subData] at h
              rcases h with h | h
              · exact Or.inr h
              · subst h; exact Or.inl (findChange_mem hf)
          · rcases ih _ _ c hc with h | h
            · exact Or.inl h
            · simp [dataOf_append, dataOf, subData] at h; exact Or.inr h
        · rcases ih _ _ c hc with h | h
          · exact Or.inl h
          · simp [dataOf_append, dataOf, subData] at h; exact Or.inr h

theorem sendRequested_data (cs : List Change) (now : Int) (fuel : Nat) :
    ∀ (p : Proxy) (acc : List Dgram), ∀ c ∈ dataOf (sendRequested cs now fuel p acc).2, c ∈ cs ∨ c ∈ dataOf acc := by
  induction fuel with
  | zero => intro p acc c hc; simp [sendRequested] at hc; exact Or.inr hc
  | succ n ih =>
    intro p acc c hc
    simp only [sendRequested] at hc
    split at hc
    · exact Or.inr hc
    · split at hc
      · rename_i c0 hf
        split at hc
        · rcases ih _ _ c hc with h | h
          · exact Or.inl h
          · simp [dataOf_append, dataOf, subData, mkHb] at h
            rcases h with h | h
            · exact Or.inr h
            · subst h; exact Or.inl (findChange_mem hf)
        · rcases ih _ _ c hc with h | h
          · exact Or.inl h
          · simp [dataOf_append, dataOf, subData] at h; exact Or.inr h
      · rcases ih _ _ c hc with h | h
        · exact Or.inl h
        · simp [dataOf_append, dataOf, subData] at h; exact Or.inr h

theorem wmrTop_data (cs : List Change) (now : Int) (p : Proxy) : ∀ c ∈ dataOf (wmrTop cs now p).2, c ∈ cs := by
  intro c hc
  unfold wmrTop at hc
  split at hc
  · rcases sendUnsentRel_data cs now _ p [] c hc with h | h
    · exact h
    · simp [dataOf] at h
  · split at hc
    · simp [dataOf] at hc
    · split at hc
      · simp [dataOf, subData, mkHb] at hc
      · simp [dataOf] at hc

/-- a reliable proxy only ever puts changes of the history on the wire -/
theorem writeMessageReliable_data (cs : List Change) (now : Int) (p : Proxy) :
    ∀ c ∈ dataOf (writeMessageReliable cs now p).2, c ∈ cs := by
  intro c hc
  unfold writeMessageReliable at hc
  split at hc
  · exact wmrTop_data cs now p c hc
  · rcases sendRequested_data cs now _ _ _ c hc with h | h
    · exact h
    · exact wmrTop_data cs now p c h

theorem writeMessageProxy_data (cs : List Change) (now : Int) (p : Proxy) :
    ∀ c ∈ dataOf (writeMessageProxy cs now p).2, c ∈ cs := by
  intro c hc
  unfold writeMessageProxy at hc
  split at hc
  · exact writeMessageReliable_data cs now p c hc
  · rcases sendUnsentBe_data cs _ p [] c hc with h | h
    · exact h
    · simp [dataOf] at h

theorem writeMessageAll_data (cs : List Change) (now : Int) :
    ∀ (ps : List Proxy), ∀ c ∈ dataOf (writeMessageAll cs now ps).2, c ∈ cs := by
  intro ps
  induction ps with
  | nil => intro c hc; simp [writeMessageAll, dataOf] at hc
  | cons p ps ih =>
    intro c hc
    simp only [writeMessageAll, dataOf_append, List.mem_append] at hc
    rcases hc with h | h
    · exact writeMessageProxy_data cs now p c h
    · exact ih c h

-- ------------------------------------------------------------------------------------------- instances

theorem findInst_mem {k : Nat} {l : List Inst} {i : Inst} (h : findInst k l = some i) : i ∈ l ∧ i.key = k := by
  induction l with
  | nil => simp [findInst] at h
  | cons x xs ih =>
    simp only [findInst] at h
    split at h
    · cases h; exact ⟨List.mem_cons_self, by assumption⟩
    · exact ⟨List.mem_cons_of_mem _ (ih h).1, (ih h).2⟩

theorem findInst_append_some {k : Nat} {l : List Inst} {i : Inst} (x : List Inst) (h : findInst k l = some i) :
    findInst k (l ++ x) = some i := by
  induction l with
  | nil => simp [findInst] at h
  | cons y ys ih =>
    simp only [findInst, List.cons_append] at h ⊢
    split
    · rename_i he; simpa [he] using h
    · rename_i hne
      simp only [hne, if_false] at h
      exact ih h

theorem findInst_append_none {k : Nat} {l : List Inst} (x : List Inst) (h : findInst k l = none) :
    findInst k (l ++ x) = findInst k x := by
  induction l with
  | nil => rfl
  | cons y ys ih =>
    simp only [findInst, List.cons_append] at h ⊢
    split
    · rename_i he; simp [he] at h
    · rename_i hne
      simp only [hne, if_false] at h
      exact ih h

theorem findInst_setReg (k : Nat) (l : List Inst) :
    findInst k (setReg k l) = (findInst k l).map (fun i => { i with registered := true }) := by
  induction l with
  | nil => rfl
  | cons x xs ih =>
    simp only [setReg, findInst]
    split
    · rename_i hk; simp [findInst, hk]
    · rename_i hk; simp [findInst, hk, ih]

/-- after the registration step the instance exists: the old record with the flag set, or a new empty one -/
theorem findInst_regInsts (insts : List Inst) (k : Nat) :
    (∃ i, findInst k insts = some i ∧ regInsts insts k = setReg k insts
      ∧ findInst k (regInsts insts k) = some { i with registered := true }) ∨
    (findInst k insts = none ∧ regInsts insts k = insts ++ [{ key := k, samples := [], registered := true }]
      ∧ findInst k (regInsts insts k) = some { key := k, samples := [], registered := true }) := by
  unfold regInsts
  cases h : findInst k insts with
  | none =>
    right
    refine ⟨rfl, by simp, ?_⟩
    simp only [Option.isSome_none, Bool.false_eq_true, if_false]
    rw [findInst_append_none _ h]
    simp [findInst]
  | some i =>
    left
    refine ⟨i, rfl, by simp, ?_⟩
    simp only [Option.isSome_some, if_true, findInst_setReg, h, Option.map_some]

/-- every instance holds at most `d` samples -/
def LenOk (d : Nat) (l : List Inst) : Prop := ∀ i ∈ l, i.samples.length ≤ d

theorem pushSample_lenOk (d k sn : Nat) (l : List Inst) (h : LenOk d l)
    (hroom : ∀ i, findInst k l = some i → i.samples.length < d) : LenOk d (pushSample k sn l) := by
  induction l with
  | nil => intro i hi; simp [pushSample] at hi
  | cons x xs ih =>
    simp only [pushSample]
    split
    · rename_i hk
      intro i hi
      simp only [List.mem_cons] at hi
      rcases hi with hi | hi
      · subst hi
        have := hroom x (by simp [findInst, hk])
        simp; omega
      · exact h i (List.mem_cons_of_mem _ hi)
    · rename_i hk
      intro i hi
      simp only [List.mem_cons] at hi
      rcases hi with hi | hi
      · subst hi; exact h _ List.mem_cons_self
      · refine ih (fun j hj => h j (List.mem_cons_of_mem _ hj)) ?_ i hi
        intro j hj
        exact hroom j (by simp [findInst, hk, hj])

theorem popFront_lenOk (d k : Nat) (l : List Inst) (h : LenOk d l) : LenOk d (popFront k l) := by
  induction l with
  | nil => intro i hi; simp [popFront] at hi
  | cons x xs ih =>
    simp only [popFront]
    have hx := h x List.mem_cons_self
    have hxs : LenOk d xs := fun j hj => h j (List.mem_cons_of_mem _ hj)
    split
    · intro i hi
      simp only [List.mem_cons] at hi
      rcases hi with hi | hi
      · subst hi; simp; omega
      · exact hxs i hi
    · intro i hi
      simp only [List.mem_cons] at hi
      rcases hi with hi | hi
      · subst hi; exact hx
      · exact ih hxs i hi

theorem findInst_popFront (k : Nat) (l : List Inst) :
    findInst k (popFront k l) = (findInst k l).map (fun i => { i with samples := i.samples.tail }) := by
  induction l with
  | nil => rfl
  | cons x xs ih =>
    simp only [popFront, findInst]
    split
    · rename_i hk; simp [findInst, hk]
    · rename_i hk; simp [findInst, hk, ih]

theorem lenOk_append_new (d k : Nat) (l : List Inst) (h : LenOk d l) :
    LenOk d (l ++ [{ key := k, samples := [], registered := true }]) := by
  intro i hi
  simp only [List.mem_append, List.mem_singleton] at hi
  rcases hi with hi | hi
  · exact h i hi
  · subst hi; simp

theorem setReg_lenOk (d k : Nat) (l : List Inst) (h : LenOk d l) : LenOk d (setReg k l) := by
  induction l with
  | nil => intro i hi; simp [setReg] at hi
  | cons x xs ih =>
    have hx := h x List.mem_cons_self
    have hxs : LenOk d xs := fun j hj => h j (List.mem_cons_of_mem _ hj)
    simp only [setReg]
    split
    · intro i hi
      simp only [List.mem_cons] at hi
      rcases hi with hi | hi
      · subst hi; exact hx
      · exact hxs i hi
    · intro i hi
      simp only [List.mem_cons] at hi
      rcases hi with hi | hi
      · subst hi; exact hx
      · exact ih hxs i hi

theorem clearReg_lenOk (d k : Nat) (l : List Inst) (h : LenOk d l) : LenOk d (clearReg k l) := by
  induction l with
  | nil => intro i hi; simp [clearReg] at hi
  | cons x xs ih =>
    have hx := h x List.mem_cons_self
    have hxs : LenOk d xs := fun j hj => h j (List.mem_cons_of_mem _ hj)
    simp only [clearReg]
    split
    · intro i hi
      simp only [List.mem_cons] at hi
      rcases hi with hi | hi
      · subst hi; exact hx
      · exact hxs i hi
    · intro i hi
      simp only [List.mem_cons] at hi
      rcases hi with hi | hi
      · subst hi; exact hx
      · exact ih hxs i hi

theorem regInsts_lenOk (d k : Nat) (l : List Inst) (h : LenOk d l) : LenOk d (regInsts l k) := by
  unfold regInsts
  split
  · exact setReg_lenOk d k l h
  · exact lenOk_append_new d k l h

-- ------------------------------------------------------------------------------------------- frames

theorem addChange_frame (s : St) (c : Change) (now : Int) :
    (addChange s c now).1.qos = s.qos ∧ (addChange s c now).1.insts = s.insts ∧ (addChange s c now).1.lastSn = s.lastSn
    ∧ (addChange s c now).1.pending = s.pending ∧ (addChange s c now).1.changes = s.changes ++ [c]
    ∧ (addChange s c now).1.proxies = (writeMessageAll (s.changes ++ [c]) now s.proxies).1 := by
  simp [addChange]

/-- the cases of DataWriterEntity::write_w_timestamp (with the repair of D25): refused = nothing changes -/
theorem entWrite_cases (s : St) (k : Nat) (v : Int) (ts now : Int) :
    ((entWrite s k v ts now).2.1 = .outOfResources ∧ (entWrite s k v ts now).2.2 = [] ∧ (entWrite s k v ts now).1 = s
      ∧ ((isReg s.insts k = false ∧ ltLen (regCount s.insts) s.qos.maxInstances = false)
          ∨ spiHit s.qos s.insts k = true ∨ samplesHit s.qos s.insts = true)) ∨
    ((entWrite s k v ts now).2.1 = .ok
      ∧ (entWrite s k v ts now).1.qos = s.qos ∧ (entWrite s k v ts now).1.lastSn = s.lastSn + 1
      ∧ (entWrite s k v ts now).1.pending = s.pending
      ∧ (entWrite s k v ts now).1.insts = pushSample k (s.lastSn + 1) (regInsts s.insts k)
      ∧ (spiHit s.qos s.insts k || samplesHit s.qos s.insts) = false
      ∧ (isReg s.insts k = true ∨ ltLen (regCount s.insts) s.qos.maxInstances = true)
      ∧ ((expiredAtWrite s.qos ts now = true ∧ (entWrite s k v ts now).2.2 = []
            ∧ (entWrite s k v ts now).1.changes = s.changes ∧ (entWrite s k v ts now).1.proxies = s.proxies) ∨
         (expiredAtWrite s.qos ts now = false
            ∧ (entWrite s k v ts now).1.changes = s.changes ++ [{ sn := s.lastSn + 1, key := k, val := v, ts := ts }]
            ∧ (entWrite s k v ts now).1.proxies =
                (writeMessageAll (s.changes ++ [{ sn := s.lastSn + 1, key := k, val := v, ts := ts }]) now s.proxies).1
            ∧ (entWrite s k v ts now).2.2 =
                (writeMessageAll (s.changes ++ [{ sn := s.lastSn + 1, key := k, val := v, ts := ts }]) now s.proxies).2))) := by
  unfold entWrite
  split
  · rename_i h0
    left
    refine ⟨rfl, rfl, rfl, Or.inl ?_⟩
    cases ha : isReg s.insts k <;> cases hb : ltLen (regCount s.insts) s.qos.maxInstances <;> simp_all
  · rename_i h0
    split
    · rename_i h1
      left
      refine ⟨rfl, rfl, rfl, Or.inr ?_⟩
      simpa using h1
    · rename_i h1
      have h0' : isReg s.insts k = true ∨ ltLen (regCount s.insts) s.qos.maxInstances = true := by
        cases ha : isReg s.insts k <;> cases hb : ltLen (regCount s.insts) s.qos.maxInstances <;> simp_all
      have h1' : (spiHit s.qos s.insts k || samplesHit s.qos s.insts) = false := by
        simpa using h1
      split
      · rename_i h2
        right
        exact ⟨rfl, rfl, rfl, rfl, rfl, h1', h0', Or.inl ⟨h2, rfl, rfl, rfl⟩⟩
      · rename_i h2
        right
        refine ⟨rfl, ?_, ?_, ?_, ?_, h1', h0', Or.inr ⟨by simpa using h2, ?_, ?_, ?_⟩⟩ <;> simp [addChange]

end DustVerif.Wrt
