import DustVerif.Model.XcdrWF
/-! Lemma kit for the XCDR model: integer bytes, padding, reader steps on `bytes ++ rest`. -/
namespace DustVerif.Xcdr

@[simp] theorem leBytes_length (k n : Nat) : (leBytes k n).length = k := by
  induction k generalizing n with
  | zero => simp [leBytes]
  | succ k ih => simp [leBytes, ih]

theorem leVal_leBytes (k n : Nat) : leVal (leBytes k n) = n % 256 ^ k := by
  induction k generalizing n with
  | zero => simp [leBytes, leVal, Nat.mod_one]
  | succ k ih =>
    simp only [leBytes, leVal, ih, UInt8.toNat_ofNat']
    have h1 : n % 256 % 2 ^ 8 = n % 256 := by omega
    rw [h1, Nat.pow_succ, Nat.mul_comm (256 ^ k) 256, Nat.mod_mul]

@[simp] theorem encNat_length (e : Endian) (k n : Nat) : (encNat e k n).length = k := by
  cases e <;> simp [encNat]

theorem decNat_encNat (e : Endian) (k n : Nat) (h : n < 256 ^ k) : decNat e (encNat e k n) = n := by
  cases e <;> simp [encNat, decNat, leVal_leBytes, Nat.mod_eq_of_lt h]

@[simp] theorem zeros_length (n : Nat) : (zeros n).length = n := by simp [zeros]

theorem padTo_lt (a pos : Nat) (ha : 0 < a) : padTo a pos < a := by
  unfold padTo
  have h := Nat.div_add_mod (pos + (a - 1)) a
  have h2 := Nat.mod_lt (pos + (a - 1)) ha
  have h3 : (pos + (a - 1)) / a * a = a * ((pos + (a - 1)) / a) := Nat.mul_comm _ _
  omega

theorem padTo_dvd (a pos : Nat) (ha : 0 < a) : (pos + padTo a pos) % a = 0 := by
  unfold padTo
  have h := Nat.div_add_mod (pos + (a - 1)) a
  have h2 := Nat.mod_lt (pos + (a - 1)) ha
  have h3 : (pos + (a - 1)) / a * a = a * ((pos + (a - 1)) / a) := Nat.mul_comm _ _
  have h4 : pos + ((pos + (a - 1)) / a * a - pos) = (pos + (a - 1)) / a * a := by omega
  rw [h4]; exact Nat.mul_mod_left _ _

/-! ### reader steps on `bytes ++ rest` -/
theorem rSeek_app (zs rest : Bytes) (pos : Nat) :
    rSeek zs.length ⟨zs ++ rest, pos⟩ = .ok () ⟨rest, pos + zs.length⟩ := by
  simp [rSeek]

theorem rBytes_app (bs rest : Bytes) (pos : Nat) :
    rBytes bs.length ⟨bs ++ rest, pos⟩ = .ok bs ⟨rest, pos + bs.length⟩ := by
  simp [rBytes]

theorem rSeek_zeros (k : Nat) (rest : Bytes) (pos : Nat) :
    rSeek k ⟨zeros k ++ rest, pos⟩ = .ok () ⟨rest, pos + k⟩ := by
  have h := rSeek_app (zeros k) rest pos
  simpa using h

theorem Prim.size_le (p : Prim) : p.size ≤ 8 := by cases p <;> simp [Prim.size]
theorem Prim.size_pos (p : Prim) : 0 < p.size := by cases p <;> simp [Prim.size]

/-- the serializer and the deserializer pad a primitive alike -/
theorem wPad_prim (ver : Ver) (p : Prim) (pos : Nat) :
    wPad ver p.size pos = padTo (ver.readAlign p.size) pos := by
  cases ver <;> cases p <;> simp [wPad, Ver.maxAlign, Ver.readAlign, Prim.size]

theorem primBytes_length (e : Endian) (p : Prim) (n : Nat) (h : primOk p n = true) :
    (primBytes e p n).length = p.size := by
  cases p <;> simp_all [primBytes, primOk, c8Bytes, Prim.size]

theorem decNat_primBytes (e : Endian) (p : Prim) (n : Nat) (h : primOk p n = true) :
    decNat e (primBytes e p n) = n := by
  have h' := h
  simp only [primOk, Bool.and_eq_true, decide_eq_true_eq] at h'
  cases p
  case c8 =>
    simp only [primOk, Prim.size] at h
    simp at h
    have hm : n % 256 = n := Nat.mod_eq_of_lt (by omega)
    cases e <;> simp [primBytes, c8Bytes, decNat, leVal, hm]
  all_goals exact decNat_encNat e _ n h'.1.1

theorem dPrim_wPrim (ver : Ver) (e : Endian) (p : Prim) (n pos : Nat) (rest : Bytes) (h : primOk p n = true) :
    dPrim ver e p ⟨(wPrim ver e p n pos).1 ++ rest, pos⟩ = .ok n ⟨rest, (wPrim ver e p n pos).2⟩ := by
  have hl := primBytes_length e p n h
  have hd := decNat_primBytes e p n h
  have hb : (p == Prim.bool && decide (n > 1)) = false := by
    simp only [primOk, Bool.and_eq_true, decide_eq_true_eq] at h
    cases p <;> simp_all
  simp only [dPrim, wPrim, rAlign, wPad_prim, List.append_assoc]
  rw [rSeek_zeros]
  simp only [Res.bind]
  rw [← hl, rBytes_app]
  simp only [hd]
  simp [hb]

end DustVerif.Xcdr
