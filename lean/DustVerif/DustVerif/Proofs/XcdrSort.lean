import DustVerif.Proofs.XcdrSize
/-! The ordered member list of a mutable structure (`sortChunks`) and the shape of `emit1`. -/
namespace DustVerif.Xcdr

/-! ### `sortChunks` is a permutation -/
theorem mem_insertChunk (c d : Chunk) (cs : List Chunk) : d ∈ insertChunk c cs ↔ d = c ∨ d ∈ cs := by
  induction cs with
  | nil => simp [insertChunk]
  | cons x xs ih =>
    simp only [insertChunk]
    split
    · simp
    · simp only [List.mem_cons, ih]
      constructor
      · rintro (h | h | h)
        · exact Or.inr (Or.inl h)
        · exact Or.inl h
        · exact Or.inr (Or.inr h)
      · rintro (h | h | h)
        · exact Or.inr (Or.inl h)
        · exact Or.inl h
        · exact Or.inr (Or.inr h)

theorem mem_sortChunks (d : Chunk) (cs : List Chunk) : d ∈ sortChunks cs ↔ d ∈ cs := by
  induction cs with
  | nil => simp [sortChunks]
  | cons x xs ih => simp [sortChunks, mem_insertChunk, ih]

theorem length_insertChunk (c : Chunk) (cs : List Chunk) : (insertChunk c cs).length = cs.length + 1 := by
  induction cs with
  | nil => simp [insertChunk]
  | cons x xs ih =>
    simp only [insertChunk]
    split <;> simp [ih]

theorem length_sortChunks (cs : List Chunk) : (sortChunks cs).length = cs.length := by
  induction cs with
  | nil => simp [sortChunks]
  | cons x xs ih => simp [sortChunks, length_insertChunk, ih]

theorem sum_insertChunk (g : Chunk → Nat) (c : Chunk) (cs : List Chunk) :
    sumNat ((insertChunk c cs).map g) = g c + sumNat (cs.map g) := by
  induction cs with
  | nil => simp [insertChunk, sumNat]
  | cons x xs ih =>
    simp only [insertChunk]
    split
    · simp [sumNat]
    · simp only [List.map_cons, sumNat, ih]; omega

theorem sum_sortChunks (g : Chunk → Nat) (cs : List Chunk) :
    sumNat ((sortChunks cs).map g) = sumNat (cs.map g) := by
  induction cs with
  | nil => simp [sortChunks]
  | cons x xs ih => simp [sortChunks, sum_insertChunk, sumNat, ih]

/-- first occurrence of a parameter id in a member list -/
theorem split_first (tgt : Nat) (cs : List Chunk) (h : ∃ c ∈ cs, c.id % 2 ^ 16 = tgt) :
    ∃ pre c post, cs = pre ++ c :: post ∧ c.id % 2 ^ 16 = tgt ∧ ∀ d ∈ pre, d.id % 2 ^ 16 ≠ tgt := by
  induction cs with
  | nil => obtain ⟨c, hc, _⟩ := h; cases hc
  | cons x xs ih =>
    by_cases hx : x.id % 2 ^ 16 = tgt
    · exact ⟨[], x, xs, rfl, hx, by simp⟩
    · obtain ⟨c, hc, hct⟩ := h
      have hc' : c ∈ xs := by
        rcases List.mem_cons.mp hc with rfl | h
        · exact absurd hct hx
        · exact h
      obtain ⟨pre, c', post, he, hc't, hpre⟩ := ih ⟨c, hc', hct⟩
      refine ⟨x :: pre, c', post, by simp [he], hc't, ?_⟩
      intro d hd
      rcases List.mem_cons.mp hd with rfl | h
      · exact hx
      · exact hpre d h

/-! ### XCDR1: shape of `emit1` (repaired serializer, D61) -/
/-- the parameter id written for a member: `member_id as u16 + (m_flag << 14)` -/
def pid1 (c : Chunk) : Nat := (c.id % 2 ^ 16 + (if c.mu then 2 ^ 14 else 0)) % 2 ^ 16

theorem wPad_v1_4 (p : Nat) : wPad .v1 4 p = padTo 4 p := by simp [wPad, Ver.maxAlign]

theorem wPad4_of_aligned (p : Nat) (h : p % 4 = 0) : wPad .v1 4 p = 0 := by
  rw [wPad_v1_4]; exact padTo_of_mod 4 p (by omega) h

theorem emit1_cons (cfg : Cfg) (h61 : cfg.d61 = true) (e : Endian) (c : Chunk) (cs : List Chunk) (p : Nat) :
    emit1 cfg e (c :: cs) p =
      (zeros (wPad .v1 4 p) ++ (encNat e 2 (pid1 c) ++ (encNat e 2 ((c.enc 0).1.length % 2 ^ 16) ++
        ((c.enc 0).1 ++ (emit1 cfg e cs (p + wPad .v1 4 p + 4 + (c.enc 0).1.length)).1))),
       (emit1 cfg e cs (p + wPad .v1 4 p + 4 + (c.enc 0).1.length)).2) := by
  simp [emit1, wMem1, h61, pid1]

theorem emit1_nil (cfg : Cfg) (e : Endian) (p : Nat) :
    emit1 cfg e [] p = (zeros (wPad .v1 4 p) ++ (encNat e 2 1 ++ encNat e 2 0), p + wPad .v1 4 p + 4) := by
  simp [emit1]

/-- `emit1` starts with the padding to the next multiple of four and continues as from the aligned position -/
theorem emit1_align (cfg : Cfg) (h61 : cfg.d61 = true) (e : Endian) (cs : List Chunk) (p : Nat) :
    emit1 cfg e cs p = (zeros (wPad .v1 4 p) ++ (emit1 cfg e cs (p + wPad .v1 4 p)).1,
                        (emit1 cfg e cs (p + wPad .v1 4 p)).2) := by
  have hal : (p + wPad .v1 4 p) % 4 = 0 := by rw [wPad_v1_4]; exact padTo_dvd 4 p (by omega)
  have h0 := wPad4_of_aligned _ hal
  cases cs with
  | nil => simp [emit1_nil, h0, zeros]
  | cons c cs => simp [emit1_cons cfg h61, h0, zeros]

theorem emit1_len_ge (cfg : Cfg) (h61 : cfg.d61 = true) (e : Endian) (cs : List Chunk) (p : Nat) :
    cs.length + 1 ≤ (emit1 cfg e cs p).1.length := by
  induction cs generalizing p with
  | nil => simp [emit1_nil]
  | cons c cs ih =>
    have := ih (p + wPad .v1 4 p + 4 + (c.enc 0).1.length)
    simp only [emit1_cons cfg h61, List.length_append, List.length_cons, zeros_length, encNat_length]
    omega

/-- position consistency of `emit1` and its length in terms of the member sizes -/
theorem emit1_facts (cfg : Cfg) (h61 : cfg.d61 = true) (e : Endian) (cs : List Chunk) (p : Nat) :
    (emit1 cfg e cs p).2 = p + (emit1 cfg e cs p).1.length ∧
    (emit1 cfg e cs p).1.length ≤ 7 + sumNat (cs.map fun c => 7 + (c.enc 0).1.length) := by
  induction cs generalizing p with
  | nil =>
    have := wPad4_le .v1 p
    simp [emit1_nil, sumNat]; omega
  | cons c cs ih =>
    have h := ih (p + wPad .v1 4 p + 4 + (c.enc 0).1.length)
    have := wPad4_le .v1 p
    simp only [emit1_cons cfg h61, List.length_append, zeros_length, encNat_length, List.map_cons, sumNat]
    omega


end DustVerif.Xcdr
