import DustVerif.Model.MatchWorld
/-! Every endpoint state of every world reachable by the operations of Model/MatchWorld.lean is a state of the bookkeeping
    automaton of Model/MatchSet.lean, i.e. `run side St.init steps` for some step list — the object the C16 theorems
    quantify over. -/
namespace DustVerif.MatchWorld
open DustVerif.MatchSet

def Reach (side : Side) (st : St) : Prop := ∃ steps, st = run side St.init steps

theorem run_snoc (side : Side) (s : St) (a : List Step) (x : Step) : run side s (a ++ [x]) = step side (run side s a) x := by
  induction a generalizing s with
  | nil => rfl
  | cons y ys ih => simp [run, ih]

theorem reach_init (side : Side) : Reach side St.init := ⟨[], rfl⟩

theorem reach_step (side : Side) (st : St) (x : Step) (h : Reach side st) : Reach side (step side st x) := by
  obtain ⟨steps, hs⟩ := h
  exact ⟨steps ++ [x], by rw [run_snoc, hs]⟩

def EpOk (e : Ep) : Prop := Reach (sideOf e) e.st
def WInv (w : World) : Prop := ∀ e ∈ w.eps, EpOk e

theorem epOk_st (e : Ep) (st' : St) (h : Reach (sideOf e) st') : EpOk { e with st := st' } := h

theorem discoverEp_ok (now : Nat) (x : Part) (e : Ep) (d : Disc) (h : EpOk e) : EpOk (discoverEp now x e d).1 := by
  unfold discoverEp
  repeat' (first | split | (dsimp only; split))
  all_goals first
    | exact h
    | exact epOk_st e _ (reach_step _ _ _ (reach_step _ _ _ h))
    | exact epOk_st e _ (reach_step _ _ _ h)

theorem discoverAll_ok (now : Nat) (x : Part) (ds : List Disc) : ∀ e, EpOk e → EpOk (discoverAll now x e ds).1 := by
  induction ds with
  | nil => intro e h; exact h
  | cons d ds ih =>
    intro e h
    simp only [discoverAll]
    exact ih _ (discoverEp_ok now x e d h)

theorem iterateEps_ok (w : World) (es : List Ep) (h : ∀ e ∈ es, EpOk e) : ∀ e ∈ (iterateEps w es).1, EpOk e := by
  induction es with
  | nil => intro e he; simp [iterateEps] at he
  | cons a as ih =>
    have ha : EpOk a := h a (by simp)
    have hr := ih (fun e he => h e (by simp [he]))
    intro e he
    simp only [iterateEps] at he
    split at he
    · split at he
      · simp only [List.mem_cons] at he
        rcases he with rfl | he
        · exact discoverAll_ok _ _ _ _ ha
        · exact hr e he
      · simp only [List.mem_cons] at he
        rcases he with rfl | he
        · exact ha
        · exact hr e he
    · simp only [List.mem_cons] at he
      rcases he with rfl | he
      · exact ha
      · exact hr e he

theorem iterate_inv (w : World) (h : WInv w) : WInv (iterate w) := by
  intro e he
  exact iterateEps_ok w w.eps h e (by simpa [iterate] using he)

theorem announce_inv (w : World) (s : Nat) (iw : Bool) (d : Disc) (h : WInv w) : WInv (announce w s iw d) := by
  intro e he; exact h e (by simpa [announce] using he)

theorem undiscoverEp_ok (w : World) (s : Nat) (iw : Bool) (k : Key) (e : Ep) (h : EpOk e) : EpOk (undiscoverEp w s iw k e) := by
  unfold undiscoverEp
  split
  · exact epOk_st e _ (reach_step _ _ _ h)
  · exact h

theorem retract_inv (w : World) (s : Nat) (iw : Bool) (k : Key) (h : WInv w) : WInv (retract w s iw k) := by
  intro e he
  simp only [retract, List.mem_map] at he
  obtain ⟨a, ha, rfl⟩ := he
  exact undiscoverEp_ok w s iw k a (h a ha)

theorem setEp_inv (w : World) (e : Ep) (h : WInv w) (he : EpOk e) : WInv (setEp w e) := by
  intro x hx
  simp only [setEp, List.mem_map] at hx
  obtain ⟨a, ha, rfl⟩ := hx
  split
  · exact he
  · exact h a ha

theorem findEp_mem (w : World) (n : String) (e : Ep) (h : findEp w n = some e) : e ∈ w.eps :=
  List.mem_of_find?_eq_some h

theorem setPart_eps (w : World) (i : Nat) (p : Part) : (setPart w i p).eps = w.eps := rfl

theorem createEp_inv (w : World) (n : String) (iw : Bool) (p g : Nat) (t : String) (q : EpQos) (pa : List Partition.Name) (l : Bool)
    (r : World × Key) (hr : createEp w n iw p g t q pa l = some r) (h : WInv w) : WInv r.1 := by
  unfold createEp at hr
  split at hr
  · simp at hr
  · split at hr
    · simp at hr
    · simp only [Option.some.injEq] at hr
      subst hr
      apply iterate_inv
      apply announce_inv
      intro e he
      simp only [List.mem_append, List.mem_singleton] at he
      rcases he with he | rfl
      · exact h e he
      · exact reach_init _

theorem setQos_inv (w : World) (e : Ep) (q : EpQos) (h : WInv w) (he : EpOk e) : WInv (setQos w e q) := by
  unfold setQos
  exact iterate_inv _ (announce_inv _ _ _ _ (setEp_inv w _ h he))

theorem deleteEp_inv (w : World) (e : Ep) (h : WInv w) (he : EpOk e) : WInv (deleteEp w e) := by
  unfold deleteEp
  exact iterate_inv _ (retract_inv _ _ _ _ (setEp_inv w _ h he))

theorem deleteEps_inv (es : List Ep) : ∀ w, WInv w → (∀ e ∈ es, EpOk e) → WInv (deleteEps w es) := by
  induction es with
  | nil => intro w h _; exact h
  | cons a as ih =>
    intro w h hes
    simp only [deleteEps]
    apply ih
    · split
      · exact deleteEp_inv w a h (hes a (by simp))
      · exact h
    · intro e he; exact hes e (by simp [he])

theorem deleteContained_inv (w : World) (p : Nat) (h : WInv w) : WInv (deleteContained w p) := by
  unfold deleteContained
  apply deleteEps_inv _ w h
  intro e he
  simp only [List.mem_append, List.mem_filter] at he
  rcases he with ⟨⟨he, _⟩, _⟩ | ⟨⟨he, _⟩, _⟩ <;> exact h e he

theorem goneEp_ok (x y : Nat) (e : Ep) (h : EpOk e) : EpOk (goneEp x y e) := by
  unfold goneEp
  split
  · exact epOk_st e _ (reach_step _ _ _ h)
  · exact h

theorem forget_inv (w : World) (x y : Nat) (h : WInv w) : WInv (forget w x y) := by
  unfold forget
  split
  · exact h
  · split
    · intro e he
      simp only [List.mem_map] at he
      obtain ⟨a, ha, rfl⟩ := he
      exact goneEp_ok x y a (h a ha)
    · exact h

theorem forgetAll_inv (y : Nat) (xs : List Nat) : ∀ w, WInv w → WInv (forgetAll w y xs) := by
  induction xs with
  | nil => intro w h; exact h
  | cons x xs ih => intro w h; exact ih _ (forget_inv w x y h)

theorem expireList_inv (ys : List Nat) : ∀ w, WInv w → WInv (expireList w ys) := by
  induction ys with
  | nil => intro w h; exact h
  | cons y ys ih => intro w h; exact ih _ (forgetAll_inv y _ w h)

theorem applyOp_inv (w : World) (x : WOp) (h : WInv w) : WInv (applyOp w x) := by
  cases x with
  | createPart => intro e he; exact h e (by simpa [applyOp, createPart, setPart] using he)
  | createEp n iw p g t q pa l =>
    simp only [applyOp]
    split
    · rename_i r hr; exact createEp_inv w n iw p g t q pa l r hr h
    · exact h
  | setQos n q =>
    simp only [applyOp]
    split
    · rename_i e he; exact setQos_inv w e q h (h e (findEp_mem w n e he))
    · exact h
  | deleteEp n =>
    simp only [applyOp]
    split
    · rename_i e he; exact deleteEp_inv w e h (h e (findEp_mem w n e he))
    · exact h
  | deleteContained p => exact deleteContained_inv w p h
  | deletePart p =>
    simp only [applyOp, deletePart]
    split
    · exact h
    · split
      · exact iterate_inv _ (forgetAll_inv _ _ _ (by intro e he; exact h e (by simpa [setPart] using he)))
      · intro e he; exact h e (by simpa [setPart] using he)
  | cut p =>
    simp only [applyOp, cut]
    split
    · exact h
    · split
      · exact h
      · intro e he; exact h e (by simpa [setPart] using he)
  | advance d =>
    simp only [applyOp, advance]
    exact iterate_inv _ (expireList_inv _ _ (by intro e he; exact h e he))
  | write n =>
    simp only [applyOp]
    split
    · intro e he; exact h e (by simpa [write] using he)
    · exact h
  | read n =>
    simp only [applyOp]
    split
    · rename_i e he
      simp only [readEp]
      exact setEp_inv w _ h (epOk_st e _ (reach_step _ _ _ (h e (findEp_mem w n e he))))
    · exact h

theorem runOps_inv (ops : List WOp) : ∀ w, WInv w → WInv (runOps w ops) := by
  induction ops with
  | nil => intro w h; exact h
  | cons x xs ih => intro w h; exact ih _ (applyOp_inv w x h)

/-- every endpoint of every world reachable from the empty world is in a state of the bookkeeping automaton -/
theorem world_endpoints_reachable (ops : List WOp) : ∀ e ∈ (runOps World.init ops).eps, ∃ steps, e.st = run (sideOf e) St.init steps :=
  runOps_inv ops World.init (by intro e he; simp [World.init] at he)

end DustVerif.MatchWorld
