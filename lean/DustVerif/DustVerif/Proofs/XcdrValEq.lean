import DustVerif.Model.Xcdr
/-! Decidable equality of `Val` (a nested inductive: no `deriving`), needed for `decide` witnesses. -/
namespace DustVerif.Xcdr

mutual
  def Val.beq : Val → Val → Bool
    | .num a, .num b => a == b
    | .str a, .str b => a == b
    | .list a, .list b => Val.beqL a b
    | .struct a, .struct b => Val.beqL a b
    | .absent, .absent => true
    | _, _ => false
  def Val.beqL : List Val → List Val → Bool
    | [], [] => true
    | a :: as, b :: bs => Val.beq a b && Val.beqL as bs
    | _, _ => false
end

mutual
  theorem Val.beq_eq : ∀ (a b : Val), Val.beq a b = true → a = b
    | .num a, .num b, h => by simp [Val.beq] at h; simp [h]
    | .str a, .str b, h => by simp [Val.beq] at h; simp [h]
    | .list a, .list b, h => by simp [Val.beq] at h; simp [Val.beqL_eq a b h]
    | .struct a, .struct b, h => by simp [Val.beq] at h; simp [Val.beqL_eq a b h]
    | .absent, .absent, _ => rfl
    | .num _, .str _, h | .num _, .list _, h | .num _, .struct _, h | .num _, .absent, h => by simp [Val.beq] at h
    | .str _, .num _, h | .str _, .list _, h | .str _, .struct _, h | .str _, .absent, h => by simp [Val.beq] at h
    | .list _, .num _, h | .list _, .str _, h | .list _, .struct _, h | .list _, .absent, h => by simp [Val.beq] at h
    | .struct _, .num _, h | .struct _, .str _, h | .struct _, .list _, h | .struct _, .absent, h => by simp [Val.beq] at h
    | .absent, .num _, h | .absent, .str _, h | .absent, .list _, h | .absent, .struct _, h => by simp [Val.beq] at h
  theorem Val.beqL_eq : ∀ (a b : List Val), Val.beqL a b = true → a = b
    | [], [], _ => rfl
    | a :: as, b :: bs, h => by
      simp [Val.beqL] at h
      simp [Val.beq_eq a b h.1, Val.beqL_eq as bs h.2]
    | [], _ :: _, h | _ :: _, [], h => by simp [Val.beqL] at h
end

mutual
  theorem Val.beq_refl : ∀ (a : Val), Val.beq a a = true
    | .num a => by simp [Val.beq]
    | .str a => by simp [Val.beq]
    | .list a => by simp [Val.beq, Val.beqL_refl a]
    | .struct a => by simp [Val.beq, Val.beqL_refl a]
    | .absent => by simp [Val.beq]
  theorem Val.beqL_refl : ∀ (a : List Val), Val.beqL a a = true
    | [] => by simp [Val.beqL]
    | a :: as => by simp [Val.beqL, Val.beq_refl a, Val.beqL_refl as]
end

instance : DecidableEq Val := fun a b =>
  if h : Val.beq a b = true then isTrue (Val.beq_eq a b h)
  else isFalse (fun e => h (e ▸ Val.beq_refl a))

instance : DecidableEq (Res Val) := fun a b =>
  match a, b with
  | .ok x s, .ok y t => if h : x = y ∧ s = t then isTrue (by rw [h.1, h.2]) else isFalse (by intro e; injection e with e1 e2; exact h ⟨e1, e2⟩)
  | .err x s, .err y t => if h : x = y ∧ s = t then isTrue (by rw [h.1, h.2]) else isFalse (by intro e; injection e with e1 e2; exact h ⟨e1, e2⟩)
  | .panic x, .panic y => if h : x = y then isTrue (by rw [h]) else isFalse (by intro e; injection e with e1; exact h e1)
  | .ok _ _, .err _ _ | .ok _ _, .panic _ | .err _ _, .ok _ _ | .err _ _, .panic _ | .panic _, .ok _ _ | .panic _, .err _ _ =>
    isFalse (by intro e; cases e)

end DustVerif.Xcdr
