import DustVerif.Proofs.RtpsTruth
/-! The fuel of the writer's emission loops (`while let Some(..)` in Rust) is sufficient: with the fuel the model
    passes, each loop ends because nothing is left to do, never because the fuel ran out. So the totalised loops of
    the model are the loops of the code. -/
namespace DustVerif.Rtps

def aboveB (hs : Nat) (c : Change) : Bool := c.sn > hs

/-- number of changes above `hs` -/
def above (cs : List Change) (hs : Nat) : Nat := cs.countP (aboveB hs)

theorem above_le (cs : List Change) (hs : Nat) : above cs hs ≤ cs.length := List.countP_le_length

theorem countP_lt_of_witness {α : Type} (p q : α → Bool) (l : List α) (himp : ∀ x, p x = true → q x = true)
    (w : α) (hw : w ∈ l) (hq : q w = true) (hp : p w = false) : l.countP p < l.countP q := by
  induction l with
  | nil => cases hw
  | cons x xs ih =>
    simp only [List.countP_cons]
    rcases List.mem_cons.mp hw with rfl | hw'
    · have := List.countP_mono_left (l := xs) (p := p) (q := q) (fun x _ h => himp x h)
      simp only [hq, hp, if_true]
      simp
      omega
    · have := ih hw'
      by_cases hpx : p x = true
      · simp only [hpx, himp x hpx, if_true]; omega
      · have hpx' : p x = false := by simpa using hpx
        simp only [hpx']
        by_cases hqx : q x = true
        · simp only [hqx, if_true]; simp; omega
        · have hqx' : q x = false := by simpa using hqx
          simp only [hqx']; simp; omega

/-- passing the next unsent change strictly reduces what is left -/
theorem above_next_lt (cs : List Change) (hs n : Nat) (h : minAbove hs cs = some n) : above cs n < above cs hs := by
  obtain ⟨⟨c0, hc0, hc0sn⟩, hgt, _⟩ := minAbove_some h
  apply countP_lt_of_witness (aboveB n) (aboveB hs) cs ?_ c0 hc0
  · simp [aboveB, hc0sn]; omega
  · simp [aboveB, hc0sn]
  · intro x hx; simp only [aboveB, decide_eq_true_eq] at hx ⊢; omega

/-- moving `highest_sent` to just below the next unsent change changes nothing -/
theorem above_pred_eq (cs : List Change) (hs n : Nat) (h : minAbove hs cs = some n) (hgap : n > hs + 1) :
    above cs (n - 1) = above cs hs ∧ minAbove (n - 1) cs = some n := by
  obtain ⟨⟨c0, hc0, hc0sn⟩, hgt, hmin⟩ := minAbove_some h
  constructor
  · apply List.countP_congr
    intro x hx
    simp only [aboveB, decide_eq_true_eq]
    constructor
    · intro h1; omega
    · intro h1; have := hmin x hx h1; omega
  · -- the minimum above n-1 is still n
    cases hm : minAbove (n - 1) cs with
    | none =>
      exfalso
      have : ∀ (l : List Change), minAbove (n - 1) l = none → ∀ c, c ∈ l → ¬ c.sn > n - 1 := by
        intro l
        induction l with
        | nil => intro _ c hc; cases hc
        | cons y ys ihy =>
          intro hn c hc
          unfold minAbove at hn
          split at hn
          · split at hn
            · cases hn
            · rename_i hnn hy
              rcases List.mem_cons.mp hc with rfl | hc''
              · exact hy
              · exact ihy hnn c hc''
          · split at hn <;> cases hn
      exact this cs hm c0 hc0 (by omega)
    | some m =>
      obtain ⟨⟨c1, hc1, hc1sn⟩, hgt1, hmin1⟩ := minAbove_some hm
      have a := hmin1 c0 hc0 (by omega)
      have b := hmin c1 hc1 (by omega)
      have : m = n := by omega
      rw [this]

/-- progress measure of the unsent-changes loops -/
def unsentMeasure (cs : List Change) (hs : Nat) : Nat :=
  2 * above cs hs + (match minAbove hs cs with | some n => if n > hs + 1 then 1 else 0 | none => 0)

theorem unsentMeasure_le (cs : List Change) (hs : Nat) : unsentMeasure cs hs ≤ 2 * cs.length + 1 := by
  unfold unsentMeasure
  have := above_le cs hs
  split
  · split <;> omega
  · omega

theorem setSent_hs (p : RProxy) (n : Nat) (h : n > p.highestSent) : (p.setSent n).highestSent = n := by
  unfold RProxy.setSent; rw [if_pos h]

theorem measure_after_data (cs : List Change) (hs n : Nat) (h : minAbove hs cs = some n) :
    unsentMeasure cs n < unsentMeasure cs hs := by
  have h1 := above_next_lt cs hs n h
  have ha : (match minAbove n cs with | some m => if m > n + 1 then 1 else 0 | none => 0) ≤ 1 := by
    split
    · split <;> omega
    · omega
  unfold unsentMeasure
  rw [h]
  generalize (match minAbove n cs with | some m => if m > n + 1 then 1 else 0 | none => 0) = a at ha ⊢
  simp only
  split <;> omega

theorem measure_after_gap_fixed (cs : List Change) (hs n : Nat) (h : minAbove hs cs = some n) (hgap : n > hs + 1) :
    unsentMeasure cs (n - 1) < unsentMeasure cs hs := by
  obtain ⟨e1, e2⟩ := above_pred_eq cs hs n h hgap
  unfold unsentMeasure
  rw [e1, e2, h]
  have : ¬ n > n - 1 + 1 := by omega
  simp only [this, if_false, hgap, if_true]
  omega

theorem relUnsentLoop_complete (cfg : Cfg) (cs : List Change) (f now : Nat) (fuel : Nat) (p : RProxy) (acc : List Dgram)
    (hfuel : unsentMeasure cs p.highestSent < fuel) :
    minAbove (relUnsentLoop cfg cs f now fuel p acc).1.highestSent cs = none := by
  induction fuel generalizing p acc with
  | zero => omega
  | succ fuel ih =>
    unfold relUnsentLoop
    split
    · rename_i hnone; exact hnone
    · rename_i n hn
      have hgt := (minAbove_some hn).2.1
      split
      · rename_i hgap
        simp only
        split
        · apply ih
          have : ((p.genHb cs now).1.setSent (n - 1)).highestSent = n - 1 := setSent_hs _ _ (by simp [RProxy.genHb]; omega)
          rw [this]
          have := measure_after_gap_fixed cs p.highestSent n hn hgap
          omega
        · apply ih
          have : ((p.genHb cs now).1.setSent n).highestSent = n := setSent_hs _ _ (by simp [RProxy.genHb]; omega)
          rw [this]
          have := measure_after_data cs p.highestSent n hn
          omega
      · have hm := measure_after_data cs p.highestSent n hn
        split
        · simp only
          split
          · apply ih
            have : ((p.genHb cs now).1.setSent n).highestSent = n := setSent_hs _ _ (by simp [RProxy.genHb]; omega)
            rw [this]; omega
          · apply ih
            have : ((p.genHb cs now).1.setSent n).highestSent = n := setSent_hs _ _ (by simp [RProxy.genHb]; omega)
            rw [this]; omega
        · apply ih
          rw [setSent_hs _ _ hgt]; omega

theorem beLoop_complete (cfg : Cfg) (cs : List Change) (f : Nat) (fuel : Nat) (p : RProxy) (acc : List Dgram)
    (hfuel : unsentMeasure cs p.highestSent < fuel) :
    minAbove (beLoop cfg cs f fuel p acc).1.highestSent cs = none := by
  induction fuel generalizing p acc with
  | zero => omega
  | succ fuel ih =>
    unfold beLoop
    split
    · rename_i hnone; exact hnone
    · rename_i n hn
      have hgt := (minAbove_some hn).2.1
      split
      · rename_i hgap
        simp only
        split
        · apply ih
          rw [setSent_hs _ _ (by omega)]
          have := measure_after_gap_fixed cs p.highestSent n hn hgap
          omega
        · apply ih
          rw [setSent_hs _ _ hgt]
          have := measure_after_data cs p.highestSent n hn
          omega
      · have hm := measure_after_data cs p.highestSent n hn
        split
        · split
          · apply ih; rw [setSent_hs _ _ hgt]; omega
          · apply ih; rw [setSent_hs _ _ hgt]; omega
        · apply ih; rw [setSent_hs _ _ hgt]; omega

theorem filter_ne_length_lt (l : List Nat) (m : Nat) (h : m ∈ l) : (l.filter (neNat m)).length < l.length := by
  induction l with
  | nil => cases h
  | cons x xs ih =>
    have hle := List.length_filter_le (neNat m) xs
    by_cases hx : neNat m x = true
    · have hne : x ≠ m := by simpa [neNat] using hx
      have h' : m ∈ xs := by
        rcases List.mem_cons.mp h with rfl | h'
        · exact absurd rfl hne
        · exact h'
      have := ih h'
      rw [List.filter_cons_of_pos hx]
      simp only [List.length_cons]; omega
    · rw [List.filter_cons_of_neg hx]
      simp only [List.length_cons]; omega

theorem relRequestedLoop_complete (cs : List Change) (f now : Nat) (fuel : Nat) (p : RProxy) (acc : List Dgram)
    (hfuel : p.requested.length < fuel) : (relRequestedLoop cs f now fuel p acc).1.requested = [] := by
  induction fuel generalizing p acc with
  | zero => omega
  | succ fuel ih =>
    unfold relRequestedLoop
    split
    · rename_i hnone
      cases hreq : p.requested with
      | nil => rfl
      | cons x xs =>
        rw [hreq] at hnone
        unfold minNat at hnone
        split at hnone
        · cases hnone
        · split at hnone <;> cases hnone
    · rename_i m hm
      have hlt := filter_ne_length_lt p.requested m (minNat_mem hm)
      simp only
      split
      · split
        · apply ih; simp only [RProxy.genHb]; omega
        · apply ih; simp only [RProxy.genHb]; omega
      · apply ih; simp only; omega

end DustVerif.Rtps
