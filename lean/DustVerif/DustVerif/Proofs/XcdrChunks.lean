import DustVerif.Proofs.XcdrMembers
/-! The XCDR1 parameter-list walk (`seekPid1` over `emit1`) and the member look-up built on it. -/
namespace DustVerif.Xcdr

/-! ### XCDR1: walking the parameter list -/
/-- what the XCDR1 round trip needs of a present member: id below 2^14 and not 1, value of 1..65535 bytes -/
def C1 (c : Chunk) : Prop :=
  c.id % 2 ^ 16 < 2 ^ 14 ∧ c.id % 2 ^ 16 ≠ 1 ∧ 0 < (c.enc 0).1.length ∧ (c.enc 0).1.length < 2 ^ 16

theorem pid1_lt (c : Chunk) : pid1 c < 2 ^ 16 := Nat.mod_lt _ (by decide)

theorem pid1_mod (c : Chunk) (h : C1 c) : pid1 c % 2 ^ 14 = c.id % 2 ^ 16 := by
  unfold pid1
  have := h.1
  split <;> omega

/-- one step of `seek_to_pid` over a member that is not the one looked for -/
theorem seek1_skip (cfg : Cfg) (h61 : cfg.d61 = true) (e : Endian) (fuel tgt : Nat) (c : Chunk) (cs : List Chunk)
    (rest : Bytes) (hc : C1 c) (hne : c.id % 2 ^ 16 ≠ tgt) (p : Nat) (hp : p % 4 = 0) :
    seekPid1 e (fuel + 1) tgt ⟨(emit1 cfg e (c :: cs) p).1 ++ rest, p⟩ =
      seekPid1 e fuel tgt
        ⟨(emit1 cfg e cs (p + 4 + (c.enc 0).1.length + wPad .v1 4 (p + 4 + (c.enc 0).1.length))).1 ++ rest,
         p + 4 + (c.enc 0).1.length + wPad .v1 4 (p + 4 + (c.enc 0).1.length)⟩ := by
  have h0 := wPad4_of_aligned p hp
  obtain ⟨_, _, hpos, hlt⟩ := hc
  have hmod := pid1_mod c ⟨‹_›, ‹_›, hpos, hlt⟩
  simp only [emit1_cons cfg h61, h0, zeros, List.replicate_zero, List.nil_append, Nat.add_zero, List.append_assoc,
    Nat.mod_eq_of_lt hlt]
  rw [seekPid1, dU16_aligned e _ p _ (by omega) (pid1_lt c)]
  simp only [Res.bind]
  rw [dU16_aligned e _ (p + 2) _ (by omega) hlt]
  simp only [Res.bind, hmod]
  have hl0 : ((c.enc 0).1.length == 0) = false := beq_eq_false_iff_ne.mpr (by omega)
  have hne' : (c.id % 2 ^ 16 == tgt) = false := by simp [hne]
  simp only [hl0, Bool.and_false, Bool.false_eq_true, if_false, hne']
  have hs := rSeek_app (c.enc 0).1 ((emit1 cfg e cs (p + 4 + (c.enc 0).1.length)).1 ++ rest) (p + 2 + 2)
  rw [hs]
  simp only [Res.bind]
  rw [emit1_align cfg h61 e cs]
  simp only [List.append_assoc, rAlign, Ver.readAlign]
  have hp4 : p + 2 + 2 + (c.enc 0).1.length = p + 4 + (c.enc 0).1.length := by omega
  rw [hp4, ← wPad_v1_4, rSeek_zeros]

theorem seek1_found (cfg : Cfg) (h61 : cfg.d61 = true) (e : Endian) (tgt : Nat) (c : Chunk) (post : List Chunk)
    (rest : Bytes) (hc : C1 c) (hct : c.id % 2 ^ 16 = tgt) :
    ∀ (pre : List Chunk) (fuel : Nat), (∀ d ∈ pre, C1 d ∧ d.id % 2 ^ 16 ≠ tgt) → pre.length < fuel →
    ∀ p, p % 4 = 0 → ∃ q tail,
      seekPid1 e fuel tgt ⟨(emit1 cfg e (pre ++ c :: post) p).1 ++ rest, p⟩ =
        .ok (c.enc 0).1.length ⟨(c.enc 0).1 ++ tail, q⟩
  | [], fuel, _, hf, p, hp => by
    obtain ⟨fuel, rfl⟩ : ∃ f, fuel = f + 1 := ⟨fuel - 1, by omega⟩
    have h0 := wPad4_of_aligned p hp
    have hc' := hc
    obtain ⟨_, h1, hpos, hlt⟩ := hc'
    have hmod := pid1_mod c hc
    refine ⟨p + 2 + 2, (emit1 cfg e post (p + 4 + (c.enc 0).1.length)).1 ++ rest, ?_⟩
    simp only [List.nil_append, emit1_cons cfg h61, h0, zeros, List.replicate_zero, Nat.add_zero, List.append_assoc,
      Nat.mod_eq_of_lt hlt]
    rw [seekPid1, dU16_aligned e _ p _ (by omega) (pid1_lt c)]
    simp only [Res.bind]
    rw [dU16_aligned e _ (p + 2) _ (by omega) hlt]
    have hl0 : ((c.enc 0).1.length == 0) = false := beq_eq_false_iff_ne.mpr (by omega)
    simp only [Res.bind, hmod, hl0, Bool.and_false, Bool.false_eq_true, if_false, hct, beq_self_eq_true, if_true]
  | d :: pre, fuel, hpre, hf, p, hp => by
    obtain ⟨fuel, rfl⟩ : ∃ f, fuel = f + 1 := ⟨fuel - 1, by simp at hf; omega⟩
    have hd := hpre d (by simp)
    rw [List.cons_append, seek1_skip cfg h61 e fuel tgt d _ rest hd.1 hd.2 p hp]
    apply seek1_found cfg h61 e tgt c post rest hc hct pre fuel (fun x hx => hpre x (by simp [hx]))
      (by simp at hf; omega)
    have := padTo_dvd 4 (p + 4 + (d.enc 0).1.length) (by omega)
    rw [wPad_v1_4]; exact this

theorem seek1_end (cfg : Cfg) (h61 : cfg.d61 = true) (e : Endian) (tgt : Nat) (rest : Bytes) :
    ∀ (cs : List Chunk) (fuel : Nat), (∀ d ∈ cs, C1 d ∧ d.id % 2 ^ 16 ≠ tgt) → cs.length < fuel →
    ∀ p, p % 4 = 0 →
      seekPid1 e fuel tgt ⟨(emit1 cfg e cs p).1 ++ rest, p⟩ =
        (if tgt == 1 then .ok 0 ⟨rest, (emit1 cfg e cs p).2⟩ else .err .pidNotFound ⟨rest, (emit1 cfg e cs p).2⟩)
  | [], fuel, _, hf, p, hp => by
    obtain ⟨fuel, rfl⟩ : ∃ f, fuel = f + 1 := ⟨fuel - 1, by omega⟩
    have h0 := wPad4_of_aligned p hp
    simp only [emit1_nil, h0, zeros, List.replicate_zero, List.nil_append, Nat.add_zero, List.append_assoc]
    rw [seekPid1, dU16_aligned e 1 p _ (by omega) (by decide)]
    simp only [Res.bind]
    rw [dU16_aligned e 0 (p + 2) _ (by omega) (by decide)]
    simp [Res.bind]
  | d :: cs, fuel, hcs, hf, p, hp => by
    obtain ⟨fuel, rfl⟩ : ∃ f, fuel = f + 1 := ⟨fuel - 1, by simp at hf; omega⟩
    have hd := hcs d (by simp)
    rw [seek1_skip cfg h61 e fuel tgt d cs rest hd.1 hd.2 p hp]
    rw [seek1_end cfg h61 e tgt rest cs fuel (fun x hx => hcs x (by simp [hx])) (by simp at hf; omega)]
    · have h0 := wPad4_of_aligned p hp
      have ha := emit1_align cfg h61 e cs (p + 4 + (d.enc 0).1.length)
      simp only [emit1_cons cfg h61, h0, Nat.add_zero]
      rw [ha]
    · have := padTo_dvd 4 (p + 4 + (d.enc 0).1.length) (by omega)
      rw [wPad_v1_4]; exact this

/-! ### XCDR1: `deserialize_mmember` on a parameter list written by `emit1` -/
theorem rAlign_emit1 (cfg : Cfg) (h61 : cfg.d61 = true) (e : Endian) (cs : List Chunk) (p : Nat) (rest : Bytes) :
    rAlign .v1 4 ⟨(emit1 cfg e cs p).1 ++ rest, p⟩ =
      .ok () ⟨(emit1 cfg e cs (p + wPad .v1 4 p)).1 ++ rest, p + wPad .v1 4 p⟩ := by
  rw [emit1_align cfg h61 e cs p]
  simp only [List.append_assoc, rAlign, Ver.readAlign]
  rw [← wPad_v1_4, rSeek_zeros]

theorem rAlign_aligned (p : Nat) (hp : p % 4 = 0) (bs : Bytes) : rAlign .v1 4 ⟨bs, p⟩ = .ok () ⟨bs, p⟩ := by
  simp [rAlign, Ver.readAlign, padTo_of_mod 4 p (by omega) hp, rSeek]

theorem inj_of_nodup_map {α β : Type} (f : α → β) : ∀ (l : List α), (l.map f).Nodup →
    ∀ a ∈ l, ∀ b ∈ l, f a = f b → a = b := by
  intro l h a ha b hb hab
  induction l with
  | nil => cases ha
  | cons x xs ih =>
    simp only [List.map_cons, List.nodup_cons] at h
    rcases List.mem_cons.mp ha with rfl | ha' <;> rcases List.mem_cons.mp hb with rfl | hb'
    · rfl
    · exact absurd (hab ▸ List.mem_map_of_mem hb') h.1
    · exact absurd (hab ▸ List.mem_map_of_mem ha') h.1
    · exact ih h.2 ha' hb'

/-- a present member is found, its value decoded from its own slice (D45), the reader put back -/
theorem dMem1_present (cfg : Cfg) (h45 : cfg.d45 = true) (h61 : cfg.d61 = true) (e : Endian) (cs : List Chunk)
    (hC : ∀ d ∈ cs, C1 d) (hinj : ∀ a ∈ cs, ∀ b ∈ cs, a.id % 2 ^ 16 = b.id % 2 ^ 16 → a = b)
    (c : Chunk) (hc : c ∈ cs) (g : St → Res Val) (v : Val)
    (hg : ∃ q, g ⟨(c.enc 0).1, 0⟩ = .ok v ⟨[], q⟩)
    (p : Nat) (hp : p % 4 = 0) (rest : Bytes) :
    dMem1 cfg e g c.id ⟨(emit1 cfg e cs p).1 ++ rest, p⟩ = .ok v ⟨(emit1 cfg e cs p).1 ++ rest, p⟩ := by
  obtain ⟨pre, c', post, hcs, hc't, hpre⟩ := split_first (c.id % 2 ^ 16) cs ⟨c, hc, rfl⟩
  have hc'mem : c' ∈ cs := by rw [hcs]; simp
  have hcc : c' = c := hinj c' hc'mem c hc hc't
  subst hcc
  have hpreC : ∀ d ∈ pre, C1 d ∧ d.id % 2 ^ 16 ≠ c'.id % 2 ^ 16 := fun d hd =>
    ⟨hC d (by rw [hcs]; simp [hd]), hpre d hd⟩
  have hlen := emit1_len_ge cfg h61 e cs p
  have hfuel : pre.length < ((emit1 cfg e cs p).1 ++ rest).length + 1 := by
    have : pre.length ≤ cs.length := by rw [hcs]; simp
    simp only [List.length_append]; omega
  obtain ⟨q, tail, hs⟩ := seek1_found cfg h61 e (c'.id % 2 ^ 16) c' post rest (hC c' hc) rfl pre _ hpreC hfuel p hp
  obtain ⟨qg, hg⟩ := hg
  have hcl := (hC c' hc).2.2.1
  simp only [dMem1, rAlign_aligned p hp, Res.bind]
  rw [← hcs] at hs
  rw [hs]
  have hgt : (c'.enc 0).1.length > 0 := hcl
  have hle : (c'.enc 0).1.length ≤ ((c'.enc 0).1 ++ tail).length := by simp
  simp only [hgt, if_true, h45, hle, List.take_left', hg, Res.restore]

/-- a member without value is not found: the walk ends at the sentinel -/
theorem dMem1_absent (cfg : Cfg) (h61 : cfg.d61 = true) (e : Endian) (cs : List Chunk) (id : Nat)
    (hC : ∀ d ∈ cs, C1 d ∧ d.id % 2 ^ 16 ≠ id % 2 ^ 16) (g : St → Res Val)
    (p : Nat) (hp : p % 4 = 0) (rest : Bytes) :
    dMem1 cfg e g id ⟨(emit1 cfg e cs p).1 ++ rest, p⟩ = .ok .absent ⟨(emit1 cfg e cs p).1 ++ rest, p⟩ := by
  have hlen := emit1_len_ge cfg h61 e cs p
  have hfuel : cs.length < ((emit1 cfg e cs p).1 ++ rest).length + 1 := by
    simp only [List.length_append]; omega
  have hs := seek1_end cfg h61 e (id % 2 ^ 16) rest cs _ hC hfuel p hp
  simp only [dMem1, rAlign_aligned p hp, Res.bind, hs]
  by_cases h1 : (id % 2 ^ 16 == 1) = true <;> simp [h1]

/-- the closing `seek_to_pid(PID_SENTINEL)` ends behind the sentinel -/
theorem seek1_sentinel (cfg : Cfg) (h61 : cfg.d61 = true) (e : Endian) (cs : List Chunk)
    (hC : ∀ d ∈ cs, C1 d) (p : Nat) (hp : p % 4 = 0) (rest : Bytes) :
    seekPid1 e (((emit1 cfg e cs p).1 ++ rest).length + 1) 1 ⟨(emit1 cfg e cs p).1 ++ rest, p⟩ =
      .ok 0 ⟨rest, (emit1 cfg e cs p).2⟩ := by
  have hlen := emit1_len_ge cfg h61 e cs p
  have hfuel : cs.length < ((emit1 cfg e cs p).1 ++ rest).length + 1 := by
    simp only [List.length_append]; omega
  have hs := seek1_end cfg h61 e 1 rest cs _ (fun d hd => ⟨hC d hd, (hC d hd).2.1⟩) hfuel p hp
  simpa using hs

/-! ### members of the type vs. entries of the parameter list -/
/-- every member without value has an id (mod 2^16) that no entry of `cs` carries -/
def absOk (cs : List Chunk) : Ms → List Val → Prop
  | .cons id _ _ _ rest, f :: fs => (f = .absent → ∀ c ∈ cs, c.id % 2 ^ 16 ≠ id % 2 ^ 16) ∧ absOk cs rest fs
  | _, _ => True

theorem chunks_lowIds (cfg : Cfg) (ver : Ver) (e : Endian) : (ms : Ms) → (fs : List Val) →
    ∀ c ∈ chunks cfg ver e ms fs, c.id % 2 ^ 16 ∈ ms.lowIds
  | .nil, _, c, h => by simp [chunks] at h
  | .cons _ _ _ _ _, [], c, h => by simp [chunks] at h
  | .cons id opt mu t r, f :: fs, c, h => by
    have ih := chunks_lowIds cfg ver e r fs
    cases f <;> simp only [chunks, List.mem_cons] at h <;> simp only [Ms.lowIds, List.mem_cons]
    case absent => exact Or.inr (ih c h)
    all_goals
      rcases h with rfl | h
      · exact Or.inl rfl
      · exact Or.inr (ih c h)

theorem chunks_nodup (cfg : Cfg) (ver : Ver) (e : Endian) : (ms : Ms) → (fs : List Val) → ms.lowIds.Nodup →
    ((chunks cfg ver e ms fs).map fun c => c.id % 2 ^ 16).Nodup
  | .nil, _, _ => by simp [chunks]
  | .cons _ _ _ _ _, [], _ => by simp [chunks]
  | .cons id opt mu t r, f :: fs, h => by
    simp only [Ms.lowIds, List.nodup_cons] at h
    have ih := chunks_nodup cfg ver e r fs h.2
    have hsub := chunks_lowIds cfg ver e r fs
    cases f <;> simp only [chunks, List.map_cons, List.nodup_cons]
    case absent => exact ih
    all_goals
      refine ⟨?_, ih⟩
      intro hmem
      obtain ⟨c, hc, hce⟩ := List.mem_map.mp hmem
      exact h.1 (hce ▸ hsub c hc)

theorem absOk_cons (x : Chunk) (cs : List Chunk) : (ms : Ms) → (fs : List Val) → absOk cs ms fs →
    x.id % 2 ^ 16 ∉ ms.lowIds → absOk (x :: cs) ms fs
  | .nil, _, _, _ => by simp [absOk]
  | .cons _ _ _ _ _, [], _, _ => by simp [absOk]
  | .cons id opt mu t r, f :: fs, h, hx => by
    simp only [absOk] at h ⊢
    simp only [Ms.lowIds, List.mem_cons, not_or] at hx
    refine ⟨fun hf c hc => ?_, absOk_cons x cs r fs h.2 hx.2⟩
    rcases List.mem_cons.mp hc with rfl | hc
    · exact hx.1
    · exact h.1 hf c hc

theorem absOk_congr (cs cs' : List Chunk) (hsub : ∀ c, c ∈ cs' → c ∈ cs) : (ms : Ms) → (fs : List Val) →
    absOk cs ms fs → absOk cs' ms fs
  | .nil, _, _ => by simp [absOk]
  | .cons _ _ _ _ _, [], _ => by simp [absOk]
  | .cons id opt mu t r, f :: fs, h => by
    simp only [absOk] at h ⊢
    exact ⟨fun hf c hc => h.1 hf c (hsub c hc), absOk_congr cs cs' hsub r fs h.2⟩

theorem absOk_chunks (cfg : Cfg) (ver : Ver) (e : Endian) : (ms : Ms) → (fs : List Val) → ms.lowIds.Nodup →
    absOk (chunks cfg ver e ms fs) ms fs
  | .nil, _, _ => by simp [absOk]
  | .cons _ _ _ _ _, [], _ => by simp [absOk]
  | .cons id opt mu t r, f :: fs, h => by
    simp only [Ms.lowIds, List.nodup_cons] at h
    have ih := absOk_chunks cfg ver e r fs h.2
    have hsub := chunks_lowIds cfg ver e r fs
    cases f
    case absent =>
      simp only [absOk, chunks]
      exact ⟨fun _ c hc hce => h.1 (hce ▸ hsub c hc), ih⟩
    all_goals
      simp only [absOk, chunks]
      refine ⟨fun hf => (by cases hf), absOk_cons _ _ r fs ih ?_⟩
      exact h.1

/-- the present members of a well-formed XCDR1 mutable structure satisfy `C1` -/
theorem chunks_C1 (cfg : Cfg) (e : Endian) : (ms : Ms) → (fs : List Val) → wfM cfg .v1 ms fs = true →
    ∀ c ∈ chunks cfg .v1 e ms fs, C1 c
  | .nil, _, _, c, h => by simp [chunks] at h
  | .cons _ _ _ _ _, [], _, c, h => by simp [chunks] at h
  | .cons id opt mu t r, f :: fs, hw, c, h => by
    simp only [wfM, Bool.and_eq_true] at hw
    have ih := chunks_C1 cfg e r fs hw.2
    have hm := hw.1
    cases f <;> simp only [chunks, List.mem_cons] at h
    case absent => exact ih c h
    all_goals
      rcases h with rfl | h
      · simp only [Bool.and_eq_true, decide_eq_true_eq] at hm
        obtain ⟨hwf, ⟨⟨hid, hid1⟩, hsp⟩, hmax⟩ := hm
        have hf := serFacts cfg .v1 e t _ hwf 0
        exact ⟨hid, hid1, hf.2.1 hsp, Nat.lt_of_le_of_lt hf.1 hmax⟩
      · exact ih c h

theorem dMem1_prealign (cfg : Cfg) (e : Endian) (g : St → Res Val) (id : Nat) (s s0 : St)
    (h : rAlign .v1 4 s = .ok () s0) (h0 : rAlign .v1 4 s0 = .ok () s0) :
    dMem1 cfg e g id s = dMem1 cfg e g id s0 := by
  simp only [dMem1, h, h0, Res.bind]

end DustVerif.Xcdr
