import DustVerif.Model.Timer
/-! Lemma kit for the timer model: sortedness and membership of the heap operations, the wake loop, and the
    invariants of the Sleep / queue / thread system. -/
namespace DustVerif.Timer

/-- heap order invariant: every entry is at most as late as all entries behind it (top = earliest deadline) -/
def Sorted : List Entry → Prop
  | [] => True
  | a :: t => (∀ x, x ∈ t → a.deadline ≤ x.deadline) ∧ Sorted t

theorem mem_insertSorted (e x : Entry) (l : List Entry) : x ∈ insertSorted e l ↔ x = e ∨ x ∈ l := by
  induction l with
  | nil => simp [insertSorted]
  | cons y ys ih =>
    unfold insertSorted
    split
    · simp
    · simp only [List.mem_cons, ih]
      constructor
      · rintro (a | a | a)
        · exact Or.inr (Or.inl a)
        · exact Or.inl a
        · exact Or.inr (Or.inr a)
      · rintro (a | a | a)
        · exact Or.inr (Or.inl a)
        · exact Or.inl a
        · exact Or.inr (Or.inr a)

theorem sorted_insertSorted (e : Entry) (l : List Entry) (h : Sorted l) : Sorted (insertSorted e l) := by
  induction l with
  | nil => simp [insertSorted, Sorted]
  | cons y ys ih =>
    unfold insertSorted
    obtain ⟨h1, h2⟩ := h
    split
    · rename_i hlt
      refine ⟨?_, h1, h2⟩
      intro x hx
      rcases List.mem_cons.mp hx with a | a
      · subst a; omega
      · have := h1 x a; omega
    · rename_i hge
      refine ⟨?_, ih h2⟩
      intro x hx
      rcases (mem_insertSorted e x ys).mp hx with a | a
      · subst a; omega
      · exact h1 x a

theorem mem_removeId (id : Nat) (x : Entry) (l : List Entry) : x ∈ removeId id l ↔ x ∈ l ∧ x.id ≠ id := by
  induction l with
  | nil => simp [removeId]
  | cons y ys ih =>
    unfold removeId
    by_cases hy : y.id = id
    · simp only [hy, if_true, ih, List.mem_cons]
      constructor
      · rintro ⟨a, b⟩; exact ⟨Or.inr a, b⟩
      · rintro ⟨a | a, b⟩
        · subst a; exact absurd hy b
        · exact ⟨a, b⟩
    · simp only [hy, if_false, List.mem_cons, ih]
      constructor
      · rintro (a | ⟨a, b⟩)
        · subst a; exact ⟨Or.inl rfl, hy⟩
        · exact ⟨Or.inr a, b⟩
      · rintro ⟨a | a, b⟩
        · exact Or.inl a
        · exact Or.inr ⟨a, b⟩

theorem sorted_removeId (id : Nat) (l : List Entry) (h : Sorted l) : Sorted (removeId id l) := by
  induction l with
  | nil => simp [removeId, Sorted]
  | cons y ys ih =>
    unfold removeId
    obtain ⟨h1, h2⟩ := h
    split
    · exact ih h2
    · exact ⟨fun x hx => h1 x ((mem_removeId id x ys).mp hx).1, ih h2⟩

/-- the wake loop splits the heap: woken ++ rest = heap, every woken entry is elapsed; with the order invariant, no
    remaining entry is elapsed -/
theorem serviceLoop_spec (now : Nat) (l : List Entry) :
    (serviceLoop now l).1 ++ (serviceLoop now l).2 = l ∧
    (∀ x, x ∈ (serviceLoop now l).1 → x.deadline < now) ∧
    (Sorted l → Sorted (serviceLoop now l).2 ∧ ∀ x, x ∈ (serviceLoop now l).2 → now ≤ x.deadline) := by
  induction l with
  | nil => simp [serviceLoop, Sorted]
  | cons e es ih =>
    unfold serviceLoop
    obtain ⟨i1, i2, i3⟩ := ih
    split
    · rename_i hlt
      refine ⟨by simp [i1], ?_, ?_⟩
      · intro x hx
        rcases List.mem_cons.mp hx with a | a
        · subst a; exact hlt
        · exact i2 x a
      · intro hs; exact i3 hs.2
    · rename_i hge
      refine ⟨rfl, ?_, ?_⟩
      · intro x hx; cases hx
      intro hs
      refine ⟨hs, ?_⟩
      intro x hx
      rcases List.mem_cons.mp hx with a | a
      · subst a; omega
      · have := hs.1 x a; omega

theorem serviceLoop_mem (now : Nat) (l : List Entry) (x : Entry) :
    x ∈ l ↔ x ∈ (serviceLoop now l).1 ∨ x ∈ (serviceLoop now l).2 := by
  have := (serviceLoop_spec now l).1
  constructor
  · intro h; rw [← this] at h; exact List.mem_append.mp h
  · intro h; rw [← this]; exact List.mem_append.mpr h

/-- pop order is non-decreasing in the deadline -/
theorem serviceLoop_sorted_pops (now : Nat) (l : List Entry) (h : Sorted l) : Sorted (serviceLoop now l).1 := by
  induction l with
  | nil => simp [serviceLoop, Sorted]
  | cons e es ih =>
    unfold serviceLoop
    split
    · refine ⟨?_, ih h.2⟩
      intro x hx
      exact h.1 x ((serviceLoop_mem now es x).mpr (Or.inl hx))
    · simp [Sorted]

theorem hasId_iff (l : List Entry) (id : Nat) : hasId l id = true ↔ ∃ x, x ∈ l ∧ x.id = id := by
  induction l with
  | nil => simp [hasId]
  | cons y ys ih =>
    unfold hasId
    by_cases hy : y.id = id
    · simp only [hy, if_true, true_iff]; exact ⟨y, List.mem_cons_self, hy⟩
    · simp only [hy, if_false, ih]
      constructor
      · rintro ⟨x, a, b⟩; exact ⟨x, List.mem_cons_of_mem _ a, b⟩
      · rintro ⟨x, a, b⟩
        rcases List.mem_cons.mp a with e | e
        · subst e; exact absurd b hy
        · exact ⟨x, e, b⟩

/-! ## heap-level invariant -/

theorem heap_sorted_step (s : HeapSt) (h : Sorted s.heap) (op : HeapOp) : Sorted (s.step op).1.heap := by
  cases op with
  | push e => exact sorted_insertSorted e _ h
  | remove id => exact sorted_removeId id _ h
  | advance k => exact h
  | service => exact ((serviceLoop_spec s.now s.heap).2.2 h).1

theorem heap_sorted_run (s : HeapSt) (h : Sorted s.heap) (ops : List HeapOp) : Sorted (s.run ops).heap := by
  induction ops generalizing s with
  | nil => exact h
  | cons op ops ih => exact ih _ (heap_sorted_step s h op)

/-! ## system-level invariants -/

/-- does the heap hold an entry of `id` after the timer thread has applied all queued messages? -/
def residual (id : Nat) (b : Bool) : List Msg → Bool
  | [] => b
  | .wake e :: q => residual id (if e.id = id then true else b) q
  | .cancel i :: q => residual id (if i = id then false else b) q

theorem residual_append (id : Nat) (b : Bool) (q : List Msg) (m : Msg) :
    residual id b (q ++ [m]) = residual id (residual id b q) [m] := by
  induction q generalizing b with
  | nil => rfl
  | cons x xs ih => cases x <;> simp [residual, ih]

theorem residual_mono (id : Nat) (q : List Msg) (h : residual id true q = false) : residual id false q = false := by
  induction q with
  | nil => simp [residual] at h
  | cons x xs ih =>
    cases x with
    | wake e =>
      simp only [residual] at h ⊢
      by_cases he : e.id = id
      · simpa [he] using h
      · simp only [he, if_false] at h ⊢; exact ih h
    | cancel i =>
      simp only [residual] at h ⊢
      by_cases hi : i = id
      · simpa [hi] using h
      · simp only [hi, if_false] at h ⊢; exact ih h

theorem hasId_insertSorted (e : Entry) (l : List Entry) (id : Nat) :
    hasId (insertSorted e l) id = (if e.id = id then true else hasId l id) := by
  cases h : hasId (insertSorted e l) id with
  | true =>
    obtain ⟨x, hx, hxi⟩ := (hasId_iff _ _).mp h
    rcases (mem_insertSorted e x l).mp hx with a | a
    · subst a; simp [hxi]
    · have : hasId l id = true := (hasId_iff _ _).mpr ⟨x, a, hxi⟩
      simp [this]
  | false =>
    by_cases he : e.id = id
    · have : hasId (insertSorted e l) id = true :=
        (hasId_iff _ _).mpr ⟨e, (mem_insertSorted e e l).mpr (Or.inl rfl), he⟩
      rw [this] at h; cases h
    · simp only [he, if_false]
      cases h2 : hasId l id with
      | false => rfl
      | true =>
        obtain ⟨x, hx, hxi⟩ := (hasId_iff _ _).mp h2
        have : hasId (insertSorted e l) id = true :=
          (hasId_iff _ _).mpr ⟨x, (mem_insertSorted e x l).mpr (Or.inr hx), hxi⟩
        rw [this] at h; cases h

theorem hasId_removeId (i : Nat) (l : List Entry) (id : Nat) :
    hasId (removeId i l) id = (if i = id then false else hasId l id) := by
  cases h : hasId (removeId i l) id with
  | true =>
    obtain ⟨x, hx, hxi⟩ := (hasId_iff _ _).mp h
    obtain ⟨a, b⟩ := (mem_removeId i x l).mp hx
    have hne : ¬ i = id := by intro e; exact b (by rw [hxi, e])
    have : hasId l id = true := (hasId_iff _ _).mpr ⟨x, a, hxi⟩
    simp [hne, this]
  | false =>
    by_cases hi : i = id
    · simp [hi]
    · simp only [hi, if_false]
      cases h2 : hasId l id with
      | false => rfl
      | true =>
        obtain ⟨x, hx, hxi⟩ := (hasId_iff _ _).mp h2
        have : hasId (removeId i l) id = true :=
          (hasId_iff _ _).mpr ⟨x, (mem_removeId i x l).mpr ⟨hx, by rw [hxi]; exact fun e => hi e.symm⟩, hxi⟩
        rw [this] at h; cases h

/-- applying the head message and then the rest is the same residual -/
theorem residual_recv (id : Nat) (h : List Entry) (m : Msg) (q : List Msg) :
    residual id (hasId (applyMsg h m) id) q = residual id (hasId h id) (m :: q) := by
  cases m with
  | wake e => simp [residual, applyMsg, hasId_insertSorted]
  | cancel i => simp [residual, applyMsg, hasId_removeId]

def wakeMsgOf (id : Nat) (m : Msg) : Bool :=
  match m with
  | .wake e => decide (e.id = id)
  | .cancel _ => false

def cancelMsgOf (id : Nat) (m : Msg) : Bool :=
  match m with
  | .wake _ => false
  | .cancel i => decide (i = id)

structure Inv (s : Sys) : Prop where
  sorted : Sorted s.heap
  /-- a dropped sleep is gone from the heap once the queued messages are applied -/
  dropped_clean : ∀ id, s.dropped id = true → residual id (hasId s.heap id) s.queue = false
  dropped_dead : ∀ id, s.dropped id = true → s.sleeps id = none ∧ s.armed id = false
  /-- no cancel message is queued for a live sleep -/
  live_no_cancel : ∀ id, s.dropped id = false → ∀ m, m ∈ s.queue → cancelMsgOf id m = false
  /-- an armed sleep has its deadline set and an entry with that deadline in the heap or in the queue -/
  armed_entry : ∀ id, s.armed id = true → ∃ x d, s.sleeps id = some x ∧ x.deadline = some d ∧
    (({ id := id, deadline := d } : Entry) ∈ s.heap ∨ Msg.wake { id := id, deadline := d } ∈ s.queue)
  /-- the deadline of a sleep is the time of its first poll plus its duration; unpolled sleeps have none -/
  deadline_def : ∀ id x, s.sleeps id = some x →
    (x.deadline = none ∧ s.started id = none) ∨ (∃ t, s.started id = some t ∧ x.deadline = some (t + x.dur) ∧ t ≤ s.now)
  /-- every entry in the heap or the queue that belongs to a live sleep carries that sleep's deadline -/
  entries_match : ∀ id x, s.sleeps id = some x → ∀ e, e.id = id → (e ∈ s.heap ∨ Msg.wake e ∈ s.queue) →
    x.deadline = some e.deadline
  /-- entries only exist for ids that were created -/
  entries_known : ∀ e, (e ∈ s.heap ∨ Msg.wake e ∈ s.queue) → (s.sleeps e.id).isSome = true ∨ s.dropped e.id = true
  /-- an id that was never created has never been polled -/
  fresh : ∀ id, s.sleeps id = none → s.dropped id = false → s.started id = none

@[simp] theorem upd_same {α : Type} (f : Nat → α) (i : Nat) (v : α) : upd f i v i = v := by simp [upd]
theorem upd_other {α : Type} (f : Nat → α) (i j : Nat) (v : α) (h : j ≠ i) : upd f i v j = f j := by simp [upd, h]

theorem Inv.init : Inv Sys.init := by
  refine ⟨?_, ?_, ?_, ?_, ?_, ?_, ?_, ?_, ?_⟩ <;> simp [Sys.init, Sorted, residual, hasId]

theorem residual_single_wake (id : Nat) (b : Bool) (e : Entry) (h : e.id ≠ id) : residual id b [.wake e] = b := by
  simp [residual, h]

theorem residual_single_cancel (id : Nat) (b : Bool) (i : Nat) :
    residual id b [.cancel i] = (if i = id then false else b) := by
  simp [residual]

theorem Inv.sleep_step (s : Sys) (h : Inv s) (id dur : Nat) : Inv (s.step (.sleep id dur)).1 := by
  simp only [Sys.step]
  split
  · exact h
  · rename_i hlegal
    have hnone : s.sleeps id = none := by
      cases hs : s.sleeps id with
      | none => rfl
      | some x => simp [hs] at hlegal
    have hnd : s.dropped id = false := by
      cases hd : s.dropped id with
      | false => rfl
      | true => simp [hd] at hlegal
    have hnoent : ∀ e, e.id = id → ¬ (e ∈ s.heap ∨ Msg.wake e ∈ s.queue) := by
      intro e he hmem
      rcases h.entries_known e hmem with a | a
      · rw [he, hnone] at a; cases a
      · rw [he, hnd] at a; cases a
    refine ⟨h.sorted, h.dropped_clean, ?_, h.live_no_cancel, ?_, ?_, ?_, ?_, ?_⟩
    · intro id' hd
      have hne : id' ≠ id := by intro e; rw [e, hnd] at hd; cases hd
      simp only [upd_other _ _ _ _ hne]
      exact h.dropped_dead id' hd
    · intro id' ha
      have hne : id' ≠ id := by
        intro e
        obtain ⟨x, d, hx, _⟩ := h.armed_entry id' ha
        rw [e, hnone] at hx; cases hx
      simp only [upd_other _ _ _ _ hne]
      exact h.armed_entry id' ha
    · intro id' x hx
      by_cases hne : id' = id
      · subst hne
        simp only [upd_same] at hx
        cases hx
        exact Or.inl ⟨rfl, h.fresh id' hnone hnd⟩
      · simp only [upd_other _ _ _ _ hne] at hx
        exact h.deadline_def id' x hx
    · intro id' x hx e he hmem
      by_cases hne : id' = id
      · subst hne; exact absurd hmem (hnoent e he)
      · simp only [upd_other _ _ _ _ hne] at hx
        exact h.entries_match id' x hx e he hmem
    · intro e hmem
      rcases h.entries_known e hmem with a | a
      · left
        by_cases hne : e.id = id
        · rw [hne]; simp
        · simp only [upd_other _ _ _ _ hne]; exact a
      · exact Or.inr a
    · intro id' hs hd
      have hne : id' ≠ id := by intro e; rw [e] at hs; simp at hs
      simp only [upd_other _ _ _ _ hne] at hs
      exact h.fresh id' hs hd

theorem Inv.advance_step (s : Sys) (h : Inv s) (k : Nat) : Inv (s.step (.advance k)).1 := by
  simp only [Sys.step]
  refine ⟨h.sorted, h.dropped_clean, h.dropped_dead, h.live_no_cancel, h.armed_entry, ?_, h.entries_match,
    h.entries_known, h.fresh⟩
  intro id x hx
  rcases h.deadline_def id x hx with a | ⟨t, a, b, c⟩
  · exact Or.inl a
  · exact Or.inr ⟨t, a, b, by simp only; omega⟩

theorem hasId_of_subset (l l' : List Entry) (id : Nat) (hsub : ∀ x, x ∈ l' → x ∈ l) (h : hasId l' id = true) :
    hasId l id = true := by
  obtain ⟨x, hx, hxi⟩ := (hasId_iff _ _).mp h
  exact (hasId_iff _ _).mpr ⟨x, hsub x hx, hxi⟩

theorem Inv.service_step (s : Sys) (h : Inv s) : Inv (s.step .service).1 := by
  simp only [Sys.step]
  have hspec := serviceLoop_spec s.now s.heap
  have hsub : ∀ x, x ∈ (serviceLoop s.now s.heap).2 → x ∈ s.heap :=
    fun x hx => (serviceLoop_mem s.now s.heap x).mpr (Or.inr hx)
  refine ⟨(hspec.2.2 h.sorted).1, ?_, ?_, h.live_no_cancel, ?_, h.deadline_def, ?_, ?_, h.fresh⟩
  · intro id hd
    have hold := h.dropped_clean id hd
    cases hr : hasId (serviceLoop s.now s.heap).2 id with
    | true =>
      have := hasId_of_subset _ _ id hsub hr
      rw [this] at hold; exact hold
    | false =>
      cases hh : hasId s.heap id with
      | false => rw [hh] at hold; exact hold
      | true => rw [hh] at hold; exact residual_mono id _ hold
  · intro id hd
    obtain ⟨a, b⟩ := h.dropped_dead id hd
    refine ⟨a, ?_⟩
    simp only [disarm, b]; split <;> rfl
  · intro id ha
    simp only [disarm] at ha
    by_cases hp : hasId (serviceLoop s.now s.heap).1 id = true
    · simp [hp] at ha
    · simp only [hp] at ha
      obtain ⟨x, d, hx, hd, hmem⟩ := h.armed_entry id ha
      refine ⟨x, d, hx, hd, ?_⟩
      rcases hmem with a | a
      · rcases (serviceLoop_mem s.now s.heap _).mp a with b | b
        · exact absurd ((hasId_iff _ _).mpr ⟨_, b, rfl⟩) hp
        · exact Or.inl b
      · exact Or.inr a
  · intro id x hx e he hmem
    exact h.entries_match id x hx e he (hmem.elim (fun a => Or.inl (hsub e a)) Or.inr)
  · intro e hmem
    exact h.entries_known e (hmem.elim (fun a => Or.inl (hsub e a)) Or.inr)

theorem Inv.recv_step (s : Sys) (h : Inv s) : Inv (s.step .recv).1 := by
  simp only [Sys.step]
  cases hq : s.queue with
  | nil => simp only; exact h
  | cons m q =>
    simp only
    have hqm : ∀ x, x ∈ q → x ∈ s.queue := by intro x hx; rw [hq]; exact List.mem_cons_of_mem _ hx
    -- membership after applying the message, in terms of the old heap / queue
    have hback : ∀ e, (e ∈ applyMsg s.heap m ∨ Msg.wake e ∈ q) → (e ∈ s.heap ∨ Msg.wake e ∈ s.queue) := by
      intro e hmem
      rcases hmem with a | a
      · cases m with
        | wake e0 =>
          rcases (mem_insertSorted e0 e s.heap).mp a with b | b
          · right; rw [hq, b]; exact List.mem_cons_self
          · exact Or.inl b
        | cancel i => exact Or.inl ((mem_removeId i e s.heap).mp a).1
      · exact Or.inr (hqm _ a)
    refine ⟨?_, ?_, h.dropped_dead, ?_, ?_, h.deadline_def, ?_, ?_, h.fresh⟩
    · cases m with
      | wake e0 => exact sorted_insertSorted e0 _ h.sorted
      | cancel i => exact sorted_removeId i _ h.sorted
    · intro id hd
      rw [residual_recv]
      have := h.dropped_clean id hd
      rw [hq] at this; exact this
    · intro id hd x hx
      exact h.live_no_cancel id hd x (hqm x hx)
    · intro id ha
      obtain ⟨x, d, hx, hd, hmem⟩ := h.armed_entry id ha
      refine ⟨x, d, hx, hd, ?_⟩
      have hlive : s.dropped id = false := by
        cases hdr : s.dropped id with
        | false => rfl
        | true => have := (h.dropped_dead id hdr).2; rw [ha] at this; cases this
      cases m with
      | wake e0 =>
        rcases hmem with a | a
        · exact Or.inl ((mem_insertSorted e0 _ s.heap).mpr (Or.inr a))
        · rw [hq] at a
          rcases List.mem_cons.mp a with b | b
          · left
            have : ({ id := id, deadline := d } : Entry) = e0 := by cases b; rfl
            exact (mem_insertSorted e0 _ s.heap).mpr (Or.inl this)
          · exact Or.inr b
      | cancel i =>
        have hnc := h.live_no_cancel id hlive (.cancel i) (by rw [hq]; exact List.mem_cons_self)
        have hne : i ≠ id := by simpa [cancelMsgOf] using hnc
        rcases hmem with a | a
        · exact Or.inl ((mem_removeId i _ s.heap).mpr ⟨a, fun e => hne e.symm⟩)
        · rw [hq] at a
          rcases List.mem_cons.mp a with b | b
          · cases b
          · exact Or.inr b
    · intro id x hx e he hmem
      exact h.entries_match id x hx e he (hback e hmem)
    · intro e hmem
      exact h.entries_known e (hback e hmem)

theorem mem_wake_append_cancel (e : Entry) (q : List Msg) (i : Nat) :
    Msg.wake e ∈ q ++ [Msg.cancel i] ↔ Msg.wake e ∈ q := by
  simp

theorem Inv.drop_step (s : Sys) (h : Inv s) (id : Nat) : Inv (s.step (.drop id)).1 := by
  simp only [Sys.step]
  cases hs : s.sleeps id with
  | none => simp only; exact h
  | some x0 =>
    simp only
    have hlive : s.dropped id = false := by
      cases hdr : s.dropped id with
      | false => rfl
      | true => have := (h.dropped_dead id hdr).1; rw [hs] at this; cases this
    refine ⟨h.sorted, ?_, ?_, ?_, ?_, ?_, ?_, ?_, ?_⟩
    · intro id' hd
      rw [residual_append, residual_single_cancel]
      by_cases hne : id' = id
      · subst hne; simp
      · have hne' : ¬ id = id' := fun e => hne e.symm
        simp only [hne', if_false]
        simp only [upd_other _ _ _ _ hne] at hd
        exact h.dropped_clean id' hd
    · intro id' hd
      by_cases hne : id' = id
      · subst hne; simp
      · simp only [upd_other _ _ _ _ hne] at hd ⊢
        exact h.dropped_dead id' hd
    · intro id' hd m hm
      have hne : id' ≠ id := by intro e; subst e; simp at hd
      simp only [upd_other _ _ _ _ hne] at hd
      rcases List.mem_append.mp hm with a | a
      · exact h.live_no_cancel id' hd m a
      · rcases List.mem_singleton.mp a with rfl
        simp [cancelMsgOf]; exact fun e => hne e.symm
    · intro id' ha
      have hne : id' ≠ id := by intro e; subst e; simp at ha
      simp only [upd_other _ _ _ _ hne] at ha ⊢
      obtain ⟨x, d, hx, hd, hmem⟩ := h.armed_entry id' ha
      exact ⟨x, d, hx, hd, hmem.elim Or.inl (fun a => Or.inr (List.mem_append.mpr (Or.inl a)))⟩
    · intro id' x hx
      have hne : id' ≠ id := by intro e; subst e; simp at hx
      simp only [upd_other _ _ _ _ hne] at hx
      exact h.deadline_def id' x hx
    · intro id' x hx e he hmem
      have hne : id' ≠ id := by intro e; subst e; simp at hx
      simp only [upd_other _ _ _ _ hne] at hx
      rw [mem_wake_append_cancel] at hmem
      exact h.entries_match id' x hx e he hmem
    · intro e hmem
      rw [mem_wake_append_cancel] at hmem
      by_cases hne : e.id = id
      · right; rw [hne]; simp
      · simp only [upd_other _ _ _ _ hne]
        exact h.entries_known e hmem
    · intro id' hsn hd
      have hne : id' ≠ id := by intro e; subst e; simp at hd
      simp only [upd_other _ _ _ _ hne] at hsn hd
      exact h.fresh id' hsn hd


theorem poll_cases (x : SleepSt) (id now : Nat) :
    (∃ d, x.deadline = some d ∧ now > d ∧ x.poll id now = (x, .ready, none)) ∨
    (∃ d, x.deadline = some d ∧ ¬ now > d ∧ x.poll id now = (x, .pending, some (.wake { id := id, deadline := d }))) ∨
    (x.deadline = none ∧ x.poll id now =
      ({ x with deadline := some (now + x.dur) }, .pending, some (.wake { id := id, deadline := now + x.dur }))) := by
  unfold SleepSt.poll
  cases hd : x.deadline with
  | none => right; right; exact ⟨rfl, rfl⟩
  | some d =>
    by_cases hn : now > d
    · left; exact ⟨d, rfl, hn, by simp [hn]⟩
    · right; left; exact ⟨d, rfl, hn, by simp [hn]⟩

/-- poll that queues a wake message for `id` with deadline `d`; `x'` is the sleep afterwards -/
theorem Inv.poll_pending (s : Sys) (h : Inv s) (id : Nat) (x x' : SleepSt) (d : Nat) (started' : Nat → Option Nat)
    (hs : s.sleeps id = some x) (hx' : x'.deadline = some d) (hdur : x'.dur = x.dur)
    (hold : x.deadline = some d ∨ x.deadline = none)
    (hst : ∀ j, j ≠ id → started' j = s.started j)
    (hst2 : ∃ t, started' id = some t ∧ d = t + x.dur ∧ t ≤ s.now) :
    Inv { s with sleeps := upd s.sleeps id (some x'), queue := s.queue ++ [.wake { id := id, deadline := d }],
                 started := started', armed := upd s.armed id true } := by
  have hlive : s.dropped id = false := by
    cases hdr : s.dropped id with
    | false => rfl
    | true => have := (h.dropped_dead id hdr).1; rw [hs] at this; cases this
  refine ⟨h.sorted, ?_, ?_, ?_, ?_, ?_, ?_, ?_, ?_⟩
  · intro id' hd
    have hne : id ≠ id' := by intro e; subst e; rw [hlive] at hd; cases hd
    rw [residual_append, residual_single_wake _ _ _ hne]
    exact h.dropped_clean id' hd
  · intro id' hd
    have hne : id' ≠ id := by intro e; subst e; rw [hlive] at hd; cases hd
    simp only [upd_other _ _ _ _ hne]
    exact h.dropped_dead id' hd
  · intro id' hd m hm
    rcases List.mem_append.mp hm with a | a
    · exact h.live_no_cancel id' hd m a
    · rcases List.mem_singleton.mp a with rfl; rfl
  · intro id' ha
    by_cases hne : id' = id
    · subst hne
      simp only [upd_same]
      exact ⟨x', d, rfl, hx', Or.inr (List.mem_append.mpr (Or.inr List.mem_cons_self))⟩
    · simp only [upd_other _ _ _ _ hne] at ha ⊢
      obtain ⟨y, dy, hy, hdy, hmem⟩ := h.armed_entry id' ha
      exact ⟨y, dy, hy, hdy, hmem.elim Or.inl (fun a => Or.inr (List.mem_append.mpr (Or.inl a)))⟩
  · intro id' y hy
    by_cases hne : id' = id
    · subst hne
      simp only [upd_same] at hy
      cases hy
      obtain ⟨t, a, b, c⟩ := hst2
      exact Or.inr ⟨t, a, by rw [hx', hdur, b], c⟩
    · simp only [upd_other _ _ _ _ hne] at hy
      simp only [hst id' hne]
      exact h.deadline_def id' y hy
  · intro id' y hy e he hmem
    by_cases hne : id' = id
    · subst hne
      simp only [upd_same] at hy
      cases hy
      rw [hx']
      -- old entries carry the old deadline; the new entry carries d
      have hnew_or_old : (e ∈ s.heap ∨ Msg.wake e ∈ s.queue) ∨ e = { id := id', deadline := d } := by
        rcases hmem with a | a
        · exact Or.inl (Or.inl a)
        · rcases List.mem_append.mp a with b | b
          · exact Or.inl (Or.inr b)
          · right
            rcases List.mem_singleton.mp b with b'
            cases b'; rfl
      rcases hnew_or_old with a | a
      · have := h.entries_match id' x hs e he a
        rcases hold with b | b
        · rw [b] at this; exact this
        · rw [b] at this; cases this
      · rw [a]
    · simp only [upd_other _ _ _ _ hne] at hy
      have hmem' : e ∈ s.heap ∨ Msg.wake e ∈ s.queue := by
        rcases hmem with a | a
        · exact Or.inl a
        · rcases List.mem_append.mp a with b | b
          · exact Or.inr b
          · exfalso
            rcases List.mem_singleton.mp b with b'
            cases b'
            exact hne he.symm
      exact h.entries_match id' y hy e he hmem'
  · intro e hmem
    by_cases hne : e.id = id
    · left; rw [hne]; simp
    · simp only [upd_other _ _ _ _ hne]
      have hmem' : e ∈ s.heap ∨ Msg.wake e ∈ s.queue := by
        rcases hmem with a | a
        · exact Or.inl a
        · rcases List.mem_append.mp a with b | b
          · exact Or.inr b
          · exfalso
            rcases List.mem_singleton.mp b with b'
            cases b'
            exact hne rfl
      exact h.entries_known e hmem'
  · intro id' hsn hd
    have hne : id' ≠ id := by intro e; subst e; simp at hsn
    simp only [upd_other _ _ _ _ hne] at hsn
    simp only [hst id' hne]
    exact h.fresh id' hsn hd

theorem Inv.poll_step (s : Sys) (h : Inv s) (id : Nat) : Inv (s.step (.poll id)).1 := by
  simp only [Sys.step]
  cases hs : s.sleeps id with
  | none => simp only; exact h
  | some x =>
    simp only
    have hdd := h.deadline_def id x hs
    rcases poll_cases x id s.now with ⟨d, hd, hn, hp⟩ | ⟨d, hd, hn, hp⟩ | ⟨hd, hp⟩
    · -- ready: nothing changes but `armed id := false`
      rw [hp]
      have hst : ∃ t, s.started id = some t := by
        rcases hdd with ⟨a, _⟩ | ⟨t, a, _⟩
        · rw [hd] at a; cases a
        · exact ⟨t, a⟩
      obtain ⟨t, hst⟩ := hst
      simp only [hst]
      have hsl : upd s.sleeps id (some x) = s.sleeps := by
        funext j; by_cases hj : j = id
        · subst hj; simp [hs]
        · simp [upd_other _ _ _ _ hj]
      rw [hsl]
      refine ⟨h.sorted, h.dropped_clean, ?_, h.live_no_cancel, ?_, h.deadline_def, h.entries_match, h.entries_known, h.fresh⟩
      · intro id' hdr
        obtain ⟨a, b⟩ := h.dropped_dead id' hdr
        refine ⟨a, ?_⟩
        by_cases hj : id' = id
        · subst hj; simp
        · simp only [upd_other _ _ _ _ hj]; exact b
      · intro id' ha
        have hj : id' ≠ id := by intro e; subst e; simp at ha
        simp only [upd_other _ _ _ _ hj] at ha
        exact h.armed_entry id' ha
    · -- pending with the deadline already set
      rw [hp]
      obtain ⟨t, hst, hdl, hle⟩ : ∃ t, s.started id = some t ∧ x.deadline = some (t + x.dur) ∧ t ≤ s.now := by
        rcases hdd with ⟨a, _⟩ | b
        · rw [hd] at a; cases a
        · exact b
      simp only [hst]
      have hdeq : d = t + x.dur := by rw [hd] at hdl; cases hdl; rfl
      have := Inv.poll_pending s h id x x d s.started hs hd rfl (Or.inl hd) (fun _ _ => rfl) ⟨t, hst, hdeq, hle⟩
      simpa using this
    · -- first poll: the deadline is set now
      rw [hp]
      have hst : s.started id = none := by
        rcases hdd with ⟨_, a⟩ | ⟨t, _, b, _⟩
        · exact a
        · rw [hd] at b; cases b
      simp only [hst]
      have := Inv.poll_pending s h id x { x with deadline := some (s.now + x.dur) } (s.now + x.dur)
        (upd s.started id (some s.now)) hs rfl rfl (Or.inr hd)
        (fun j hj => upd_other _ _ _ _ hj) ⟨s.now, by simp, rfl, Nat.le_refl _⟩
      simpa using this

theorem Inv.step (s : Sys) (h : Inv s) (op : Op) : Inv (s.step op).1 := by
  cases op with
  | sleep id dur => exact Inv.sleep_step s h id dur
  | poll id => exact Inv.poll_step s h id
  | drop id => exact Inv.drop_step s h id
  | recv => exact Inv.recv_step s h
  | service => exact Inv.service_step s h
  | advance k => exact Inv.advance_step s h k

theorem Inv.run (s : Sys) (h : Inv s) (ops : List Op) : Inv (s.run ops) := by
  induction ops generalizing s with
  | nil => exact h
  | cons op ops ih => exact ih _ (Inv.step s h op)

end DustVerif.Timer
