import DustVerif.Proofs.XcdrBasics
/-! Round trip of the sequential part of the XCDR model (everything but mutable structures). -/
namespace DustVerif.Xcdr

theorem le_sumNat_of_mem {x : Nat} {xs : List Nat} (h : x ∈ xs) : x ≤ sumNat xs := by
  induction xs with
  | nil => cases h
  | cons y ys ih =>
    simp only [List.mem_cons] at h
    simp only [sumNat]
    rcases h with h | h
    · omega
    · have := ih h; omega

/-- the round-trip statement for one value: decoding `ser … ++ rest` at the same position gives the value,
    the untouched remainder, and the serializer's final position -/
def RT (cfg : Cfg) (ver : Ver) (e : Endian) (t : Ty) (v : Val) : Prop :=
  ∀ pos rest, de cfg ver e t ⟨(ser cfg ver e t v pos).1 ++ rest, pos⟩ = .ok v ⟨rest, (ser cfg ver e t v pos).2⟩

theorem wList_length_ge (f : Val → Nat → W) (vs : List Val)
    (h : ∀ v ∈ vs, ∀ pos, 1 ≤ (f v pos).1.length) (pos : Nat) :
    vs.length ≤ (wList f vs pos).1.length := by
  induction vs generalizing pos with
  | nil => simp [wList]
  | cons v vs ih =>
    simp only [wList, List.length_cons, List.length_append]
    have h1 := h v (by simp) pos
    have h2 := ih (fun w hw => h w (by simp [hw])) (f v pos).2
    omega

theorem growCap_lt (sz len cap : Nat) (h : len < cap) : growCap sz len cap = cap := by
  unfold growCap
  have : (len == cap) = false := by simp; omega
  simp [this]

theorem dList_wList (sz : Nat) (f : Val → Nat → W) (g : St → Res Val) (vs : List Val)
    (hfg : ∀ v ∈ vs, ∀ pos rest, g ⟨(f v pos).1 ++ rest, pos⟩ = .ok v ⟨rest, (f v pos).2⟩)
    (len cap : Nat) (hcap : len + vs.length ≤ cap) (hsz : cap * sz ≤ ALLOC_LIMIT) (pos : Nat) (rest : Bytes) :
    dList sz g vs.length len cap ⟨(wList f vs pos).1 ++ rest, pos⟩ = .ok vs ⟨rest, (wList f vs pos).2⟩ := by
  induction vs generalizing len pos with
  | nil => simp [dList, wList]
  | cons v vs ih =>
    simp only [List.length_cons] at hcap
    simp only [List.length_cons, dList, wList, List.append_assoc]
    rw [hfg v (by simp)]
    have hg : growCap sz len cap = cap := growCap_lt sz len cap (by omega)
    simp only [Res.bind, hg, hsz, if_true]
    rw [ih (fun w hw => hfg w (by simp [hw])) (len + 1) (by omega)]

theorem primOk_u32 (n : Nat) (h : n < 2 ^ 32) : primOk .u32 n = true := by
  have e : (256 : Nat) ^ 4 = 2 ^ 32 := by decide
  simp [primOk, Prim.size, e, h]

theorem dUnits_wList (ver : Ver) (e : Endian) : ∀ (us : List Val) (pos : Nat) (rest : Bytes),
    (∀ v ∈ us, unitOk v = true) →
    dUnits ver e us.length ⟨(wList (fun v p => wPrim ver e .u16 v.unit p) us pos).1 ++ rest, pos⟩ =
      .ok us ⟨rest, (wList (fun v p => wPrim ver e .u16 v.unit p) us pos).2⟩
  | [], pos, rest, _ => by simp [dUnits, wList]
  | v :: us, pos, rest, h => by
    have hv := h v (by simp)
    cases v with
    | num n =>
      simp only [unitOk] at hv
      have hun : (Val.num n).unit = n := rfl
      simp only [List.length_cons, dUnits, wList, hun, List.append_assoc]
      rw [dPrim_wPrim ver e .u16 n pos _ hv]
      simp only [Res.bind]
      rw [dUnits_wList ver e us _ rest (fun w hw => h w (by simp [hw]))]
    | str _ => simp [unitOk] at hv
    | list _ => simp [unitOk] at hv
    | struct _ => simp [unitOk] at hv
    | absent => simp [unitOk] at hv

/-- wide strings: `deserialize_wstring_type` on the output of `serialize_wstring_type` -/
theorem dWStr_wWStr (ver : Ver) (e : Endian) (us : List Val) (pos : Nat) (rest : Bytes)
    (hu : ∀ v ∈ us, unitOk v = true) (hv : utf16Valid (us.map Val.unit) = true) (hl : us.length + 1 < 2 ^ 32) :
    dWStr ver e ⟨(wWStr ver e us pos).1 ++ rest, pos⟩ = .ok (.list us) ⟨rest, (wWStr ver e us pos).2⟩ := by
  have hm : (us.length + 1) % 2 ^ 32 = us.length + 1 := Nat.mod_eq_of_lt hl
  simp only [dWStr, wWStr, hm, List.append_assoc]
  rw [dPrim_wPrim ver e .u32 (us.length + 1) pos _ (primOk_u32 _ hl)]
  simp only [Res.bind]
  have h0 : (us.length + 1 == 0) = false := by simp
  simp only [h0, Bool.false_eq_true, if_false, Nat.add_sub_cancel]
  rw [dUnits_wList ver e us _ _ hu]
  simp only [Res.bind]
  rw [dPrim_wPrim ver e .u16 0 _ rest (by decide)]
  simp [Res.bind, hv]

theorem dStr_wStr (ver : Ver) (e : Endian) (bs : Bytes) (pos : Nat) (rest : Bytes)
    (hu : utf8Valid bs = true) (hl : bs.length + 1 < 2 ^ 32) :
    dStr ver e ⟨(wStr ver e bs pos).1 ++ rest, pos⟩ = .ok (.str bs) ⟨rest, (wStr ver e bs pos).2⟩ := by
  have hm : (bs.length + 1) % 2 ^ 32 = bs.length + 1 := Nat.mod_eq_of_lt hl
  simp only [dStr, wStr, hm, List.append_assoc]
  rw [dPrim_wPrim ver e .u32 (bs.length + 1) pos _ (primOk_u32 _ hl)]
  simp only [Res.bind, Nat.add_sub_cancel]
  rw [rBytes_app]
  simp only [Res.bind]
  have h1 := rBytes_app [0] rest ((wPrim ver e Prim.u32 (bs.length + 1) pos).2 + bs.length)
  simp only [List.length_singleton] at h1
  rw [h1]
  simp [Res.bind, hu]

/-- `Dheader` = a u32 primitive holding the byte count of the body -/
theorem wDh_eq (ver : Ver) (e : Endian) (body : Nat → W) (pos : Nat) :
    wDh ver e body pos =
      ((wPrim ver e .u32 ((body (wPrim ver e .u32 0 pos).2).1.length % 2 ^ 32) pos).1 ++ (body (wPrim ver e .u32 0 pos).2).1,
       (body (wPrim ver e .u32 0 pos).2).2) := by
  simp [wDh, wPrim, primBytes, Prim.size]

theorem wPrim_u32_pos (ver : Ver) (e : Endian) (n m pos : Nat) :
    (wPrim ver e .u32 n pos).2 = (wPrim ver e .u32 m pos).2 := by
  simp [wPrim, primBytes, Prim.size]

/-- reading the DHEADER of `wDh … ++ rest` -/
theorem dPrim_wDh (ver : Ver) (e : Endian) (body : Nat → W) (pos : Nat) (rest : Bytes)
    (h : (body (wPrim ver e .u32 0 pos).2).1.length < 2 ^ 32) :
    dPrim ver e .u32 ⟨(wDh ver e body pos).1 ++ rest, pos⟩ =
      .ok (body (wPrim ver e .u32 0 pos).2).1.length
        ⟨(body (wPrim ver e .u32 0 pos).2).1 ++ rest, (wPrim ver e .u32 0 pos).2⟩ := by
  rw [wDh_eq]
  simp only [List.append_assoc, Nat.mod_eq_of_lt h]
  rw [dPrim_wPrim ver e .u32 _ pos _ (primOk_u32 _ h)]
  simp [wPrim, primBytes, Prim.size]

theorem padTo_of_mod (a x : Nat) (ha : 0 < a) (h : x % a = 0) : padTo a x = 0 := by
  unfold padTo
  have h1 := Nat.div_add_mod x a
  have hx : x = a * (x / a) := by omega
  have h2 : (x + (a - 1)) / a = x / a := by
    rw [hx, Nat.mul_add_div ha, Nat.mul_div_cancel_left _ ha]
    have : (a - 1) / a = 0 := Nat.div_eq_of_lt (by omega)
    omega
  rw [h2, Nat.mul_comm]
  omega


theorem dU16_aligned (e : Endian) (n x : Nat) (rest : Bytes) (hx : x % 2 = 0) (hn : n < 2 ^ 16) :
    dPrim .v1 e .u16 ⟨encNat e 2 n ++ rest, x⟩ = .ok n ⟨rest, x + 2⟩ := by
  have hp : primOk .u16 n = true := by
    have e2 : (256 : Nat) ^ 2 = 2 ^ 16 := by decide
    simp [primOk, Prim.size, e2, hn]
  have h := dPrim_wPrim .v1 e .u16 n x rest hp
  have hpad : wPad .v1 2 x = 0 := by
    simp only [wPad, Ver.maxAlign]
    exact padTo_of_mod 2 x (by omega) hx
  simpa [wPrim, primBytes, Prim.size, hpad, zeros] using h


end DustVerif.Xcdr
