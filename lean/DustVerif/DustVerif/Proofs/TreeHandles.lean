import DustVerif.Proofs.TreeLemmas
/-! From the serial-number invariant to distinct handles; the counter bound that the debug profile maintains;
    invariants over whole histories. -/
namespace DustVerif.Tree

/-! ### counters: which operations move them -/

/-- profile and the five per-participant counters are the same in `s` and `s'` -/
def Cnt (s s' : St) : Prop :=
  s'.profile = s.profile ∧ s'.pubEver = s.pubEver ∧ s'.subEver = s.subEver ∧ s'.topicEver = s.topicEver ∧
  s'.wEver = s.wEver ∧ s'.rEver = s.rEver

macro "cnt_close" : tactic => `(tactic| exact ⟨rfl, rfl, rfl, rfl, rfl, rfl⟩)

theorem cnt_deletePart (s : St) (ph : Nat) : Cnt s (deletePart s ph).1 := by
  unfold deletePart; (repeat' split) <;> cnt_close
theorem cnt_createPart (s : St) (a : Bool) : Cnt s (createPart s a).1 := by
  unfold createPart; simp only; split <;> cnt_close
theorem cnt_deletePub (s : St) (via : Nat) (r : GroupRef) : Cnt s (deletePub s via r).1 := by
  unfold deletePub; (repeat' split) <;> cnt_close
theorem cnt_deleteSub (s : St) (via : Nat) (r : GroupRef) : Cnt s (deleteSub s via r).1 := by
  unfold deleteSub; (repeat' split) <;> cnt_close
theorem cnt_deleteTopic (s : St) (via : Nat) (r : TopicRef) : Cnt s (deleteTopic s via r).1 := by
  unfold deleteTopic; (repeat' split) <;> cnt_close
theorem cnt_deleteCft (s : St) (ph : Nat) (n : String) : Cnt s (deleteCft s ph n).1 := by
  unfold deleteCft; (repeat' split) <;> cnt_close
theorem cnt_deleteWriter (s : St) (via : GroupRef) (w : EndRef) : Cnt s (deleteWriter s via w).1 := by
  unfold deleteWriter; (repeat' split) <;> cnt_close
theorem cnt_deleteReader (s : St) (via : GroupRef) (w : EndRef) : Cnt s (deleteReader s via w).1 := by
  unfold deleteReader; (repeat' split) <;> cnt_close
theorem cnt_deleteContained (s : St) (ph : Nat) : Cnt s (deleteContained s ph).1 := by
  unfold deleteContained; (repeat' split) <;> cnt_close
theorem cnt_enablePart (s : St) (ph : Nat) : Cnt s (enablePart s ph).1 := by
  unfold enablePart; (repeat' split) <;> cnt_close
theorem cnt_enableTopic (s : St) (r : TopicRef) : Cnt s (enableTopic s r).1 := by
  unfold enableTopic; (repeat' split) <;> cnt_close
theorem cnt_enableWriter (s : St) (w : EndRef) : Cnt s (enableWriter s w).1 := by
  unfold enableWriter; (repeat' split) <;> cnt_close
theorem cnt_enableReader (s : St) (w : EndRef) : Cnt s (enableReader s w).1 := by
  unfold enableReader; (repeat' split) <;> cnt_close
theorem cnt_instOp (s : St) (w : EndRef) (o : WOp) : Cnt s (instOp s w o).1 := by
  unfold instOp die; (repeat' split) <;> cnt_close
theorem cnt_probe (s : St) (b : Bool) : Cnt s (probe b s).1 := by
  unfold probe; split <;> cnt_close

/-- what the checked increments (fixes/D40) guarantee in every reachable state: no counter ever reaches the number
    of values of its field, so `counter % 2^width = counter` -/
def FBound (s : St) : Prop :=
  s.nextPart ≤ 4294967295 ∧
  ∀ u, s.pubEver u ≤ 255 ∧ s.subEver u ≤ 255 ∧ s.topicEver u ≤ 65535 ∧ s.wEver u ≤ 65535 ∧ s.rEver u ≤ 65535

theorem FBound.of_cnt {s s' : St} (h : FBound s) (c : Cnt s s') (hn : s'.nextPart = s.nextPart) : FBound s' := by
  obtain ⟨_, c1, c2, c3, c4, c5⟩ := c
  refine ⟨by rw [hn]; exact h.1, fun u => ?_⟩
  rw [c1, c2, c3, c4, c5]
  exact h.2 u

theorem overflows_false_lt {n w : Nat} (hw : 0 < w) (hn : n ≤ w - 1) (h : ¬ (overflows n w = true)) : n + 1 ≤ w - 1 := by
  unfold overflows at h
  have : n % w = n := Nat.mod_eq_of_lt (by omega)
  rw [this] at h
  simp at h
  omega

theorem bump_le (m : Nat → Nat) (u : Nat) (b : Nat) (hall : ∀ v, m v ≤ b) (hu : m u + 1 ≤ b) : ∀ v, bump m u v ≤ b := by
  intro v; unfold bump setTo; split
  · exact hu
  · exact hall v

theorem fbound_createPart {s : St} (h : FBound s) (a : Bool) : FBound (createPart s a).1 := by
  unfold createPart
  simp only
  split
  · exact h
  · rename_i hg
    have := overflows_false_lt (w := U32) (by decide) (by have := h.1; unfold U32; omega) hg
    exact ⟨by unfold U32 at this; simp only; omega, h.2⟩

theorem fbound_createPub {s : St} (h : FBound s) (ph : Nat) (a : Bool) : FBound (createPub s ph a).1 := by
  unfold createPub
  split
  · exact h
  · rename_i p _
    simp only
    split
    · exact h
    · rename_i hg
      have hb := h.2
      have := overflows_false_lt (w := U8) (by decide) (by have := (hb p.uid).1; unfold U8; omega) hg
      exact ⟨h.1, fun u => ⟨bump_le _ _ _ (fun v => (hb v).1) (by unfold U8 at this; omega) u, (hb u).2⟩⟩

theorem fbound_createSub {s : St} (h : FBound s) (ph : Nat) (a : Bool) : FBound (createSub s ph a).1 := by
  unfold createSub
  split
  · exact h
  · rename_i p _
    simp only
    split
    · exact h
    · rename_i hg
      have hb := h.2
      have := overflows_false_lt (w := U8) (by decide) (by have := (hb p.uid).2.1; unfold U8; omega) hg
      exact ⟨h.1, fun u => ⟨(hb u).1, bump_le _ _ _ (fun v => (hb v).2.1) (by unfold U8 at this; omega) u, (hb u).2.2⟩⟩

theorem fbound_createTopic {s : St} (h : FBound s) (ph : Nat) (n : String) (k : Bool) :
    FBound (createTopic s ph n k).1 := by
  unfold createTopic
  split
  · exact h
  · rename_i p _
    split
    · exact h
    · split
      · exact h
      · simp only
        split
        · exact h
        · rename_i hg
          have hb := h.2
          have := overflows_false_lt (w := U16) (by decide) (by have := (hb p.uid).2.2.1; unfold U16; omega) hg
          exact ⟨h.1, fun u => ⟨(hb u).1, (hb u).2.1, bump_le _ _ _ (fun v => (hb v).2.2.1) (by unfold U16 at this; omega) u, (hb u).2.2.2⟩⟩

theorem fbound_findTopicOp {s : St} (h : FBound s) (ph : Nat) (n : String) (k d : Bool) :
    FBound (findTopicOp s ph n k d).1 := by
  unfold findTopicOp
  split
  · exact h
  · rename_i p _
    split
    · exact h
    · split
      · exact h
      · simp only
        split
        · exact h
        · rename_i hg
          have hb := h.2
          have := overflows_false_lt (w := U16) (by decide) (by have := (hb p.uid).2.2.1; unfold U16; omega) hg
          exact ⟨h.1, fun u => ⟨(hb u).1, (hb u).2.1, bump_le _ _ _ (fun v => (hb v).2.2.1) (by unfold U16 at this; omega) u, (hb u).2.2.2⟩⟩

theorem fbound_createCft {s : St} (h : FBound s) (r : TopicRef) (n : String) (v : Bool) :
    FBound (createCft s r n v).1 := by
  unfold createCft
  split
  · exact h
  · rename_i p _
    split
    · exact h
    · split
      · exact h
      · simp only
        split
        · exact h
        · rename_i hg
          have hb := h.2
          have := overflows_false_lt (w := U16) (by decide) (by have := (hb p.uid).2.2.1; unfold U16; omega) hg
          exact ⟨h.1, fun u => ⟨(hb u).1, (hb u).2.1, bump_le _ _ _ (fun v => (hb v).2.2.1) (by unfold U16 at this; omega) u, (hb u).2.2.2⟩⟩

theorem fbound_createWriter {s : St} (h : FBound s) (r : GroupRef) (t : String) (m : Option Nat) (c : Bool) :
    FBound (createWriter s r t m c).1 := by
  unfold createWriter
  split
  · exact h
  · rename_i p _
    split
    · exact h
    · split
      · exact h
      · simp only
        split
        · exact h
        · rename_i hg
          have key : FBound { s with wEver := setTo s.wEver p.uid (s.wEver p.uid + 1) } := by
            have hb := h.2
            have := overflows_false_lt (w := U16) (by decide) (by have := (hb p.uid).2.2.2.1; unfold U16; omega) hg
            exact ⟨h.1, fun u => ⟨(hb u).1, (hb u).2.1, (hb u).2.2.1, bump_le _ _ _ (fun v => (hb v).2.2.2.1) (by unfold U16 at this; omega) u, (hb u).2.2.2.2⟩⟩
          split
          · exact key
          · exact key.of_cnt ⟨rfl, rfl, rfl, rfl, rfl, rfl⟩ rfl

theorem fbound_createReader {s : St} (h : FBound s) (r : GroupRef) (t : String) (c : Bool) :
    FBound (createReader s r t c).1 := by
  unfold createReader
  split
  · exact h
  · rename_i p _
    simp only
    split
    · exact h
    · split
      · exact h
      · split
        · exact h
        · split
          · exact h
          · rename_i hg
            have hb := h.2
            have := overflows_false_lt (w := U16) (by decide) (by have := (hb p.uid).2.2.2.2; unfold U16; omega) hg
            exact ⟨h.1, fun u => ⟨(hb u).1, (hb u).2.1, (hb u).2.2.1, (hb u).2.2.2.1, bump_le _ _ _ (fun v => (hb v).2.2.2.2) (by unfold U16 at this; omega) u⟩⟩

/-! ### the factory counter: which operations move it -/

theorem np_deletePart (s : St) (ph : Nat) : (deletePart s ph).1.nextPart = s.nextPart := by
  unfold deletePart; (repeat' split) <;> rfl
theorem np_deletePub (s : St) (via : Nat) (r : GroupRef) : (deletePub s via r).1.nextPart = s.nextPart := by
  unfold deletePub; (repeat' split) <;> rfl
theorem np_deleteSub (s : St) (via : Nat) (r : GroupRef) : (deleteSub s via r).1.nextPart = s.nextPart := by
  unfold deleteSub; (repeat' split) <;> rfl
theorem np_deleteTopic (s : St) (via : Nat) (r : TopicRef) : (deleteTopic s via r).1.nextPart = s.nextPart := by
  unfold deleteTopic; (repeat' split) <;> rfl
theorem np_deleteCft (s : St) (ph : Nat) (n : String) : (deleteCft s ph n).1.nextPart = s.nextPart := by
  unfold deleteCft; (repeat' split) <;> rfl
theorem np_deleteWriter (s : St) (via : GroupRef) (w : EndRef) : (deleteWriter s via w).1.nextPart = s.nextPart := by
  unfold deleteWriter; (repeat' split) <;> rfl
theorem np_deleteReader (s : St) (via : GroupRef) (w : EndRef) : (deleteReader s via w).1.nextPart = s.nextPart := by
  unfold deleteReader; (repeat' split) <;> rfl
theorem np_deleteContained (s : St) (ph : Nat) : (deleteContained s ph).1.nextPart = s.nextPart := by
  unfold deleteContained; (repeat' split) <;> rfl
theorem np_enablePart (s : St) (ph : Nat) : (enablePart s ph).1.nextPart = s.nextPart := by
  unfold enablePart; (repeat' split) <;> rfl
theorem np_enableTopic (s : St) (r : TopicRef) : (enableTopic s r).1.nextPart = s.nextPart := by
  unfold enableTopic; (repeat' split) <;> rfl
theorem np_enableWriter (s : St) (w : EndRef) : (enableWriter s w).1.nextPart = s.nextPart := by
  unfold enableWriter; (repeat' split) <;> rfl
theorem np_enableReader (s : St) (w : EndRef) : (enableReader s w).1.nextPart = s.nextPart := by
  unfold enableReader; (repeat' split) <;> rfl
theorem np_instOp (s : St) (w : EndRef) (o : WOp) : (instOp s w o).1.nextPart = s.nextPart := by
  unfold instOp die; (repeat' split) <;> rfl
theorem np_probe (s : St) (b : Bool) : (probe b s).1.nextPart = s.nextPart := by
  unfold probe; split <;> rfl

/-! ### every reachable state is good -/

def Good (s : St) : Prop := Inv s ∧ FBound s

theorem good_step {s : St} (h : Good s) (op : Op) : Good (step s op).1 := by
  obtain ⟨hi, hd⟩ := h
  cases op with
  | factoryQos a => exact ⟨by frame_auto hi, hd.of_cnt ⟨rfl, rfl, rfl, rfl, rfl, rfl⟩ rfl⟩
  | createPart a => exact ⟨inv_createPart hi a, fbound_createPart hd a⟩
  | deletePart ph => exact ⟨inv_deletePart hi ph, hd.of_cnt (cnt_deletePart s ph) (np_deletePart s ph)⟩
  | createPub ph a => exact ⟨inv_createPub hi ph a, fbound_createPub hd ph a⟩
  | deletePub via r => exact ⟨inv_deletePub hi via r, hd.of_cnt (cnt_deletePub s via r) (np_deletePub s via r)⟩
  | createSub ph a => exact ⟨inv_createSub hi ph a, fbound_createSub hd ph a⟩
  | deleteSub via r => exact ⟨inv_deleteSub hi via r, hd.of_cnt (cnt_deleteSub s via r) (np_deleteSub s via r)⟩
  | createTopic ph n k => exact ⟨inv_createTopic hi ph n k, fbound_createTopic hd ph n k⟩
  | findTopic ph n k d => exact ⟨inv_findTopicOp hi ph n k d, fbound_findTopicOp hd ph n k d⟩
  | deleteTopic via r => exact ⟨inv_deleteTopic hi via r, hd.of_cnt (cnt_deleteTopic s via r) (np_deleteTopic s via r)⟩
  | createCft r n v => exact ⟨inv_createCft hi r n v, fbound_createCft hd r n v⟩
  | deleteCft ph n => exact ⟨inv_deleteCft hi ph n, hd.of_cnt (cnt_deleteCft s ph n) (np_deleteCft s ph n)⟩
  | createWriter r t m c => exact ⟨inv_createWriter hi r t m c, fbound_createWriter hd r t m c⟩
  | deleteWriter via w => exact ⟨inv_deleteWriter hi via w, hd.of_cnt (cnt_deleteWriter s via w) (np_deleteWriter s via w)⟩
  | createReader r t c => exact ⟨inv_createReader hi r t c, fbound_createReader hd r t c⟩
  | deleteReader via w => exact ⟨inv_deleteReader hi via w, hd.of_cnt (cnt_deleteReader s via w) (np_deleteReader s via w)⟩
  | deleteContained ph => exact ⟨inv_deleteContained hi ph, hd.of_cnt (cnt_deleteContained s ph) (np_deleteContained s ph)⟩
  | enablePart ph => exact ⟨inv_enablePart hi ph, hd.of_cnt (cnt_enablePart s ph) (np_enablePart s ph)⟩
  | enableTopic r => exact ⟨inv_enableTopic hi r, hd.of_cnt (cnt_enableTopic s r) (np_enableTopic s r)⟩
  | enableWriter w => exact ⟨inv_enableWriter hi w, hd.of_cnt (cnt_enableWriter s w) (np_enableWriter s w)⟩
  | enableReader w => exact ⟨inv_enableReader hi w, hd.of_cnt (cnt_enableReader s w) (np_enableReader s w)⟩
  | probePart ph => exact ⟨inv_probe hi _, hd.of_cnt (cnt_probe s _) (np_probe s _)⟩
  | probePub r => exact ⟨inv_probe hi _, hd.of_cnt (cnt_probe s _) (np_probe s _)⟩
  | probeSub r => exact ⟨inv_probe hi _, hd.of_cnt (cnt_probe s _) (np_probe s _)⟩
  | probeTopic r => exact ⟨inv_probe hi _, hd.of_cnt (cnt_probe s _) (np_probe s _)⟩
  | probeWriter w => exact ⟨inv_probe hi _, hd.of_cnt (cnt_probe s _) (np_probe s _)⟩
  | probeReader w => exact ⟨inv_probe hi _, hd.of_cnt (cnt_probe s _) (np_probe s _)⟩
  | inst w o => exact ⟨inv_instOp hi w o, hd.of_cnt (cnt_instOp s w o) (np_instOp s w o)⟩

theorem good_stepD {s : St} (h : Good s) (op : Op) : Good (stepD s op).1 := by
  unfold stepD; split
  · exact h
  · exact good_step h op

theorem good_run {s : St} (h : Good s) (ops : List Op) : Good (run s ops) := by
  induction ops generalizing s with
  | nil => exact h
  | cons op ops ih => exact ih (good_stepD h op)

theorem good_init (pr : Profile) : Good (St.init pr) :=
  ⟨inv_init pr, by simp [St.init], by intro u; simp [St.init, zeroMap]⟩

/-! ### from serial numbers to handles -/

/-- no counter has wrapped: every counter is at most the number of values of its field -/
def Bounded (s : St) : Prop :=
  s.nextPart ≤ U32 ∧ ∀ u, s.pubEver u ≤ U8 ∧ s.subEver u ≤ U8 ∧ s.topicEver u ≤ U16 ∧ s.wEver u ≤ U16 ∧
    s.rEver u ≤ U16

theorem FBound.bounded {s : St} (h : FBound s) : Bounded s := by
  refine ⟨by have := h.1; unfold U32; omega, fun u => ?_⟩
  have := h.2 u
  unfold U8 U16
  omega

/-- two lists of handles whose kinds come from disjoint sets stay duplicate-free when appended -/
theorem nodup_app_kinds (l1 l2 : List Handle) (K1 K2 : List Nat) (hd : ∀ k ∈ K1, k ∉ K2)
    (m1 : ∀ h ∈ l1, h.ent.kind ∈ K1) (m2 : ∀ h ∈ l2, h.ent.kind ∈ K2) (n1 : l1.Nodup) (n2 : l2.Nodup) :
    (l1 ++ l2).Nodup ∧ ∀ h ∈ l1 ++ l2, h.ent.kind ∈ K1 ++ K2 := by
  refine ⟨?_, ?_⟩
  · rw [List.nodup_append]
    refine ⟨n1, n2, ?_⟩
    intro a ha b hb heq
    subst heq
    exact hd _ (m1 a ha) (m2 a hb)
  · intro h hh
    rcases List.mem_append.mp hh with hh | hh
    · exact List.mem_append_left _ (m1 h hh)
    · exact List.mem_append_right _ (m2 h hh)

theorem mem_keys {α : Type} {key : α → Nat × Nat} {l : List α} {x : α} (hx : x ∈ l) : key x ∈ l.map key :=
  List.mem_map.mpr ⟨x, hx, rfl⟩

theorem handles_nodup {s : St} (hi : Inv s) (hb : Bounded s) : (allHandles s).Nodup := by
  obtain ⟨hnp, hb⟩ := hb
  -- participants
  have nA : (s.parts.map partHandleOf).Nodup := by
    apply nodup_map_of_key partHandleOf partKey s.parts _ hi.partsNd
    intro x hx y hy he
    have h1 := hi.partsLt x hx
    have h2 := hi.partsLt y hy
    unfold partHandleOf partHandle at he
    injection he with he _
    unfold partKey
    rw [Nat.mod_eq_of_lt (by omega), Nat.mod_eq_of_lt (by omega)] at he
    exact he
  have kA : ∀ h ∈ s.parts.map partHandleOf, h.ent.kind ∈ [KIND_PARTICIPANT] := by
    intro h hh; obtain ⟨p, _, rfl⟩ := List.mem_map.mp hh; simp [partHandleOf, partHandle]
  -- publishers
  have nB : (s.pubs.map pubHandle).Nodup := by
    apply nodup_map_of_key pubHandle pubKey s.pubs _ hi.pubs.2
    intro x hx y hy he
    have h1 := hi.pubs.1 _ (mem_keys (key := pubKey) hx)
    have h2 := hi.pubs.1 _ (mem_keys (key := pubKey) hy)
    have b1 := (hb x.part).1
    have b2 := (hb y.part).1
    unfold pubKey at h1 h2 ⊢
    simp only at h1 h2
    unfold pubHandle at he
    injection he with hp he
    injection he with h0 _
    rw [Nat.mod_eq_of_lt (by omega), Nat.mod_eq_of_lt (by omega)] at hp
    rw [hp] at b1 h1
    rw [Nat.mod_eq_of_lt (by omega), Nat.mod_eq_of_lt (by omega)] at h0
    rw [hp, h0]
  have kB : ∀ h ∈ s.pubs.map pubHandle, h.ent.kind ∈ [KIND_WRITER_GROUP] := by
    intro h hh; obtain ⟨p, _, rfl⟩ := List.mem_map.mp hh; simp [pubHandle]
  -- subscribers
  have nC : (s.subs.map subHandle).Nodup := by
    apply nodup_map_of_key subHandle subKey s.subs _ hi.subs.2
    intro x hx y hy he
    have h1 := hi.subs.1 _ (mem_keys (key := subKey) hx)
    have h2 := hi.subs.1 _ (mem_keys (key := subKey) hy)
    have b1 := (hb x.part).2.1
    have b2 := (hb y.part).2.1
    unfold subKey at h1 h2 ⊢
    simp only at h1 h2
    unfold subHandle at he
    injection he with hp he
    injection he with h0 _
    rw [Nat.mod_eq_of_lt (by omega), Nat.mod_eq_of_lt (by omega)] at hp
    rw [hp] at b1 h1
    rw [Nat.mod_eq_of_lt (by omega), Nat.mod_eq_of_lt (by omega)] at h0
    rw [hp, h0]
  have kC : ∀ h ∈ s.subs.map subHandle, h.ent.kind ∈ [KIND_READER_GROUP] := by
    intro h hh; obtain ⟨p, _, rfl⟩ := List.mem_map.mp hh; simp [subHandle]
  -- topics
  have nD : (s.topics.map topicHandle).Nodup := by
    apply nodup_map_of_key topicHandle topicKey s.topics _ hi.topics.2
    intro x hx y hy he
    have h1 := hi.topics.1 _ (mem_keys (key := topicKey) hx)
    have h2 := hi.topics.1 _ (mem_keys (key := topicKey) hy)
    have b1 := (hb x.part).2.2.1
    have b2 := (hb y.part).2.2.1
    unfold topicKey at h1 h2 ⊢
    simp only at h1 h2
    unfold topicHandle at he
    injection he with hp he
    injection he with _ hlo hhi _
    rw [Nat.mod_eq_of_lt (by omega), Nat.mod_eq_of_lt (by omega)] at hp
    rw [hp] at b1 h1
    unfold U16 at *
    have : x.uid = y.uid := by omega
    rw [hp, this]
  have kD : ∀ h ∈ s.topics.map topicHandle, h.ent.kind ∈ [KIND_TOPIC] := by
    intro h hh; obtain ⟨p, _, rfl⟩ := List.mem_map.mp hh; simp [topicHandle]
  -- writers
  have nE : (s.writers.map writerHandle).Nodup := by
    apply nodup_map_of_key writerHandle writerKey s.writers _ hi.writers.2
    intro x hx y hy he
    have h1 := hi.writers.1 _ (mem_keys (key := writerKey) hx)
    have h2 := hi.writers.1 _ (mem_keys (key := writerKey) hy)
    have b1 := (hb x.part).2.2.2.1
    have b2 := (hb y.part).2.2.2.1
    unfold writerKey at h1 h2 ⊢
    simp only at h1 h2
    unfold writerHandle writerEnt at he
    injection he with hp he
    injection he with _ hlo hhi _
    rw [Nat.mod_eq_of_lt (by omega), Nat.mod_eq_of_lt (by omega)] at hp
    rw [hp] at b1 h1
    unfold U16 at *
    have : x.uid = y.uid := by omega
    rw [hp, this]
  have kE : ∀ h ∈ s.writers.map writerHandle, h.ent.kind ∈ [KIND_WRITER_WITH_KEY, KIND_WRITER_NO_KEY] := by
    intro h hh; obtain ⟨p, _, rfl⟩ := List.mem_map.mp hh
    simp only [writerHandle, writerEnt]; split <;> simp
  -- readers
  have nF : (s.readers.map readerHandle).Nodup := by
    apply nodup_map_of_key readerHandle readerKey s.readers _ hi.readers.2
    intro x hx y hy he
    have h1 := hi.readers.1 _ (mem_keys (key := readerKey) hx)
    have h2 := hi.readers.1 _ (mem_keys (key := readerKey) hy)
    have b1 := (hb x.part).2.2.2.2
    have b2 := (hb y.part).2.2.2.2
    unfold readerKey at h1 h2 ⊢
    simp only at h1 h2
    unfold readerHandle readerEnt at he
    injection he with hp he
    injection he with _ hlo hhi _
    rw [Nat.mod_eq_of_lt (by omega), Nat.mod_eq_of_lt (by omega)] at hp
    rw [hp] at b1 h1
    unfold U16 at *
    have : x.uid = y.uid := by omega
    rw [hp, this]
  have kF : ∀ h ∈ s.readers.map readerHandle, h.ent.kind ∈ [KIND_READER_WITH_KEY, KIND_READER_NO_KEY] := by
    intro h hh; obtain ⟨p, _, rfl⟩ := List.mem_map.mp hh
    simp only [readerHandle, readerEnt]; split <;> simp
  have s1 := nodup_app_kinds _ _ _ _ (by decide) kA kB nA nB
  have s2 := nodup_app_kinds _ _ _ _ (by decide) s1.2 kC s1.1 nC
  have s3 := nodup_app_kinds _ _ _ _ (by decide) s2.2 kD s2.1 nD
  have s4 := nodup_app_kinds _ _ _ _ (by decide) s3.2 kE s3.1 nE
  have s5 := nodup_app_kinds _ _ _ _ (by decide) s4.2 kF s4.1 nF
  exact s5.1

end DustVerif.Tree
