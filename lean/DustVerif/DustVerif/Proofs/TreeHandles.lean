import DustVerif.Proofs.TreeLemmas
/-! From the serial-number invariant to distinct handles; the counter bound that the debug profile maintains;
    invariants over whole histories. -/
namespace DustVerif.Tree

/-! ### counters: which operations move them -/

/-- profile and the five per-participant counters are the same in `s` and `s'` -/
def Cnt (s s' : St) : Prop :=
  s'.profile = s.profile ∧ s'.pubEver = s.pubEver ∧ s'.subEver = s.subEver ∧ s'.topicEver = s.topicEver ∧
  s'.wEver = s.wEver ∧ s'.rEver = s.rEver

macro "cnt_close" : tactic => `(tactic| exact ⟨rfl, rfl, rfl, rfl, rfl, rfl⟩)

theorem cnt_deletePart (s : St) (ph : Nat) : Cnt s (deletePart s ph).1 := by
  unfold deletePart; (repeat' split) <;> cnt_close
theorem cnt_createPart (s : St) (a : Bool) : Cnt s (createPart s a).1 := by
  unfold createPart; cnt_close
theorem cnt_deletePub (s : St) (via : Nat) (r : GroupRef) : Cnt s (deletePub s via r).1 := by
  unfold deletePub; (repeat' split) <;> cnt_close
theorem cnt_deleteSub (s : St) (via : Nat) (r : GroupRef) : Cnt s (deleteSub s via r).1 := by
  unfold deleteSub; (repeat' split) <;> cnt_close
theorem cnt_deleteTopic (s : St) (via : Nat) (r : TopicRef) : Cnt s (deleteTopic s via r).1 := by
  unfold deleteTopic; (repeat' split) <;> cnt_close
theorem cnt_deleteCft (s : St) (ph : Nat) (n : String) : Cnt s (deleteCft s ph n).1 := by
  unfold deleteCft; (repeat' split) <;> cnt_close
theorem cnt_deleteWriter (s : St) (via : GroupRef) (w : EndRef) : Cnt s (deleteWriter s via w).1 := by
  unfold deleteWriter; (repeat' split) <;> cnt_close
theorem cnt_deleteReader (s : St) (via : GroupRef) (w : EndRef) : Cnt s (deleteReader s via w).1 := by
  unfold deleteReader; (repeat' split) <;> cnt_close
theorem cnt_deleteContained (s : St) (ph : Nat) : Cnt s (deleteContained s ph).1 := by
  unfold deleteContained; (repeat' split) <;> cnt_close
theorem cnt_enablePart (s : St) (ph : Nat) : Cnt s (enablePart s ph).1 := by
  unfold enablePart; (repeat' split) <;> cnt_close
theorem cnt_enableTopic (s : St) (r : TopicRef) : Cnt s (enableTopic s r).1 := by
  unfold enableTopic; (repeat' split) <;> cnt_close
theorem cnt_enableWriter (s : St) (w : EndRef) : Cnt s (enableWriter s w).1 := by
  unfold enableWriter; (repeat' split) <;> cnt_close
theorem cnt_enableReader (s : St) (w : EndRef) : Cnt s (enableReader s w).1 := by
  unfold enableReader; (repeat' split) <;> cnt_close
theorem cnt_instOp (s : St) (w : EndRef) (o : WOp) : Cnt s (instOp s w o).1 := by
  unfold instOp die; (repeat' split) <;> cnt_close
theorem cnt_probe (s : St) (b : Bool) : Cnt s (probe b s).1 := by
  unfold probe; split <;> cnt_close

/-- what the debug profile guarantees: a counter never leaves its range, because the `+= 1` that would do it
    panics instead (the worker dies with the counter still at the rail) -/
def DBound (s : St) : Prop :=
  s.profile = .debug → ∀ u, s.pubEver u ≤ 255 ∧ s.subEver u ≤ 255 ∧ s.topicEver u ≤ 65535 ∧ s.wEver u ≤ 65535 ∧
    s.rEver u ≤ 65535

theorem DBound.of_cnt {s s' : St} (h : DBound s) (c : Cnt s s') : DBound s' := by
  obtain ⟨c0, c1, c2, c3, c4, c5⟩ := c
  intro hp u
  rw [c0] at hp
  rw [c1, c2, c3, c4, c5]
  exact h hp u

theorem overflows_false_lt {n w : Nat} (hw : 0 < w) (hn : n ≤ w - 1) (h : overflows n w = false) : n + 1 ≤ w - 1 := by
  unfold overflows at h
  have : n % w = n := Nat.mod_eq_of_lt (by omega)
  rw [this] at h
  simp at h
  omega

theorem bump_le (m : Nat → Nat) (u : Nat) (b : Nat) (hall : ∀ v, m v ≤ b) (hu : m u + 1 ≤ b) : ∀ v, bump m u v ≤ b := by
  intro v; unfold bump setTo; split
  · exact hu
  · exact hall v

theorem dbound_die {s : St} (h : DBound s) : DBound (die s).1 := h.of_cnt ⟨rfl, rfl, rfl, rfl, rfl, rfl⟩

/-- the guard of every creation: `profile == debug && overflows n w` is false -/
theorem guard_false {pr : Profile} {n w : Nat} (h : ¬ ((pr == Profile.debug && overflows n w) = true)) (hp : pr = .debug) :
    overflows n w = false := by
  subst hp
  simpa using h

theorem dbound_createPub {s : St} (h : DBound s) (ph : Nat) (a : Bool) : DBound (createPub s ph a).1 := by
  unfold createPub
  split
  · exact h
  · rename_i p _
    simp only
    split
    · exact dbound_die h
    · rename_i hg
      intro hp u
      have hb := h hp
      have := overflows_false_lt (w := U8) (by decide) (by have := (hb p.uid).1; unfold U8; omega) (guard_false hg hp)
      refine ⟨bump_le _ _ _ (fun v => (hb v).1) (by unfold U8 at this; omega) u, (hb u).2⟩

theorem dbound_createSub {s : St} (h : DBound s) (ph : Nat) (a : Bool) : DBound (createSub s ph a).1 := by
  unfold createSub
  split
  · exact h
  · rename_i p _
    simp only
    split
    · exact dbound_die h
    · rename_i hg
      intro hp u
      have hb := h hp
      have := overflows_false_lt (w := U8) (by decide) (by have := (hb p.uid).2.1; unfold U8; omega) (guard_false hg hp)
      refine ⟨(hb u).1, bump_le _ _ _ (fun v => (hb v).2.1) (by unfold U8 at this; omega) u, (hb u).2.2⟩

theorem dbound_createTopic {s : St} (h : DBound s) (ph : Nat) (n : String) (k : Bool) :
    DBound (createTopic s ph n k).1 := by
  unfold createTopic
  split
  · exact h
  · rename_i p _
    split
    · exact h
    · split
      · exact h
      · simp only
        split
        · exact dbound_die h
        · rename_i hg
          intro hp u
          have hb := h hp
          have := overflows_false_lt (w := U16) (by decide) (by have := (hb p.uid).2.2.1; unfold U16; omega) (guard_false hg hp)
          refine ⟨(hb u).1, (hb u).2.1, bump_le _ _ _ (fun v => (hb v).2.2.1) (by unfold U16 at this; omega) u, (hb u).2.2.2⟩

theorem dbound_createCft {s : St} (h : DBound s) (r : TopicRef) (n : String) : DBound (createCft s r n).1 := by
  unfold createCft
  split
  · exact h
  · rename_i p _
    split
    · exact h
    · simp only
      split
      · exact dbound_die h
      · rename_i hg
        intro hp u
        have hb := h hp
        have := overflows_false_lt (w := U16) (by decide) (by have := (hb p.uid).2.2.1; unfold U16; omega) (guard_false hg hp)
        refine ⟨(hb u).1, (hb u).2.1, bump_le _ _ _ (fun v => (hb v).2.2.1) (by unfold U16 at this; omega) u, (hb u).2.2.2⟩

theorem dbound_createWriter {s : St} (h : DBound s) (r : GroupRef) (t : String) (m : Option Nat) (c : Bool) :
    DBound (createWriter s r t m c).1 := by
  unfold createWriter
  split
  · exact h
  · rename_i p _
    split
    · exact h
    · split
      · exact h
      · simp only
        split
        · exact dbound_die h
        · rename_i hg
          have key : DBound { s with wEver := bump s.wEver p.uid } := by
            intro hp u
            have hb := h hp
            have := overflows_false_lt (w := U16) (by decide) (by have := (hb p.uid).2.2.2.1; unfold U16; omega) (guard_false hg hp)
            exact ⟨(hb u).1, (hb u).2.1, (hb u).2.2.1, bump_le _ _ _ (fun v => (hb v).2.2.2.1) (by unfold U16 at this; omega) u, (hb u).2.2.2.2⟩
          split
          · exact key
          · exact key.of_cnt ⟨rfl, rfl, rfl, rfl, rfl, rfl⟩

theorem dbound_createReader {s : St} (h : DBound s) (r : GroupRef) (t : String) (c : Bool) :
    DBound (createReader s r t c).1 := by
  unfold createReader
  split
  · exact h
  · rename_i p _
    simp only
    split
    · exact h
    · split
      · exact h
      · split
        · exact h
        · split
          · exact dbound_die h
          · rename_i hg
            intro hp u
            have hb := h hp
            have := overflows_false_lt (w := U16) (by decide) (by have := (hb p.uid).2.2.2.2; unfold U16; omega) (guard_false hg hp)
            exact ⟨(hb u).1, (hb u).2.1, (hb u).2.2.1, (hb u).2.2.2.1, bump_le _ _ _ (fun v => (hb v).2.2.2.2) (by unfold U16 at this; omega) u⟩

/-! ### the profile never changes -/

theorem prof_createPub (s : St) (ph : Nat) (a : Bool) : (createPub s ph a).1.profile = s.profile := by
  unfold createPub
  split
  · rfl
  · simp only
    split <;> rfl
theorem prof_createSub (s : St) (ph : Nat) (a : Bool) : (createSub s ph a).1.profile = s.profile := by
  unfold createSub
  split
  · rfl
  · simp only
    split <;> rfl
theorem prof_createTopic (s : St) (ph : Nat) (n : String) (k : Bool) : (createTopic s ph n k).1.profile = s.profile := by
  unfold createTopic
  split
  · rfl
  · split
    · rfl
    · split
      · rfl
      · simp only
        split <;> rfl
theorem prof_createCft (s : St) (r : TopicRef) (n : String) : (createCft s r n).1.profile = s.profile := by
  unfold createCft
  split
  · rfl
  · split
    · rfl
    · simp only
      split <;> rfl
theorem prof_createWriter (s : St) (r : GroupRef) (t : String) (m : Option Nat) (c : Bool) :
    (createWriter s r t m c).1.profile = s.profile := by
  unfold createWriter
  split
  · rfl
  · split
    · rfl
    · split
      · rfl
      · simp only
        split
        · rfl
        · split <;> rfl
theorem prof_createReader (s : St) (r : GroupRef) (t : String) (c : Bool) :
    (createReader s r t c).1.profile = s.profile := by
  unfold createReader
  split
  · rfl
  · simp only
    split
    · rfl
    · split
      · rfl
      · split
        · rfl
        · split <;> rfl

theorem prof_step (s : St) (op : Op) : (step s op).1.profile = s.profile := by
  cases op with
  | factoryQos a => rfl
  | createPart a => exact (cnt_createPart s a).1
  | deletePart ph => exact (cnt_deletePart s ph).1
  | createPub ph a => exact prof_createPub s ph a
  | deletePub via r => exact (cnt_deletePub s via r).1
  | createSub ph a => exact prof_createSub s ph a
  | deleteSub via r => exact (cnt_deleteSub s via r).1
  | createTopic ph n k => exact prof_createTopic s ph n k
  | deleteTopic via r => exact (cnt_deleteTopic s via r).1
  | createCft r n => exact prof_createCft s r n
  | deleteCft ph n => exact (cnt_deleteCft s ph n).1
  | createWriter r t m c => exact prof_createWriter s r t m c
  | deleteWriter via w => exact (cnt_deleteWriter s via w).1
  | createReader r t c => exact prof_createReader s r t c
  | deleteReader via w => exact (cnt_deleteReader s via w).1
  | deleteContained ph => exact (cnt_deleteContained s ph).1
  | enablePart ph => exact (cnt_enablePart s ph).1
  | enableTopic r => exact (cnt_enableTopic s r).1
  | enableWriter w => exact (cnt_enableWriter s w).1
  | enableReader w => exact (cnt_enableReader s w).1
  | probePart ph => exact (cnt_probe s _).1
  | probePub r => exact (cnt_probe s _).1
  | probeSub r => exact (cnt_probe s _).1
  | probeTopic r => exact (cnt_probe s _).1
  | probeWriter w => exact (cnt_probe s _).1
  | probeReader w => exact (cnt_probe s _).1
  | inst w o => exact (cnt_instOp s w o).1

theorem prof_run (ops : List Op) : ∀ s : St, (run s ops).profile = s.profile := by
  induction ops with
  | nil => intro s; rfl
  | cons op l ih =>
    intro s
    show (run (stepD s op).1 l).profile = s.profile
    rw [ih]
    unfold stepD
    split
    · rfl
    · exact prof_step s op

/-! ### every reachable state is good -/

def Good (s : St) : Prop := Inv s ∧ DBound s

theorem good_step {s : St} (h : Good s) (op : Op) : Good (step s op).1 := by
  obtain ⟨hi, hd⟩ := h
  cases op with
  | factoryQos a => exact ⟨by frame_auto hi, hd.of_cnt ⟨rfl, rfl, rfl, rfl, rfl, rfl⟩⟩
  | createPart a => exact ⟨inv_createPart hi a, hd.of_cnt (cnt_createPart s a)⟩
  | deletePart ph => exact ⟨inv_deletePart hi ph, hd.of_cnt (cnt_deletePart s ph)⟩
  | createPub ph a => exact ⟨inv_createPub hi ph a, dbound_createPub hd ph a⟩
  | deletePub via r => exact ⟨inv_deletePub hi via r, hd.of_cnt (cnt_deletePub s via r)⟩
  | createSub ph a => exact ⟨inv_createSub hi ph a, dbound_createSub hd ph a⟩
  | deleteSub via r => exact ⟨inv_deleteSub hi via r, hd.of_cnt (cnt_deleteSub s via r)⟩
  | createTopic ph n k => exact ⟨inv_createTopic hi ph n k, dbound_createTopic hd ph n k⟩
  | deleteTopic via r => exact ⟨inv_deleteTopic hi via r, hd.of_cnt (cnt_deleteTopic s via r)⟩
  | createCft r n => exact ⟨inv_createCft hi r n, dbound_createCft hd r n⟩
  | deleteCft ph n => exact ⟨inv_deleteCft hi ph n, hd.of_cnt (cnt_deleteCft s ph n)⟩
  | createWriter r t m c => exact ⟨inv_createWriter hi r t m c, dbound_createWriter hd r t m c⟩
  | deleteWriter via w => exact ⟨inv_deleteWriter hi via w, hd.of_cnt (cnt_deleteWriter s via w)⟩
  | createReader r t c => exact ⟨inv_createReader hi r t c, dbound_createReader hd r t c⟩
  | deleteReader via w => exact ⟨inv_deleteReader hi via w, hd.of_cnt (cnt_deleteReader s via w)⟩
  | deleteContained ph => exact ⟨inv_deleteContained hi ph, hd.of_cnt (cnt_deleteContained s ph)⟩
  | enablePart ph => exact ⟨inv_enablePart hi ph, hd.of_cnt (cnt_enablePart s ph)⟩
  | enableTopic r => exact ⟨inv_enableTopic hi r, hd.of_cnt (cnt_enableTopic s r)⟩
  | enableWriter w => exact ⟨inv_enableWriter hi w, hd.of_cnt (cnt_enableWriter s w)⟩
  | enableReader w => exact ⟨inv_enableReader hi w, hd.of_cnt (cnt_enableReader s w)⟩
  | probePart ph => exact ⟨inv_probe hi _, hd.of_cnt (cnt_probe s _)⟩
  | probePub r => exact ⟨inv_probe hi _, hd.of_cnt (cnt_probe s _)⟩
  | probeSub r => exact ⟨inv_probe hi _, hd.of_cnt (cnt_probe s _)⟩
  | probeTopic r => exact ⟨inv_probe hi _, hd.of_cnt (cnt_probe s _)⟩
  | probeWriter w => exact ⟨inv_probe hi _, hd.of_cnt (cnt_probe s _)⟩
  | probeReader w => exact ⟨inv_probe hi _, hd.of_cnt (cnt_probe s _)⟩
  | inst w o => exact ⟨inv_instOp hi w o, hd.of_cnt (cnt_instOp s w o)⟩

theorem good_stepD {s : St} (h : Good s) (op : Op) : Good (stepD s op).1 := by
  unfold stepD; split
  · exact h
  · exact good_step h op

theorem good_run {s : St} (h : Good s) (ops : List Op) : Good (run s ops) := by
  induction ops generalizing s with
  | nil => exact h
  | cons op ops ih => exact ih (good_stepD h op)

theorem good_init (pr : Profile) : Good (St.init pr) :=
  ⟨inv_init pr, by intro _ u; simp [St.init, zeroMap]⟩


/-! ### from serial numbers to handles -/

/-- no counter has wrapped: every counter is at most the number of values of its field -/
def Bounded (s : St) : Prop :=
  s.nextPart ≤ U32 ∧ ∀ u, s.pubEver u ≤ U8 ∧ s.subEver u ≤ U8 ∧ s.topicEver u ≤ U16 ∧ s.wEver u ≤ U16 ∧
    s.rEver u ≤ U16

theorem DBound.bounded {s : St} (h : DBound s) (hp : s.profile = .debug) (hn : s.nextPart ≤ U32) : Bounded s := by
  refine ⟨hn, fun u => ?_⟩
  have := h hp u
  unfold U8 U16
  omega

/-- two lists of handles whose kinds come from disjoint sets stay duplicate-free when appended -/
theorem nodup_app_kinds (l1 l2 : List Handle) (K1 K2 : List Nat) (hd : ∀ k ∈ K1, k ∉ K2)
    (m1 : ∀ h ∈ l1, h.ent.kind ∈ K1) (m2 : ∀ h ∈ l2, h.ent.kind ∈ K2) (n1 : l1.Nodup) (n2 : l2.Nodup) :
    (l1 ++ l2).Nodup ∧ ∀ h ∈ l1 ++ l2, h.ent.kind ∈ K1 ++ K2 := by
  refine ⟨?_, ?_⟩
  · rw [List.nodup_append]
    refine ⟨n1, n2, ?_⟩
    intro a ha b hb heq
    subst heq
    exact hd _ (m1 a ha) (m2 a hb)
  · intro h hh
    rcases List.mem_append.mp hh with hh | hh
    · exact List.mem_append_left _ (m1 h hh)
    · exact List.mem_append_right _ (m2 h hh)

theorem mem_keys {α : Type} {key : α → Nat × Nat} {l : List α} {x : α} (hx : x ∈ l) : key x ∈ l.map key :=
  List.mem_map.mpr ⟨x, hx, rfl⟩

theorem handles_nodup {s : St} (hi : Inv s) (hb : Bounded s) : (allHandles s).Nodup := by
  obtain ⟨hnp, hb⟩ := hb
  -- participants
  have nA : (s.parts.map partHandleOf).Nodup := by
    apply nodup_map_of_key partHandleOf partKey s.parts _ hi.partsNd
    intro x hx y hy he
    have h1 := hi.partsLt x hx
    have h2 := hi.partsLt y hy
    unfold partHandleOf partHandle at he
    injection he with he _
    unfold partKey
    rw [Nat.mod_eq_of_lt (by omega), Nat.mod_eq_of_lt (by omega)] at he
    exact he
  have kA : ∀ h ∈ s.parts.map partHandleOf, h.ent.kind ∈ [KIND_PARTICIPANT] := by
    intro h hh; obtain ⟨p, _, rfl⟩ := List.mem_map.mp hh; simp [partHandleOf, partHandle]
  -- publishers
  have nB : (s.pubs.map pubHandle).Nodup := by
    apply nodup_map_of_key pubHandle pubKey s.pubs _ hi.pubs.2
    intro x hx y hy he
    have h1 := hi.pubs.1 _ (mem_keys (key := pubKey) hx)
    have h2 := hi.pubs.1 _ (mem_keys (key := pubKey) hy)
    have b1 := (hb x.part).1
    have b2 := (hb y.part).1
    unfold pubKey at h1 h2 ⊢
    simp only at h1 h2
    unfold pubHandle at he
    injection he with hp he
    injection he with h0 _
    rw [Nat.mod_eq_of_lt (by omega), Nat.mod_eq_of_lt (by omega)] at hp
    rw [hp] at b1 h1
    rw [Nat.mod_eq_of_lt (by omega), Nat.mod_eq_of_lt (by omega)] at h0
    rw [hp, h0]
  have kB : ∀ h ∈ s.pubs.map pubHandle, h.ent.kind ∈ [KIND_WRITER_GROUP] := by
    intro h hh; obtain ⟨p, _, rfl⟩ := List.mem_map.mp hh; simp [pubHandle]
  -- subscribers
  have nC : (s.subs.map subHandle).Nodup := by
    apply nodup_map_of_key subHandle subKey s.subs _ hi.subs.2
    intro x hx y hy he
    have h1 := hi.subs.1 _ (mem_keys (key := subKey) hx)
    have h2 := hi.subs.1 _ (mem_keys (key := subKey) hy)
    have b1 := (hb x.part).2.1
    have b2 := (hb y.part).2.1
    unfold subKey at h1 h2 ⊢
    simp only at h1 h2
    unfold subHandle at he
    injection he with hp he
    injection he with h0 _
    rw [Nat.mod_eq_of_lt (by omega), Nat.mod_eq_of_lt (by omega)] at hp
    rw [hp] at b1 h1
    rw [Nat.mod_eq_of_lt (by omega), Nat.mod_eq_of_lt (by omega)] at h0
    rw [hp, h0]
  have kC : ∀ h ∈ s.subs.map subHandle, h.ent.kind ∈ [KIND_READER_GROUP] := by
    intro h hh; obtain ⟨p, _, rfl⟩ := List.mem_map.mp hh; simp [subHandle]
  -- topics
  have nD : (s.topics.map topicHandle).Nodup := by
    apply nodup_map_of_key topicHandle topicKey s.topics _ hi.topics.2
    intro x hx y hy he
    have h1 := hi.topics.1 _ (mem_keys (key := topicKey) hx)
    have h2 := hi.topics.1 _ (mem_keys (key := topicKey) hy)
    have b1 := (hb x.part).2.2.1
    have b2 := (hb y.part).2.2.1
    unfold topicKey at h1 h2 ⊢
    simp only at h1 h2
    unfold topicHandle at he
    injection he with hp he
    injection he with _ hlo hhi _
    rw [Nat.mod_eq_of_lt (by omega), Nat.mod_eq_of_lt (by omega)] at hp
    rw [hp] at b1 h1
    unfold U16 at *
    have : x.uid = y.uid := by omega
    rw [hp, this]
  have kD : ∀ h ∈ s.topics.map topicHandle, h.ent.kind ∈ [KIND_TOPIC] := by
    intro h hh; obtain ⟨p, _, rfl⟩ := List.mem_map.mp hh; simp [topicHandle]
  -- writers
  have nE : (s.writers.map writerHandle).Nodup := by
    apply nodup_map_of_key writerHandle writerKey s.writers _ hi.writers.2
    intro x hx y hy he
    have h1 := hi.writers.1 _ (mem_keys (key := writerKey) hx)
    have h2 := hi.writers.1 _ (mem_keys (key := writerKey) hy)
    have b1 := (hb x.part).2.2.2.1
    have b2 := (hb y.part).2.2.2.1
    unfold writerKey at h1 h2 ⊢
    simp only at h1 h2
    unfold writerHandle writerEnt at he
    injection he with hp he
    injection he with _ hlo hhi _
    rw [Nat.mod_eq_of_lt (by omega), Nat.mod_eq_of_lt (by omega)] at hp
    rw [hp] at b1 h1
    unfold U16 at *
    have : x.uid = y.uid := by omega
    rw [hp, this]
  have kE : ∀ h ∈ s.writers.map writerHandle, h.ent.kind ∈ [KIND_WRITER_WITH_KEY, KIND_WRITER_NO_KEY] := by
    intro h hh; obtain ⟨p, _, rfl⟩ := List.mem_map.mp hh
    simp only [writerHandle, writerEnt]; split <;> simp
  -- readers
  have nF : (s.readers.map readerHandle).Nodup := by
    apply nodup_map_of_key readerHandle readerKey s.readers _ hi.readers.2
    intro x hx y hy he
    have h1 := hi.readers.1 _ (mem_keys (key := readerKey) hx)
    have h2 := hi.readers.1 _ (mem_keys (key := readerKey) hy)
    have b1 := (hb x.part).2.2.2.2
    have b2 := (hb y.part).2.2.2.2
    unfold readerKey at h1 h2 ⊢
    simp only at h1 h2
    unfold readerHandle readerEnt at he
    injection he with hp he
    injection he with _ hlo hhi _
    rw [Nat.mod_eq_of_lt (by omega), Nat.mod_eq_of_lt (by omega)] at hp
    rw [hp] at b1 h1
    unfold U16 at *
    have : x.uid = y.uid := by omega
    rw [hp, this]
  have kF : ∀ h ∈ s.readers.map readerHandle, h.ent.kind ∈ [KIND_READER_WITH_KEY, KIND_READER_NO_KEY] := by
    intro h hh; obtain ⟨p, _, rfl⟩ := List.mem_map.mp hh
    simp only [readerHandle, readerEnt]; split <;> simp
  have s1 := nodup_app_kinds _ _ _ _ (by decide) kA kB nA nB
  have s2 := nodup_app_kinds _ _ _ _ (by decide) s1.2 kC s1.1 nC
  have s3 := nodup_app_kinds _ _ _ _ (by decide) s2.2 kD s2.1 nD
  have s4 := nodup_app_kinds _ _ _ _ (by decide) s3.2 kE s3.1 nE
  have s5 := nodup_app_kinds _ _ _ _ (by decide) s4.2 kF s4.1 nF
  exact s5.1

end DustVerif.Tree
