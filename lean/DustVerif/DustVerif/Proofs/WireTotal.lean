import DustVerif.Model.Wire
/-! No-panic lemmas for the `wire` decoder model (C07, RTPS part). -/
namespace DustVerif.Wire
open Outcome

/-! ### primitive readers never panic -/
@[simp] theorem readBytes_np (n : Nat) (d : List Nat) : readBytes n d ≠ .panic := by
  unfold readBytes; split <;> simp
@[simp] theorem readU16_np (le : Bool) (d : List Nat) : readU16 le d ≠ .panic := by
  unfold readU16; split <;> simp
@[simp] theorem readU32_np (le : Bool) (d : List Nat) : readU32 le d ≠ .panic := by
  unfold readU32; split <;> simp
@[simp] theorem readI32_np (le : Bool) (d : List Nat) : readI32 le d ≠ .panic := by
  unfold readI32; split <;> simp_all
@[simp] theorem readI16_np (le : Bool) (d : List Nat) : readI16 le d ≠ .panic := by
  unfold readI16; split <;> simp_all
@[simp] theorem readSN_np (le : Bool) (d : List Nat) : readSN le d ≠ .panic := by
  unfold readSN; repeat' split
  all_goals simp_all

@[simp] theorem readWords_np (le : Bool) (k : Nat) (d : List Nat) : readWords le k d ≠ .panic := by
  induction k generalizing d with
  | zero => simp [readWords]
  | succ k ih =>
    unfold readWords
    repeat' split
    all_goals simp_all

@[simp] theorem snsetRead_np (chk le : Bool) (d : List Nat) : snsetRead chk le d ≠ .panic := by
  unfold snsetRead; repeat' split
  all_goals simp_all

@[simp] theorem paramRead_np (le : Bool) (d : List Nat) : paramRead le d ≠ .panic := by
  unfold paramRead; repeat' split
  all_goals (try simp_all)
  all_goals (repeat' split)
  all_goals simp_all

@[simp] theorem paramListRead_np (le : Bool) (fuel : Nat) (d : List Nat) : paramListRead le fuel d ≠ .panic := by
  induction fuel generalizing d with
  | zero => simp [paramListRead]
  | succ k ih =>
    unfold paramListRead
    repeat' split
    all_goals simp_all

@[simp] theorem locatorRead_np (le : Bool) (d : List Nat) : locatorRead le d ≠ .panic := by
  unfold locatorRead; repeat' split
  all_goals simp_all

@[simp] theorem locatorsRead_np (le : Bool) (n : Nat) (d : List Nat) : locatorsRead le n d ≠ .panic := by
  induction n generalizing d with
  | zero => simp [locatorsRead]
  | succ k ih =>
    unfold locatorsRead
    repeat' split
    all_goals simp_all

@[simp] theorem locatorListRead_np (le : Bool) (d : List Nat) : locatorListRead le d ≠ .panic := by
  unfold locatorListRead; repeat' split
  all_goals simp_all

@[simp] theorem qosAndPayload_np (le q : Bool) (len oti : Nat) (d : List Nat) :
    qosAndPayload le q len oti d ≠ .panic := by
  unfold qosAndPayload; repeat' split
  all_goals (try simp_all)
  all_goals (repeat' split)
  all_goals simp_all

/-! ### submessage parsers other than NACK_FRAG never panic -/
@[simp] theorem dataRead_np (le : Bool) (fl len : Nat) (d : List Nat) : dataRead le fl len d ≠ .panic := by
  unfold dataRead; repeat' split
  all_goals simp_all
@[simp] theorem dataFragRead_np (le : Bool) (fl len : Nat) (d : List Nat) : dataFragRead le fl len d ≠ .panic := by
  unfold dataFragRead; repeat' split
  all_goals simp_all
@[simp] theorem gapRead_np (chk le : Bool) (d : List Nat) : gapRead chk le d ≠ .panic := by
  unfold gapRead; repeat' split
  all_goals simp_all
@[simp] theorem heartbeatRead_np (le : Bool) (fl : Nat) (d : List Nat) : heartbeatRead le fl d ≠ .panic := by
  unfold heartbeatRead; repeat' split
  all_goals simp_all
@[simp] theorem ackNackRead_np (chk le : Bool) (fl : Nat) (d : List Nat) : ackNackRead chk le fl d ≠ .panic := by
  unfold ackNackRead; repeat' split
  all_goals simp_all
@[simp] theorem heartbeatFragRead_np (le : Bool) (d : List Nat) : heartbeatFragRead le d ≠ .panic := by
  unfold heartbeatFragRead; repeat' split
  all_goals simp_all
@[simp] theorem infoDstRead_np (d : List Nat) : infoDstRead d ≠ .panic := by
  unfold infoDstRead; repeat' split
  all_goals simp_all
@[simp] theorem infoSrcRead_np (le : Bool) (d : List Nat) : infoSrcRead le d ≠ .panic := by
  unfold infoSrcRead; repeat' split
  all_goals simp_all
@[simp] theorem infoReplyRead_np (le : Bool) (fl : Nat) (d : List Nat) : infoReplyRead le fl d ≠ .panic := by
  unfold infoReplyRead; repeat' split
  all_goals simp_all
@[simp] theorem infoTsRead_np (le : Bool) (fl : Nat) (d : List Nat) : infoTsRead le fl d ≠ .panic := by
  unfold infoTsRead; repeat' split
  all_goals simp_all


/-! ### the fragment-number-set reader: the only panic source -/

/-- members produced by the expansion loop lie in `base .. base + k - 1` -/
theorem fnExpandTo_bound (g : Bool) (base : Nat) (bm : List Nat) (k : Nat) (l : List Nat)
    (h : fnExpandTo g base bm k = ok l) : ∀ m ∈ l, base ≤ m ∧ m < base + k := by
  induction k generalizing l with
  | zero =>
    simp [fnExpandTo] at h
    subst h
    simp
  | succ k ih =>
    rw [fnExpandTo] at h
    cases h0 : fnExpandTo g base bm k with
    | err e => simp [h0] at h
    | panic => simp [h0] at h
    | ok l0 =>
      have ih0 := ih l0 h0
      simp only [h0] at h
      by_cases hb : getBit bm k = true
      · by_cases hov : base + k ≥ P32
        · cases g <;> simp [hb, hov] at h
        · simp [hb, hov] at h
          subst h
          intro m hm
          simp at hm
          rcases hm with hm | hm
          · have := ih0 m hm
            omega
          · omega
      · simp [hb] at h
        subst h
        intro m hm
        have := ih0 m hm
        omega

/-- with fixes/D5.patch the expansion loop never panics -/
theorem fnExpandTo_guarded_np (base : Nat) (bm : List Nat) (k : Nat) : fnExpandTo true base bm k ≠ .panic := by
  induction k with
  | zero => simp [fnExpandTo]
  | succ k ih =>
    unfold fnExpandTo
    repeat' split
    all_goals simp_all

theorem fnExpandTo_false_ne_err (base : Nat) (bm : List Nat) (k : Nat) (e : Err) :
    fnExpandTo false base bm k ≠ .err e := by
  induction k generalizing e with
  | zero => simp [fnExpandTo]
  | succ k ih =>
    unfold fnExpandTo
    repeat' split
    all_goals simp_all

/-- as it is, the expansion loop panics exactly when a set bit would give a fragment number ≥ 2^32 -/
theorem fnExpandTo_panic_iff (base : Nat) (bm : List Nat) (k : Nat) :
    fnExpandTo false base bm k = .panic ↔ ∃ j, j < k ∧ getBit bm j = true ∧ base + j ≥ P32 := by
  induction k with
  | zero => simp [fnExpandTo]
  | succ k ih =>
    rw [fnExpandTo]
    cases ho : fnExpandTo false base bm k with
    | ok l =>
      simp only []
      have hnp : ¬ ∃ j, j < k ∧ getBit bm j = true ∧ base + j ≥ P32 := by
        rw [← ih, ho]; simp
      constructor
      · intro h
        by_cases hb : getBit bm k = true
        · by_cases hov : base + k ≥ P32
          · exact ⟨k, by omega, hb, hov⟩
          · simp [hb, hov] at h
        · simp [hb] at h
      · intro ⟨j, hj, hbj, hoj⟩
        by_cases hjk : j = k
        · subst hjk; simp [hbj, hoj]
        · exact absurd ⟨j, by omega, hbj, hoj⟩ hnp
    | err e => exact absurd ho (fnExpandTo_false_ne_err base bm k e)
    | panic =>
      simp only [true_iff]
      obtain ⟨j, hj, hbj, hoj⟩ := ih.mp ho
      exact ⟨j, by omega, hbj, hoj⟩

/-- `FragmentNumberSet::new` does not panic on members within `base .. base + 255` -/
theorem fnsetNewLoop_np (base : Nat) (set : List Nat) (nb : Nat) (bm : List Nat)
    (h : ∀ m ∈ set, base ≤ m ∧ m < base + 256) : fnsetNewLoop base set nb bm ≠ .panic := by
  induction set generalizing nb bm with
  | nil => simp [fnsetNewLoop]
  | cons m rest ih =>
    unfold fnsetNewLoop
    have hm := h m (by simp)
    have hlt : ¬ m < base := by omega
    have hidx : ¬ (m - base) / 32 ≥ 8 := by omega
    simp only [hlt, hidx, if_false]
    exact ih _ _ (fun x hx => h x (by simp [hx]))

theorem fnsetNew_np (base : Nat) (set : List Nat) (h : ∀ m ∈ set, base ≤ m ∧ m < base + 256) :
    fnsetNew base set ≠ .panic := by
  unfold fnsetNew
  have := fnsetNewLoop_np base set 0 zeroBitmap h
  repeat' split
  all_goals simp_all

/-- the condition under which `FragmentNumberSet::try_read_from_bytes` panics (D5, D-wire-1):
    base, numBits and the bitmap words can be read and either `numBits > 256` or a set bit below `numBits`
    denotes a fragment number beyond `u32::MAX` -/
def FragSetPanics (le : Bool) (d : List Nat) : Prop :=
  ∃ base nb ws d1 d2 d3, readU32 le d = ok (base, d1) ∧ readU32 le d1 = ok (nb, d2) ∧
    readWords le (min (divCeil32 nb) 8) d2 = ok (ws, d3) ∧
    (nb > 256 ∨ ∃ j, j < nb ∧ getBit (padWords ws) j = true ∧ base + j ≥ P32)

theorem fnExpand_false_panic_iff (base : Nat) (bm : List Nat) (nb : Nat) :
    fnExpand false base bm nb = .panic ↔
      (nb > 256 ∨ ∃ j, j < nb ∧ getBit bm j = true ∧ base + j ≥ P32) := by
  unfold fnExpand
  have hiff := fnExpandTo_panic_iff base bm (min nb 256)
  cases ho : fnExpandTo false base bm (min nb 256) with
  | ok l =>
    simp only []
    have hno : ¬ ∃ j, j < min nb 256 ∧ getBit bm j = true ∧ base + j ≥ P32 := by
      rw [← hiff, ho]; simp
    by_cases hnb : nb > 256
    · simp [hnb]
    · simp only [hnb, if_false, false_or]
      constructor
      · intro hc; simp at hc
      · intro ⟨j, hj, hb, hov⟩
        exact absurd ⟨j, by omega, hb, hov⟩ hno
  | err e => exact absurd ho (fnExpandTo_false_ne_err base bm _ e)
  | panic =>
    simp only [true_iff]
    obtain ⟨j, hj, hb, hov⟩ := hiff.mp ho
    exact Or.inr ⟨j, by omega, hb, hov⟩

theorem fnExpand_bound (g : Bool) (base : Nat) (bm : List Nat) (nb : Nat) (l : List Nat)
    (h : fnExpand g base bm nb = ok l) : ∀ m ∈ l, base ≤ m ∧ m < base + 256 := by
  unfold fnExpand at h
  cases h0 : fnExpandTo g base bm (min nb 256) with
  | err e => simp [h0] at h
  | panic => simp [h0] at h
  | ok l0 =>
    simp only [h0] at h
    by_cases hnb : nb > 256
    · simp [hnb] at h
    · simp [hnb] at h
      subst h
      intro m hm
      have := fnExpandTo_bound g base bm _ l0 h0 m hm
      omega

theorem fnsetRead_eq (g le : Bool) (d d1 d2 d3 ws : List Nat) (base nb : Nat)
    (h1 : readU32 le d = ok (base, d1)) (h2 : readU32 le d1 = ok (nb, d2))
    (h3 : readWords le (min (divCeil32 nb) 8) d2 = ok (ws, d3)) (hg : ¬ (g = true ∧ nb > 256)) :
    fnsetRead g le d =
      (match fnExpand g base (padWords ws) nb with
       | ok members =>
         match fnsetNew base members with
         | ok s => ok (s, d3)
         | err e => err e
         | .panic => .panic
       | err e => err e
       | .panic => .panic) := by
  simp only [fnsetRead, h1, h2, h3, hg, if_false]
  rfl

/-- exact characterisation of the panic of the as-is reader -/
theorem fnsetRead_false_panic_iff (le : Bool) (d : List Nat) :
    fnsetRead false le d = .panic ↔ FragSetPanics le d := by
  constructor
  · intro h
    cases h1 : readU32 le d with
    | err e => simp [fnsetRead, h1] at h
    | panic => simp at h1
    | ok p1 =>
      obtain ⟨base, d1⟩ := p1
      cases h2 : readU32 le d1 with
      | err e => simp [fnsetRead, h1, h2] at h
      | panic => simp at h2
      | ok p2 =>
        obtain ⟨nb, d2⟩ := p2
        cases h3 : readWords le (min (divCeil32 nb) 8) d2 with
        | err e => simp [fnsetRead, h1, h2, h3] at h
        | panic => simp at h3
        | ok p3 =>
          obtain ⟨ws, d3⟩ := p3
          rw [fnsetRead_eq false le d d1 d2 d3 ws base nb h1 h2 h3 (by simp)] at h
          cases h4 : fnExpand false base (padWords ws) nb with
          | err e => simp [h4] at h
          | panic => exact ⟨base, nb, ws, d1, d2, d3, h1, h2, h3, (fnExpand_false_panic_iff _ _ _).mp h4⟩
          | ok members =>
            have hb := fnExpand_bound false base (padWords ws) nb members h4
            have hn := fnsetNew_np base members hb
            cases h5 : fnsetNew base members with
            | panic => exact absurd h5 hn
            | err e => simp [h4, h5] at h
            | ok s => simp [h4, h5] at h
  · intro ⟨base, nb, ws, d1, d2, d3, h1, h2, h3, hc⟩
    rw [fnsetRead_eq false le d d1 d2 d3 ws base nb h1 h2 h3 (by simp)]
    have := (fnExpand_false_panic_iff base (padWords ws) nb).mpr hc
    simp [this]

/-- with fixes/D5.patch the reader never panics -/
@[simp] theorem fnsetRead_guarded_np (le : Bool) (d : List Nat) : fnsetRead true le d ≠ .panic := by
  intro h
  cases h1 : readU32 le d with
  | err e => simp [fnsetRead, h1] at h
  | panic => simp at h1
  | ok p1 =>
    obtain ⟨base, d1⟩ := p1
    cases h2 : readU32 le d1 with
    | err e => simp [fnsetRead, h1, h2] at h
    | panic => simp at h2
    | ok p2 =>
      obtain ⟨nb, d2⟩ := p2
      by_cases hnb : nb > 256
      · simp [fnsetRead, h1, h2, hnb] at h
      · cases h3 : readWords le (min (divCeil32 nb) 8) d2 with
        | err e => simp [fnsetRead, h1, h2, h3, hnb] at h
        | panic => simp at h3
        | ok p3 =>
          obtain ⟨ws, d3⟩ := p3
          rw [fnsetRead_eq true le d d1 d2 d3 ws base nb h1 h2 h3 (by simp [hnb])] at h
          cases h4 : fnExpand true base (padWords ws) nb with
          | err e => simp [h4] at h
          | panic =>
            unfold fnExpand at h4
            have := fnExpandTo_guarded_np base (padWords ws) (min nb 256)
            repeat' split at h4
            all_goals simp_all
          | ok members =>
            have hb := fnExpand_bound true base (padWords ws) nb members h4
            have hn := fnsetNew_np base members hb
            cases h5 : fnsetNew base members with
            | panic => exact absurd h5 hn
            | err e => simp [h4, h5] at h
            | ok s => simp [h4, h5] at h

/-! ### consumed prefixes (to locate the set inside a NACK_FRAG) -/
theorem readBytes_ok_drop (n : Nat) (d a r : List Nat) (h : readBytes n d = ok (a, r)) : r = d.drop n := by
  unfold readBytes at h
  split at h <;> simp at h
  exact h.2.symm
theorem readU32_ok_drop (le : Bool) (d : List Nat) (x : Nat) (r : List Nat) (h : readU32 le d = ok (x, r)) :
    r = d.drop 4 := by
  unfold readU32 at h
  split at h <;> simp at h
  simp [h.2]
theorem readI32_ok_drop (le : Bool) (d : List Nat) (x : Int) (r : List Nat) (h : readI32 le d = ok (x, r)) :
    r = d.drop 4 := by
  unfold readI32 at h
  cases h0 : readU32 le d with
  | err e => simp [h0] at h
  | panic => simp [h0] at h
  | ok p =>
    obtain ⟨x0, r0⟩ := p
    simp [h0] at h
    rw [← h.2]
    exact readU32_ok_drop le d x0 r0 h0
theorem readSN_ok_drop (le : Bool) (d : List Nat) (x : Int) (r : List Nat) (h : readSN le d = ok (x, r)) :
    r = d.drop 8 := by
  unfold readSN at h
  cases h1 : readI32 le d with
  | err e => simp [h1] at h
  | panic => simp [h1] at h
  | ok p1 =>
    obtain ⟨hi, r1⟩ := p1
    cases h2 : readU32 le r1 with
    | err e => simp [h1, h2] at h
    | panic => simp [h1, h2] at h
    | ok p2 =>
      obtain ⟨lo, r2⟩ := p2
      simp [h1, h2] at h
      have a := readI32_ok_drop le d hi r1 h1
      have b := readU32_ok_drop le r1 lo r2 h2
      rw [← h.2, b, a, List.drop_drop]

theorem nackFragRead_false_panic (le : Bool) (d : List Nat) (h : nackFragRead false le d = .panic) :
    FragSetPanics le (d.drop 16) := by
  unfold nackFragRead at h
  cases h1 : readBytes 4 d with
  | err e => simp [h1] at h
  | panic => simp at h1
  | ok p1 =>
    obtain ⟨reader, s1⟩ := p1
    cases h2 : readBytes 4 s1 with
    | err e => simp [h1, h2] at h
    | panic => simp at h2
    | ok p2 =>
      obtain ⟨writer, s2⟩ := p2
      cases h3 : readSN le s2 with
      | err e => simp [h1, h2, h3] at h
      | panic => simp at h3
      | ok p3 =>
        obtain ⟨sn, s3⟩ := p3
        have e1 := readBytes_ok_drop _ _ _ _ h1
        have e2 := readBytes_ok_drop _ _ _ _ h2
        have e3 := readSN_ok_drop _ _ _ _ h3
        have e : s3 = d.drop 16 := by
          subst e1 e2 e3
          simp [List.drop_drop]
        cases h4 : fnsetRead false le s3 with
        | err e => simp [h1, h2, h3, h4] at h
        | panic =>
          rw [← e]
          exact (fnsetRead_false_panic_iff le s3).mp h4
        | ok p4 =>
          obtain ⟨set, s4⟩ := p4
          simp only [h1, h2, h3, h4] at h
          have := readI32_np le s4
          repeat' split at h
          all_goals simp_all

@[simp] theorem nackFragRead_guarded_np (le : Bool) (d : List Nat) : nackFragRead true le d ≠ .panic := by
  unfold nackFragRead
  repeat' split
  all_goals simp_all

end DustVerif.Wire
