import DustVerif.Model.Derive
/-! Helper lemmas for C40 (round trip of the derive expansion). -/
namespace DustVerif.Derive

/-! ### dynamic data as an association list -/

theorem lookup_erase_self (m : DynData) (id : Nat) : lookup id (erase m id) = none := by
  induction m with
  | nil => rfl
  | cons e r ih =>
    obtain ⟨k, x⟩ := e
    by_cases h : k = id
    · subst h; simp [erase, idNe, List.filter] at *; exact ih
    · have : (k != id) = true := by simp [h]
      simp [erase, idNe, List.filter, this, lookup, h] at *
      exact ih

theorem lookup_erase_ne (m : DynData) {k id : Nat} (h : k ≠ id) : lookup k (erase m id) = lookup k m := by
  induction m with
  | nil => rfl
  | cons e r ih =>
    obtain ⟨j, x⟩ := e
    by_cases hj : j = id
    · subst hj
      have hne : ¬ j = k := fun e => h e.symm
      simp [erase, idNe, List.filter, lookup, hne] at *
      exact ih
    · have : (j != id) = true := by simp [hj]
      simp only [erase, idNe, List.filter, this, lookup] at *
      by_cases hk : j = k
      · simp [hk]
      · simp [hk]; exact ih

theorem lookup_setValue_self (m : DynData) (id : Nat) (x : Storage) : lookup id (setValue m id x) = some x := by
  simp [setValue, lookup]

theorem lookup_setValue_ne (m : DynData) {k id : Nat} (x : Storage) (h : k ≠ id) :
    lookup k (setValue m id x) = lookup k m := by
  have hne : ¬ id = k := fun e => h e.symm
  simp [setValue, lookup, hne]
  exact lookup_erase_ne m h

/-- erase a list of ids (most recently erased first) -/
def eraseAll (m : DynData) : List Nat → DynData
  | [] => m
  | id :: E => erase (eraseAll m E) id

theorem lookup_eraseAll (m : DynData) {k : Nat} : ∀ (E : List Nat), k ∉ E → lookup k (eraseAll m E) = lookup k m
  | [], _ => rfl
  | id :: E, h => by
    have h1 : k ≠ id := fun e => h (by simp [e])
    have h2 : k ∉ E := fun e => h (by simp [e])
    simp only [eraseAll]
    rw [lookup_erase_ne _ h1]
    exact lookup_eraseAll m E h2

/-! ### `Res`, `mapRes`, sequences -/

@[simp] theorem Res.bind_ok {α β} (a : α) (f : α → Res β) : (Res.ok a).bind f = f a := rfl
@[simp] theorem Res.bind_none {α β} (f : α → Res β) : (Res.none : Res α).bind f = .none := rfl
@[simp] theorem Res.bind_panic {α β} (f : α → Res β) : (Res.panic : Res α).bind f = .panic := rfl
@[simp] theorem Res.bind_bad {α β} (f : α → Res β) : (Res.bad : Res α).bind f = .bad := rfl

theorem allB_cons {α} (p : α → Bool) (x : α) (r : List α) : allB p (x :: r) = (p x && allB p r) := rfl

/-- element-wise round trip lifts to `mapRes` -/
theorem mapRes_rt {f : Val → Res Storage} {g : Storage → Res Val} {s : Val → Val} {ok : Val → Bool} {sh : Storage → Bool}
    (h : ∀ v, ok v = true → ∃ x, f v = .ok x ∧ g x = .ok (s v) ∧ sh x = true) :
    ∀ vs, allB ok vs = true → ∃ xs, mapRes f vs = .ok xs ∧ mapRes g xs = .ok (vs.map s) ∧ allB sh xs = true
  | [], _ => ⟨[], rfl, rfl, rfl⟩
  | v :: vs, hv => by
    rw [allB_cons, Bool.and_eq_true] at hv
    obtain ⟨x, hx, hg, hs⟩ := h v hv.1
    obtain ⟨xs, hxs, hgs, hss⟩ := mapRes_rt h vs hv.2
    refine ⟨x :: xs, ?_, ?_, ?_⟩
    · simp [mapRes, hx, hxs]
    · simp [mapRes, hg, hgs]
    · simp [allB_cons, hs, hss]

theorem mapRes_length {α β} {f : α → Res β} : ∀ {xs : List α} {ys : List β}, mapRes f xs = .ok ys → ys.length = xs.length
  | [], ys, h => by simp [mapRes] at h; cases h; rfl
  | x :: xs, ys, h => by
    simp only [mapRes] at h
    cases hx : f x <;> simp [hx] at h
    rename_i y
    cases hxs : mapRes f xs <;> simp [hxs] at h
    rename_i ys'
    cases h
    simp [mapRes_length hxs]

/-- the storage of an element type has the shape `packSeq` expects -/
def shapeOf : Ty → Storage → Bool
  | .prim p, .prim q _ => p == q
  | .struct _ _, .complex _ => true
  | .enum _, .complex _ => true
  | .union _ _, .complex _ => true
  | _, _ => false

theorem allSome_primOf (p : Prim) : ∀ xs : List Storage, allB (shapeOf (.prim p)) xs = true →
    ∃ vs, allSome (xs.map primOf) = some vs ∧ vs.map (Storage.prim p) = xs
  | [], _ => ⟨[], rfl, rfl⟩
  | x :: xs, h => by
    rw [allB_cons, Bool.and_eq_true] at h
    obtain ⟨vs, h1, h2⟩ := allSome_primOf p xs h.2
    cases x with
    | prim q v =>
      have : p = q := by simpa [shapeOf] using h.1
      subst this
      exact ⟨v :: vs, by simp [allSome, primOf, h1], by simp [h2]⟩
    | seqPrim _ _ => simp [shapeOf] at h
    | complex _ => simp [shapeOf] at h
    | seqComplex _ => simp [shapeOf] at h

theorem allSome_complexOf (t : Ty) (ht : t.isElem = true) (hp : ∀ p, t ≠ .prim p) : ∀ xs : List Storage, allB (shapeOf t) xs = true →
    ∃ ds, allSome (xs.map complexOf) = some ds ∧ ds.map Storage.complex = xs
  | [], _ => ⟨[], rfl, rfl⟩
  | x :: xs, h => by
    rw [allB_cons, Bool.and_eq_true] at h
    obtain ⟨ds, h1, h2⟩ := allSome_complexOf t ht hp xs h.2
    cases x with
    | complex d => exact ⟨d :: ds, by simp [allSome, complexOf, h1], by simp [h2]⟩
    | prim q v => cases t <;> simp [shapeOf, Ty.isElem] at h ht; exact absurd rfl (hp _)
    | seqPrim _ _ => cases t <;> simp [shapeOf] at h
    | seqComplex _ => cases t <;> simp [shapeOf] at h

theorem pack_unpack (t : Ty) (ht : t.isElem = true) (xs : List Storage) (h : allB (shapeOf t) xs = true) :
    ∃ X, packSeq t xs = .ok X ∧ unpackSeq t X = .ok xs := by
  cases t with
  | prim p =>
    obtain ⟨vs, h1, h2⟩ := allSome_primOf p xs h
    exact ⟨.seqPrim p vs, by simp [packSeq, h1], by simp [unpackSeq, h2]⟩
  | struct hd fs =>
    obtain ⟨ds, h1, h2⟩ := allSome_complexOf (.struct hd fs) ht (by intro p; simp) xs h
    exact ⟨.seqComplex ds, by simp [packSeq, h1], by simp [unpackSeq, h2]⟩
  | enum hd =>
    obtain ⟨ds, h1, h2⟩ := allSome_complexOf (.enum hd) ht (by intro p; simp) xs h
    exact ⟨.seqComplex ds, by simp [packSeq, h1], by simp [unpackSeq, h2]⟩
  | union hd us =>
    obtain ⟨ds, h1, h2⟩ := allSome_complexOf (.union hd us) ht (by intro p; simp) xs h
    exact ⟨.seqComplex ds, by simp [packSeq, h1], by simp [unpackSeq, h2]⟩
  | vec _ => simp [Ty.isElem] at ht
  | arr _ _ => simp [Ty.isElem] at ht
  | opt _ => simp [Ty.isElem] at ht

/-! ### defaults -/

theorem primIsDefault_eq (p : Prim) (v : Val) (h : primIsDefault p v = true) : v = primDefault p := by
  cases p <;> cases v <;> simp_all [primIsDefault, primDefault]

theorem scrub_prim (p : Prim) (v : Val) : scrub (.prim p) v = v := by
  cases v <;> simp [scrub]

theorem map_scrub_default (t : Ty) (ih : ∀ v, isDefault t v = true → hasType t v = true → scrub t v = defaultVal t) :
    ∀ vs : List Val, allB (isDefault t) vs = true → allB (hasType t) vs = true → vs.map (scrub t) = List.replicate vs.length (defaultVal t)
  | [], _, _ => rfl
  | v :: vs, h1, h2 => by
    rw [allB_cons, Bool.and_eq_true] at h1 h2
    simp [ih v h1.1 h2.1, map_scrub_default t ih vs h1.2 h2.2, List.replicate_succ]

mutual
theorem isDefault_scrub : ∀ (t : Ty) (v : Val), isDefault t v = true → hasType t v = true → scrub t v = defaultVal t
  | .prim p, v, h, _ => by
    rw [scrub_prim]; simp only [isDefault] at h; simpa [defaultVal] using primIsDefault_eq p v h
  | .vec t, v, h, _ => by
    cases v <;> simp [isDefault] at h
    subst h; simp [scrub, defaultVal]
  | .arr t n, v, h, ht => by
    cases v <;> simp [isDefault] at h
    rename_i vs
    simp only [hasType, Bool.and_eq_true, beq_iff_eq] at ht
    have := map_scrub_default t (isDefault_scrub t) vs h ht.1
    simp [scrub, defaultVal, this, ht.2]
  | .opt t, v, h, _ => by
    cases v <;> simp [isDefault] at h
    simp [scrub, defaultVal]
  | .struct hd fs, v, h, ht => by
    cases v <;> simp [isDefault] at h
    rename_i vs
    simp only [hasType] at ht
    simp [scrub, defaultVal, isDefaultFields_scrub fs vs h ht]
  | .enum hd, v, h, _ => by
    cases v <;> simp [isDefault] at h
    subst h; simp [scrub, defaultVal]
  | .union hd us, v, h, _ => by
    cases v <;> simp [isDefault] at h
theorem isDefaultFields_scrub : ∀ (fs : Fields) (vs : List Val), isDefaultFields fs vs = true → hasTypeFields fs vs = true →
    scrubFields fs vs = defaultFields fs
  | .nil, vs, h, _ => by
    cases vs <;> simp [isDefaultFields] at h
    simp [scrubFields, defaultFields]
  | .cons a t r, vs, h, ht => by
    cases vs with
    | nil => simp [isDefaultFields] at h
    | cons v vs =>
      simp only [isDefaultFields, Bool.and_eq_true] at h
      simp only [hasTypeFields, Bool.and_eq_true] at ht
      simp only [scrubFields, defaultFields]
      rw [isDefaultFields_scrub r vs h.2 ht.2, isDefault_scrub t v h.1 ht.1]
      simp
end

/-! ### enumerations -/

theorem enumDiscsFrom_length : ∀ (vs : List (String × Option Nat)) (n : Nat), (enumDiscsFrom n vs).length = vs.length
  | [], _ => rfl
  | (_, some d) :: r, n => by simp [enumDiscsFrom, enumDiscsFrom_length r]
  | (_, none) :: r, n => by simp [enumDiscsFrom, enumDiscsFrom_length r]

theorem nodupNat_cons (x : Nat) (r : List Nat) : nodupNat (x :: r) = true ↔ x ∉ r ∧ nodupNat r = true := by
  simp [nodupNat]

theorem findIdx_nodup : ∀ (l : List Nat) (j k d : Nat), nodupNat l = true → l[k]? = some d → findIdx d j l = some (j + k)
  | [], _, _, _, _, h => by simp at h
  | x :: r, j, 0, d, _, h => by
    simp at h; subst h; simp [findIdx]
  | x :: r, j, k + 1, d, hn, h => by
    rw [nodupNat_cons] at hn
    simp at h
    have hmem : d ∈ r := List.mem_of_getElem? h
    have hne : ¬ x = d := fun e => hn.1 (e ▸ hmem)
    simp only [findIdx, beq_iff_eq, hne, if_false]
    rw [findIdx_nodup r (j + 1) k d hn.2 h]
    congr 1; omega

theorem enum_rt (h : EnumHdr) (k : Nat) (hs : supported (.enum h) = true) (hk : k < h.variants.length) :
    ∃ d, enumDyn h (.enumv k) = .ok d ∧ enumSample h d = .ok (.enumv k) := by
  simp only [supported, Bool.and_eq_true] at hs
  have hlen : k < (enumDiscs h).length := by simpa [enumDiscs, enumDiscsFrom_length] using hk
  have hget : (enumDiscs h)[k]? = some ((enumDiscs h)[k]) := List.getElem?_eq_getElem hlen
  refine ⟨setValue [] 0 (.prim (bitsPrim h.bits) (.i ((enumDiscs h)[k] : Nat))), ?_, ?_⟩
  · simp [enumDyn, hget]
  · have := findIdx_nodup (enumDiscs h) 0 k _ hs.2 hget
    simp [enumSample, lookup_setValue_self, this]

/-! ### round trip: building blocks -/

theorem fieldMode_skip {ext : Ext} {tuple : Bool} {a : FieldAttr} : fieldMode ext tuple a = .skip ↔ a.nonSerialized = true := by
  unfold fieldMode
  cases a.nonSerialized <;> simp
  split <;> simp

theorem hasTypeVariant_lt : ∀ (us : Variants) (k : Nat) (p : Option Val), hasTypeVariant us k p = true → k < us.length
  | .nil, k, p, h => by cases k <;> simp [hasTypeVariant] at h
  | .unit a r, 0, p, _ => by simp [Variants.length]
  | .data a t r, 0, p, _ => by simp [Variants.length]
  | .unit a r, k + 1, p, h => by
    simp only [hasTypeVariant] at h
    have := hasTypeVariant_lt r k p h
    simp [Variants.length]; omega
  | .data a t r, k + 1, p, h => by
    simp only [hasTypeVariant] at h
    have := hasTypeVariant_lt r k p h
    simp [Variants.length]; omega

theorem selectsFrom_get (us : Variants) : ∀ (n k : Nat), selectsFrom us n = true → k < n →
    armIndex 0 us (labelAt 0 us k) = some k
  | 0, _, _, h => by omega
  | n + 1, k, hs, hk => by
    simp only [selectsFrom, Bool.and_eq_true, beq_iff_eq] at hs
    by_cases e : k = n
    · subst e; exact hs.1
    · exact selectsFrom_get us n k hs.2 (by omega)

/-- the round-trip statement for one member type -/
def RT (t : Ty) : Prop :=
  ∀ v, supported t = true → good t = true → hasType t v = true → (t.isOpt = true → v ≠ Val.none) →
    ∃ x, toStorage t v = .ok x ∧ fromStorage t x = .ok (scrub t v)

theorem toStorage_shape (t : Ty) (he : t.isElem = true) (v : Val) (x : Storage) (h : toStorage t v = .ok x) :
    shapeOf t x = true := by
  cases t with
  | prim p =>
    simp only [toStorage] at h
    split at h
    · cases h; simp [shapeOf]
    · cases h
  | struct hd fs =>
    cases v <;> simp [toStorage] at h
    rename_i vs
    cases hw : writeFields hd.ext hd.tuple 0 0 fs vs [] <;> simp [hw] at h
    subst h; rfl
  | enum hd =>
    simp only [toStorage] at h
    cases hw : enumDyn hd v <;> simp [hw] at h
    subst h; rfl
  | union hd us =>
    cases v <;> simp [toStorage] at h
    rename_i k p
    cases hw : writeVariant hd.disc 0 us k p <;> simp [hw] at h
    subst h; rfl
  | vec _ => simp [Ty.isElem] at he
  | arr _ _ => simp [Ty.isElem] at he
  | opt _ => simp [Ty.isElem] at he

theorem isElem_not_opt {t : Ty} (h : t.isElem = true) : t.isOpt = false := by
  cases t <;> simp_all [Ty.isElem, Ty.isOpt]

/-- sequences of an element type that round-trips -/
theorem seq_rt (t : Ty) (he : t.isElem = true) (hs : supported t = true) (hg : good t = true) (ih : RT t)
    (vs : List Val) (hv : allB (hasType t) vs = true) :
    ∃ X xs, (mapRes (toStorage t) vs).bind (packSeq t) = .ok X ∧ unpackSeq t X = .ok xs ∧
      mapRes (fromStorage t) xs = .ok (vs.map (scrub t)) := by
  have step : ∀ v, hasType t v = true → ∃ x, toStorage t v = .ok x ∧ fromStorage t x = .ok (scrub t v) ∧ shapeOf t x = true := by
    intro v hv
    obtain ⟨x, h1, h2⟩ := ih v hs hg hv (by simp [isElem_not_opt he])
    exact ⟨x, h1, h2, toStorage_shape t he v x h1⟩
  obtain ⟨xs, h1, h2, h3⟩ := mapRes_rt step vs hv
  obtain ⟨X, h4, h5⟩ := pack_unpack t he xs h3
  exact ⟨X, xs, by simp [h1, h4], h5, h2⟩

/-! ### round trip: the mutual induction over the declaration tree -/

theorem payloadRes_ok (a : VarAttr) (pos : Nat) (conv : Storage → Res Val) (x : Storage) (w : Val) (h : conv x = .ok w) :
    payloadRes a pos conv (some x) = .ok (.unionv pos (some w)) := by
  cases hf : a.field <;> simp [payloadRes, hf, h]

theorem readNonDefault_none : ∀ (us : Variants) (pos idx : Nat) (d : Int) (m : DynData),
    armNonDefault idx us d = none → readNonDefault pos idx us d m = none
  | .nil, _, _, _, _, _ => by simp [readNonDefault]
  | .unit a r, pos, idx, d, m, h => by
    simp only [armNonDefault] at h
    by_cases hc : (!a.isDefault && firstLabel idx a == d) = true
    · simp [hc] at h
    · simp only [hc, if_false, Bool.false_eq_true] at h
      have hr : armNonDefault (idx + 1) r d = none := by
        cases ha : armNonDefault (idx + 1) r d <;> simp [ha] at h ⊢
      simp only [Bool.not_eq_true] at hc
      simp [readNonDefault, hc, readNonDefault_none r (pos + 1) (idx + 1) d m hr]
  | .data a t r, pos, idx, d, m, h => by
    simp only [armNonDefault] at h
    by_cases hc : (!a.isDefault && firstLabel idx a == d) = true
    · simp [hc] at h
    · simp only [hc, if_false, Bool.false_eq_true] at h
      have hr : armNonDefault (idx + 1) r d = none := by
        cases ha : armNonDefault (idx + 1) r d <;> simp [ha] at h ⊢
      simp only [Bool.not_eq_true] at hc
      simp [readNonDefault, hc, readNonDefault_none r (pos + 1) (idx + 1) d m hr]

theorem readDefault_none : ∀ (us : Variants) (pos idx : Nat) (m : DynData),
    lastDefault us = none → readDefault pos idx us m = none
  | .nil, _, _, _, _ => by simp [readDefault]
  | .unit a r, pos, idx, m, h => by
    simp only [lastDefault] at h
    cases hl : lastDefault r with
    | some j => simp [hl] at h
    | none =>
      simp only [hl] at h
      have ha : a.isDefault = false := by cases hd : a.isDefault <;> simp [hd] at h ⊢
      simp [readDefault, readDefault_none r (pos + 1) (idx + 1) m hl, ha]
  | .data a t r, pos, idx, m, h => by
    simp only [lastDefault] at h
    cases hl : lastDefault r with
    | some j => simp [hl] at h
    | none =>
      simp only [hl] at h
      have ha : a.isDefault = false := by cases hd : a.isDefault <;> simp [hd] at h ⊢
      simp [readDefault, readDefault_none r (pos + 1) (idx + 1) m hl, ha]

mutual
theorem rtTy : ∀ (t : Ty), RT t
  | .prim p => by
    intro v hs0 hg0 ht hno0
    simp only [hasType] at ht
    refine ⟨.prim p v, by simp [toStorage, ht], ?_⟩
    simp [fromStorage, scrub_prim]
  | .opt t => by
    intro v hs hg ht hn
    simp only [supported, Bool.and_eq_true] at hs
    simp only [good] at hg
    cases v with
    | none => exact absurd rfl (hn rfl)
    | some w =>
      simp only [hasType] at ht
      have hno : t.isOpt = true → w ≠ Val.none := by
        intro h; cases t <;> simp_all [Ty.isOpt, Ty.isColl, Ty.isElem]
      obtain ⟨x, h1, h2⟩ := rtTy t w hs.2 hg ht hno
      exact ⟨x, by simp [toStorage, h1], by simp [fromStorage, h2, scrub]⟩
    | i _ => simp [hasType] at ht
    | f _ => simp [hasType] at ht
    | s _ => simp [hasType] at ht
    | list _ => simp [hasType] at ht
    | struct _ => simp [hasType] at ht
    | enumv _ => simp [hasType] at ht
    | unionv _ _ => simp [hasType] at ht
  | .vec t => by
    intro v hs hg ht hno0
    simp only [supported, Bool.and_eq_true] at hs
    simp only [good] at hg
    cases v <;> simp [hasType] at ht
    rename_i vs
    obtain ⟨X, xs, h1, h2, h3⟩ := seq_rt t hs.1 hs.2 hg (rtTy t) vs ht
    exact ⟨X, by simp [toStorage, h1], by simp [fromStorage, h2, h3, scrub]⟩
  | .arr t n => by
    intro v hs hg ht hno0
    simp only [supported, Bool.and_eq_true] at hs
    simp only [good] at hg
    cases v <;> simp [hasType] at ht
    rename_i vs
    obtain ⟨X, xs, h1, h2, h3⟩ := seq_rt t hs.1 hs.2 hg (rtTy t) vs ht.1
    refine ⟨X, by simp [toStorage, h1, ht.2], ?_⟩
    simp [fromStorage, h2, h3, scrub, ht.2]
  | .struct hd fs => by
    intro v hs hg ht hno0
    simp only [supported, Bool.and_eq_true, memberIds] at hs
    simp only [good] at hg
    cases v <;> simp [hasType] at ht
    rename_i vs
    obtain ⟨m', h1, _, h3⟩ := rtFields hd.ext hd.tuple fs vs 0 0 [] hs.2 hg ht hs.1.2 (by intro id _; rfl)
    refine ⟨.complex m', by simp [toStorage, h1], ?_⟩
    have := h3 [] (by intro id _; simp)
    simp only [eraseAll] at this
    simp [fromStorage, this, scrub]
  | .enum hd => by
    intro v hs hg0 ht hno0
    cases v <;> simp [hasType] at ht
    rename_i k
    obtain ⟨d, h1, h2⟩ := enum_rt hd k hs ht
    exact ⟨.complex d, by simp [toStorage, h1], by simp [fromStorage, h2, scrub]⟩
  | .union hd us => by
    intro v hs hg ht hno0
    simp only [supported, Bool.and_eq_true] at hs
    simp only [good, Bool.and_eq_true] at hg
    cases v <;> simp [hasType] at ht
    rename_i k p
    obtain ⟨m, h1, h2, h3, h4⟩ := rtVariants hd.disc us 0 0 k p hs.2 hg.2 ht
    have hsel := selectsFrom_get us us.length k hg.1 (hasTypeVariant_lt us k p ht)
    refine ⟨.complex m, by simp [toStorage, h1], ?_⟩
    unfold armIndex at hsel
    cases hnd : armNonDefault 0 us (labelAt 0 us k) with
    | some j =>
      simp [hnd] at hsel; subst hsel
      have := h3 _ hnd
      simp [fromStorage, removeValue, h2, this, scrub]
    | none =>
      simp [hnd] at hsel
      have h5 := readNonDefault_none us 0 0 (labelAt 0 us k) (erase m 0) hnd
      have := h4 hsel
      simp [fromStorage, removeValue, h2, h5, this, scrub]
theorem rtFields (ext : Ext) (tuple : Bool) : ∀ (fs : Fields) (vs : List Val) (idx next : Nat) (m : DynData),
    supportedFields ext tuple fs = true → goodFields ext tuple fs = true → hasTypeFields fs vs = true →
    nodupNat (idsFrom ext tuple idx next fs.attrs) = true →
    (∀ id ∈ idsFrom ext tuple idx next fs.attrs, lookup id m = none) →
    ∃ m', writeFields ext tuple idx next fs vs m = .ok m' ∧
      (∀ k, k ∉ idsFrom ext tuple idx next fs.attrs → lookup k m' = lookup k m) ∧
      (∀ E, (∀ id ∈ idsFrom ext tuple idx next fs.attrs, id ∉ E) →
        readFields ext tuple idx next fs (eraseAll m' E) = .ok (scrubFields fs vs))
  | .nil, vs, idx, next, m, _, _, ht, _, _ => by
    cases vs <;> simp [hasTypeFields] at ht
    exact ⟨m, by simp [writeFields], by intro k _; rfl, by intro E _; simp [readFields, scrubFields]⟩
  | .cons a t r, vs, idx, next, m, hs, hg, ht, hn, hfresh => by
    cases vs with
    | nil => simp [hasTypeFields] at ht
    | cons v vs =>
      simp only [hasTypeFields, Bool.and_eq_true] at ht
      simp only [supportedFields, Bool.and_eq_true] at hs
      simp only [goodFields, Bool.and_eq_true] at hg
      simp only [Fields.attrs, idsFrom] at hn hfresh ⊢
      rw [nodupNat_cons] at hn
      generalize hid : memberId ext tuple idx next a = id at *
      generalize hnx : nextAuto ext tuple idx next a = nx at *
      have hfreshR : ∀ id' ∈ idsFrom ext tuple (idx + 1) nx r.attrs, lookup id' m = none :=
        fun id' h => hfresh id' (List.mem_cons_of_mem _ h)
      -- the three ways a member is handled
      cases hmode : fieldMode ext tuple a with
      | skip =>
        obtain ⟨m', h1, h2, h3⟩ := rtFields ext tuple r vs (idx + 1) nx m hs.2 hg.2 ht.2 hn.2 hfreshR
        refine ⟨m', by simp [writeFields, hmode, hnx, h1], ?_, ?_⟩
        · intro k hk; exact h2 k (fun h => hk (List.mem_cons_of_mem _ h))
        · intro E hE
          have := h3 E (fun id' h => hE id' (List.mem_cons_of_mem _ h))
          simp [readFields, hmode, hnx, this, scrubFields, fieldMode_skip.mp hmode]
      | opt =>
        have hns : a.nonSerialized = false := by
          cases h : a.nonSerialized
          · rfl
          · rw [fieldMode_skip.mpr h] at hmode; cases hmode
        by_cases hd : isDefault t v = true
        · obtain ⟨m', h1, h2, h3⟩ := rtFields ext tuple r vs (idx + 1) nx m hs.2 hg.2 ht.2 hn.2 hfreshR
          refine ⟨m', by simp [writeFields, hmode, hnx, hd, h1], ?_, ?_⟩
          · intro k hk; exact h2 k (fun h => hk (List.mem_cons_of_mem _ h))
          · intro E hE
            have hidE : id ∉ E := hE id (List.mem_cons_self ..)
            have hlk : lookup id (eraseAll m' E) = none := by
              rw [lookup_eraseAll m' E hidE, h2 id hn.1]; exact hfresh id (List.mem_cons_self ..)
            have := h3 (id :: E) (by
              intro id' h; simp only [List.mem_cons, not_or]
              exact ⟨fun e => hn.1 (by rw [← e]; exact h), hE id' (List.mem_cons_of_mem _ h)⟩)
            simp only [eraseAll] at this
            simp [readFields, hmode, hnx, hid, hlk, this, scrubFields, hns, isDefault_scrub t v hd ht.1]
        · have hno : t.isOpt = true → v ≠ Val.none := by
            intro h e; subst e; cases t <;> simp_all [Ty.isOpt, isDefault]
          obtain ⟨x, hx1, hx2⟩ := rtTy t v hs.1.1 hg.1.1 ht.1 hno
          have hfresh1 : ∀ id' ∈ idsFrom ext tuple (idx + 1) nx r.attrs, lookup id' (setValue m id x) = none := by
            intro id' h
            rw [lookup_setValue_ne m x (fun e => hn.1 (by rw [← e]; exact h))]; exact hfreshR id' h
          obtain ⟨m', h1, h2, h3⟩ := rtFields ext tuple r vs (idx + 1) nx (setValue m id x) hs.2 hg.2 ht.2 hn.2 hfresh1
          refine ⟨m', by simp [writeFields, hmode, hnx, hid, hd, hx1, h1], ?_, ?_⟩
          · intro k hk
            simp only [List.mem_cons, not_or] at hk
            rw [h2 k hk.2, lookup_setValue_ne m x hk.1]
          · intro E hE
            have hidE : id ∉ E := hE id (List.mem_cons_self ..)
            have hlk : lookup id (eraseAll m' E) = some x := by
              rw [lookup_eraseAll m' E hidE, h2 id hn.1, lookup_setValue_self]
            have := h3 (id :: E) (by
              intro id' h; simp only [List.mem_cons, not_or]
              exact ⟨fun e => hn.1 (by rw [← e]; exact h), hE id' (List.mem_cons_of_mem _ h)⟩)
            simp only [eraseAll] at this
            simp [readFields, hmode, hnx, hid, hlk, hx2, this, scrubFields, hns]
      | plain =>
        have hns : a.nonSerialized = false := by
          cases h : a.nonSerialized
          · rfl
          · rw [fieldMode_skip.mpr h] at hmode; cases hmode
        have hno : t.isOpt = true → v ≠ Val.none := by
          intro h; simp [h, hmode] at hg
        obtain ⟨x, hx1, hx2⟩ := rtTy t v hs.1.1 hg.1.1 ht.1 hno
        have hfresh1 : ∀ id' ∈ idsFrom ext tuple (idx + 1) nx r.attrs, lookup id' (setValue m id x) = none := by
          intro id' h
          rw [lookup_setValue_ne m x (fun e => hn.1 (by rw [← e]; exact h))]; exact hfreshR id' h
        obtain ⟨m', h1, h2, h3⟩ := rtFields ext tuple r vs (idx + 1) nx (setValue m id x) hs.2 hg.2 ht.2 hn.2 hfresh1
        refine ⟨m', by simp [writeFields, hmode, hnx, hid, hx1, h1], ?_, ?_⟩
        · intro k hk
          simp only [List.mem_cons, not_or] at hk
          rw [h2 k hk.2, lookup_setValue_ne m x hk.1]
        · intro E hE
          have hidE : id ∉ E := hE id (List.mem_cons_self ..)
          have hlk : lookup id (eraseAll m' E) = some x := by
            rw [lookup_eraseAll m' E hidE, h2 id hn.1, lookup_setValue_self]
          have := h3 (id :: E) (by
            intro id' h; simp only [List.mem_cons, not_or]
            exact ⟨fun e => hn.1 (by rw [← e]; exact h), hE id' (List.mem_cons_of_mem _ h)⟩)
          simp only [eraseAll] at this
          simp [readFields, hmode, hnx, hid, hlk, hx2, this, scrubFields, hns]
theorem rtVariants (disc : Prim) : ∀ (us : Variants) (idx pos k : Nat) (p : Option Val),
    supportedVariants disc idx us = true → goodVariants us = true → hasTypeVariant us k p = true →
    ∃ m, writeVariant disc idx us k p = .ok m ∧ lookup 0 m = some (.prim disc (.i (labelAt idx us k))) ∧
      (∀ d, armNonDefault idx us d = some k →
        readNonDefault pos idx us d (erase m 0) = some (.ok (.unionv (pos + k) (scrubVariant us k p)))) ∧
      (lastDefault us = some k →
        readDefault pos idx us (erase m 0) = some (.ok (.unionv (pos + k) (scrubVariant us k p))))
  | .nil, idx, pos, k, p, _, _, ht => by cases k <;> simp [hasTypeVariant] at ht
  | .unit a r, idx, pos, 0, p, _, _, ht => by
    cases p <;> simp [hasTypeVariant] at ht
    refine ⟨setValue [] 0 (.prim disc (.i (firstLabel idx a))), by simp [writeVariant], by simp [lookup_setValue_self, labelAt], ?_, ?_⟩
    · intro d hd
      have hc : (!a.isDefault && firstLabel idx a == d) = true := by
        simp only [armNonDefault] at hd
        by_cases h : (!a.isDefault && firstLabel idx a == d) = true
        · exact h
        · simp [h] at hd
      simp [readNonDefault, hc, scrubVariant]
    · intro hd
      simp only [lastDefault] at hd
      cases hl : lastDefault r with
      | some j => simp [hl] at hd
      | none =>
        simp only [hl] at hd
        have ha : a.isDefault = true := by
          by_cases h : a.isDefault = true
          · exact h
          · simp [h] at hd
        simp [readDefault, readDefault_none r (pos + 1) (idx + 1) _ hl, ha, scrubVariant]
  | .data a t r, idx, pos, 0, p, hs, hg, ht => by
    cases p with
    | none => simp [hasTypeVariant] at ht
    | some v =>
      simp only [hasTypeVariant] at ht
      simp only [supportedVariants, Bool.and_eq_true] at hs
      simp only [goodVariants, Bool.and_eq_true, Bool.not_eq_true'] at hg
      obtain ⟨x, hx1, hx2⟩ := rtTy t v hs.1.1 hg.1.1 ht (by simp [hg.1.2])
      have hl : lookup (idx + 1) (erase (setValue (setValue [] 0 (Storage.prim disc (Val.i (firstLabel idx a)))) (idx + 1) x) 0) = some x := by
        rw [lookup_erase_ne _ (by omega), lookup_setValue_self]
      refine ⟨setValue (setValue [] 0 (.prim disc (.i (firstLabel idx a)))) (idx + 1) x, by simp [writeVariant, hx1], ?_, ?_, ?_⟩
      · rw [lookup_setValue_ne _ x (by omega), lookup_setValue_self]; simp [labelAt]
      · intro d hd
        have hc : (!a.isDefault && firstLabel idx a == d) = true := by
          simp only [armNonDefault] at hd
          by_cases h : (!a.isDefault && firstLabel idx a == d) = true
          · exact h
          · simp [h] at hd
        simp [readNonDefault, hc, hl, payloadRes_ok a pos _ x _ hx2, scrubVariant]
      · intro hd
        simp only [lastDefault] at hd
        cases hld : lastDefault r with
        | some j => simp [hld] at hd
        | none =>
          simp only [hld] at hd
          have ha : a.isDefault = true := by
            by_cases h : a.isDefault = true
            · exact h
            · simp [h] at hd
          simp [readDefault, readDefault_none r (pos + 1) (idx + 1) _ hld, ha, hl, payloadRes_ok a pos _ x _ hx2, scrubVariant]
  | .unit a r, idx, pos, k + 1, p, hs, hg, ht => by
    simp only [hasTypeVariant] at ht
    simp only [supportedVariants, Bool.and_eq_true] at hs
    simp only [goodVariants] at hg
    obtain ⟨m, h1, h2, h3, h4⟩ := rtVariants disc r (idx + 1) (pos + 1) k p hs.2 hg ht
    refine ⟨m, by simp [writeVariant, h1], by simp [labelAt, h2], ?_, ?_⟩
    · intro d hd
      simp only [armNonDefault] at hd
      by_cases hc : (!a.isDefault && firstLabel idx a == d) = true
      · simp [hc] at hd
      · simp only [hc, if_false, Bool.false_eq_true] at hd
        cases ha : armNonDefault (idx + 1) r d with
        | none => simp [ha] at hd
        | some j =>
          simp [ha] at hd; subst hd
          have := h3 d ha
          simp only [Bool.not_eq_true] at hc
          have e : pos + 1 + j = pos + (j + 1) := by omega
          simp [readNonDefault, hc, this, scrubVariant, e]
    · intro hd
      simp only [lastDefault] at hd
      cases hl : lastDefault r with
      | none =>
        simp only [hl] at hd
        by_cases h : a.isDefault = true <;> simp [h] at hd
      | some j =>
        simp [hl] at hd; subst hd
        have := h4 hl
        have e : pos + 1 + j = pos + (j + 1) := by omega
        simp [readDefault, this, scrubVariant, e]
  | .data a t r, idx, pos, k + 1, p, hs, hg, ht => by
    simp only [hasTypeVariant] at ht
    simp only [supportedVariants, Bool.and_eq_true] at hs
    simp only [goodVariants, Bool.and_eq_true] at hg
    obtain ⟨m, h1, h2, h3, h4⟩ := rtVariants disc r (idx + 1) (pos + 1) k p hs.2 hg.2 ht
    refine ⟨m, by simp [writeVariant, h1], by simp [labelAt, h2], ?_, ?_⟩
    · intro d hd
      simp only [armNonDefault] at hd
      by_cases hc : (!a.isDefault && firstLabel idx a == d) = true
      · simp [hc] at hd
      · simp only [hc, if_false, Bool.false_eq_true] at hd
        cases ha : armNonDefault (idx + 1) r d with
        | none => simp [ha] at hd
        | some j =>
          simp [ha] at hd; subst hd
          have := h3 d ha
          simp only [Bool.not_eq_true] at hc
          have e : pos + 1 + j = pos + (j + 1) := by omega
          simp [readNonDefault, hc, this, scrubVariant, e]
    · intro hd
      simp only [lastDefault] at hd
      cases hl : lastDefault r with
      | none =>
        simp only [hl] at hd
        by_cases h : a.isDefault = true <;> simp [h] at hd
      | some j =>
        simp [hl] at hd; subst hd
        have := h4 hl
        have e : pos + 1 + j = pos + (j + 1) := by omega
        simp [readDefault, this, scrubVariant, e]
end


/-! ### member ids -/

theorem infos_describeFields (ext : Ext) (tuple : Bool) : ∀ (fs : Fields) (idx next : Nat),
    (describeFields ext tuple idx next fs).infos.map (·.id) = idsFrom ext tuple idx next fs.attrs
  | .nil, _, _ => by simp [describeFields, MemberDescs.infos, Fields.attrs, idsFrom]
  | .cons a t r, idx, next => by
    simp [describeFields, MemberDescs.infos, Fields.attrs, idsFrom, fieldInfo, infos_describeFields ext tuple r]

/-- the i-th published member of a struct is built from the i-th declared field (flags do not depend on the id state) -/
theorem infos_get (ext : Ext) (tuple : Bool) : ∀ (fs : Fields) (idx next i : Nat) (a : FieldAttr),
    fs.attrs[i]? = some a →
    ∃ next', (describeFields ext tuple idx next fs).infos[i]? = some (fieldInfo ext tuple (idx + i) next' a)
  | .nil, _, _, i, a, h => by simp [Fields.attrs] at h
  | .cons b t r, idx, next, 0, a, h => by
    simp [Fields.attrs] at h; subst h
    exact ⟨next, by simp [describeFields, MemberDescs.infos]⟩
  | .cons b t r, idx, next, i + 1, a, h => by
    simp [Fields.attrs] at h
    obtain ⟨n', hn⟩ := infos_get ext tuple r (idx + 1) (nextAuto ext tuple idx next b) i a h
    refine ⟨n', ?_⟩
    have e : idx + 1 + i = idx + (i + 1) := by omega
    simp only [describeFields, MemberDescs.infos, List.getElem?_cons_succ, hn, e]

theorem infos_length (ext : Ext) (tuple : Bool) : ∀ (fs : Fields) (idx next : Nat),
    (describeFields ext tuple idx next fs).infos.length = fs.attrs.length
  | .nil, _, _ => by simp [describeFields, MemberDescs.infos, Fields.attrs]
  | .cons a t r, idx, next => by
    simp [describeFields, MemberDescs.infos, Fields.attrs, infos_length ext tuple r]

/-- two consecutive members: the second one, without `id` and `hashid`, gets the first one's id + 1 -/
theorem idsFrom_consecutive (ext : Ext) (tuple : Bool) : ∀ (as : List FieldAttr) (idx next i : Nat) (a b : FieldAttr),
    as[i]? = some a → as[i + 1]? = some b → a.hashid = false → b.hashid = false → b.id = none →
    ∃ x, (idsFrom ext tuple idx next as)[i]? = some x ∧ (idsFrom ext tuple idx next as)[i + 1]? = some (x + 1)
  | [], _, _, i, _, _, h, _, _, _, _ => by simp at h
  | c :: r, idx, next, 0, a, b, h1, h2, ha, hb, hbi => by
    simp at h1; subst h1
    cases r with
    | nil => simp at h2
    | cons d r =>
      simp at h2; subst h2
      refine ⟨memberId ext tuple idx next c, by simp [idsFrom], ?_⟩
      simp only [idsFrom, List.getElem?_cons_succ, List.getElem?_cons_zero, nextAuto, ha, Bool.false_eq_true, if_false]
      cases ext <;> simp [memberId, ha, hb, hbi]
  | c :: r, idx, next, i + 1, a, b, h1, h2, ha, hb, hbi => by
    simp at h1 h2
    obtain ⟨x, hx1, hx2⟩ := idsFrom_consecutive ext tuple r (idx + 1) (nextAuto ext tuple idx next c) i a b h1 h2 ha hb hbi
    exact ⟨x, by simp [idsFrom, hx1], by simp [idsFrom, hx2]⟩

/-- explicit ids of a MUTABLE struct are respected -/
theorem idsFrom_explicit (tuple : Bool) : ∀ (as : List FieldAttr) (idx next i : Nat) (a : FieldAttr) (n : Nat),
    as[i]? = some a → a.hashid = false → a.id = some n → (idsFrom .mutable tuple idx next as)[i]? = some n
  | [], _, _, i, _, _, h, _, _ => by simp at h
  | c :: r, idx, next, 0, a, n, h, hh, hi => by
    simp at h; subst h
    simp [idsFrom, memberId, hh, hi]
  | c :: r, idx, next, i + 1, a, n, h, hh, hi => by
    simp at h
    simp [idsFrom, idsFrom_explicit tuple r _ _ i a n h hh hi]

theorem idsFrom_mutable_ge (tuple : Bool) : ∀ (as : List FieldAttr) (idx next : Nat),
    noHash as = true → explicitAscending next as = true →
    (∀ id ∈ idsFrom .mutable tuple idx next as, next ≤ id) ∧ nodupNat (idsFrom .mutable tuple idx next as) = true
  | [], _, _, _, _ => by simp [idsFrom, nodupNat]
  | a :: r, idx, next, hh, he => by
    simp only [noHash, allB_cons, Bool.and_eq_true, Bool.not_eq_true'] at hh
    have hh' : noHash r = true := hh.2
    simp only [explicitAscending] at he
    simp only [idsFrom, nextAuto, memberId, hh.1, Bool.false_eq_true, if_false]
    cases hid : a.id with
    | none =>
      simp only [hid] at he
      obtain ⟨h1, h2⟩ := idsFrom_mutable_ge tuple r (idx + 1) (next + 1) hh' he
      refine ⟨?_, ?_⟩
      · intro id h
        simp only [List.mem_cons] at h
        rcases h with h | h
        · omega
        · have := h1 id h; omega
      · rw [nodupNat_cons]
        exact ⟨fun h => by have := h1 next h; omega, h2⟩
    | some n =>
      simp only [hid, Bool.and_eq_true, decide_eq_true_eq] at he
      obtain ⟨h1, h2⟩ := idsFrom_mutable_ge tuple r (idx + 1) (n + 1) hh' he.2
      refine ⟨?_, ?_⟩
      · intro id h
        simp only [List.mem_cons] at h
        rcases h with h | h
        · omega
        · have := h1 id h; omega
      · rw [nodupNat_cons]
        exact ⟨fun h => by have := h1 n h; omega, h2⟩

theorem idsFrom_positional (ext : Ext) (tuple : Bool) (hx : ext ≠ .mutable) : ∀ (as : List FieldAttr) (idx next : Nat),
    noHash as = true →
    (∀ id ∈ idsFrom ext tuple idx next as, idx ≤ id) ∧ nodupNat (idsFrom ext tuple idx next as) = true
  | [], _, _, _ => by simp [idsFrom, nodupNat]
  | a :: r, idx, next, hh => by
    simp only [noHash, allB_cons, Bool.and_eq_true, Bool.not_eq_true'] at hh
    have hh' : noHash r = true := hh.2
    obtain ⟨h1, h2⟩ := idsFrom_positional ext tuple hx r (idx + 1) (nextAuto ext tuple idx next a) hh'
    have hid : memberId ext tuple idx next a = idx := by cases ext <;> simp_all [memberId]
    simp only [idsFrom, hid]
    refine ⟨?_, ?_⟩
    · intro id h
      simp only [List.mem_cons] at h
      rcases h with h | h
      · omega
      · have := h1 id h; omega
    · rw [nodupNat_cons]
      exact ⟨fun h => by have := h1 idx h; omega, h2⟩

/-! ### values without non_serialized members come back unchanged -/

theorem map_scrub_id (t : Ty) (ih : ∀ v, hasType t v = true → scrub t v = v) :
    ∀ vs : List Val, allB (hasType t) vs = true → vs.map (scrub t) = vs
  | [], _ => rfl
  | v :: vs, h => by
    rw [allB_cons, Bool.and_eq_true] at h
    simp [ih v h.1, map_scrub_id t ih vs h.2]

mutual
theorem scrub_id : ∀ (t : Ty) (v : Val), noNonSer t = true → hasType t v = true → scrub t v = v
  | .prim p, v, _, _ => scrub_prim p v
  | .vec t, v, hn, ht => by
    cases v <;> simp [hasType] at ht
    simp only [noNonSer] at hn
    simp [scrub, map_scrub_id t (fun v => scrub_id t v hn) _ ht]
  | .arr t n, v, hn, ht => by
    cases v <;> simp [hasType] at ht
    simp only [noNonSer] at hn
    simp [scrub, map_scrub_id t (fun v => scrub_id t v hn) _ ht.1]
  | .opt t, v, hn, ht => by
    simp only [noNonSer] at hn
    cases v <;> simp [hasType] at ht <;> simp [scrub]
    exact scrub_id t _ hn ht
  | .struct hd fs, v, hn, ht => by
    cases v <;> simp [hasType] at ht
    simp only [noNonSer] at hn
    simp [scrub, scrubFields_id fs _ hn ht]
  | .enum hd, v, _, _ => by cases v <;> simp [scrub]
  | .union hd us, v, hn, ht => by
    cases v <;> simp [hasType] at ht
    simp only [noNonSer] at hn
    simp [scrub, scrubVariant_id us _ _ hn ht]
theorem scrubFields_id : ∀ (fs : Fields) (vs : List Val), noNonSerFields fs = true → hasTypeFields fs vs = true →
    scrubFields fs vs = vs
  | .nil, vs, _, ht => by cases vs <;> simp [hasTypeFields] at ht; simp [scrubFields]
  | .cons a t r, vs, hn, ht => by
    cases vs with
    | nil => simp [hasTypeFields] at ht
    | cons v vs =>
      simp only [hasTypeFields, Bool.and_eq_true] at ht
      simp only [noNonSerFields, Bool.and_eq_true, Bool.not_eq_true'] at hn
      simp [scrubFields, hn.1.1, scrub_id t v hn.1.2 ht.1, scrubFields_id r vs hn.2 ht.2]
theorem scrubVariant_id : ∀ (us : Variants) (k : Nat) (p : Option Val), noNonSerVariants us = true →
    hasTypeVariant us k p = true → scrubVariant us k p = p
  | .nil, k, p, _, ht => by cases k <;> simp [hasTypeVariant] at ht
  | .unit a r, 0, p, _, _ => by simp [scrubVariant]
  | .data a t r, 0, p, hn, ht => by
    cases p <;> simp [hasTypeVariant] at ht
    simp only [noNonSerVariants, Bool.and_eq_true] at hn
    simp [scrubVariant, scrub_id t _ hn.1 ht]
  | .unit a r, k + 1, p, hn, ht => by
    simp only [hasTypeVariant] at ht
    simp only [noNonSerVariants] at hn
    simp [scrubVariant, scrubVariant_id r k p hn ht]
  | .data a t r, k + 1, p, hn, ht => by
    simp only [hasTypeVariant] at ht
    simp only [noNonSerVariants, Bool.and_eq_true] at hn
    simp [scrubVariant, scrubVariant_id r k p hn.2 ht]
end

/-! ### unions: distinct labels suffice, wherever the default variant stands (fix D-gen-5) -/

def isDefaultAt : Variants → Nat → Bool
  | .nil, _ => false
  | .unit a _, 0 => a.isDefault
  | .data a _ _, 0 => a.isDefault
  | .unit _ r, k + 1 => isDefaultAt r k
  | .data _ _ r, k + 1 => isDefaultAt r k

theorem nodupInt_cons (x : Int) (r : List Int) : nodupInt (x :: r) = true ↔ x ∉ r ∧ nodupInt r = true := by
  simp [nodupInt]

theorem labelAt_mem : ∀ (us : Variants) (idx k : Nat), k < us.length → labelAt idx us k ∈ writtenLabels idx us
  | .nil, _, k, h => by simp [Variants.length] at h
  | .unit a r, idx, 0, _ => by simp [labelAt, writtenLabels]
  | .data a t r, idx, 0, _ => by simp [labelAt, writtenLabels]
  | .unit a r, idx, k + 1, h => by
    simp [Variants.length] at h
    simp [labelAt, writtenLabels, labelAt_mem r (idx + 1) k h]
  | .data a t r, idx, k + 1, h => by
    simp [Variants.length] at h
    simp [labelAt, writtenLabels, labelAt_mem r (idx + 1) k h]

/-- (A) a non-default variant is found by the arm scan under its own label -/
theorem armNonDefault_self : ∀ (us : Variants) (idx k : Nat), k < us.length → isDefaultAt us k = false →
    nodupInt (writtenLabels idx us) = true → armNonDefault idx us (labelAt idx us k) = some k
  | .nil, _, k, h, _, _ => by simp [Variants.length] at h
  | .unit a r, idx, 0, _, hd, _ => by simp [isDefaultAt] at hd; simp [armNonDefault, labelAt, hd]
  | .data a t r, idx, 0, _, hd, _ => by simp [isDefaultAt] at hd; simp [armNonDefault, labelAt, hd]
  | .unit a r, idx, k + 1, h, hd, hn => by
    simp [Variants.length] at h
    simp only [isDefaultAt] at hd
    simp only [writtenLabels, nodupInt_cons] at hn
    have hne : ¬ firstLabel idx a = labelAt (idx + 1) r k := fun e => hn.1 (e ▸ labelAt_mem r (idx + 1) k h)
    simp [armNonDefault, labelAt, hne, armNonDefault_self r (idx + 1) k h hd hn.2]
  | .data a t r, idx, k + 1, h, hd, hn => by
    simp [Variants.length] at h
    simp only [isDefaultAt] at hd
    simp only [writtenLabels, nodupInt_cons] at hn
    have hne : ¬ firstLabel idx a = labelAt (idx + 1) r k := fun e => hn.1 (e ▸ labelAt_mem r (idx + 1) k h)
    simp [armNonDefault, labelAt, hne, armNonDefault_self r (idx + 1) k h hd hn.2]

/-- no arm of a non-default variant accepts a label that no variant writes -/
theorem armNonDefault_fresh : ∀ (us : Variants) (idx : Nat) (d : Int), d ∉ writtenLabels idx us → armNonDefault idx us d = none
  | .nil, _, _, _ => rfl
  | .unit a r, idx, d, h => by
    simp only [writtenLabels, List.mem_cons, not_or] at h
    have hne : ¬ firstLabel idx a = d := fun e => h.1 e.symm
    simp [armNonDefault, hne, armNonDefault_fresh r (idx + 1) d h.2]
  | .data a t r, idx, d, h => by
    simp only [writtenLabels, List.mem_cons, not_or] at h
    have hne : ¬ firstLabel idx a = d := fun e => h.1 e.symm
    simp [armNonDefault, hne, armNonDefault_fresh r (idx + 1) d h.2]

/-- (B1) the label written for a default variant is accepted by no other arm -/
theorem armNonDefault_default : ∀ (us : Variants) (idx k : Nat), k < us.length → isDefaultAt us k = true →
    nodupInt (writtenLabels idx us) = true → armNonDefault idx us (labelAt idx us k) = none
  | .nil, _, k, h, _, _ => by simp [Variants.length] at h
  | .unit a r, idx, 0, _, hd, hn => by
    simp only [isDefaultAt] at hd
    simp only [writtenLabels, nodupInt_cons] at hn
    simp [armNonDefault, labelAt, hd, armNonDefault_fresh r (idx + 1) _ hn.1]
  | .data a t r, idx, 0, _, hd, hn => by
    simp only [isDefaultAt] at hd
    simp only [writtenLabels, nodupInt_cons] at hn
    simp [armNonDefault, labelAt, hd, armNonDefault_fresh r (idx + 1) _ hn.1]
  | .unit a r, idx, k + 1, h, hd, hn => by
    simp [Variants.length] at h
    simp only [isDefaultAt] at hd
    simp only [writtenLabels, nodupInt_cons] at hn
    have hne : ¬ firstLabel idx a = labelAt (idx + 1) r k := fun e => hn.1 (e ▸ labelAt_mem r (idx + 1) k h)
    simp [armNonDefault, labelAt, hne, armNonDefault_default r (idx + 1) k h hd hn.2]
  | .data a t r, idx, k + 1, h, hd, hn => by
    simp [Variants.length] at h
    simp only [isDefaultAt] at hd
    simp only [writtenLabels, nodupInt_cons] at hn
    have hne : ¬ firstLabel idx a = labelAt (idx + 1) r k := fun e => hn.1 (e ▸ labelAt_mem r (idx + 1) k h)
    simp [armNonDefault, labelAt, hne, armNonDefault_default r (idx + 1) k h hd hn.2]

theorem lastDefault_none : ∀ us : Variants, defaultCount us = 0 → lastDefault us = none
  | .nil, _ => rfl
  | .unit a r, h => by
    simp only [defaultCount] at h
    have ha : a.isDefault = false := by cases hd : a.isDefault <;> simp [hd] at h ⊢
    have hr : defaultCount r = 0 := by omega
    simp [lastDefault, lastDefault_none r hr, ha]
  | .data a t r, h => by
    simp only [defaultCount] at h
    have ha : a.isDefault = false := by cases hd : a.isDefault <;> simp [hd] at h ⊢
    have hr : defaultCount r = 0 := by omega
    simp [lastDefault, lastDefault_none r hr, ha]

theorem isDefaultAt_count : ∀ (us : Variants) (k : Nat), isDefaultAt us k = true → 1 ≤ defaultCount us
  | .nil, _, h => by simp [isDefaultAt] at h
  | .unit a r, 0, h => by simp [isDefaultAt] at h; simp [defaultCount, h]
  | .data a t r, 0, h => by simp [isDefaultAt] at h; simp [defaultCount, h]
  | .unit a r, k + 1, h => by
    have := isDefaultAt_count r k (by simpa [isDefaultAt] using h)
    simp only [defaultCount]; omega
  | .data a t r, k + 1, h => by
    have := isDefaultAt_count r k (by simpa [isDefaultAt] using h)
    simp only [defaultCount]; omega

/-- (B2) the only default variant is the one whose `_` arm is emitted -/
theorem lastDefault_unique : ∀ (us : Variants) (k : Nat), isDefaultAt us k = true → defaultCount us ≤ 1 → lastDefault us = some k
  | .nil, _, h, _ => by simp [isDefaultAt] at h
  | .unit a r, 0, h, hc => by
    simp only [isDefaultAt] at h
    simp only [defaultCount, h, if_true] at hc
    simp [lastDefault, lastDefault_none r (by omega), h]
  | .data a t r, 0, h, hc => by
    simp only [isDefaultAt] at h
    simp only [defaultCount, h, if_true] at hc
    simp [lastDefault, lastDefault_none r (by omega), h]
  | .unit a r, k + 1, h, hc => by
    simp only [isDefaultAt] at h
    have h1 := isDefaultAt_count r k h
    simp only [defaultCount] at hc
    simp [lastDefault, lastDefault_unique r k h (by omega)]
  | .data a t r, k + 1, h, hc => by
    simp only [isDefaultAt] at h
    have h1 := isDefaultAt_count r k h
    simp only [defaultCount] at hc
    simp [lastDefault, lastDefault_unique r k h (by omega)]

theorem selectsFrom_of_all (us : Variants) : ∀ n : Nat, (∀ k, k < n → armIndex 0 us (labelAt 0 us k) = some k) → selectsFrom us n = true
  | 0, _ => rfl
  | n + 1, h => by
    simp only [selectsFrom, Bool.and_eq_true, beq_iff_eq]
    exact ⟨h n (by omega), selectsFrom_of_all us n (fun k hk => h k (by omega))⟩

/-- distinct written labels and at most one default (anywhere) make every variant selectable by its own label -/
theorem selects_of_labelsDistinct (us : Variants) (h : labelsDistinct us = true) : selectsFrom us us.length = true := by
  simp only [labelsDistinct, Bool.and_eq_true, decide_eq_true_eq] at h
  apply selectsFrom_of_all
  intro k hk
  unfold armIndex
  cases hd : isDefaultAt us k with
  | false => simp [armNonDefault_self us 0 k hk hd h.1]
  | true => simp [armNonDefault_default us 0 k hk hd h.1, lastDefault_unique us k hd h.2]

end DustVerif.Derive
