import DustVerif.Proofs.WireWF
/-! Round-trip lemmas: every reader applied to its encoder's output (followed by arbitrary octets `t`)
    returns the value and `t` (C08). -/
namespace DustVerif.Wire
open Outcome

/-! ### parameters -/
theorem paramRead_hdr (le : Bool) (pid : Int) (n : Nat) (r : List Nat) (hp : isI16 pid) (hn : n < 65536) :
    paramRead le (i16E le pid ++ u16E le n ++ r) =
      (if pid ≠ PID_SENTINEL ∧ n % 4 ≠ 0 then err .invalidData
       else if pid = PID_SENTINEL then ok ({ pid := pid, value := [] }, r)
       else if r.length < n then err .notEnoughData
       else ok ({ pid := pid, value := r.take n }, r.drop n)) := by
  have e : toI16 (pid % 65536).toNat = pid := toI16_enc pid hp.1 hp.2
  have hx : (pid % 65536).toNat < 65536 := by omega
  simp only [i16E]
  generalize (pid % 65536).toNat = x at e hx ⊢
  have r1 : x % 256 + 256 * (x / 256 % 256) = x := by omega
  have r2 : 256 * (x / 256 % 256) + x % 256 = x := by omega
  have r3 : n % 256 + 256 * (n / 256 % 256) = n := by omega
  have r4 : 256 * (n / 256 % 256) + n % 256 = n := by omega
  cases le <;> simp [paramRead, u16E, u16of, r1, r2, r3, r4, e]

theorem paramRead_enc (le : Bool) (p : Param) (t : List Nat) (h : p.WF) :
    paramRead le (paramE le p ++ t) = ok (p, t) := by
  obtain ⟨hp, hs, h4, hl⟩ := h
  have hpad : padLen p.value.length = 0 := by unfold padLen; omega
  have hmod : p.value.length % 65536 = p.value.length := by omega
  simp only [paramE, hpad, Nat.add_zero, hmod, List.replicate_zero, List.append_nil, List.append_assoc]
  rw [← List.append_assoc, paramRead_hdr le p.pid p.value.length (p.value ++ t) hp hl]
  simp [hs, h4]

theorem paramRead_sentinel (le : Bool) (t : List Nat) :
    paramRead le (i16E le PID_SENTINEL ++ [0, 0] ++ t) = ok ({ pid := PID_SENTINEL, value := [] }, t) := by
  have : ([0, 0] : List Nat) = u16E le 0 := by cases le <;> simp [u16E]
  rw [this, paramRead_hdr le PID_SENTINEL 0 t (by unfold isI16 PID_SENTINEL; omega) (by omega)]
  simp

theorem paramListRead_enc (le : Bool) (ps : List Param) (t : List Nat) (fuel : Nat)
    (h : ∀ p ∈ ps, p.WF) (hf : ps.length < fuel) :
    paramListRead le fuel (paramListE le ps ++ t) = ok (ps, t) := by
  induction ps generalizing fuel with
  | nil =>
    cases fuel with
    | zero => simp at hf
    | succ k =>
      simp only [paramListE, paramsE, List.nil_append]
      rw [paramListRead, paramRead_sentinel]
      simp
  | cons p ps ih =>
    cases fuel with
    | zero => simp at hf
    | succ k =>
      have hp := h p (by simp)
      simp only [paramListE, paramsE, List.append_assoc]
      rw [paramListRead, paramRead_enc le p _ hp]
      have hne : ¬ p.pid = PID_SENTINEL := hp.2.1
      simp only [hne, if_false]
      have := ih k (fun q hq => h q (by simp [hq])) (by simp at hf; omega)
      simp only [paramListE, List.append_assoc] at this
      rw [this]

/-- every well-formed parameter occupies at least 4 octets -/
theorem paramsE_length_ge (le : Bool) (ps : List Param) : 4 * ps.length ≤ (paramsE le ps).length := by
  induction ps with
  | nil => simp [paramsE]
  | cons p ps ih => simp [paramsE]; omega

/-! ### locators -/
theorem locatorRead_enc (le : Bool) (l : Locator) (t : List Nat) (h : l.WF) :
    locatorRead le (locatorE le l ++ t) = ok (l, t) := by
  obtain ⟨hk, hp, ha⟩ := h
  simp only [locatorRead, locatorE, List.append_assoc]
  rw [readI32_enc le _ _ hk.1 hk.2]
  simp only []
  rw [readU32_enc le _ _ hp]
  simp only []
  rw [readBytes_append 16 _ _ ha]

theorem locatorsRead_enc (le : Bool) (ls : List Locator) (t : List Nat) (h : ∀ l ∈ ls, l.WF) :
    locatorsRead le ls.length (locatorsE le ls ++ t) = ok (ls, t) := by
  induction ls with
  | nil => simp [locatorsRead, locatorsE]
  | cons l ls ih =>
    simp only [List.length_cons, locatorsE, List.append_assoc]
    rw [locatorsRead, locatorRead_enc le l _ (h l (by simp))]
    simp only []
    rw [ih (fun x hx => h x (by simp [hx]))]

theorem locatorListRead_enc (le : Bool) (ls : List Locator) (t : List Nat) (h : ∀ l ∈ ls, l.WF)
    (hn : ls.length < 4294967296) :
    locatorListRead le (locatorListE le ls ++ t) = ok (ls, t) := by
  have hmod : ls.length % P32 = ls.length := by unfold P32; omega
  simp only [locatorListRead, locatorListE, hmod, List.append_assoc]
  rw [readU32_enc le _ _ hn]
  simp only []
  exact locatorsRead_enc le ls t h

/-! ### bitmap words and SequenceNumberSet -/
theorem readWords_enc (le : Bool) (ws : List Nat) (t : List Nat) (h : ∀ w ∈ ws, w < 4294967296) :
    readWords le ws.length (wordsE le ws ++ t) = ok (ws, t) := by
  induction ws with
  | nil => simp [readWords, wordsE]
  | cons w ws ih =>
    simp only [List.length_cons, wordsE, List.append_assoc]
    rw [readWords, readU32_enc le w _ (h w (by simp))]
    simp only []
    rw [ih (fun x hx => h x (by simp [hx]))]

theorem divCeil32_le (n : Nat) (h : n ≤ 256) : divCeil32 n ≤ 8 := by unfold divCeil32; omega

/-- reading back the first `M` words of an 8-word bitmap whose remaining words are zero -/
theorem bitmap_words_roundtrip (le : Bool) (bm : List Nat) (nb : Nat) (t : List Nat)
    (hnb : nb ≤ 256) (hlen : bm.length = 8) (hw : ∀ w ∈ bm, w < 4294967296)
    (hz : bm.drop (divCeil32 nb) = List.replicate (8 - divCeil32 nb) 0) :
    ∃ ws, readWords le (min (divCeil32 nb) 8) (wordsE le (bm.take (divCeil32 nb)) ++ t) = ok (ws, t) ∧
      padWords ws = bm := by
  have hM := divCeil32_le nb hnb
  refine ⟨bm.take (divCeil32 nb), ?_, ?_⟩
  · have hl : (bm.take (divCeil32 nb)).length = min (divCeil32 nb) 8 := by simp [hlen]
    rw [← hl]
    exact readWords_enc le _ t (fun w hwm => hw w (List.mem_of_mem_take hwm))
  · unfold padWords
    have hl : (bm.take (divCeil32 nb)).length = divCeil32 nb := by simp [hlen]; omega
    rw [hl, ← hz, List.take_append_drop]

theorem snsetRead_enc (chk le : Bool) (s : SNSet) (t : List Nat) (h : s.WF) :
    snsetRead chk le (snsetE le s ++ t) = ok (s, t) := by
  obtain ⟨hb, hnb, hlen, hw, hz, hov⟩ := h
  obtain ⟨ws, hr, hp⟩ := bitmap_words_roundtrip le s.bitmap s.numBits t hnb hlen hw hz
  simp only [snsetRead, snsetE, List.append_assoc]
  rw [readSN_enc le _ _ hb.1 hb.2]
  simp only []
  rw [readU32_enc le _ _ (by omega)]
  simp only []
  have : ¬ s.numBits > 256 := by omega
  have hc : ¬ (chk = true ∧ s.numBits > 0 ∧ s.base + ((s.numBits : Int) - 1) ≥ 9223372036854775808) := by
    intro ⟨_, hpos, hge⟩
    have := hov hpos
    omega
  simp only [this, hc, if_false]
  rw [hr]
  simp only [hp]

end DustVerif.Wire
