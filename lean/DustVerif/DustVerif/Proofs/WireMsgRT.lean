import DustVerif.Proofs.WireSubRT
import DustVerif.Proofs.WireBitmap
/-! Round trip of whole submessages and messages (C08). -/
namespace DustVerif.Wire
open Outcome

theorem nackFragRead_enc (g le : Bool) (reader writer : List Nat) (sn : Int) (set : FNSet) (count : Int)
    (t : List Nat) (h : (Sub.nackFrag reader writer sn set count).fieldsWF) :
    nackFragRead g le ((Sub.nackFrag reader writer sn set count).body le ++ t) =
      ok (.nackFrag reader writer sn set count) := by
  obtain ⟨hr, hw, h1, h2, h3⟩ := h
  simp only [nackFragRead, Sub.body, List.append_assoc]
  rw [readBytes_append 4 _ _ hr]; simp only []
  rw [readBytes_append 4 _ _ hw]; simp only []
  rw [readSN_enc le _ _ h1.1 h1.2]; simp only []
  rw [fnsetRead_enc g le set _ h2]; simp only []
  rw [readI32_enc le _ _ h3.1 h3.2]

/-- any well-formed submessage is recovered from its elements, whatever follows them -/
theorem decodeSub_enc (c : Cfg) (le : Bool) (s : Sub) (t : List Nat) (h : s.WF) :
    decodeSub c s.id (s.flags + b2n le) (s.body le).length le (s.body le ++ t) = ok s := by
  obtain ⟨hf, hl⟩ := h
  have hl' : (s.body le).length < 65536 := by rw [length_body le s]; exact hl
  cases s with
  | data q d k n reader writer sn qos payload =>
    simp only [decodeSub, Sub.id, Sub.flags]
    exact dataRead_enc le q d k n reader writer sn qos payload t hf hl'
  | dataFrag q k n reader writer sn a b c d qos payload =>
    simp only [decodeSub, Sub.id, Sub.flags]
    exact dataFragRead_enc le q k n reader writer sn a b c d qos payload t hf hl'
  | gap reader writer start set =>
    simp only [decodeSub, Sub.id]
    exact gapRead_enc c.snchk le reader writer start set t hf
  | heartbeat f l reader writer first last count =>
    simp only [decodeSub, Sub.id, Sub.flags]
    exact heartbeatRead_enc le f l reader writer first last count t hf
  | ackNack f reader writer set count =>
    simp only [decodeSub, Sub.id, Sub.flags]
    exact ackNackRead_enc c.snchk le f reader writer set count t hf
  | nackFrag reader writer sn set count =>
    simp only [decodeSub, Sub.id]
    exact nackFragRead_enc c.d5 le reader writer sn set count t hf
  | heartbeatFrag reader writer sn lastFrag count =>
    simp only [decodeSub, Sub.id]
    exact heartbeatFragRead_enc le reader writer sn lastFrag count t hf
  | infoDst p =>
    simp only [decodeSub, Sub.id, Sub.body]
    exact infoDstRead_enc p t hf
  | infoSrc version vendor p =>
    simp only [decodeSub, Sub.id]
    exact infoSrcRead_enc le version vendor p t hf
  | infoReply m uni multi =>
    simp only [decodeSub, Sub.id, Sub.flags]
    exact infoReplyRead_enc le m uni multi t hf hl'
  | infoTs inv sec frac =>
    simp only [decodeSub, Sub.id, Sub.flags]
    exact infoTsRead_enc le inv sec frac t hf
  | pad => simp [decodeSub, Sub.id]

/-- DATA-like submessages have at least 20 octets of elements, so `octetsToNextHeader = 0` never arises for them -/
theorem body_pos_of_dataLike (le : Bool) (s : Sub) (h : s.isDataLike = true) : 0 < (s.body le).length := by
  cases s <;> simp [Sub.isDataLike] at h <;> simp [Sub.body] <;> omega

/-- a well-formed submessage with no elements is a PAD or an (invalidated) INFO_TS -/
theorem id_of_empty_body (le : Bool) (s : Sub) (h : s.fieldsWF) (h0 : (s.body le).length = 0) :
    s.id = 0x01 ∨ s.id = 0x09 := by
  cases s <;> simp [Sub.id]
  all_goals (simp [Sub.body, locatorListE] at h0)
  all_goals (simp [Sub.fieldsWF] at h)
  all_goals (try omega)
  all_goals (subst h0; simp at h)

/-- one iteration of the submessage loop on a well-formed submessage followed by arbitrary octets -/
theorem decodeLoop_step (c : Cfg) (le : Bool) (s : Sub) (t : List Nat) (k : Nat) (hs : s.WF) :
    decodeLoop c (k + 1) (subE le s ++ t) =
      (match decodeLoop c k t with
       | ok ss => ok (s :: ss)
       | err e => err e
       | .panic => .panic) := by
  have hlen : (s.body le).length < 65536 := by rw [length_body le s]; exact hs.2
  have hmod : (s.body le).length % 65536 = (s.body le).length := by omega
  have hle : decide ((s.flags + b2n le) % 2 = 1) = le := flags_lsb s.flags le (flags_even s)
  have hdec := decodeSub_enc c le s t hs
  have hdec0 := decodeSub_enc c le s [] hs
  rw [List.append_nil] at hdec0
  have hadv : ¬ ((s.body le).length = 0 ∧ s.isDataLike = true) := by
    intro ⟨h0, hd⟩
    have := body_pos_of_dataLike le s hd
    omega
  have hext : extentOf s.id (s.body le).length (s.body le ++ t).length = (s.body le).length := by
    unfold extentOf
    by_cases h0 : (s.body le).length = 0
    · have := id_of_empty_body le s hs.1 h0
      rcases this with h1 | h1 <;> simp [h0, h1]
    · simp [h0]
  have r1 : (s.body le).length % 256 + 256 * ((s.body le).length / 256 % 256) = (s.body le).length := by omega
  have r2 : 256 * ((s.body le).length / 256 % 256) + (s.body le).length % 256 = (s.body le).length := by omega
  cases hce : c.ext
  · cases le
    · simp only [subE, u16E, hmod, List.cons_append, List.nil_append, decodeLoop, hle, hce,
        u16of, Bool.false_eq_true, if_false, r2]
      have : ¬ (s.body false ++ t).length < (s.body false).length := by simp
      simp only [this, if_false, hdec, hadv, List.drop_left]
      rfl
    · simp only [subE, u16E, hmod, List.cons_append, List.nil_append, decodeLoop, hle, hce,
        u16of, if_true, r1, Bool.false_eq_true, if_false]
      have : ¬ (s.body true ++ t).length < (s.body true).length := by simp
      simp only [this, if_false, hdec, hadv, List.drop_left]
      rfl
  · cases le
    · simp only [subE, u16E, hmod, List.cons_append, List.nil_append, decodeLoop, hle, hce,
        u16of, Bool.false_eq_true, if_false, r2, if_true]
      have : ¬ (s.body false ++ t).length < (s.body false).length := by simp
      simp only [this, if_false, hext, List.take_left, List.drop_left, hdec0]
      rfl
    · simp only [subE, u16E, hmod, List.cons_append, List.nil_append, decodeLoop, hle, hce,
        u16of, if_true, r1]
      have : ¬ (s.body true ++ t).length < (s.body true).length := by simp
      simp only [this, if_false, hext, List.take_left, List.drop_left, hdec0]
      rfl

theorem decodeLoop_enc (c : Cfg) (le : Bool) (ss : List Sub) (fuel : Nat) (h : ∀ s ∈ ss, s.WF) (hf : ss.length ≤ fuel) :
    decodeLoop c fuel (subsE le ss) = ok ss := by
  induction ss generalizing fuel with
  | nil =>
    cases fuel <;> simp [decodeLoop, subsE]
  | cons s ss ih =>
    cases fuel with
    | zero => simp at hf
    | succ k =>
      have hrec := ih k (fun x hx => h x (by simp [hx])) (by simp at hf; omega)
      simp only [subsE]
      rw [decodeLoop_step c le s _ k (h s (by simp)), hrec]

/-- encoding with a byte order chosen per submessage (RTPS allows it: the E flag is per submessage) -/
def subsEM : List (Bool × Sub) → List Nat
  | [] => []
  | p :: r => subE p.1 p.2 ++ subsEM r

theorem decodeLoop_encM (c : Cfg) (ss : List (Bool × Sub)) (fuel : Nat) (h : ∀ p ∈ ss, p.2.WF)
    (hf : ss.length ≤ fuel) : decodeLoop c fuel (subsEM ss) = ok (ss.map Prod.snd) := by
  induction ss generalizing fuel with
  | nil =>
    cases fuel <;> simp [decodeLoop, subsEM]
  | cons p ss ih =>
    cases fuel with
    | zero => simp at hf
    | succ k =>
      have hrec := ih k (fun x hx => h x (by simp [hx])) (by simp at hf; omega)
      simp only [subsEM, List.map_cons]
      rw [decodeLoop_step c p.1 p.2 _ k (h p (by simp)), hrec]

theorem decodeG_enc (c : Cfg) (le : Bool) (m : Msg) (h : m.WF) : decodeG c (encodeE le m) = ok m := by
  obtain ⟨⟨h1, h2, h3⟩, hn, hs⟩ := h
  obtain ⟨⟨ver, ven, pre⟩, subs⟩ := m
  simp only at h1 h2 h3 hn hs
  have hloop := decodeLoop_enc c le subs MAX_SUBMESSAGES hs hn
  unfold decodeG encodeE headerE MAGIC
  simp only [List.append_assoc, List.cons_append, List.nil_append]
  have hlen : ¬ (82 :: 84 :: 80 :: 83 :: (ver ++ (ven ++ (pre ++ subsE le subs)))).length < 20 := by
    simp [h1, h2, h3]; omega
  simp only [hlen, if_false, List.take_succ_cons, List.take_zero, ne_eq, not_true_eq_false, List.drop_succ_cons]
  have d16 : List.drop 16 (ver ++ (ven ++ (pre ++ subsE le subs))) = subsE le subs := by
    have : ver ++ (ven ++ (pre ++ subsE le subs)) = (ver ++ ven ++ pre) ++ subsE le subs := by simp
    rw [this, List.drop_left']
    simp [h1, h2, h3]
  have t2 : List.take 2 (ver ++ (ven ++ (pre ++ subsE le subs))) = ver := List.take_left' h1
  have d2 : List.drop 2 (ver ++ (ven ++ (pre ++ subsE le subs))) = ven ++ (pre ++ subsE le subs) :=
    List.drop_left' h1
  have t2' : List.take 2 (ven ++ (pre ++ subsE le subs)) = ven := List.take_left' h2
  have d2' : List.drop 2 (ven ++ (pre ++ subsE le subs)) = pre ++ subsE le subs := List.drop_left' h2
  have t12 : List.take 12 (pre ++ subsE le subs) = pre := List.take_left' h3
  have d4 : List.drop 4 (ver ++ (ven ++ (pre ++ subsE le subs))) = pre ++ subsE le subs := by
    have : ver ++ (ven ++ (pre ++ subsE le subs)) = (ver ++ ven) ++ (pre ++ subsE le subs) := by simp
    rw [this, List.drop_left']
    simp [h1, h2]
  simp only [List.drop_zero, d16, hloop, t2, d2, t2', d4, t12]


/-! ### length fields -/
/-- follow the octetsToNextHeader fields from submessage header to submessage header (no parsing of the
    elements): the list of (submessage id, octetsToNextHeader); `none` if a length field points beyond the
    end or octets are left over that are not a header -/
def walk (le : Bool) : Nat → List Nat → Option (List (Nat × Nat))
  | _, [] => some []
  | 0, _ :: _ => none
  | fuel + 1, id :: _ :: l0 :: l1 :: rest =>
    if rest.length < u16of le l0 l1 then none
    else
      match walk le fuel (rest.drop (u16of le l0 l1)) with
      | some l => some ((id, u16of le l0 l1) :: l)
      | none => none
  | _ + 1, _ => none

theorem walk_enc (le : Bool) (ss : List Sub) (h : ∀ s ∈ ss, s.WF) :
    walk le ss.length (subsE le ss) = some (ss.map (fun s => (s.id, (s.body le).length))) := by
  induction ss with
  | nil => simp [walk, subsE]
  | cons s ss ih =>
    have hs := h s (by simp)
    have hlen : (s.body le).length < 65536 := by rw [length_body le s]; exact hs.2
    have hmod : (s.body le).length % 65536 = (s.body le).length := by omega
    have r1 : (s.body le).length % 256 + 256 * ((s.body le).length / 256 % 256) = (s.body le).length := by omega
    have r2 : 256 * ((s.body le).length / 256 % 256) + (s.body le).length % 256 = (s.body le).length := by omega
    have hrec := ih (fun x hx => h x (by simp [hx]))
    cases le
    · simp only [subsE, subE, u16E, hmod, List.cons_append, List.nil_append, List.length_cons, walk, u16of,
        Bool.false_eq_true, if_false, r2, List.map_cons]
      have : ¬ (s.body false ++ subsE false ss).length < (s.body false).length := by simp
      simp only [this, if_false, List.drop_left, hrec]
    · simp only [subsE, subE, u16E, hmod, List.cons_append, List.nil_append, List.length_cons, walk, u16of,
        if_true, r1, List.map_cons]
      have : ¬ (s.body true ++ subsE true ss).length < (s.body true).length := by simp
      simp only [this, if_false, List.drop_left, hrec]

end DustVerif.Wire
