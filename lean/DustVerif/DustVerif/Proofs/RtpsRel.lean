import DustVerif.Proofs.RtpsSys2
/-! Relevance (protocol part of C04): nothing at or below `first_relevant_sample_seq_num` is ever put on the wire as
    DATA / DATA_FRAG, requested by NACK_FRAG, buffered or delivered. -/
namespace DustVerif.Rtps

/-- the submessage does not carry / request a change at or below `R` -/
def SubRel (R : Nat) : Sub → Prop
  | .data sn _ => sn > R
  | .frag fr => fr.sn > R
  | .nackfrag sn _ _ _ => sn > R
  | _ => True

def DgramsRel (R : Nat) (ds : List Dgram) : Prop := ∀ d, d ∈ ds → ∀ s, s ∈ d.subs → SubRel R s

theorem DgramsRel.nil (R : Nat) : DgramsRel R [] := by intro d hd; cases hd
theorem DgramsRel.append {R : Nat} {a b : List Dgram} (ha : DgramsRel R a) (hb : DgramsRel R b) : DgramsRel R (a ++ b) := by
  intro d hd
  rcases List.mem_append.mp hd with h | h
  · exact ha d h
  · exact hb d h
theorem DgramsRel.sublist {R : Nat} {a b : List Dgram} (h : a.Sublist b) (hb : DgramsRel R b) : DgramsRel R a :=
  fun d hd => hb d (h.subset hd)
theorem dgramsRel_single {R : Nat} (to : Bool) (subs : List Sub) (h : ∀ s, s ∈ subs → SubRel R s) :
    DgramsRel R [⟨to, subs⟩] := by
  intro d hd
  simp only [List.mem_singleton] at hd
  subst hd
  exact h

theorem fragDgrams_rel (R : Nat) (c : Change) (f n : Nat) (hc : c.sn > R) : DgramsRel R (fragDgrams c f n) := by
  induction n with
  | zero => exact DgramsRel.nil R
  | succ k ih =>
    unfold fragDgrams
    apply ih.append
    apply dgramsRel_single
    intro s hs
    simp only [List.mem_cons, List.not_mem_nil, or_false] at hs
    rcases hs with rfl | rfl | rfl
    · trivial
    · trivial
    · exact hc

theorem genHb_rel (R : Nat) (p : RProxy) (cs : List Change) (now : Nat) : SubRel R (p.genHb cs now).2 := trivial

theorem fragDgramsHb_rel (R : Nat) (c : Change) (f n : Nat) (hb : Sub) (hhb : SubRel R hb) (hc : c.sn > R) :
    DgramsRel R (fragDgramsHb c f n hb) := by
  unfold fragDgramsHb
  apply (fragDgrams_rel R c f _ hc).append
  apply dgramsRel_single
  intro s hs
  simp only [List.mem_cons, List.not_mem_nil, or_false] at hs
  rcases hs with rfl | rfl | rfl | rfl
  · trivial
  · trivial
  · exact hc
  · exact hhb

theorem relUnsentLoop_rel (cfg : Cfg) (cs : List Change) (f now R : Nat) (fuel : Nat) (p : RProxy) (acc : List Dgram)
    (hfr : p.firstRelevant = R) (hacc : DgramsRel R acc) : DgramsRel R (relUnsentLoop cfg cs f now fuel p acc).2 := by
  induction fuel generalizing p acc with
  | zero => exact hacc
  | succ fuel ih =>
    unfold relUnsentLoop
    split
    · exact hacc
    · rename_i n hn
      split
      · have hg : DgramsRel R [mkW [.dst, .gap (p.highestSent + 1) n [], (p.genHb cs now).2]] := by
          apply dgramsRel_single
          intro s hs
          simp only [List.mem_cons, List.not_mem_nil, or_false] at hs
          rcases hs with rfl | rfl | rfl <;> trivial
        simp only
        split
        · exact ih _ _ (by rw [((genHb_core p cs now).trans (setSent_core _ _)).1]; exact hfr) (hacc.append hg)
        · exact ih _ _ (by rw [((genHb_core p cs now).trans (setSent_core _ _)).1]; exact hfr) (hacc.append hg)
      · split
        · rename_i c hc
          obtain ⟨_, hsn, hrel⟩ := sendable_some hc
          have hcR : c.sn > R := by rw [hsn, ← hfr]; exact hrel rfl
          simp only
          have hcore := (genHb_core p cs now).trans (setSent_core (p.genHb cs now).1 n)
          split
          · exact ih _ _ (by rw [hcore.1]; exact hfr) (hacc.append (fragDgramsHb_rel R c f _ _ trivial hcR))
          · refine ih _ _ (by rw [hcore.1]; exact hfr) (hacc.append ?_)
            apply dgramsRel_single
            intro s hs
            simp only [List.mem_cons, List.not_mem_nil, or_false] at hs
            rcases hs with rfl | rfl | rfl | rfl
            · trivial
            · trivial
            · exact hcR
            · trivial
        · refine ih _ _ (by rw [(setSent_core p n).1]; exact hfr) (hacc.append ?_)
          apply dgramsRel_single
          intro s hs
          simp only [List.mem_cons, List.not_mem_nil, or_false] at hs
          rcases hs with rfl | rfl <;> trivial

theorem beLoop_rel (cfg : Cfg) (hfix : cfg.fixD4 = true) (cs : List Change) (f R : Nat) (fuel : Nat) (p : RProxy)
    (acc : List Dgram) (hfr : p.firstRelevant = R) (hacc : DgramsRel R acc) :
    DgramsRel R (beLoop cfg cs f fuel p acc).2 := by
  induction fuel generalizing p acc with
  | zero => exact hacc
  | succ fuel ih =>
    unfold beLoop
    split
    · exact hacc
    · rename_i n hn
      split
      · have hg : DgramsRel R [mkW [.gap (p.highestSent + 1) n []]] := by
          apply dgramsRel_single
          intro s hs
          simp only [List.mem_cons, List.not_mem_nil, or_false] at hs
          subst hs; trivial
        first
          | exact ih _ _ (by rw [(setSent_core p _).1]; exact hfr) (hacc.append hg)
          | (split
             · exact ih _ _ (by rw [(setSent_core p _).1]; exact hfr) (hacc.append hg)
             · exact ih _ _ (by rw [(setSent_core p _).1]; exact hfr) (hacc.append hg))
      · split
        · rename_i c hc
          obtain ⟨_, hsn, hrel⟩ := sendable_some hc
          have hcR : c.sn > R := by rw [hsn, ← hfr]; exact hrel hfix
          split
          · exact ih _ _ (by rw [(setSent_core p n).1]; exact hfr) (hacc.append (fragDgrams_rel R c f _ hcR))
          · refine ih _ _ (by rw [(setSent_core p n).1]; exact hfr) (hacc.append ?_)
            apply dgramsRel_single
            intro s hs
            simp only [List.mem_cons, List.not_mem_nil, or_false] at hs
            rcases hs with rfl | rfl | rfl
            · trivial
            · trivial
            · exact hcR
        · refine ih _ _ (by rw [(setSent_core p n).1]; exact hfr) (hacc.append ?_)
          apply dgramsRel_single
          intro s hs
          simp only [List.mem_cons, List.not_mem_nil, or_false] at hs
          subst hs; trivial

theorem relRequestedLoop_rel (cs : List Change) (f now R : Nat) (fuel : Nat) (p : RProxy) (acc : List Dgram)
    (hfr : p.firstRelevant = R) (hacc : DgramsRel R acc) : DgramsRel R (relRequestedLoop cs f now fuel p acc).2 := by
  induction fuel generalizing p acc with
  | zero => exact hacc
  | succ fuel ih =>
    unfold relRequestedLoop
    split
    · exact hacc
    · rename_i m hm
      simp only
      split
      · rename_i c hc
        obtain ⟨_, hsn, hrel⟩ := sendable_some hc
        have hcR : c.sn > R := by rw [hsn, ← hfr]; exact hrel rfl
        split
        · refine ih _ _ hfr (hacc.append ?_)
          apply dgramsRel_single
          intro s hs
          simp only [List.mem_cons, List.not_mem_nil, or_false] at hs
          rcases hs with rfl | rfl | rfl | rfl
          · trivial
          · trivial
          · exact hcR
          · trivial
        · refine ih _ _ hfr (hacc.append ?_)
          apply dgramsRel_single
          intro s hs
          simp only [List.mem_cons, List.not_mem_nil, or_false] at hs
          rcases hs with rfl | rfl | rfl | rfl
          · trivial
          · trivial
          · exact hcR
          · trivial
      · refine ih _ _ hfr (hacc.append ?_)
        apply dgramsRel_single
        intro s hs
        simp only [List.mem_cons, List.not_mem_nil, or_false] at hs
        rcases hs with rfl | rfl <;> trivial

theorem exists_bound (cs : List Change) (req : List Nat) :
    ∃ l, (∀ c, c ∈ cs → c.sn ≤ l) ∧ (∀ x, x ∈ req → x ≤ l) := by
  induction cs with
  | nil =>
    induction req with
    | nil => exact ⟨0, (by intro c hc; cases hc), (by intro x hx; cases hx)⟩
    | cons y ys ih =>
      obtain ⟨l, h1, h2⟩ := ih
      refine ⟨max l y, (by intro c hc; cases hc), ?_⟩
      intro x hx
      rcases List.mem_cons.mp hx with rfl | hx'
      · exact Nat.le_max_right _ _
      · exact Nat.le_trans (h2 x hx') (Nat.le_max_left _ _)
  | cons c cs ih =>
    obtain ⟨l, h1, h2⟩ := ih
    refine ⟨max l c.sn, ?_, fun x hx => Nat.le_trans (h2 x hx) (Nat.le_max_left _ _)⟩
    intro d hd
    rcases List.mem_cons.mp hd with rfl | hd'
    · exact Nat.le_max_right _ _
    · exact Nat.le_trans (h1 d hd') (Nat.le_max_left _ _)

theorem relTop_core (cfg : Cfg) (cs : List Change) (f now : Nat) (p : RProxy) : SameCore p (p.relTop cfg cs f now).1 := by
  obtain ⟨l, h1, _⟩ := exists_bound cs []
  exact (relTop_truthful cfg cs f now l h1 p).2

theorem writeReliable_core (cfg : Cfg) (cs : List Change) (f now : Nat) (p : RProxy) :
    SameCore p (p.writeReliable cfg cs f now).1 := by
  obtain ⟨l, h1, h2⟩ := exists_bound cs p.requested
  exact (writeReliable_truthful cfg cs f now l h1 p h2).2

theorem proxy_writeMessage_core (cfg : Cfg) (cs : List Change) (f now : Nat) (p : RProxy) :
    SameCore p (p.writeMessage cfg cs f now).1 := by
  obtain ⟨l, h1, h2⟩ := exists_bound cs p.requested
  exact (proxy_writeMessage_truthful cfg cs f now l h1 p h2).2

theorem writeReliable_rel (cfg : Cfg) (cs : List Change) (f now : Nat) (p : RProxy) :
    DgramsRel p.firstRelevant (p.writeReliable cfg cs f now).2 := by
  unfold RProxy.writeReliable
  apply DgramsRel.append
  · unfold RProxy.relTop
    split
    · exact relUnsentLoop_rel cfg cs f now _ _ p [] rfl (DgramsRel.nil _)
    · split
      · exact DgramsRel.nil _
      · split
        · apply dgramsRel_single
          intro s hs
          simp only [List.mem_cons, List.not_mem_nil, or_false] at hs
          rcases hs with rfl | rfl <;> trivial
        · exact DgramsRel.nil _
  · unfold RProxy.relMiddle
    split
    · exact relRequestedLoop_rel cs f now _ _ _ [] (relTop_core cfg cs f now p).1 (DgramsRel.nil _)
    · exact DgramsRel.nil _

/-- the D4 repair is needed on the best-effort path only -/
def RelCfg (cfg : Cfg) (rel : Bool) : Prop := rel = true ∨ cfg.fixD4 = true

theorem proxy_writeMessage_rel (cfg : Cfg) (cs : List Change) (f now : Nat) (p : RProxy) (hc : RelCfg cfg p.reliable) :
    DgramsRel p.firstRelevant (p.writeMessage cfg cs f now).2 := by
  unfold RProxy.writeMessage
  split
  · exact writeReliable_rel cfg cs f now p
  · rename_i hnr
    rcases hc with h | h
    · exact absurd h hnr
    · exact beLoop_rel cfg h cs f _ _ p [] rfl (DgramsRel.nil _)

/-- the writer's proxy, if any, has the reliability kind of the pair -/
def WRel (rel : Bool) (w : Writer) : Prop := ∀ p, w.proxy = some p → p.reliable = rel

theorem Writer.writeMessage_rel (cfg : Cfg) (w : Writer) (now : Nat) (rel : Bool) (hc : RelCfg cfg rel) (hw : WRel rel w) :
    DgramsRel w.firstRel (w.writeMessage cfg now).2 ∧ WRel rel (w.writeMessage cfg now).1 := by
  unfold Writer.writeMessage
  split
  · exact ⟨DgramsRel.nil _, hw⟩
  · rename_i p hp
    have hr := hw p hp
    refine ⟨by simp only [Writer.firstRel, hp]; exact proxy_writeMessage_rel cfg w.changes w.f now p (by rw [hr]; exact hc), ?_⟩
    intro q hq
    simp only at hq
    cases hq
    rw [(proxy_writeMessage_core cfg w.changes w.f now p).2.1]; exact hr

theorem nackFragAnswers_rel (cfg : Cfg) (R : Nat) (c : Change) (f : Nat) (hc : c.sn > R) (reqs : List Nat) :
    DgramsRel R (nackFragAnswers cfg c f reqs) := by
  induction reqs with
  | nil => exact DgramsRel.nil _
  | cons r rest ih =>
    unfold nackFragAnswers
    refine DgramsRel.append ?_ ih
    unfold nackFragAnswer
    have single : ∀ k, DgramsRel R [mkW [.dst, .ts, .frag (asDataFrag c f k)]] := by
      intro k
      apply dgramsRel_single
      intro s hs
      simp only [List.mem_cons, List.not_mem_nil, or_false] at hs
      rcases hs with rfl | rfl | rfl
      · trivial
      · trivial
      · exact hc
    split
    · split
      · exact single _
      · exact DgramsRel.nil _
    · split
      · exact single _
      · exact DgramsRel.nil _

theorem Writer.onSub_rel (cfg : Cfg) (w : Writer) (now : Nat) (rel : Bool) (hw : WRel rel w) (s : Sub)
    (hs : SubRel w.firstRel s) : DgramsRel w.firstRel (w.onSub cfg now s).2 ∧ WRel rel (w.onSub cfg now s).1 := by
  cases s
  case acknack b st c fin =>
    simp only [Writer.onSub]
    unfold Writer.onAcknack
    split
    · exact ⟨DgramsRel.nil _, hw⟩
    · rename_i p hp
      split
      · simp only
        generalize hp2 : ({ (if b - 1 > p.highestAcked then { p with highestAcked := b - 1 } else p) with
            requested := st.foldl pushNew (if b - 1 > p.highestAcked then { p with highestAcked := b - 1 } else p).requested,
            lastAcknack := c } : RProxy) = p2
        have hfr2 : p2.firstRelevant = p.firstRelevant ∧ p2.reliable = p.reliable := by
          rw [← hp2]; split <;> exact ⟨rfl, rfl⟩
        refine ⟨by simp only [Writer.firstRel, hp]; rw [← hfr2.1]; exact writeReliable_rel cfg w.changes w.f now p2, ?_⟩
        intro q hq
        simp only at hq
        cases hq
        -- write_message_reliable keeps the reliability kind
        rw [(writeReliable_core cfg w.changes w.f now p2).2.1, hfr2.2]; exact hw p hp
      · exact ⟨DgramsRel.nil _, hw⟩
  case nackfrag sn b st c =>
    simp only [Writer.onSub]
    unfold Writer.onNackFrag
    split
    · exact ⟨DgramsRel.nil _, hw⟩
    · rename_i p hp
      have hw' : WRel rel { w with proxy := some { p with lastNackFrag := c } } := by
        intro q hq
        simp only at hq
        cases hq
        exact hw p hp
      split
      · split
        · rename_i ch hch
          have := (findChange_some hch).2
          exact ⟨nackFragAnswers_rel cfg _ ch w.f (by rw [this]; exact hs) _, hw'⟩
        · refine ⟨?_, hw'⟩
          apply dgramsRel_single
          intro s hs'
          simp only [List.mem_cons, List.not_mem_nil, or_false] at hs'
          rcases hs' with rfl | rfl <;> trivial
      · exact ⟨DgramsRel.nil _, hw⟩
  all_goals exact ⟨DgramsRel.nil _, hw⟩

theorem Writer.onSub_firstRel (cfg : Cfg) (w : Writer) (now : Nat) (s : Sub) :
    (w.onSub cfg now s).1.firstRel = w.firstRel ∧ ((w.onSub cfg now s).1.proxy = none ↔ w.proxy = none) := by
  cases s
  case acknack b st c fin =>
    simp only [Writer.onSub]
    unfold Writer.onAcknack
    split
    · rename_i hn; exact ⟨rfl, Iff.rfl⟩
    · rename_i p hp
      split
      · simp only
        generalize hp2 : ({ (if b - 1 > p.highestAcked then { p with highestAcked := b - 1 } else p) with
            requested := st.foldl pushNew (if b - 1 > p.highestAcked then { p with highestAcked := b - 1 } else p).requested,
            lastAcknack := c } : RProxy) = p2
        have hfr2 : p2.firstRelevant = p.firstRelevant := by rw [← hp2]; split <;> rfl
        refine ⟨?_, by simp [hp]⟩
        simp only [Writer.firstRel, hp]
        rw [(writeReliable_core cfg w.changes w.f now p2).1, hfr2]
      · exact ⟨rfl, Iff.rfl⟩
  case nackfrag sn b st c =>
    simp only [Writer.onSub]
    unfold Writer.onNackFrag
    split
    · exact ⟨rfl, Iff.rfl⟩
    · rename_i p hp
      split
      · split
        · exact ⟨by simp only [Writer.firstRel, hp], by simp [hp]⟩
        · exact ⟨by simp only [Writer.firstRel, hp], by simp [hp]⟩
      · exact ⟨rfl, Iff.rfl⟩
  all_goals exact ⟨rfl, Iff.rfl⟩

theorem Writer.onSubs_rel (cfg : Cfg) (w : Writer) (now : Nat) (rel : Bool) (hw : WRel rel w) (subs : List Sub)
    (hs : ∀ s, s ∈ subs → SubRel w.firstRel s) :
    DgramsRel w.firstRel (w.onSubs cfg now subs).2 ∧ WRel rel (w.onSubs cfg now subs).1 ∧
    (w.onSubs cfg now subs).1.firstRel = w.firstRel ∧ ((w.onSubs cfg now subs).1.proxy = none ↔ w.proxy = none) := by
  induction subs generalizing w with
  | nil => exact ⟨DgramsRel.nil _, hw, rfl, Iff.rfl⟩
  | cons s rest ih =>
    simp only [Writer.onSubs]
    obtain ⟨a1, a2⟩ := Writer.onSub_rel cfg w now rel hw s (hs s (List.mem_cons_self ..))
    obtain ⟨f1, f2⟩ := Writer.onSub_firstRel cfg w now s
    obtain ⟨b1, b2, b3, b4⟩ := ih (w.onSub cfg now s).1 a2 (by rw [f1]; exact fun x hx => hs x (List.mem_cons_of_mem _ hx))
    rw [f1] at b1
    exact ⟨a1.append b1, b2, b3.trans f1, b4.trans f2⟩

/-! ### reader -/

def ReaderRel (R : Nat) (r : Reader) : Prop :=
  (∀ c, c ∈ r.cache → c.sn > R) ∧ ∀ p, r.proxy = some p → ∀ fr, fr ∈ p.fragBuf → fr.sn > R

theorem ReaderRel.setProxy {R : Nat} {r : Reader} (h : ReaderRel R r) (p p' : WProxy) (hp : r.proxy = some p)
    (hle : ProxyLe p p') : ReaderRel R { r with proxy := some p' } := by
  refine ⟨h.1, ?_⟩
  intro q hq fr hfr
  cases hq
  exact h.2 p hp fr (hle.1.subset hfr)

theorem onData_rel {R : Nat} {r : Reader} (h : ReaderRel R r) (sn : Nat) (payload : Payload) (hsn : sn > R) :
    ReaderRel R (r.onData sn payload) := by
  unfold Reader.onData
  split
  · exact h
  · rename_i p hp
    have deliver : ∀ p' : WProxy, p'.fragBuf.Sublist p.fragBuf →
        ReaderRel R { r with proxy := some p', cache := r.cache ++ [⟨sn, payload⟩] } := by
      intro p' hsub
      refine ⟨?_, ?_⟩
      · intro c hc
        rcases List.mem_append.mp hc with hc | hc
        · exact h.1 c hc
        · simp only [List.mem_singleton] at hc; subst hc; exact hsn
      · intro q hq fr hfr
        cases hq
        exact h.2 p hp fr (hsub.subset hfr)
    simp only
    split
    · split
      · exact deliver _ (received_buf p sn)
      · exact h
    · split
      · split
        · exact deliver _ (received_buf p sn)
        · exact deliver _ (received_buf p sn)
      · exact h

theorem onFrag_rel {R : Nat} {r : Reader} (h : ReaderRel R r) (fr : Frag) (hsn : fr.sn > R) : ReaderRel R (r.onFrag fr) := by
  unfold Reader.onFrag
  split
  · exact h
  · rename_i p hp
    simp only
    generalize hp1 : (if (if r.reliable = true then fr.sn = p.availMax + 1 else fr.sn ≥ p.availMax + 1) then
        ({ p with fragBuf := pushFrag p.fragBuf fr } : WProxy) else p) = p1
    have hb1 : ∀ x, x ∈ p1.fragBuf → x.sn > R := by
      rw [← hp1]
      intro x hx
      split at hx <;> split at hx
      all_goals first
        | exact h.2 p hp x hx
        | (rcases (mem_pushFrag _ _ _).mp hx with hx | rfl
           · exact h.2 p hp x hx
           · exact hsn)
    cases hre : reassemble p1.fragBuf fr.sn with
    | none =>
      simp only [reconstruct, hre]
      refine ⟨h.1, ?_⟩
      intro q hq x hx
      cases hq
      exact hb1 x hx
    | some d =>
      simp only [reconstruct, hre]
      apply onData_rel _ fr.sn d hsn
      refine ⟨h.1, ?_⟩
      intro q hq x hx
      cases hq
      exact hb1 x (List.mem_filter.mp hx).1

theorem ackDgram_rel (cfg : Cfg) (p p' : WProxy) (out : List Dgram) (R : Nat) (hb : ∀ x, x ∈ p.fragBuf → x.sn > R)
    (h : p.ackDgram cfg = .ok (p', out)) : DgramsRel R out := by
  unfold WProxy.ackDgram at h
  simp only at h
  split at h
  · injection h with h; injection h with h1 h2; subst h1; subst h2
    apply dgramsRel_single
    intro s hs
    simp only [List.mem_cons, List.not_mem_nil, or_false] at hs
    rcases hs with rfl | rfl <;> trivial
  · rename_i sn hsn
    have hsnR : sn > R := by
      have := List.find?_some hsn
      simp only [hasFragOf, List.any_eq_true] at this
      obtain ⟨x, hx, hxs⟩ := this
      have := hb x hx
      rw [isSn_iff] at hxs
      omega
    split at h
    · cases h
    · split at h
      · cases h
      · split at h
        · injection h with h; injection h with h1 h2; subst h1; subst h2
          apply dgramsRel_single
          intro s hs
          simp only [List.mem_cons, List.not_mem_nil, or_false] at hs
          rcases hs with rfl | rfl | rfl
          · trivial
          · trivial
          · exact hsnR
        · split at h
          · injection h with h; injection h with h1 h2; subst h1; subst h2
            apply dgramsRel_single
            intro s hs
            simp only [List.mem_cons, List.not_mem_nil, or_false] at hs
            rcases hs with rfl | rfl | rfl
            · trivial
            · trivial
            · exact hsnR
          · cases h

theorem onSub_rel {R : Nat} (cfg : Cfg) {r r' : Reader} (h : ReaderRel R r) (s : Sub) (hs : SubRel R s) (out : List Dgram)
    (hres : r.onSub cfg s = .ok (r', out)) : ReaderRel R r' ∧ DgramsRel R out := by
  cases s
  case data sn p =>
    simp only [Reader.onSub] at hres
    injection hres with hres; injection hres with h1 h2; subst h1; subst h2
    exact ⟨onData_rel h sn p hs, DgramsRel.nil _⟩
  case frag fr =>
    simp only [Reader.onSub] at hres
    injection hres with hres; injection hres with h1 h2; subst h1; subst h2
    exact ⟨onFrag_rel h fr hs, DgramsRel.nil _⟩
  case gap a b c =>
    simp only [Reader.onSub] at hres
    injection hres with hres; injection hres with h1 h2; subst h1; subst h2
    refine ⟨?_, DgramsRel.nil _⟩
    unfold Reader.onGap
    split
    · exact h
    · rename_i p hp
      apply h.setProxy p _ hp
      refine ProxyLe.trans ?_ (foldl_irrelevant_le cfg c _)
      split
      · split
        · exact irrelevantRange_le p _ _
        · exact ProxyLe.refl p
      · split
        · exact foldl_irrelevant_le cfg _ p
        · exact ProxyLe.refl p
  case hb a b c d e =>
    simp only [Reader.onSub] at hres
    unfold Reader.onHb at hres
    split at hres
    · injection hres with hres; injection hres with h1 h2; subst h1; subst h2
      exact ⟨h, DgramsRel.nil _⟩
    · rename_i p hp
      split at hres
      · simp only at hres
        split at hres
        · rename_i p2 out2 hw
          injection hres with hres; injection hres with h1 h2; subst h1; subst h2
          obtain ⟨hle, _⟩ := proxy_writeMessage_ok cfg _ p2 _ hw
          refine ⟨h.setProxy p p2 hp (ProxyLe.trans ⟨List.Sublist.refl _, Nat.le_refl _⟩ hle), ?_⟩
          unfold WProxy.writeMessage at hw
          split at hw
          · refine ackDgram_rel cfg _ p2 _ R ?_ hw
            intro x hx
            have := (prepareAck_le cfg _).1.subset hx
            exact h.2 p hp x this
          · injection hw with hw; injection hw with _ hw; subst hw; exact DgramsRel.nil _
        · cases hres
      · injection hres with hres; injection hres with h1 h2; subst h1; subst h2
        exact ⟨h, DgramsRel.nil _⟩
  all_goals
    simp only [Reader.onSub] at hres
    injection hres with hres; injection hres with h1 h2; subst h1; subst h2
    exact ⟨h, DgramsRel.nil _⟩

theorem onSubs_rel {R : Nat} (cfg : Cfg) (subs : List Sub) (r r' : Reader) (h : ReaderRel R r)
    (hs : ∀ s, s ∈ subs → SubRel R s) (out : List Dgram) (hres : r.onSubs cfg subs = .ok (r', out)) :
    ReaderRel R r' ∧ DgramsRel R out := by
  induction subs generalizing r out with
  | nil =>
    simp only [Reader.onSubs] at hres
    injection hres with hres; injection hres with h1 h2; subst h1; subst h2
    exact ⟨h, DgramsRel.nil _⟩
  | cons s rest ih =>
    simp only [Reader.onSubs] at hres
    split at hres
    · cases hres
    · rename_i r1 o1 h1
      split at hres
      · cases hres
      · rename_i r2 o2 h2
        injection hres with hres; injection hres with ha hb; subst ha; subst hb
        obtain ⟨hr1, ho1⟩ := onSub_rel cfg h s (hs s (List.mem_cons_self ..)) o1 h1
        obtain ⟨hr2, ho2⟩ := ih r1 hr1 (fun x hx => hs x (List.mem_cons_of_mem _ hx)) o2 h2
        exact ⟨hr2, ho1.append ho2⟩

/-! ### system invariant -/

theorem Writer.writeMessage_firstRel (cfg : Cfg) (w : Writer) (now : Nat) :
    (w.writeMessage cfg now).1.firstRel = w.firstRel ∧ ((w.writeMessage cfg now).1.proxy = none ↔ w.proxy = none) ∧
    (w.proxy = none → (w.writeMessage cfg now).2 = []) := by
  unfold Writer.writeMessage
  split
  · rename_i hn; exact ⟨rfl, Iff.rfl, fun _ => rfl⟩
  · rename_i p hp
    refine ⟨?_, by simp [hp], by intro h; rw [h] at hp; cases hp⟩
    simp only [Writer.firstRel, hp]
    exact (proxy_writeMessage_core cfg w.changes w.f now p).1

structure Inv4 (s : Sys) (rel : Bool) : Prop where
  relConst : s.rel = rel
  netR : DgramsRel s.w.firstRel s.net
  rdR : ReaderRel s.w.firstRel s.r
  wrel : WRel rel s.w
  noProxy : s.w.proxy = none → s.net = [] ∧ s.r.proxy = none ∧ s.r.cache = []

theorem inv4_init (rel tl : Bool) (f : Nat) : Inv4 (Sys.init rel tl f) rel := by
  refine ⟨rfl, ?_, ⟨?_, ?_⟩, ?_, ?_⟩ <;> simp [Sys.init, DgramsRel, WRel]

theorem inv4_deliverAt (cfg : Cfg) (rel : Bool) (s s' : Sys) (i : Nat) (out : List Dgram) (h : Inv4 s rel)
    (hs : s.deliverAt cfg i = .ok (s', out)) : Inv4 s' rel := by
  unfold Sys.deliverAt at hs
  split at hs
  · injection hs with hs; injection hs with e _; subst e; exact h
  · rename_i d hd
    have hdmem : d ∈ s.net := getElem?_mem' hd
    have hne : s.w.proxy ≠ none := by
      intro hn
      have := (h.noProxy hn).1
      rw [this] at hdmem; cases hdmem
    have hnet' : DgramsRel s.w.firstRel (s.net.eraseIdx i) := h.netR.sublist (List.eraseIdx_sublist ..)
    simp only at hs
    split at hs
    · split at hs
      · cases hs
      · rename_i r' o hro
        injection hs with hs; injection hs with e _; subst e
        obtain ⟨hr', hout⟩ := onSubs_rel cfg d.subs s.r r' h.rdR (h.netR d hdmem) o hro
        exact ⟨h.relConst, hnet'.append hout, hr', h.wrel, fun hn => absurd hn hne⟩
    · injection hs with hs; injection hs with e _; subst e
      obtain ⟨a1, a2, a3, a4⟩ := Writer.onSubs_rel cfg s.w s.now rel h.wrel d.subs (h.netR d hdmem)
      refine ⟨h.relConst, ?_, ?_, a2, ?_⟩
      · simp only; rw [a3]; exact hnet'.append a1
      · simp only; rw [a3]; exact h.rdR
      · intro hn; exact absurd (a4.mp hn) hne

theorem inv4_step (cfg : Cfg) (hfix : cfg.fixD43 = true) (rel : Bool) (hc : RelCfg cfg rel) (s s' : Sys) (st : Step)
    (out : List Dgram) (h : Inv4 s rel) (hs : s.step cfg st = .ok (s', out)) : Inv4 s' rel := by
  cases st with
  | doMatch =>
    simp only [Sys.step] at hs
    injection hs with hs; injection hs with e _; subst e
    cases hw : s.w.proxy with
    | none =>
      obtain ⟨hnet, hrp, hcache⟩ := h.noProxy hw
      refine ⟨h.relConst, ?_, ⟨?_, ?_⟩, ?_, ?_⟩
      · simp only; rw [hnet]; exact DgramsRel.nil _
      · simp only [Reader.addMatchedWriter, hrp]; rw [hcache]; intro c hcm; cases hcm
      · simp only [Reader.addMatchedWriter, hrp]
        intro q hq fr hfr
        cases hq
        simp [WProxy.new] at hfr
      · intro q hq
        simp only [Writer.addMatchedReader, hw] at hq
        cases hq
        simp only [RProxy.new]; exact h.relConst
      · intro hn
        simp [Writer.addMatchedReader, hw] at hn
    | some p =>
      have hw' : s.w.addMatchedReader cfg s.rel s.tl = s.w := by
        simp [Writer.addMatchedReader, hw, hfix]
      simp only [hw']
      refine ⟨h.relConst, h.netR, ?_, h.wrel, fun hn => by rw [hw] at hn; cases hn⟩
      unfold Reader.addMatchedWriter
      split
      · refine ⟨h.rdR.1, ?_⟩
        intro q hq fr hfr
        cases hq
        simp [WProxy.new] at hfr
      · rw [if_pos hfix]; exact h.rdR
  | write p =>
    simp only [Sys.step] at hs
    injection hs with hs; injection hs with e _; subst e
    simp only [Writer.addChange] at *
    have hw0 : WRel rel { s.w with changes := s.w.changes ++ [⟨s.lastSn + 1, p⟩] } := h.wrel
    obtain ⟨a1, a2⟩ := Writer.writeMessage_rel cfg { s.w with changes := s.w.changes ++ [⟨s.lastSn + 1, p⟩] } s.now rel hc hw0
    obtain ⟨f1, f2, f3⟩ := Writer.writeMessage_firstRel cfg { s.w with changes := s.w.changes ++ [⟨s.lastSn + 1, p⟩] } s.now
    have hfr0 : (Writer.firstRel { s.w with changes := s.w.changes ++ [⟨s.lastSn + 1, p⟩] }) = s.w.firstRel := rfl
    refine ⟨h.relConst, ?_, ?_, a2, ?_⟩
    · simp only; rw [f1, hfr0]; rw [hfr0] at a1; exact h.netR.append a1
    · simp only; rw [f1, hfr0]; exact h.rdR
    · intro hn
      have hn0 : s.w.proxy = none := f2.mp hn
      obtain ⟨x1, x2, x3⟩ := h.noProxy hn0
      refine ⟨?_, x2, x3⟩
      simp only; rw [x1, f3 hn0]; rfl
  | remove sn =>
    simp only [Sys.step] at hs
    injection hs with hs; injection hs with e _; subst e
    exact ⟨h.relConst, h.netR, h.rdR, h.wrel, h.noProxy⟩
  | tick ms =>
    simp only [Sys.step] at hs
    injection hs with hs; injection hs with e _; subst e
    obtain ⟨a1, a2⟩ := Writer.writeMessage_rel cfg s.w (s.now + ms) rel hc h.wrel
    obtain ⟨f1, f2, f3⟩ := Writer.writeMessage_firstRel cfg s.w (s.now + ms)
    refine ⟨h.relConst, ?_, ?_, a2, ?_⟩
    · simp only; rw [f1]; exact h.netR.append a1
    · simp only; rw [f1]; exact h.rdR
    · intro hn
      have hn0 : s.w.proxy = none := f2.mp hn
      obtain ⟨x1, x2, x3⟩ := h.noProxy hn0
      refine ⟨?_, x2, x3⟩
      simp only; rw [x1, f3 hn0]; rfl
  | deliver i =>
    simp only [Sys.step] at hs
    split at hs
    · injection hs with hs; injection hs with e _; subst e; exact h
    · exact inv4_deliverAt cfg rel s s' _ out h hs
  | drop i =>
    simp only [Sys.step] at hs
    split at hs
    · injection hs with hs; injection hs with e _; subst e; exact h
    · injection hs with hs; injection hs with e _; subst e
      refine ⟨h.relConst, h.netR.sublist (List.eraseIdx_sublist ..), h.rdR, h.wrel, ?_⟩
      intro hn
      obtain ⟨x1, x2, x3⟩ := h.noProxy hn
      exact ⟨by simp only; rw [x1]; rfl, x2, x3⟩
  | dup i =>
    simp only [Sys.step] at hs
    split at hs
    · injection hs with hs; injection hs with e _; subst e; exact h
    · rename_i d hd
      injection hs with hs; injection hs with e _; subst e
      have hdm := getElem?_mem' hd
      refine ⟨h.relConst, ?_, h.rdR, h.wrel, ?_⟩
      · apply h.netR.append
        intro d' hd'
        simp only [List.mem_singleton] at hd'
        subst hd'
        exact h.netR _ hdm
      · intro hn
        have := (h.noProxy hn).1
        rw [this] at hdm; cases hdm

theorem inv4_run (cfg : Cfg) (hfix : cfg.fixD43 = true) (rel : Bool) (hc : RelCfg cfg rel) (steps : List Step) (s s' : Sys)
    (h : Inv4 s rel) (hr : Sys.run cfg s steps = .ok s') : Inv4 s' rel := by
  induction steps generalizing s with
  | nil => simp only [Sys.run] at hr; injection hr with hr; subst hr; exact h
  | cons st rest ih =>
    simp only [Sys.run] at hr
    split at hr
    · cases hr
    · rename_i s1 o1 h1
      exact ih s1 (inv4_step cfg hfix rel hc s s1 st o1 h h1) hr

end DustVerif.Rtps
