import DustVerif.Proofs.XcdrSort
/-! XCDR2: the maximum alignment is 4, so serializing at `pos + 4` gives the same bytes as at `pos`
    (unconditionally, for every type and value). Needed because `EMheader1` splices NEXTINT in *after* the member
    value has been written (serializer.rs:616), while the reader meets the value four bytes later. -/
namespace DustVerif.Xcdr

/-- `f` commutes with a shift of the position by 4 -/
def Shift4 (f : Nat → W) : Prop := ∀ p, f (p + 4) = ((f p).1, (f p).2 + 4)

theorem wPad_v2_shift (a p : Nat) (ha : a = 1 ∨ a = 2 ∨ a = 4 ∨ a = 8) : wPad .v2 a (p + 4) = wPad .v2 a p := by
  rcases ha with rfl | rfl | rfl | rfl <;> simp [wPad, Ver.maxAlign, padTo] <;> omega

theorem Prim.size_cases' (p : Prim) : p.size = 1 ∨ p.size = 2 ∨ p.size = 4 ∨ p.size = 8 := by
  cases p <;> simp [Prim.size]

theorem wPrim_shift (e : Endian) (pr : Prim) (n : Nat) : Shift4 (wPrim .v2 e pr n) := by
  intro p
  simp only [wPrim, wPad_v2_shift _ p (Prim.size_cases' pr)]
  congr 1; omega

theorem wStr_shift (e : Endian) (bs : Bytes) : Shift4 (wStr .v2 e bs) := by
  intro p
  simp only [wStr, wPrim_shift e .u32 _ p]
  congr 1; omega

theorem wList_shift (f : Val → Nat → W) (vs : List Val) (h : ∀ v ∈ vs, Shift4 (f v)) : Shift4 (wList f vs) := by
  induction vs with
  | nil => intro p; simp [wList]
  | cons v vs ih =>
    intro p
    have hv := h v (by simp) p
    have hr := ih (fun w hw => h w (by simp [hw]))
    simp only [wList, hv, hr (f v p).2]

theorem wSeqBody_shift (e : Endian) (f : Val → Nat → W) (vs : List Val) (h : ∀ v ∈ vs, Shift4 (f v)) :
    Shift4 (wSeqBody .v2 e f vs) := by
  intro p
  simp only [wSeqBody, wPrim_shift e .u32 _ p, wList_shift f vs h (wPrim .v2 e .u32 (vs.length % 2 ^ 32) p).2]

theorem wWStr_shift (e : Endian) (us : List Val) : Shift4 (wWStr .v2 e us) := by
  intro p
  have hl := wList_shift (fun v q => wPrim .v2 e .u16 v.unit q) us (fun v _ => wPrim_shift e .u16 v.unit)
  simp only [wWStr, wPrim_shift e .u32 _ p, hl (wPrim .v2 e .u32 ((us.length + 1) % 2 ^ 32) p).2, wPrim_shift e .u16 0 _]

theorem wUnion_shift (e : Endian) (disc : Prim) (g : Nat → Val → Nat → W) (fs : List Val)
    (hg : ∀ bid v, Shift4 (g bid v)) : Shift4 (wUnion .v2 e disc g fs) := by
  intro q
  simp only [wUnion]
  split
  · rename_i d bid v
    simp only [wPrim_shift e disc d q, hg bid v (wPrim .v2 e disc d q).2]
  · rename_i d
    exact wPrim_shift e disc d q
  · rfl

theorem wDh_shift (e : Endian) (body : Nat → W) (h : Shift4 body) : Shift4 (wDh .v2 e body) := by
  intro p
  have hp := wPad_v2_shift 4 p (by simp)
  have hb : p + 4 + wPad .v2 4 p + 4 = (p + wPad .v2 4 p + 4) + 4 := by omega
  simp only [wDh, hp, hb, h (p + wPad .v2 4 p + 4)]

theorem wOpt2_shift (e : Endian) (value : Option (Nat → W)) (h : ∀ g, value = some g → Shift4 g) :
    Shift4 (wOpt2 .v2 e value) := by
  intro p
  cases value with
  | none => simp only [wOpt2, wPrim_shift e .bool 0 p]
  | some g => simp only [wOpt2, wPrim_shift e .bool 1 p, h g rfl (wPrim .v2 e .bool 1 p).2]

theorem wMem2_shift (e : Endian) (c : Chunk) (h : Shift4 c.enc) : Shift4 (wMem2 e c) := by
  intro p
  have hp := wPad_v2_shift 4 p (by simp)
  have hb : p + 4 + wPad .v2 4 p + 4 = (p + wPad .v2 4 p + 4) + 4 := by omega
  simp only [wMem2, hp, hb, h (p + wPad .v2 4 p + 4)]
  generalize lcOf c.lc5 ((c.enc (p + wPad .v2 4 p + 4)).1.length % 2 ^ 32) = L
  by_cases hl : L = 4 <;> simp [hl]

theorem emit2_shift (e : Endian) (cs : List Chunk) (h : ∀ c ∈ cs, Shift4 c.enc) : Shift4 (emit2 e cs) := by
  induction cs with
  | nil => intro p; simp [emit2]
  | cons c cs ih =>
    intro p
    have hc := wMem2_shift e c (h c (by simp)) p
    have hr := ih (fun d hd => h d (by simp [hd]))
    simp only [emit2, hc, hr (wMem2 e c p).2]

mutual
theorem ser_shift (cfg : Cfg) (e : Endian) : (t : Ty) → (v : Val) → Shift4 (ser cfg .v2 e t v)
  | .prim p, .num n => by intro q; simp only [ser]; exact wPrim_shift e p n q
  | .str, .str bs => by intro q; simp only [ser]; exact wStr_shift e bs q
  | .enum h _ _, .num n => by intro q; simp only [ser]; exact wPrim_shift e h n q
  | .wstr, .list us => by intro q; simp only [ser]; exact wWStr_shift e us q
  | .seq el, .list vs => by
    intro q
    have hel : ∀ v ∈ vs, Shift4 (ser cfg .v2 e el v) := fun v _ => ser_shift cfg e el v
    simp only [ser]
    split
    · exact wSeqBody_shift e _ vs hel q
    · exact wDh_shift e _ (wSeqBody_shift e _ vs hel) q
  | .arr el _, .list vs => by
    intro q
    have hel : ∀ v ∈ vs, Shift4 (ser cfg .v2 e el v) := fun v _ => ser_shift cfg e el v
    simp only [ser]
    split
    · exact wList_shift _ vs hel q
    · exact wDh_shift e _ (wList_shift _ vs hel) q
  | .struct .final ms, .struct fs => by intro q; simp only [ser]; exact serF_shift cfg e ms fs q
  | .struct .appendable ms, .struct fs => by
    intro q
    have hv : (Ver.v2 == Ver.v1) = false := by decide
    simp only [ser, hv, Bool.false_eq_true, if_false]
    exact wDh_shift e _ (serF_shift cfg e ms fs) q
  | .struct .mutable ms, .struct fs => by
    intro q
    have hv : (Ver.v2 == Ver.v1) = false := by decide
    simp only [ser, hv, Bool.false_eq_true, if_false]
    refine wDh_shift e _ (emit2_shift e _ ?_) q
    intro c hc
    exact chunks_shift cfg e ms fs c ((mem_sortChunks c _).mp hc)
  | .union app disc bs, .struct fs => by
    intro q
    have hU : Shift4 (wUnion .v2 e disc (serB cfg .v2 e bs) fs) :=
      wUnion_shift e disc _ fs (fun bid v => serB_shift cfg e bs bid v)
    simp only [ser]
    split
    · exact wDh_shift e _ hU q
    · exact hU q
  | .union _ _ _, .num _ | .union _ _ _, .str _ | .union _ _ _, .list _ | .union _ _ _, .absent => by intro q; simp [ser]
  | .prim _, .str _ | .prim _, .list _ | .prim _, .struct _ | .prim _, .absent => by intro q; simp [ser]
  | .str, .num _ | .str, .list _ | .str, .struct _ | .str, .absent => by intro q; simp [ser]
  | .enum _ _ _, .str _ | .enum _ _ _, .list _ | .enum _ _ _, .struct _ | .enum _ _ _, .absent => by intro q; simp [ser]
  | .wstr, .num _ | .wstr, .str _ | .wstr, .struct _ | .wstr, .absent => by intro q; simp [ser]
  | .seq _, .num _ | .seq _, .str _ | .seq _, .struct _ | .seq _, .absent => by intro q; simp [ser]
  | .arr _ _, .num _ | .arr _ _, .str _ | .arr _ _, .struct _ | .arr _ _, .absent => by intro q; simp [ser]
  | .struct _ _, .num _ | .struct _ _, .str _ | .struct _ _, .list _ | .struct _ _, .absent => by intro q; simp [ser]
theorem serB_shift (cfg : Cfg) (e : Endian) : (bs : Bs) → (id : Nat) → (v : Val) → Shift4 (serB cfg .v2 e bs id v)
  | .nil, _, _ => by intro q; simp [serB]
  | .cons id' _ _ t r, id, v => by
    intro q
    simp only [serB]
    split
    · exact ser_shift cfg e t v q
    · exact serB_shift cfg e r id v q
theorem serF_shift (cfg : Cfg) (e : Endian) : (ms : Ms) → (fs : List Val) → Shift4 (serF cfg .v2 e ms fs)
  | .nil, _ => by intro q; simp [serF]
  | .cons _ _ _ _ _, [] => by intro q; simp [serF]
  | .cons id opt mu t r, f :: fs => by
    intro q
    have hm : Shift4 (wFMember cfg .v2 e id opt mu f (ser cfg .v2 e t)) := by
      intro p
      unfold wFMember
      cases opt with
      | false => simpa using ser_shift cfg e t f p
      | true =>
        simp only [if_true]
        refine wOpt2_shift e _ ?_ p
        intro g hg
        cases f <;> simp only [optEnc] at hg <;> first | (injection hg with hg; subst hg; exact ser_shift cfg e t _) | cases hg
    have hr := serF_shift cfg e r fs
    simp only [serF, hm q, hr (wFMember cfg .v2 e id opt mu f (ser cfg .v2 e t) q).2]
theorem chunks_shift (cfg : Cfg) (e : Endian) : (ms : Ms) → (fs : List Val) →
    ∀ c ∈ chunks cfg .v2 e ms fs, Shift4 c.enc
  | .nil, _, c, h => by simp [chunks] at h
  | .cons _ _ _ _ _, [], c, h => by simp [chunks] at h
  | .cons id opt mu t r, f :: fs, c, h => by
    have ih := chunks_shift cfg e r fs
    cases f <;> simp only [chunks, List.mem_cons] at h
    case absent => exact ih c h
    all_goals
      rcases h with rfl | h
      · exact ser_shift cfg e t _
      · exact ih c h
end

/-- at a position that is a multiple of 4 the bytes are those at position 0 -/
theorem shift_aligned (f : Nat → W) (h : Shift4 f) : ∀ k, f (4 * k) = ((f 0).1, (f 0).2 + 4 * k)
  | 0 => by simp
  | k + 1 => by
    have := h (4 * k)
    rw [show 4 * (k + 1) = 4 * k + 4 by omega, this, shift_aligned f h k]
    simp; omega

theorem shift_of_mod (f : Nat → W) (h : Shift4 f) (p : Nat) (hp : p % 4 = 0) : f p = ((f 0).1, (f 0).2 + p) := by
  have := shift_aligned f h (p / 4)
  rw [show 4 * (p / 4) = p by omega] at this
  exact this

/-! ### shape of `emit2` (XCDR2 member list) -/
theorem wPad_v2_4 (p : Nat) : wPad .v2 4 p = padTo 4 p := by simp [wPad, Ver.maxAlign]

/-- a member of a mutable structure whose value serializer is shift-invariant and position-consistent -/
def C2 (c : Chunk) : Prop := Shift4 c.enc ∧ (c.enc 0).2 = (c.enc 0).1.length

/-- the EMHEADER1 value -/
def em2 (c : Chunk) : Nat :=
  (if c.mu then 2 ^ 31 else 0) + lcOf c.lc5 ((c.enc 0).1.length % 2 ^ 32) * 2 ^ 28 + c.id % 2 ^ 28

/-- the NEXTINT spliced in for LC = 4 -/
def nextInt (e : Endian) (c : Chunk) : Bytes :=
  if lcOf c.lc5 ((c.enc 0).1.length % 2 ^ 32) = 4 then encNat e 4 ((c.enc 0).1.length % 2 ^ 32) else []

theorem nextInt_le (e : Endian) (c : Chunk) : (nextInt e c).length ≤ 4 := by
  unfold nextInt; split <;> simp

theorem wMem2_eq (e : Endian) (c : Chunk) (hc : C2 c) (p : Nat) :
    wMem2 e c p =
      (zeros (wPad .v2 4 p) ++ (encNat e 4 (em2 c) ++ (nextInt e c ++ (c.enc 0).1)),
       p + wPad .v2 4 p + 4 + (nextInt e c).length + (c.enc 0).1.length) := by
  have hal : (p + wPad .v2 4 p + 4) % 4 = 0 := by
    have := padTo_dvd 4 p (by omega); rw [wPad_v2_4]; omega
  have hs := shift_of_mod c.enc hc.1 _ hal
  simp only [wMem2, hs, em2, nextInt, List.append_assoc, hc.2]
  generalize lcOf c.lc5 ((c.enc 0).1.length % 2 ^ 32) = L
  by_cases hl : L = 4 <;> simp [hl] <;> omega

theorem wMem2_len (e : Endian) (c : Chunk) (hc : C2 c) (p : Nat) :
    (wMem2 e c p).1.length = wPad .v2 4 p + 4 + (nextInt e c).length + (c.enc 0).1.length ∧
    (wMem2 e c p).2 = p + (wMem2 e c p).1.length := by
  rw [wMem2_eq e c hc p]
  simp only [List.length_append, zeros_length, encNat_length]
  omega

theorem lcOf_le (b : Bool) (n : Nat) : lcOf b n ≤ 5 := by
  unfold lcOf; split <;> (try split) <;> (try split) <;> (try split) <;> (try split) <;> omega

theorem emit2_facts (e : Endian) (cs : List Chunk) (h : ∀ c ∈ cs, C2 c) (p : Nat) :
    (emit2 e cs p).2 = p + (emit2 e cs p).1.length ∧
    (emit2 e cs p).1.length ≤ sumNat (cs.map fun c => 11 + (c.enc 0).1.length) := by
  induction cs generalizing p with
  | nil => simp [emit2, sumNat]
  | cons c cs ih =>
    have hc := wMem2_len e c (h c (by simp)) p
    have hr := ih (fun d hd => h d (by simp [hd])) (wMem2 e c p).2
    have hk := wPad4_le .v2 p
    have hn := nextInt_le e c
    simp only [emit2, List.length_append, List.map_cons, sumNat]
    omega

theorem emit2_len_ge (e : Endian) (cs : List Chunk) (h : ∀ c ∈ cs, C2 c) (p : Nat) :
    cs.length ≤ (emit2 e cs p).1.length := by
  induction cs generalizing p with
  | nil => simp
  | cons c cs ih =>
    have hc := wMem2_len e c (h c (by simp)) p
    have hr := ih (fun d hd => h d (by simp [hd])) (wMem2 e c p).2
    simp only [emit2, List.length_append, List.length_cons]
    omega

end DustVerif.Xcdr
