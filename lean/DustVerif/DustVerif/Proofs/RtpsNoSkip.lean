import DustVerif.Proofs.RtpsTruth
/-! Reader side of the no-skip argument (DESIGN §4.5): under truthful GAP / HEARTBEAT submessages — in any order,
    duplicated, with losses — every sequence number at or below `available_changes_max` was delivered or is gone.
    Generic in the `gone` predicate `G`. Requires the D2 repair (contiguous GAPs only). -/
namespace DustVerif.Rtps

def ProxyB (G : Nat → Prop) (l : Nat) (rel : Bool) (cache : List Change) (p : WProxy) : Prop :=
  p.lastAvail ≤ l ∧ p.highestRecv ≤ l ∧
  (rel = true → ∀ sn, 1 ≤ sn → sn ≤ p.availMax → (∃ c, c ∈ cache ∧ c.sn = sn) ∨ G sn)

def ReaderB (G : Nat → Prop) (l : Nat) (r : Reader) : Prop :=
  ∀ p, r.proxy = some p → ProxyB G l r.reliable r.cache p

theorem ProxyB.mono {G G' : Nat → Prop} {l l' : Nat} {rel : Bool} {cache cache' : List Change} {p : WProxy}
    (hG : ∀ sn, G sn → G' sn) (hl : l ≤ l') (hc : ∀ c, c ∈ cache → c ∈ cache') (h : ProxyB G l rel cache p) :
    ProxyB G' l' rel cache' p := by
  refine ⟨Nat.le_trans h.1 hl, Nat.le_trans h.2.1 hl, ?_⟩
  intro hr sn h1 h2
  rcases h.2.2 hr sn h1 h2 with ⟨c, hcm, hcs⟩ | hg
  · exact Or.inl ⟨c, hc c hcm, hcs⟩
  · exact Or.inr (hG sn hg)

theorem ReaderB.mono {G G' : Nat → Prop} {l l' : Nat} {r : Reader} (hG : ∀ sn, G sn → G' sn) (hl : l ≤ l')
    (h : ReaderB G l r) : ReaderB G' l' r := fun p hp => (h p hp).mono hG hl (fun _ hc => hc)

/-- only the three numbers matter -/
theorem ProxyB.sameNums {G : Nat → Prop} {l : Nat} {rel : Bool} {cache : List Change} {p p' : WProxy}
    (h1 : p'.firstAvail = p.firstAvail) (h2 : p'.lastAvail = p.lastAvail) (h3 : p'.highestRecv = p.highestRecv)
    (h : ProxyB G l rel cache p) : ProxyB G l rel cache p' := by
  unfold ProxyB WProxy.availMax at *
  rw [h1, h2, h3]; exact h

theorem irrelevantRange_B {G : Nat → Prop} {l : Nat} (hG : ∀ sn, G sn → sn ≤ l) {rel : Bool} {cache : List Change}
    {p : WProxy} (h : ProxyB G l rel cache p) (a b : Nat) (hab : a ≤ b)
    (hclaim : ∀ sn, 1 ≤ sn → a ≤ sn → sn ≤ b → G sn) : ProxyB G l rel cache (p.irrelevantRange a b) := by
  unfold WProxy.irrelevantRange
  split
  · rename_i hc
    have hb1 : 1 ≤ b := by omega
    have hbl : b ≤ l := hG b (hclaim b hb1 hab (Nat.le_refl _))
    refine ⟨h.1, hbl, ?_⟩
    intro hr sn h1 h2
    by_cases hold : sn ≤ p.availMax
    · exact h.2.2 hr sn h1 hold
    · have hsb : sn ≤ b := by
        unfold WProxy.availMax at h2 hold
        simp only at h2
        omega
      exact Or.inr (hclaim sn h1 (by omega) hsb)
  · exact h

theorem irrelevant_B {G : Nat → Prop} {l : Nat} (hG : ∀ sn, G sn → sn ≤ l) {rel : Bool} {cache : List Change}
    (cfg : Cfg) (hfix : cfg.fixD2 = true) {p : WProxy} (h : ProxyB G l rel cache p) (a : Nat)
    (hclaim : 1 ≤ a → G a) : ProxyB G l rel cache (p.irrelevant cfg a) := by
  unfold WProxy.irrelevant
  rw [if_pos hfix]
  apply irrelevantRange_B hG h a a (Nat.le_refl _)
  intro sn h1 h2 h3
  have : sn = a := by omega
  subst this; exact hclaim h1

theorem foldl_irrelevant_B {G : Nat → Prop} {l : Nat} (hG : ∀ sn, G sn → sn ≤ l) {rel : Bool} {cache : List Change}
    (cfg : Cfg) (hfix : cfg.fixD2 = true) (set : List Nat) (p : WProxy) (h : ProxyB G l rel cache p)
    (hclaim : ∀ a, a ∈ set → 1 ≤ a → G a) : ProxyB G l rel cache (set.foldl (WProxy.irrelevant cfg) p) := by
  induction set generalizing p with
  | nil => exact h
  | cons x xs ih =>
    simp only [List.foldl_cons]
    exact ih _ (irrelevant_B hG cfg hfix h x (hclaim x (List.mem_cons_self ..)))
      (fun a ha => hclaim a (List.mem_cons_of_mem _ ha))

theorem onGap_B {G : Nat → Prop} {l : Nat} (hG : ∀ sn, G sn → sn ≤ l) (cfg : Cfg) (hfix : cfg.fixD2 = true) {r : Reader}
    (h : ReaderB G l r) (start base : Nat) (set : List Nat)
    (hclaim : ∀ sn, 1 ≤ sn → ((start ≤ sn ∧ sn < base) ∨ sn ∈ set) → G sn) : ReaderB G l (r.onGap cfg start base set) := by
  unfold Reader.onGap
  split
  · exact h
  · rename_i p hp
    intro q hq
    simp only at hq
    cases hq
    show ProxyB G l r.reliable r.cache _
    apply foldl_irrelevant_B hG cfg hfix set _ _ (fun a ha h1 => hclaim a h1 (Or.inr ha))
    rw [if_pos hfix]
    split
    · exact irrelevantRange_B hG (h p hp) start (base - 1) (by omega)
        (fun sn h1 h2 h3 => hclaim sn h1 (Or.inl ⟨h2, by omega⟩))
    · exact h p hp

theorem onData_B {G : Nat → Prop} {l : Nat} {r : Reader} (h : ReaderB G l r) (sn : Nat) (payload : Payload)
    (hsn : sn ≤ l) : ReaderB G l (r.onData sn payload) := by
  unfold Reader.onData
  split
  · exact h
  · rename_i p hp
    have hb := h p hp
    simp only
    split
    · rename_i hrel
      split
      · rename_i heq
        intro q hq
        simp only at hq
        cases hq
        have hav := availMax_ge p
        refine ⟨hb.1, ?_, ?_⟩
        · show (if sn > p.highestRecv then sn else p.highestRecv) ≤ l
          split
          · exact hsn
          · exact hb.2.1
        · intro _ sn' h1 h2
          simp only
          have hle : sn' ≤ sn := by
            unfold WProxy.availMax WProxy.received at h2
            unfold WProxy.availMax at heq hav
            simp only at h2
            split at h2 <;> omega
          by_cases hold : sn' ≤ p.availMax
          · rcases hb.2.2 hrel sn' h1 hold with ⟨c, hc, hcs⟩ | hg
            · exact Or.inl ⟨c, List.mem_append_left _ hc, hcs⟩
            · exact Or.inr hg
          · have : sn' = sn := by omega
            exact Or.inl ⟨⟨sn, payload⟩, List.mem_append_right _ (List.mem_singleton.mpr rfl), this.symm⟩
      · exact h
    · rename_i hrel
      split
      · intro q hq
        simp only at hq
        cases hq
        have hnr : r.reliable = false := by simpa using hrel
        have hhrc : (if sn > p.highestRecv then sn else p.highestRecv) ≤ l := by
          split
          · exact hsn
          · exact hb.2.1
        split
        · exact ⟨hb.1, hhrc, fun hr => by rw [hnr] at hr; cases hr⟩
        · exact ⟨hb.1, hhrc, fun hr => by rw [hnr] at hr; cases hr⟩
      · exact h

theorem onFrag_B {G : Nat → Prop} {l : Nat} {r : Reader} (h : ReaderB G l r) (fr : Frag) (hsn : fr.sn ≤ l) :
    ReaderB G l (r.onFrag fr) := by
  unfold Reader.onFrag
  split
  · exact h
  · rename_i p hp
    simp only
    generalize hp1 : (if (if r.reliable = true then fr.sn = p.availMax + 1 else fr.sn ≥ p.availMax + 1) then
        ({ p with fragBuf := pushFrag p.fragBuf fr } : WProxy) else p) = p1
    have hn : p1.firstAvail = p.firstAvail ∧ p1.lastAvail = p.lastAvail ∧ p1.highestRecv = p.highestRecv := by
      rw [← hp1]; split <;> split <;> exact ⟨rfl, rfl, rfl⟩
    have hb1 : ProxyB G l r.reliable r.cache p1 := (h p hp).sameNums hn.1 hn.2.1 hn.2.2
    cases hre : reassemble p1.fragBuf fr.sn with
    | none =>
      simp only [reconstruct, hre]
      intro q hq
      simp only at hq
      cases hq
      exact hb1
    | some d =>
      simp only [reconstruct, hre]
      apply onData_B _ fr.sn d hsn
      intro q hq
      simp only at hq
      cases hq
      exact hb1.sameNums rfl rfl rfl

theorem mem_missing_le (p : WProxy) (x : Nat) (h : x ∈ p.missing) : x ≤ max p.lastAvail p.highestRecv := by
  unfold WProxy.missing at h
  exact ((mem_rangeIncl _ _ _).mp h).2

theorem prepareAck_nums (cfg : Cfg) (p : WProxy) :
    (p.prepareAck cfg).firstAvail = p.firstAvail ∧ (p.prepareAck cfg).lastAvail = p.lastAvail ∧
    (p.prepareAck cfg).highestRecv = p.highestRecv := by
  unfold WProxy.prepareAck
  simp only
  split <;> exact ⟨rfl, rfl, rfl⟩

/-- the ACKNACK / NACK_FRAG datagram only names published sequence numbers and leaves the three numbers alone -/
theorem ackDgram_B (cfg : Cfg) (p p' : WProxy) (out : List Dgram) (l : Nat) (cs : List Change) (fr : Nat)
    (hl1 : p.lastAvail ≤ l) (hl2 : p.highestRecv ≤ l) (h : p.ackDgram cfg = .ok (p', out)) :
    (p'.firstAvail = p.firstAvail ∧ p'.lastAvail = p.lastAvail ∧ p'.highestRecv = p.highestRecv) ∧
    DgramsTruthful cs l fr out := by
  have hmiss : ∀ x, x ∈ p.missing → x ≤ l := fun x hx => by
    have := mem_missing_le p x hx
    omega
  have hset : ∀ x, x ∈ (p.missing.take 256).takeWhile (belowOpt (fragMinSn p.fragBuf)) → x ≤ l :=
    fun x hx => hmiss x ((List.take_sublist _ _).subset ((List.takeWhile_sublist _).subset hx))
  unfold WProxy.ackDgram at h
  simp only at h
  split at h
  · injection h with h; injection h with h1 h2; subst h1; subst h2
    refine ⟨⟨rfl, rfl, rfl⟩, dgramsTruthful_single _ _ ?_⟩
    intro s hs
    simp only [List.mem_cons, List.not_mem_nil, or_false] at hs
    rcases hs with rfl | rfl
    · trivial
    · exact hset
  · rename_i sn hsn
    have hsnl : sn ≤ l := hmiss sn ((List.take_sublist _ _).subset (List.mem_of_find?_eq_some hsn))
    split at h
    · cases h
    · split at h
      · cases h
      · split at h
        · injection h with h; injection h with h1 h2; subst h1; subst h2
          refine ⟨⟨rfl, rfl, rfl⟩, dgramsTruthful_single _ _ ?_⟩
          intro s hs
          simp only [List.mem_cons, List.not_mem_nil, or_false] at hs
          rcases hs with rfl | rfl | rfl
          · trivial
          · exact hset
          · exact hsnl
        · split at h
          · injection h with h; injection h with h1 h2; subst h1; subst h2
            refine ⟨⟨rfl, rfl, rfl⟩, dgramsTruthful_single _ _ ?_⟩
            intro s hs
            simp only [List.mem_cons, List.not_mem_nil, or_false] at hs
            rcases hs with rfl | rfl | rfl
            · trivial
            · exact hset
            · exact hsnl
          · cases h

theorem proxy_writeMessage_B (cfg : Cfg) (p p' : WProxy) (out : List Dgram) (l : Nat) (cs : List Change) (fr : Nat)
    (hl1 : p.lastAvail ≤ l) (hl2 : p.highestRecv ≤ l) (h : p.writeMessage cfg = .ok (p', out)) :
    (p'.firstAvail = p.firstAvail ∧ p'.lastAvail = p.lastAvail ∧ p'.highestRecv = p.highestRecv) ∧
    DgramsTruthful cs l fr out := by
  unfold WProxy.writeMessage at h
  split at h
  · have hn := prepareAck_nums cfg p
    obtain ⟨h1, h2⟩ := ackDgram_B cfg _ p' out l cs fr (by rw [hn.2.1]; exact hl1) (by rw [hn.2.2]; exact hl2) h
    exact ⟨⟨h1.1.trans hn.1, h1.2.1.trans hn.2.1, h1.2.2.trans hn.2.2⟩, h2⟩
  · injection h with h; injection h with h1 h2; subst h1; subst h2
    exact ⟨⟨rfl, rfl, rfl⟩, DgramsTruthful.nil _ _ _⟩

theorem onHb_B {G : Nat → Prop} {l : Nat} {r r' : Reader} (h : ReaderB G l r) (cfg : Cfg) (first last count : Nat)
    (fin lv : Bool) (out : List Dgram) (cs : List Change) (fr : Nat)
    (hclaim : ∀ sn, 1 ≤ sn → sn < first → G sn) (hlast : last ≤ l)
    (hres : r.onHb cfg first last count fin lv = .ok (r', out)) : ReaderB G l r' ∧ DgramsTruthful cs l fr out := by
  unfold Reader.onHb at hres
  split at hres
  · injection hres with hres; injection hres with h1 h2; subst h1; subst h2
    exact ⟨h, DgramsTruthful.nil _ _ _⟩
  · rename_i p hp
    have hb := h p hp
    split at hres
    · simp only at hres
      split at hres
      · rename_i p2 out2 hw
        injection hres with hres; injection hres with h1 h2; subst h1; subst h2
        -- the proxy after the heartbeat bookkeeping
        have hb1 : ProxyB G l r.reliable r.cache
            { p with lastHbCount := count, lastAvail := last, firstAvail := first } := by
          refine ⟨hlast, hb.2.1, ?_⟩
          intro hr sn h1 h2
          by_cases hlt : sn < first
          · exact Or.inr (hclaim sn h1 hlt)
          · have : sn ≤ p.availMax := by
              unfold WProxy.availMax at h2 ⊢
              simp only at h2
              omega
            exact hb.2.2 hr sn h1 this
        obtain ⟨hn, ht⟩ := proxy_writeMessage_B cfg _ p2 _ l cs fr (by exact hlast) (by exact hb.2.1) hw
        refine ⟨?_, ht⟩
        intro q hq
        simp only at hq
        cases hq
        exact hb1.sameNums hn.1 hn.2.1 hn.2.2
      · cases hres
    · injection hres with hres; injection hres with h1 h2; subst h1; subst h2
      exact ⟨h, DgramsTruthful.nil _ _ _⟩

/-- what the reader needs to know about a submessage it is handed -/
def SubForReader (G : Nat → Prop) (l : Nat) : Sub → Prop
  | .data sn _ => sn ≤ l
  | .frag fr => fr.sn ≤ l
  | .gap start base set => ∀ sn, 1 ≤ sn → ((start ≤ sn ∧ sn < base) ∨ sn ∈ set) → G sn
  | .hb first last _ _ _ => (∀ sn, 1 ≤ sn → sn < first → G sn) ∧ last ≤ l
  | _ => True

theorem onSub_B {G : Nat → Prop} {l : Nat} (hG : ∀ sn, G sn → sn ≤ l) (cfg : Cfg) (hfix : cfg.fixD2 = true)
    {r r' : Reader} (h : ReaderB G l r) (s : Sub) (hs : SubForReader G l s) (out : List Dgram) (cs : List Change) (fr : Nat)
    (hres : r.onSub cfg s = .ok (r', out)) : ReaderB G l r' ∧ DgramsTruthful cs l fr out := by
  cases s
  case hb a b c e g => exact onHb_B h cfg a b c e g out cs fr hs.1 hs.2 hres
  case data sn p =>
    simp only [Reader.onSub] at hres
    injection hres with hres; injection hres with h1 h2; subst h1; subst h2
    exact ⟨onData_B h sn p hs, DgramsTruthful.nil _ _ _⟩
  case frag x =>
    simp only [Reader.onSub] at hres
    injection hres with hres; injection hres with h1 h2; subst h1; subst h2
    exact ⟨onFrag_B h x hs, DgramsTruthful.nil _ _ _⟩
  case gap a b c =>
    simp only [Reader.onSub] at hres
    injection hres with hres; injection hres with h1 h2; subst h1; subst h2
    exact ⟨onGap_B hG cfg hfix h a b c hs, DgramsTruthful.nil _ _ _⟩
  all_goals
    simp only [Reader.onSub] at hres
    injection hres with hres; injection hres with h1 h2; subst h1; subst h2
    exact ⟨h, DgramsTruthful.nil _ _ _⟩

theorem onSubs_B {G : Nat → Prop} {l : Nat} (hG : ∀ sn, G sn → sn ≤ l) (cfg : Cfg) (hfix : cfg.fixD2 = true)
    (subs : List Sub) (r r' : Reader) (h : ReaderB G l r) (hs : ∀ s, s ∈ subs → SubForReader G l s) (out : List Dgram)
    (cs : List Change) (fr : Nat) (hres : r.onSubs cfg subs = .ok (r', out)) :
    ReaderB G l r' ∧ DgramsTruthful cs l fr out := by
  induction subs generalizing r out with
  | nil =>
    simp only [Reader.onSubs] at hres
    injection hres with hres; injection hres with h1 h2; subst h1; subst h2
    exact ⟨h, DgramsTruthful.nil _ _ _⟩
  | cons s rest ih =>
    simp only [Reader.onSubs] at hres
    split at hres
    · cases hres
    · rename_i r1 o1 h1
      split at hres
      · cases hres
      · rename_i r2 o2 h2
        injection hres with hres; injection hres with ha hb; subst ha; subst hb
        obtain ⟨hr1, ho1⟩ := onSub_B hG cfg hfix h s (hs s (List.mem_cons_self ..)) o1 cs fr h1
        obtain ⟨hr2, ho2⟩ := ih r1 hr1 (fun x hx => hs x (List.mem_cons_of_mem _ hx)) o2 h2
        exact ⟨hr2, ho1.append ho2⟩

end DustVerif.Rtps
