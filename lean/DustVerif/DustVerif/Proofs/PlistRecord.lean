import DustVerif.Proofs.PlistList
/-! Lifting of the value round trip to whole records of an arbitrary consistent schema. -/
namespace DustVerif.Plist

def padP (p : Param) : Param := (p.1, pad4 p.2)

theorem serParams_eq (e : End) (ps : List Param) (h : ∀ p ∈ ps, (pad4 p.2).length < 65536) :
    serParams e ps = serRaws e (ps.map padP) := by
  induction ps with
  | nil => simp [serParams, serRaws]
  | cons p ps ih =>
    have hp : (pad4 p.2).length < 65536 := h p (by simp)
    simp only [serParams, List.map_cons, serRaws, ih (fun q hq => h q (by simp [hq]))]
    simp [serParam, serRaw, padP, Nat.mod_eq_of_lt hp]

/-- pairwise distinct -/
def distinctPids : List Nat → Bool
  | [] => true
  | p :: ps => !ps.contains p && distinctPids ps

/-- what a decoder must return for a field: the written (normalised) members; a type information blob comes back
    with the padding of its parameter -/
def normField (c : Codec) : FVal → FVal
  | .one vs => .one (normPost c.post vs)
  | .opt o => .opt (o.map (normPost c.post))
  | .many l => .many (l.map (normPost c.post))
  | .blob b => .blob (b.map pad4)

/-- the field value has the shape its encode row expects and every value is in the domain of the codec -/
def WFf (g : EncField) (v : FVal) : Prop :=
  match g.rule, v with
  | .always, .one vs => WFc g.codec vs
  | .omitIf _, .one vs => WFc g.codec vs
  | .ifSome, .opt none => True
  | .ifSome, .opt (some vs) => WFc g.codec vs
  | .each, .many l => ∀ vs ∈ l, WFc g.codec vs
  | .blobIfSome, .blob _ => True
  | _, _ => False

/-- every parameter of the record fits the 16-bit length field -/
def FitsU16 (e : End) (E : List EncField) (d : Nat → FVal) : Prop :=
  ∀ p ∈ recordParams e E d, (pad4 p.2).length < 65536

theorem encEach_pid (e : End) (pid : Nat) (c : Codec) (l : List (List PVal)) : ∀ p ∈ encEach e pid c l, p.1 = pid := by
  induction l with
  | nil => simp [encEach]
  | cons v vs ih =>
    intro p hp
    simp only [encEach, List.mem_cons] at hp
    rcases hp with hp | hp
    · subst hp; rfl
    · exact ih p hp

theorem fieldParams_pid (e : End) (g : EncField) (v : FVal) : ∀ p ∈ fieldParams e g v, p.1 = g.pid := by
  intro p hp
  unfold fieldParams at hp
  split at hp
  · simp at hp; subst hp; rfl
  · split at hp
    · simp at hp
    · simp at hp; subst hp; rfl
  · simp at hp; subst hp; rfl
  · exact encEach_pid e _ _ _ p hp
  · simp at hp; subst hp; rfl
  · simp at hp

theorem recordParams_pids (e : End) (E : List EncField) (d : Nat → FVal) :
    ∀ p ∈ recordParams e E d, p.1 ∈ E.map EncField.pid := by
  induction E with
  | nil => simp [recordParams]
  | cons g gs ih =>
    intro p hp
    simp only [recordParams, List.mem_append] at hp
    rcases hp with hp | hp
    · simp [fieldParams_pid e g _ p hp]
    · simp only [List.map_cons, List.mem_cons]; exact Or.inr (ih p hp)

theorem filterPid_map_padP_all (q : Nat) (xs : List Param) (h : ∀ p ∈ xs, p.1 = q) :
    filterPid q (xs.map padP) = xs.map (fun p => pad4 p.2) := by
  rw [filterPid_all q (xs.map padP)]
  · simp [padP]
  · intro p hp
    simp only [List.mem_map] at hp
    obtain ⟨r, hr, rfl⟩ := hp
    exact h r hr

theorem filterPid_map_padP_none (q : Nat) (xs : List Param) (h : ∀ p ∈ xs, p.1 ≠ q) :
    filterPid q (xs.map padP) = [] := by
  apply filterPid_none
  intro p hp
  simp only [List.mem_map] at hp
  obtain ⟨r, hr, rfl⟩ := hp
  exact h r hr

/-- with pairwise distinct pids, looking a field's pid up in the written list finds exactly the parameters
    of that field, in their order -/
theorem filter_record (e : End) (E : List EncField) (d : Nat → FVal) (g : EncField) (hg : g ∈ E)
    (hn : distinctPids (E.map EncField.pid) = true) :
    filterPid g.pid ((recordParams e E d).map padP) = (fieldParams e g (d g.pid)).map (fun p => pad4 p.2) := by
  induction E with
  | nil => simp at hg
  | cons h t ih =>
    simp only [List.map_cons, distinctPids, Bool.and_eq_true, Bool.not_eq_true', List.contains_eq_mem,
      decide_eq_false_iff_not] at hn
    obtain ⟨hnot, hrest⟩ := hn
    simp only [recordParams, List.map_append, filterPid_append]
    simp only [List.mem_cons] at hg
    by_cases hgh : g = h
    · subst hgh
      rw [filterPid_map_padP_all _ _ (fieldParams_pid e g _)]
      rw [filterPid_map_padP_none g.pid (recordParams e t d)]
      · simp
      · intro p hp heq
        exact hnot (heq ▸ recordParams_pids e t d p hp)
    · have hgt : g ∈ t := by
        rcases hg with hg | hg
        · exact absurd hg hgh
        · exact hg
      have hne : g.pid ≠ h.pid := by
        intro heq
        exact hnot (heq ▸ List.mem_map_of_mem hgt)
      rw [filterPid_map_padP_none g.pid (fieldParams e h (d h.pid))]
      · simp [ih hgt hrest]
      · intro p hp heq
        exact hne ((fieldParams_pid e h _ p hp) ▸ heq).symm


/-! ### consistency of a schema: the side condition of the round-trip theorem (decidable) -/

/-- a pid the iterator can find: 16 bit and not the sentinel.  Before fixes/D-plist-1.patch the iterator started at
    offset 0 and read the encapsulation header as a parameter, so the pid also had to differ from what the header
    reads as (`hdrPid e`: 0x0300 under LE, 0x0002 under BE); the repaired decoder has no such exception -/
def pidOk (cfg : Cfg) (e : End) (p : Nat) : Bool :=
  decide (p < 65536) && p != 1 && (cfg.fixHdr || p != hdrPid e)

/-- the decode row reads back what the encode row writes: same pid, same value codec, and the way of reading
    fits the way of writing (the default assumed for an absent parameter is the value that is not written) -/
def compat (g : EncField) (f : DecField) : Bool :=
  g.pid == f.pid && g.codec == f.codec &&
  (match g.rule, f.acc with
   | .always, .required => true
   | .always, .optional _ => true
   | .omitIf a, .optional b => a == b && normPost g.codec.post a == a
   | .ifSome, .requiredOk => true
   | .each, .list => true
   | .blobIfSome, .typeInfo _ => true
   | _, _ => false)

def hasCompat : List EncField → DecField → Bool
  | [], _ => false
  | g :: gs, f => compat g f || hasCompat gs f

def allCompat (E : List EncField) : List DecField → Bool
  | [] => true
  | f :: fs => hasCompat E f && allCompat E fs

def allPidOk (cfg : Cfg) (e : End) : List EncField → Bool
  | [] => true
  | g :: gs => pidOk cfg e g.pid && allPidOk cfg e gs

def consistent (cfg : Cfg) (e : End) (E : List EncField) (D : List DecField) : Bool :=
  distinctPids (E.map EncField.pid) && allPidOk cfg e E && allCompat E D

theorem hasCompat_exists (E : List EncField) (f : DecField) (h : hasCompat E f = true) :
    ∃ g ∈ E, compat g f = true := by
  induction E with
  | nil => simp [hasCompat] at h
  | cons g gs ih =>
    simp only [hasCompat, Bool.or_eq_true] at h
    rcases h with h | h
    · exact ⟨g, by simp, h⟩
    · obtain ⟨g', hg', hc⟩ := ih h
      exact ⟨g', by simp [hg'], hc⟩

theorem allCompat_mem (E : List EncField) (D : List DecField) (h : allCompat E D = true) :
    ∀ f ∈ D, hasCompat E f = true := by
  induction D with
  | nil => simp
  | cons f fs ih =>
    simp only [allCompat, Bool.and_eq_true] at h
    intro x hx
    simp only [List.mem_cons] at hx
    rcases hx with hx | hx
    · subst hx; exact h.1
    · exact ih h.2 x hx

theorem allPidOk_mem (cfg : Cfg) (e : End) (E : List EncField) (h : allPidOk cfg e E = true) :
    ∀ g ∈ E, pidOk cfg e g.pid = true := by
  induction E with
  | nil => simp
  | cons g gs ih =>
    simp only [allPidOk, Bool.and_eq_true] at h
    intro x hx
    simp only [List.mem_cons] at hx
    rcases hx with hx | hx
    · subst hx; exact h.1
    · exact ih h.2 x hx

/-! ### decoding what was encoded -/

/-- the parameter list the decoder sees for an encoded record -/
def plOf (cfg : Cfg) (e : End) (E : List EncField) (d : Nat → FVal) : Pl :=
  { h0 := 0, h1 := hdrByte e, e := some e, items := hdrItems cfg e ++ (recordParams e E d).map padP,
    tailErr := false }

theorem decFound_h0 (cfg : Cfg) (pl : Pl) (en : End) (c : Codec) (v : Bytes) (h : pl.h0 = 0) :
    decFound cfg pl en c v = decCodec cfg en c v := by
  unfold decFound
  cases c.sty <;> simp [h]

theorem decCodec_pad4 (cfg : Cfg) (e : End) (c : Codec) (vs : List PVal) (h : WFc c vs) :
    decCodec cfg e c (pad4 (encCodec e c vs)) = .ok (some (normPost c.post vs)) := by
  unfold pad4
  exact decCodec_enc cfg e c vs _ h

theorem encEach_vals (e : End) (pid : Nat) (c : Codec) (l : List (List PVal)) :
    (encEach e pid c l).map (fun p => pad4 p.2) = l.map (fun vs => pad4 (encCodec e c vs)) := by
  induction l with
  | nil => simp [encEach]
  | cons v vs ih => simp [encEach, ih]

theorem decList_enc (cfg : Cfg) (e : End) (c : Codec) (l : List (List PVal)) (h : ∀ vs ∈ l, WFc c vs) :
    decList cfg e c (l.map (fun vs => pad4 (encCodec e c vs))) = .ok (l.map (normPost c.post)) := by
  induction l with
  | nil => simp [decList]
  | cons v vs ih =>
    have hv : WFc c v := h v (by simp)
    simp [decList, decCodec_pad4 cfg e c v hv, ih (fun x hx => h x (by simp [hx]))]

theorem items_filter (cfg : Cfg) (e : End) (E : List EncField) (d : Nat → FVal) (g : EncField) (hg : g ∈ E)
    (hn : distinctPids (E.map EncField.pid) = true) (hp : pidOk cfg e g.pid = true) :
    filterPid g.pid (plOf cfg e E d).items = (fieldParams e g (d g.pid)).map (fun p => pad4 p.2) := by
  simp only [pidOk, Bool.and_eq_true, decide_eq_true_eq, bne_iff_ne, ne_eq, Bool.or_eq_true] at hp
  have hhdr : filterPid g.pid (hdrItems cfg e) = [] := by
    unfold hdrItems
    by_cases hf : cfg.fixHdr = true
    · simp [hf, filterPid]
    · have hne : (hdrPid e == g.pid) = false := by
        simp only [beq_eq_false_iff_ne, ne_eq]
        rcases hp.2 with h | h
        · exact absurd h hf
        · exact fun h' => h h'.symm
      simp [hf, filterPid, hne]
  simp only [plOf, filterPid_append, hhdr, List.nil_append]
  exact filter_record e E d g hg hn

/-- one field: reading it from the encoded record gives the (normalised) value that was written -/
theorem decField_enc (cfg : Cfg) (e : End) (E : List EncField) (d : Nat → FVal) (g : EncField) (f : DecField)
    (hg : g ∈ E) (hn : distinctPids (E.map EncField.pid) = true) (hp : pidOk cfg e g.pid = true)
    (hc : compat g f = true) (hw : WFf g (d g.pid)) :
    decField cfg (plOf cfg e E d) f = .ok (normField f.codec (d f.pid)) := by
  have hfil := items_filter cfg e E d g hg hn hp
  obtain ⟨gp, gc, gr⟩ := g
  obtain ⟨fp, fc, fa⟩ := f
  simp only [compat, Bool.and_eq_true, beq_iff_eq] at hc
  obtain ⟨⟨hpid, hcod⟩, hrule⟩ := hc
  simp only at hpid hcod hfil hw
  subst hpid hcod
  have hfind : findPid gp (plOf cfg e E d).items = ((fieldParams e ⟨gp, gc, gr⟩ (d gp)).map (fun p => pad4 p.2)).head? := by
    rw [findPid_eq_head, hfil]
  have hh0 : (plOf cfg e E d).h0 = 0 := rfl
  have he : (plOf cfg e E d).e = some e := rfl
  have ht : (plOf cfg e E d).tailErr = false := rfl
  cases gr with
  | always =>
    cases hv : d gp with
    | one vs =>
      simp only [WFf, hv] at hw
      simp only [fieldParams, hv, List.map_cons, List.map_nil, List.head?_cons] at hfind
      cases fa with
      | required =>
        simp [decField, seek, he, hfind, decFound_h0 _ _ _ _ _ hh0, decCodec_pad4 cfg e gc vs hw, normField]
      | optional dflt =>
        simp [decField, seek, he, hfind, decFound_h0 _ _ _ _ _ hh0, decCodec_pad4 cfg e gc vs hw, normField]
      | requiredOk => simp at hrule
      | list => simp at hrule
      | typeInfo sw => simp at hrule
    | opt o => simp [WFf, hv] at hw
    | many l => simp [WFf, hv] at hw
    | blob b => simp [WFf, hv] at hw
  | omitIf a =>
    cases hv : d gp with
    | one vs =>
      simp only [WFf, hv] at hw
      cases fa with
      | optional dflt =>
        simp only [Bool.and_eq_true, beq_iff_eq] at hrule
        obtain ⟨hab, hnorm⟩ := hrule
        subst hab
        by_cases heq : vs = a
        · subst heq
          simp only [fieldParams, hv, beq_self_eq_true, if_true, List.map_nil, List.head?_nil] at hfind
          simp [decField, seek, he, hfind, ht, normField, hnorm]
        · have hbeq : (vs == a) = false := by simpa using heq
          simp only [fieldParams, hv, hbeq, Bool.false_eq_true, if_false, List.map_cons, List.map_nil,
            List.head?_cons] at hfind
          simp [decField, seek, he, hfind, decFound_h0 _ _ _ _ _ hh0, decCodec_pad4 cfg e gc vs hw, normField]
      | required => simp at hrule
      | requiredOk => simp at hrule
      | list => simp at hrule
      | typeInfo sw => simp at hrule
    | opt o => simp [WFf, hv] at hw
    | many l => simp [WFf, hv] at hw
    | blob b => simp [WFf, hv] at hw
  | ifSome =>
    cases fa with
    | requiredOk =>
      cases hv : d gp with
      | opt o =>
        cases o with
        | none =>
          simp only [fieldParams, hv, List.map_nil, List.head?_nil] at hfind
          simp [decField, seek, he, hfind, ht, normField]
        | some vs =>
          simp only [WFf, hv] at hw
          simp only [fieldParams, hv, List.map_cons, List.map_nil, List.head?_cons] at hfind
          simp [decField, seek, he, hfind, decFound_h0 _ _ _ _ _ hh0, decCodec_pad4 cfg e gc vs hw, normField]
      | one vs => simp [WFf, hv] at hw
      | many l => simp [WFf, hv] at hw
      | blob b => simp [WFf, hv] at hw
    | required => simp at hrule
    | optional dflt => simp at hrule
    | list => simp at hrule
    | typeInfo sw => simp at hrule
  | each =>
    cases fa with
    | list =>
      cases hv : d gp with
      | many l =>
        simp only [WFf, hv] at hw
        simp only [fieldParams, hv, encEach_vals] at hfil
        simp [decField, he, hfil, decList_enc cfg e gc l hw, ht, normField]
      | one vs => simp [WFf, hv] at hw
      | opt o => simp [WFf, hv] at hw
      | blob b => simp [WFf, hv] at hw
    | required => simp at hrule
    | optional dflt => simp at hrule
    | requiredOk => simp at hrule
    | typeInfo sw => simp at hrule
  | blobIfSome =>
    cases fa with
    | typeInfo sw =>
      cases hv : d gp with
      | blob b =>
        cases b with
        | none =>
          simp only [fieldParams, hv, List.map_nil, List.head?_nil] at hfind
          simp [decField, seek, he, hfind, ht, normField]
        | some bb =>
          simp only [fieldParams, hv, List.map_cons, List.map_nil, List.head?_cons] at hfind
          simp [decField, seek, he, hfind, hh0, normField]
      | one vs => simp [WFf, hv] at hw
      | opt o => simp [WFf, hv] at hw
      | many l => simp [WFf, hv] at hw
    | required => simp at hrule
    | optional dflt => simp at hrule
    | requiredOk => simp at hrule
    | list => simp at hrule

theorem decFields_ok (cfg : Cfg) (pl : Pl) (D : List DecField) (v : DecField → FVal)
    (h : ∀ f ∈ D, decField cfg pl f = .ok (v f)) :
    decFields cfg pl D = .ok (D.map (fun f => (f.pid, v f))) := by
  induction D with
  | nil => simp [decFields]
  | cons f fs ih =>
    simp [decFields, h f (by simp), ih (fun x hx => h x (by simp [hx]))]


/-! ### a decoded field depends on the list only through the look-ups of its own pid -/

theorem decField_congr (cfg : Cfg) (a b : Nat) (e : Option End) (t : Bool) (items1 items2 : List Param)
    (f : DecField) (h : filterPid f.pid items1 = filterPid f.pid items2) :
    decField cfg ⟨a, b, e, items1, t⟩ f = decField cfg ⟨a, b, e, items2, t⟩ f := by
  simp only [decField, seek, decFound, findPid_eq_head, h]

theorem decFields_congr (cfg : Cfg) (a b : Nat) (e : Option End) (t : Bool) (items1 items2 : List Param)
    (D : List DecField) (h : ∀ f ∈ D, filterPid f.pid items1 = filterPid f.pid items2) :
    decFields cfg ⟨a, b, e, items1, t⟩ D = decFields cfg ⟨a, b, e, items2, t⟩ D := by
  induction D with
  | nil => simp [decFields]
  | cons f fs ih =>
    simp only [decFields, decField_congr cfg a b e t items1 items2 f (h f (by simp)),
      ih (fun x hx => h x (by simp [hx]))]

theorem decFields_cons_ok (cfg : Cfg) (pl : Pl) (f : DecField) (fs : List DecField) (L : List (Nat × FVal))
    (h : decFields cfg pl (f :: fs) = .ok L) :
    ∃ v vs, decField cfg pl f = .ok v ∧ decFields cfg pl fs = .ok vs ∧ L = (f.pid, v) :: vs := by
  simp only [decFields] at h
  cases hv : decField cfg pl f with
  | ok v =>
    simp only [hv] at h
    cases hvs : decFields cfg pl fs with
    | ok vs =>
      simp only [hvs, Out.ok.injEq] at h
      exact ⟨v, vs, rfl, rfl, h.symm⟩
    | err er => simp [hvs] at h
    | panic => simp [hvs] at h
    | alloc => simp [hvs] at h
  | err er => simp [hv] at h
  | panic => simp [hv] at h
  | alloc => simp [hv] at h

end DustVerif.Plist
