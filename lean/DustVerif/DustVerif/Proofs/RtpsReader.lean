import DustVerif.Proofs.RtpsWriter
/-! Reader side of the `rtps` model: the delivered cache stays a strictly increasing list of published
    changes under ANY genuine submessage (any order, duplicates, losses). Used by Props/C01, C02. -/
namespace DustVerif.Rtps

structure LogOK (log : List Change) (f : Nat) : Prop where
  fpos : 1 ≤ f
  f16 : f < 65536
  len : ∀ c, c ∈ log → c.payload.length < 4294967296
  uniq : ∀ c c', c ∈ log → c' ∈ log → c.sn = c'.sn → c = c'

/-- the fragment buffer holds each submessage once and only genuine fragments -/
def BufGenuine (log : List Change) (f : Nat) (buf : List Frag) : Prop :=
  buf.Nodup ∧ ∀ fr, fr ∈ buf → ∃ c, c ∈ log ∧ Genuine c f fr

theorem BufGenuine.sublist {log : List Change} {f : Nat} {a b : List Frag} (h : a.Sublist b) (hb : BufGenuine log f b) :
    BufGenuine log f a := ⟨hb.1.sublist h, fun fr hfr => hb.2 fr (h.subset hfr)⟩

theorem BufGenuine.push {log : List Change} {f : Nat} {buf : List Frag} (hb : BufGenuine log f buf) (fr : Frag)
    (hfr : ∃ c, c ∈ log ∧ Genuine c f fr) : BufGenuine log f (pushFrag buf fr) := by
  refine ⟨pushFrag_nodup buf fr hb.1, ?_⟩
  intro x hx
  rcases (mem_pushFrag buf fr x).mp hx with h | rfl
  · exact hb.2 x h
  · exact hfr

theorem BufGenuine.mono {log log' : List Change} {f : Nat} {buf : List Frag} (h : ∀ c, c ∈ log → c ∈ log')
    (hb : BufGenuine log f buf) : BufGenuine log' f buf :=
  ⟨hb.1, fun fr hfr => let ⟨c, hc, g⟩ := hb.2 fr hfr; ⟨c, h c hc, g⟩⟩

theorem genuine_sn {c : Change} {f : Nat} {fr : Frag} (g : Genuine c f fr) : fr.sn = c.sn := by
  obtain ⟨k, _, rfl⟩ := g; rfl

/-- a globally genuine buffer is a good buffer for every change of the log -/
theorem BufGenuine.bufOK {log : List Change} {f : Nat} {buf : List Frag} (hl : LogOK log f) (hb : BufGenuine log f buf)
    (c : Change) (hc : c ∈ log) : BufOK c f buf := by
  refine ⟨hb.1, ?_⟩
  intro fr hfr hsn
  obtain ⟨c', hc', g⟩ := hb.2 fr hfr
  have : c' = c := hl.uniq c' c hc' hc (by rw [← genuine_sn g, hsn])
  rw [← this]; exact g

theorem reassemble_some_has {buf : List Frag} {sn : Nat} {d : Payload} (h : reassemble buf sn = some d) :
    ∃ fr0, fr0 ∈ buf ∧ fr0.sn = sn := by
  unfold reassemble at h
  split at h
  · cases h
  · rename_i fr0 hfind
    exact ⟨fr0, List.mem_of_find?_eq_some hfind, (isSn_iff sn fr0).mp (List.find?_some hfind)⟩

/-- whatever the reader reconstructs from a genuine buffer is a published change -/
theorem reassemble_in_log {log : List Change} {f : Nat} {buf : List Frag} (hl : LogOK log f) (hb : BufGenuine log f buf)
    (sn : Nat) (d : Payload) (h : reassemble buf sn = some d) : (⟨sn, d⟩ : Change) ∈ log := by
  obtain ⟨fr0, hmem, hsn⟩ := reassemble_some_has h
  obtain ⟨c, hc, g⟩ := hb.2 fr0 hmem
  have hcsn : c.sn = sn := by rw [← genuine_sn g, hsn]
  rw [← hcsn] at h
  have hd := reassemble_sound c f hl.fpos hl.f16 (hl.len c hc) buf (hb.bufOK hl c hc) d h
  have : (⟨sn, d⟩ : Change) = c := by
    cases c; simp only at hcsn hd; simp [hcsn, hd]
  rw [this]; exact hc

/-! ### the reader invariant -/

structure ReaderOK (log : List Change) (f : Nat) (r : Reader) : Prop where
  cacheInLog : ∀ c, c ∈ r.cache → c ∈ log
  cacheSorted : (r.cache.map snOf).Pairwise (· < ·)
  noProxy : r.proxy = none → r.cache = []
  bound : ∀ p, r.proxy = some p → ∀ c, c ∈ r.cache → c.sn ≤ p.highestRecv
  buf : ∀ p, r.proxy = some p → BufGenuine log f p.fragBuf

theorem ReaderOK.mono {log log' : List Change} {f : Nat} {r : Reader} (h : ∀ c, c ∈ log → c ∈ log')
    (hr : ReaderOK log f r) : ReaderOK log' f r :=
  ⟨fun c hc => h c (hr.cacheInLog c hc), hr.cacheSorted, hr.noProxy, hr.bound, fun p hp => (hr.buf p hp).mono h⟩

/-- the proxy moved forward: highest_received did not decrease, the buffer lost at most some fragments -/
def ProxyLe (p p' : WProxy) : Prop := p'.fragBuf.Sublist p.fragBuf ∧ p.highestRecv ≤ p'.highestRecv

theorem ProxyLe.refl (p : WProxy) : ProxyLe p p := ⟨List.Sublist.refl _, Nat.le_refl _⟩
theorem ProxyLe.trans {a b c : WProxy} (h1 : ProxyLe a b) (h2 : ProxyLe b c) : ProxyLe a c :=
  ⟨h2.1.trans h1.1, Nat.le_trans h1.2 h2.2⟩

theorem ReaderOK.setProxy {log : List Change} {f : Nat} {r : Reader} (hr : ReaderOK log f r) (p p' : WProxy)
    (hp : r.proxy = some p) (hle : ProxyLe p p') : ReaderOK log f { r with proxy := some p' } := by
  refine ⟨hr.cacheInLog, hr.cacheSorted, (by intro h; cases h), ?_, ?_⟩
  · intro q hq c hc
    cases hq
    exact Nat.le_trans (hr.bound p hp c hc) hle.2
  · intro q hq
    cases hq
    exact (hr.buf p hp).sublist hle.1

theorem availMax_ge (p : WProxy) : p.highestRecv ≤ p.availMax := by
  unfold WProxy.availMax; exact Nat.le_max_right _ _

theorem received_hrc (p : WProxy) (a : Nat) : p.highestRecv ≤ (p.received a).highestRecv ∧ a ≤ (p.received a).highestRecv := by
  unfold WProxy.received
  simp only
  split <;> omega

theorem received_buf (p : WProxy) (a : Nat) : (p.received a).fragBuf.Sublist p.fragBuf := by
  unfold WProxy.received; exact List.filter_sublist

/-- appending a published change with a number above everything delivered keeps the invariant -/
theorem ReaderOK.deliver {log : List Change} {f : Nat} {r : Reader} (hr : ReaderOK log f r) (p p' : WProxy)
    (hp : r.proxy = some p) (sn : Nat) (payload : Payload) (hin : (⟨sn, payload⟩ : Change) ∈ log)
    (habove : p.highestRecv < sn) (hbuf : p'.fragBuf.Sublist p.fragBuf) (hhrc : p.highestRecv ≤ p'.highestRecv)
    (hsn : sn ≤ p'.highestRecv) :
    ReaderOK log f { r with proxy := some p', cache := r.cache ++ [⟨sn, payload⟩] } := by
  refine ⟨?_, ?_, (by intro h; cases h), ?_, ?_⟩
  · intro c hc
    rcases List.mem_append.mp hc with h | h
    · exact hr.cacheInLog c h
    · simp only [List.mem_singleton] at h; subst h; exact hin
  · simp only [List.map_append, List.map_cons, List.map_nil]
    rw [List.pairwise_append]
    refine ⟨hr.cacheSorted, List.pairwise_singleton _ _, ?_⟩
    intro a ha b hb
    simp only [List.mem_singleton] at hb
    rw [hb]
    obtain ⟨c, hc, rfl⟩ := List.mem_map.mp ha
    have := hr.bound p hp c hc
    show c.sn < sn
    omega
  · intro q hq c hc
    cases hq
    rcases List.mem_append.mp hc with h | h
    · exact Nat.le_trans (hr.bound p hp c h) hhrc
    · simp only [List.mem_singleton] at h; subst h; exact hsn
  · intro q hq
    cases hq
    exact (hr.buf p hp).sublist hbuf

theorem onData_ok {log : List Change} {f : Nat} {r : Reader} (hr : ReaderOK log f r) (sn : Nat) (payload : Payload)
    (hin : (⟨sn, payload⟩ : Change) ∈ log) : ReaderOK log f (r.onData sn payload) := by
  unfold Reader.onData
  split
  · exact hr
  · rename_i p hp
    have hav := availMax_ge p
    simp only
    split
    · split
      · rename_i hrel heq
        have h := received_hrc p sn
        exact hr.deliver p _ hp sn payload hin (by omega) (received_buf p sn) h.1 h.2
      · exact hr
    · split
      · rename_i hrel hge
        have h := received_hrc p sn
        split
        · exact hr.deliver p _ hp sn payload hin (by omega) (received_buf p sn) h.1 h.2
        · exact hr.deliver p _ hp sn payload hin (by omega) (received_buf p sn) h.1 h.2
      · exact hr

theorem onFrag_core {log : List Change} {f : Nat} {r : Reader} (hl : LogOK log f) (hr : ReaderOK log f r) (fr : Frag)
    (p : WProxy) (hp : r.proxy = some p) (p1 : WProxy) (hbuf1 : BufGenuine log f p1.fragBuf)
    (hhrc1 : p1.highestRecv = p.highestRecv) :
    ReaderOK log f (match reconstruct p1.fragBuf fr.sn with
      | (some d, buf) => Reader.onData { r with proxy := some { p1 with fragBuf := buf } } fr.sn d
      | (none, _) => { r with proxy := some p1 }) := by
  cases hre : reassemble p1.fragBuf fr.sn with
  | some d =>
    simp only [reconstruct, hre]
    have hin := reassemble_in_log hl hbuf1 fr.sn d hre
    have hr2 : ReaderOK log f { r with proxy := some { p1 with fragBuf := p1.fragBuf.filter (notSn fr.sn) } } := by
      refine ⟨hr.cacheInLog, hr.cacheSorted, (by intro h; cases h), ?_, ?_⟩
      · intro q hq c hc
        cases hq
        show c.sn ≤ p1.highestRecv
        rw [hhrc1]; exact hr.bound p hp c hc
      · intro q hq
        cases hq
        exact hbuf1.sublist List.filter_sublist
    exact onData_ok hr2 fr.sn d hin
  | none =>
    simp only [reconstruct, hre]
    refine ⟨hr.cacheInLog, hr.cacheSorted, (by intro h; cases h), ?_, ?_⟩
    · intro q hq c hc
      cases hq
      rw [hhrc1]; exact hr.bound p hp c hc
    · intro q hq
      cases hq
      exact hbuf1

theorem onFrag_ok {log : List Change} {f : Nat} {r : Reader} (hl : LogOK log f) (hr : ReaderOK log f r) (fr : Frag)
    (hfr : ∃ c, c ∈ log ∧ Genuine c f fr) : ReaderOK log f (r.onFrag fr) := by
  unfold Reader.onFrag
  split
  · exact hr
  · rename_i p hp
    simp only
    apply onFrag_core hl hr fr p hp
    · split <;> split <;> first
        | exact (hr.buf p hp).push fr hfr
        | exact hr.buf p hp
    · split <;> split <;> rfl

theorem irrelevantRange_le (p : WProxy) (a b : Nat) : ProxyLe p (p.irrelevantRange a b) := by
  unfold WProxy.irrelevantRange
  split
  · rename_i h; exact ⟨List.Sublist.refl _, by simp only; omega⟩
  · exact ProxyLe.refl p

theorem irrelevant_le (cfg : Cfg) (p : WProxy) (a : Nat) : ProxyLe p (p.irrelevant cfg a) := by
  unfold WProxy.irrelevant
  split
  · exact irrelevantRange_le p a a
  · split
    · rename_i h; exact ⟨List.Sublist.refl _, by simp only; omega⟩
    · exact ProxyLe.refl p

theorem foldl_irrelevant_le (cfg : Cfg) (l : List Nat) (p : WProxy) : ProxyLe p (l.foldl (WProxy.irrelevant cfg) p) := by
  induction l generalizing p with
  | nil => exact ProxyLe.refl p
  | cons x xs ih => exact (irrelevant_le cfg p x).trans (ih _)

theorem onGap_ok {log : List Change} {f : Nat} {r : Reader} (hr : ReaderOK log f r) (cfg : Cfg) (start base : Nat)
    (set : List Nat) : ReaderOK log f (r.onGap cfg start base set) := by
  unfold Reader.onGap
  split
  · exact hr
  · rename_i p hp
    apply hr.setProxy p _ hp
    refine ProxyLe.trans ?_ (foldl_irrelevant_le cfg set _)
    split
    · split
      · exact irrelevantRange_le p _ _
      · exact ProxyLe.refl p
    · split
      · exact foldl_irrelevant_le cfg _ p
      · exact ProxyLe.refl p

/-- datagrams of the reader carry no DATA / DATA_FRAG -/
def Harmless (d : Dgram) : Prop := ∀ s, s ∈ d.subs → (s = .dst ∨ (∃ a b c e, s = .acknack a b c e) ∨ (∃ a b c e, s = .nackfrag a b c e))

theorem harmless_genuine {log : List Change} {f : Nat} {out : List Dgram} (h : ∀ d, d ∈ out → Harmless d) :
    DgramsGenuine log f out := by
  intro d hd s hs
  rcases h d hd s hs with rfl | ⟨a, b, c, e, rfl⟩ | ⟨a, b, c, e, rfl⟩ <;> trivial

theorem prepareAck_le (cfg : Cfg) (p : WProxy) : ProxyLe p (p.prepareAck cfg) := by
  unfold WProxy.prepareAck
  simp only
  split
  · exact ⟨List.filter_sublist, Nat.le_refl _⟩
  · exact ProxyLe.refl p

theorem ackDgram_ok (cfg : Cfg) (p p' : WProxy) (out : List Dgram) (h : p.ackDgram cfg = .ok (p', out)) :
    ProxyLe p p' ∧ ∀ d, d ∈ out → Harmless d := by
  unfold WProxy.ackDgram at h
  simp only at h
  have hsingle : ∀ (subs : List Sub), (∀ s, s ∈ subs → (s = .dst ∨ (∃ a b c e, s = .acknack a b c e) ∨ (∃ a b c e, s = .nackfrag a b c e))) →
      ∀ d, d ∈ [mkR subs] → Harmless d := by
    intro subs hs d hd
    simp only [List.mem_singleton] at hd
    subst hd
    exact hs
  split at h
  · injection h with h; injection h with h1 h2; subst h1; subst h2
    refine ⟨ProxyLe.refl _, hsingle _ ?_⟩
    intro s hs
    simp only [List.mem_cons, List.not_mem_nil, or_false] at hs
    rcases hs with rfl | rfl
    · exact Or.inl rfl
    · exact Or.inr (Or.inl ⟨_, _, _, _, rfl⟩)
  · split at h
    · cases h
    · split at h
      · cases h
      · split at h
        · injection h with h; injection h with h1 h2; subst h1; subst h2
          refine ⟨⟨List.Sublist.refl _, Nat.le_refl _⟩, hsingle _ ?_⟩
          intro s hs
          simp only [List.mem_cons, List.not_mem_nil, or_false] at hs
          rcases hs with rfl | rfl | rfl
          · exact Or.inl rfl
          · exact Or.inr (Or.inl ⟨_, _, _, _, rfl⟩)
          · exact Or.inr (Or.inr ⟨_, _, _, _, rfl⟩)
        · split at h
          · injection h with h; injection h with h1 h2; subst h1; subst h2
            refine ⟨ProxyLe.refl _, hsingle _ ?_⟩
            intro s hs
            simp only [List.mem_cons, List.not_mem_nil, or_false] at hs
            rcases hs with rfl | rfl | rfl
            · exact Or.inl rfl
            · exact Or.inr (Or.inl ⟨_, _, _, _, rfl⟩)
            · exact Or.inr (Or.inr ⟨_, _, _, _, rfl⟩)
          · cases h

theorem proxy_writeMessage_ok (cfg : Cfg) (p p' : WProxy) (out : List Dgram) (h : p.writeMessage cfg = .ok (p', out)) :
    ProxyLe p p' ∧ ∀ d, d ∈ out → Harmless d := by
  unfold WProxy.writeMessage at h
  split at h
  · obtain ⟨h1, h2⟩ := ackDgram_ok cfg _ p' out h
    exact ⟨(prepareAck_le cfg p).trans h1, h2⟩
  · injection h with h; injection h with h1 h2; subst h1; subst h2
    exact ⟨ProxyLe.refl _, by intro d hd; cases hd⟩

theorem onHb_ok {log : List Change} {f : Nat} {r r' : Reader} (hr : ReaderOK log f r) (cfg : Cfg) (first last count : Nat)
    (fin lv : Bool) (out : List Dgram) (h : r.onHb cfg first last count fin lv = .ok (r', out)) :
    ReaderOK log f r' ∧ ∀ d, d ∈ out → Harmless d := by
  unfold Reader.onHb at h
  split at h
  · injection h with h; injection h with h1 h2; subst h1; subst h2
    exact ⟨hr, by intro d hd; cases hd⟩
  · rename_i p hp
    split at h
    · simp only at h
      split at h
      · rename_i p2 out2 hw
        injection h with h; injection h with h1 h2; subst h1; subst h2
        obtain ⟨hle, hh⟩ := proxy_writeMessage_ok cfg _ p2 _ hw
        refine ⟨hr.setProxy p p2 hp ?_, hh⟩
        exact ProxyLe.trans ⟨List.Sublist.refl _, Nat.le_refl _⟩ hle
      · cases h
    · injection h with h; injection h with h1 h2; subst h1; subst h2
      exact ⟨hr, by intro d hd; cases hd⟩

theorem onSub_ok {log : List Change} {f : Nat} {r r' : Reader} (hl : LogOK log f) (hr : ReaderOK log f r) (cfg : Cfg)
    (s : Sub) (hs : SubGenuine log f s) (out : List Dgram) (h : r.onSub cfg s = .ok (r', out)) :
    ReaderOK log f r' ∧ ∀ d, d ∈ out → Harmless d := by
  cases s
  case hb a b c e g => exact onHb_ok hr cfg a b c e g out h
  case data sn p =>
    simp only [Reader.onSub] at h
    injection h with h; injection h with h1 h2; subst h1; subst h2
    exact ⟨onData_ok hr sn p hs, by intro d hd; cases hd⟩
  case frag fr =>
    simp only [Reader.onSub] at h
    injection h with h; injection h with h1 h2; subst h1; subst h2
    exact ⟨onFrag_ok hl hr fr hs, by intro d hd; cases hd⟩
  case gap a b c =>
    simp only [Reader.onSub] at h
    injection h with h; injection h with h1 h2; subst h1; subst h2
    exact ⟨onGap_ok hr cfg a b c, by intro d hd; cases hd⟩
  all_goals
    simp only [Reader.onSub] at h
    injection h with h; injection h with h1 h2; subst h1; subst h2
    exact ⟨hr, by intro d hd; cases hd⟩

theorem onSubs_ok {log : List Change} {f : Nat} (hl : LogOK log f) (cfg : Cfg) (subs : List Sub) (r r' : Reader)
    (hr : ReaderOK log f r) (hs : ∀ s, s ∈ subs → SubGenuine log f s) (out : List Dgram)
    (h : r.onSubs cfg subs = .ok (r', out)) : ReaderOK log f r' ∧ ∀ d, d ∈ out → Harmless d := by
  induction subs generalizing r out with
  | nil =>
    simp only [Reader.onSubs] at h
    injection h with h; injection h with h1 h2; subst h1; subst h2
    exact ⟨hr, by intro d hd; cases hd⟩
  | cons s rest ih =>
    simp only [Reader.onSubs] at h
    split at h
    · cases h
    · rename_i r1 o1 h1
      split at h
      · cases h
      · rename_i r2 o2 h2
        injection h with h; injection h with ha hb; subst ha; subst hb
        obtain ⟨hr1, ho1⟩ := onSub_ok hl hr cfg s (hs s (List.mem_cons_self ..)) o1 h1
        obtain ⟨hr2, ho2⟩ := ih r1 hr1 (fun x hx => hs x (List.mem_cons_of_mem _ hx)) o2 h2
        refine ⟨hr2, ?_⟩
        intro d hd
        rcases List.mem_append.mp hd with hd | hd
        · exact ho1 d hd
        · exact ho2 d hd

/-! ### the reader's reliability kind never changes -/

theorem onData_reliable (r : Reader) (sn : Nat) (p : Payload) : (r.onData sn p).reliable = r.reliable := by
  unfold Reader.onData
  split
  · rfl
  · simp only
    split
    · split <;> rfl
    · split
      · rfl
      · rfl

theorem onFrag_reliable (r : Reader) (fr : Frag) : (r.onFrag fr).reliable = r.reliable := by
  unfold Reader.onFrag
  split
  · rfl
  · simp only
    split
    · rw [onData_reliable]
    · rfl

theorem onSub_reliable (cfg : Cfg) (r r' : Reader) (s : Sub) (out : List Dgram) (h : r.onSub cfg s = .ok (r', out)) :
    r'.reliable = r.reliable := by
  cases s
  case data sn p =>
    simp only [Reader.onSub] at h
    injection h with h; injection h with h1 _; subst h1; exact onData_reliable r sn p
  case frag fr =>
    simp only [Reader.onSub] at h
    injection h with h; injection h with h1 _; subst h1; exact onFrag_reliable r fr
  case gap a b c =>
    simp only [Reader.onSub] at h
    injection h with h; injection h with h1 _; subst h1
    unfold Reader.onGap; split <;> rfl
  case hb a b c d e =>
    simp only [Reader.onSub] at h
    unfold Reader.onHb at h
    split at h
    · injection h with h; injection h with h1 _; subst h1; rfl
    · split at h
      · simp only at h
        split at h
        · injection h with h; injection h with h1 _; subst h1; rfl
        · cases h
      · injection h with h; injection h with h1 _; subst h1; rfl
  all_goals
    simp only [Reader.onSub] at h
    injection h with h; injection h with h1 _; subst h1; rfl

theorem onSubs_reliable (cfg : Cfg) (r r' : Reader) (subs : List Sub) (out : List Dgram)
    (h : r.onSubs cfg subs = .ok (r', out)) : r'.reliable = r.reliable := by
  induction subs generalizing r out with
  | nil => simp only [Reader.onSubs] at h; injection h with h; injection h with h1 _; subst h1; rfl
  | cons s rest ih =>
    simp only [Reader.onSubs] at h
    split at h
    · cases h
    · rename_i r1 o1 h1
      split at h
      · cases h
      · rename_i r2 o2 h2
        injection h with h; injection h with ha _; subst ha
        rw [ih r1 o2 h2, onSub_reliable cfg r r1 s o1 h1]

end DustVerif.Rtps
