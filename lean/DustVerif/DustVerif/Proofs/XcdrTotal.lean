import DustVerif.Model.XcdrWF
/-! Totality of the XCDR decoder model: with the repairs D12, D13, D66 no input makes `de` panic, and every
    reader state stays inside the input (`rem.length ≤ B`). -/
namespace DustVerif.Xcdr

mutual
  /-- types of the modelled subset the decoder supports without `todo!()` / `panic!`:
      no collection of collections, enum holders INT8/16/32, array bounds within the allocation limit -/
  def wfTy : Ty → Bool
    | .prim _ => true
    | .str => true
    | .enum h _ _ => holderOk h
    | .wstr => true
    | .seq el => el.elemOk && wfTy el
    | .arr el n => el.elemOk && wfTy el && decide (n * 96 ≤ ALLOC_LIMIT)
    | .struct _ ms => wfMs ms
    | .union _ _ bs => wfBsTy bs
  def wfBsTy : Bs → Bool
    | .nil => true
    | .cons _ _ _ t r => wfTy t && wfBsTy r
  def wfMs : Ms → Bool
    | .nil => true
    | .cons _ _ _ t r => wfTy t && wfMs r
end

/-- the result is not a panic and its reader state holds at most `B` bytes -/
def Bnd {α : Type} (B : Nat) : Res α → Prop
  | .ok _ s => s.rem.length ≤ B
  | .err _ s => s.rem.length ≤ B
  | .panic _ => False

theorem Bnd.bind {α β : Type} {B : Nat} {r : Res α} {f : α → St → Res β} (hr : Bnd B r)
    (hf : ∀ a s, s.rem.length ≤ B → Bnd B (f a s)) : Bnd B (r.bind f) := by
  cases r with
  | ok a s => exact hf a s hr
  | err e s => exact hr
  | panic k => exact hr

theorem Bnd.map {α β : Type} {B : Nat} {r : Res α} (f : α → β) (hr : Bnd B r) : Bnd B (r.map f) := by
  cases r <;> exact hr

theorem Bnd.restore {α : Type} {B : Nat} {r : Res α} {s0 : St} (hr : Bnd B r) (h0 : s0.rem.length ≤ B) :
    Bnd B (r.restore s0) := by
  cases r with
  | ok a s => exact h0
  | err e s => exact h0
  | panic k => exact hr

theorem rSeek_bnd {B : Nat} (n : Nat) (s : St) (h : s.rem.length ≤ B) : Bnd B (rSeek n s) := by
  unfold rSeek
  split
  · simp only [Bnd, List.length_drop]; omega
  · exact h

theorem rBytes_bnd {B : Nat} (n : Nat) (s : St) (h : s.rem.length ≤ B) : Bnd B (rBytes n s) := by
  unfold rBytes
  split
  · simp only [Bnd, List.length_drop]; omega
  · exact h

theorem rAlign_bnd {B : Nat} (ver : Ver) (a : Nat) (s : St) (h : s.rem.length ≤ B) : Bnd B (rAlign ver a s) :=
  rSeek_bnd _ s h

theorem dPrim_bnd {B : Nat} (ver : Ver) (e : Endian) (p : Prim) (s : St) (h : s.rem.length ≤ B) :
    Bnd B (dPrim ver e p s) := by
  unfold dPrim
  refine (rAlign_bnd ver _ s h).bind fun _ s1 h1 => (rBytes_bnd _ s1 h1).bind fun bs s2 h2 => ?_
  simp only []
  split <;> exact h2

theorem dStr_bnd {B : Nat} (ver : Ver) (e : Endian) (s : St) (h : s.rem.length ≤ B) : Bnd B (dStr ver e s) := by
  unfold dStr
  refine (dPrim_bnd ver e _ s h).bind fun _ s1 h1 => (rBytes_bnd _ s1 h1).bind fun _ s2 h2 =>
    (rBytes_bnd _ s2 h2).bind fun _ s3 h3 => ?_
  split <;> exact h3

theorem dUnits_bnd {B : Nat} (ver : Ver) (e : Endian) : ∀ (n : Nat) (s : St), s.rem.length ≤ B → Bnd B (dUnits ver e n s)
  | 0, s, h => h
  | n + 1, s, h => by
    simp only [dUnits]
    exact (dPrim_bnd ver e _ s h).bind fun _ s1 h1 => (dUnits_bnd ver e n s1 h1).bind fun _ s2 h2 => h2

theorem dWStr_bnd {B : Nat} (ver : Ver) (e : Endian) (s : St) (h : s.rem.length ≤ B) : Bnd B (dWStr ver e s) := by
  unfold dWStr
  refine (dPrim_bnd ver e _ s h).bind fun len s1 h1 => ?_
  split
  · exact h1
  · refine (dUnits_bnd ver e _ s1 h1).bind fun _ s2 h2 => (dPrim_bnd ver e _ s2 h2).bind fun _ s3 h3 => ?_
    split
    · exact h3
    · split <;> exact h3

theorem dEnum_bnd {B : Nat} (ver : Ver) (e : Endian) (hd : Prim) (ls : List Int) (hh : holderOk hd = true)
    (s : St) (h : s.rem.length ≤ B) : Bnd B (dEnum ver e hd ls s) := by
  unfold dEnum
  have hh' : (hd == Prim.i8 || hd == Prim.i16 || hd == Prim.i32) = true := hh
  simp only [hh', if_true]
  refine (dPrim_bnd ver e _ s h).bind fun _ s1 h1 => ?_
  split <;> exact h1

/-- the element loop: the vector never grows beyond `M` elements of capacity -/
theorem dList_bnd {B : Nat} (sz : Nat) (f : St → Res Val) (hf : ∀ s, s.rem.length ≤ B → Bnd B (f s))
    (M : Nat) (hM : M * sz ≤ ALLOC_LIMIT) (hM8 : 8 ≤ M) :
    ∀ (n len cap : Nat) (s : St), s.rem.length ≤ B → len ≤ cap → cap ≤ M → 2 * (len + n) ≤ M →
      Bnd B (dList sz f n len cap s)
  | 0, _, _, s, h, _, _, _ => by simpa [dList, Bnd] using h
  | n + 1, len, cap, s, h, hlc, hcM, h2 => by
    simp only [dList]
    refine (hf s h).bind fun v s1 h1 => ?_
    have hg : growCap sz len cap ≤ M ∧ len + 1 ≤ growCap sz len cap := by
      unfold growCap
      split
      · rename_i heq
        have : len = cap := by simpa using heq
        subst this
        constructor
        · split <;> omega
        · split <;> omega
      · rename_i hne
        have : len ≠ cap := by simpa using hne
        constructor <;> omega
    have hmul : growCap sz len cap * sz ≤ ALLOC_LIMIT := Nat.le_trans (Nat.mul_le_mul_right _ hg.1) hM
    simp only [hmul, if_true]
    refine (dList_bnd sz f hf M hM hM8 n (len + 1) _ s1 h1 hg.2 hg.1 (by omega)).bind fun vs s2 h2' => ?_
    exact h2'

theorem dVec_bnd {B : Nat} (cfg : Cfg) (h13 : cfg.d13 = true) (sz : Nat) (hsz : sz ≤ 48) (f : St → Res Val)
    (hf : ∀ s, s.rem.length ≤ B → Bnd B (f s)) (hB : B * 96 ≤ ALLOC_LIMIT)
    (len : Nat) (hlen : len * 96 ≤ ALLOC_LIMIT) (s : St) (h : s.rem.length ≤ B) :
    Bnd B (dVec cfg sz f len s) := by
  have hl8 : 8 * 96 ≤ ALLOC_LIMIT := by decide
  have hcap : initCap cfg len s ≤ len ∧ initCap cfg len s ≤ B := by
    simp only [initCap, h13, if_true]
    constructor
    · exact Nat.min_le_left _ _
    · exact Nat.le_trans (Nat.min_le_right _ _) h
  have h1 : initCap cfg len s * sz ≤ ALLOC_LIMIT := by
    have : initCap cfg len s * sz ≤ B * 96 := Nat.mul_le_mul hcap.2 (by omega)
    omega
  simp only [dVec, h1, if_true]
  apply Bnd.map
  have hM : (max (2 * len) 8) * sz ≤ ALLOC_LIMIT := by
    have h2 : (max (2 * len) 8) * sz ≤ (max (2 * len) 8) * 48 := Nat.mul_le_mul_left _ hsz
    have h3 : max (2 * len) 8 * 48 ≤ ALLOC_LIMIT := by
      rcases Nat.le_total (2 * len) 8 with h | h
      · rw [Nat.max_eq_right h]; omega
      · rw [Nat.max_eq_left h]; omega
    omega
  exact dList_bnd sz f hf (max (2 * len) 8) hM (Nat.le_max_right _ _) len 0 _ s h (Nat.zero_le _)
    (Nat.le_trans hcap.1 (Nat.le_trans (by omega) (Nat.le_max_left _ _))) (by
      have := Nat.le_max_left (2 * len) 8; omega)

theorem Prim.memSize_le' (p : Prim) : p.memSize ≤ 48 := by cases p <;> simp [Prim.memSize, Prim.size]

theorem dElems_bnd {B : Nat} (cfg : Cfg) (h13 : cfg.d13 = true) (ver : Ver) (e : Endian) (el : Ty)
    (hel : el.elemOk = true) (f : St → Res Val) (hf : ∀ s, s.rem.length ≤ B → Bnd B (f s))
    (hB : B * 96 ≤ ALLOC_LIMIT) (len : Nat) (hlen : len * 96 ≤ ALLOC_LIMIT) (s : St) (h : s.rem.length ≤ B) :
    Bnd B (dElems cfg ver e el f len s) := by
  cases el with
  | prim p =>
    cases p
    case byte => exact (rBytes_bnd len s h).map _
    case u8 => exact (rBytes_bnd len s h).map _
    all_goals exact dVec_bnd cfg h13 _ (Prim.memSize_le' _) f hf hB len hlen s h
  | str => exact dVec_bnd cfg h13 _ (by omega) f hf hB len hlen s h
  | enum _ _ _ => exact dVec_bnd cfg h13 _ (by omega) f hf hB len hlen s h
  | wstr => exact dVec_bnd cfg h13 _ (by omega) f hf hB len hlen s h
  | struct _ _ => exact dVec_bnd cfg h13 _ (by omega) f hf hB len hlen s h
  | union _ _ _ => exact dVec_bnd cfg h13 _ (by omega) f hf hB len hlen s h
  | seq _ => simp [Ty.elemOk] at hel
  | arr _ _ => simp [Ty.elemOk] at hel

theorem dSeqLen_bnd {B : Nat} (cfg : Cfg) (ver : Ver) (e : Endian) (s : St) (h : s.rem.length ≤ B) :
    Bnd B (dSeqLen cfg ver e s) := by
  unfold dSeqLen
  refine (dPrim_bnd ver e .u32 s h).bind fun len s1 h1 => ?_
  split <;> exact h1

theorem dSeqLen_le {B : Nat} (cfg : Cfg) (h66 : cfg.d66 = true) (ver : Ver) (e : Endian) (s : St)
    (len : Nat) (s1 : St) (h : dSeqLen cfg ver e s = .ok len s1) (hs1 : s1.rem.length ≤ B) : len ≤ B := by
  unfold dSeqLen at h
  cases hd : dPrim ver e .u32 s with
  | ok n s' =>
    rw [hd] at h
    simp only [Res.bind, h66, Bool.true_and] at h
    by_cases hc : n > s'.rem.length
    · simp [hc] at h
    · simp only [hc, decide_false, Bool.false_eq_true, if_false] at h
      injection h with h1 h2
      subst h1; subst h2
      omega
  | err er s' => rw [hd] at h; simp [Res.bind] at h
  | panic k => rw [hd] at h; simp [Res.bind] at h

theorem dSeqBody_bnd {B : Nat} (cfg : Cfg) (h13 : cfg.d13 = true) (h66 : cfg.d66 = true) (ver : Ver) (e : Endian)
    (el : Ty) (hel : el.elemOk = true) (f : St → Res Val) (hf : ∀ s, s.rem.length ≤ B → Bnd B (f s))
    (hB : B * 96 ≤ ALLOC_LIMIT) (s : St) (h : s.rem.length ≤ B) : Bnd B (dSeqBody cfg ver e el f s) := by
  unfold dSeqBody
  have hl := dSeqLen_bnd (B := B) cfg ver e s h
  cases hd : dSeqLen cfg ver e s with
  | ok len s1 =>
    rw [hd] at hl
    have hlen := dSeqLen_le (B := B) cfg h66 ver e s len s1 hd hl
    simp only [Res.bind]
    exact dElems_bnd cfg h13 ver e el hel f hf hB len (by omega) s1 hl
  | err er s1 => rw [hd] at hl; exact hl
  | panic k => rw [hd] at hl; exact hl

theorem seekPid1_bnd {B : Nat} (e : Endian) : ∀ (fuel pid : Nat) (s : St), s.rem.length ≤ B →
    Bnd B (seekPid1 e fuel pid s)
  | 0, _, s, h => h
  | fuel + 1, pid, s, h => by
    simp only [seekPid1]
    refine (dPrim_bnd .v1 e _ s h).bind fun cur s1 h1 => (dPrim_bnd .v1 e _ s1 h1).bind fun len s2 h2 => ?_
    split
    · split <;> exact h2
    · split
      · exact h2
      · exact (rSeek_bnd _ s2 h2).bind fun _ s3 h3 => (rAlign_bnd _ _ s3 h3).bind fun _ s4 h4 =>
          seekPid1_bnd e fuel pid s4 h4

theorem lcLen_bnd {B : Nat} (cfg : Cfg) (h12 : cfg.d12 = true) (e : Endian) (lc : Nat) (s : St)
    (h : s.rem.length ≤ B) : Bnd B (lcLen cfg e lc s) := by
  unfold lcLen
  split; · exact h
  split; · exact h
  split; · exact h
  split; · exact h
  split; · exact dPrim_bnd .v2 e _ s h
  refine (dPrim_bnd .v2 e _ s h).bind fun n s1 h1 => ?_
  simp only [h12]
  split <;> (split <;> exact h1)

theorem seekPid2_bnd {B : Nat} (cfg : Cfg) (h12 : cfg.d12 = true) (e : Endian) : ∀ (fuel pid : Nat) (s : St),
    s.rem.length ≤ B → Bnd B (seekPid2 cfg e fuel pid s)
  | 0, _, s, h => h
  | fuel + 1, pid, s, h => by
    simp only [seekPid2]
    refine (dPrim_bnd .v2 e _ s h).bind fun em s1 h1 => ?_
    refine (lcLen_bnd cfg h12 e _ s1 h1).bind fun len s2 h2 => ?_
    split
    · split
      · exact h1
      · exact h2
    · exact (rSeek_bnd _ s2 h2).bind fun _ s3 h3 => (rAlign_bnd _ _ s3 h3).bind fun _ s4 h4 =>
        seekPid2_bnd cfg h12 e fuel pid s4 h4

theorem dMem1_bnd {B : Nat} (cfg : Cfg) (e : Endian) (f : St → Res Val) (hf : ∀ s, s.rem.length ≤ B → Bnd B (f s))
    (id : Nat) (s : St) (h : s.rem.length ≤ B) : Bnd B (dMem1 cfg e f id s) := by
  unfold dMem1
  refine (rAlign_bnd .v1 4 s h).bind fun _ s0 h0 => ?_
  have hs := seekPid1_bnd (B := B) e (s0.rem.length + 1) (id % 2 ^ 16) s0 h0
  cases hd : seekPid1 e (s0.rem.length + 1) (id % 2 ^ 16) s0 with
  | ok len s1 =>
    rw [hd] at hs
    simp only []
    split
    · split
      · split
        · refine (hf _ ?_).restore h0
          simp only [List.length_take]
          exact Nat.le_trans (Nat.min_le_right _ _) hs
        · exact h0
      · exact (hf s1 hs).restore h0
    · exact h0
  | err er s1 => exact h0
  | panic k => rw [hd] at hs; exact hs

theorem dMem2_bnd {B : Nat} (cfg : Cfg) (h12 : cfg.d12 = true) (e : Endian) (f : St → Res Val)
    (hf : ∀ s, s.rem.length ≤ B → Bnd B (f s)) (id : Nat) (s : St) (h : s.rem.length ≤ B) :
    Bnd B (dMem2 cfg e f id s) := by
  unfold dMem2
  refine (rAlign_bnd .v2 4 s h).bind fun _ s0 h0 => ?_
  have hs := seekPid2_bnd (B := B) cfg h12 e (s0.rem.length + 1) (id % 2 ^ 16) s0 h0
  cases hd : seekPid2 cfg e (s0.rem.length + 1) (id % 2 ^ 16) s0 with
  | ok len s1 => rw [hd] at hs; exact (hf s1 hs).restore h0
  | err er s1 => exact h0
  | panic k => rw [hd] at hs; exact hs

theorem dOpt1Fixed_bnd {B : Nat} (e : Endian) (f : St → Res Val) (hf : ∀ s, s.rem.length ≤ B → Bnd B (f s))
    (s : St) (h : s.rem.length ≤ B) : Bnd B (dOpt1Fixed e f s) := by
  unfold dOpt1Fixed
  refine (rAlign_bnd .v1 4 s h).bind fun _ s0 h0 => (dPrim_bnd .v1 e _ s0 h0).bind fun _ s1 h1 =>
    (dPrim_bnd .v1 e _ s1 h1).bind fun len s2 h2 => ?_
  split
  · have hsend : (s2.rem.drop len).length ≤ B := by simp only [List.length_drop]; omega
    simp only []
    split
    · refine (hf _ ?_).restore hsend
      simp only [List.length_take]
      exact Nat.le_trans (Nat.min_le_right _ _) h2
    · exact hsend
  · exact h2

theorem dDelimited_bnd {α : Type} {B : Nat} (ver : Ver) (e : Endian) (f : St → Res α)
    (hf : ∀ s, s.rem.length ≤ B → Bnd B (f s)) (s : St) (h : s.rem.length ≤ B) : Bnd B (dDelimited ver e f s) := by
  unfold dDelimited
  refine (dPrim_bnd ver e _ s h).bind fun dh s0 h0 => ?_
  split
  · refine (hf s0 h0).restore ?_
    simp only [List.length_drop]; omega
  · exact hf s0 h0

theorem dFMember_bnd {B : Nat} (cfg : Cfg) (ver : Ver) (e : Endian) (id : Nat) (opt : Bool) (g : St → Res Val)
    (hg : ∀ s, s.rem.length ≤ B → Bnd B (g s)) (s : St) (h : s.rem.length ≤ B) :
    Bnd B (dFMember cfg ver e id opt g s) := by
  unfold dFMember
  split
  · cases ver with
    | v1 =>
      simp only []
      split
      · exact dOpt1Fixed_bnd e g hg s h
      · exact dMem1_bnd cfg e g hg id s h
    | v2 =>
      simp only []
      refine (dPrim_bnd .v2 e _ s h).bind fun flag s1 h1 => ?_
      split
      · exact hg s1 h1
      · exact h1
  · exact hg s h

/-- the repairs the totality theorem needs -/
def Cfg.total (cfg : Cfg) : Bool := cfg.d12 && cfg.d13 && cfg.d66

mutual
theorem de_bnd {B : Nat} (cfg : Cfg) (hc : cfg.total = true) (ver : Ver) (e : Endian) (hB : B * 96 ≤ ALLOC_LIMIT) :
    (t : Ty) → wfTy t = true → ∀ s : St, s.rem.length ≤ B → Bnd B (de cfg ver e t s)
  | .prim p, _, s, h => by
    simp only [de]; exact (dPrim_bnd ver e p s h).map _
  | .str, _, s, h => by
    simp only [de]; exact dStr_bnd ver e s h
  | .enum hd ls _, hw, s, h => by
    simp only [wfTy] at hw
    simp only [de]; exact dEnum_bnd ver e hd ls hw s h
  | .wstr, _, s, h => by
    simp only [de]; exact dWStr_bnd ver e s h
  | .union app disc bs, hw, s, h => by
    simp only [wfTy] at hw
    have hU : ∀ s : St, s.rem.length ≤ B → Bnd B (dUnion ver e disc bs (fun d i s1 => deAt cfg ver e d bs i s1) s) := by
      intro s h
      unfold dUnion
      refine (dPrim_bnd ver e _ s h).bind fun d s1 h1 => ?_
      split
      · exact h1
      · split
        · exact deAt_bnd cfg hc ver e hB d bs hw _ s1 h1
        · exact h1
    simp only [de]
    split
    · exact dDelimited_bnd ver e _ hU s h
    · exact hU s h
  | .seq el, hw, s, h => by
    simp only [wfTy, Bool.and_eq_true] at hw
    simp only [Cfg.total, Bool.and_eq_true] at hc
    have hf := de_bnd cfg (by simp [Cfg.total, hc]) ver e hB el hw.2
    simp only [de]
    split
    · exact dSeqBody_bnd cfg hc.1.2 hc.2 ver e el hw.1 _ hf hB s h
    · exact (dPrim_bnd ver e _ s h).bind fun _ s0 h0 => dSeqBody_bnd cfg hc.1.2 hc.2 ver e el hw.1 _ hf hB s0 h0
  | .arr el n, hw, s, h => by
    simp only [wfTy, Bool.and_eq_true, decide_eq_true_eq] at hw
    simp only [Cfg.total, Bool.and_eq_true] at hc
    have hf := de_bnd cfg (by simp [Cfg.total, hc]) ver e hB el hw.1.2
    simp only [de]
    split
    · exact dElems_bnd cfg hc.1.2 ver e el hw.1.1 _ hf hB n hw.2 s h
    · exact (dPrim_bnd ver e _ s h).bind fun _ s0 h0 => dElems_bnd cfg hc.1.2 ver e el hw.1.1 _ hf hB n hw.2 s0 h0
  | .struct .final ms, hw, s, h => by
    simp only [wfTy] at hw
    simp only [de]; exact (deF_bnd cfg hc ver e hB false ms hw s h).map _
  | .struct .appendable ms, hw, s, h => by
    simp only [wfTy] at hw
    have hf := deF_bnd cfg hc ver e hB true ms hw
    cases ver with
    | v1 => simp only [de]; exact (hf s h).map _
    | v2 =>
      simp only [de]
      split
      · exact (dDelimited_bnd .v2 e _ hf s h).map _
      · have hp := dPrim_bnd (B := B) .v2 e .u32 s h
        cases hd : dPrim .v2 e .u32 s with
        | ok a s0 => rw [hd] at hp; exact (hf s0 hp).map _
        | err er s0 => rw [hd] at hp; exact (hf s0 hp).map _
        | panic k => rw [hd] at hp; exact hp
  | .struct .mutable ms, hw, s, h => by
    simp only [wfTy] at hw
    have hf := deM_bnd cfg hc ver e hB ms hw
    cases ver with
    | v1 =>
      simp only [de]
      exact (hf s h).bind fun fs s1 h1 => (seekPid1_bnd e _ 1 s1 h1).bind fun _ s2 h2 => h2
    | v2 =>
      simp only [de]
      split
      · exact (dDelimited_bnd .v2 e _ hf s h).map _
      · exact (dPrim_bnd .v2 e _ s h).bind fun _ s0 h0 => (hf s0 h0).map _
theorem deAt_bnd {B : Nat} (cfg : Cfg) (hc : cfg.total = true) (ver : Ver) (e : Endian) (hB : B * 96 ≤ ALLOC_LIMIT)
    (d : Nat) : (bs : Bs) → wfBsTy bs = true → ∀ (i : Nat) (s : St), s.rem.length ≤ B → Bnd B (deAt cfg ver e d bs i s)
  | .nil, _, _, s, h => by simpa [deAt, Bnd] using h
  | .cons id ls df t r, hw, 0, s, h => by
    simp only [wfBsTy, Bool.and_eq_true] at hw
    simp only [deAt]
    exact (de_bnd cfg hc ver e hB t hw.1 s h).map _
  | .cons id ls df t r, hw, n + 1, s, h => by
    simp only [wfBsTy, Bool.and_eq_true] at hw
    simp only [deAt]
    exact deAt_bnd cfg hc ver e hB d r hw.2 n s h
theorem deF_bnd {B : Nat} (cfg : Cfg) (hc : cfg.total = true) (ver : Ver) (e : Endian) (hB : B * 96 ≤ ALLOC_LIMIT)
    (app : Bool) : (ms : Ms) → wfMs ms = true → ∀ s : St, s.rem.length ≤ B → Bnd B (deF cfg ver e app ms s)
  | .nil, _, s, h => by simpa [deF, Bnd] using h
  | .cons id opt mu t r, hw, s, h => by
    simp only [wfMs, Bool.and_eq_true] at hw
    have hm := dFMember_bnd cfg ver e id opt _ (de_bnd cfg hc ver e hB t hw.1) s h
    simp only [deF]
    cases hd : dFMember cfg ver e id opt (de cfg ver e t) s with
    | ok v s1 =>
      rw [hd] at hm
      exact (deF_bnd cfg hc ver e hB app r hw.2 s1 hm).bind fun vs s2 h2 => h2
    | err er s1 =>
      rw [hd] at hm
      simp only []
      split <;> exact hm
    | panic k => rw [hd] at hm; exact hm
theorem deM_bnd {B : Nat} (cfg : Cfg) (hc : cfg.total = true) (ver : Ver) (e : Endian) (hB : B * 96 ≤ ALLOC_LIMIT) :
    (ms : Ms) → wfMs ms = true → ∀ s : St, s.rem.length ≤ B → Bnd B (deM cfg ver e ms s)
  | .nil, _, s, h => by simpa [deM, Bnd] using h
  | .cons id opt mu t r, hw, s, h => by
    simp only [wfMs, Bool.and_eq_true] at hw
    have hg := de_bnd cfg hc ver e hB t hw.1
    have h12 : cfg.d12 = true := by
      simp only [Cfg.total, Bool.and_eq_true] at hc; exact hc.1.1
    simp only [deM]
    cases ver with
    | v1 =>
      exact (dMem1_bnd cfg e _ hg id s h).bind fun v s1 h1 =>
        (deM_bnd cfg hc .v1 e hB r hw.2 s1 h1).bind fun vs s2 h2 => h2
    | v2 =>
      exact (dMem2_bnd cfg h12 e _ hg id s h).bind fun v s1 h1 =>
        (deM_bnd cfg hc .v2 e hB r hw.2 s1 h1).bind fun vs s2 h2 => h2
end

theorem deTop_bnd (cfg : Cfg) (hc : cfg.total = true) (t : Ty) (hw : wfTy t = true) (bytes : Bytes)
    (hB : bytes.length * 96 ≤ ALLOC_LIMIT) : Bnd bytes.length (deTop cfg t bytes) := by
  have hgo : ∀ ver e (s0 : St), s0.rem.length ≤ bytes.length → Bnd bytes.length (deTopGo cfg t ver e s0) := by
    intro ver e s0 h0
    cases t with
    | struct x ms => exact de_bnd cfg hc ver e hB _ hw s0 h0
    | _ => exact h0
  unfold deTop
  split
  · rename_i a b c d body
    have hb : body.length ≤ (a :: b :: c :: d :: body).length := by simp; omega
    split; · exact hb
    split; · exact hgo _ _ _ hb
    split; · exact hgo _ _ _ hb
    split; · exact hgo _ _ _ hb
    split; · exact hgo _ _ _ hb
    exact hb
  · simp [Bnd]

end DustVerif.Xcdr
