import DustVerif.Proofs.RtpsRel
/-! Soundness of acknowledgements (protocol part of C03): whatever a reliable reader acknowledges — and hence whatever
    `is_change_acknowledged` reports — was delivered or is gone. Builds on the no-skip invariant. -/
namespace DustVerif.Rtps

/-- every number below `b` was delivered or is gone -/
def AckOK (s : Sys) (b : Nat) : Prop := ∀ sn, 1 ≤ sn → sn < b → (∃ c, c ∈ s.r.cache ∧ c.sn = sn) ∨ s.Gone sn

/-- what one step may do to the quantities `AckOK` depends on -/
structure StepMono (s s' : Sys) : Prop where
  lastSn : s.lastSn ≤ s'.lastSn
  firstRel : s.w.firstRel ≤ s'.w.firstRel
  changes : ∀ x, x ≤ s.lastSn → (∀ c, c ∈ s.w.changes → c.sn ≠ x) → (∀ c, c ∈ s'.w.changes → c.sn ≠ x)
  cache : ∀ c, c ∈ s.r.cache → c ∈ s'.r.cache

theorem StepMono.refl (s : Sys) : StepMono s s := ⟨Nat.le_refl _, Nat.le_refl _, fun _ _ h => h, fun _ h => h⟩

theorem StepMono.gone {s s' : Sys} (h : StepMono s s') (sn : Nat) (hg : s.Gone sn) : s'.Gone sn :=
  hg.mono h.lastSn h.firstRel h.changes

theorem StepMono.ackOK {s s' : Sys} (h : StepMono s s') (b : Nat) (ha : AckOK s b) : AckOK s' b := by
  intro sn h1 h2
  rcases ha sn h1 h2 with ⟨c, hc, hcs⟩ | hg
  · exact Or.inl ⟨c, h.cache c hc, hcs⟩
  · exact Or.inr (h.gone sn hg)

/-! ### the delivered list only grows -/

theorem onData_cache (r : Reader) (sn : Nat) (p : Payload) : ∀ c, c ∈ r.cache → c ∈ (r.onData sn p).cache := by
  intro c hc
  unfold Reader.onData
  split
  · exact hc
  · simp only
    split
    · split
      · exact List.mem_append_left _ hc
      · exact hc
    · split
      · exact List.mem_append_left _ hc
      · exact hc

theorem onFrag_cache (r : Reader) (fr : Frag) : ∀ c, c ∈ r.cache → c ∈ (r.onFrag fr).cache := by
  intro c hc
  unfold Reader.onFrag
  split
  · exact hc
  · simp only
    split
    · exact onData_cache _ _ _ c hc
    · exact hc

theorem onSub_cache (cfg : Cfg) (r r' : Reader) (s : Sub) (out : List Dgram) (h : r.onSub cfg s = .ok (r', out)) :
    ∀ c, c ∈ r.cache → c ∈ r'.cache := by
  intro c hc
  cases s
  case data sn p =>
    simp only [Reader.onSub] at h
    injection h with h; injection h with h1 _; subst h1; exact onData_cache r sn p c hc
  case frag fr =>
    simp only [Reader.onSub] at h
    injection h with h; injection h with h1 _; subst h1; exact onFrag_cache r fr c hc
  case gap a b st =>
    simp only [Reader.onSub] at h
    injection h with h; injection h with h1 _; subst h1
    unfold Reader.onGap; split <;> exact hc
  case hb a b c' d e =>
    simp only [Reader.onSub] at h
    unfold Reader.onHb at h
    split at h
    · injection h with h; injection h with h1 _; subst h1; exact hc
    · split at h
      · simp only at h
        split at h
        · injection h with h; injection h with h1 _; subst h1; exact hc
        · cases h
      · injection h with h; injection h with h1 _; subst h1; exact hc
  all_goals
    simp only [Reader.onSub] at h
    injection h with h; injection h with h1 _; subst h1; exact hc

theorem onSubs_cache (cfg : Cfg) (r r' : Reader) (subs : List Sub) (out : List Dgram)
    (h : r.onSubs cfg subs = .ok (r', out)) : ∀ c, c ∈ r.cache → c ∈ r'.cache := by
  induction subs generalizing r out with
  | nil => simp only [Reader.onSubs] at h; injection h with h; injection h with h1 _; subst h1; exact fun _ hc => hc
  | cons s rest ih =>
    simp only [Reader.onSubs] at h
    split at h
    · cases h
    · rename_i r1 o1 h1
      split at h
      · cases h
      · rename_i r2 o2 h2
        injection h with h; injection h with ha _; subst ha
        exact fun c hc => ih r1 o2 h2 c (onSub_cache cfg r r1 s o1 h1 c hc)

theorem Writer.onSubs_firstRel (cfg : Cfg) (w : Writer) (now : Nat) (subs : List Sub) :
    (w.onSubs cfg now subs).1.firstRel = w.firstRel := by
  induction subs generalizing w with
  | nil => rfl
  | cons s rest ih =>
    simp only [Writer.onSubs]
    rw [ih, (Writer.onSub_firstRel cfg w now s).1]

theorem addMatchedWriter_cache (cfg : Cfg) (r : Reader) : (r.addMatchedWriter cfg).cache = r.cache := by
  unfold Reader.addMatchedWriter
  split
  · rfl
  · split <;> rfl

/-- every step only adds to the delivered list, to the publication count, to `first_relevant` and to the set of
    removed changes -/
theorem step_mono (cfg : Cfg) (hfix : cfg.fixD43 = true) (s s' : Sys) (st : Step) (out : List Dgram) (h : Inv2 s)
    (hs : s.step cfg st = .ok (s', out)) : StepMono s s' := by
  cases st with
  | doMatch =>
    simp only [Sys.step] at hs
    injection hs with hs; injection hs with e _; subst e
    have hc := addMatchedReader_same cfg s.w s.rel s.tl
    refine ⟨Nat.le_refl _, (addMatchedReader_rel cfg hfix s.w s.rel s.tl s.lastSn h.reqB).1, ?_, ?_⟩
    · simp only; rw [hc.1]; exact fun _ _ hx => hx
    · simp only; rw [addMatchedWriter_cache]; exact fun _ hx => hx
  | write p =>
    simp only [Sys.step] at hs
    injection hs with hs; injection hs with e _; subst e
    simp only [Writer.addChange]
    have hc := Writer.writeMessage_changes cfg { s.w with changes := s.w.changes ++ [⟨s.lastSn + 1, p⟩] } s.now
    have hf := Writer.writeMessage_firstRel cfg { s.w with changes := s.w.changes ++ [⟨s.lastSn + 1, p⟩] } s.now
    refine ⟨Nat.le_succ _, ?_, ?_, fun _ hx => hx⟩
    · simp only; rw [hf.1]; exact Nat.le_refl _
    · simp only; rw [hc.1]
      intro x hx hno c hcm
      rcases List.mem_append.mp hcm with hm | hm
      · exact hno c hm
      · simp only [List.mem_singleton] at hm; subst hm; simp only; omega
  | remove sn =>
    simp only [Sys.step] at hs
    injection hs with hs; injection hs with e _; subst e
    exact ⟨Nat.le_refl _, Nat.le_refl _, fun x _ hno c hcm => hno c (List.mem_filter.mp hcm).1, fun _ hx => hx⟩
  | tick ms =>
    simp only [Sys.step] at hs
    injection hs with hs; injection hs with e _; subst e
    have hc := Writer.writeMessage_changes cfg s.w (s.now + ms)
    have hf := Writer.writeMessage_firstRel cfg s.w (s.now + ms)
    refine ⟨Nat.le_refl _, ?_, ?_, fun _ hx => hx⟩
    · simp only; rw [hf.1]; exact Nat.le_refl _
    · simp only; rw [hc.1]; exact fun _ _ hx => hx
  | deliver i =>
    simp only [Sys.step] at hs
    split at hs
    · injection hs with hs; injection hs with e _; subst e; exact StepMono.refl s
    · unfold Sys.deliverAt at hs
      split at hs
      · injection hs with hs; injection hs with e _; subst e; exact StepMono.refl s
      · rename_i d hd
        simp only at hs
        split at hs
        · split at hs
          · cases hs
          · rename_i r' o hro
            injection hs with hs; injection hs with e _; subst e
            exact ⟨Nat.le_refl _, Nat.le_refl _, fun _ _ hx => hx, onSubs_cache cfg s.r r' d.subs o hro⟩
        · injection hs with hs; injection hs with e _; subst e
          have hc := Writer.onSubs_changes cfg s.w s.now d.subs
          refine ⟨Nat.le_refl _, ?_, ?_, fun _ hx => hx⟩
          · simp only; rw [Writer.onSubs_firstRel]; exact Nat.le_refl _
          · simp only; rw [hc.1]; exact fun _ _ hx => hx
  | drop i =>
    simp only [Sys.step] at hs
    split at hs
    · injection hs with hs; injection hs with e _; subst e; exact StepMono.refl s
    · injection hs with hs; injection hs with e _; subst e; exact ⟨Nat.le_refl _, Nat.le_refl _, fun _ _ hx => hx, fun _ hx => hx⟩
  | dup i =>
    simp only [Sys.step] at hs
    split at hs
    · injection hs with hs; injection hs with e _; subst e; exact StepMono.refl s
    · injection hs with hs; injection hs with e _; subst e; exact ⟨Nat.le_refl _, Nat.le_refl _, fun _ _ hx => hx, fun _ hx => hx⟩

/-! ### the base of an ACKNACK is `available_changes_max + 1` of the reader at that moment -/

theorem ackDgram_base (cfg : Cfg) (p p' : WProxy) (out : List Dgram) (h : p.ackDgram cfg = .ok (p', out)) :
    ∀ d, d ∈ out → ∀ base set count fin, Sub.acknack base set count fin ∈ d.subs → base = p.availMax + 1 := by
  unfold WProxy.ackDgram at h
  simp only at h
  intro d hd base set count fin hs
  split at h
  · injection h with h; injection h with _ h2; subst h2
    simp [mkR] at hd; subst hd; simp at hs; exact hs.1
  · split at h
    · cases h
    · split at h
      · cases h
      · split at h
        · injection h with h; injection h with _ h2; subst h2
          simp [mkR] at hd; subst hd; simp at hs; exact hs.1
        · split at h
          · injection h with h; injection h with _ h2; subst h2
            simp [mkR] at hd; subst hd; simp at hs; exact hs.1
          · cases h

theorem availMax_of_nums {p p' : WProxy} (h1 : p'.firstAvail = p.firstAvail) (h3 : p'.highestRecv = p.highestRecv) :
    p'.availMax = p.availMax := by
  unfold WProxy.availMax; rw [h1, h3]

/-- an ACKNACK emitted while handling a submessage has base `available_changes_max + 1` of the resulting proxy -/
theorem onSub_ackbase (cfg : Cfg) (r r' : Reader) (s : Sub) (out : List Dgram) (h : r.onSub cfg s = .ok (r', out)) :
    ∀ d, d ∈ out → ∀ base set count fin, Sub.acknack base set count fin ∈ d.subs →
      ∃ p', r'.proxy = some p' ∧ base = p'.availMax + 1 := by
  intro d hd base set count fin hs
  cases s
  case hb a b c e g =>
    simp only [Reader.onSub] at h
    unfold Reader.onHb at h
    split at h
    · injection h with h; injection h with _ h2; subst h2; cases hd
    · rename_i p hp
      split at h
      · simp only at h
        split at h
        · rename_i p2 out2 hw
          injection h with h; injection h with h1 h2; subst h1; subst h2
          refine ⟨p2, rfl, ?_⟩
          unfold WProxy.writeMessage at hw
          split at hw
          · have hb := ackDgram_base cfg _ p2 _ hw d hd base set count fin hs
            have hn := (ackDgram_B cfg _ p2 _ (max ((WProxy.prepareAck cfg _).lastAvail) ((WProxy.prepareAck cfg _).highestRecv)) [] 0
              (Nat.le_max_left _ _) (Nat.le_max_right _ _) hw).1
            rw [hb, availMax_of_nums hn.1 hn.2.2]
          · injection hw with hw; injection hw with _ hw2; subst hw2; cases hd
        · cases h
      · injection h with h; injection h with _ h2; subst h2; cases hd
  all_goals
    simp only [Reader.onSub] at h
    injection h with h; injection h with _ h2; subst h2; cases hd

/-- all ACKNACKs emitted while a datagram is processed are covered by the final reader state -/
theorem onSubs_ack {G : Nat → Prop} {l : Nat} (hG : ∀ sn, G sn → sn ≤ l) (cfg : Cfg) (hfix : cfg.fixD2 = true)
    (subs : List Sub) (r r' : Reader) (hrel : r.reliable = true) (h : ReaderB G l r)
    (hs : ∀ s, s ∈ subs → SubForReader G l s) (out : List Dgram) (hres : r.onSubs cfg subs = .ok (r', out)) :
    ∀ d, d ∈ out → ∀ base set count fin, Sub.acknack base set count fin ∈ d.subs →
      ∀ sn, 1 ≤ sn → sn < base → (∃ c, c ∈ r'.cache ∧ c.sn = sn) ∨ G sn := by
  induction subs generalizing r out with
  | nil =>
    simp only [Reader.onSubs] at hres
    injection hres with hres; injection hres with _ h2; subst h2
    intro d hd; cases hd
  | cons s rest ih =>
    simp only [Reader.onSubs] at hres
    split at hres
    · cases hres
    · rename_i r1 o1 h1
      split at hres
      · cases hres
      · rename_i r2 o2 h2
        injection hres with hres; injection hres with ha hb; subst ha; subst hb
        obtain ⟨hr1, _⟩ := onSub_B hG cfg hfix h s (hs s (List.mem_cons_self ..)) o1 [] 0 h1
        have hrel1 : r1.reliable = true := by rw [onSub_reliable cfg r r1 s o1 h1]; exact hrel
        intro d hd base set count fin hsub sn hsn1 hsn2
        rcases List.mem_append.mp hd with hd | hd
        · obtain ⟨p1, hp1, hbase⟩ := onSub_ackbase cfg r r1 s o1 h1 d hd base set count fin hsub
          rcases (hr1 p1 hp1).2.2 hrel1 sn hsn1 (by omega) with ⟨c, hc, hcs⟩ | hg
          · exact Or.inl ⟨c, onSubs_cache cfg r1 r2 rest o2 h2 c hc, hcs⟩
          · exact Or.inr hg
        · exact ih r1 hrel1 hr1 (fun x hx => hs x (List.mem_cons_of_mem _ hx)) o2 h2 d hd base set count fin hsub sn hsn1 hsn2

/-! ### system invariant -/

structure Inv3 (s : Sys) : Prop where
  inv2 : Inv2 s
  relR : s.r.reliable = true
  netA : ∀ d, d ∈ s.net → d.toReader = false → ∀ base set count fin, Sub.acknack base set count fin ∈ d.subs → AckOK s base
  accA : ∀ p, s.w.proxy = some p → AckOK s (p.highestAcked + 1)

theorem inv3_init (tl : Bool) (f : Nat) (hf : 1 ≤ f) (hf16 : f < 65536) : Inv3 (Sys.init true tl f) := by
  refine ⟨inv2_init true tl f hf hf16, rfl, ?_, ?_⟩
  · intro d hd; simp [Sys.init] at hd
  · intro p hp; simp [Sys.init] at hp

theorem setSent_acked (p : RProxy) (n : Nat) : (p.setSent n).highestAcked = p.highestAcked := by
  unfold RProxy.setSent; split <;> rfl

theorem relUnsentLoop_acked (cfg : Cfg) (cs : List Change) (f now : Nat) (fuel : Nat) (p : RProxy) (acc : List Dgram) :
    (relUnsentLoop cfg cs f now fuel p acc).1.highestAcked = p.highestAcked := by
  induction fuel generalizing p acc with
  | zero => rfl
  | succ fuel ih =>
    unfold relUnsentLoop
    split
    · rfl
    · split
      · simp only
        split
        · rw [ih, setSent_acked]; rfl
        · rw [ih, setSent_acked]; rfl
      · split
        · simp only
          split
          · rw [ih, setSent_acked]; rfl
          · rw [ih, setSent_acked]; rfl
        · rw [ih, setSent_acked]

theorem relRequestedLoop_acked (cs : List Change) (f now : Nat) (fuel : Nat) (p : RProxy) (acc : List Dgram) :
    (relRequestedLoop cs f now fuel p acc).1.highestAcked = p.highestAcked := by
  induction fuel generalizing p acc with
  | zero => rfl
  | succ fuel ih =>
    unfold relRequestedLoop
    split
    · rfl
    · simp only
      split
      · split
        · rw [ih]; rfl
        · rw [ih]; rfl
      · rw [ih]

theorem writeReliable_acked (cfg : Cfg) (cs : List Change) (f now : Nat) (p : RProxy) :
    (p.writeReliable cfg cs f now).1.highestAcked = p.highestAcked := by
  unfold RProxy.writeReliable
  simp only
  have h2 : (RProxy.relMiddle cs f now (p.relTop cfg cs f now).1).1.highestAcked = (p.relTop cfg cs f now).1.highestAcked := by
    unfold RProxy.relMiddle
    split
    · exact relRequestedLoop_acked cs f now _ _ _
    · rfl
  rw [h2]
  unfold RProxy.relTop
  split
  · exact relUnsentLoop_acked cfg cs f now _ p []
  · split
    · rfl
    · split <;> rfl

/-- the writer's `highest_acked_seq_num` after a datagram is covered if it was before and all ACKNACKs in it are -/
theorem Writer.onSub_acked (cfg : Cfg) (w : Writer) (now : Nat) (s : Sub) (P : Nat → Prop)
    (hmono : ∀ a b, a ≤ b → P b → P a)
    (hacc : ∀ p, w.proxy = some p → P (p.highestAcked + 1))
    (hs : ∀ base set count fin, s = Sub.acknack base set count fin → P base) :
    ∀ p, (w.onSub cfg now s).1.proxy = some p → P (p.highestAcked + 1) := by
  cases s
  case acknack b st c fin =>
    simp only [Writer.onSub]
    unfold Writer.onAcknack
    split
    · rename_i hn; intro p hp; rw [hn] at hp; cases hp
    · rename_i p0 hp0
      split
      · simp only
        intro q hq
        cases hq
        generalize hp2 : ({ (if b - 1 > p0.highestAcked then { p0 with highestAcked := b - 1 } else p0) with
            requested := st.foldl pushNew (if b - 1 > p0.highestAcked then { p0 with highestAcked := b - 1 } else p0).requested,
            lastAcknack := c } : RProxy) = p2
        have hacked : (p2.writeReliable cfg w.changes w.f now).1.highestAcked = p2.highestAcked := by
          exact writeReliable_acked cfg w.changes w.f now p2
        rw [hacked, ← hp2]
        simp only
        split
        · rename_i hgt
          have : b - 1 + 1 = b := by omega
          simp only; rw [this]; exact hs b st c fin rfl
        · exact hacc p0 hp0
      · intro q hq; rw [hp0] at hq; cases hq; exact hacc p0 hp0
  case nackfrag sn b st c =>
    simp only [Writer.onSub]
    unfold Writer.onNackFrag
    split
    · rename_i hn; intro p hp; rw [hn] at hp; cases hp
    · rename_i p0 hp0
      split
      · split
        · intro q hq; simp only at hq; cases hq; exact hacc p0 hp0
        · intro q hq; simp only at hq; cases hq; exact hacc p0 hp0
      · intro q hq; rw [hp0] at hq; cases hq; exact hacc p0 hp0
  all_goals exact hacc

theorem beLoop_acked (cfg : Cfg) (cs : List Change) (f : Nat) (fuel : Nat) (p : RProxy) (acc : List Dgram) :
    (beLoop cfg cs f fuel p acc).1.highestAcked = p.highestAcked := by
  induction fuel generalizing p acc with
  | zero => rfl
  | succ fuel ih =>
    unfold beLoop
    split
    · rfl
    · split
      · simp only
        split
        · rw [ih, setSent_acked]
        · rw [ih, setSent_acked]
      · split
        · split
          · rw [ih, setSent_acked]
          · rw [ih, setSent_acked]
        · rw [ih, setSent_acked]

theorem Writer.writeMessage_acked (cfg : Cfg) (w : Writer) (now : Nat) (P : Nat → Prop)
    (hacc : ∀ p, w.proxy = some p → P (p.highestAcked + 1)) :
    ∀ p, (w.writeMessage cfg now).1.proxy = some p → P (p.highestAcked + 1) := by
  unfold Writer.writeMessage
  split
  · exact hacc
  · rename_i p0 hp0
    intro q hq
    simp only at hq
    cases hq
    have : (p0.writeMessage cfg w.changes w.f now).1.highestAcked = p0.highestAcked := by
      unfold RProxy.writeMessage
      split
      · exact writeReliable_acked cfg w.changes w.f now p0
      · exact beLoop_acked cfg w.changes w.f _ p0 []
    rw [this]; exact hacc p0 hp0

theorem Writer.onSubs_acked (cfg : Cfg) (w : Writer) (now : Nat) (subs : List Sub) (P : Nat → Prop)
    (hmono : ∀ a b, a ≤ b → P b → P a)
    (hacc : ∀ p, w.proxy = some p → P (p.highestAcked + 1))
    (hs : ∀ base set count fin, Sub.acknack base set count fin ∈ subs → P base) :
    ∀ p, (w.onSubs cfg now subs).1.proxy = some p → P (p.highestAcked + 1) := by
  induction subs generalizing w with
  | nil => exact hacc
  | cons s rest ih =>
    simp only [Writer.onSubs]
    apply ih
    · exact Writer.onSub_acked cfg w now s P hmono hacc (fun b st c f e => hs b st c f (by rw [e]; exact List.mem_cons_self ..))
    · exact fun b st c f hm => hs b st c f (List.mem_cons_of_mem _ hm)

/-! ### everything the writer emits is addressed to the reader -/

def AllW (ds : List Dgram) : Prop := ∀ d, d ∈ ds → d.toReader = true

theorem AllW.nil : AllW [] := by intro d hd; cases hd
theorem AllW.append {a b : List Dgram} (ha : AllW a) (hb : AllW b) : AllW (a ++ b) := by
  intro d hd
  rcases List.mem_append.mp hd with h | h
  · exact ha d h
  · exact hb d h
theorem AllW.single (subs : List Sub) : AllW [mkW subs] := by
  intro d hd; simp only [List.mem_singleton] at hd; subst hd; rfl

theorem fragDgrams_allW (c : Change) (f n : Nat) : AllW (fragDgrams c f n) := by
  induction n with
  | zero => exact AllW.nil
  | succ k ih => unfold fragDgrams; exact ih.append (AllW.single _)

theorem fragDgramsHb_allW (c : Change) (f n : Nat) (hb : Sub) : AllW (fragDgramsHb c f n hb) := by
  unfold fragDgramsHb; exact (fragDgrams_allW c f _).append (AllW.single _)

theorem relUnsentLoop_allW (cfg : Cfg) (cs : List Change) (f now : Nat) (fuel : Nat) (p : RProxy) (acc : List Dgram)
    (hacc : AllW acc) : AllW (relUnsentLoop cfg cs f now fuel p acc).2 := by
  induction fuel generalizing p acc with
  | zero => exact hacc
  | succ fuel ih =>
    unfold relUnsentLoop
    split
    · exact hacc
    · split
      · simp only
        split
        · exact ih _ _ (hacc.append (AllW.single _))
        · exact ih _ _ (hacc.append (AllW.single _))
      · split
        · simp only
          split
          · exact ih _ _ (hacc.append (fragDgramsHb_allW _ _ _ _))
          · exact ih _ _ (hacc.append (AllW.single _))
        · exact ih _ _ (hacc.append (AllW.single _))

theorem relRequestedLoop_allW (cs : List Change) (f now : Nat) (fuel : Nat) (p : RProxy) (acc : List Dgram)
    (hacc : AllW acc) : AllW (relRequestedLoop cs f now fuel p acc).2 := by
  induction fuel generalizing p acc with
  | zero => exact hacc
  | succ fuel ih =>
    unfold relRequestedLoop
    split
    · exact hacc
    · simp only
      split
      · split
        · exact ih _ _ (hacc.append (AllW.single _))
        · exact ih _ _ (hacc.append (AllW.single _))
      · exact ih _ _ (hacc.append (AllW.single _))

theorem beLoop_allW (cfg : Cfg) (cs : List Change) (f : Nat) (fuel : Nat) (p : RProxy) (acc : List Dgram)
    (hacc : AllW acc) : AllW (beLoop cfg cs f fuel p acc).2 := by
  induction fuel generalizing p acc with
  | zero => exact hacc
  | succ fuel ih =>
    unfold beLoop
    split
    · exact hacc
    · split
      · simp only
        split
        · exact ih _ _ (hacc.append (AllW.single _))
        · exact ih _ _ (hacc.append (AllW.single _))
      · split
        · split
          · exact ih _ _ (hacc.append (fragDgrams_allW _ _ _))
          · exact ih _ _ (hacc.append (AllW.single _))
        · exact ih _ _ (hacc.append (AllW.single _))

theorem writeReliable_allW (cfg : Cfg) (cs : List Change) (f now : Nat) (p : RProxy) : AllW (p.writeReliable cfg cs f now).2 := by
  unfold RProxy.writeReliable
  apply AllW.append
  · unfold RProxy.relTop
    split
    · exact relUnsentLoop_allW cfg cs f now _ p [] AllW.nil
    · split
      · exact AllW.nil
      · split
        · exact AllW.single _
        · exact AllW.nil
  · unfold RProxy.relMiddle
    split
    · exact relRequestedLoop_allW cs f now _ _ [] AllW.nil
    · exact AllW.nil

theorem Writer.writeMessage_allW (cfg : Cfg) (w : Writer) (now : Nat) : AllW (w.writeMessage cfg now).2 := by
  unfold Writer.writeMessage
  split
  · exact AllW.nil
  · simp only
    unfold RProxy.writeMessage
    split
    · exact writeReliable_allW cfg _ _ _ _
    · exact beLoop_allW cfg _ _ _ _ [] AllW.nil

theorem nackFragAnswers_allW (cfg : Cfg) (c : Change) (f : Nat) (reqs : List Nat) : AllW (nackFragAnswers cfg c f reqs) := by
  induction reqs with
  | nil => exact AllW.nil
  | cons r rest ih =>
    unfold nackFragAnswers
    refine AllW.append ?_ ih
    unfold nackFragAnswer
    split
    · split
      · exact AllW.single _
      · exact AllW.nil
    · split
      · exact AllW.single _
      · exact AllW.nil

theorem Writer.onSubs_allW (cfg : Cfg) (w : Writer) (now : Nat) (subs : List Sub) : AllW (w.onSubs cfg now subs).2 := by
  induction subs generalizing w with
  | nil => exact AllW.nil
  | cons s rest ih =>
    simp only [Writer.onSubs]
    refine AllW.append ?_ (ih _)
    cases s
    case acknack b st c fin =>
      simp only [Writer.onSub]
      unfold Writer.onAcknack
      split
      · exact AllW.nil
      · split
        · exact writeReliable_allW cfg _ _ _ _
        · exact AllW.nil
    case nackfrag sn b st c =>
      simp only [Writer.onSub]
      unfold Writer.onNackFrag
      split
      · exact AllW.nil
      · split
        · split
          · exact nackFragAnswers_allW cfg _ _ _
          · exact AllW.single _
        · exact AllW.nil
    all_goals exact AllW.nil

theorem AckOK.anti {s : Sys} {a b : Nat} (h : a ≤ b) (hb : AckOK s b) : AckOK s a :=
  fun sn h1 h2 => hb sn h1 (by omega)

theorem inv3_step (cfg : Cfg) (hfix : cfg.fixD43 = true) (hfix2 : cfg.fixD2 = true) (s s' : Sys) (st : Step)
    (out : List Dgram) (hst : StepOK st) (h : Inv3 s) (hs : s.step cfg st = .ok (s', out)) : Inv3 s' := by
  have h2 : Inv2 s' := inv2_step cfg hfix hfix2 s s' st out hst h.inv2 hs
  have hm : StepMono s s' := step_mono cfg hfix s s' st out h.inv2 hs
  have hrel : s'.r.reliable = true := by rw [step_reliable cfg s s' st out hs]; exact h.relR
  have oldNet : ∀ d, d ∈ s.net → d.toReader = false → ∀ base set count fin,
      Sub.acknack base set count fin ∈ d.subs → AckOK s' base :=
    fun d hd ht b st' c f hsub => hm.ackOK b (h.netA d hd ht b st' c f hsub)
  refine ⟨h2, hrel, ?_, ?_⟩
  · -- in-flight ACKNACKs
    cases st with
    | doMatch =>
      simp only [Sys.step] at hs
      injection hs with hs; injection hs with e _; subst e
      exact oldNet
    | write p =>
      simp only [Sys.step] at hs
      injection hs with hs; injection hs with e _; subst e
      intro d hd ht
      rcases List.mem_append.mp hd with hd | hd
      · exact oldNet d hd ht
      · simp only [Writer.addChange] at hd
        have := Writer.writeMessage_allW cfg _ _ d hd
        rw [ht] at this; cases this
    | remove sn =>
      simp only [Sys.step] at hs
      injection hs with hs; injection hs with e _; subst e
      exact oldNet
    | tick ms =>
      simp only [Sys.step] at hs
      injection hs with hs; injection hs with e _; subst e
      intro d hd ht
      rcases List.mem_append.mp hd with hd | hd
      · exact oldNet d hd ht
      · have := Writer.writeMessage_allW cfg _ _ d hd
        rw [ht] at this; cases this
    | deliver i =>
      simp only [Sys.step] at hs
      split at hs
      · injection hs with hs; injection hs with e _; subst e; exact oldNet
      · unfold Sys.deliverAt at hs
        split at hs
        · injection hs with hs; injection hs with e _; subst e; exact oldNet
        · rename_i d0 hd0
          have hd0mem : d0 ∈ s.net := getElem?_mem' hd0
          simp only at hs
          split at hs
          · split at hs
            · cases hs
            · rename_i r' o hro
              injection hs with hs; injection hs with e _; subst e
              intro d hd ht
              rcases List.mem_append.mp hd with hd | hd
              · exact oldNet d ((List.eraseIdx_sublist ..).subset hd) ht
              · intro b st' c f hsub sn hsn1 hsn2
                have hsubs : ∀ sub, sub ∈ d0.subs → SubForReader s.Gone s.lastSn sub :=
                  fun sub hsub => subForReader_of h.inv2 sub (h.inv2.inv1.net d0 hd0mem sub hsub) (h.inv2.netT d0 hd0mem sub hsub)
                rcases onSubs_ack (fun sn hg => hg.1) cfg hfix2 d0.subs s.r r' h.relR h.inv2.rd hsubs o hro d hd b st' c f hsub
                  sn hsn1 hsn2 with hc | hg
                · exact Or.inl hc
                · exact Or.inr (hm.gone sn hg)
          · injection hs with hs; injection hs with e _; subst e
            intro d hd ht
            rcases List.mem_append.mp hd with hd | hd
            · exact oldNet d ((List.eraseIdx_sublist ..).subset hd) ht
            · have := Writer.onSubs_allW cfg _ _ _ d hd
              rw [ht] at this; cases this
    | drop i =>
      simp only [Sys.step] at hs
      split at hs
      · injection hs with hs; injection hs with e _; subst e; exact oldNet
      · injection hs with hs; injection hs with e _; subst e
        exact fun d hd => oldNet d ((List.eraseIdx_sublist ..).subset hd)
    | dup i =>
      simp only [Sys.step] at hs
      split at hs
      · injection hs with hs; injection hs with e _; subst e; exact oldNet
      · rename_i d0 hd0
        injection hs with hs; injection hs with e _; subst e
        intro d hd
        rcases List.mem_append.mp hd with hd | hd
        · exact oldNet d hd
        · simp only [List.mem_singleton] at hd; subst hd; exact oldNet _ (getElem?_mem' hd0)
  · -- the writer's highest_acked_seq_num
    have oldAcc : ∀ p, s.w.proxy = some p → AckOK s' (p.highestAcked + 1) := fun p hp => hm.ackOK _ (h.accA p hp)
    cases st with
    | doMatch =>
      simp only [Sys.step] at hs
      injection hs with hs; injection hs with e _; subst e
      intro p hp
      simp only [Writer.addMatchedReader] at hp
      split at hp
      · cases hp
        intro sn h1 h2
        simp [RProxy.new] at h2; omega
      · rw [if_pos hfix] at hp; exact oldAcc p hp
    | write p =>
      simp only [Sys.step] at hs
      injection hs with hs; injection hs with e _; subst e
      simp only [Writer.addChange]
      exact Writer.writeMessage_acked cfg _ _ _ oldAcc
    | remove sn =>
      simp only [Sys.step] at hs
      injection hs with hs; injection hs with e _; subst e
      exact oldAcc
    | tick ms =>
      simp only [Sys.step] at hs
      injection hs with hs; injection hs with e _; subst e
      exact Writer.writeMessage_acked cfg _ _ _ oldAcc
    | deliver i =>
      simp only [Sys.step] at hs
      split at hs
      · injection hs with hs; injection hs with e _; subst e; exact oldAcc
      · unfold Sys.deliverAt at hs
        split at hs
        · injection hs with hs; injection hs with e _; subst e; exact oldAcc
        · rename_i d0 hd0
          have hd0mem : d0 ∈ s.net := getElem?_mem' hd0
          simp only at hs
          split at hs
          · split at hs
            · cases hs
            · injection hs with hs; injection hs with e _; subst e; exact oldAcc
          · rename_i hto
            injection hs with hs; injection hs with e _; subst e
            have hto' : d0.toReader = false := by simpa using hto
            exact Writer.onSubs_acked cfg s.w s.now d0.subs _ (fun a b hab hb => AckOK.anti hab hb) oldAcc
              (fun b st' c f hsub => hm.ackOK b (h.netA d0 hd0mem hto' b st' c f hsub))
    | drop i =>
      simp only [Sys.step] at hs
      split at hs
      · injection hs with hs; injection hs with e _; subst e; exact oldAcc
      · injection hs with hs; injection hs with e _; subst e; exact oldAcc
    | dup i =>
      simp only [Sys.step] at hs
      split at hs
      · injection hs with hs; injection hs with e _; subst e; exact oldAcc
      · injection hs with hs; injection hs with e _; subst e; exact oldAcc

theorem inv3_run (cfg : Cfg) (hfix : cfg.fixD43 = true) (hfix2 : cfg.fixD2 = true) (steps : List Step) (s s' : Sys)
    (hsteps : ∀ st, st ∈ steps → StepOK st) (h : Inv3 s) (hr : Sys.run cfg s steps = .ok s') : Inv3 s' := by
  induction steps generalizing s with
  | nil => simp only [Sys.run] at hr; injection hr with hr; subst hr; exact h
  | cons st rest ih =>
    simp only [Sys.run] at hr
    split at hr
    · cases hr
    · rename_i s1 o1 h1
      exact ih s1 (fun x hx => hsteps x (List.mem_cons_of_mem _ hx))
        (inv3_step cfg hfix hfix2 s s1 st o1 (hsteps st (List.mem_cons_self ..)) h h1) hr

end DustVerif.Rtps
