import DustVerif.Model.Wire
/-! Primitive lemmas for the `wire` model: readers applied to encoder output, no-panic facts. -/
namespace DustVerif.Wire
open Outcome

/-! ### arithmetic cores -/
theorem u16of_enc (le : Bool) (x : Nat) (h : x < 65536) :
    (if le then u16of le (x % 256) (x / 256 % 256) else u16of le (x / 256 % 256) (x % 256)) = x := by
  cases le <;> simp [u16of] <;> omega

theorem u32_recompose (x : Nat) (h : x < 4294967296) :
    x % 256 + 256 * (x / 256 % 256) + 65536 * (x / 65536 % 256) + 16777216 * (x / 16777216 % 256) = x := by
  omega

theorem toI32_enc (c : Int) (h1 : -2147483648 ≤ c) (h2 : c ≤ 2147483647) :
    toI32 (c % 4294967296).toNat = c := by
  unfold toI32 P31
  split <;> omega

theorem toI16_enc (c : Int) (h1 : -32768 ≤ c) (h2 : c ≤ 32767) :
    toI16 (c % 65536).toNat = c := by
  unfold toI16
  split <;> omega

/-! ### readers on encoder output -/
@[simp] theorem readBytes_append (n : Nat) (a t : List Nat) (h : a.length = n) :
    readBytes n (a ++ t) = ok (a, t) := by
  subst h
  simp [readBytes]

theorem readU16_enc (le : Bool) (x : Nat) (t : List Nat) (h : x < 65536) :
    readU16 le (u16E le x ++ t) = ok (x, t) := by
  cases le <;> simp [u16E, readU16, u16of] <;> omega

theorem readU32_enc (le : Bool) (x : Nat) (t : List Nat) (h : x < 4294967296) :
    readU32 le (u32E le x ++ t) = ok (x, t) := by
  cases le <;> simp [u32E, readU32, u32of] <;> omega

theorem readI32_enc (le : Bool) (c : Int) (t : List Nat) (h1 : -2147483648 ≤ c) (h2 : c ≤ 2147483647) :
    readI32 le (i32E le c ++ t) = ok (c, t) := by
  have hlt : (c % 4294967296).toNat < 4294967296 := by omega
  simp [readI32, i32E, readU32_enc le _ t hlt, toI32_enc c h1 h2]

theorem readSN_enc (le : Bool) (sn : Int) (t : List Nat)
    (h1 : -9223372036854775808 ≤ sn) (h2 : sn ≤ 9223372036854775807) :
    readSN le (snE le sn ++ t) = ok (sn, t) := by
  have hh1 : -2147483648 ≤ sn / 4294967296 := by omega
  have hh2 : sn / 4294967296 ≤ 2147483647 := by omega
  have hlt : (sn % 4294967296).toNat < 4294967296 := by omega
  simp only [readSN, snE, List.append_assoc]
  rw [readI32_enc le _ _ hh1 hh2]
  simp only []
  rw [readU32_enc le _ _ hlt]
  simp only []
  congr 2
  omega

end DustVerif.Wire
