import DustVerif.Proofs.XcdrShift
/-! Size bound, positivity and position consistency of `ser` on well-formed values (sequential subset). -/
namespace DustVerif.Xcdr

def Facts (r : W) (pos bound : Nat) (sp : Bool) : Prop :=
  r.1.length ≤ bound ∧ (sp = true → 1 ≤ r.1.length) ∧ r.2 = pos + r.1.length

theorem Facts.le {r : W} {pos b b' : Nat} {sp : Bool} (h : Facts r pos b sp) (hb : b ≤ b') : Facts r pos b' sp :=
  ⟨Nat.le_trans h.1 hb, h.2.1, h.2.2⟩

theorem Facts.weaken {r : W} {pos b b' : Nat} {sp : Bool} (h : Facts r pos b true) (hb : b ≤ b') : Facts r pos b' sp :=
  ⟨Nat.le_trans h.1 hb, fun _ => h.2.1 rfl, h.2.2⟩

theorem wDh_facts (ver : Ver) (e : Endian) (body : Nat → W) (pos bound : Nat) (sp : Bool)
    (h : ∀ p, Facts (body p) p bound sp) : Facts (wDh ver e body pos) pos (bound + 7) true := by
  have hb := h (pos + wPad ver 4 pos + 4)
  have hp := wPad4_le ver pos
  simp only [Facts, wDh, List.length_append, zeros_length, encNat_length] at hb ⊢
  refine ⟨by omega, fun _ => by omega, by omega⟩

theorem optEnc_absent (g : Val → Nat → W) : optEnc .absent g = none := rfl
theorem optEnc_of_ne (f : Val) (g : Val → Nat → W) (h : f ≠ .absent) : optEnc f g = some (g f) := by
  cases f <;> simp_all [optEnc]

theorem primOk_bool0 : primOk .bool 0 = true := by decide
theorem primOk_bool1 : primOk .bool 1 = true := by decide

/-- facts of one member of a final / appendable structure -/
theorem wFMember_facts (cfg : Cfg) (ver : Ver) (e : Endian) (id : Nat) (opt mu : Bool) (f : Val) (g : Val → Nat → W)
    (pos m : Nat) (sp : Bool)
    (hpres : f ≠ .absent → ∀ p, Facts (g f p) p m sp)
    (habs : f = .absent → opt = true)
    (hv1 : opt = true → ver = .v1 → cfg.d61 = true) :
    Facts (wFMember cfg ver e id opt mu f g pos) pos (16 + m) (opt || sp) := by
  unfold wFMember
  cases opt with
  | false =>
    have hf : f ≠ .absent := fun h => by simpa using habs h
    simpa using (hpres hf pos).le (by omega)
  | true =>
    simp only [if_true, Bool.true_or]
    cases ver with
    | v1 =>
      have hd := hv1 rfl rfl
      have hp := wPad4_le .v1 pos
      by_cases hf : f = .absent
      · subst hf
        simp only [optEnc_absent, wMem1, hd, if_true, Facts, List.length_append, zeros_length, encNat_length,
          List.length_nil]
        refine ⟨by omega, fun _ => by omega, by omega⟩
      · have h0 := hpres hf 0
        simp only [optEnc_of_ne f g hf, wMem1, hd, if_true, Facts, List.length_append, zeros_length,
          encNat_length] at h0 ⊢
        refine ⟨by omega, fun _ => by omega, by omega⟩
    | v2 =>
      by_cases hf : f = .absent
      · subst hf
        have h1 := wPrim_len_le .v2 e .bool 0 pos primOk_bool0
        have h2 := wPrim_len_pos .v2 e .bool 0 pos primOk_bool0
        have h3 := wPrim_pos .v2 e .bool 0 pos
        simp only [optEnc_absent, wOpt2, Facts]
        refine ⟨by omega, fun _ => by omega, by omega⟩
      · have h1 := wPrim_len .v2 e .bool 1 pos primOk_bool1
        have h2 := wPad1 .v2 pos
        have h3 := wPrim_pos .v2 e .bool 1 pos
        have h0 := hpres hf (wPrim .v2 e .bool 1 pos).2
        simp only [Prim.size] at h1 h2
        simp only [optEnc_of_ne f g hf, wOpt2, Facts, List.length_append] at h0 ⊢
        refine ⟨by omega, fun _ => by omega, by omega⟩

mutual
theorem sumNat_const (c : Nat) : ∀ (l : List Val), sumNat (l.map fun _ => c) = c * l.length
  | [] => by simp [sumNat]
  | _ :: l => by simp only [List.map_cons, sumNat, sumNat_const c l, List.length_cons]; rw [Nat.mul_succ]; omega

theorem unitOk_primOk (v : Val) (h : unitOk v = true) : primOk .u16 v.unit = true := by
  cases v <;> simp_all [unitOk, Val.unit]

theorem wWStr_facts (ver : Ver) (e : Endian) (us : List Val) (hu : ∀ v ∈ us, unitOk v = true) (pos : Nat) :
    Facts (wWStr ver e us pos) pos (40 + 15 * us.length) true := by
  have h1 := wPrim_u32_len ver e ((us.length + 1) % 2 ^ 32) pos
  have h2 := wPad4_le ver pos
  have h3 := wPrim_pos ver e .u32 ((us.length + 1) % 2 ^ 32) pos
  have hb := wList_len_le (fun v p => wPrim ver e .u16 v.unit p) (fun _ => 15) us
    (fun v hv q => wPrim_len_le ver e .u16 v.unit q (unitOk_primOk v (hu v hv))) (wPrim ver e .u32 ((us.length + 1) % 2 ^ 32) pos).2
  rw [sumNat_const] at hb
  have hbp := wList_pos (fun v p => wPrim ver e .u16 v.unit p) us
    (fun v _ q => wPrim_pos ver e .u16 v.unit q) (wPrim ver e .u32 ((us.length + 1) % 2 ^ 32) pos).2
  have ht := wPrim_len_le ver e .u16 0 (wList (fun v p => wPrim ver e .u16 v.unit p) us
    (wPrim ver e .u32 ((us.length + 1) % 2 ^ 32) pos).2).2 (by decide)
  have htp := wPrim_pos ver e .u16 0 (wList (fun v p => wPrim ver e .u16 v.unit p) us
    (wPrim ver e .u32 ((us.length + 1) % 2 ^ 32) pos).2).2
  simp only [Facts, wWStr, List.length_append]
  refine ⟨by omega, fun _ => by omega, by omega⟩

theorem serFacts (cfg : Cfg) (ver : Ver) (e : Endian) : (t : Ty) → (v : Val) → wfVal cfg ver t v = true →
    ∀ pos, Facts (ser cfg ver e t v pos) pos (maxSize t v) (sizePos ver t)
  | .prim p, .num n, h, pos => by
    simp only [wfVal] at h
    have h1 := wPrim_len_le ver e p n pos h
    have h2 := wPrim_len_pos ver e p n pos h
    have h3 := wPrim_pos ver e p n pos
    simp only [Facts, ser, maxSize]
    refine ⟨by omega, fun _ => by omega, by omega⟩
  | .str, .str bs, h, pos => by
    have h1 := wPrim_u32_len ver e ((bs.length + 1) % 2 ^ 32) pos
    have h2 := wPad4_le ver pos
    have h3 := wPrim_pos ver e .u32 ((bs.length + 1) % 2 ^ 32) pos
    simp only [Facts, ser, wStr, maxSize, List.length_append, List.length_singleton]
    refine ⟨by omega, fun _ => by omega, by omega⟩
  | .wstr, .list us, h, pos => by
    simp only [wfVal, Bool.and_eq_true, List.all_eq_true] at h
    simp only [ser, maxSize, sizePos]
    exact wWStr_facts ver e us h.1 pos
  | .enum hd ls _, .num n, h, pos => by
    simp only [wfVal, Bool.and_eq_true, decide_eq_true_eq] at h
    have hp := enum_primOk hd n h.1.1 h.1.2
    have h1 := wPrim_len_le ver e hd n pos hp
    have h2 := wPrim_len_pos ver e hd n pos hp
    have h3 := wPrim_pos ver e hd n pos
    simp only [Facts, ser, maxSize]
    refine ⟨by omega, fun _ => by omega, by omega⟩
  | .seq el, .list vs, h, pos => by
    simp only [wfVal, Bool.and_eq_true, decide_eq_true_eq, List.all_eq_true] at h
    obtain ⟨⟨⟨_, _⟩, _⟩, hall⟩ := h
    have hbody : ∀ p, Facts (wSeqBody ver e (ser cfg ver e el) vs p) p (8 + sumNat (vs.map (maxSize el))) true := by
      intro p
      have h1 := wPrim_u32_len ver e (vs.length % 2 ^ 32) p
      have h2 := wPad4_le ver p
      have h3 := wPrim_pos ver e .u32 (vs.length % 2 ^ 32) p
      have h4 := wList_len_le (ser cfg ver e el) (maxSize el) vs
        (fun v hv q => (serFacts cfg ver e el v (hall v hv) q).1) (wPrim ver e .u32 (vs.length % 2 ^ 32) p).2
      have h5 := wList_pos (ser cfg ver e el) vs
        (fun v hv q => (serFacts cfg ver e el v (hall v hv) q).2.2) (wPrim ver e .u32 (vs.length % 2 ^ 32) p).2
      simp only [Facts, wSeqBody, List.length_append]
      refine ⟨by omega, fun _ => by omega, by omega⟩
    simp only [ser, maxSize, sizePos]
    split
    · exact (hbody pos).weaken (by omega)
    · exact (wDh_facts ver e _ pos _ true hbody).weaken (by omega)
  | .arr el n, .list vs, h, pos => by
    simp only [wfVal, Bool.and_eq_true, decide_eq_true_eq, List.all_eq_true, beq_iff_eq] at h
    obtain ⟨⟨⟨⟨_, hsp⟩, hn⟩, _⟩, hall⟩ := h
    have hbody : ∀ p, Facts (wList (ser cfg ver e el) vs p) p (sumNat (vs.map (maxSize el))) (sizePos ver (.arr el n)) := by
      intro p
      have h4 := wList_len_le (ser cfg ver e el) (maxSize el) vs
        (fun v hv q => (serFacts cfg ver e el v (hall v hv) q).1) p
      have h5 := wList_pos (ser cfg ver e el) vs
        (fun v hv q => (serFacts cfg ver e el v (hall v hv) q).2.2) p
      have h6 := wList_length_ge (ser cfg ver e el) vs
        (fun v hv q => (serFacts cfg ver e el v (hall v hv) q).2.1 hsp) p
      simp only [Facts, sizePos, Bool.and_eq_true, decide_eq_true_eq]
      refine ⟨h4, ?_, h5⟩
      intro hh
      omega
    simp only [ser, maxSize]
    split
    · exact (hbody pos).le (by omega)
    · exact (wDh_facts ver e _ pos _ _ hbody).weaken (by omega)
  | .struct .final ms, .struct fs, h, pos => by
    simp only [wfVal] at h
    simp only [ser, maxSize, sizePos]
    exact (serFFacts cfg ver e ms fs h pos).le (by omega)
  | .struct .appendable ms, .struct fs, h, pos => by
    simp only [wfVal] at h
    simp only [ser, maxSize, sizePos]
    split
    · rename_i hv
      have hv' : ver = .v1 := by simpa using hv
      subst hv'
      have := (serFFacts cfg .v1 e ms fs h pos).le (b' := 24 + maxSizeMs ms fs) (by omega)
      have hb : (Ver.v1 == Ver.v2 || firstPos Ver.v1 ms) = firstPos Ver.v1 ms := by
        have : (Ver.v1 == Ver.v2) = false := by decide
        simp [this]
      rw [hb]; exact this
    · exact (wDh_facts ver e _ pos _ _ (serFFacts cfg ver e ms fs h)).weaken (by omega)
  | .struct .mutable ms, .struct fs, h, pos => by
    cases ver with
    | v2 =>
      simp only [wfVal, Bool.and_eq_true, decide_eq_true_eq] at h
      obtain ⟨⟨_, _⟩, hm⟩ := h
      have hv : (Ver.v2 == Ver.v1) = false := by decide
      have hc := chunksFacts cfg .v2 e ms fs hm
      have hC2 : ∀ c ∈ sortChunks (chunks cfg .v2 e ms fs), C2 c := fun c hc' =>
        ⟨chunks_shift cfg e ms fs c ((mem_sortChunks c _).mp hc'), hc.2 c ((mem_sortChunks c _).mp hc')⟩
      have hbody : ∀ p, Facts (emit2 e (sortChunks (chunks cfg .v2 e ms fs)) p) p (maxSizeMs ms fs) false := by
        intro p
        have hf := emit2_facts e _ hC2 p
        rw [sum_sortChunks] at hf
        exact ⟨(by have := hc.1; omega), (fun hh => (by cases hh)), hf.1⟩
      simp only [ser, hv, Bool.false_eq_true, if_false, maxSize, sizePos]
      exact (wDh_facts .v2 e _ pos _ _ hbody).le (by omega)
    | v1 =>
      simp only [wfVal, Bool.and_eq_true, decide_eq_true_eq] at h
      obtain ⟨⟨⟨⟨_, h61⟩, _⟩, _⟩, hm⟩ := h
      have hv : (Ver.v1 == Ver.v1) = true := by decide
      have hc := (chunksFacts cfg .v1 e ms fs hm).1
      have hf := emit1_facts cfg h61 e (sortChunks (chunks cfg .v1 e ms fs)) pos
      have hg := emit1_len_ge cfg h61 e (sortChunks (chunks cfg .v1 e ms fs)) pos
      rw [sum_sortChunks] at hf
      have hle : sumNat ((chunks cfg .v1 e ms fs).map fun c => 7 + (c.enc 0).1.length) ≤
          sumNat ((chunks cfg .v1 e ms fs).map fun c => 11 + (c.enc 0).1.length) := by
        generalize chunks cfg .v1 e ms fs = l
        induction l with
        | nil => simp [sumNat]
        | cons x xs ih => simp only [List.map_cons, sumNat]; omega
      simp only [ser, hv, if_true, maxSize, sizePos, Facts]
      refine ⟨by omega, fun _ => by omega, hf.1⟩
  | .prim _, .str _, h, _ | .prim _, .list _, h, _ | .prim _, .struct _, h, _ | .prim _, .absent, h, _ => by simp [wfVal] at h
  | .str, .num _, h, _ | .str, .list _, h, _ | .str, .struct _, h, _ | .str, .absent, h, _ => by simp [wfVal] at h
  | .enum _ _ _, .str _, h, _ | .enum _ _ _, .list _, h, _ | .enum _ _ _, .struct _, h, _ | .enum _ _ _, .absent, h, _ => by simp [wfVal] at h
  | .union app disc bs, .struct fs, h, pos => by
    simp only [wfVal] at h
    split at h
    · rename_i d id v
      simp only [Bool.and_eq_true] at h
      obtain ⟨⟨⟨⟨hp, _⟩, _⟩, _⟩, hb⟩ := h
      have hU : ∀ p, Facts (wUnion ver e disc (serB cfg ver e bs) [.num d, .num id, v] p) p (16 + maxSizeB bs id v) true := by
        intro p
        have h1 := wPrim_len_le ver e disc d p hp
        have h2 := wPrim_len_pos ver e disc d p hp
        have h3 := wPrim_pos ver e disc d p
        have hB := serBFacts cfg ver e bs id v hb (wPrim ver e disc d p).2
        simp only [Facts] at hB
        simp only [Facts, wUnion, List.length_append]
        refine ⟨by omega, fun _ => by omega, by omega⟩
      simp only [ser, maxSize, sizePos]
      split
      · exact (wDh_facts ver e _ pos _ true hU).le (by omega)
      · exact (hU pos).le (by omega)
    · rename_i d
      simp only [Bool.and_eq_true] at h
      have hp := h.1.1
      have hU : ∀ p, Facts (wUnion ver e disc (serB cfg ver e bs) [.num d] p) p 16 true := by
        intro p
        have h1 := wPrim_len_le ver e disc d p hp
        have h2 := wPrim_len_pos ver e disc d p hp
        have h3 := wPrim_pos ver e disc d p
        simp only [Facts, wUnion]
        refine ⟨by omega, fun _ => by omega, by omega⟩
      simp only [ser, maxSize, sizePos]
      split
      · exact (wDh_facts ver e _ pos _ true hU).le (by omega)
      · exact (hU pos).le (by omega)
    · simp at h
  | .union _ _ _, .num _, h, _ | .union _ _ _, .str _, h, _ | .union _ _ _, .list _, h, _ | .union _ _ _, .absent, h, _ => by simp [wfVal] at h
  | .wstr, .num _, h, _ | .wstr, .str _, h, _ | .wstr, .struct _, h, _ | .wstr, .absent, h, _ => by simp [wfVal] at h
  | .seq _, .num _, h, _ | .seq _, .str _, h, _ | .seq _, .struct _, h, _ | .seq _, .absent, h, _ => by simp [wfVal] at h
  | .arr _ _, .num _, h, _ | .arr _ _, .str _, h, _ | .arr _ _, .struct _, h, _ | .arr _ _, .absent, h, _ => by simp [wfVal] at h
  | .struct _ _, .num _, h, _ | .struct _ _, .str _, h, _ | .struct _ _, .list _, h, _ | .struct _ _, .absent, h, _ => by simp [wfVal] at h
/-- the values of the present members of a mutable structure: total size, and position consistency at origin 0 -/
theorem chunksFacts (cfg : Cfg) (ver : Ver) (e : Endian) : (ms : Ms) → (fs : List Val) → wfM cfg ver ms fs = true →
    sumNat ((chunks cfg ver e ms fs).map fun c => 11 + (c.enc 0).1.length) ≤ maxSizeMs ms fs ∧
    ∀ c ∈ chunks cfg ver e ms fs, (c.enc 0).2 = (c.enc 0).1.length
  | .nil, [], _ => by simp [chunks, sumNat]
  | .cons id opt mu t r, f :: fs, h => by
    simp only [wfM, Bool.and_eq_true] at h
    obtain ⟨hm, hr⟩ := h
    have ih := chunksFacts cfg ver e r fs hr
    cases f with
    | absent =>
      simp only [chunks, maxSizeMs]
      exact ⟨by omega, ih.2⟩
    | num n =>
      simp only [Bool.and_eq_true] at hm
      have hf := serFacts cfg ver e t (.num n) hm.1 0
      simp only [chunks, maxSizeMs, List.map_cons, sumNat, List.mem_cons]
      refine ⟨by have := hf.1; omega, ?_⟩
      rintro c (rfl | hc)
      · have := hf.2.2; simpa using this
      · exact ih.2 c hc
    | str b =>
      simp only [Bool.and_eq_true] at hm
      have hf := serFacts cfg ver e t (.str b) hm.1 0
      simp only [chunks, maxSizeMs, List.map_cons, sumNat, List.mem_cons]
      refine ⟨by have := hf.1; omega, ?_⟩
      rintro c (rfl | hc)
      · have := hf.2.2; simpa using this
      · exact ih.2 c hc
    | list l =>
      simp only [Bool.and_eq_true] at hm
      have hf := serFacts cfg ver e t (.list l) hm.1 0
      simp only [chunks, maxSizeMs, List.map_cons, sumNat, List.mem_cons]
      refine ⟨by have := hf.1; omega, ?_⟩
      rintro c (rfl | hc)
      · have := hf.2.2; simpa using this
      · exact ih.2 c hc
    | struct l =>
      simp only [Bool.and_eq_true] at hm
      have hf := serFacts cfg ver e t (.struct l) hm.1 0
      simp only [chunks, maxSizeMs, List.map_cons, sumNat, List.mem_cons]
      refine ⟨by have := hf.1; omega, ?_⟩
      rintro c (rfl | hc)
      · have := hf.2.2; simpa using this
      · exact ih.2 c hc
  | .nil, _ :: _, h => by simp [wfM] at h
  | .cons _ _ _ _ _, [], h => by simp [wfM] at h
theorem serBFacts (cfg : Cfg) (ver : Ver) (e : Endian) : (bs : Bs) → (id : Nat) → (v : Val) → wfB cfg ver bs id v = true →
    ∀ pos, Facts (serB cfg ver e bs id v pos) pos (maxSizeB bs id v) false
  | .nil, _, _, h, _ => by simp [wfB] at h
  | .cons id' _ _ t r, id, v, h, pos => by
    simp only [wfB] at h
    simp only [serB, maxSizeB]
    split
    · rename_i hid
      simp only [hid, if_true] at h
      have hf := serFacts cfg ver e t v h pos
      exact ⟨hf.1, ⟨fun hh => Bool.noConfusion hh, hf.2.2⟩⟩
    · rename_i hid
      simp only [hid, Bool.false_eq_true, if_false] at h
      exact serBFacts cfg ver e r id v h pos
theorem serFFacts (cfg : Cfg) (ver : Ver) (e : Endian) : (ms : Ms) → (fs : List Val) → wfFs cfg ver ms fs = true →
    ∀ pos, Facts (serF cfg ver e ms fs pos) pos (maxSizeMs ms fs) (firstPos ver ms)
  | .nil, [], _, pos => by simp [Facts, serF, maxSizeMs, firstPos]
  | .cons id opt mu t r, f :: fs, h, pos => by
    simp only [wfFs, Bool.and_eq_true] at h
    obtain ⟨hm, hr⟩ := h
    have hrest := serFFacts cfg ver e r fs hr
    have hmem : Facts (wFMember cfg ver e id opt mu f (ser cfg ver e t) pos) pos (16 + maxSize t f)
        (opt || sizePos ver t) := by
      apply wFMember_facts
      · intro hf p
        have hw : wfVal cfg ver t f = true := by
          cases f <;> simp_all
        exact serFacts cfg ver e t f hw p
      · intro hf; subst hf; simp at hm; exact hm.1
      · intro ho hv
        subst hv
        cases f <;> simp_all
    have hb := hrest (wFMember cfg ver e id opt mu f (ser cfg ver e t) pos).2
    simp only [Facts, serF, maxSizeMs, firstPos, List.length_append] at hmem hb ⊢
    refine ⟨by omega, fun hh => ?_, by omega⟩
    have := hmem.2.1 hh
    omega
  | .nil, _ :: _, h, _ => by simp [wfFs] at h
  | .cons _ _ _ _ _, [], h, _ => by simp [wfFs] at h
end

end DustVerif.Xcdr
