import DustVerif.Model.Cond
/-! Lemmas about the status-condition / wait-set model: trigger value, notification fan-out, and the invariant behind
    "no lost wake-up" for the code with fixes/D37.patch (`fx = true`). -/
namespace DustVerif.Cond

/-! ## trigger value -/

theorem anyEnabled_iff (m : Nat) (l : List Kind) :
    anyEnabled m l = true ↔ ∃ k, k ∈ l ∧ m.testBit k = true := by
  induction l with
  | nil => simp [anyEnabled]
  | cons x xs ih =>
    unfold anyEnabled
    by_cases hx : m.testBit x = true
    · simp only [hx, if_true, true_iff]
      exact ⟨x, List.mem_cons_self, hx⟩
    · simp only [hx, Bool.false_eq_true, if_false]
      rw [ih]
      constructor
      · rintro ⟨k, hk, hb⟩; exact ⟨k, List.mem_cons_of_mem _ hk, hb⟩
      · rintro ⟨k, hk, hb⟩
        rcases List.mem_cons.mp hk with h | h
        · subst h; exact absurd hb hx
        · exact ⟨k, h, hb⟩

theorem mem_removeAll (k x : Kind) (l : List Kind) : x ∈ removeAll k l ↔ x ∈ l ∧ x ≠ k := by
  induction l with
  | nil => simp [removeAll]
  | cons y ys ih =>
    unfold removeAll
    by_cases hy : y = k
    · simp only [hy, if_true, ih, List.mem_cons]
      constructor
      · rintro ⟨a, b⟩; exact ⟨Or.inr a, b⟩
      · rintro ⟨a | a, b⟩
        · exact absurd a b
        · exact ⟨a, b⟩
    · simp only [hy, if_false, List.mem_cons, ih]
      constructor
      · rintro (a | ⟨a, b⟩)
        · subst a; exact ⟨Or.inl rfl, hy⟩
        · exact ⟨Or.inr a, b⟩
      · rintro ⟨a | a, b⟩
        · exact Or.inl a
        · exact Or.inr ⟨a, b⟩

theorem trigger_remove_le (c : Cond) (k : Kind) (h : (c.remove k).trigger = true) : c.trigger = true := by
  unfold Cond.trigger Cond.remove at *
  simp only at h
  rw [anyEnabled_iff] at h ⊢
  obtain ⟨x, hx, hb⟩ := h
  exact ⟨x, ((mem_removeAll k x _).mp hx).1, hb⟩

/-! ## function update and notification fan-out -/

@[simp] theorem upd_same {α : Type} (f : Nat → α) (i : Nat) (v : α) : upd f i v i = v := by simp [upd]
theorem upd_other {α : Type} (f : Nat → α) (i j : Nat) (v : α) (h : j ≠ i) : upd f i v j = f j := by simp [upd, h]

theorem notifyAll_mem (ws : Nat → Waiter) (ids : List Nat) (j : Nat) (h : j ∈ ids) :
    (notifyAll ws ids).1 j = { ws j with notified := true, wakerSet := false } := by
  induction ids generalizing ws with
  | nil => cases h
  | cons i is ih =>
    simp only [notifyAll]
    by_cases hm : j ∈ is
    · rw [ih _ hm]
      by_cases hij : j = i
      · subst hij; simp [notifyOne]
      · simp [notifyOne, upd_other _ _ _ _ hij]
    · have hij : j = i := by
        rcases List.mem_cons.mp h with a | a
        · exact a
        · exact absurd a hm
      subst hij
      have : ∀ (ws' : Nat → Waiter), (notifyAll ws' is).1 j = ws' j := by
        intro ws'
        clear ih h
        induction is generalizing ws' with
        | nil => rfl
        | cons a as ih2 =>
          simp only [notifyAll]
          have ha : j ≠ a := fun e => hm (e ▸ List.mem_cons_self)
          have has : j ∉ as := fun e => hm (List.mem_cons_of_mem _ e)
          rw [ih2 has]
          simp [notifyOne, upd_other _ _ _ _ ha]
      rw [this]
      simp [notifyOne]

theorem notifyAll_not_mem (ws : Nat → Waiter) (ids : List Nat) (j : Nat) (h : j ∉ ids) :
    (notifyAll ws ids).1 j = ws j := by
  induction ids generalizing ws with
  | nil => rfl
  | cons a as ih =>
    simp only [notifyAll]
    have ha : j ≠ a := fun e => h (e ▸ List.mem_cons_self)
    have has : j ∉ as := fun e => h (List.mem_cons_of_mem _ e)
    rw [ih _ has]
    simp [notifyOne, upd_other _ _ _ _ ha]

theorem notifyAll_nil (ws : Nat → Waiter) : (notifyAll ws []).1 = ws := rfl

/-- notification never changes the attached conditions or the phase of a call -/
theorem notifyAll_phase (ws : Nat → Waiter) (ids : List Nat) (j : Nat) :
    ((notifyAll ws ids).1 j).phase = (ws j).phase ∧ ((notifyAll ws ids).1 j).conds = (ws j).conds := by
  by_cases h : j ∈ ids
  · rw [notifyAll_mem _ _ _ h]; exact ⟨rfl, rfl⟩
  · rw [notifyAll_not_mem _ _ _ h]; exact ⟨rfl, rfl⟩

/-- a call that is still un-notified afterwards was not in the list and is unchanged -/
theorem notifyAll_unnotified (ws : Nat → Waiter) (ids : List Nat) (j : Nat)
    (h : ((notifyAll ws ids).1 j).notified = false) : j ∉ ids ∧ (notifyAll ws ids).1 j = ws j := by
  by_cases hm : j ∈ ids
  · rw [notifyAll_mem _ _ _ hm] at h; cases h
  · exact ⟨hm, notifyAll_not_mem _ _ _ hm⟩

/-- the calls whose waker is woken are among the notified ones and had a waker registered -/
theorem notifyAll_woke (ws : Nat → Waiter) (ids : List Nat) (j : Nat) :
    j ∈ (notifyAll ws ids).2 → j ∈ ids := by
  induction ids generalizing ws with
  | nil => intro h; cases h
  | cons a as ih =>
    simp only [notifyAll]
    intro h
    rcases List.mem_append.mp h with h1 | h2
    · simp only [notifyOne] at h1
      split at h1
      · rcases List.mem_singleton.mp h1 with rfl; exact List.mem_cons_self
      · cases h1
    · exact List.mem_cons_of_mem _ (ih _ h2)

/-- a notified call whose waker was registered is in the woken list -/
theorem notifyAll_wakes (ws : Nat → Waiter) (ids : List Nat) (j : Nat) (hm : j ∈ ids)
    (hw : (ws j).wakerSet = true) : j ∈ (notifyAll ws ids).2 := by
  induction ids generalizing ws with
  | nil => cases hm
  | cons a as ih =>
    simp only [notifyAll]
    by_cases hja : j = a
    · subst hja
      exact List.mem_append.mpr (Or.inl (by simp [notifyOne, hw]))
    · have hjas : j ∈ as := by
        rcases List.mem_cons.mp hm with e | e
        · exact absurd e hja
        · exact e
      refine List.mem_append.mpr (Or.inr (ih _ hjas ?_))
      simp [notifyOne, upd_other _ _ _ _ hja, hw]

/-! ## the invariant -/

/-- number of attached conditions on which call `x` has already executed `register_notification` -/
def regCount (x : Waiter) : Nat :=
  match x.phase with
  | .register i => i
  | .await => x.conds.length
  | _ => 0

/-- loop indices stay inside the attached-condition list -/
def IdxOk (x : Waiter) : Prop :=
  match x.phase with
  | .check i _ => i < x.conds.length
  | .register i => i < x.conds.length
  | .collect i _ => i < x.conds.length
  | .await => 0 < x.conds.length
  | _ => True

structure Inv (s : Sys) : Prop where
  /-- a condition with a registered waiter is not triggered -/
  reg_untriggered : ∀ c w, w ∈ (s.conds c).waiters → (s.conds c).trigger = false
  /-- an un-notified call is still registered with every condition it has registered with -/
  still_registered : ∀ w, (s.waiters w).notified = false →
    ∀ j, j < regCount (s.waiters w) → w ∈ (s.conds (nth (s.waiters w).conds j)).waiters
  /-- a call blocked in `notification_receiver.await` has its waker in the channel -/
  waker_set : ∀ w, (s.waiters w).phase = .await → (s.waiters w).notified = false → (s.waiters w).wakerSet = true
  idx_ok : ∀ w, IdxOk (s.waiters w)

theorem Inv.init : Inv Sys.init := by
  refine ⟨?_, ?_, ?_, ?_⟩
  · intro c w h; simp [Sys.init, Cond.init] at h
  · intro w _ j hj; simp [Sys.init, Waiter.init, regCount] at hj
  · intro w h; simp [Sys.init, Waiter.init] at h
  · intro w; simp [Sys.init, Waiter.init, IdxOk]

/-- common part of `add`, `remove` and the fixed `enable`: condition `c` is replaced by `c1`; either `c1` has no waiters
    left and exactly the old waiters are notified, or `c1` keeps the waiters, is untriggered if there are any, and nobody
    is notified -/
theorem Inv.drain_step (s : Sys) (h : Inv s) (c : Nat) (c1 : Cond) (ids : List Nat)
    (hcase : (c1.waiters = [] ∧ ids = (s.conds c).waiters) ∨
             (c1.waiters = (s.conds c).waiters ∧ ids = [] ∧ ((s.conds c).waiters ≠ [] → c1.trigger = false))) :
    Inv { conds := upd s.conds c c1, waiters := (notifyAll s.waiters ids).1 } := by
  obtain ⟨h1, h2, h3, h4⟩ := h
  refine ⟨?_, ?_, ?_, ?_⟩
  · intro c' w hw
    by_cases hc : c' = c
    · subst hc
      simp only [upd_same] at hw ⊢
      rcases hcase with ⟨hw0, _⟩ | ⟨hw0, _, ht⟩
      · rw [hw0] at hw; cases hw
      · rw [hw0] at hw
        exact ht (by intro e; rw [e] at hw; cases hw)
    · simp only [upd_other _ _ _ _ hc] at hw ⊢
      exact h1 c' w hw
  · intro w hn j hj
    simp only at hn hj ⊢
    obtain ⟨hnm, heq⟩ := notifyAll_unnotified _ _ _ hn
    rw [heq] at hj ⊢
    have hn' : (s.waiters w).notified = false := by rw [← heq]; exact hn
    have hold := h2 w hn' j hj
    by_cases hc : nth (s.waiters w).conds j = c
    · rw [hc] at hold ⊢
      simp only [upd_same]
      rcases hcase with ⟨_, hids⟩ | ⟨hw0, _, _⟩
      · rw [hids] at hnm; exact absurd hold hnm
      · rw [hw0]; exact hold
    · simp only [upd_other _ _ _ _ hc]; exact hold
  · intro w hp hn
    simp only at hp hn ⊢
    obtain ⟨_, heq⟩ := notifyAll_unnotified _ _ _ hn
    rw [heq] at hp hn ⊢
    exact h3 w hp hn
  · intro w
    simp only
    have hp := notifyAll_phase s.waiters ids w
    have := h4 w
    unfold IdxOk at this ⊢
    rw [hp.1, hp.2]
    exact this

/-- a step that only replaces call `w` by `x'` with `regCount x' = 0` -/
theorem Inv.local_step (s : Sys) (h : Inv s) (w : Nat) (x' : Waiter) (hreg : regCount x' = 0)
    (hawait : x'.phase ≠ .await) (hidx : IdxOk x') :
    Inv { s with waiters := upd s.waiters w x' } := by
  obtain ⟨h1, h2, h3, h4⟩ := h
  refine ⟨h1, ?_, ?_, ?_⟩
  · intro w' hn j hj
    by_cases hw : w' = w
    · subst hw; simp only [upd_same] at hj; omega
    · simp only [upd_other _ _ _ _ hw] at hn hj ⊢; exact h2 w' hn j hj
  · intro w' hp hn
    by_cases hw : w' = w
    · subst hw; simp only [upd_same] at hp; exact absurd hp hawait
    · simp only [upd_other _ _ _ _ hw] at hp hn ⊢; exact h3 w' hp hn
  · intro w'
    by_cases hw : w' = w
    · subst hw; simp only [upd_same]; exact hidx
    · simp only [upd_other _ _ _ _ hw]; exact h4 w'

theorem afterCheck_facts (x : Waiter) (i : Nat) (acc : List Nat) (hi : i < x.conds.length) :
    regCount (afterCheck x i acc) = 0 ∧ (afterCheck x i acc).phase ≠ .await ∧ IdxOk (afterCheck x i acc) := by
  unfold afterCheck
  split
  · exact ⟨rfl, by simp, by simpa [IdxOk]⟩
  · split
    · exact ⟨rfl, by simp, by simp only [IdxOk]; omega⟩
    · exact ⟨rfl, by simp, by simp [IdxOk]⟩

theorem afterCollect_facts (x : Waiter) (i : Nat) (acc : List Nat) :
    regCount (afterCollect x i acc) = 0 ∧ (afterCollect x i acc).phase ≠ .await ∧ IdxOk (afterCollect x i acc) := by
  unfold afterCollect
  split
  · exact ⟨rfl, by simp, by simpa [IdxOk]⟩
  · exact ⟨rfl, by simp, by simp [IdxOk]⟩

theorem awaitPoll_facts (x : Waiter) (hl : 0 < x.conds.length) :
    (awaitPoll x).conds = x.conds ∧ IdxOk (awaitPoll x) ∧
    ((awaitPoll x).phase = .await → (awaitPoll x).notified = false → (awaitPoll x).wakerSet = true) ∧
    ((awaitPoll x).notified = false →
      (x.notified = false ∧ regCount (awaitPoll x) = x.conds.length) ∨ regCount (awaitPoll x) = 0) := by
  unfold awaitPoll
  by_cases hn : x.notified = true
  · rw [if_pos hn]
    refine ⟨rfl, ?_, ?_, ?_⟩
    · simpa [IdxOk] using hl
    · intro h; cases h
    · intro _; exact Or.inr rfl
  · rw [if_neg hn]
    have hn' : x.notified = false := by simpa using hn
    refine ⟨rfl, ?_, ?_, ?_⟩
    · simpa [IdxOk] using hl
    · intro _ _; rfl
    · intro _; exact Or.inl ⟨hn', rfl⟩

theorem regNext_facts (x : Waiter) (i : Nat) (hi : i < x.conds.length) :
    (regNext x i).conds = x.conds ∧ IdxOk (regNext x i) ∧
    ((regNext x i).phase = .await → (regNext x i).notified = false → (regNext x i).wakerSet = true) ∧
    ((regNext x i).notified = false →
      (x.notified = false ∧ regCount (regNext x i) = i + 1) ∨ regCount (regNext x i) = 0) := by
  unfold regNext
  by_cases hlt : i + 1 < x.conds.length
  · rw [if_pos hlt]
    refine ⟨rfl, ?_, ?_, ?_⟩
    · simpa [IdxOk] using hlt
    · intro h; cases h
    · intro hn; exact Or.inl ⟨hn, rfl⟩
  · rw [if_neg hlt]
    have hl : 0 < x.conds.length := by omega
    obtain ⟨a, b, c, d⟩ := awaitPoll_facts x hl
    refine ⟨a, b, c, ?_⟩
    intro hn
    rcases d hn with ⟨d1, d2⟩ | d2
    · exact Or.inl ⟨d1, by omega⟩
    · exact Or.inr d2

theorem Cond.add_cases (c : Cond) (k : Kind) :
    ((c.add k).1.waiters = [] ∧ (c.add k).2 = c.waiters) ∨
    ((c.add k).1.waiters = c.waiters ∧ (c.add k).2 = [] ∧ (c.waiters ≠ [] → (c.add k).1.trigger = false)) := by
  unfold Cond.add
  by_cases ht : ({ c with changes := c.changes ++ [k] } : Cond).trigger = true
  · left; simp [ht]
  · right; simp [ht]

theorem Cond.setEnabledFixed_cases (c : Cond) (m : Nat) :
    ((c.setEnabledFixed m).1.waiters = [] ∧ (c.setEnabledFixed m).2 = c.waiters) ∨
    ((c.setEnabledFixed m).1.waiters = c.waiters ∧ (c.setEnabledFixed m).2 = [] ∧
      (c.waiters ≠ [] → (c.setEnabledFixed m).1.trigger = false)) := by
  unfold Cond.setEnabledFixed
  by_cases ht : ({ c with enabled := m } : Cond).trigger = true
  · left; simp [ht]
  · right; simp [ht]

/-- the registration step of call `w` (phase `register i`) -/
theorem Inv.register_step (s : Sys) (h : Inv s) (w i : Nat) (hp : (s.waiters w).phase = .register i) :
    Inv (s.step true (.wstep w)).1 := by
  obtain ⟨h1, h2, h3, h4⟩ := h
  have hi : i < (s.waiters w).conds.length := by
    have := h4 w; simp only [IdxOk, hp] at this; exact this
  simp only [Sys.step, hp]
  by_cases ht : (s.conds (nth (s.waiters w).conds i)).trigger = true
  · -- triggered: nothing is pushed, the call itself is notified
    simp only [Cond.register, ht, if_true]
    have hx1 : (notifyAll s.waiters [w]).1 w = { s.waiters w with notified := true, wakerSet := false } :=
      notifyAll_mem _ _ _ List.mem_cons_self
    have hother : ∀ w', w' ≠ w → (notifyAll s.waiters [w]).1 w' = s.waiters w' := by
      intro w' hw'
      exact notifyAll_not_mem _ _ _ (by simpa using hw')
    have hconds : upd s.conds (nth (s.waiters w).conds i) (s.conds (nth (s.waiters w).conds i)) = s.conds := by
      funext c'; by_cases hc : c' = nth (s.waiters w).conds i
      · subst hc; simp
      · simp [upd_other _ _ _ _ hc]
    rw [hconds]
    have hph := notifyAll_phase s.waiters [w] w
    have hi1 : i < ((notifyAll s.waiters [w]).1 w).conds.length := by rw [hph.2]; exact hi
    have hx1n : ((notifyAll s.waiters [w]).1 w).notified = true := by rw [hx1]
    obtain ⟨f1, f2, f3, f4⟩ := regNext_facts _ i hi1
    refine ⟨h1, ?_, ?_, ?_⟩
    · intro w' hn j hj
      by_cases hw : w' = w
      · subst hw
        simp only [upd_same] at hn hj ⊢
        rcases f4 hn with ⟨g1, _⟩ | g2
        · rw [hx1n] at g1; cases g1
        · omega
      · simp only [upd_other _ _ _ _ hw, hother w' hw] at hn hj ⊢
        exact h2 w' hn j hj
    · intro w' hp' hn
      by_cases hw : w' = w
      · subst hw
        simp only [upd_same] at hp' hn ⊢
        exact f3 hp' hn
      · simp only [upd_other _ _ _ _ hw, hother w' hw] at hp' hn ⊢
        exact h3 w' hp' hn
    · intro w'
      by_cases hw : w' = w
      · subst hw; simp only [upd_same]; exact f2
      · simp only [upd_other _ _ _ _ hw, hother w' hw]; exact h4 w'
  · -- not triggered: pushed, nobody notified
    have ht' : (s.conds (nth (s.waiters w).conds i)).trigger = false := by simpa using ht
    simp only [Cond.register, ht', Bool.false_eq_true, if_false, notifyAll_nil]
    obtain ⟨f1, f2, f3, f4⟩ := regNext_facts (s.waiters w) i hi
    -- membership is monotone under the push
    have hmono : ∀ c' w'', w'' ∈ (s.conds c').waiters →
        w'' ∈ (upd s.conds (nth (s.waiters w).conds i)
          { s.conds (nth (s.waiters w).conds i) with
            waiters := (s.conds (nth (s.waiters w).conds i)).waiters ++ [w] } c').waiters := by
      intro c' w'' hm
      by_cases hc : c' = nth (s.waiters w).conds i
      · subst hc; simp only [upd_same]; exact List.mem_append.mpr (Or.inl hm)
      · simp only [upd_other _ _ _ _ hc]; exact hm
    refine ⟨?_, ?_, ?_, ?_⟩
    · intro c' w' hw'
      by_cases hc : c' = nth (s.waiters w).conds i
      · subst hc; simp only [upd_same] at hw' ⊢; exact ht'
      · simp only [upd_other _ _ _ _ hc] at hw' ⊢; exact h1 c' w' hw'
    · intro w' hn j hj
      by_cases hw : w' = w
      · subst hw
        simp only [upd_same] at hn hj ⊢
        rw [f1]
        rcases f4 hn with ⟨g1, g2⟩ | g2
        · by_cases hji : j = i
          · subst hji; simp only [upd_same]; exact List.mem_append.mpr (Or.inr List.mem_cons_self)
          · exact hmono _ _ (h2 w' g1 j (by simp only [regCount, hp]; omega))
        · omega
      · simp only [upd_other _ _ _ _ hw] at hn hj ⊢
        exact hmono _ _ (h2 w' hn j hj)
    · intro w' hp' hn
      by_cases hw : w' = w
      · subst hw
        simp only [upd_same] at hp' hn ⊢
        exact f3 hp' hn
      · simp only [upd_other _ _ _ _ hw] at hp' hn ⊢
        exact h3 w' hp' hn
    · intro w'
      by_cases hw : w' = w
      · subst hw; simp only [upd_same]; exact f2
      · simp only [upd_other _ _ _ _ hw]; exact h4 w'

/-- every step of the fixed code preserves the invariant -/
theorem Inv.step (s : Sys) (h : Inv s) (op : Op) : Inv (s.step true op).1 := by
  cases op with
  | add c k =>
    simp only [Sys.step]
    exact Inv.drain_step s h c _ _ (Cond.add_cases (s.conds c) k)
  | remove c k =>
    simp only [Sys.step]
    have : ({ s with conds := upd s.conds c ((s.conds c).remove k) } : Sys) =
        { conds := upd s.conds c ((s.conds c).remove k), waiters := (notifyAll s.waiters []).1 } := rfl
    rw [this]
    apply Inv.drain_step s h
    right
    refine ⟨rfl, rfl, ?_⟩
    intro hne
    cases hw : (s.conds c).waiters with
    | nil => exact absurd hw hne
    | cons w ws =>
      have hu := h.reg_untriggered c w (by rw [hw]; exact List.mem_cons_self)
      cases ht : ((s.conds c).remove k).trigger with
      | false => rfl
      | true => have := trigger_remove_le _ _ ht; rw [hu] at this; cases this
  | enable c m =>
    simp only [Sys.step, Cond.setEnabled, if_true]
    exact Inv.drain_step s h c _ _ (Cond.setEnabledFixed_cases (s.conds c) m)
  | start w cs =>
    simp only [Sys.step]
    split
    · cases cs with
      | nil => exact Inv.local_step s h w _ rfl (by simp) (by simp [IdxOk])
      | cons a as => exact Inv.local_step s h w _ rfl (by simp) (by simp [IdxOk])
    · exact h
  | wstep w =>
    cases hp : (s.waiters w).phase with
    | idle => simp only [Sys.step, hp]; exact h
    | done res => simp only [Sys.step, hp]; exact h
    | failed => simp only [Sys.step, hp]; exact h
    | register i => exact Inv.register_step s h w i hp
    | check i acc =>
      simp only [Sys.step, hp]
      have hi : i < (s.waiters w).conds.length := by
        have := h.idx_ok w; simp only [IdxOk, hp] at this; exact this
      obtain ⟨a, b, c⟩ := afterCheck_facts (s.waiters w) i
        (if (s.conds (nth (s.waiters w).conds i)).trigger = true then acc ++ [nth (s.waiters w).conds i] else acc) hi
      exact Inv.local_step s h w _ a b c
    | collect i acc =>
      simp only [Sys.step, hp]
      obtain ⟨a, b, c⟩ := afterCollect_facts (s.waiters w) i
        (if (s.conds (nth (s.waiters w).conds i)).trigger = true then acc ++ [nth (s.waiters w).conds i] else acc)
      exact Inv.local_step s h w _ a b c
    | await =>
      simp only [Sys.step, hp]
      obtain ⟨h1, h2, h3, h4⟩ := h
      have hl : 0 < (s.waiters w).conds.length := by
        have := h4 w; simp only [IdxOk, hp] at this; exact this
      obtain ⟨f1, f2, f3, f4⟩ := awaitPoll_facts (s.waiters w) hl
      refine ⟨h1, ?_, ?_, ?_⟩
      · intro w' hn j hj
        by_cases hw : w' = w
        · subst hw
          simp only [upd_same] at hn hj ⊢
          rw [f1]
          rcases f4 hn with ⟨g1, g2⟩ | g2
          · exact h2 w' g1 j (by simp only [regCount, hp]; omega)
          · omega
        · simp only [upd_other _ _ _ _ hw] at hn hj ⊢; exact h2 w' hn j hj
      · intro w' hp' hn
        by_cases hw : w' = w
        · subst hw; simp only [upd_same] at hp' hn ⊢; exact f3 hp' hn
        · simp only [upd_other _ _ _ _ hw] at hp' hn ⊢; exact h3 w' hp' hn
      · intro w'
        by_cases hw : w' = w
        · subst hw; simp only [upd_same]; exact f2
        · simp only [upd_other _ _ _ _ hw]; exact h4 w'

theorem Inv.run (s : Sys) (h : Inv s) (ops : List Op) : Inv (s.run true ops) := by
  induction ops generalizing s with
  | nil => exact h
  | cons op ops ih => exact ih _ (Inv.step s h op)


/-! ## what a step does to `changes` / `enabled` of a condition and to a call it does not address -/

theorem add_fields (c : Cond) (k : Kind) :
    (c.add k).1.changes = c.changes ++ [k] ∧ (c.add k).1.enabled = c.enabled := by
  unfold Cond.add
  by_cases ht : ({ c with changes := c.changes ++ [k] } : Cond).trigger = true <;> simp [ht]

theorem setEnabled_fields (fx : Bool) (c : Cond) (m : Nat) :
    (c.setEnabled fx m).1.changes = c.changes ∧ (c.setEnabled fx m).1.enabled = m := by
  unfold Cond.setEnabled Cond.setEnabledFixed Cond.setEnabledAsIs
  cases fx
  · simp
  · by_cases ht : ({ c with enabled := m } : Cond).trigger = true <;> simp [ht]

theorem register_fields (c : Cond) (w : Nat) :
    (c.register w).1.changes = c.changes ∧ (c.register w).1.enabled = c.enabled := by
  unfold Cond.register
  by_cases ht : c.trigger = true <;> simp [ht]

/-- `changes` of condition `c` after one step -/
def changesStep (c : Nat) (l : List Kind) : Op → List Kind
  | .add c' k => if c' = c then l ++ [k] else l
  | .remove c' k => if c' = c then removeAll k l else l
  | _ => l

/-- enabled mask of condition `c` after one step -/
def enabledStep (c : Nat) (m : Nat) : Op → Nat
  | .enable c' m' => if c' = c then m' else m
  | _ => m

theorem step_fields (fx : Bool) (s : Sys) (op : Op) (c : Nat) :
    ((s.step fx op).1.conds c).changes = changesStep c (s.conds c).changes op ∧
    ((s.step fx op).1.conds c).enabled = enabledStep c (s.conds c).enabled op := by
  cases op with
  | add c' k =>
    simp only [Sys.step, changesStep, enabledStep]
    by_cases hc : c' = c
    · subst hc; simp only [upd_same, if_true]; exact add_fields _ _
    · have hc' : c ≠ c' := fun e => hc e.symm
      simp [upd_other _ _ _ _ hc', hc]
  | remove c' k =>
    simp only [Sys.step, changesStep, enabledStep]
    by_cases hc : c' = c
    · subst hc; simp [Cond.remove]
    · have hc' : c ≠ c' := fun e => hc e.symm
      simp [upd_other _ _ _ _ hc', hc]
  | enable c' m =>
    simp only [Sys.step, changesStep, enabledStep]
    by_cases hc : c' = c
    · subst hc; simp only [upd_same, if_true]; exact setEnabled_fields _ _ _
    · have hc' : c ≠ c' := fun e => hc e.symm
      simp [upd_other _ _ _ _ hc', hc]
  | start w cs =>
    simp only [Sys.step, changesStep, enabledStep]
    split <;> exact ⟨rfl, rfl⟩
  | wstep w =>
    simp only [changesStep, enabledStep]
    cases hp : (s.waiters w).phase with
    | idle => simp [Sys.step, hp]
    | done res => simp [Sys.step, hp]
    | failed => simp [Sys.step, hp]
    | check i acc => simp [Sys.step, hp]
    | collect i acc => simp [Sys.step, hp]
    | await => simp [Sys.step, hp]
    | register i =>
      simp only [Sys.step, hp]
      by_cases hc : c = nth (s.waiters w).conds i
      · subst hc; simp only [upd_same]; exact register_fields _ _
      · simp [upd_other _ _ _ _ hc]

theorem trigger_of_fields (a b : Cond) (h1 : a.changes = b.changes) (h2 : a.enabled = b.enabled) :
    a.trigger = b.trigger := by
  unfold Cond.trigger; rw [h1, h2]

/-- only `add` and `enable` can raise a trigger value -/
theorem step_trigger_rise (fx : Bool) (s : Sys) (op : Op) (c : Nat)
    (h0 : (s.conds c).trigger = false) (h1 : ((s.step fx op).1.conds c).trigger = true) :
    (∃ k, op = .add c k) ∨ (∃ m, op = .enable c m) := by
  obtain ⟨f1, f2⟩ := step_fields fx s op c
  cases op with
  | add c' k =>
    by_cases hc : c' = c
    · subst hc; exact Or.inl ⟨k, rfl⟩
    · simp only [changesStep, enabledStep, hc, if_false] at f1 f2
      rw [trigger_of_fields _ _ f1 f2, h0] at h1; cases h1
  | enable c' m =>
    by_cases hc : c' = c
    · subst hc; exact Or.inr ⟨m, rfl⟩
    · simp only [changesStep, enabledStep, hc, if_false] at f1 f2
      rw [trigger_of_fields _ _ f1 f2, h0] at h1; cases h1
  | remove c' k =>
    exfalso
    by_cases hc : c' = c
    · subst hc
      simp only [changesStep, enabledStep, if_true] at f1 f2
      have : ((s.step fx (.remove c' k)).1.conds c').trigger = ((s.conds c').remove k).trigger :=
        trigger_of_fields _ _ (by rw [f1]; rfl) (by rw [f2]; rfl)
      rw [this] at h1
      have := trigger_remove_le _ _ h1
      rw [h0] at this; cases this
    · simp only [changesStep, enabledStep, hc, if_false] at f1 f2
      rw [trigger_of_fields _ _ f1 f2, h0] at h1; cases h1
  | start w cs =>
    simp only [changesStep, enabledStep] at f1 f2
    rw [trigger_of_fields _ _ f1 f2, h0] at h1; cases h1
  | wstep w =>
    simp only [changesStep, enabledStep] at f1 f2
    rw [trigger_of_fields _ _ f1 f2, h0] at h1; cases h1

/-- `add c k` / `enable c m` leave phase and attached conditions of every call alone and notify through `notifyAll` -/
theorem step_add_waiters (fx : Bool) (s : Sys) (c : Nat) (k : Kind) :
    (s.step fx (.add c k)).1.waiters = (notifyAll s.waiters ((s.conds c).add k).2).1 ∧
    (s.step fx (.add c k)).2.woke = (notifyAll s.waiters ((s.conds c).add k).2).2 := ⟨rfl, rfl⟩

theorem step_enable_waiters (fx : Bool) (s : Sys) (c : Nat) (m : Nat) :
    (s.step fx (.enable c m)).1.waiters = (notifyAll s.waiters ((s.conds c).setEnabled fx m).2).1 ∧
    (s.step fx (.enable c m)).2.woke = (notifyAll s.waiters ((s.conds c).setEnabled fx m).2).2 := ⟨rfl, rfl⟩

theorem mem_nth (l : List Nat) (c : Nat) (h : c ∈ l) : ∃ j, j < l.length ∧ nth l j = c := by
  induction l with
  | nil => cases h
  | cons x xs ih =>
    rcases List.mem_cons.mp h with e | e
    · exact ⟨0, by simp, by simp [nth, e]⟩
    · obtain ⟨j, hj, hn⟩ := ih e
      exact ⟨j + 1, by simpa using hj, by simpa [nth] using hn⟩

theorem drop_nth (l : List Nat) (i : Nat) (h : i < l.length) : l.drop i = nth l i :: l.drop (i + 1) := by
  induction l generalizing i with
  | nil => simp at h
  | cons x xs ih =>
    cases i with
    | zero => simp [nth]
    | succ n =>
      have : n < xs.length := by simpa using h
      simpa [nth] using ih n this

end DustVerif.Cond
