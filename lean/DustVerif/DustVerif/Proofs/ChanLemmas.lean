import DustVerif.Model.Chan
/-! Invariants of the three channel state machines, preserved by every step, hence true after every step list. -/
namespace DustVerif.Chan

/-! ## one-shot -/

structure OneInv (s : OneSys) : Prop where
  alive_fresh : s.snd = .alive → s.sentVal = none
  hasSender_iff : s.ch.hasSender = true ↔ s.snd ≠ .dropped
  unsent : s.sentVal = none → s.ch.data = none ∧ s.got = []
  conserve : ∀ v, s.sentVal = some v → (s.ch.data = some v ∧ s.got = []) ∨ (s.ch.data = none ∧ s.got = [v])
  waker_ok : ∀ w, s.ch.waker = some w → s.ch.data = none ∧ s.ch.hasSender = true
  waiting_ok : ∀ w, s.waiting = some w → s.ch.waker = some w

theorem OneInv.init : OneInv OneSys.init := by
  constructor <;> simp [OneSys.init, One.init]

theorem clearWaiting_some {waiting woke : Option Nat} {w : Nat} (h : clearWaiting waiting woke = some w) :
    waiting = some w ∧ woke ≠ some w := by
  unfold clearWaiting at h
  cases woke with
  | none => simp at h; simp [h]
  | some x =>
    simp only at h
    split at h
    · simp at h
    · rename_i hne
      refine ⟨h, ?_⟩
      intro hx
      rw [h, hx] at hne
      exact hne rfl

theorem OneInv.step (s : OneSys) (h : OneInv s) (op : OneOp) : OneInv (s.step op).1 := by
  obtain ⟨h1, h2, h3, h4, h5, h6⟩ := h
  cases op with
  | sendCS v =>
    cases hs : s.snd with
    | alive =>
      have hsv := h1 hs
      have hu := h3 hsv
      have hhs : s.ch.hasSender = true := h2.mpr (by simp [hs])
      constructor <;> simp [OneSys.step, hs, One.sendCS, hu.2, hhs]
      intro w hw
      have := (clearWaiting_some hw)
      have := h6 w this.1
      exact absurd this (by intro hc; exact (clearWaiting_some hw).2 hc)
    | sending => simpa [OneSys.step, hs] using (⟨h1, h2, h3, h4, h5, h6⟩ : OneInv s)
    | dropped => simpa [OneSys.step, hs] using (⟨h1, h2, h3, h4, h5, h6⟩ : OneInv s)
  | dropSender =>
    cases hs : s.snd with
    | dropped => simpa [OneSys.step, hs] using (⟨h1, h2, h3, h4, h5, h6⟩ : OneInv s)
    | alive =>
      constructor <;> simp [OneSys.step, hs, One.dropCS]
      · exact h3
      · exact h4
      · intro w hw
        have := (clearWaiting_some hw)
        exact absurd (h6 w this.1) this.2
    | sending =>
      constructor <;> simp [OneSys.step, hs, One.dropCS]
      · exact h3
      · exact h4
      · intro w hw
        have := (clearWaiting_some hw)
        exact absurd (h6 w this.1) this.2
  | poll w =>
    by_cases hr : s.rcvAlive = true
    · cases hd : s.ch.data with
      | some v =>
        have hnw : s.ch.waker = none := by
          cases hw : s.ch.waker with
          | none => rfl
          | some x => have := (h5 x hw).1; rw [hd] at this; cases this
        constructor <;> simp [OneSys.step, hr, One.pollCS, hd, gotAdd, pollWaiting]
        · exact h1
        · exact h2
        · intro hsv; have := (h3 hsv).1; rw [hd] at this; cases this
        · intro v' hv'
          rcases h4 v' hv' with ⟨a, b⟩ | ⟨a, _⟩
          · rw [hd] at a; cases a; simp [b]
          · rw [hd] at a; cases a
        · intro x hx; rw [hnw] at hx; cases hx
      | none =>
        have hc : ∀ v', s.sentVal = some v' → s.ch.data = none ∧ s.got = [v'] := by
          intro v' hv'
          rcases h4 v' hv' with ⟨a, _⟩ | ⟨_, b⟩
          · rw [hd] at a; cases a
          · exact ⟨hd, b⟩
        by_cases hh : s.ch.hasSender = true
        · refine ⟨?_, ?_, ?_, ?_, ?_, ?_⟩ <;>
            simp only [OneSys.step, hr, One.pollCS, hd, hh, gotAdd, pollWaiting, if_true]
          · exact h1
          · simpa [hh] using h2
          · intro hsv; simp [(h3 hsv).2]
          · intro v' hv'; simp [(hc v' hv').2]
          · intro x _; simp
          · intro x hx; simpa using hx
        · have hh' : s.ch.hasSender = false := by simpa using hh
          refine ⟨?_, ?_, ?_, ?_, ?_, ?_⟩ <;>
            simp only [OneSys.step, hr, One.pollCS, hd, hh', gotAdd, pollWaiting, if_true]
          · exact h1
          · simpa [hh'] using h2
          · intro hsv; exact ⟨hd, (h3 hsv).2⟩
          · intro v' hv'; exact Or.inr (hc v' hv')
          · intro x hx; have := (h5 x hx).2; rw [hh'] at this; cases this
          · intro x hx; simp at hx
    · have hr' : s.rcvAlive = false := by simpa using hr
      simpa [OneSys.step, hr'] using (⟨h1, h2, h3, h4, h5, h6⟩ : OneInv s)
  | dropReceiver =>
    by_cases hr : s.rcvAlive = true
    · constructor <;> simp [OneSys.step, hr]
      · exact h1
      · exact h2
      · exact h3
      · exact h4
      · exact h5
    · have hr' : s.rcvAlive = false := by simpa using hr
      simpa [OneSys.step, hr'] using (⟨h1, h2, h3, h4, h5, h6⟩ : OneInv s)

theorem OneInv.run (s : OneSys) (h : OneInv s) (ops : List OneOp) : OneInv (s.run ops) := by
  induction ops generalizing s with
  | nil => exact h
  | cons op ops ih => exact ih _ (OneInv.step s h op)

/-! ## handle lists -/

theorem removeId_length (l : List Nat) (i : Nat) (h : hasId l i = true) :
    (removeId l i).length + 1 = l.length := by
  induction l with
  | nil => simp [hasId] at h
  | cons x xs ih =>
    unfold removeId
    by_cases hx : x = i
    · simp [hx]
    · simp only [hx, if_false, List.length_cons]
      have : hasId xs i = true := by simpa [hasId, hx] using h
      have := ih this
      omega

theorem hasId_length_pos (l : List Nat) (i : Nat) (h : hasId l i = true) : 0 < l.length := by
  cases l with
  | nil => simp [hasId] at h
  | cons x xs => simp

/-! ## mpsc (with fixes/D39.patch) -/

structure MpscInv (s : MpscSys) : Prop where
  conserve : s.sent = s.got ++ s.ch.data
  count : s.ch.senderCount = s.senders.length
  no_panic : s.panicked = false
  /-- the channel is closed exactly when no sender handle exists -/
  closed_iff : s.ch.isClosed = true ↔ s.ch.senderCount = 0
  waker_ok : ∀ w, s.ch.waker = some w → s.ch.data = [] ∧ s.ch.isClosed = false
  waiting_ok : ∀ w, s.waiting = some w → s.ch.waker = some w

theorem MpscInv.init : MpscInv MpscSys.init := by
  constructor <;> simp [MpscSys.init, Mpsc.init]

theorem MpscInv.step (s : MpscSys) (h : MpscInv s) (op : MpscOp) : MpscInv (s.step op).1 := by
  obtain ⟨h1, hc, hp, hcl, h3, h4⟩ := h
  cases op with
  | send sid v =>
    by_cases hi : hasId s.senders sid = true
    · have hpos : 0 < s.ch.senderCount := by rw [hc]; exact hasId_length_pos _ _ hi
      have h2 : s.ch.isClosed = false := by
        cases hb : s.ch.isClosed with
        | false => rfl
        | true => have := hcl.mp hb; omega
      refine ⟨?_, ?_, ?_, ?_, ?_, ?_⟩ <;>
        simp only [MpscSys.step, hi, if_true, Mpsc.sendCS, h2, Bool.false_eq_true, if_false]
      · rw [h1, List.append_assoc]
      · exact hc
      · exact hp
      · simpa [h2] using hcl
      · intro w hw; cases hw
      · intro w hw
        have := clearWaiting_some hw
        exact absurd (h4 w this.1) this.2
    · have hi' : hasId s.senders sid = false := by simpa using hi
      simpa [MpscSys.step, hi'] using (⟨h1, hc, hp, hcl, h3, h4⟩ : MpscInv s)
  | clone sid new =>
    simp only [MpscSys.step]
    split
    · rename_i hcond
      have hi : hasId s.senders sid = true := by
        cases hb : hasId s.senders sid with
        | true => rfl
        | false => simp [hb] at hcond
      have hpos : 0 < s.ch.senderCount := by rw [hc]; exact hasId_length_pos _ _ hi
      have h2 : s.ch.isClosed = false := by
        cases hb : s.ch.isClosed with
        | false => rfl
        | true => have := hcl.mp hb; omega
      refine ⟨h1, ?_, hp, ?_, h3, h4⟩
      · simp [Mpsc.cloneCS, hc]
      · simp [Mpsc.cloneCS, h2]
    · exact ⟨h1, hc, hp, hcl, h3, h4⟩
  | dropSender sid =>
    by_cases hi : hasId s.senders sid = true
    · have hlen := removeId_length s.senders sid hi
      have hpos : 0 < s.ch.senderCount := by rw [hc]; exact hasId_length_pos _ _ hi
      have hne : ¬ s.ch.senderCount = 0 := by omega
      have h2 : s.ch.isClosed = false := by
        cases hb : s.ch.isClosed with
        | false => rfl
        | true => have := hcl.mp hb; omega
      by_cases hlast : s.ch.senderCount - 1 = 0
      · refine ⟨?_, ?_, ?_, ?_, ?_, ?_⟩ <;>
          simp only [MpscSys.step, hi, if_true, Mpsc.dropCS, hne, if_false, hlast]
        · exact h1
        · omega
        · exact hp
        · intro w hw; cases hw
        · intro w hw
          have := clearWaiting_some hw
          exact absurd (h4 w this.1) this.2
      · refine ⟨?_, ?_, ?_, ?_, ?_, ?_⟩ <;>
          simp only [MpscSys.step, hi, if_true, Mpsc.dropCS, hne, if_false, hlast, clearWaiting]
        · exact h1
        · omega
        · exact hp
        · simp [h2]
        · exact h3
        · exact h4
    · have hi' : hasId s.senders sid = false := by simpa using hi
      simpa [MpscSys.step, hi'] using (⟨h1, hc, hp, hcl, h3, h4⟩ : MpscInv s)
  | poll w =>
    by_cases hr : s.rcvAlive = true
    · cases hd : s.ch.data with
      | cons v rest =>
        have hnw : s.ch.waker = none := by
          cases hw : s.ch.waker with
          | none => rfl
          | some x => have := (h3 x hw).1; rw [hd] at this; cases this
        refine ⟨?_, ?_, ?_, ?_, ?_, ?_⟩ <;> simp only [MpscSys.step, hr, if_true, Mpsc.pollCS, hd, gotAdd, pollWaiting]
        · rw [h1, hd]; simp
        · exact hc
        · exact hp
        · exact hcl
        · intro x hx; rw [hnw] at hx; cases hx
        · intro x hx; cases hx
      | nil =>
        by_cases h2 : s.ch.isClosed = true
        · refine ⟨?_, ?_, ?_, ?_, ?_, ?_⟩ <;>
            simp only [MpscSys.step, hr, if_true, Mpsc.pollCS, hd, h2, gotAdd, pollWaiting]
          · rw [h1, hd]
          · exact hc
          · exact hp
          · simpa [h2] using hcl
          · intro x hx; have := (h3 x hx).2; rw [h2] at this; cases this
          · intro x hx; cases hx
        · have h2' : s.ch.isClosed = false := by simpa using h2
          refine ⟨?_, ?_, ?_, ?_, ?_, ?_⟩ <;>
            simp only [MpscSys.step, hr, if_true, Mpsc.pollCS, hd, h2', Bool.false_eq_true, if_false, gotAdd, pollWaiting]
          · rw [h1, hd]
          · exact hc
          · exact hp
          · simpa [h2'] using hcl
          · intro x _; exact ⟨trivial, trivial⟩
          · intro x hx; simpa using hx
    · have hr' : s.rcvAlive = false := by simpa using hr
      simpa [MpscSys.step, hr'] using (⟨h1, hc, hp, hcl, h3, h4⟩ : MpscInv s)
  | dropReceiver =>
    simp only [MpscSys.step]
    split
    · exact ⟨h1, hc, hp, hcl, h3, by intro w hw; cases hw⟩
    · exact ⟨h1, hc, hp, hcl, h3, h4⟩

theorem MpscInv.run (s : MpscSys) (h : MpscInv s) (ops : List MpscOp) : MpscInv (s.run ops) := by
  induction ops generalizing s with
  | nil => exact h
  | cons op ops ih => exact ih _ (MpscInv.step s h op)

/-! ## notification -/

structure NotifInv (s : NotifSys) : Prop where
  count : s.ch.senderCount = s.senders.length
  no_panic : s.panicked = false
  unseen_iff : s.ch.notified = true ↔ 0 < s.unseen
  waker_ok : ∀ w, s.ch.waker = some w → s.ch.notified = false ∧ 0 < s.ch.senderCount
  waiting_ok : ∀ w, s.waiting = some w → s.ch.waker = some w

theorem NotifInv.init : NotifInv NotifSys.init := by
  constructor <;> simp [NotifSys.init, Notif.init]

theorem NotifInv.step (s : NotifSys) (h : NotifInv s) (op : NotifOp) : NotifInv (s.step op).1 := by
  obtain ⟨h1, h2, h3, h4, h5⟩ := h
  cases op with
  | notify sid =>
    by_cases hi : hasId s.senders sid = true
    · refine ⟨?_, ?_, ?_, ?_, ?_⟩ <;> simp only [NotifSys.step, hi, if_true, Notif.notifyCS]
      · exact h1
      · exact h2
      · simp
      · intro w hw; cases hw
      · intro w hw
        have := clearWaiting_some hw
        exact absurd (h5 w this.1) this.2
    · have hi' : hasId s.senders sid = false := by simpa using hi
      simpa [NotifSys.step, hi'] using (⟨h1, h2, h3, h4, h5⟩ : NotifInv s)
  | clone sid new =>
    simp only [NotifSys.step]
    split
    · refine ⟨?_, h2, h3, ?_, h5⟩
      · simp [Notif.cloneCS, h1]
      · intro w hw
        have := h4 w hw
        exact ⟨this.1, by simp [Notif.cloneCS]⟩
    · exact ⟨h1, h2, h3, h4, h5⟩
  | dropSender sid =>
    by_cases hi : hasId s.senders sid = true
    · have hlen := removeId_length s.senders sid hi
      have hpos : 0 < s.ch.senderCount := by rw [h1]; exact hasId_length_pos _ _ hi
      have hne : ¬ s.ch.senderCount = 0 := by omega
      by_cases hlast : s.ch.senderCount - 1 = 0
      · refine ⟨?_, ?_, ?_, ?_, ?_⟩ <;>
          simp only [NotifSys.step, hi, if_true, Notif.dropCS, hne, if_false, hlast]
        · omega
        · exact h2
        · exact h3
        · intro w hw; cases hw
        · intro w hw
          have := clearWaiting_some hw
          exact absurd (h5 w this.1) this.2
      · refine ⟨?_, ?_, ?_, ?_, ?_⟩ <;>
          simp only [NotifSys.step, hi, if_true, Notif.dropCS, hne, if_false, hlast, clearWaiting]
        · omega
        · exact h2
        · exact h3
        · intro w hw; exact ⟨(h4 w hw).1, by omega⟩
        · exact h5
    · have hi' : hasId s.senders sid = false := by simpa using hi
      simpa [NotifSys.step, hi'] using (⟨h1, h2, h3, h4, h5⟩ : NotifInv s)
  | poll w =>
    by_cases hr : s.rcvAlive = true
    · by_cases hn : s.ch.notified = true
      · have hnw : s.ch.waker = none := by
          cases hw : s.ch.waker with
          | none => rfl
          | some x => have := (h4 x hw).1; rw [hn] at this; cases this
        refine ⟨?_, ?_, ?_, ?_, ?_⟩ <;>
          simp only [NotifSys.step, hr, if_true, Notif.pollCS, hn, unseenAfter, pollWaiting]
        · exact h1
        · exact h2
        · simp
        · intro x hx; rw [hnw] at hx; cases hx
        · intro x hx; cases hx
      · have hn' : s.ch.notified = false := by simpa using hn
        by_cases hz : s.ch.senderCount = 0
        · refine ⟨?_, ?_, ?_, ?_, ?_⟩ <;>
            simp only [NotifSys.step, hr, if_true, Notif.pollCS, hn', Bool.false_eq_true, if_false, hz, unseenAfter, pollWaiting]
          · omega
          · exact h2
          · simpa [hn'] using h3
          · intro x hx; have := (h4 x hx).2; omega
          · intro x hx; cases hx
        · refine ⟨?_, ?_, ?_, ?_, ?_⟩ <;>
            simp only [NotifSys.step, hr, if_true, Notif.pollCS, hn', Bool.false_eq_true, if_false, hz, unseenAfter, pollWaiting]
          · exact h1
          · exact h2
          · simpa [hn'] using h3
          · intro x _; exact ⟨trivial, by omega⟩
          · intro x hx; simpa using hx
    · have hr' : s.rcvAlive = false := by simpa using hr
      simpa [NotifSys.step, hr'] using (⟨h1, h2, h3, h4, h5⟩ : NotifInv s)
  | dropReceiver =>
    simp only [NotifSys.step]
    split
    · exact ⟨h1, h2, h3, h4, by intro w hw; cases hw⟩
    · exact ⟨h1, h2, h3, h4, h5⟩

theorem NotifInv.run (s : NotifSys) (h : NotifInv s) (ops : List NotifOp) : NotifInv (s.run ops) := by
  induction ops generalizing s with
  | nil => exact h
  | cons op ops ih => exact ih _ (NotifInv.step s h op)

end DustVerif.Chan
