import DustVerif.Model.Plist
/-! Round-trip lemmas for the value codecs of Model/Plist.lean: integers, cursor, every member kind,
    member lists, whole parameter values. -/
namespace DustVerif.Plist

theorem rd16_le16 (n : Nat) (h : n < 65536) : rd16 .le (n % 256) (n / 256 % 256) = n := by
  simp only [rd16]; omega

theorem rd16_be16 (n : Nat) (h : n < 65536) : rd16 .be (n / 256 % 256) (n % 256) = n := by
  simp only [rd16]; omega

theorem rd32_le32 (n : Nat) (h : n < 4294967296) :
    rd32 .le (n % 256) (n / 256 % 256) (n / 65536 % 256) (n / 16777216 % 256) = n := by
  simp only [rd32]; omega

theorem rd32_be32 (n : Nat) (h : n < 4294967296) :
    rd32 .be (n / 16777216 % 256) (n / 65536 % 256) (n / 256 % 256) (n % 256) = n := by
  simp only [rd32]; omega

theorem toI32_ofI32 (i : Int) (h1 : -2147483648 ≤ i) (h2 : i < 2147483648) : toI32 (ofI32 i) = i := by
  simp only [toI32, ofI32]
  by_cases h : (i % 4294967296).toNat ≥ 2147483648 <;> simp only [h, ite_true, ite_false] <;> omega

theorem toI16_ofI16 (i : Int) (h1 : -32768 ≤ i) (h2 : i < 32768) : toI16 (ofI16 i) = i := by
  simp only [toI16, ofI16]
  by_cases h : (i % 65536).toNat ≥ 32768 <;> simp only [h, ite_true, ite_false] <;> omega

theorem ofI32_lt (i : Int) : ofI32 i < 4294967296 := by
  simp only [ofI32]; omega

theorem ofI16_lt (i : Int) : ofI16 i < 65536 := by
  simp only [ofI16]; omega

@[simp] theorem zeros_length (n : Nat) : (zeros n).length = n := by simp [zeros]

theorem padTo_lt (a pos : Nat) (h : 0 < a) : padTo a pos < a := by
  simp only [padTo]; exact Nat.mod_lt _ h

theorem padTo_dvd (a pos : Nat) (h : 0 < a) : (pos + padTo a pos) % a = 0 := by
  simp only [padTo]
  have h1 : pos % a < a := Nat.mod_lt _ h
  by_cases h0 : pos % a = 0
  · simp [h0]
  · have : (a - pos % a) % a = a - pos % a := Nat.mod_eq_of_lt (by omega)
    rw [this]
    have h2 : pos = a * (pos / a) + pos % a := (Nat.div_add_mod pos a).symm
    have : pos + (a - pos % a) = a * (pos / a + 1) := by
      rw [Nat.mul_add]; omega
    rw [this]; simp

/-- skipping the alignment zeros that the encoder wrote -/
theorem alignTo_zeros (a pos : Nat) (rest : Bytes) :
    alignTo a ⟨pos, zeros (padTo a pos) ++ rest⟩ = .ok ⟨pos + padTo a pos, rest⟩ := by
  simp [alignTo, skip]

theorem takeN_append (pos : Nat) (v rest : Bytes) :
    takeN v.length ⟨pos, v ++ rest⟩ = .ok (v, ⟨pos + v.length, rest⟩) := by
  simp [takeN]

theorem rdU32_enc (e : End) (pos n : Nat) (rest : Bytes) (h : n < 4294967296) :
    rdU32 e ⟨pos, zeros (padTo 4 pos) ++ (enc32 e n ++ rest)⟩ = .ok (n, ⟨pos + padTo 4 pos + 4, rest⟩) := by
  cases e
  · simp only [rdU32, alignTo_zeros, enc32, List.cons_append, List.nil_append, rd32_le32 n h]
  · simp only [rdU32, alignTo_zeros, enc32, List.cons_append, List.nil_append, rd32_be32 n h]

theorem rdU16_enc (e : End) (pos n : Nat) (rest : Bytes) (h : n < 65536) :
    rdU16 e ⟨pos, zeros (padTo 2 pos) ++ (enc16 e n ++ rest)⟩ = .ok (n, ⟨pos + padTo 2 pos + 2, rest⟩) := by
  cases e
  · simp only [rdU16, alignTo_zeros, enc16, List.cons_append, List.nil_append, rd16_le16 n h]
  · simp only [rdU16, alignTo_zeros, enc16, List.cons_append, List.nil_append, rd16_be16 n h]


@[simp] theorem le32_length (e : End) (n : Nat) : (enc32 e n).length = 4 := by cases e <;> rfl
@[simp] theorem le16_length (e : End) (n : Nat) : (enc16 e n).length = 2 := by cases e <;> rfl

/-- a string the encoder can write and the decoder accepts: valid UTF-8, length fits the u32 -/
def StrOk (s : Bytes) : Prop := utf8Valid s = true ∧ s.length + 1 < 4294967296

theorem encStr_length (e : End) (s : Bytes) (pos : Nat) : (encStr e s pos).length = padTo 4 pos + 4 + s.length + 1 := by
  simp [encStr]; omega

theorem rdStr_enc (strict : Bool) (cfg : Cfg) (e : End) (s : Bytes) (pos : Nat) (rest : Bytes) (h : StrOk s) :
    rdStr strict cfg e ⟨pos, encStr e s pos ++ rest⟩ = .ok (s, ⟨pos + (encStr e s pos).length, rest⟩) := by
  obtain ⟨hu, hl⟩ := h
  have hm : (s.length + 1) % 4294967296 = s.length + 1 := Nat.mod_eq_of_lt hl
  simp only [rdStr, encStr, List.append_assoc, hm, rdU32_enc e pos (s.length + 1) _ hl]
  have h0 : (s.length + 1 == 0) = false := by simp
  simp only [h0, Bool.false_and, Bool.false_eq_true, if_false, Nat.add_sub_cancel, takeN_append, rdU8,
    List.cons_append, List.nil_append, hu, if_true, List.length_append, zeros_length, le32_length, List.length_cons,
    List.length_nil]
  congr 2
  simp only [Cur.mk.injEq, and_true]
  omega


theorem rdStrs_enc (cfg : Cfg) (e : End) (l : List Bytes) : ∀ (pos : Nat) (rest : Bytes), (∀ s ∈ l, StrOk s) →
    rdStrs cfg e l.length ⟨pos, encStrs e l pos ++ rest⟩ = .ok (l, ⟨pos + (encStrs e l pos).length, rest⟩) := by
  induction l with
  | nil => intro pos rest _; simp [rdStrs, encStrs]
  | cons s l ih =>
    intro pos rest h
    have hs : StrOk s := h s (by simp)
    have hl : ∀ t ∈ l, StrOk t := fun t ht => h t (by simp [ht])
    simp only [List.length_cons, rdStrs, encStrs, List.append_assoc, rdStr_enc false cfg e s pos _ hs, ih _ rest hl,
      List.length_append]
    congr 2
    simp only [Cur.mk.injEq, and_true]
    omega

theorem rdU16s_enc (e : End) (l : List Nat) : ∀ (pos : Nat) (rest : Bytes), (∀ x ∈ l, x < 65536) →
    rdU16s e l.length ⟨pos, encU16s e l pos ++ rest⟩ = .ok (l, ⟨pos + (encU16s e l pos).length, rest⟩) := by
  induction l with
  | nil => intro pos rest _; simp [rdU16s, encU16s]
  | cons v l ih =>
    intro pos rest h
    have hv : v < 65536 := h v (by simp)
    have hl : ∀ t ∈ l, t < 65536 := fun t ht => h t (by simp [ht])
    simp only [List.length_cons, rdU16s, encU16s, List.append_assoc, rdU16_enc e pos v _ hv, ih _ rest hl,
      List.length_append, zeros_length, le16_length]
    congr 2
    simp only [Cur.mk.injEq, and_true]
    omega

/-- value domain of a member kind -/
def WFp : Prim → PVal → Prop
  | .u8, .n _ => True
  | .i16, .i x => -32768 ≤ x ∧ x < 32768
  | .enum16 _, .i x => -32768 ≤ x ∧ x < 32768
  | .i32, .i x => -2147483648 ≤ x ∧ x < 2147483648
  | .enum32 _, .i x => -2147483648 ≤ x ∧ x < 2147483648
  | .u32, .n x => x < 4294967296
  | .boolC, .b _ => True
  | .boolX, .b _ => True
  | .arr n, .bs x => x.length = n
  | .strC, .bs s => StrOk s
  | .strX, .bs s => StrOk s
  | .octets, .bs x => x.length < 4294967296
  | .strs, .ss l => l.length < 4294967296 ∧ l.length * 24 ≤ allocLimit ∧ ∀ s ∈ l, StrOk s
  | .u16s, .ns l => l.length < 4294967296 ∧ l.length * 2 ≤ allocLimit ∧ ∀ x ∈ l, x < 65536
  | _, _ => False

theorem reserve_false (cfg : Cfg) (n k rem : Nat) (h : n * k ≤ allocLimit) : reserve cfg n k rem = false := by
  simp only [reserve, decide_eq_false_iff_not, Nat.not_lt]
  by_cases hf : cfg.fixD13 = true
  · simp only [hf, if_true]
    exact Nat.le_trans (Nat.mul_le_mul_right k (Nat.min_le_left n rem)) h
  · simp only [hf, Bool.false_eq_true, if_false]; exact h

/-- every member kind: what the decoder reads from what the encoder wrote is the value, and the cursor is
    exactly behind it — for both configurations and any position -/
theorem decPrim_enc (cfg : Cfg) (e : End) (p : Prim) (v : PVal) (pos : Nat) (rest : Bytes) (h : WFp p v) :
    decPrim cfg e p ⟨pos, encPrim e p v pos ++ rest⟩ = .ok (v, ⟨pos + (encPrim e p v pos).length, rest⟩) := by
  cases p <;> cases v <;> simp only [WFp] at h
  case u8.n x => simp [decPrim, encPrim, rdU8]
  case i16.i x =>
    simp only [decPrim, encPrim, List.append_assoc, rdU16_enc e pos _ rest (ofI16_lt x), toI16_ofI16 x h.1 h.2,
      List.length_append, zeros_length, le16_length]
    congr 2 <;> (try simp only [Cur.mk.injEq, and_true]) <;> (try omega)
  case enum16.i vals x =>
    simp only [decPrim, encPrim, List.append_assoc, rdU16_enc e pos _ rest (ofI16_lt x), toI16_ofI16 x h.1 h.2,
      List.length_append, zeros_length, le16_length]
    congr 2 <;> (try simp only [Cur.mk.injEq, and_true]) <;> (try omega)
  case i32.i x =>
    simp only [decPrim, encPrim, List.append_assoc, rdU32_enc e pos _ rest (ofI32_lt x), toI32_ofI32 x h.1 h.2,
      List.length_append, zeros_length, le32_length]
    congr 2 <;> (try simp only [Cur.mk.injEq, and_true]) <;> (try omega)
  case enum32.i vals x =>
    simp only [decPrim, encPrim, List.append_assoc, rdU32_enc e pos _ rest (ofI32_lt x), toI32_ofI32 x h.1 h.2,
      List.length_append, zeros_length, le32_length]
    congr 2 <;> (try simp only [Cur.mk.injEq, and_true]) <;> (try omega)
  case u32.n x =>
    simp only [decPrim, encPrim, List.append_assoc, rdU32_enc e pos _ rest h,
      List.length_append, zeros_length, le32_length]
    congr 2 <;> (try simp only [Cur.mk.injEq, and_true]) <;> (try omega)
  case boolC.b x => cases x <;> simp [decPrim, encPrim, rdU8]
  case boolX.b x => cases x <;> simp [decPrim, encPrim, rdU8]
  case arr.bs n x =>
    subst h
    simp only [decPrim, encPrim, takeN_append]
  case strC.bs s => simp only [decPrim, encPrim, rdStr_enc true cfg e s pos rest h]
  case strX.bs s => simp only [decPrim, encPrim, rdStr_enc false cfg e s pos rest h]
  case octets.bs x =>
    simp only [decPrim, encPrim, List.append_assoc, Nat.mod_eq_of_lt h, rdU32_enc e pos _ _ h, takeN_append,
      List.length_append, zeros_length, le32_length]
    congr 2 <;> (try simp only [Cur.mk.injEq, and_true]) <;> (try omega)
  case strs.ss l =>
    obtain ⟨h1, h2, h3⟩ := h
    simp only [decPrim, encPrim, List.append_assoc, Nat.mod_eq_of_lt h1, rdU32_enc e pos _ _ h1,
      reserve_false cfg _ 24 _ h2, Bool.false_eq_true, if_false, rdStrs_enc cfg e l _ rest h3,
      List.length_append, zeros_length, le32_length]
    congr 2 <;> (try simp only [Cur.mk.injEq, and_true]) <;> (try omega)
  case u16s.ns l =>
    obtain ⟨h1, h2, h3⟩ := h
    simp only [decPrim, encPrim, List.append_assoc, Nat.mod_eq_of_lt h1, rdU32_enc e pos _ _ h1,
      reserve_false cfg _ 2 _ h2, Bool.false_eq_true, if_false, rdU16s_enc e l _ rest h3,
      List.length_append, zeros_length, le32_length]
    congr 2 <;> (try simp only [Cur.mk.injEq, and_true]) <;> (try omega)


/-- value domain of a member list -/
def WFm : List Prim → List PVal → Prop
  | [], [] => True
  | p :: ps, v :: vs => WFp p v ∧ WFm ps vs
  | _, _ => False

theorem decMembers_enc (cfg : Cfg) (e : End) (ps : List Prim) :
    ∀ (vs : List PVal) (pos : Nat) (rest : Bytes), WFm ps vs →
    decMembers cfg e ps ⟨pos, encMembers e ps vs pos ++ rest⟩
      = .ok (vs, ⟨pos + (encMembers e ps vs pos).length, rest⟩) := by
  induction ps with
  | nil =>
    intro vs pos rest h
    cases vs with
    | nil => simp [decMembers, encMembers]
    | cons v vs => simp [WFm] at h
  | cons p ps ih =>
    intro vs pos rest h
    cases vs with
    | nil => simp [WFm] at h
    | cons v vs =>
      obtain ⟨h1, h2⟩ := h
      simp only [decMembers, encMembers, List.append_assoc, decPrim_enc cfg e p v pos _ h1, ih vs _ rest h2,
        List.length_append]
      congr 2 <;> (try simp only [Cur.mk.injEq, and_true]) <;> (try omega)

theorem normHistory_idem (vs : List PVal) : normHistory (normHistory vs) = normHistory vs := by
  generalize hr : normHistory vs = r
  unfold normHistory at hr
  split at hr
  · next k d =>
    by_cases hk : k = 1
    · simp [hk] at hr; subst hr; simp [normHistory]
    · simp [hk] at hr; subst hr; simp [normHistory, hk]
  · next h =>
    subst hr
    unfold normHistory
    split
    · next k d => exact absurd rfl (h k d)
    · rfl

theorem normPost_idem (p : Post) (vs : List PVal) : normPost p (normPost p vs) = normPost p vs := by
  cases p with
  | none => simp [normPost]
  | history => simp [normPost, normHistory_idem]

/-- value domain of a whole parameter value: what `into_bytes` writes (the normalised members) is in the domain of
    every member kind, and the enum members hold one of their declared values -/
def WFc (c : Codec) (vs : List PVal) : Prop :=
  WFm c.members (normPost c.post vs) ∧ enumsOk c.members (normPost c.post vs) = true

/-- a parameter value round-trips (padding or anything else may follow it) -/
theorem decCodec_enc (cfg : Cfg) (e : End) (c : Codec) (vs : List PVal) (pad : Bytes) (h : WFc c vs) :
    decCodec cfg e c (encCodec e c vs ++ pad) = .ok (some (normPost c.post vs)) := by
  obtain ⟨h1, h2⟩ := h
  simp only [decCodec, encCodec, decMembers_enc cfg e c.members _ 0 pad h1, sample, h2, if_true, normPost_idem]

end DustVerif.Plist
