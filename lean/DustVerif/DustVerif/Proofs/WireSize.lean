import DustVerif.Proofs.WireLoop
/-! Bounds on the decoded value: number of submessages and octets held (C07, RTPS part). -/
namespace DustVerif.Wire
open Outcome

theorem paramRead_size (le : Bool) (d : List Nat) (p : Param) (r : List Nat) (h : paramRead le d = ok (p, r)) :
    p.value.length + r.length + 4 ≤ d.length := by
  unfold paramRead at h
  split at h
  · rename_i b0 b1 b2 b3 r0
    simp only [] at h
    split at h
    · simp at h
    · split at h
      · simp at h
        obtain ⟨hp, hr⟩ := h
        subst hp hr
        simp
      · split at h
        · simp at h
        · simp at h
          obtain ⟨hp, hr⟩ := h
          subst hp hr
          simp
          omega
  · simp at h

theorem paramListRead_size (le : Bool) (fuel : Nat) (d : List Nat) (ps : List Param) (r : List Nat)
    (h : paramListRead le fuel d = ok (ps, r)) : paramsSize ps + r.length ≤ d.length := by
  induction fuel generalizing d ps r with
  | zero =>
    simp [paramListRead] at h
    obtain ⟨hp, hr⟩ := h
    subst hp hr
    simp [paramsSize]
  | succ k ih =>
    rw [paramListRead] at h
    cases h1 : paramRead le d with
    | err e => simp [h1] at h
    | panic => simp [h1] at h
    | ok pr =>
      obtain ⟨p, r1⟩ := pr
      have hs := paramRead_size le d p r1 h1
      simp only [h1] at h
      by_cases hsent : p.pid = PID_SENTINEL
      · simp [hsent] at h
        obtain ⟨hp, hr⟩ := h
        subst hp hr
        simp [paramsSize]
        omega
      · simp only [hsent, if_false] at h
        cases h2 : paramListRead le k r1 with
        | err e => simp [h2] at h
        | panic => simp [h2] at h
        | ok pr2 =>
          obtain ⟨ps2, r2⟩ := pr2
          have := ih r1 ps2 r2 h2
          simp [h2] at h
          obtain ⟨hp, hr⟩ := h
          subst hp hr
          simp [paramsSize]
          omega

theorem qosAndPayload_size (le q : Bool) (len oti : Nat) (data : List Nat) (qos : List Param) (rest : List Nat)
    (h : qosAndPayload le q len oti data = ok (qos, rest)) (hl : len ≤ data.length) :
    paramsSize qos + rest.length ≤ (if len = 0 then data.length else len) := by
  unfold qosAndPayload at h
  simp only [] at h
  generalize hend : (if len = 0 then data.length else len) = endp at h ⊢
  have he : endp ≤ data.length := by subst hend; split <;> omega
  by_cases ho : oti > endp
  · simp [ho] at h
  · simp only [ho, if_false] at h
    cases q
    · simp at h
      obtain ⟨hp, hr⟩ := h
      subst hp hr
      simp [paramsSize]
      omega
    · simp at h
      have := paramListRead_size _ _ _ _ _ h
      simp at this
      omega


/-! ### shape and size of what each parser returns -/
theorem dataRead_size (le : Bool) (fl len : Nat) (data : List Nat) (s : Sub) (h : dataRead le fl len data = ok s) :
    s.isDataLike = true ∧ s.isReply = false ∧ s.size ≤ (if len = 0 then data.length else len) := by
  unfold dataRead at h
  repeat' split at h
  all_goals (try (simp at h; done))
  all_goals (
    simp at h
    subst h
    rename_i hq hif
    have hl : len ≤ data.length := by omega
    have := qosAndPayload_size _ _ _ _ _ _ _ hq hl
    simp only [Sub.isDataLike, Sub.isReply, Sub.size, true_and, List.length_nil]
    omega)

theorem dataFragRead_size (le : Bool) (fl len : Nat) (data : List Nat) (s : Sub)
    (h : dataFragRead le fl len data = ok s) :
    s.isDataLike = true ∧ s.isReply = false ∧ s.size ≤ (if len = 0 then data.length else len) := by
  unfold dataFragRead at h
  repeat' split at h
  all_goals (try (simp at h; done))
  all_goals (
    simp at h
    subst h
    rename_i hq
    have hl : len ≤ data.length := by omega
    have := qosAndPayload_size _ _ _ _ _ _ _ hq hl
    simp only [Sub.isDataLike, Sub.isReply, Sub.size, true_and]
    omega)

/-- "small" parsers: nothing held on the heap, not DATA-like, not INFO_REPLY -/
def Sub.plain (s : Sub) : Prop := s.isDataLike = false ∧ s.isReply = false ∧ s.size = 0

theorem gapRead_plain (chk le : Bool) (d : List Nat) (s : Sub) (h : gapRead chk le d = ok s) : s.plain := by
  unfold gapRead at h
  repeat' split at h
  all_goals (try (simp at h; done))
  all_goals (simp at h; subst h; simp [Sub.plain, Sub.isDataLike, Sub.isReply, Sub.size])
theorem heartbeatRead_plain (le : Bool) (fl : Nat) (d : List Nat) (s : Sub) (h : heartbeatRead le fl d = ok s) : s.plain := by
  unfold heartbeatRead at h
  repeat' split at h
  all_goals (try (simp at h; done))
  all_goals (simp at h; subst h; simp [Sub.plain, Sub.isDataLike, Sub.isReply, Sub.size])
theorem ackNackRead_plain (chk le : Bool) (fl : Nat) (d : List Nat) (s : Sub) (h : ackNackRead chk le fl d = ok s) : s.plain := by
  unfold ackNackRead at h
  repeat' split at h
  all_goals (try (simp at h; done))
  all_goals (simp at h; subst h; simp [Sub.plain, Sub.isDataLike, Sub.isReply, Sub.size])
theorem nackFragRead_plain (g le : Bool) (d : List Nat) (s : Sub) (h : nackFragRead g le d = ok s) : s.plain := by
  unfold nackFragRead at h
  repeat' split at h
  all_goals (try (simp at h; done))
  all_goals (simp at h; subst h; simp [Sub.plain, Sub.isDataLike, Sub.isReply, Sub.size])
theorem heartbeatFragRead_plain (le : Bool) (d : List Nat) (s : Sub) (h : heartbeatFragRead le d = ok s) : s.plain := by
  unfold heartbeatFragRead at h
  repeat' split at h
  all_goals (try (simp at h; done))
  all_goals (simp at h; subst h; simp [Sub.plain, Sub.isDataLike, Sub.isReply, Sub.size])
theorem infoDstRead_plain (d : List Nat) (s : Sub) (h : infoDstRead d = ok s) : s.plain := by
  unfold infoDstRead at h
  repeat' split at h
  all_goals (try (simp at h; done))
  all_goals (simp at h; subst h; simp [Sub.plain, Sub.isDataLike, Sub.isReply, Sub.size])
theorem infoSrcRead_plain (le : Bool) (d : List Nat) (s : Sub) (h : infoSrcRead le d = ok s) : s.plain := by
  unfold infoSrcRead at h
  repeat' split at h
  all_goals (try (simp at h; done))
  all_goals (simp at h; subst h; simp [Sub.plain, Sub.isDataLike, Sub.isReply, Sub.size])
theorem infoTsRead_plain (le : Bool) (fl : Nat) (d : List Nat) (s : Sub) (h : infoTsRead le fl d = ok s) : s.plain := by
  unfold infoTsRead at h
  repeat' split at h
  all_goals (try (simp at h; done))
  all_goals (simp at h; subst h; simp [Sub.plain, Sub.isDataLike, Sub.isReply, Sub.size])

/-! ### INFO_REPLY: locators are read from the whole rest of the datagram -/
theorem locatorRead_len (le : Bool) (d : List Nat) (l : Locator) (r : List Nat) (h : locatorRead le d = ok (l, r)) :
    r.length + 24 ≤ d.length := by
  unfold locatorRead at h
  cases h1 : readI32 le d with
  | err e => simp [h1] at h
  | panic => simp [h1] at h
  | ok p1 =>
    obtain ⟨k, d1⟩ := p1
    cases h2 : readU32 le d1 with
    | err e => simp [h1, h2] at h
    | panic => simp [h1, h2] at h
    | ok p2 =>
      obtain ⟨port, d2⟩ := p2
      cases h3 : readBytes 16 d2 with
      | err e => simp [h1, h2, h3] at h
      | panic => simp [h1, h2, h3] at h
      | ok p3 =>
        obtain ⟨addr, d3⟩ := p3
        simp [h1, h2, h3] at h
        have e1 := readI32_ok_drop le d k d1 h1
        have e2 := readU32_ok_drop le d1 port d2 h2
        have e3 := readBytes_ok_drop 16 d2 addr d3 h3
        have l3 : 16 ≤ d2.length := by
          unfold readBytes at h3
          split at h3 <;> simp at h3
          omega
        rw [← h.2, e3, List.length_drop]
        rw [e2, List.length_drop] at l3 ⊢
        rw [e1, List.length_drop] at l3 ⊢
        omega

theorem locatorsRead_size (le : Bool) (n : Nat) (d : List Nat) (ls : List Locator) (r : List Nat)
    (h : locatorsRead le n d = ok (ls, r)) : 24 * ls.length + r.length ≤ d.length := by
  induction n generalizing d ls r with
  | zero =>
    simp [locatorsRead] at h
    obtain ⟨h1, h2⟩ := h
    subst h1 h2
    simp
  | succ k ih =>
    rw [locatorsRead] at h
    cases h1 : locatorRead le d with
    | err e => simp [h1] at h
    | panic => simp [h1] at h
    | ok p1 =>
      obtain ⟨l, r1⟩ := p1
      have hl := locatorRead_len le d l r1 h1
      cases h2 : locatorsRead le k r1 with
      | err e => simp [h1, h2] at h
      | panic => simp [h1, h2] at h
      | ok p2 =>
        obtain ⟨ls2, r2⟩ := p2
        have := ih r1 ls2 r2 h2
        simp [h1, h2] at h
        obtain ⟨ha, hb⟩ := h
        subst ha hb
        simp
        omega

theorem locatorListRead_size (le : Bool) (d : List Nat) (ls : List Locator) (r : List Nat)
    (h : locatorListRead le d = ok (ls, r)) : 24 * ls.length + r.length ≤ d.length := by
  unfold locatorListRead at h
  cases h1 : readU32 le d with
  | err e => simp [h1] at h
  | panic => simp [h1] at h
  | ok p1 =>
    obtain ⟨n, r1⟩ := p1
    simp [h1] at h
    have := locatorsRead_size le n r1 ls r h
    have e := readU32_ok_drop le d n r1 h1
    rw [e, List.length_drop] at this
    omega

theorem infoReplyRead_size (le : Bool) (fl : Nat) (d : List Nat) (s : Sub) (h : infoReplyRead le fl d = ok s) :
    s.isDataLike = false ∧ s.size ≤ d.length := by
  unfold infoReplyRead at h
  cases h1 : locatorListRead le d with
  | err e => simp [h1] at h
  | panic => simp [h1] at h
  | ok p1 =>
    obtain ⟨uni, s1⟩ := p1
    have hu := locatorListRead_size le d uni s1 h1
    simp only [h1] at h
    by_cases hm : flagBit fl 1 = true
    · simp only [hm, if_true] at h
      cases h2 : locatorListRead le s1 with
      | err e => simp [h2] at h
      | panic => simp [h2] at h
      | ok p2 =>
        obtain ⟨multi, s2⟩ := p2
        have hmu := locatorListRead_size le s1 multi s2 h2
        simp [h2] at h
        subst h
        simp [Sub.isDataLike, Sub.size]
        omega
    · simp [hm] at h
      subst h
      simp [Sub.isDataLike, Sub.size]
      omega


/-! ### dispatch elimination and the loop -/
theorem decodeSub_cases (c : Cfg) (id fl len : Nat) (le : Bool) (v : List Nat) (P : Outcome Sub → Prop)
    (h06 : P (ackNackRead c.snchk le fl v)) (h15 : P (dataRead le fl len v)) (h16 : P (dataFragRead le fl len v))
    (h08 : P (gapRead c.snchk le v)) (h07 : P (heartbeatRead le fl v)) (h13 : P (heartbeatFragRead le v))
    (h0e : P (infoDstRead v)) (h0f : P (infoReplyRead le fl v)) (h0c : P (infoSrcRead le v))
    (h09 : P (infoTsRead le fl v)) (h12 : P (nackFragRead c.d5 le v)) (hpad : P (ok .pad))
    (hunk : P (err .unknownMessage)) : P (decodeSub c id fl len le v) := by
  unfold decodeSub
  by_cases c0 : id = 0x06
  · rw [if_pos c0]; exact h06
  rw [if_neg c0]
  by_cases c1 : id = 0x15
  · rw [if_pos c1]; exact h15
  rw [if_neg c1]
  by_cases c2 : id = 0x16
  · rw [if_pos c2]; exact h16
  rw [if_neg c2]
  by_cases c3 : id = 0x08
  · rw [if_pos c3]; exact h08
  rw [if_neg c3]
  by_cases c4 : id = 0x07
  · rw [if_pos c4]; exact h07
  rw [if_neg c4]
  by_cases c5 : id = 0x13
  · rw [if_pos c5]; exact h13
  rw [if_neg c5]
  by_cases c6 : id = 0x0e
  · rw [if_pos c6]; exact h0e
  rw [if_neg c6]
  by_cases c7 : id = 0x0f
  · rw [if_pos c7]; exact h0f
  rw [if_neg c7]
  by_cases c8 : id = 0x0c
  · rw [if_pos c8]; exact h0c
  rw [if_neg c8]
  by_cases c9 : id = 0x09
  · rw [if_pos c9]; exact h09
  rw [if_neg c9]
  by_cases c10 : id = 0x12
  · rw [if_pos c10]; exact h12
  rw [if_neg c10]
  by_cases c11 : id = 0x01
  · rw [if_pos c11]; exact hpad
  rw [if_neg c11]; exact hunk

/-- what one dispatched submessage holds, relative to the octets the loop will skip for it -/
def SubBound (len : Nat) (v : List Nat) (o : Outcome Sub) : Prop :=
  ∀ s, o = ok s →
    (s.isReply = false → s.size ≤ (if len = 0 ∧ s.isDataLike = true then v.length else len)) ∧ s.size ≤ v.length

theorem subBound_plain (len : Nat) (v : List Nat) (o : Outcome Sub) (h : ∀ s, o = ok s → s.plain) : SubBound len v o := by
  intro s hs
  obtain ⟨h1, h2, h3⟩ := h s hs
  simp [h1, h3]

theorem decodeSub_size (c : Cfg) (id fl len : Nat) (le : Bool) (v : List Nat) (hl : len ≤ v.length) :
    SubBound len v (decodeSub c id fl len le v) := by
  apply decodeSub_cases
  · exact subBound_plain _ _ _ (ackNackRead_plain c.snchk le fl v)
  · intro s hs
    obtain ⟨h1, h2, h3⟩ := dataRead_size le fl len v s hs
    simp only [h1, and_true]
    constructor
    · intro _; exact h3
    · split at h3 <;> omega
  · intro s hs
    obtain ⟨h1, h2, h3⟩ := dataFragRead_size le fl len v s hs
    simp only [h1, and_true]
    constructor
    · intro _; exact h3
    · split at h3 <;> omega
  · exact subBound_plain _ _ _ (gapRead_plain c.snchk le v)
  · exact subBound_plain _ _ _ (heartbeatRead_plain le fl v)
  · exact subBound_plain _ _ _ (heartbeatFragRead_plain le v)
  · exact subBound_plain _ _ _ (infoDstRead_plain v)
  · intro s hs
    obtain ⟨h1, h2⟩ := infoReplyRead_size le fl v s hs
    constructor
    · intro hr
      unfold infoReplyRead at hs
      repeat' split at hs
      all_goals simp at hs
      all_goals (subst hs; simp [Sub.isReply] at hr)
    · exact h2
  · exact subBound_plain _ _ _ (infoSrcRead_plain le v)
  · exact subBound_plain _ _ _ (infoTsRead_plain le fl v)
  · exact subBound_plain _ _ _ (nackFragRead_plain c.d5 le v)
  · intro s hs
    simp at hs
    subst hs
    simp [Sub.size, Sub.isDataLike]
  · intro s hs
    simp at hs

/-- bounds on what the loop returns, for every tree:
    * at most `fuel` submessages and at most one per 4 octets,
    * every single submessage holds at most `v.length` octets,
    * with fixes/D-wire-3.patch (`c.ext`) the whole value holds at most `v.length` octets,
    * without it the same is true only if no INFO_REPLY was decoded. -/
theorem decodeLoop_bounds (c : Cfg) (fuel : Nat) (v : List Nat) (ss : List Sub) (h : decodeLoop c fuel v = ok ss) :
    ss.length ≤ fuel ∧ 4 * ss.length ≤ v.length ∧ (∀ s ∈ ss, s.size ≤ v.length) ∧
      ((c.ext = true ∨ ∀ s ∈ ss, s.isReply = false) → subsSize ss + 4 * ss.length ≤ v.length) := by
  induction fuel generalizing v ss with
  | zero =>
    simp [decodeLoop] at h
    subst h
    simp [subsSize]
  | succ k ih =>
    unfold decodeLoop at h
    split at h
    · rename_i id fl l0 l1 rest
      simp only [] at h
      split at h
      · simp at h
        subst h
        simp [subsSize]
      · rename_i hlen
        have hl : u16of (decide (fl % 2 = 1)) l0 l1 ≤ rest.length := by omega
        split at h
        · -- fixes/D-wire-3.patch: the parser sees its own extent only
          rename_i hext
          have hE : extentOf id (u16of (decide (fl % 2 = 1)) l0 l1) rest.length ≤ rest.length := by
            unfold extentOf; split <;> omega
          have hlE : u16of (decide (fl % 2 = 1)) l0 l1 ≤ extentOf id (u16of (decide (fl % 2 = 1)) l0 l1) rest.length := by
            unfold extentOf; split <;> omega
          generalize extentOf id (u16of (decide (fl % 2 = 1)) l0 l1) rest.length = E at h hE hlE
          have htl : (rest.take E).length = E := by simp; omega
          split at h
          · rename_i s hs
            have hB : s.size ≤ (rest.take E).length := (decodeSub_size c _ _ _ _ _ (by omega) s hs).2
            have hBE : s.size ≤ E := by omega
            split at h
            · rename_i ss' hrec
              simp at h
              subst h
              obtain ⟨i1, i2, i3, i4⟩ := ih _ _ hrec
              rw [List.length_drop] at i2 i3 i4
              refine ⟨by simp; omega, by simp; omega, ?_, ?_⟩
              · intro x hx
                simp at hx
                rcases hx with hx | hx
                · subst hx; simp; omega
                · have := i3 x hx
                  simp; omega
              · intro _
                have := i4 (Or.inl hext)
                simp only [subsSize, List.length_cons]
                omega
            · simp at h
            · simp at h
          · obtain ⟨i1, i2, i3, i4⟩ := ih _ _ h
            rw [List.length_drop] at i2 i3 i4
            refine ⟨by omega, by simp; omega, ?_, ?_⟩
            · intro x hx
              have := i3 x hx
              simp; omega
            · intro _
              have := i4 (Or.inl hext)
              simp; omega
          · simp at h
        · -- before the patch
          rename_i hext
          have hext' : c.ext = false := by cases hc : c.ext <;> simp_all
          split at h
          · rename_i s hs
            obtain ⟨hA, hB⟩ := decodeSub_size c _ _ _ _ _ hl s hs
            split at h
            · rename_i ss' hrec
              simp at h
              subst h
              obtain ⟨i1, i2, i3, i4⟩ := ih _ _ hrec
              rw [List.length_drop] at i2 i3 i4
              refine ⟨by simp; omega, by simp; omega, ?_, ?_⟩
              · intro x hx
                simp at hx
                rcases hx with hx | hx
                · subst hx; simp; omega
                · have := i3 x hx
                  simp; omega
              · intro hall
                have hall' : ∀ x ∈ s :: ss', x.isReply = false := by
                  rcases hall with h1 | h1
                  · rw [hext'] at h1; simp at h1
                  · exact h1
                have hs1 := hA (hall' s (by simp))
                have hs2 := i4 (Or.inr (fun x hx => hall' x (by simp [hx])))
                simp only [subsSize, List.length_cons]
                split at hs1 <;> split at hs2 <;> simp_all <;> omega
            · simp at h
            · simp at h
          · obtain ⟨i1, i2, i3, i4⟩ := ih _ _ h
            rw [List.length_drop] at i2 i3 i4
            refine ⟨by omega, by simp; omega, ?_, ?_⟩
            · intro x hx
              have := i3 x hx
              simp; omega
            · intro hall
              have := i4 hall
              simp; omega
          · simp at h
    · simp at h
      subst h
      simp [subsSize]

end DustVerif.Wire
