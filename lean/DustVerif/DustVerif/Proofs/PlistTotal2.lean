import DustVerif.Proofs.PlistTotal
/-! Totality of the record decoder (second part): the iterator only yields slices of the input. -/
namespace DustVerif.Plist

theorem scan_items_le (e : End) (f : Nat) : ∀ (data : Bytes), ∀ p ∈ (scan e f data).1, p.2.length ≤ data.length := by
  induction f with
  | zero => intro data p hp; simp [scan] at hp
  | succ f ih =>
    intro data p hp
    match data with
    | [] => simp [scan] at hp
    | [_] => simp [scan] at hp
    | [_, _] => simp [scan] at hp
    | [_, _, _] => simp [scan] at hp
    | a :: b :: c :: d :: r =>
      simp only [scan] at hp
      split at hp
      · simp at hp
      · simp only [List.mem_cons] at hp
        rcases hp with hp | hp
        · subst hp
          simp only [List.length_take, List.length_cons]
          omega
        · have := ih (r.drop (rd16 e c d)) p hp
          simp only [List.length_drop, List.length_cons] at this ⊢
          omega

theorem mkPl_items_le (cfg : Cfg) (data : Bytes) : ∀ p ∈ (mkPl cfg data).items, p.2.length ≤ data.length := by
  unfold mkPl
  simp only
  split
  · next en h =>
    by_cases hf : cfg.fixHdr = true
    · simp only [hf, if_true]
      intro p hp
      have := scan_items_le en data.length (data.drop 4) p hp
      simp only [List.length_drop] at this
      omega
    · simp only [hf, Bool.false_eq_true, if_false]
      exact scan_items_le en data.length data
  · intro p hp; simp at hp

theorem findPid_mem (q : Nat) (xs : List Param) (v : Bytes) (h : findPid q xs = some v) : ∃ p ∈ xs, p.2 = v := by
  induction xs with
  | nil => simp [findPid] at h
  | cons p ps ih =>
    simp only [findPid] at h
    split at h
    · simp only [Option.some.injEq] at h; exact ⟨p, by simp, h⟩
    · obtain ⟨r, hr, hv⟩ := ih h; exact ⟨r, by simp [hr], hv⟩

theorem filterPid_mem (q : Nat) (xs : List Param) : ∀ v ∈ filterPid q xs, ∃ p ∈ xs, p.2 = v := by
  induction xs with
  | nil => simp [filterPid]
  | cons p ps ih =>
    intro v hv
    simp only [filterPid] at hv
    split at hv
    · simp only [List.mem_cons] at hv
      rcases hv with hv | hv
      · exact ⟨p, by simp, hv.symm⟩
      · obtain ⟨r, hr, h⟩ := ih v hv; exact ⟨r, by simp [hr], h⟩
    · obtain ⟨r, hr, h⟩ := ih v hv; exact ⟨r, by simp [hr], h⟩

variable (cfg : Cfg) (h11 : cfg.fixD11 = true) (h13 : cfg.fixD13 = true)

include h11 h13 in
theorem decFound_total (pl : Pl) (en : End) (c : Codec) (v : Bytes) (hb : v.length * 24 ≤ allocLimit) :
    (decFound cfg pl en c v).total := by
  unfold decFound
  have := decCodec_total cfg h11 h13 en c v hb
  split
  · exact this
  · split
    · exact this
    · simp [Out.total]

include h11 h13 in
theorem decList_total (en : End) (c : Codec) (vs : List Bytes) (hb : ∀ v ∈ vs, v.length * 24 ≤ allocLimit) :
    (decList cfg en c vs).total := by
  induction vs with
  | nil => simp [decList, Out.total]
  | cons v vs ih =>
    simp only [decList]
    have h1 := decCodec_total cfg h11 h13 en c v (hb v (by simp))
    have h2 := ih (fun x hx => hb x (by simp [hx]))
    split
    · split <;> simp_all [Out.total]
    all_goals simp_all [Out.total]

include h11 h13 in
theorem decField_total (pl : Pl) (f : DecField) (hb : ∀ p ∈ pl.items, p.2.length * 24 ≤ allocLimit) :
    (decField cfg pl f).total := by
  have hseek : ∀ v en, seek pl f.pid = .ok (some v, en) → v.length * 24 ≤ allocLimit := by
    intro v en h
    unfold seek at h
    split at h
    · simp at h
    · split at h
      · next w hw =>
        simp only [Out.ok.injEq, Prod.mk.injEq, Option.some.injEq] at h
        obtain ⟨p, hp, hv⟩ := findPid_mem _ _ _ hw
        rw [← h.1, ← hv]; exact hb p hp
      · split at h <;> simp at h
  have hseekT : (seek pl f.pid).total := by
    unfold seek
    split
    · simp [Out.total]
    · split
      · simp [Out.total]
      · split <;> simp [Out.total]
  unfold decField
  split
  · -- required
    split
    · next v en hs =>
      have := decFound_total cfg h11 h13 pl en f.codec v (hseek v en hs)
      split <;> simp_all [Out.total]
    all_goals simp_all [Out.total]
  · -- requiredOk
    split
    · next v en hs =>
      have := decFound_total cfg h11 h13 pl en f.codec v (hseek v en hs)
      split <;> simp_all [Out.total]
    all_goals simp_all [Out.total]
  · -- optional
    split
    · next v en hs =>
      have := decFound_total cfg h11 h13 pl en f.codec v (hseek v en hs)
      split <;> simp_all [Out.total]
    all_goals simp_all [Out.total]
  · -- list
    split
    · simp [Out.total]
    · next en he =>
      have := decList_total cfg h11 h13 en f.codec (filterPid f.pid pl.items) (by
        intro v hv
        obtain ⟨p, hp, h⟩ := filterPid_mem _ _ v hv
        rw [← h]; exact hb p hp)
      split
      · split <;> simp [Out.total]
      all_goals simp_all [Out.total]
  · -- typeInfo
    split
    · split
      · simp [Out.total]
      · split <;> simp [Out.total]
    · simp [Out.total]
    · split <;> simp [Out.total]
    all_goals simp_all [Out.total]

include h11 h13 in
theorem decFields_total (pl : Pl) (D : List DecField) (hb : ∀ p ∈ pl.items, p.2.length * 24 ≤ allocLimit) :
    (decFields cfg pl D).total := by
  induction D with
  | nil => simp [decFields, Out.total]
  | cons f fs ih =>
    simp only [decFields]
    have h1 := decField_total cfg h11 h13 pl f hb
    split
    · split <;> simp_all [Out.total]
    all_goals simp_all [Out.total]

end DustVerif.Plist
