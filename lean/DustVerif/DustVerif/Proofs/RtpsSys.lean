import DustVerif.Proofs.RtpsReader
/-! System invariant of the `rtps` model over arbitrary step lists (writer steps, reader steps, adversary):
    nothing in flight is forged, and the delivered cache is a strictly increasing list of published changes. -/
namespace DustVerif.Rtps

structure Inv1 (s : Sys) : Prop where
  logOK : LogOK s.log s.w.f
  logSn : ∀ c, c ∈ s.log → 1 ≤ c.sn ∧ c.sn ≤ s.lastSn
  logSorted : (s.log.map snOf).Pairwise (· < ·)
  changes : ∀ c, c ∈ s.w.changes → c ∈ s.log
  net : DgramsGenuine s.log s.w.f s.net
  reader : ReaderOK s.log s.w.f s.r

/-- payloads are below 2^32 bytes (the `as u32` cast of data_size) -/
def StepOK : Step → Prop
  | .write p => p.length < 4294967296
  | _ => True

theorem inv1_init (rel tl : Bool) (f : Nat) (hf : 1 ≤ f) (hf16 : f < 65536) : Inv1 (Sys.init rel tl f) := by
  refine ⟨⟨hf, hf16, ?_, ?_⟩, ?_, ?_, ?_, ?_, ⟨?_, ?_, ?_, ?_, ?_⟩⟩ <;> simp [Sys.init, DgramsGenuine]

theorem addMatchedReader_same (cfg : Cfg) (w : Writer) (a b : Bool) :
    (w.addMatchedReader cfg a b).changes = w.changes ∧ (w.addMatchedReader cfg a b).f = w.f := by
  unfold Writer.addMatchedReader
  simp only
  split
  · exact ⟨rfl, rfl⟩
  · split <;> exact ⟨rfl, rfl⟩

theorem addMatchedWriter_ok {log : List Change} {f : Nat} {r : Reader} (cfg : Cfg) (hfix : cfg.fixD43 = true)
    (hr : ReaderOK log f r) : ReaderOK log f (r.addMatchedWriter cfg) := by
  unfold Reader.addMatchedWriter
  split
  · rename_i hnone
    have hc := hr.noProxy hnone
    refine ⟨hr.cacheInLog, hr.cacheSorted, (by intro h; cases h), ?_, ?_⟩
    · intro q _ c hcm
      simp only at hcm
      rw [hc] at hcm; cases hcm
    · intro q hq
      cases hq
      exact ⟨List.nodup_nil, by intro fr hfr; cases hfr⟩
  · rw [if_pos hfix]; exact hr

theorem getElem?_mem' {α : Type} {l : List α} {i : Nat} {a : α} (h : l[i]? = some a) : a ∈ l :=
  List.mem_of_getElem? h

theorem inv1_deliverAt (cfg : Cfg) (s s' : Sys) (i : Nat) (out : List Dgram) (h : Inv1 s)
    (hs : s.deliverAt cfg i = .ok (s', out)) : Inv1 s' := by
  unfold Sys.deliverAt at hs
  split at hs
  · injection hs with hs; injection hs with h1 _; subst h1; exact h
  · rename_i d hd
    have hdmem : d ∈ s.net := getElem?_mem' hd
    have hnet' : DgramsGenuine s.log s.w.f (s.net.eraseIdx i) := h.net.sublist (List.eraseIdx_sublist ..)
    simp only at hs
    split at hs
    · split at hs
      · cases hs
      · rename_i r' o hro
        injection hs with hs; injection hs with h1 _; subst h1
        obtain ⟨hr', hharm⟩ := onSubs_ok h.logOK cfg d.subs s.r r' h.reader (h.net d hdmem) o hro
        exact ⟨h.logOK, h.logSn, h.logSorted, h.changes, hnet'.append (harmless_genuine hharm), hr'⟩
    · injection hs with hs; injection hs with h1 _; subst h1
      have hc := Writer.onSubs_changes cfg s.w s.now d.subs
      have hg := Writer.onSubs_genuine cfg s.log s.w s.now d.subs h.changes
      refine ⟨?_, h.logSn, h.logSorted, ?_, ?_, ?_⟩
      · simp only; rw [hc.2]; exact h.logOK
      · simp only; rw [hc.1]; exact h.changes
      · simp only; rw [hc.2]; exact hnet'.append hg
      · simp only; rw [hc.2]; exact h.reader

theorem inv1_step (cfg : Cfg) (hfix : cfg.fixD43 = true) (s s' : Sys) (st : Step) (out : List Dgram) (hst : StepOK st)
    (h : Inv1 s) (hs : s.step cfg st = .ok (s', out)) : Inv1 s' := by
  cases st with
  | doMatch =>
    simp only [Sys.step] at hs
    injection hs with hs; injection hs with h1 _; subst h1
    have hc := addMatchedReader_same cfg s.w s.rel s.tl
    refine ⟨?_, h.logSn, h.logSorted, ?_, ?_, ?_⟩
    · simp only; rw [hc.2]; exact h.logOK
    · simp only; rw [hc.1]; exact h.changes
    · simp only; rw [hc.2]; exact h.net
    · simp only; rw [hc.2]; exact addMatchedWriter_ok cfg hfix h.reader
  | write p =>
    simp only [Sys.step] at hs
    injection hs with hs; injection hs with h1 _; subst h1
    have hsub : ∀ c, c ∈ s.log → c ∈ s.log ++ [⟨s.lastSn + 1, p⟩] := fun c hc => List.mem_append_left _ hc
    have hc := Writer.writeMessage_changes cfg { s.w with changes := s.w.changes ++ [⟨s.lastSn + 1, p⟩] } s.now
    have hcs : ∀ c, c ∈ s.w.changes ++ [(⟨s.lastSn + 1, p⟩ : Change)] → c ∈ s.log ++ [⟨s.lastSn + 1, p⟩] := by
      intro c hcm
      rcases List.mem_append.mp hcm with hm | hm
      · exact hsub c (h.changes c hm)
      · exact List.mem_append_right _ hm
    have hg := Writer.writeMessage_genuine cfg (s.log ++ [⟨s.lastSn + 1, p⟩])
      { s.w with changes := s.w.changes ++ [⟨s.lastSn + 1, p⟩] } s.now hcs
    simp only [Writer.addChange] at *
    refine ⟨⟨?_, ?_, ?_, ?_⟩, ?_, ?_, ?_, ?_, ?_⟩
    · rw [hc.2]; exact h.logOK.fpos
    · rw [hc.2]; exact h.logOK.f16
    · intro c hcm
      rcases List.mem_append.mp hcm with hm | hm
      · exact h.logOK.len c hm
      · simp only [List.mem_singleton] at hm; subst hm; exact hst
    · intro c c' hcm hcm' heq
      rcases List.mem_append.mp hcm with hm | hm <;> rcases List.mem_append.mp hcm' with hm' | hm'
      · exact h.logOK.uniq c c' hm hm' heq
      · simp only [List.mem_singleton] at hm'; subst hm'
        have := (h.logSn c hm).2; simp only at heq; omega
      · simp only [List.mem_singleton] at hm; subst hm
        have := (h.logSn c' hm').2; simp only at heq; omega
      · simp only [List.mem_singleton] at hm hm'; rw [hm, hm']
    · intro c hcm
      show 1 ≤ c.sn ∧ c.sn ≤ s.lastSn + 1
      rcases List.mem_append.mp hcm with hm | hm
      · have := h.logSn c hm; omega
      · simp only [List.mem_singleton] at hm; subst hm; simp only; omega
    · simp only [List.map_append, List.map_cons, List.map_nil]
      rw [List.pairwise_append]
      refine ⟨h.logSorted, List.pairwise_singleton _ _, ?_⟩
      intro a ha b hb
      simp only [List.mem_singleton] at hb
      rw [hb]
      obtain ⟨c, hcm, rfl⟩ := List.mem_map.mp ha
      have := (h.logSn c hcm).2
      show c.sn < s.lastSn + 1
      omega
    · rw [hc.1]; exact hcs
    · rw [hc.2]; exact (DgramsGenuine.mono hsub _ h.net).append hg
    · rw [hc.2]; exact h.reader.mono hsub
  | remove sn =>
    simp only [Sys.step] at hs
    injection hs with hs; injection hs with h1 _; subst h1
    refine ⟨h.logOK, h.logSn, h.logSorted, ?_, h.net, h.reader⟩
    intro c hcm
    exact h.changes c (List.mem_filter.mp hcm).1
  | tick ms =>
    simp only [Sys.step] at hs
    injection hs with hs; injection hs with h1 _; subst h1
    have hc := Writer.writeMessage_changes cfg s.w (s.now + ms)
    have hg := Writer.writeMessage_genuine cfg s.log s.w (s.now + ms) h.changes
    refine ⟨?_, h.logSn, h.logSorted, ?_, ?_, ?_⟩
    · simp only; rw [hc.2]; exact h.logOK
    · simp only; rw [hc.1]; exact h.changes
    · simp only; rw [hc.2]; exact h.net.append hg
    · simp only; rw [hc.2]; exact h.reader
  | deliver i =>
    simp only [Sys.step] at hs
    split at hs
    · injection hs with hs; injection hs with h1 _; subst h1; exact h
    · exact inv1_deliverAt cfg s s' _ out h hs
  | drop i =>
    simp only [Sys.step] at hs
    split at hs
    · injection hs with hs; injection hs with h1 _; subst h1; exact h
    · injection hs with hs; injection hs with h1 _; subst h1
      exact ⟨h.logOK, h.logSn, h.logSorted, h.changes, h.net.sublist (List.eraseIdx_sublist ..), h.reader⟩
  | dup i =>
    simp only [Sys.step] at hs
    split at hs
    · injection hs with hs; injection hs with h1 _; subst h1; exact h
    · rename_i d hd
      injection hs with hs; injection hs with h1 _; subst h1
      refine ⟨h.logOK, h.logSn, h.logSorted, h.changes, ?_, h.reader⟩
      apply h.net.append
      intro d' hd'
      simp only [List.mem_singleton] at hd'
      subst hd'
      exact h.net _ (getElem?_mem' hd)

theorem inv1_run (cfg : Cfg) (hfix : cfg.fixD43 = true) (steps : List Step) (s s' : Sys)
    (hsteps : ∀ st, st ∈ steps → StepOK st) (h : Inv1 s) (hr : Sys.run cfg s steps = .ok s') : Inv1 s' := by
  induction steps generalizing s with
  | nil => simp only [Sys.run] at hr; injection hr with hr; subst hr; exact h
  | cons st rest ih =>
    simp only [Sys.run] at hr
    split at hr
    · cases hr
    · rename_i s1 o1 h1
      exact ih s1 (fun x hx => hsteps x (List.mem_cons_of_mem _ hx))
        (inv1_step cfg hfix s s1 st o1 (hsteps st (List.mem_cons_self ..)) h h1) hr

/-- a strictly increasing (by key) list all of whose members are in another strictly increasing list is a sub-list of it -/
theorem sublist_of_sorted_subset (l₁ l₂ : List Change) (h1 : (l₁.map snOf).Pairwise (· < ·))
    (h2 : (l₂.map snOf).Pairwise (· < ·)) (hsub : ∀ c, c ∈ l₁ → c ∈ l₂) : l₁.Sublist l₂ := by
  induction l₂ generalizing l₁ with
  | nil =>
    cases l₁ with
    | nil => exact List.Sublist.refl _
    | cons x xs => exact absurd (hsub x (List.mem_cons_self ..)) (by simp)
  | cons y ys ih =>
    simp only [List.map_cons, List.pairwise_cons] at h2
    cases l₁ with
    | nil => exact List.nil_sublist _
    | cons x xs =>
      simp only [List.map_cons, List.pairwise_cons] at h1
      have hxs_lt : ∀ c, c ∈ xs → x.sn < c.sn := fun c hc => h1.1 _ (List.mem_map.mpr ⟨c, hc, rfl⟩)
      have hys_lt : ∀ c, c ∈ ys → y.sn < c.sn := fun c hc => h2.1 _ (List.mem_map.mpr ⟨c, hc, rfl⟩)
      by_cases hxy : x = y
      · subst hxy
        apply List.Sublist.cons_cons
        apply ih xs h1.2 h2.2
        intro c hc
        rcases List.mem_cons.mp (hsub c (List.mem_cons_of_mem _ hc)) with h | h
        · subst h; exact absurd (hxs_lt c hc) (Nat.lt_irrefl _)
        · exact h
      · apply List.Sublist.cons
        apply ih (x :: xs) (by simp only [List.map_cons, List.pairwise_cons]; exact h1) h2.2
        have hx_in : x ∈ ys := by
          rcases List.mem_cons.mp (hsub x (List.mem_cons_self ..)) with h | h
          · exact absurd h hxy
          · exact h
        intro c hc
        rcases List.mem_cons.mp hc with h | h
        · subst h; exact hx_in
        · rcases List.mem_cons.mp (hsub c (List.mem_cons_of_mem _ h)) with h' | h'
          · subst h'
            have a := hxs_lt c h
            have b := hys_lt x hx_in
            omega
          · exact h'

/-- the delivered cache of every reachable state is a sub-list of the publication log -/
theorem delivered_sublist (cfg : Cfg) (hfix : cfg.fixD43 = true) (rel tl : Bool) (f : Nat) (hf : 1 ≤ f) (hf16 : f < 65536)
    (steps : List Step) (hsteps : ∀ st, st ∈ steps → StepOK st) (s : Sys)
    (hrun : Sys.run cfg (Sys.init rel tl f) steps = .ok s) :
    (s.r.cache.map snOf).Pairwise (· < ·) ∧ (∀ c, c ∈ s.r.cache → c ∈ s.log) ∧ s.r.cache.Sublist s.log := by
  have h := inv1_run cfg hfix steps _ s hsteps (inv1_init rel tl f hf hf16) hrun
  exact ⟨h.reader.cacheSorted, h.reader.cacheInLog,
    sublist_of_sorted_subset _ _ h.reader.cacheSorted h.logSorted h.reader.cacheInLog⟩

end DustVerif.Rtps
