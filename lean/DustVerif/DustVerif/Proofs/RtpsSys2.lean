import DustVerif.Proofs.RtpsNoSkip
/-! System invariant for the no-skip property: everything in flight is truthful, and every number at or below the
    reader's `available_changes_max` was delivered or is gone. -/
namespace DustVerif.Rtps

/-- `sn` was published and the writer no longer holds it, or it was never relevant to the reader -/
def Sys.Gone (s : Sys) (sn : Nat) : Prop := GoneW s.w.changes s.lastSn s.w.firstRel sn

structure Inv2 (s : Sys) : Prop where
  inv1 : Inv1 s
  netT : DgramsTruthful s.w.changes s.lastSn s.w.firstRel s.net
  reqB : ReqB s.lastSn s.w
  rd : ReaderB s.Gone s.lastSn s.r

theorem Inv1.changesSn {s : Sys} (h : Inv1 s) : ∀ c, c ∈ s.w.changes → c.sn ≤ s.lastSn :=
  fun c hc => (h.logSn c (h.changes c hc)).2

theorem inv2_init (rel tl : Bool) (f : Nat) (hf : 1 ≤ f) (hf16 : f < 65536) : Inv2 (Sys.init rel tl f) := by
  refine ⟨inv1_init rel tl f hf hf16, ?_, ?_, ?_⟩
  · intro d hd; simp [Sys.init] at hd
  · intro p hp; simp [Sys.init] at hp
  · intro p hp; simp [Sys.init] at hp

/-- assembling the invariant of the next state -/
theorem Inv2.transfer {s s' : Sys} (h : Inv2 s) (h1 : Inv1 s') (hl : s.lastSn ≤ s'.lastSn)
    (hfr : s.w.firstRel ≤ s'.w.firstRel)
    (hcs : ∀ x, x ≤ s.lastSn → (∀ c, c ∈ s.w.changes → c.sn ≠ x) → (∀ c, c ∈ s'.w.changes → c.sn ≠ x))
    (hnet : ∃ old new, s'.net = old ++ new ∧ (∀ d, d ∈ old → d ∈ s.net) ∧
      DgramsTruthful s'.w.changes s'.lastSn s'.w.firstRel new)
    (hreq : ReqB s'.lastSn s'.w)
    (hrd : ReaderB s.Gone s.lastSn s'.r) : Inv2 s' := by
  refine ⟨h1, ?_, hreq, ?_⟩
  · obtain ⟨old, new, he, hold, hnew⟩ := hnet
    rw [he]
    refine DgramsTruthful.append ?_ hnew
    intro d hd
    exact fun sub hsub => (h.netT d (hold d hd) sub hsub).mono hl hfr hcs
  · exact hrd.mono (fun sn hg => hg.mono hl hfr hcs) hl

theorem addMatchedReader_rel (cfg : Cfg) (hfix : cfg.fixD43 = true) (w : Writer) (a b : Bool) (l : Nat) (hreq : ReqB l w) :
    w.firstRel ≤ (w.addMatchedReader cfg a b).firstRel ∧ ReqB l (w.addMatchedReader cfg a b) := by
  unfold Writer.addMatchedReader
  simp only
  split
  · rename_i hnone
    refine ⟨by simp [Writer.firstRel, hnone], ?_⟩
    intro q hq x hx
    simp only at hq
    cases hq
    simp [RProxy.new] at hx
  · rw [if_pos hfix]; exact ⟨Nat.le_refl _, hreq⟩

theorem addMatchedWriter_B {G : Nat → Prop} {l : Nat} (cfg : Cfg) (hfix : cfg.fixD43 = true) {r : Reader}
    (h : ReaderB G l r) : ReaderB G l (r.addMatchedWriter cfg) := by
  unfold Reader.addMatchedWriter
  split
  · intro q hq
    simp only at hq
    cases hq
    refine ⟨Nat.zero_le _, Nat.zero_le _, ?_⟩
    intro _ sn h1 h2
    simp [WProxy.new, WProxy.availMax] at h2
    omega
  · rw [if_pos hfix]; exact h

theorem subForReader_of {s : Sys} (h : Inv2 s) (sub : Sub) (hg : SubGenuine s.log s.w.f sub)
    (ht : SubTruthful s.w.changes s.lastSn s.w.firstRel sub) : SubForReader s.Gone s.lastSn sub := by
  cases sub <;> simp only [SubForReader]
  case data sn p => exact (h.inv1.logSn _ hg).2
  case frag fr =>
    obtain ⟨c, hc, g⟩ := hg
    rw [genuine_sn g]; exact (h.inv1.logSn c hc).2
  case gap a b c => exact ht
  case hb a b c d e => exact ht

theorem inv2_deliverAt (cfg : Cfg) (hfix2 : cfg.fixD2 = true) (s s' : Sys) (i : Nat) (out : List Dgram) (h : Inv2 s)
    (h1 : Inv1 s') (hs : s.deliverAt cfg i = .ok (s', out)) : Inv2 s' := by
  unfold Sys.deliverAt at hs
  split at hs
  · injection hs with hs; injection hs with e _; subst e; exact h
  · rename_i d hd
    have hdmem : d ∈ s.net := getElem?_mem' hd
    simp only at hs
    split at hs
    · split at hs
      · cases hs
      · rename_i r' o hro
        injection hs with hs; injection hs with e _; subst e
        have hsubs : ∀ sub, sub ∈ d.subs → SubForReader s.Gone s.lastSn sub :=
          fun sub hsub => subForReader_of h sub (h.inv1.net d hdmem sub hsub) (h.netT d hdmem sub hsub)
        obtain ⟨hr', hout⟩ := onSubs_B (fun sn hg => hg.1) cfg hfix2 d.subs s.r r' h.rd hsubs o
          s.w.changes s.w.firstRel hro
        exact h.transfer h1 (Nat.le_refl _) (Nat.le_refl _) (fun _ _ hx => hx)
          ⟨s.net.eraseIdx i, o, rfl, fun x hx => (List.eraseIdx_sublist ..).subset hx, hout⟩ h.reqB hr'
    · injection hs with hs; injection hs with e _; subst e
      have hc := Writer.onSubs_changes cfg s.w s.now d.subs
      obtain ⟨t1, t2, t3⟩ := Writer.onSubs_truthful cfg s.w s.now s.lastSn d.subs h.inv1.changesSn h.reqB
        s.w.firstRel s.w.changes (h.netT d hdmem)
      refine h.transfer h1 (Nat.le_refl _) (by simp only; rw [t2]; exact Nat.le_refl _)
        (by simp only; rw [hc.1]; exact fun _ _ hx => hx)
        ⟨s.net.eraseIdx i, _, rfl, fun x hx => (List.eraseIdx_sublist ..).subset hx, ?_⟩ t3 h.rd
      simp only; rw [hc.1, t2]; exact t1

theorem inv2_step (cfg : Cfg) (hfix : cfg.fixD43 = true) (hfix2 : cfg.fixD2 = true) (s s' : Sys) (st : Step)
    (out : List Dgram) (hst : StepOK st) (h : Inv2 s) (hs : s.step cfg st = .ok (s', out)) : Inv2 s' := by
  have h1 : Inv1 s' := inv1_step cfg hfix s s' st out hst h.inv1 hs
  cases st with
  | doMatch =>
    simp only [Sys.step] at hs
    injection hs with hs; injection hs with e _; subst e
    have hc := addMatchedReader_same cfg s.w s.rel s.tl
    obtain ⟨a1, a2⟩ := addMatchedReader_rel cfg hfix s.w s.rel s.tl s.lastSn h.reqB
    exact h.transfer h1 (Nat.le_refl _) a1 (by simp only; rw [hc.1]; exact fun _ _ hx => hx)
      ⟨s.net, [], by simp, fun _ hx => hx, DgramsTruthful.nil _ _ _⟩ a2 (addMatchedWriter_B cfg hfix h.rd)
  | write p =>
    simp only [Sys.step] at hs
    injection hs with hs; injection hs with e _; subst e
    simp only [Writer.addChange] at *
    have hc := Writer.writeMessage_changes cfg { s.w with changes := s.w.changes ++ [⟨s.lastSn + 1, p⟩] } s.now
    have hcs0 : ∀ c, c ∈ s.w.changes ++ [(⟨s.lastSn + 1, p⟩ : Change)] → c.sn ≤ s.lastSn + 1 := by
      intro c hcm
      rcases List.mem_append.mp hcm with hm | hm
      · have := h.inv1.changesSn c hm; omega
      · simp only [List.mem_singleton] at hm; subst hm; exact Nat.le_refl _
    have hreq0 : ReqB (s.lastSn + 1) { s.w with changes := s.w.changes ++ [⟨s.lastSn + 1, p⟩] } := by
      intro q hq x hx
      have := h.reqB q hq x hx; omega
    obtain ⟨t1, t2, t3⟩ := Writer.writeMessage_truthful cfg { s.w with changes := s.w.changes ++ [⟨s.lastSn + 1, p⟩] }
      s.now (s.lastSn + 1) hcs0 hreq0
    have hfr0 : (Writer.firstRel { s.w with changes := s.w.changes ++ [⟨s.lastSn + 1, p⟩] }) = s.w.firstRel := rfl
    refine h.transfer h1 (Nat.le_succ _) (by simp only; rw [t2, hfr0]; exact Nat.le_refl _) ?_
      ⟨s.net, _, rfl, fun _ hx => hx, ?_⟩ t3 h.rd
    · simp only; rw [hc.1]
      intro x hx hno c hcm
      rcases List.mem_append.mp hcm with hm | hm
      · exact hno c hm
      · simp only [List.mem_singleton] at hm; subst hm; simp only; omega
    · simp only; rw [hc.1, t2]; exact t1
  | remove sn =>
    simp only [Sys.step] at hs
    injection hs with hs; injection hs with e _; subst e
    exact h.transfer h1 (Nat.le_refl _) (Nat.le_refl _)
      (fun x _ hno c hcm => hno c (List.mem_filter.mp hcm).1)
      ⟨s.net, [], by simp, fun _ hx => hx, DgramsTruthful.nil _ _ _⟩ h.reqB h.rd
  | tick ms =>
    simp only [Sys.step] at hs
    injection hs with hs; injection hs with e _; subst e
    have hc := Writer.writeMessage_changes cfg s.w (s.now + ms)
    obtain ⟨t1, t2, t3⟩ := Writer.writeMessage_truthful cfg s.w (s.now + ms) s.lastSn h.inv1.changesSn h.reqB
    refine h.transfer h1 (Nat.le_refl _) (by simp only; rw [t2]; exact Nat.le_refl _)
      (by simp only; rw [hc.1]; exact fun _ _ hx => hx) ⟨s.net, _, rfl, fun _ hx => hx, ?_⟩ t3 h.rd
    simp only; rw [hc.1, t2]; exact t1
  | deliver i =>
    simp only [Sys.step] at hs
    split at hs
    · injection hs with hs; injection hs with e _; subst e; exact h
    · exact inv2_deliverAt cfg hfix2 s s' _ out h h1 hs
  | drop i =>
    simp only [Sys.step] at hs
    split at hs
    · injection hs with hs; injection hs with e _; subst e; exact h
    · injection hs with hs; injection hs with e _; subst e
      exact h.transfer h1 (Nat.le_refl _) (Nat.le_refl _) (fun _ _ hx => hx)
        ⟨s.net.eraseIdx (i % s.net.length), [], by simp, fun x hx => (List.eraseIdx_sublist ..).subset hx,
          DgramsTruthful.nil _ _ _⟩ h.reqB h.rd
  | dup i =>
    simp only [Sys.step] at hs
    split at hs
    · injection hs with hs; injection hs with e _; subst e; exact h
    · rename_i d hd
      injection hs with hs; injection hs with e _; subst e
      exact h.transfer h1 (Nat.le_refl _) (Nat.le_refl _) (fun _ _ hx => hx)
        ⟨s.net ++ [d], [], by simp, fun x hx => by
          rcases List.mem_append.mp hx with hx | hx
          · exact hx
          · simp only [List.mem_singleton] at hx; subst hx; exact getElem?_mem' hd,
          DgramsTruthful.nil _ _ _⟩ h.reqB h.rd

theorem inv2_run (cfg : Cfg) (hfix : cfg.fixD43 = true) (hfix2 : cfg.fixD2 = true) (steps : List Step) (s s' : Sys)
    (hsteps : ∀ st, st ∈ steps → StepOK st) (h : Inv2 s) (hr : Sys.run cfg s steps = .ok s') : Inv2 s' := by
  induction steps generalizing s with
  | nil => simp only [Sys.run] at hr; injection hr with hr; subst hr; exact h
  | cons st rest ih =>
    simp only [Sys.run] at hr
    split at hr
    · cases hr
    · rename_i s1 o1 h1
      exact ih s1 (fun x hx => hsteps x (List.mem_cons_of_mem _ hx))
        (inv2_step cfg hfix hfix2 s s1 st o1 (hsteps st (List.mem_cons_self ..)) h h1) hr

/-- one step keeps the reader's reliability kind -/
theorem step_reliable (cfg : Cfg) (s s' : Sys) (st : Step) (out : List Dgram) (hst : s.step cfg st = .ok (s', out)) :
    s'.r.reliable = s.r.reliable := by
  cases st <;> simp only [Sys.step] at hst
  case doMatch =>
    injection hst with hst; injection hst with e _; subst e
    simp only [Reader.addMatchedWriter]; split <;> (try split) <;> rfl
  case write p => injection hst with hst; injection hst with e _; subst e; rfl
  case remove n => injection hst with hst; injection hst with e _; subst e; rfl
  case tick n => injection hst with hst; injection hst with e _; subst e; rfl
  case drop n => split at hst <;> (injection hst with hst; injection hst with e _; subst e; rfl)
  case dup n => split at hst <;> (injection hst with hst; injection hst with e _; subst e; rfl)
  case deliver n =>
    split at hst
    · injection hst with hst; injection hst with e _; subst e; rfl
    · unfold Sys.deliverAt at hst
      split at hst
      · injection hst with hst; injection hst with e _; subst e; rfl
      · simp only at hst
        split at hst
        · split at hst
          · cases hst
          · rename_i r' o hro
            injection hst with hst; injection hst with e _; subst e
            exact onSubs_reliable cfg _ _ _ _ hro
        · injection hst with hst; injection hst with e _; subst e; rfl


theorem run_reliable (cfg : Cfg) (steps : List Step) (s0 s1 : Sys) (hr : Sys.run cfg s0 steps = .ok s1) :
    s1.r.reliable = s0.r.reliable := by
  induction steps generalizing s0 with
  | nil => simp only [Sys.run] at hr; injection hr with hr; subst hr; rfl
  | cons st rest ih =>
    simp only [Sys.run] at hr
    split at hr
    · cases hr
    · rename_i s2 o2 hst
      rw [ih s2 hr, step_reliable cfg s0 s2 st o2 hst]

end DustVerif.Rtps
