import DustVerif.Proofs.TreeLemmas
/-! "A topic that is in use exists": in every reachable state every writer's topic exists, every reader's topic or
    content-filtered topic exists, and every content-filtered topic's related topic exists.  This is the history-level
    form of the `delete_topic` / `delete_contentfilteredtopic` preconditions (with fixes/D-tree-1, D-tree-2), and it
    makes the `expect("Writer topic must exist")` of the writer instance calls unreachable. -/
namespace DustVerif.Tree

def hasTopic (s : St) (u : Nat) (n : String) : Bool := s.topics.any (isTopicN u n)
def hasCft (s : St) (u : Nat) (n : String) : Bool := s.cfts.any (isCftN u n)

structure TopInv (s : St) : Prop where
  writers : ∀ w ∈ s.writers, hasTopic s w.part w.topic = true
  readers : ∀ r ∈ s.readers, hasTopic s r.part r.topic = true ∨ hasCft s r.part r.topic = true
  cfts : ∀ c ∈ s.cfts, hasTopic s c.part c.related = true

/-- `s'` keeps (at least) the topics and content-filtered topics of `s`, and its writers / readers / cfts are, up to
    fields that do not matter here, among those of `s` -/
structure TopMono (s s' : St) : Prop where
  topics : ∀ u n, hasTopic s u n = true → hasTopic s' u n = true
  cftsUp : ∀ u n, hasCft s u n = true → hasCft s' u n = true
  writers : ∀ w ∈ s'.writers, ∃ w0 ∈ s.writers, w0.part = w.part ∧ w0.topic = w.topic
  readers : ∀ r ∈ s'.readers, ∃ r0 ∈ s.readers, r0.part = r.part ∧ r0.topic = r.topic
  cfts : ∀ c ∈ s'.cfts, ∃ c0 ∈ s.cfts, c0.part = c.part ∧ c0.related = c.related

theorem TopInv.mono {s s' : St} (h : TopInv s) (m : TopMono s s') : TopInv s' := by
  refine ⟨?_, ?_, ?_⟩
  · intro w hw
    obtain ⟨w0, hw0, hp, ht⟩ := m.writers w hw
    have := h.writers w0 hw0
    rw [hp, ht] at this
    exact m.topics _ _ this
  · intro r hr
    obtain ⟨r0, hr0, hp, ht⟩ := m.readers r hr
    rcases h.readers r0 hr0 with h1 | h1
    · rw [hp, ht] at h1; exact Or.inl (m.topics _ _ h1)
    · rw [hp, ht] at h1; exact Or.inr (m.cftsUp _ _ h1)
  · intro c hc
    obtain ⟨c0, hc0, hp, ht⟩ := m.cfts c hc
    have := h.cfts c0 hc0
    rw [hp, ht] at this
    exact m.topics _ _ this

theorem mem_self {α : Type} {l : List α} {P : α → α → Prop} (hP : ∀ x, P x x) : ∀ x ∈ l, ∃ y ∈ l, P y x :=
  fun x hx => ⟨x, hx, hP x⟩

theorem mem_of_sublist {α : Type} {l l' : List α} {P : α → α → Prop} (hs : l'.Sublist l) (hP : ∀ x, P x x) :
    ∀ x ∈ l', ∃ y ∈ l, P y x := fun x hx => ⟨x, hs.subset hx, hP x⟩

theorem any_updFirst {α : Type} (p q : α → Bool) (f : α → α) (hf : ∀ x, q (f x) = q x) (l : List α) :
    (updFirst p f l).any q = l.any q := by
  induction l with
  | nil => rfl
  | cons x xs ih =>
    unfold updFirst
    split
    · simp [hf]
    · simp [ih]

theorem any_map_same {α : Type} (q : α → Bool) (f : α → α) (hf : ∀ x, q (f x) = q x) (l : List α) :
    (l.map f).any q = l.any q := by
  induction l with
  | nil => rfl
  | cons x xs ih => simp [hf, ih]

theorem mem_updFirst {α : Type} (p : α → Bool) (f : α → α) (l : List α) :
    ∀ x ∈ updFirst p f l, x ∈ l ∨ ∃ y ∈ l, x = f y := by
  induction l with
  | nil => intro x hx; simp [updFirst] at hx
  | cons a l ih =>
    intro x hx
    unfold updFirst at hx
    split at hx
    · rcases List.mem_cons.mp hx with h | h
      · exact Or.inr ⟨a, List.mem_cons_self, h⟩
      · exact Or.inl (List.mem_cons_of_mem _ h)
    · rcases List.mem_cons.mp hx with h | h
      · exact Or.inl (by rw [h]; exact List.mem_cons_self)
      · rcases ih x h with h' | ⟨y, hy, hxy⟩
        · exact Or.inl (List.mem_cons_of_mem _ h')
        · exact Or.inr ⟨y, List.mem_cons_of_mem _ hy, hxy⟩

theorem TopMono.refl (s : St) : TopMono s s :=
  ⟨fun _ _ h => h, fun _ _ h => h, mem_self (fun _ => ⟨rfl, rfl⟩), mem_self (fun _ => ⟨rfl, rfl⟩),
   mem_self (fun _ => ⟨rfl, rfl⟩)⟩

/-- discharge the fields of `TopMono s s'` when `s'` only shrinks writers/readers (or leaves everything alone) -/
macro "topmono_fields" : tactic => `(tactic|
  first
  | exact fun _ _ h => h
  | exact mem_self (fun _ => ⟨rfl, rfl⟩)
  | exact mem_of_sublist List.eraseP_sublist (fun _ => ⟨rfl, rfl⟩)
  | exact mem_of_sublist List.filter_sublist (fun _ => ⟨rfl, rfl⟩))

macro "topmono_auto" h:ident : tactic => `(tactic|
  (refine TopInv.mono $h ⟨?_, ?_, ?_, ?_, ?_⟩ <;> topmono_fields))

theorem top_init (pr : Profile) : TopInv (St.init pr) := by
  refine ⟨?_, ?_, ?_⟩ <;> simp [St.init]

theorem top_createPart {s : St} (h : TopInv s) (a : Bool) : TopInv (createPart s a).1 := by
  unfold createPart; simp only; split
  · exact h
  · topmono_auto h
theorem top_deletePart {s : St} (h : TopInv s) (ph : Nat) : TopInv (deletePart s ph).1 := by
  unfold deletePart; (repeat' split) <;> first | exact h | topmono_auto h
theorem top_createPub {s : St} (h : TopInv s) (ph : Nat) (a : Bool) : TopInv (createPub s ph a).1 := by
  unfold createPub
  split
  · exact h
  · simp only
    split
    · exact h
    · topmono_auto h
theorem top_createSub {s : St} (h : TopInv s) (ph : Nat) (a : Bool) : TopInv (createSub s ph a).1 := by
  unfold createSub
  split
  · exact h
  · simp only
    split
    · exact h
    · topmono_auto h
theorem top_deletePub {s : St} (h : TopInv s) (via : Nat) (r : GroupRef) : TopInv (deletePub s via r).1 := by
  unfold deletePub; (repeat' split) <;> first | exact h | topmono_auto h
theorem top_deleteSub {s : St} (h : TopInv s) (via : Nat) (r : GroupRef) : TopInv (deleteSub s via r).1 := by
  unfold deleteSub; (repeat' split) <;> first | exact h | topmono_auto h
theorem top_deleteWriter {s : St} (h : TopInv s) (via : GroupRef) (w : EndRef) : TopInv (deleteWriter s via w).1 := by
  unfold deleteWriter; (repeat' split) <;> first | exact h | topmono_auto h
theorem top_deleteReader {s : St} (h : TopInv s) (via : GroupRef) (w : EndRef) : TopInv (deleteReader s via w).1 := by
  unfold deleteReader; (repeat' split) <;> first | exact h | topmono_auto h
theorem top_probe {s : St} (h : TopInv s) (b : Bool) : TopInv (probe b s).1 := by
  unfold probe; split <;> exact h

theorem top_createTopic {s : St} (h : TopInv s) (ph : Nat) (n : String) (k : Bool) : TopInv (createTopic s ph n k).1 := by
  unfold createTopic
  split
  · exact h
  · split
    · exact h
    · split
      · exact h
      · simp only
        split
        · exact h
        · refine TopInv.mono h ⟨?_, ?_, ?_, ?_, ?_⟩ <;> try topmono_fields
          intro u m hm
          unfold hasTopic at hm ⊢
          simp [List.any_append, hm]

theorem top_findTopicOp {s : St} (h : TopInv s) (ph : Nat) (n : String) (k d : Bool) :
    TopInv (findTopicOp s ph n k d).1 := by
  unfold findTopicOp
  split
  · exact h
  · split
    · exact h
    · split
      · exact h
      · simp only
        split
        · exact h
        · refine TopInv.mono h ⟨?_, ?_, ?_, ?_, ?_⟩ <;> try topmono_fields
          intro u m hm
          unfold hasTopic at hm ⊢
          simp [List.any_append, hm]

theorem top_createCft {s : St} (h : TopInv s) (r : TopicRef) (n : String) (v : Bool) :
    TopInv (createCft s r n v).1 := by
  unfold createCft
  split
  · exact h
  · rename_i p _
    split
    · exact h
    · rename_i hex
      split
      · exact h
      · simp only
        split
        · exact h
        · refine ⟨h.writers, ?_, ?_⟩
          · intro rd hrd
            rcases h.readers rd hrd with h1 | h1
            · exact Or.inl h1
            · refine Or.inr ?_
              unfold hasCft at h1 ⊢
              simp [List.any_append, h1]
          · intro c hc
            simp only [List.mem_append, List.mem_singleton] at hc
            rcases hc with hc | hc
            · exact h.cfts c hc
            · subst hc
              unfold hasTopic
              simpa using hex

theorem top_createWriter {s : St} (h : TopInv s) (r : GroupRef) (t : String) (m : Option Nat) (c : Bool) :
    TopInv (createWriter s r t m c).1 := by
  unfold createWriter
  split
  · exact h
  · rename_i p _
    split
    · exact h
    · rename_i tp htp
      split
      · exact h
      · simp only
        split
        · exact h
        · split
          · topmono_auto h
          · refine ⟨?_, h.readers, h.cfts⟩
            intro w hw
            simp only [List.mem_append, List.mem_singleton] at hw
            rcases hw with hw | hw
            · exact h.writers w hw
            · subst hw
              unfold hasTopic
              simp only
              unfold findTopic at htp
              rw [List.any_eq_true]
              exact ⟨tp, List.mem_of_find?_eq_some htp, List.find?_some htp⟩

theorem top_createReader {s : St} (h : TopInv s) (r : GroupRef) (t : String) (c : Bool) :
    TopInv (createReader s r t c).1 := by
  unfold createReader
  split
  · exact h
  · rename_i p _
    simp only
    split
    · exact h
    · rename_i tp htp
      split
      · exact h
      · split
        · exact h
        · split
          · exact h
          · refine ⟨h.writers, ?_, h.cfts⟩
            intro rd hrd
            simp only [List.mem_append, List.mem_singleton] at hrd
            rcases hrd with hrd | hrd
            · exact h.readers rd hrd
            · subst hrd
              simp only
              -- the reader's name is a content-filtered topic's (found) or the topic's own (found)
              cases hc : findCft s p.uid t with
              | some cf =>
                refine Or.inr ?_
                unfold hasCft
                unfold findCft at hc
                rw [List.any_eq_true]
                exact ⟨cf, List.mem_of_find?_eq_some hc, List.find?_some hc⟩
              | none =>
                refine Or.inl ?_
                rw [hc] at htp
                simp only at htp
                unfold hasTopic
                unfold findTopic at htp
                rw [List.any_eq_true]
                exact ⟨tp, List.mem_of_find?_eq_some htp, List.find?_some htp⟩


theorem any_filter_keep {α : Type} (p q : α → Bool) (l : List α) (hq : l.any q = true)
    (hpq : ∀ x ∈ l, q x = true → p x = true) : (l.filter p).any q = true := by
  rw [List.any_eq_true] at hq ⊢
  obtain ⟨x, hx, hqx⟩ := hq
  exact ⟨x, List.mem_filter.mpr ⟨hx, hpq x hx hqx⟩, hqx⟩

theorem top_deleteTopic {s : St} (h : TopInv s) (via : Nat) (r : TopicRef) : TopInv (deleteTopic s via r).1 := by
  unfold deleteTopic
  split
  · exact h
  · rename_i p _
    split
    · exact h
    · split
      · exact h
      · split
        · exact h
        · split
          · exact h
          · rename_i hw
            split
            · exact h
            · rename_i hr
              split
              · exact h
              · rename_i hc
                -- a topic other than (p, name) survives the `retain`
                have keep : ∀ u m, ¬ (u = p.uid ∧ m = r.name) → hasTopic s u m = true →
                    (s.topics.filter (notTopicN p.uid r.name)).any (isTopicN u m) = true := by
                  intro u m hne hm
                  apply any_filter_keep _ _ _ hm
                  intro x _ hx
                  unfold isTopicN at hx
                  unfold notTopicN
                  simp only [Bool.and_eq_true, beq_iff_eq] at hx
                  simp only [Bool.not_eq_true', Bool.and_eq_false_iff, beq_eq_false_iff_ne, ne_eq]
                  by_cases h1 : x.part = p.uid
                  · right; intro h2; exact hne ⟨by rw [← hx.1, h1], by rw [← hx.2, h2]⟩
                  · left; exact h1
                refine ⟨?_, ?_, ?_⟩
                · intro w hwm
                  apply keep _ _ _ (h.writers w hwm)
                  intro hh
                  apply hw
                  rw [List.any_eq_true]
                  exact ⟨w, hwm, by simp [writerUsesTopic, hh.1, hh.2]⟩
                · intro rd hrm
                  rcases h.readers rd hrm with h1 | h1
                  · refine Or.inl (keep _ _ ?_ h1)
                    intro hh
                    apply hr
                    rw [List.any_eq_true]
                    exact ⟨rd, hrm, by simp [readerUsesTopic, hh.1, hh.2]⟩
                  · exact Or.inr h1
                · intro c hcm
                  apply keep _ _ _ (h.cfts c hcm)
                  intro hh
                  apply hc
                  rw [List.any_eq_true]
                  exact ⟨c, hcm, by simp [cftRefersTo, hh.1, hh.2]⟩

theorem top_deleteCft {s : St} (h : TopInv s) (ph : Nat) (n : String) : TopInv (deleteCft s ph n).1 := by
  unfold deleteCft
  split
  · exact h
  · rename_i p _
    split
    · exact h
    · split
      · exact h
      · rename_i hr
        refine ⟨h.writers, ?_, ?_⟩
        · intro rd hrm
          rcases h.readers rd hrm with h1 | h1
          · exact Or.inl h1
          · refine Or.inr ?_
            unfold hasCft at h1 ⊢
            apply any_filter_keep _ _ _ h1
            intro x _ hx
            unfold isCftN at hx
            unfold notCftN
            simp only [Bool.and_eq_true, beq_iff_eq] at hx
            simp only [Bool.not_eq_true', Bool.and_eq_false_iff, beq_eq_false_iff_ne, ne_eq]
            by_cases h1 : x.part = p.uid
            · right
              intro h2
              apply hr
              rw [List.any_eq_true]
              exact ⟨rd, hrm, by simp [readerUsesTopic, ← hx.1, h1, ← hx.2, h2]⟩
            · left; exact h1
        · intro c hcm
          exact h.cfts c (List.mem_filter.mp hcm).1

theorem top_deleteContained {s : St} (h : TopInv s) (ph : Nat) : TopInv (deleteContained s ph).1 := by
  unfold deleteContained
  split
  · exact h
  · rename_i p _
    -- whatever belongs to another participant keeps its topic / content-filtered topic
    have keepT : ∀ u m, u ≠ p.uid → hasTopic s u m = true →
        (s.topics.filter (notTopicOfPart p.uid)).any (isTopicN u m) = true := by
      intro u m hne hm
      apply any_filter_keep _ _ _ hm
      intro x _ hx
      unfold isTopicN at hx
      unfold notTopicOfPart
      simp only [Bool.and_eq_true, beq_iff_eq] at hx
      simp only [Bool.not_eq_true', beq_eq_false_iff_ne, ne_eq]
      rw [hx.1]; exact hne
    have keepC : ∀ u m, u ≠ p.uid → hasCft s u m = true →
        (s.cfts.filter (notCftOfPart p.uid)).any (isCftN u m) = true := by
      intro u m hne hm
      apply any_filter_keep _ _ _ hm
      intro x _ hx
      unfold isCftN at hx
      unfold notCftOfPart
      simp only [Bool.and_eq_true, beq_iff_eq] at hx
      simp only [Bool.not_eq_true', beq_eq_false_iff_ne, ne_eq]
      rw [hx.1]; exact hne
    refine ⟨?_, ?_, ?_⟩
    · intro w hwm
      have hm := List.mem_filter.mp hwm
      have hne : w.part ≠ p.uid := by
        have := hm.2; unfold notWriterOfPart at this; simpa using this
      exact keepT _ _ hne (h.writers w hm.1)
    · intro rd hrm
      have hm := List.mem_filter.mp hrm
      have hne : rd.part ≠ p.uid := by
        have := hm.2; unfold notReaderOfPart at this; simpa using this
      rcases h.readers rd hm.1 with h1 | h1
      · exact Or.inl (keepT _ _ hne h1)
      · exact Or.inr (keepC _ _ hne h1)
    · intro c hcm
      have hm := List.mem_filter.mp hcm
      have hne : c.part ≠ p.uid := by
        have := hm.2; unfold notCftOfPart at this; simpa using this
      exact keepT _ _ hne (h.cfts c hm.1)

theorem isTopicN_enableTopicsOf (u : Nat) (v : Nat) (n : String) (t : Topic) :
    isTopicN v n (enableTopicsOf u t) = isTopicN v n t := by
  unfold enableTopicsOf; split <;> rfl

theorem top_enablePart {s : St} (h : TopInv s) (ph : Nat) : TopInv (enablePart s ph).1 := by
  unfold enablePart
  split
  · exact h
  · rename_i p _
    refine TopInv.mono h ⟨?_, ?_, ?_, ?_, ?_⟩ <;> try topmono_fields
    intro u m hm
    unfold hasTopic at hm ⊢
    simp only
    rw [any_map_same _ _ (isTopicN_enableTopicsOf p.uid u m)]
    exact hm

theorem top_enableTopic {s : St} (h : TopInv s) (r : TopicRef) : TopInv (enableTopic s r).1 := by
  unfold enableTopic
  split
  · exact h
  · split
    · exact h
    · refine TopInv.mono h ⟨?_, ?_, ?_, ?_, ?_⟩ <;> try topmono_fields
      intro u m hm
      unfold hasTopic at hm ⊢
      simp only
      rw [any_updFirst _ _ _ (by intro x; rfl)]
      exact hm

theorem top_enableWriter {s : St} (h : TopInv s) (w : EndRef) : TopInv (enableWriter s w).1 := by
  unfold enableWriter
  split
  · exact h
  · refine TopInv.mono h ⟨?_, ?_, ?_, ?_, ?_⟩ <;> try topmono_fields
    intro x hx
    rcases mem_updFirst _ _ _ x hx with h1 | ⟨y, hy, hxy⟩
    · exact ⟨x, h1, rfl, rfl⟩
    · exact ⟨y, hy, by rw [hxy]; rfl, by rw [hxy]; rfl⟩

theorem top_enableReader {s : St} (h : TopInv s) (w : EndRef) : TopInv (enableReader s w).1 := by
  unfold enableReader
  split
  · exact h
  · refine TopInv.mono h ⟨?_, ?_, ?_, ?_, ?_⟩ <;> try topmono_fields
    intro x hx
    rcases mem_updFirst _ _ _ x hx with h1 | ⟨y, hy, hxy⟩
    · exact ⟨x, h1, rfl, rfl⟩
    · exact ⟨y, hy, by rw [hxy]; rfl, by rw [hxy]; rfl⟩

theorem wop_part_topic (w : Writer) (o : WOp) : (wop w o).1.part = w.part ∧ (wop w o).1.topic = w.topic := by
  unfold wop
  cases o <;> simp only <;> (repeat' split) <;> exact ⟨rfl, rfl⟩

theorem top_die {s : St} (h : TopInv s) : TopInv (die s).1 := by
  unfold die; topmono_auto h

theorem top_instOp {s : St} (h : TopInv s) (w : EndRef) (o : WOp) : TopInv (instOp s w o).1 := by
  unfold instOp
  split
  · exact h
  · rename_i p x wr hr
    split
    · exact top_die h
    · have hf := (resolveWriter_find hr).2.2
      have hmem : wr ∈ s.writers := by unfold findWriter at hf; exact List.mem_of_find?_eq_some hf
      refine TopInv.mono h ⟨?_, ?_, ?_, ?_, ?_⟩ <;> try topmono_fields
      intro y hy
      rcases mem_updFirst _ _ _ y hy with h1 | ⟨z, _, hyz⟩
      · exact ⟨y, h1, rfl, rfl⟩
      · refine ⟨wr, hmem, ?_, ?_⟩
        · rw [hyz]; unfold constW; exact (wop_part_topic wr o).1.symm
        · rw [hyz]; unfold constW; exact (wop_part_topic wr o).2.symm

theorem top_step {s : St} (h : TopInv s) (op : Op) : TopInv (step s op).1 := by
  cases op with
  | factoryQos a => exact TopInv.mono h ⟨fun _ _ h => h, fun _ _ h => h, mem_self (fun _ => ⟨rfl, rfl⟩),
      mem_self (fun _ => ⟨rfl, rfl⟩), mem_self (fun _ => ⟨rfl, rfl⟩)⟩
  | createPart a => exact top_createPart h a
  | deletePart ph => exact top_deletePart h ph
  | createPub ph a => exact top_createPub h ph a
  | deletePub via r => exact top_deletePub h via r
  | createSub ph a => exact top_createSub h ph a
  | deleteSub via r => exact top_deleteSub h via r
  | createTopic ph n k => exact top_createTopic h ph n k
  | findTopic ph n k d => exact top_findTopicOp h ph n k d
  | deleteTopic via r => exact top_deleteTopic h via r
  | createCft r n v => exact top_createCft h r n v
  | deleteCft ph n => exact top_deleteCft h ph n
  | createWriter r t m c => exact top_createWriter h r t m c
  | deleteWriter via w => exact top_deleteWriter h via w
  | createReader r t c => exact top_createReader h r t c
  | deleteReader via w => exact top_deleteReader h via w
  | deleteContained ph => exact top_deleteContained h ph
  | enablePart ph => exact top_enablePart h ph
  | enableTopic r => exact top_enableTopic h r
  | enableWriter w => exact top_enableWriter h w
  | enableReader w => exact top_enableReader h w
  | probePart ph => exact top_probe h _
  | probePub r => exact top_probe h _
  | probeSub r => exact top_probe h _
  | probeTopic r => exact top_probe h _
  | probeWriter w => exact top_probe h _
  | probeReader w => exact top_probe h _
  | inst w o => exact top_instOp h w o

theorem top_run {s : St} (h : TopInv s) (ops : List Op) : TopInv (run s ops) := by
  induction ops generalizing s with
  | nil => exact h
  | cons op ops ih =>
    apply ih
    unfold stepD
    split
    · exact h
    · exact top_step h op

/-- in a state where every writer's topic exists, a writer instance call never reaches the
    `expect("Writer topic must exist")` panic -/
theorem instOp_no_panic {s : St} (h : TopInv s) (w : EndRef) (o : WOp) :
    (instOp s w o).2 ≠ .panic ∧ (instOp s w o).1.dead = s.dead := by
  unfold instOp
  split
  · exact ⟨by simp, rfl⟩
  · rename_i p x wr hr
    have hf := resolveWriter_find hr
    have hmem : wr ∈ s.writers := by
      have := hf.2.2; unfold findWriter at this; exact List.mem_of_find?_eq_some this
    have hpart : wr.part = p.uid := by
      have := List.find?_some hf.2.2
      unfold isWriterE at this
      simp only [Bool.and_eq_true, beq_iff_eq] at this
      exact this.1.1
    have ht := h.writers wr hmem
    have hsome : (findTopic s p.uid wr.topic).isNone = false := by
      unfold hasTopic at ht
      rw [hpart] at ht
      unfold findTopic
      rw [List.any_eq_true] at ht
      obtain ⟨t, htm, htp⟩ := ht
      cases hfind : s.topics.find? (isTopicN p.uid wr.topic) with
      | some _ => rfl
      | none =>
        rw [List.find?_eq_none] at hfind
        exact absurd htp (hfind t htm)
    simp only [hsome, Bool.and_false, Bool.false_eq_true, if_false, and_true]
    unfold wop
    cases o <;> simp only <;> (repeat' split) <;> simp

end DustVerif.Tree
