import DustVerif.Proofs.WireTotal
/-! Dispatch and submessage loop: totality (C07, RTPS part). -/
namespace DustVerif.Wire
open Outcome

/-! ### dispatch and loop -/
theorem decodeSub_guarded_np (c : Cfg) (hd : c.d5 = true) (id fl len : Nat) (le : Bool) (v : List Nat) :
    decodeSub c id fl len le v ≠ .panic := by
  unfold decodeSub
  rw [hd]
  by_cases h0 : id = 0x06
  · rw [if_pos h0]; exact ackNackRead_np _ _ _ _
  rw [if_neg h0]
  by_cases h1 : id = 0x15
  · rw [if_pos h1]; exact dataRead_np _ _ _ _
  rw [if_neg h1]
  by_cases h2 : id = 0x16
  · rw [if_pos h2]; exact dataFragRead_np _ _ _ _
  rw [if_neg h2]
  by_cases h3 : id = 0x08
  · rw [if_pos h3]; exact gapRead_np _ _ _
  rw [if_neg h3]
  by_cases h4 : id = 0x07
  · rw [if_pos h4]; exact heartbeatRead_np _ _ _
  rw [if_neg h4]
  by_cases h5 : id = 0x13
  · rw [if_pos h5]; exact heartbeatFragRead_np _ _
  rw [if_neg h5]
  by_cases h6 : id = 0x0e
  · rw [if_pos h6]; exact infoDstRead_np _
  rw [if_neg h6]
  by_cases h7 : id = 0x0f
  · rw [if_pos h7]; exact infoReplyRead_np _ _ _
  rw [if_neg h7]
  by_cases h8 : id = 0x0c
  · rw [if_pos h8]; exact infoSrcRead_np _ _
  rw [if_neg h8]
  by_cases h9 : id = 0x09
  · rw [if_pos h9]; exact infoTsRead_np _ _ _
  rw [if_neg h9]
  by_cases h10 : id = 0x12
  · rw [if_pos h10]; exact nackFragRead_guarded_np _ _
  rw [if_neg h10]
  by_cases h11 : id = 0x01
  · rw [if_pos h11]; simp
  rw [if_neg h11]; simp

theorem decodeSub_false_panic (c : Cfg) (hd : c.d5 = false) (id fl len : Nat) (le : Bool) (v : List Nat)
    (h : decodeSub c id fl len le v = .panic) : id = 0x12 ∧ nackFragRead false le v = .panic := by
  unfold decodeSub at h
  rw [hd] at h
  by_cases h0 : id = 0x06
  · rw [if_pos h0] at h; exact absurd h (ackNackRead_np _ _ _ _)
  rw [if_neg h0] at h
  by_cases h1 : id = 0x15
  · rw [if_pos h1] at h; exact absurd h (dataRead_np _ _ _ _)
  rw [if_neg h1] at h
  by_cases h2 : id = 0x16
  · rw [if_pos h2] at h; exact absurd h (dataFragRead_np _ _ _ _)
  rw [if_neg h2] at h
  by_cases h3 : id = 0x08
  · rw [if_pos h3] at h; exact absurd h (gapRead_np _ _ _)
  rw [if_neg h3] at h
  by_cases h4 : id = 0x07
  · rw [if_pos h4] at h; exact absurd h (heartbeatRead_np _ _ _)
  rw [if_neg h4] at h
  by_cases h5 : id = 0x13
  · rw [if_pos h5] at h; exact absurd h (heartbeatFragRead_np _ _)
  rw [if_neg h5] at h
  by_cases h6 : id = 0x0e
  · rw [if_pos h6] at h; exact absurd h (infoDstRead_np _)
  rw [if_neg h6] at h
  by_cases h7 : id = 0x0f
  · rw [if_pos h7] at h; exact absurd h (infoReplyRead_np _ _ _)
  rw [if_neg h7] at h
  by_cases h8 : id = 0x0c
  · rw [if_pos h8] at h; exact absurd h (infoSrcRead_np _ _)
  rw [if_neg h8] at h
  by_cases h9 : id = 0x09
  · rw [if_pos h9] at h; exact absurd h (infoTsRead_np _ _ _)
  rw [if_neg h9] at h
  by_cases h10 : id = 0x12
  · rw [if_pos h10] at h; exact ⟨h10, h⟩
  rw [if_neg h10] at h
  by_cases h11 : id = 0x01
  · rw [if_pos h11] at h; simp at h
  rw [if_neg h11] at h; simp at h

theorem decodeLoop_guarded_np (c : Cfg) (hd : c.d5 = true) (fuel : Nat) (v : List Nat) :
    decodeLoop c fuel v ≠ .panic := by
  induction fuel generalizing v with
  | zero => simp [decodeLoop]
  | succ k ih =>
    intro h
    unfold decodeLoop at h
    split at h
    · rename_i id fl l0 l1 rest
      simp only [] at h
      split at h
      · simp at h
      · split at h
        · split at h
          · split at h
            · simp at h
            · simp at h
            · rename_i hrec
              exact ih _ hrec
          · exact ih _ h
          · rename_i hs
            exact decodeSub_guarded_np c hd _ _ _ _ _ hs
        · split at h
          · split at h
            · simp at h
            · simp at h
            · rename_i hrec
              exact ih _ hrec
          · exact ih _ h
          · rename_i hs
            exact decodeSub_guarded_np c hd _ _ _ _ _ hs
    · simp at h

theorem suffix_lift (hdr rest : List Nat) (n : Nat) (Q : Nat → List Nat → Prop)
    (h : ∃ pre fl l0 l1 r, rest.drop n = pre ++ 0x12 :: fl :: l0 :: l1 :: r ∧ Q fl r) :
    ∃ pre fl l0 l1 r, hdr ++ rest = pre ++ 0x12 :: fl :: l0 :: l1 :: r ∧ Q fl r := by
  obtain ⟨pre, fl, l0, l1, r, he, hq⟩ := h
  refine ⟨hdr ++ rest.take n ++ pre, fl, l0, l1, r, ?_, hq⟩
  rw [List.append_assoc, List.append_assoc, ← he, List.take_append_drop]

/-- a panic of the submessage loop of the first delivery's tree (no D5 fix, parsers handed the whole rest) is
    caused by a NACK_FRAG header somewhere in the input whose fragment-number set meets `FragSetPanics` -/
theorem decodeLoop_false_panic (c : Cfg) (hd : c.d5 = false) (he : c.ext = false) (fuel : Nat) (v : List Nat)
    (h : decodeLoop c fuel v = .panic) :
    ∃ pre fl l0 l1 rest, v = pre ++ 0x12 :: fl :: l0 :: l1 :: rest ∧
      FragSetPanics (decide (fl % 2 = 1)) (rest.drop 16) := by
  induction fuel generalizing v with
  | zero => simp [decodeLoop] at h
  | succ k ih =>
    unfold decodeLoop at h
    split at h
    · rename_i id fl l0 l1 rest
      simp only [he] at h
      split at h
      · simp at h
      · simp only [Bool.false_eq_true, if_false] at h
        split at h
        · split at h
          · simp at h
          · simp at h
          · rename_i hrec
            exact suffix_lift [id, fl, l0, l1] rest _ (fun fl r => FragSetPanics (decide (fl % 2 = 1)) (r.drop 16))
              (ih _ hrec)
        · exact suffix_lift [id, fl, l0, l1] rest _ (fun fl r => FragSetPanics (decide (fl % 2 = 1)) (r.drop 16))
            (ih _ h)
        · rename_i hs
          obtain ⟨hid, hp⟩ := decodeSub_false_panic c hd _ _ _ _ _ hs
          subst hid
          exact ⟨[], fl, l0, l1, rest, by simp, nackFragRead_false_panic _ _ hp⟩
    · simp at h

end DustVerif.Wire
