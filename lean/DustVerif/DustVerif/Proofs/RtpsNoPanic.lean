import DustVerif.Proofs.RtpsSys
/-! The reader never panics (repaired NACK_FRAG construction): the fragment buffer never holds a complete sample,
    so "At least a fragment must be missing" holds whenever a NACK_FRAG is built, and the request set is cut at
    base + 255. -/
namespace DustVerif.Rtps

/-- no published sample has all its fragments in the buffer -/
def Incomplete (log : List Change) (f : Nat) (buf : List Frag) : Prop :=
  ∀ c, c ∈ log → (∃ fr, fr ∈ buf ∧ fr.sn = c.sn) → ∃ k, k < fragCount c f ∧ asDataFrag c f k ∉ buf

theorem Incomplete.sublist {log : List Change} {f : Nat} {a b : List Frag} (h : a.Sublist b) (hb : Incomplete log f b) :
    Incomplete log f a := by
  intro c hc ⟨fr, hfr, hsn⟩
  obtain ⟨k, hk, hmiss⟩ := hb c hc ⟨fr, h.subset hfr, hsn⟩
  exact ⟨k, hk, fun hm => hmiss (h.subset hm)⟩

def ReaderInc (log : List Change) (f : Nat) (r : Reader) : Prop :=
  ∀ p, r.proxy = some p → Incomplete log f p.fragBuf

theorem ReaderInc.setProxy {log : List Change} {f : Nat} {r : Reader} (h : ReaderInc log f r) (p p' : WProxy)
    (hp : r.proxy = some p) (hle : ProxyLe p p') : ReaderInc log f { r with proxy := some p' } := by
  intro q hq
  cases hq
  exact (h p hp).sublist hle.1

theorem onData_inc {log : List Change} {f : Nat} {r : Reader} (h : ReaderInc log f r) (sn : Nat) (payload : Payload) :
    ReaderInc log f (r.onData sn payload) := by
  unfold Reader.onData
  split
  · exact h
  · rename_i p hp
    have key : ∀ p' : WProxy, p'.fragBuf.Sublist p.fragBuf → ∀ (cache : List Change),
        ReaderInc log f { r with proxy := some p', cache := cache } := by
      intro p' hsub cache q hq
      cases hq
      exact (h p hp).sublist hsub
    simp only
    split
    · split
      · exact key _ (received_buf p sn) _
      · exact h
    · split
      · split
        · exact key { p.received sn with firstAvail := sn } (received_buf p sn) _
        · exact key _ (received_buf p sn) _
      · exact h

/-- the buffer after push + reconstruct attempt for the pushed sequence number stays incomplete -/
theorem incomplete_after_push {log : List Change} {f : Nat} (hl : LogOK log f) (buf : List Frag) (fr : Frag)
    (hfr : ∃ c, c ∈ log ∧ Genuine c f fr) (hb : BufGenuine log f buf) (hinc : Incomplete log f buf) (pushed : Bool) :
    let b1 := if pushed then pushFrag buf fr else buf
    Incomplete log f (reconstruct b1 fr.sn).2 := by
  intro b1
  have hb1 : BufGenuine log f b1 := by
    show BufGenuine log f (if pushed then pushFrag buf fr else buf)
    split
    · exact hb.push fr hfr
    · exact hb
  -- a sample with another sequence number keeps its missing fragment
  have other : ∀ c, c ∈ log → c.sn ≠ fr.sn → (∃ x, x ∈ b1 ∧ x.sn = c.sn) → ∃ k, k < fragCount c f ∧ asDataFrag c f k ∉ b1 := by
    intro c hc hne ⟨x, hx, hxs⟩
    have hxbuf : x ∈ buf := by
      have hx' : x ∈ (if pushed then pushFrag buf fr else buf) := hx
      split at hx'
      · rcases (mem_pushFrag buf fr x).mp hx' with h | h
        · exact h
        · subst h; exact absurd hxs.symm hne
      · exact hx'
    obtain ⟨k, hk, hmiss⟩ := hinc c hc ⟨x, hxbuf, hxs⟩
    refine ⟨k, hk, ?_⟩
    intro hm
    have hm' : asDataFrag c f k ∈ (if pushed then pushFrag buf fr else buf) := hm
    split at hm'
    · rcases (mem_pushFrag buf fr _).mp hm' with h | h
      · exact hmiss h
      · have : (asDataFrag c f k).sn = fr.sn := by rw [h]
        exact hne this
    · exact hmiss hm'
  unfold reconstruct
  cases hre : reassemble b1 fr.sn with
  | some d =>
    simp only
    intro c hc ⟨x, hx, hxs⟩
    have hxm := List.mem_filter.mp hx
    have hne : c.sn ≠ fr.sn := by
      intro heq
      have := hxm.2
      simp [notSn, hxs, heq] at this
    obtain ⟨k, hk, hmiss⟩ := other c hc hne ⟨x, hxm.1, hxs⟩
    exact ⟨k, hk, fun hm => hmiss (List.mem_filter.mp hm).1⟩
  | none =>
    simp only
    intro c hc ⟨x, hx, hxs⟩
    by_cases hne : c.sn = fr.sn
    · -- same sequence number: if nothing were missing the reconstruction would have succeeded
      apply Classical.byContradiction
      intro hno
      have hall : ∀ k, k < fragCount c f → asDataFrag c f k ∈ b1 := by
        intro k hk
        apply Classical.byContradiction
        intro hm
        exact hno ⟨k, hk, hm⟩
      obtain ⟨c', hc', g⟩ := hb1.2 x hx
      have hcc : c' = c := hl.uniq c' c hc' hc (by rw [← genuine_sn g, hxs])
      subst hcc
      obtain ⟨k0, hk0, _⟩ := g
      have := reassemble_complete c' f hl.fpos hl.f16 (hl.len c' hc) b1 (hb1.bufOK hl c' hc) (by omega) hall
      rw [hne] at this
      rw [hre] at this
      cases this
    · exact other c hc hne ⟨x, hx, hxs⟩

theorem onFrag_inc {log : List Change} {f : Nat} {r : Reader} (hl : LogOK log f) (hr : ReaderOK log f r)
    (h : ReaderInc log f r) (fr : Frag) (hfr : ∃ c, c ∈ log ∧ Genuine c f fr) : ReaderInc log f (r.onFrag fr) := by
  unfold Reader.onFrag
  split
  · exact h
  · rename_i p hp
    simp only
    by_cases hacc : (if r.reliable = true then fr.sn = p.availMax + 1 else fr.sn ≥ p.availMax + 1)
    · rw [if_pos hacc]
      have hkey := incomplete_after_push hl p.fragBuf fr hfr (hr.buf p hp) (h p hp) true
      simp only [if_true] at hkey
      cases hre : reassemble (pushFrag p.fragBuf fr) fr.sn with
      | some d =>
        simp only [reconstruct, hre] at hkey ⊢
        apply onData_inc
        intro q hq
        simp only at hq
        cases hq
        exact hkey
      | none =>
        simp only [reconstruct, hre] at hkey ⊢
        intro q hq
        simp only at hq
        cases hq
        exact hkey
    · rw [if_neg hacc]
      have hkey := incomplete_after_push hl p.fragBuf fr hfr (hr.buf p hp) (h p hp) false
      simp only [Bool.false_eq_true, if_false] at hkey
      cases hre : reassemble p.fragBuf fr.sn with
      | some d =>
        simp only [reconstruct, hre] at hkey ⊢
        apply onData_inc
        intro q hq
        simp only at hq
        cases hq
        exact hkey
      | none =>
        simp only [reconstruct, hre] at hkey ⊢
        intro q hq
        simp only at hq
        cases hq
        exact hkey

/-! ### the ACKNACK / NACK_FRAG construction does not panic -/

theorem ackDgram_no_panic {log : List Change} {f : Nat} (cfg : Cfg) (hfix : cfg.fixD1 = true) (hl : LogOK log f)
    (p : WProxy) (hb : BufGenuine log f p.fragBuf) (hinc : Incomplete log f p.fragBuf) : p.ackDgram cfg ≠ .panic := by
  unfold WProxy.ackDgram
  simp only
  split
  · intro h; cases h
  · rename_i sn hsn
    have hany := List.find?_some hsn
    simp only [hasFragOf, List.any_eq_true] at hany
    obtain ⟨x, hx, hxs⟩ := hany
    split
    · rename_i hnone
      exact absurd hxs (by simpa using List.find?_eq_none.mp hnone x hx)
    · rename_i fr hfr
      have hfrm := List.mem_of_find?_eq_some hfr
      have hfrs := (isSn_iff sn fr).mp (List.find?_some hfr)
      obtain ⟨c, hc, g⟩ := hb.2 fr hfrm
      have hcsn : c.sn = sn := by rw [← genuine_sn g, hfrs]
      obtain ⟨k0, _, hk0e⟩ := g
      have htot : divCeil fr.dataSize fr.fragSize = fragCount c f := by
        have := totalExpected_genuine c f k0 hl.fpos hl.f16 (hl.len c hc)
        rw [← hk0e] at this; exact this
      obtain ⟨k, hk, hmiss⟩ := hinc c hc ⟨fr, hfrm, by rw [hfrs, hcsn]⟩
      have hmem : k + 1 ∈ missingFrags p.fragBuf sn (divCeil fr.dataSize fr.fragSize) := by
        rw [mem_missingFrags', htot]
        refine ⟨⟨by omega, by omega⟩, ?_⟩
        simp only [fragAbsent, Bool.not_eq_true', List.any_eq_false]
        intro y hy hys
        simp only [isSnStart, Bool.and_eq_true, beq_iff_eq] at hys
        obtain ⟨c', hc', g'⟩ := hb.2 y hy
        have : c' = c := hl.uniq c' c hc' hc (by rw [← genuine_sn g', hys.1, hcsn])
        subst this
        obtain ⟨j, hj, rfl⟩ := g'
        have hst := asDataFrag_startNum c' f j hl.fpos (hl.len c' hc) hj
        have : j = k := by omega
        subst this
        exact hmiss hy
      split
      · rename_i hnil
        rw [hnil] at hmem; cases hmem
      · rw [if_pos hfix]
        intro h; cases h

theorem proxy_writeMessage_no_panic {log : List Change} {f : Nat} (cfg : Cfg) (hfix : cfg.fixD1 = true) (hl : LogOK log f)
    (p : WProxy) (hb : BufGenuine log f p.fragBuf) (hinc : Incomplete log f p.fragBuf) : p.writeMessage cfg ≠ .panic := by
  unfold WProxy.writeMessage
  split
  · exact ackDgram_no_panic cfg hfix hl _ (hb.sublist (prepareAck_le cfg p).1) (hinc.sublist (prepareAck_le cfg p).1)
  · intro h; cases h

theorem ok_both {α β : Type} {P : α → Prop} (a : α) (b : β) (h : P a) :
    (Out.ok (a, b) : Out (α × β)) ≠ .panic ∧ ∀ a' b', (Out.ok (a, b) : Out (α × β)) = .ok (a', b') → P a' := by
  constructor
  · intro h; cases h
  · intro a' b' e
    injection e with e; injection e with e1 _; subst e1; exact h

theorem ok_ne_panic {α : Type} (a : α) : (Out.ok a : Out α) ≠ .panic := by
  intro h; cases h

theorem onHb_inc {log : List Change} {f : Nat} {r : Reader} (cfg : Cfg) (hfix : cfg.fixD1 = true) (hl : LogOK log f)
    (hr : ReaderOK log f r) (h : ReaderInc log f r) (first last count : Nat) (fin lv : Bool) :
    r.onHb cfg first last count fin lv ≠ .panic ∧
    ∀ r' out, r.onHb cfg first last count fin lv = .ok (r', out) → ReaderInc log f r' := by
  unfold Reader.onHb
  split
  · exact ok_both r [] h
  · rename_i p hp
    split
    · simp only
      split
      · rename_i p2 out2 hw
        obtain ⟨hle, _⟩ := proxy_writeMessage_ok cfg _ p2 _ hw
        exact ok_both _ _ (h.setProxy p p2 hp (ProxyLe.trans ⟨List.Sublist.refl _, Nat.le_refl _⟩ hle))
      · rename_i hw
        exact absurd hw (proxy_writeMessage_no_panic cfg hfix hl _ (hr.buf p hp) (h p hp))
    · exact ok_both r [] h

theorem onSub_inc {log : List Change} {f : Nat} {r : Reader} (cfg : Cfg) (hfix : cfg.fixD1 = true) (hl : LogOK log f)
    (hr : ReaderOK log f r) (h : ReaderInc log f r) (s : Sub) (hs : SubGenuine log f s) :
    r.onSub cfg s ≠ .panic ∧ ∀ r' out, r.onSub cfg s = .ok (r', out) → ReaderInc log f r' := by
  cases s
  case hb a b c e g => exact onHb_inc cfg hfix hl hr h a b c e g
  case data sn p =>
    simp only [Reader.onSub]
    exact ok_both _ _ (onData_inc h sn p)
  case frag fr =>
    simp only [Reader.onSub]
    exact ok_both _ _ (onFrag_inc hl hr h fr hs)
  case gap a b c =>
    simp only [Reader.onSub]
    apply ok_both
    unfold Reader.onGap
    split
    · exact h
    · rename_i p hp
      apply h.setProxy p _ hp
      refine ProxyLe.trans ?_ (foldl_irrelevant_le cfg c _)
      split
      · split
        · exact irrelevantRange_le p _ _
        · exact ProxyLe.refl p
      · split
        · exact foldl_irrelevant_le cfg _ p
        · exact ProxyLe.refl p
  all_goals
    simp only [Reader.onSub]
    exact ok_both _ _ h

theorem onSubs_inc {log : List Change} {f : Nat} (cfg : Cfg) (hfix : cfg.fixD1 = true) (hl : LogOK log f) (subs : List Sub)
    (r : Reader) (hr : ReaderOK log f r) (h : ReaderInc log f r) (hs : ∀ s, s ∈ subs → SubGenuine log f s) :
    r.onSubs cfg subs ≠ .panic ∧ ∀ r' out, r.onSubs cfg subs = .ok (r', out) → ReaderInc log f r' := by
  induction subs generalizing r with
  | nil =>
    simp only [Reader.onSubs]
    exact ok_both _ _ h
  | cons s rest ih =>
    simp only [Reader.onSubs]
    obtain ⟨np1, inc1⟩ := onSub_inc cfg hfix hl hr h s (hs s (List.mem_cons_self ..))
    split
    · rename_i hp; exact absurd hp np1
    · rename_i r1 o1 h1
      obtain ⟨hr1, _⟩ := onSub_ok hl hr cfg s (hs s (List.mem_cons_self ..)) o1 h1
      obtain ⟨np2, inc2⟩ := ih r1 hr1 (inc1 r1 o1 h1) (fun x hx => hs x (List.mem_cons_of_mem _ hx))
      split
      · rename_i hp; exact absurd hp np2
      · rename_i r2 o2 h2
        exact ok_both (P := ReaderInc log f) _ _ (inc2 r2 o2 h2)

/-! ### system -/

structure Inv5 (s : Sys) : Prop where
  inv1 : Inv1 s
  inc : ReaderInc s.log s.w.f s.r

theorem inv5_init (rel tl : Bool) (f : Nat) (hf : 1 ≤ f) (hf16 : f < 65536) : Inv5 (Sys.init rel tl f) :=
  ⟨inv1_init rel tl f hf hf16, by intro p hp; simp [Sys.init] at hp⟩

theorem step_no_panic (cfg : Cfg) (hfix : cfg.fixD43 = true) (hfix1 : cfg.fixD1 = true) (s : Sys) (st : Step)
    (hst : StepOK st) (h : Inv5 s) :
    s.step cfg st ≠ .panic ∧ ∀ s' out, s.step cfg st = .ok (s', out) → Inv5 s' := by
  have next1 : ∀ s' out, s.step cfg st = .ok (s', out) → Inv1 s' :=
    fun s' out e => inv1_step cfg hfix s s' st out hst h.inv1 e
  cases st with
  | doMatch =>
    refine ⟨by simp only [Sys.step]; exact ok_ne_panic _, ?_⟩
    intro s' out e
    refine ⟨next1 s' out e, ?_⟩
    simp only [Sys.step] at e
    injection e with e; injection e with e1 _; subst e1
    have hc := addMatchedReader_same cfg s.w s.rel s.tl
    simp only; rw [hc.2]
    unfold Reader.addMatchedWriter
    split
    · intro q hq; cases hq
      intro c _ ⟨fr, hfr, _⟩
      simp [WProxy.new] at hfr
    · rw [if_pos hfix]; exact h.inc
  | write p =>
    refine ⟨by simp only [Sys.step]; exact ok_ne_panic _, ?_⟩
    intro s' out e
    refine ⟨next1 s' out e, ?_⟩
    simp only [Sys.step] at e
    injection e with e; injection e with e1 _; subst e1
    simp only [Writer.addChange]
    have hc := Writer.writeMessage_changes cfg { s.w with changes := s.w.changes ++ [⟨s.lastSn + 1, p⟩] } s.now
    rw [hc.2]
    intro q hq c hcm ⟨fr, hfr, hsn⟩
    rcases List.mem_append.mp hcm with hm | hm
    · exact h.inc q hq c hm ⟨fr, hfr, hsn⟩
    · -- no buffered fragment carries the new sequence number
      exfalso
      simp only [List.mem_singleton] at hm
      subst hm
      obtain ⟨c', hc', g⟩ := (h.inv1.reader.buf q hq).2 fr hfr
      have := (h.inv1.logSn c' hc').2
      have := genuine_sn g
      simp only at hsn
      omega
  | remove sn =>
    refine ⟨by simp only [Sys.step]; exact ok_ne_panic _, ?_⟩
    intro s' out e
    refine ⟨next1 s' out e, ?_⟩
    simp only [Sys.step] at e
    injection e with e; injection e with e1 _; subst e1
    exact h.inc
  | tick ms =>
    refine ⟨by simp only [Sys.step]; exact ok_ne_panic _, ?_⟩
    intro s' out e
    refine ⟨next1 s' out e, ?_⟩
    simp only [Sys.step] at e
    injection e with e; injection e with e1 _; subst e1
    have hc := Writer.writeMessage_changes cfg s.w (s.now + ms)
    simp only; rw [hc.2]; exact h.inc
  | drop i =>
    refine ⟨by simp only [Sys.step]; split <;> exact ok_ne_panic _, ?_⟩
    intro s' out e
    refine ⟨next1 s' out e, ?_⟩
    simp only [Sys.step] at e
    split at e <;> (injection e with e; injection e with e1 _; subst e1; exact h.inc)
  | dup i =>
    refine ⟨by simp only [Sys.step]; split <;> exact ok_ne_panic _, ?_⟩
    intro s' out e
    refine ⟨next1 s' out e, ?_⟩
    simp only [Sys.step] at e
    split at e <;> (injection e with e; injection e with e1 _; subst e1; exact h.inc)
  | deliver i =>
    simp only [Sys.step]
    split
    · exact ok_both (P := Inv5) _ _ h
    · have hboth : s.deliverAt cfg (i % s.net.length) ≠ .panic ∧
          ∀ s' out, s.deliverAt cfg (i % s.net.length) = .ok (s', out) → ReaderInc s'.log s'.w.f s'.r := by
        unfold Sys.deliverAt
        split
        · exact ok_both (P := fun s' : Sys => ReaderInc s'.log s'.w.f s'.r) _ _ h.inc
        · rename_i d hd
          have hdmem : d ∈ s.net := getElem?_mem' hd
          simp only
          split
          · obtain ⟨np, inc⟩ := onSubs_inc cfg hfix1 h.inv1.logOK d.subs s.r h.inv1.reader h.inc (h.inv1.net d hdmem)
            split
            · rename_i hp; exact absurd hp np
            · rename_i r' o hro
              exact ok_both (P := fun s' : Sys => ReaderInc s'.log s'.w.f s'.r) _ _ (inc r' o hro)
          · apply ok_both (P := fun s' : Sys => ReaderInc s'.log s'.w.f s'.r)
            have hc := Writer.onSubs_changes cfg s.w s.now d.subs
            simp only; rw [hc.2]; exact h.inc
      refine ⟨hboth.1, ?_⟩
      intro s' out e
      exact ⟨inv1_deliverAt cfg s s' _ out h.inv1 e, hboth.2 s' out e⟩

theorem run_no_panic (cfg : Cfg) (hfix : cfg.fixD43 = true) (hfix1 : cfg.fixD1 = true) (steps : List Step) (s : Sys)
    (hsteps : ∀ st, st ∈ steps → StepOK st) (h : Inv5 s) : Sys.run cfg s steps ≠ .panic := by
  induction steps generalizing s with
  | nil => simp [Sys.run]
  | cons st rest ih =>
    simp only [Sys.run]
    obtain ⟨np, nx⟩ := step_no_panic cfg hfix hfix1 s st (hsteps st (List.mem_cons_self ..)) h
    split
    · rename_i hp; exact absurd hp np
    · rename_i s1 o1 h1
      exact ih s1 (fun x hx => hsteps x (List.mem_cons_of_mem _ hx)) (nx s1 o1 h1)

end DustVerif.Rtps
