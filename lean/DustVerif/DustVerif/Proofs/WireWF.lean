import DustVerif.Proofs.WirePrim
/-! Well-formedness predicates of C08 (explicit, decidable) and length lemmas of the encoder. -/
namespace DustVerif.Wire
open Outcome

def isI64 (x : Int) : Prop := -9223372036854775808 ≤ x ∧ x ≤ 9223372036854775807
def isI32 (x : Int) : Prop := -2147483648 ≤ x ∧ x ≤ 2147483647
def isI16 (x : Int) : Prop := -32768 ≤ x ∧ x ≤ 32767
instance (x : Int) : Decidable (isI64 x) := by unfold isI64; exact inferInstance
instance (x : Int) : Decidable (isI32 x) := by unfold isI32; exact inferInstance
instance (x : Int) : Decidable (isI16 x) := by unfold isI16; exact inferInstance

/-- a parameter the wire format can carry unchanged: id in `i16` and not the sentinel, value length a
    multiple of 4 (the writer pads, the reader cannot tell padding from value) and `< 2^16` -/
def Param.WF (p : Param) : Prop :=
  isI16 p.pid ∧ p.pid ≠ PID_SENTINEL ∧ p.value.length % 4 = 0 ∧ p.value.length < 65536
instance (p : Param) : Decidable p.WF := by unfold Param.WF; exact inferInstance

/-- shape of a `SequenceNumberSet` as built by `new` or by the decoder: `numBits ≤ 256`, eight 32-bit words,
    words beyond `M = ceil(numBits/32)` zero, and every sequence number it can denote is an `i64`
    (`base + numBits − 1 ≤ i64::MAX`; sets built by `new` from `i64` members satisfy it, the decoder with
    fixes/D-wire-4.patch rejects the others) -/
def SNSet.WF (s : SNSet) : Prop :=
  isI64 s.base ∧ s.numBits ≤ 256 ∧ s.bitmap.length = 8 ∧ (∀ w ∈ s.bitmap, w < 4294967296) ∧
    s.bitmap.drop (divCeil32 s.numBits) = List.replicate (8 - divCeil32 s.numBits) 0 ∧
    (0 < s.numBits → s.base + ((s.numBits : Int) - 1) ≤ 9223372036854775807)
instance (s : SNSet) : Decidable s.WF := by unfold SNSet.WF; exact inferInstance

/-- shape of a `FragmentNumberSet` as built by `new` (the decoder rebuilds the set with `new`):
    `numBits` = largest member − base + 1, no bit at or beyond `numBits`, largest member ≤ `u32::MAX` -/
def FNSet.WF (s : FNSet) : Prop :=
  s.base < 4294967296 ∧ s.numBits ≤ 256 ∧ s.base + s.numBits ≤ 4294967296 ∧ s.bitmap.length = 8 ∧ (∀ w ∈ s.bitmap, w < 4294967296) ∧
    (∀ d, d < 256 → s.numBits ≤ d → getBit s.bitmap d = false) ∧
    (0 < s.numBits → getBit s.bitmap (s.numBits - 1) = true)
instance (s : FNSet) : Decidable s.WF := by unfold FNSet.WF; exact inferInstance

def Locator.WF (l : Locator) : Prop := isI32 l.kind ∧ l.port < 4294967296 ∧ l.address.length = 16
instance (l : Locator) : Decidable l.WF := by unfold Locator.WF; exact inferInstance

/-- field ranges of one submessage (everything except the length limit) -/
def Sub.fieldsWF : Sub → Prop
  | .data q d k _ reader writer sn qos payload =>
    reader.length = 4 ∧ writer.length = 4 ∧ isI64 sn ∧ (∀ p ∈ qos, p.WF) ∧ (q = false → qos = []) ∧
      ((d || k) = false → payload = [])
  | .dataFrag q _ _ reader writer sn fragStart fragsInSub fragSize dataSize qos _ =>
    reader.length = 4 ∧ writer.length = 4 ∧ isI64 sn ∧ fragStart < 4294967296 ∧ fragsInSub < 65536 ∧
      fragSize < 65536 ∧ dataSize < 4294967296 ∧ (∀ p ∈ qos, p.WF) ∧ (q = false → qos = [])
  | .gap reader writer start set => reader.length = 4 ∧ writer.length = 4 ∧ isI64 start ∧ set.WF
  | .heartbeat _ _ reader writer first last count =>
    reader.length = 4 ∧ writer.length = 4 ∧ isI64 first ∧ isI64 last ∧ isI32 count
  | .ackNack _ reader writer set count => reader.length = 4 ∧ writer.length = 4 ∧ set.WF ∧ isI32 count
  | .nackFrag reader writer sn set count => reader.length = 4 ∧ writer.length = 4 ∧ isI64 sn ∧ set.WF ∧ isI32 count
  | .heartbeatFrag reader writer sn lastFrag count =>
    reader.length = 4 ∧ writer.length = 4 ∧ isI64 sn ∧ lastFrag < 4294967296 ∧ isI32 count
  | .infoDst p => p.length = 12
  | .infoSrc version vendor p => version.length = 2 ∧ vendor.length = 2 ∧ p.length = 12
  | .infoReply m uni multi => (m = false → multi = []) ∧ (∀ l ∈ uni, l.WF) ∧ (∀ l ∈ multi, l.WF)
  | .infoTs inv sec frac => sec < 4294967296 ∧ frac < 4294967296 ∧ (inv = true → sec = 4294967295 ∧ frac = 4294967295)
  | .pad => True
instance (s : Sub) : Decidable s.fieldsWF := by cases s <;> (unfold Sub.fieldsWF; exact inferInstance)

/-- the real limit of `write_submessage_into_bytes`: the elements must fit the 16-bit octetsToNextHeader -/
def Sub.WF (s : Sub) : Prop := s.fieldsWF ∧ (s.body true).length < 65536
instance (s : Sub) : Decidable s.WF := by unfold Sub.WF; exact inferInstance

def Header.WF (h : Header) : Prop := h.version.length = 2 ∧ h.vendorId.length = 2 ∧ h.guidPrefix.length = 12
instance (h : Header) : Decidable h.WF := by unfold Header.WF; exact inferInstance

/-- well-formed message: header field widths, at most MAX_SUBMESSAGES submessages, every submessage well-formed -/
def Msg.WF (m : Msg) : Prop := m.header.WF ∧ m.subs.length ≤ MAX_SUBMESSAGES ∧ ∀ s ∈ m.subs, s.WF
instance (m : Msg) : Decidable m.WF := by unfold Msg.WF; exact inferInstance

/-! ### encoder lengths do not depend on the byte order -/
@[simp] theorem length_u16E (le : Bool) (x : Nat) : (u16E le x).length = 2 := by cases le <;> simp [u16E]
@[simp] theorem length_u32E (le : Bool) (x : Nat) : (u32E le x).length = 4 := by cases le <;> simp [u32E]
@[simp] theorem length_i32E (le : Bool) (x : Int) : (i32E le x).length = 4 := by simp [i32E]
@[simp] theorem length_i16E (le : Bool) (x : Int) : (i16E le x).length = 2 := by simp [i16E]
@[simp] theorem length_snE (le : Bool) (x : Int) : (snE le x).length = 8 := by simp [snE]
@[simp] theorem length_wordsE (le : Bool) (ws : List Nat) : (wordsE le ws).length = 4 * ws.length := by
  induction ws with
  | nil => simp [wordsE]
  | cons w ws ih => simp [wordsE, ih]; omega
@[simp] theorem length_paramE (le : Bool) (p : Param) :
    (paramE le p).length = 4 + p.value.length + padLen p.value.length := by
  simp [paramE]; omega
theorem length_paramsE (le : Bool) (ps : List Param) : (paramsE le ps).length = (paramsE true ps).length := by
  induction ps with
  | nil => simp [paramsE]
  | cons p ps ih => simp [paramsE, ih]
theorem length_paramListE (le : Bool) (ps : List Param) : (paramListE le ps).length = (paramListE true ps).length := by
  simp [paramListE, length_paramsE le ps]
theorem length_locatorsE (le : Bool) (ls : List Locator) : (locatorsE le ls).length = (locatorsE true ls).length := by
  induction ls with
  | nil => simp [locatorsE]
  | cons l ls ih => simp [locatorsE, locatorE, ih]
theorem length_locatorListE (le : Bool) (ls : List Locator) :
    (locatorListE le ls).length = (locatorListE true ls).length := by
  simp [locatorListE, length_locatorsE le ls]

theorem length_body (le : Bool) (s : Sub) : (s.body le).length = (s.body true).length := by
  cases s <;> simp [Sub.body, snsetE, fnsetE]
  case data q d k n reader writer sn qos payload =>
    cases q <;> simp [length_paramListE le qos]
  case dataFrag q k n reader writer sn a b c d' qos payload =>
    cases q <;> simp [length_paramListE le qos]
  case infoReply m uni multi =>
    cases m <;> simp [length_locatorListE le uni, length_locatorListE le multi]
  case infoTs inv sec frac =>
    cases inv <;> simp

end DustVerif.Wire
