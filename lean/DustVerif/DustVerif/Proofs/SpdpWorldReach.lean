import DustVerif.Model.SpdpWorld
/-! Every participant state of every world reachable by the operations of Model/SpdpWorld.lean is
    `Spdp.run (St.init domain tag) steps` for some step list. -/
namespace DustVerif.SpdpWorld
open DustVerif.Spdp

def Reach (p : Part) (st : St) : Prop := ∃ steps, st = run (St.init p.domain p.tag) steps

theorem run_snoc (s : St) (a : List Step) (x : Step) : run s (a ++ [x]) = step (run s a) x := by
  induction a generalizing s with
  | nil => rfl
  | cons y ys ih => simp [run, ih]

theorem reach_step (p : Part) (st : St) (x : Step) (h : Reach p st) : Reach p (step st x) := by
  obtain ⟨steps, hs⟩ := h
  exact ⟨steps ++ [x], by rw [run_snoc, hs]⟩

def PartOk (p : Part) : Prop := Reach p p.st
def WInv (w : World) : Prop := ∀ p ∈ w.parts, PartOk p

theorem partOk_st (p : Part) (st' : St) (h : Reach p st') : PartOk { p with st := st' } := h

theorem receive_ok (now : Nat) (d : Data) (p : Part) (h : PartOk p) : PartOk (receive now d p).1 :=
  partOk_st p _ (reach_step p p.st (.spdp d now) h)

theorem deliverAll_ok (now domain : Nat) (d : Data) (ps : List Part) : ∀ j, (∀ p ∈ ps, PartOk p) →
    ∀ p ∈ (deliverAll now domain d ps j).1, PartOk p := by
  induction ps with
  | nil => intro j _ p hp; simp [deliverAll] at hp
  | cons a as ih =>
    intro j h p hp
    simp only [deliverAll] at hp
    have hr := ih (j + 1) (fun q hq => h q (by simp [hq]))
    split at hp
    · simp only [List.mem_cons] at hp
      rcases hp with rfl | hp
      · exact receive_ok now d a (h a (by simp))
      · exact hr p hp
    · simp only [List.mem_cons] at hp
      rcases hp with rfl | hp
      · exact h p (by simp)
      · exact hr p hp

theorem getPart_mem (w : World) (i : Nat) (p : Part) (h : getPart w i = some p) : p ∈ w.parts :=
  List.mem_of_getElem? h

theorem setPart_inv (w : World) (i : Nat) (p : Part) (h : WInv w) (hp : PartOk p) : WInv (setPart w i p) := by
  intro q hq
  simp only [setPart] at hq
  rcases List.mem_or_eq_of_mem_set hq with hq | rfl
  · exact h q hq
  · exact hp

theorem sendFrom_inv (w1 : World) (i : Nat) (p : Part) (h1 : WInv w1) (hpo : PartOk p) : WInv (sendFrom w1 i p).1 := by
  unfold sendFrom
  split
  · exact h1
  · split
    · intro q hq; exact h1 q (by simpa [useHold] using hq)
    · split
      · exact setPart_inv _ i _ h1 hpo
      · intro q hq
        exact deliverAll_ok _ _ _ _ 0 h1 q hq

theorem announceFrom_inv (w : World) (i : Nat) (h : WInv w) : WInv (announceFrom w i).1 := by
  unfold announceFrom
  split
  · exact h
  · rename_i p hp
    have hpo : PartOk p := h p (getPart_mem w i p hp)
    split
    · exact h
    · exact sendFrom_inv _ i p (setPart_inv w i _ h hpo) hpo

theorem cascade_inv (fuel : Nat) : ∀ (w : World) (q : List Nat), WInv w → WInv (cascade fuel w q) := by
  induction fuel with
  | zero => intro w q h; exact h
  | succ n ih =>
    intro w q h
    cases q with
    | nil => exact h
    | cons i rest =>
      simp only [cascade]
      exact ih _ _ (announceFrom_inv w i h)

theorem createPart_inv (w : World) (d : Nat) (h : WInv w) : WInv (createPart w d).1 := by
  unfold createPart
  apply cascade_inv
  intro p hp
  simp only [List.mem_append, List.mem_singleton] at hp
  rcases hp with hp | rfl
  · exact h p hp
  · exact ⟨[], rfl⟩

theorem forge_inv (w : World) (to : Nat) (d : Data) (h : WInv w) : WInv (forge w to d) := by
  unfold forge
  split
  · exact h
  · rename_i p hp
    split
    · exact h
    · exact cascade_inv _ _ _ (setPart_inv w to _ h (receive_ok w.now d p (h p (getPart_mem w to p hp))))

theorem disposeAll_ok (domain k : Nat) (ps : List Part) (h : ∀ p ∈ ps, PartOk p) : ∀ p ∈ disposeAll domain k ps, PartOk p := by
  induction ps with
  | nil => intro p hp; simp [disposeAll] at hp
  | cons a as ih =>
    intro p hp
    simp only [disposeAll, List.mem_cons] at hp
    rcases hp with rfl | hp
    · split
      · exact partOk_st a _ (reach_step a a.st (.dispose k) (h a (by simp)))
      · exact h a (by simp)
    · exact ih (fun q hq => h q (by simp [hq])) p hp

theorem deletePart_inv (w : World) (i : Nat) (h : WInv w) : WInv (deletePart w i) := by
  unfold deletePart
  split
  · exact h
  · rename_i p hp
    have hpo : PartOk p := h p (getPart_mem w i p hp)
    have h1 : WInv (setPart w i { p with alive := false }) := setPart_inv w i _ h hpo
    split
    · exact h1
    · split
      · exact setPart_inv w i _ h hpo
      · intro q hq
        exact disposeAll_ok _ _ _ h1 q hq

theorem tickAll_inv (w : World) (h : WInv w) : WInv (tickAll w) := by
  intro q hq
  simp only [tickAll, List.mem_map] at hq
  obtain ⟨a, ha, rfl⟩ := hq
  split
  · exact partOk_st a _ (reach_step a a.st (.tick w.now) (h a ha))
  · exact h a ha

theorem advanceTo_inv (fuel : Nat) : ∀ (w : World) (target : Nat) (w' : World), advanceTo fuel w target = some w' → WInv w → WInv w' := by
  induction fuel with
  | zero => intro w t w' h; simp [advanceTo] at h
  | succ n ih =>
    intro w t w' h hw
    simp only [advanceTo] at h
    split at h
    · simp only [Option.some.injEq] at h; subst h; exact hw
    · split at h
      · simp only [Option.some.injEq] at h; subst h; exact hw
      · refine ih _ _ _ h ?_
        apply cascade_inv
        apply tickAll_inv
        exact hw

theorem applyOp_inv (w : World) (x : WOp) (h : WInv w) : WInv (applyOp w x) := by
  cases x with
  | config i t => exact h
  | hold i n => exact h
  | createPart d => exact createPart_inv w d h
  | forge to d => exact forge_inv w to d h
  | deletePart i => exact deletePart_inv w i h
  | mute i =>
    simp only [applyOp, muteP]
    split
    · exact h
    · rename_i p hp; exact setPart_inv w i _ h (h p (getPart_mem w i p hp))
  | drop i n =>
    simp only [applyOp, addDrop]
    split
    · exact h
    · rename_i p hp; exact setPart_inv w i _ h (h p (getPart_mem w i p hp))
  | ignore i hh =>
    simp only [applyOp, ignoreP]
    split
    · exact h
    · rename_i p hp
      have hpo : PartOk p := h p (getPart_mem w i p hp)
      cases hi : ignore p.st hh with
      | none => exact h
      | some s =>
        simp only [Option.getD_some]
        refine setPart_inv w i _ h (partOk_st p s ?_)
        have := reach_step p p.st (.ignore hh) hpo
        simpa [step, hi] using this
  | advance d =>
    simp only [applyOp]
    cases ha : advanceTo ADVANCE_FUEL w (w.now + d) with
    | none => exact h
    | some w' => exact advanceTo_inv _ _ _ _ ha h

theorem runOps_inv (ops : List WOp) : ∀ w, WInv w → WInv (runOps w ops) := by
  induction ops with
  | nil => intro w h; exact h
  | cons x xs ih => intro w h; exact ih _ (applyOp_inv w x h)

theorem world_participants_reachable (ops : List WOp) :
    ∀ p ∈ (runOps World.init ops).parts, ∃ steps, p.st = run (St.init p.domain p.tag) steps :=
  runOps_inv ops World.init (by intro p hp; simp [World.init] at hp)

end DustVerif.SpdpWorld
