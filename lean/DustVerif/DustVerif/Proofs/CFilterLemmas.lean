import DustVerif.Model.CFilter
/-! Lemmas about the string helpers of Model/CFilter.lean (`splitOnce`, `trim`, `detect`, `strLe`). -/
namespace DustVerif.CFilter

theorem isPrefix_cons_ne (p c : Char) (ps cs : List Char) (h : c ≠ p) : isPrefix (p :: ps) (c :: cs) = false := by
  have : (p == c) = false := by
    simp only [beq_eq_false_iff_ne, ne_eq]
    exact fun e => h e.symm
  simp [isPrefix, this]

theorem splitOnce_none (p : Char) (ps l : List Char) (h : ∀ c ∈ l, c ≠ p) : splitOnce (p :: ps) l = none := by
  induction l with
  | nil => simp [splitOnce]
  | cons c cs ih =>
    have hc : c ≠ p := h c (by simp)
    have ih' := ih (fun x hx => h x (by simp [hx]))
    simp [splitOnce, isPrefix_cons_ne p c ps cs hc, ih']

theorem splitOnce_hit (pat : List Char) (c : Char) (cs : List Char) (h : isPrefix pat (c :: cs) = true) :
    splitOnce pat (c :: cs) = some ([], (c :: cs).drop pat.length) := by
  simp [splitOnce, h]

theorem splitOnce_skip (p : Char) (ps pre : List Char) (c : Char) (cs : List Char) (h : ∀ x ∈ pre, x ≠ p)
    (hit : isPrefix (p :: ps) (c :: cs) = true) :
    splitOnce (p :: ps) (pre ++ c :: cs) = some (pre, (c :: cs).drop (p :: ps).length) := by
  induction pre with
  | nil => simpa using splitOnce_hit (p :: ps) c cs hit
  | cons y ys ih =>
    have hy : y ≠ p := h y (by simp)
    have ih' := ih (fun x hx => h x (by simp [hx]))
    simp only [List.cons_append, splitOnce, isPrefix_cons_ne p y ps (ys ++ c :: cs) hy]
    simp [ih']

/-- `a <= b …`: the text before the first "<=" and the operator the code calls LessThan -/
theorem detectFull_le (pre rest : List Char) (h : ∀ c ∈ pre, c ≠ '<') :
    detectFull (pre ++ '<' :: '=' :: rest) = some (pre, rest, Op.le) := by
  have := splitOnce_skip '<' ['='] pre '<' ('=' :: rest) h (by simp [isPrefix])
  simp [detectFull, this]

theorem detect_le (pre rest : List Char) (h : ∀ c ∈ pre, c ≠ '<') :
    detect (pre ++ '<' :: '=' :: rest) = some (pre, Op.le) := by
  simp [detect, detectFull_le pre rest h]

/-- `a = b …`: no "<=" anywhere, the text before the first "=" -/
theorem detectFull_eq (pre rest : List Char) (h1 : ∀ c ∈ pre, c ≠ '<' ∧ c ≠ '=') (h2 : ∀ c ∈ rest, c ≠ '<') :
    detectFull (pre ++ '=' :: rest) = some (pre, rest, Op.eq) := by
  have hnone : splitOnce ['<', '='] (pre ++ '=' :: rest) = none := by
    apply splitOnce_none
    intro c hc
    simp only [List.mem_append, List.mem_cons] at hc
    rcases hc with hc | hc | hc
    · exact (h1 c hc).1
    · subst hc; decide
    · exact h2 c hc
  have := splitOnce_skip '=' [] pre '=' rest (fun c hc => (h1 c hc).2) (by simp [isPrefix])
  simp [detectFull, hnone, this]

theorem detect_eq (pre rest : List Char) (h1 : ∀ c ∈ pre, c ≠ '<' ∧ c ≠ '=') (h2 : ∀ c ∈ rest, c ≠ '<') :
    detect (pre ++ '=' :: rest) = some (pre, Op.eq) := by
  simp [detect, detectFull_eq pre rest h1 h2]

theorem trimLeft_pad (n : Nat) (l : List Char) : trimLeft (List.replicate n ' ' ++ l) = trimLeft l := by
  induction n with
  | zero => simp
  | succ n ih => simp [List.replicate_succ, trimLeft, isWs, ih]

theorem trimLeft_id (c : Char) (cs : List Char) (h : isWs c = false) : trimLeft (c :: cs) = c :: cs := by
  simp [trimLeft, h]

/-- an identifier followed by blanks trims to the identifier -/
theorem trim_pad (m : List Char) (n : Nat) (hne : m ≠ []) (hws : ∀ c ∈ m, isWs c = false) :
    trim (m ++ List.replicate n ' ') = m := by
  obtain ⟨c, cs, rfl⟩ := List.exists_cons_of_ne_nil hne
  have h1 : trimLeft (c :: cs ++ List.replicate n ' ') = c :: cs ++ List.replicate n ' ' := by
    simpa using trimLeft_id c (cs ++ List.replicate n ' ') (hws c (by simp))
  have hrev : (c :: cs ++ List.replicate n ' ').reverse = List.replicate n ' ' ++ (c :: cs).reverse := by
    simp [List.reverse_append]
  have hne' : (c :: cs).reverse ≠ [] := by simp
  obtain ⟨d, ds, hd⟩ := List.exists_cons_of_ne_nil hne'
  have hdm : d ∈ c :: cs := by
    have : d ∈ (c :: cs).reverse := by rw [hd]; simp
    exact List.mem_reverse.mp this
  unfold trim
  rw [h1, hrev, trimLeft_pad, hd, trimLeft_id d ds (hws d hdm), ← hd, List.reverse_reverse]

theorem cmpInt_iff (op : Op) (a b : Int) :
    cmpInt op a b = true ↔ (match op with | .eq => a = b | .le => a ≤ b) := by
  cases op <;> simp [cmpInt]

theorem strLe_iff (a b : List Char) :
    strLe a b = true ↔ a.map Char.toNat ≤ b.map Char.toNat := by
  induction a generalizing b with
  | nil => simp [strLe]
  | cons x xs ih =>
    cases b with
    | nil => simp [strLe]
    | cons y ys =>
      simp only [strLe, List.map_cons, List.cons_le_cons_iff]
      by_cases h1 : x.toNat < y.toNat
      · simp [h1]
      · by_cases h2 : x.toNat = y.toNat
        · simp [h2, ih]
        · simp [h1, h2]

/-- blanks on both sides of a text that starts and ends with a non-blank are trimmed away -/
theorem trim_both (a b : Nat) (c : Char) (cs : List Char) (hc : isWs c = false)
    (hl : ∀ d ds, (c :: cs).reverse = d :: ds → isWs d = false) :
    trim (List.replicate a ' ' ++ (c :: cs) ++ List.replicate b ' ') = c :: cs := by
  unfold trim
  have h1 : trimLeft (List.replicate a ' ' ++ (c :: cs) ++ List.replicate b ' ') = c :: cs ++ List.replicate b ' ' := by
    rw [List.append_assoc, trimLeft_pad]
    simpa using trimLeft_id c (cs ++ List.replicate b ' ') hc
  have hrev : (c :: cs ++ List.replicate b ' ').reverse = List.replicate b ' ' ++ (c :: cs).reverse := by
    simp [List.reverse_append]
  have hne' : (c :: cs).reverse ≠ [] := by simp
  obtain ⟨d, ds, hd⟩ := List.exists_cons_of_ne_nil hne'
  rw [h1, hrev, trimLeft_pad, hd, trimLeft_id d ds (hl d ds hd), ← hd, List.reverse_reverse]

theorem parseI32_percent (cs : List Char) : parseI32 ('%' :: cs) = none := by
  simp [parseI32, parseNatAcc, digitVal]

theorem parseI32_quote (cs : List Char) : parseI32 ('\'' :: cs) = none := by
  simp [parseI32, parseNatAcc, digitVal]

end DustVerif.CFilter
