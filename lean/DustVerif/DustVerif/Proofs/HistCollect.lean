import DustVerif.Proofs.HistLemmas
import DustVerif.Model.HistOps
/-! Lemmas about read/take (collectLoop) and about whole executions. -/
namespace DustVerif.Hist

/-- a predicate on samples that ignores the READ flag -/
def ReadBlind (p : Sample → Bool) : Prop := ∀ s : Sample, p { s with read := true } = p s

theorem readBlind_isAliveOf (h : Nat) : ReadBlind (isAliveOf h) := by intro s; rfl
theorem readBlind_isInst (h : Nat) : ReadBlind (isInst h) := by intro s; rfl
theorem readBlind_isAlive : ReadBlind isAlive := by intro s; rfl

/-- read/take never increase the number of stored samples satisfying a READ-blind predicate -/
theorem collectLoop_cnt_le (p : Sample → Bool) (hp : ReadBlind p) (insts : List Inst) (m : Masks)
    (only : Option Nat) (take : Bool) (max : Int) (l : List Sample) (acc : List Info) (coll : List Inst) :
    cnt p (collectLoop insts m only take max l acc coll).1 ≤ cnt p l := by
  induction l generalizing acc coll with
  | nil => simp [collectLoop]
  | cons s ss ih =>
    unfold collectLoop
    split
    · simp only [consKept, cnt_cons]; have := ih acc coll; omega
    · split
      · split
        · simp only [consKept, cnt_cons]; have := ih acc coll; omega
        · rename_i i _
          simp only []
          split
          · exact Nat.le_trans (ih _ _) (by simp only [cnt_cons]; omega)
          · simp only [consKept, cnt_cons, hp s]
            have := ih (acc ++ [mkInfo s i (collTouch coll s.inst s.kind)]) (collTouch coll s.inst s.kind)
            omega
      · simp only [consKept, cnt_cons]; have := ih acc coll; omega

theorem collect_cnt_le (p : Sample → Bool) (hp : ReadBlind p) (s : St) (max : Int) (m : Masks)
    (only : Option Nat) (take : Bool) :
    cnt p (collect s max m only take).1.samples ≤ cnt p s.samples ∧ (collect s max m only take).1.qos = s.qos := by
  generalize hr : collect s max m only take = r
  unfold collect at hr
  simp only [] at hr
  have := collectLoop_cnt_le p hp s.insts m only take max s.samples [] []
  split at hr
  · subst hr; exact ⟨Nat.le_refl _, rfl⟩
  · split at hr <;> (subst hr; exact ⟨this, rfl⟩)

theorem readOrTake_cnt_le (p : Sample → Bool) (hp : ReadBlind p) (s : St) (max : Int) (m : Masks)
    (only : Option Nat) (take : Bool) :
    cnt p (readOrTake s max m only take).1.samples ≤ cnt p s.samples ∧ (readOrTake s max m only take).1.qos = s.qos := by
  generalize hr : readOrTake s max m only take = r
  unfold readOrTake at hr
  split at hr
  · subst hr; exact ⟨Nat.le_refl _, rfl⟩
  · subst hr; exact collect_cnt_le p hp s max m only take

theorem nextInstanceLoop_cnt_le (p : Sample → Bool) (hp : ReadBlind p) (s : St) (max : Int) (m : Masks)
    (take : Bool) (fuel : Nat) (prev : Option Nat) :
    cnt p (nextInstanceLoop s max m take fuel prev).1.samples ≤ cnt p s.samples ∧
    (nextInstanceLoop s max m take fuel prev).1.qos = s.qos := by
  induction fuel generalizing prev with
  | zero => exact ⟨Nat.le_refl _, rfl⟩
  | succ n ih =>
    generalize hr : nextInstanceLoop s max m take (n + 1) prev = r
    unfold nextInstanceLoop at hr
    split at hr
    · subst hr; exact ⟨Nat.le_refl _, rfl⟩
    · rename_i h _
      split at hr
      · subst hr; exact ih (some h)
      · subst hr; exact readOrTake_cnt_le p hp s max m (some h) take

theorem readTakeNextInstance_cnt_le (p : Sample → Bool) (hp : ReadBlind p) (s : St) (max : Int)
    (prev : Option Nat) (m : Masks) (take : Bool) :
    cnt p (readTakeNextInstance s max prev m take).1.samples ≤ cnt p s.samples ∧
    (readTakeNextInstance s max prev m take).1.qos = s.qos := by
  unfold readTakeNextInstance
  split
  · exact ⟨Nat.le_refl _, rfl⟩
  · exact nextInstanceLoop_cnt_le p hp s max m take _ prev

end DustVerif.Hist
