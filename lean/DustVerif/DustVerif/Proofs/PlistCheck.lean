import DustVerif.Proofs.PlistRecord
/-! Decidable (Bool) versions of the value-domain hypotheses of the round-trip theorem, with soundness lemmas;
    used for the non-vacuity examples. -/
namespace DustVerif.Plist

def strOkB (s : Bytes) : Bool := utf8Valid s && decide (s.length + 1 < 4294967296)

theorem strOkB_sound (s : Bytes) (h : strOkB s = true) : StrOk s := by
  simp only [strOkB, Bool.and_eq_true, decide_eq_true_eq] at h
  exact h

def allStrOkB : List Bytes → Bool
  | [] => true
  | s :: l => strOkB s && allStrOkB l

theorem allStrOkB_sound (l : List Bytes) (h : allStrOkB l = true) : ∀ s ∈ l, StrOk s := by
  induction l with
  | nil => simp
  | cons s l ih =>
    simp only [allStrOkB, Bool.and_eq_true] at h
    intro x hx
    simp only [List.mem_cons] at hx
    rcases hx with hx | hx
    · subst hx; exact strOkB_sound _ h.1
    · exact ih h.2 x hx

def allU16B : List Nat → Bool
  | [] => true
  | x :: l => decide (x < 65536) && allU16B l

theorem allU16B_sound (l : List Nat) (h : allU16B l = true) : ∀ x ∈ l, x < 65536 := by
  induction l with
  | nil => simp
  | cons s l ih =>
    simp only [allU16B, Bool.and_eq_true, decide_eq_true_eq] at h
    intro x hx
    simp only [List.mem_cons] at hx
    rcases hx with hx | hx
    · subst hx; exact h.1
    · exact ih h.2 x hx

def wfpB : Prim → PVal → Bool
  | .u8, .n _ => true
  | .i16, .i x => decide (-32768 ≤ x) && decide (x < 32768)
  | .enum16 _, .i x => decide (-32768 ≤ x) && decide (x < 32768)
  | .i32, .i x => decide (-2147483648 ≤ x) && decide (x < 2147483648)
  | .enum32 _, .i x => decide (-2147483648 ≤ x) && decide (x < 2147483648)
  | .u32, .n x => decide (x < 4294967296)
  | .boolC, .b _ => true
  | .boolX, .b _ => true
  | .arr n, .bs x => x.length == n
  | .strC, .bs s => strOkB s
  | .strX, .bs s => strOkB s
  | .octets, .bs x => decide (x.length < 4294967296)
  | .strs, .ss l => decide (l.length < 4294967296) && decide (l.length * 24 ≤ allocLimit) && allStrOkB l
  | .u16s, .ns l => decide (l.length < 4294967296) && decide (l.length * 2 ≤ allocLimit) && allU16B l
  | _, _ => false

theorem wfpB_sound (p : Prim) (v : PVal) (h : wfpB p v = true) : WFp p v := by
  cases p <;> cases v <;> simp only [wfpB, Bool.and_eq_true, decide_eq_true_eq, beq_iff_eq] at h <;>
    simp only [WFp] <;> first
      | exact h
      | trivial
      | exact strOkB_sound _ h
      | exact ⟨h.1.1, h.1.2, allStrOkB_sound _ h.2⟩
      | exact ⟨h.1.1, h.1.2, allU16B_sound _ h.2⟩
      | exact absurd h (by simp)

def wfmB : List Prim → List PVal → Bool
  | [], [] => true
  | p :: ps, v :: vs => wfpB p v && wfmB ps vs
  | _, _ => false

theorem wfmB_sound (ps : List Prim) : ∀ vs, wfmB ps vs = true → WFm ps vs := by
  induction ps with
  | nil => intro vs h; cases vs <;> simp [wfmB, WFm] at h ⊢
  | cons p ps ih =>
    intro vs h
    cases vs with
    | nil => simp [wfmB] at h
    | cons v vs =>
      simp only [wfmB, Bool.and_eq_true] at h
      exact ⟨wfpB_sound p v h.1, ih vs h.2⟩

def wfcB (c : Codec) (vs : List PVal) : Bool :=
  wfmB c.members (normPost c.post vs) && enumsOk c.members (normPost c.post vs)

theorem wfcB_sound (c : Codec) (vs : List PVal) (h : wfcB c vs = true) : WFc c vs := by
  simp only [wfcB, Bool.and_eq_true] at h
  exact ⟨wfmB_sound _ _ h.1, h.2⟩

def allWfcB (c : Codec) : List (List PVal) → Bool
  | [] => true
  | v :: l => wfcB c v && allWfcB c l

theorem allWfcB_sound (c : Codec) (l : List (List PVal)) (h : allWfcB c l = true) : ∀ vs ∈ l, WFc c vs := by
  induction l with
  | nil => simp
  | cons s l ih =>
    simp only [allWfcB, Bool.and_eq_true] at h
    intro x hx
    simp only [List.mem_cons] at hx
    rcases hx with hx | hx
    · subst hx; exact wfcB_sound _ _ h.1
    · exact ih h.2 x hx

def wffB (g : EncField) (v : FVal) : Bool :=
  match g.rule, v with
  | .always, .one vs => wfcB g.codec vs
  | .omitIf _, .one vs => wfcB g.codec vs
  | .ifSome, .opt none => true
  | .ifSome, .opt (some vs) => wfcB g.codec vs
  | .each, .many l => allWfcB g.codec l
  | .blobIfSome, .blob _ => true
  | _, _ => false

theorem wffB_sound (g : EncField) (v : FVal) (h : wffB g v = true) : WFf g v := by
  obtain ⟨gp, gc, gr⟩ := g
  cases gr with
  | always => cases v <;> simp only [wffB] at h <;> first | exact wfcB_sound _ _ h | exact absurd h (by simp)
  | omitIf a => cases v <;> simp only [wffB] at h <;> first | exact wfcB_sound _ _ h | exact absurd h (by simp)
  | ifSome =>
    cases v with
    | opt o =>
      cases o with
      | none => trivial
      | some vs => simp only [wffB] at h; exact wfcB_sound _ _ h
    | one vs => simp [wffB] at h
    | many l => simp [wffB] at h
    | blob b => simp [wffB] at h
  | each => cases v <;> simp only [wffB] at h <;> first | exact allWfcB_sound _ _ h | exact absurd h (by simp)
  | blobIfSome => cases v <;> simp only [wffB] at h <;> first | trivial | exact absurd h (by simp)

def wfRecB (E : List EncField) (d : Nat → FVal) : Bool :=
  match E with
  | [] => true
  | g :: gs => wffB g (d g.pid) && wfRecB gs d

theorem wfRecB_sound (E : List EncField) (d : Nat → FVal) (h : wfRecB E d = true) : ∀ g ∈ E, WFf g (d g.pid) := by
  induction E with
  | nil => simp
  | cons g gs ih =>
    simp only [wfRecB, Bool.and_eq_true] at h
    intro x hx
    simp only [List.mem_cons] at hx
    rcases hx with hx | hx
    · subst hx; exact wffB_sound _ _ h.1
    · exact ih h.2 x hx

def allFitB : List Param → Bool
  | [] => true
  | p :: ps => decide ((pad4 p.2).length < 65536) && allFitB ps

theorem allFitB_sound (ps : List Param) (h : allFitB ps = true) : ∀ p ∈ ps, (pad4 p.2).length < 65536 := by
  induction ps with
  | nil => simp
  | cons s l ih =>
    simp only [allFitB, Bool.and_eq_true, decide_eq_true_eq] at h
    intro x hx
    simp only [List.mem_cons] at hx
    rcases hx with hx | hx
    · subst hx; exact h.1
    · exact ih h.2 x hx

def fitsB (e : End) (E : List EncField) (d : Nat → FVal) : Bool := allFitB (recordParams e E d)

theorem fitsB_sound (e : End) (E : List EncField) (d : Nat → FVal) (h : fitsB e E d = true) : FitsU16 e E d :=
  allFitB_sound _ h


/-- the record that a decoder returns for an empty parameter list (where that is not an error) -/
def defaultRec : List DecField → Nat → FVal
  | [], _ => .one []
  | f :: fs, pid =>
    if f.pid == pid then
      match f.acc with
      | .optional dflt => .one dflt
      | .required => .one []
      | .requiredOk => .opt none
      | .list => .many []
      | .typeInfo _ => .blob none
    else defaultRec fs pid

end DustVerif.Plist
