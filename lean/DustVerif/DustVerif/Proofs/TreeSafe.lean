import DustVerif.Proofs.TreeHandles
/-! No creation / deletion / enable / probe operation panics while every counter is below its rail. -/
namespace DustVerif.Tree

/-- every counter of every participant is at least `k` creations away from the last value of its field -/
def RailFree (s : St) (k : Nat) : Prop :=
  ∀ u, s.pubEver u + k ≤ 255 ∧ s.subEver u + k ≤ 255 ∧ s.topicEver u + k ≤ 65535 ∧ s.wEver u + k ≤ 65535 ∧
    s.rEver u + k ≤ 65535

/-- the operation neither kills the worker nor panics, and uses up at most one step of head-room -/
def Safe (s : St) (k : Nat) (r : St × Res) : Prop :=
  RailFree r.1 k ∧ r.1.dead = s.dead ∧ r.2 ≠ .panic

theorem RailFree.weaken {s : St} {k : Nat} (h : RailFree s (k + 1)) : RailFree s k := by
  intro u; have := h u; omega

theorem RailFree.of_cnt {s s' : St} {k : Nat} (h : RailFree s (k + 1)) (c : Cnt s s') : RailFree s' k := by
  obtain ⟨_, c1, c2, c3, c4, c5⟩ := c
  intro u
  rw [c1, c2, c3, c4, c5]
  exact h.weaken u

theorem no_overflow {pr : Profile} {n w : Nat} (hw : 0 < w) (hn : n + 1 ≤ w - 1) :
    ¬ ((pr == Profile.debug && overflows n w) = true) := by
  unfold overflows
  have : n % w = n := Nat.mod_eq_of_lt (by omega)
  rw [this]
  intro h
  simp at h
  omega

theorem bump_rail (m : Nat → Nat) (u k b : Nat) (h : ∀ v, m v + (k + 1) ≤ b) : ∀ v, bump m u v + k ≤ b := by
  intro v; unfold bump setTo; split
  · have := h u; omega
  · have := h v; omega

/-- close a branch in which the state keeps its counters -/
macro "safe_same" h:ident : tactic => `(tactic|
  exact ⟨RailFree.of_cnt $h ⟨rfl, rfl, rfl, rfl, rfl, rfl⟩, rfl, by simp⟩)

theorem safe_createPart {s : St} {k : Nat} (h : RailFree s (k + 1)) (a : Bool) : Safe s k (createPart s a) := by
  unfold createPart; safe_same h
theorem safe_deletePart {s : St} {k : Nat} (h : RailFree s (k + 1)) (ph : Nat) : Safe s k (deletePart s ph) := by
  unfold deletePart; (repeat' split) <;> safe_same h
theorem safe_deletePub {s : St} {k : Nat} (h : RailFree s (k + 1)) (via : Nat) (r : GroupRef) :
    Safe s k (deletePub s via r) := by
  unfold deletePub; (repeat' split) <;> safe_same h
theorem safe_deleteSub {s : St} {k : Nat} (h : RailFree s (k + 1)) (via : Nat) (r : GroupRef) :
    Safe s k (deleteSub s via r) := by
  unfold deleteSub; (repeat' split) <;> safe_same h
theorem safe_deleteTopic {s : St} {k : Nat} (h : RailFree s (k + 1)) (via : Nat) (r : TopicRef) :
    Safe s k (deleteTopic s via r) := by
  unfold deleteTopic; (repeat' split) <;> safe_same h
theorem safe_deleteCft {s : St} {k : Nat} (h : RailFree s (k + 1)) (ph : Nat) (n : String) :
    Safe s k (deleteCft s ph n) := by
  unfold deleteCft; (repeat' split) <;> safe_same h
theorem safe_deleteWriter {s : St} {k : Nat} (h : RailFree s (k + 1)) (via : GroupRef) (w : EndRef) :
    Safe s k (deleteWriter s via w) := by
  unfold deleteWriter; (repeat' split) <;> safe_same h
theorem safe_deleteReader {s : St} {k : Nat} (h : RailFree s (k + 1)) (via : GroupRef) (w : EndRef) :
    Safe s k (deleteReader s via w) := by
  unfold deleteReader; (repeat' split) <;> safe_same h
theorem safe_deleteContained {s : St} {k : Nat} (h : RailFree s (k + 1)) (ph : Nat) :
    Safe s k (deleteContained s ph) := by
  unfold deleteContained; (repeat' split) <;> safe_same h
theorem safe_enablePart {s : St} {k : Nat} (h : RailFree s (k + 1)) (ph : Nat) : Safe s k (enablePart s ph) := by
  unfold enablePart; (repeat' split) <;> safe_same h
theorem safe_enableTopic {s : St} {k : Nat} (h : RailFree s (k + 1)) (r : TopicRef) : Safe s k (enableTopic s r) := by
  unfold enableTopic; (repeat' split) <;> safe_same h
theorem safe_enableWriter {s : St} {k : Nat} (h : RailFree s (k + 1)) (w : EndRef) : Safe s k (enableWriter s w) := by
  unfold enableWriter; (repeat' split) <;> safe_same h
theorem safe_enableReader {s : St} {k : Nat} (h : RailFree s (k + 1)) (w : EndRef) : Safe s k (enableReader s w) := by
  unfold enableReader; (repeat' split) <;> safe_same h
theorem safe_probe {s : St} {k : Nat} (h : RailFree s (k + 1)) (b : Bool) : Safe s k (probe b s) := by
  unfold probe; split <;> safe_same h

theorem safe_createPub {s : St} {k : Nat} (h : RailFree s (k + 1)) (ph : Nat) (a : Bool) :
    Safe s k (createPub s ph a) := by
  unfold createPub
  split
  · safe_same h
  · rename_i p _
    simp only
    split
    · rename_i hg
      exact absurd hg (no_overflow (w := U8) (by decide) (by have := (h p.uid).1; unfold U8; omega))
    · refine ⟨fun u => ⟨bump_rail _ _ _ _ (fun v => (h v).1) u, ?_⟩, rfl, by simp⟩
      have := h u; simp only; omega

theorem safe_createSub {s : St} {k : Nat} (h : RailFree s (k + 1)) (ph : Nat) (a : Bool) :
    Safe s k (createSub s ph a) := by
  unfold createSub
  split
  · safe_same h
  · rename_i p _
    simp only
    split
    · rename_i hg
      exact absurd hg (no_overflow (w := U8) (by decide) (by have := (h p.uid).2.1; unfold U8; omega))
    · refine ⟨fun u => ⟨?_, bump_rail _ _ _ _ (fun v => (h v).2.1) u, ?_⟩, rfl, by simp⟩
      · have := h u; simp only; omega
      · have := h u; simp only; omega

theorem safe_createTopic {s : St} {k : Nat} (h : RailFree s (k + 1)) (ph : Nat) (n : String) (kd : Bool) :
    Safe s k (createTopic s ph n kd) := by
  unfold createTopic
  split
  · safe_same h
  · rename_i p _
    split
    · safe_same h
    · split
      · safe_same h
      · simp only
        split
        · rename_i hg
          exact absurd hg (no_overflow (w := U16) (by decide) (by have := (h p.uid).2.2.1; unfold U16; omega))
        · refine ⟨fun u => ⟨?_, ?_, bump_rail _ _ _ _ (fun v => (h v).2.2.1) u, ?_⟩, rfl, by simp⟩
          · have := h u; simp only; omega
          · have := h u; simp only; omega
          · have := h u; simp only; omega

theorem safe_createCft {s : St} {k : Nat} (h : RailFree s (k + 1)) (r : TopicRef) (n : String) :
    Safe s k (createCft s r n) := by
  unfold createCft
  split
  · safe_same h
  · rename_i p _
    split
    · safe_same h
    · simp only
      split
      · rename_i hg
        exact absurd hg (no_overflow (w := U16) (by decide) (by have := (h p.uid).2.2.1; unfold U16; omega))
      · refine ⟨fun u => ⟨?_, ?_, bump_rail _ _ _ _ (fun v => (h v).2.2.1) u, ?_⟩, rfl, by simp⟩
        · have := h u; simp only; omega
        · have := h u; simp only; omega
        · have := h u; simp only; omega

theorem safe_createWriter {s : St} {k : Nat} (h : RailFree s (k + 1)) (r : GroupRef) (t : String) (m : Option Nat)
    (c : Bool) : Safe s k (createWriter s r t m c) := by
  unfold createWriter
  split
  · safe_same h
  · rename_i p _
    split
    · safe_same h
    · split
      · safe_same h
      · simp only
        split
        · rename_i hg
          exact absurd hg (no_overflow (w := U16) (by decide) (by have := (h p.uid).2.2.2.1; unfold U16; omega))
        · have key : ∀ u, s.pubEver u + k ≤ 255 ∧ s.subEver u + k ≤ 255 ∧ s.topicEver u + k ≤ 65535 ∧
              bump s.wEver p.uid u + k ≤ 65535 ∧ s.rEver u + k ≤ 65535 := by
            intro u
            have := h u
            refine ⟨by omega, by omega, by omega, bump_rail _ _ _ _ (fun v => (h v).2.2.2.1) u, by omega⟩
          split
          · exact ⟨key, rfl, by simp⟩
          · exact ⟨key, rfl, by simp⟩

theorem safe_createReader {s : St} {k : Nat} (h : RailFree s (k + 1)) (r : GroupRef) (t : String) (c : Bool) :
    Safe s k (createReader s r t c) := by
  unfold createReader
  split
  · safe_same h
  · rename_i p _
    simp only
    split
    · safe_same h
    · split
      · safe_same h
      · split
        · safe_same h
        · split
          · rename_i hg
            exact absurd hg (no_overflow (w := U16) (by decide) (by have := (h p.uid).2.2.2.2; unfold U16; omega))
          · refine ⟨fun u => ⟨?_, ?_, ?_, ?_, bump_rail _ _ _ _ (fun v => (h v).2.2.2.2) u⟩, rfl, by simp⟩
            · have := h u; simp only; omega
            · have := h u; simp only; omega
            · have := h u; simp only; omega
            · have := h u; simp only; omega

/-- operations of the entity tree proper (everything except the writer instance calls, whose
    `expect("Writer topic must exist")` is a different panic site, outside C35) -/
def isTreeOp : Op → Bool
  | .inst _ _ => false
  | _ => true

theorem safe_step {s : St} {k : Nat} (h : RailFree s (k + 1)) (op : Op) (ht : isTreeOp op = true) :
    Safe s k (step s op) := by
  cases op with
  | factoryQos a => exact ⟨RailFree.of_cnt h ⟨rfl, rfl, rfl, rfl, rfl, rfl⟩, rfl, by simp [step]⟩
  | createPart a => exact safe_createPart h a
  | deletePart ph => exact safe_deletePart h ph
  | createPub ph a => exact safe_createPub h ph a
  | deletePub via r => exact safe_deletePub h via r
  | createSub ph a => exact safe_createSub h ph a
  | deleteSub via r => exact safe_deleteSub h via r
  | createTopic ph n k => exact safe_createTopic h ph n k
  | deleteTopic via r => exact safe_deleteTopic h via r
  | createCft r n => exact safe_createCft h r n
  | deleteCft ph n => exact safe_deleteCft h ph n
  | createWriter r t m c => exact safe_createWriter h r t m c
  | deleteWriter via w => exact safe_deleteWriter h via w
  | createReader r t c => exact safe_createReader h r t c
  | deleteReader via w => exact safe_deleteReader h via w
  | deleteContained ph => exact safe_deleteContained h ph
  | enablePart ph => exact safe_enablePart h ph
  | enableTopic r => exact safe_enableTopic h r
  | enableWriter w => exact safe_enableWriter h w
  | enableReader w => exact safe_enableReader h w
  | probePart ph => exact safe_probe h _
  | probePub r => exact safe_probe h _
  | probeSub r => exact safe_probe h _
  | probeTopic r => exact safe_probe h _
  | probeWriter w => exact safe_probe h _
  | probeReader w => exact safe_probe h _
  | inst w o => simp [isTreeOp] at ht

end DustVerif.Tree
