import DustVerif.Proofs.TreeHandles
/-! No creation / deletion / enable / probe operation of the (patched) entity tree panics — in ANY state. -/
namespace DustVerif.Tree

/-- the operation neither kills the worker nor panics -/
def Safe (s : St) (r : St × Res) : Prop := r.1.dead = s.dead ∧ r.2 ≠ .panic

macro "safe_close" : tactic => `(tactic| exact ⟨rfl, by simp⟩)

theorem safe_createPart (s : St) (a : Bool) : Safe s (createPart s a) := by
  unfold createPart; simp only; split <;> safe_close
theorem safe_deletePart (s : St) (ph : Nat) : Safe s (deletePart s ph) := by
  unfold deletePart; (repeat' split) <;> safe_close
theorem safe_deletePub (s : St) (via : Nat) (r : GroupRef) : Safe s (deletePub s via r) := by
  unfold deletePub; (repeat' split) <;> safe_close
theorem safe_deleteSub (s : St) (via : Nat) (r : GroupRef) : Safe s (deleteSub s via r) := by
  unfold deleteSub; (repeat' split) <;> safe_close
theorem safe_deleteTopic (s : St) (via : Nat) (r : TopicRef) : Safe s (deleteTopic s via r) := by
  unfold deleteTopic; (repeat' split) <;> safe_close
theorem safe_deleteCft (s : St) (ph : Nat) (n : String) : Safe s (deleteCft s ph n) := by
  unfold deleteCft; (repeat' split) <;> safe_close
theorem safe_deleteWriter (s : St) (via : GroupRef) (w : EndRef) : Safe s (deleteWriter s via w) := by
  unfold deleteWriter; (repeat' split) <;> safe_close
theorem safe_deleteReader (s : St) (via : GroupRef) (w : EndRef) : Safe s (deleteReader s via w) := by
  unfold deleteReader; (repeat' split) <;> safe_close
theorem safe_deleteContained (s : St) (ph : Nat) : Safe s (deleteContained s ph) := by
  unfold deleteContained; (repeat' split) <;> safe_close
theorem safe_enablePart (s : St) (ph : Nat) : Safe s (enablePart s ph) := by
  unfold enablePart; (repeat' split) <;> safe_close
theorem safe_enableTopic (s : St) (r : TopicRef) : Safe s (enableTopic s r) := by
  unfold enableTopic; (repeat' split) <;> safe_close
theorem safe_enableWriter (s : St) (w : EndRef) : Safe s (enableWriter s w) := by
  unfold enableWriter; (repeat' split) <;> safe_close
theorem safe_enableReader (s : St) (w : EndRef) : Safe s (enableReader s w) := by
  unfold enableReader; (repeat' split) <;> safe_close
theorem safe_probe (s : St) (b : Bool) : Safe s (probe b s) := by
  unfold probe; split <;> safe_close

theorem safe_createPub (s : St) (ph : Nat) (a : Bool) : Safe s (createPub s ph a) := by
  unfold createPub
  split
  · safe_close
  · simp only
    split <;> safe_close

theorem safe_createSub (s : St) (ph : Nat) (a : Bool) : Safe s (createSub s ph a) := by
  unfold createSub
  split
  · safe_close
  · simp only
    split <;> safe_close

theorem safe_createTopic (s : St) (ph : Nat) (n : String) (kd : Bool) : Safe s (createTopic s ph n kd) := by
  unfold createTopic
  split
  · safe_close
  · split
    · safe_close
    · split
      · safe_close
      · simp only
        split <;> safe_close

theorem safe_findTopicOp (s : St) (ph : Nat) (n : String) (kd d : Bool) : Safe s (findTopicOp s ph n kd d) := by
  unfold findTopicOp
  split
  · safe_close
  · split
    · safe_close
    · split
      · safe_close
      · simp only
        split <;> safe_close

theorem safe_createCft (s : St) (r : TopicRef) (n : String) (v : Bool) : Safe s (createCft s r n v) := by
  unfold createCft
  split
  · safe_close
  · split
    · safe_close
    · split
      · safe_close
      · simp only
        split <;> safe_close

theorem safe_createWriter (s : St) (r : GroupRef) (t : String) (m : Option Nat) (c : Bool) :
    Safe s (createWriter s r t m c) := by
  unfold createWriter
  split
  · safe_close
  · split
    · safe_close
    · split
      · safe_close
      · simp only
        split
        · safe_close
        · split <;> safe_close

theorem safe_createReader (s : St) (r : GroupRef) (t : String) (c : Bool) : Safe s (createReader s r t c) := by
  unfold createReader
  split
  · safe_close
  · simp only
    split
    · safe_close
    · split
      · safe_close
      · split
        · safe_close
        · split <;> safe_close

/-- operations of the entity tree proper (everything except the writer instance calls, whose
    `expect("Writer topic must exist")` is a different panic site, outside C35) -/
def isTreeOp : Op → Bool
  | .inst _ _ => false
  | _ => true

theorem safe_step (s : St) (op : Op) (ht : isTreeOp op = true) : Safe s (step s op) := by
  cases op with
  | factoryQos a => exact ⟨rfl, by simp [step]⟩
  | createPart a => exact safe_createPart s a
  | deletePart ph => exact safe_deletePart s ph
  | createPub ph a => exact safe_createPub s ph a
  | deletePub via r => exact safe_deletePub s via r
  | createSub ph a => exact safe_createSub s ph a
  | deleteSub via r => exact safe_deleteSub s via r
  | createTopic ph n k => exact safe_createTopic s ph n k
  | findTopic ph n k d => exact safe_findTopicOp s ph n k d
  | deleteTopic via r => exact safe_deleteTopic s via r
  | createCft r n v => exact safe_createCft s r n v
  | deleteCft ph n => exact safe_deleteCft s ph n
  | createWriter r t m c => exact safe_createWriter s r t m c
  | deleteWriter via w => exact safe_deleteWriter s via w
  | createReader r t c => exact safe_createReader s r t c
  | deleteReader via w => exact safe_deleteReader s via w
  | deleteContained ph => exact safe_deleteContained s ph
  | enablePart ph => exact safe_enablePart s ph
  | enableTopic r => exact safe_enableTopic s r
  | enableWriter w => exact safe_enableWriter s w
  | enableReader w => exact safe_enableReader s w
  | probePart ph => exact safe_probe s _
  | probePub r => exact safe_probe s _
  | probeSub r => exact safe_probe s _
  | probeTopic r => exact safe_probe s _
  | probeWriter w => exact safe_probe s _
  | probeReader w => exact safe_probe s _
  | inst w o => simp [isTreeOp] at ht

end DustVerif.Tree
