import DustVerif.Proofs.XcdrElems
/-! Round trip of sequence bodies and of the members of final / appendable structures. -/
namespace DustVerif.Xcdr

theorem ALLOC_LIMIT_lt : ALLOC_LIMIT < 2 ^ 32 := by decide

theorem wSeqBody_facts (cfg : Cfg) (ver : Ver) (e : Endian) (el : Ty) (vs : List Val)
    (hall : ∀ v ∈ vs, wfVal cfg ver el v = true) (p : Nat) :
    Facts (wSeqBody ver e (ser cfg ver e el) vs p) p (8 + sumNat (vs.map (maxSize el))) true := by
  have h1 := wPrim_u32_len ver e (vs.length % 2 ^ 32) p
  have h2 := wPad4_le ver p
  have h3 := wPrim_pos ver e .u32 (vs.length % 2 ^ 32) p
  have h4 := wList_len_le (ser cfg ver e el) (maxSize el) vs
    (fun v hv q => (serFacts cfg ver e el v (hall v hv) q).1) (wPrim ver e .u32 (vs.length % 2 ^ 32) p).2
  have h5 := wList_pos (ser cfg ver e el) vs
    (fun v hv q => (serFacts cfg ver e el v (hall v hv) q).2.2) (wPrim ver e .u32 (vs.length % 2 ^ 32) p).2
  simp only [Facts, wSeqBody, List.length_append]
  refine ⟨by omega, fun _ => by omega, by omega⟩

theorem dSeqBody_wSeqBody (cfg : Cfg) (ver : Ver) (e : Endian) (el : Ty) (vs : List Val)
    (hel : el.elemOk = true) (hsp : sizePos ver el = true)
    (hwf : ∀ v ∈ vs, wfVal cfg ver el v = true)
    (hrt : ∀ v ∈ vs, RT cfg ver e el v)
    (hlim : vs.length * 48 ≤ ALLOC_LIMIT) (pos : Nat) (rest : Bytes) :
    dSeqBody cfg ver e el (de cfg ver e el) ⟨(wSeqBody ver e (ser cfg ver e el) vs pos).1 ++ rest, pos⟩
      = .ok (.list vs) ⟨rest, (wSeqBody ver e (ser cfg ver e el) vs pos).2⟩ := by
  have hl : vs.length < 2 ^ 32 := by have := ALLOC_LIMIT_lt; omega
  have hge := wList_length_ge (ser cfg ver e el) vs
    (fun v hv q => (serFacts cfg ver e el v (hwf v hv) q).2.1 hsp)
    (wPrim ver e .u32 vs.length pos).2
  simp only [dSeqBody, dSeqLen, wSeqBody, Nat.mod_eq_of_lt hl, List.append_assoc]
  rw [dPrim_wPrim ver e .u32 vs.length pos _ (primOk_u32 _ hl)]
  have hc : (cfg.d66 && decide (vs.length >
      ((wList (ser cfg ver e el) vs (wPrim ver e Prim.u32 vs.length pos).2).1 ++ rest).length)) = false := by
    simp only [List.length_append, Bool.and_eq_false_imp, decide_eq_false_iff_not]
    intro _; omega
  simp only [Res.bind, hc]
  exact dElems_wList cfg ver e el vs hel hsp hwf hrt hlim _ rest

/-- the optional / plain member of a final or appendable structure -/
theorem dFMember_wFMember (cfg : Cfg) (ver : Ver) (e : Endian) (id : Nat) (opt mu : Bool) (t : Ty) (f : Val)
    (hm : (match f with
       | .absent => opt && (ver == .v2 || (cfg.d46 && cfg.d61 && !pidOverflow id mu))
       | f => wfVal cfg ver t f &&
              (!opt || ver == .v2 ||
               (cfg.d46 && cfg.d61 && !pidOverflow id mu && sizePos ver t && decide (maxSize t f < 2 ^ 16)))) = true)
    (hrt : f ≠ .absent → RT cfg ver e t f) (pos : Nat) (rest : Bytes) :
    dFMember cfg ver e id opt (de cfg ver e t) ⟨(wFMember cfg ver e id opt mu f (ser cfg ver e t) pos).1 ++ rest, pos⟩
      = .ok f ⟨rest, (wFMember cfg ver e id opt mu f (ser cfg ver e t) pos).2⟩ := by
  unfold dFMember wFMember
  cases opt with
  | false =>
    have hf : f ≠ .absent := by intro h; subst h; simp at hm
    simpa using hrt hf pos rest
  | true =>
    simp only [if_true]
    cases ver with
    | v2 =>
      by_cases hf : f = .absent
      · subst hf
        simp only [optEnc_absent, wOpt2]
        rw [dPrim_wPrim .v2 e .bool 0 pos rest primOk_bool0]
        simp [Res.bind]
      · simp only [optEnc_of_ne f _ hf, wOpt2, List.append_assoc]
        rw [dPrim_wPrim .v2 e .bool 1 pos _ primOk_bool1]
        simp only [Res.bind, beq_self_eq_true, if_true]
        exact hrt hf _ rest
    | v1 =>
      have hcfg : cfg.d46 = true ∧ cfg.d61 = true ∧ pidOverflow id mu = false := by
        cases f <;> simp_all
      obtain ⟨h46, h61, hpo⟩ := hcfg
      have hk : (pos + wPad .v1 4 pos) % 4 = 0 := by
        simp only [wPad, Ver.maxAlign]
        exact padTo_dvd 4 pos (by omega)
      have hk2 : (pos + wPad .v1 4 pos) % 2 = 0 := by omega
      have hpid : (id % 2 ^ 16 + if mu = true then 2 ^ 14 else 0) % 2 ^ 16 < 2 ^ 16 := Nat.mod_lt _ (by decide)
      have halign : ∀ (bs : Bytes), rAlign .v1 4 ⟨zeros (wPad .v1 4 pos) ++ bs, pos⟩ = .ok () ⟨bs, pos + wPad .v1 4 pos⟩ := by
        intro bs
        simp only [rAlign, Ver.readAlign]
        have : padTo 4 pos = wPad .v1 4 pos := by simp [wPad, Ver.maxAlign]
        rw [this, rSeek_zeros]
      simp only [h46, if_true, dOpt1Fixed, wMem1, h61, List.append_assoc]
      rw [halign]
      simp only [Res.bind]
      rw [dU16_aligned e _ _ _ hk2 hpid]
      simp only [Res.bind]
      by_cases hf : f = .absent
      · subst hf
        simp only [optEnc_absent, List.length_nil, Nat.zero_mod]
        rw [dU16_aligned e 0 _ _ (by omega) (by decide)]
        simp [Res.bind]
      · have hw : wfVal cfg .v1 t f = true ∧ sizePos .v1 t = true ∧ maxSize t f < 2 ^ 16 := by
          cases f <;> simp_all
        obtain ⟨hwf, hsp, hmax⟩ := hw
        have hfacts := serFacts cfg .v1 e t f hwf 0
        have hlen : (ser cfg .v1 e t f 0).1.length < 2 ^ 16 := Nat.lt_of_le_of_lt hfacts.1 hmax
        have hpos1 : 1 ≤ (ser cfg .v1 e t f 0).1.length := hfacts.2.1 hsp
        simp only [optEnc_of_ne f _ hf, Nat.mod_eq_of_lt hlen]
        rw [dU16_aligned e _ _ _ (by omega) hlen]
        simp only [Res.bind, List.length_append, List.take_left', List.drop_left']
        have hle : (ser cfg .v1 e t f 0).1.length ≤ (ser cfg .v1 e t f 0).1.length + rest.length := by omega
        have hgt : (ser cfg .v1 e t f 0).1.length > 0 := by omega
        simp only [hle, hgt, if_true, List.take_left', List.drop_left']
        have h0 := hrt hf 0 []
        simp only [List.append_nil] at h0
        rw [h0]
        simp only [Res.restore]

end DustVerif.Xcdr
