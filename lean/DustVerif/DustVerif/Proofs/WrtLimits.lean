import DustVerif.Proofs.WrtSteps
/-! Counting lemmas and the resource-limit invariant of the writer model (used by Props/C19Writer). -/
namespace DustVerif.Wrt

theorem totalSamples_append (a b : List Inst) : totalSamples (a ++ b) = totalSamples a + totalSamples b := by
  induction a with
  | nil => simp [totalSamples]
  | cons x xs ih => simp [totalSamples, ih]; omega

theorem totalSamples_setReg (k : Nat) (l : List Inst) : totalSamples (setReg k l) = totalSamples l := by
  induction l with
  | nil => rfl
  | cons x xs ih => simp only [setReg]; split <;> simp [totalSamples, ih]

theorem totalSamples_clearReg (k : Nat) (l : List Inst) : totalSamples (clearReg k l) = totalSamples l := by
  induction l with
  | nil => rfl
  | cons x xs ih => simp only [clearReg]; split <;> simp [totalSamples, ih]

theorem totalSamples_regInsts (l : List Inst) (k : Nat) : totalSamples (regInsts l k) = totalSamples l := by
  unfold regInsts
  split
  · exact totalSamples_setReg k l
  · simp [totalSamples_append, totalSamples]

theorem regCount_cons (x : Inst) (xs : List Inst) :
    regCount (x :: xs) = (if x.registered then 1 else 0) + regCount xs := by
  simp only [regCount, List.filter, instRegistered]
  cases x.registered <;> simp <;> omega

theorem regCount_append_new (l : List Inst) (k : Nat) :
    regCount (l ++ [{ key := k, samples := [], registered := true }]) = regCount l + 1 := by
  induction l with
  | nil => rfl
  | cons x xs ih => simp only [List.cons_append, regCount_cons, ih]; omega

theorem regCount_setReg (k : Nat) (l : List Inst) (i : Inst) (h : findInst k l = some i) :
    regCount (setReg k l) = if i.registered then regCount l else regCount l + 1 := by
  induction l with
  | nil => simp [findInst] at h
  | cons x xs ih =>
    simp only [findInst] at h
    simp only [setReg]
    split
    · rename_i hk
      simp only [hk, if_true, Option.some.injEq] at h
      subst h
      simp only [regCount_cons]
      cases x.registered <;> simp <;> omega
    · rename_i hk
      simp only [hk, if_false] at h
      simp only [regCount_cons, ih h]
      cases i.registered <;> cases x.registered <;> simp <;> omega

theorem regCount_regInsts (l : List Inst) (k : Nat) :
    regCount (regInsts l k) = if isReg l k then regCount l else regCount l + 1 := by
  unfold regInsts isReg
  cases h : findInst k l with
  | none => simp [regCount_append_new]
  | some i => simp only [Option.isSome_some, if_true]; exact regCount_setReg k l i h

theorem regCount_clearReg_le (k : Nat) (l : List Inst) : regCount (clearReg k l) ≤ regCount l := by
  induction l with
  | nil => simp [clearReg]
  | cons x xs ih =>
    simp only [clearReg]
    split
    · simp only [regCount_cons]; cases x.registered <;> simp
    · simp only [regCount_cons]; omega

theorem regCount_pushSample (k sn : Nat) (l : List Inst) : regCount (pushSample k sn l) = regCount l := by
  induction l with
  | nil => rfl
  | cons x xs ih => simp only [pushSample]; split <;> simp [regCount_cons, ih]

theorem regCount_popFront (k : Nat) (l : List Inst) : regCount (popFront k l) = regCount l := by
  induction l with
  | nil => rfl
  | cons x xs ih => simp only [popFront]; split <;> simp [regCount_cons, ih]

theorem length_pushSample (k sn : Nat) (l : List Inst) : (pushSample k sn l).length = l.length := by
  induction l with
  | nil => rfl
  | cons x xs ih =>
    simp only [pushSample]
    split <;> simp [ih]

theorem totalSamples_pushSample {k : Nat} {l : List Inst} {i : Inst} (sn : Nat) (h : findInst k l = some i) :
    totalSamples (pushSample k sn l) = totalSamples l + 1 := by
  induction l with
  | nil => simp [findInst] at h
  | cons x xs ih =>
    simp only [findInst] at h
    simp only [pushSample]
    split
    · simp [totalSamples]; omega
    · rename_i hk
      simp only [hk, if_false] at h
      simp [totalSamples, ih h]; omega

theorem length_popFront (k : Nat) (l : List Inst) : (popFront k l).length = l.length := by
  induction l with
  | nil => rfl
  | cons x xs ih =>
    simp only [popFront]
    split <;> simp [ih]

theorem totalSamples_popFront_le (k : Nat) (l : List Inst) : totalSamples (popFront k l) ≤ totalSamples l := by
  induction l with
  | nil => simp [popFront]
  | cons x xs ih =>
    simp only [popFront]
    split
    · simp [totalSamples]
    · simp [totalSamples]; omega

theorem totalSamples_popFront {k : Nat} {l : List Inst} {i : Inst} (h : findInst k l = some i) (hne : i.samples ≠ []) :
    totalSamples (popFront k l) + 1 = totalSamples l := by
  induction l with
  | nil => simp [findInst] at h
  | cons x xs ih =>
    simp only [findInst] at h
    simp only [popFront]
    split
    · rename_i hk
      simp only [hk, if_true, Option.some.injEq] at h
      subst h
      cases hs : x.samples with
      | nil => exact absurd hs hne
      | cons a as => simp [totalSamples, hs]; omega
    · rename_i hk
      simp only [hk, if_false] at h
      simp [totalSamples]
      have := ih h
      omega

theorem samplesOfKey_regInsts (l : List Inst) (k : Nat) : samplesOfKey (regInsts l k) k = samplesOfKey l k := by
  rcases findInst_regInsts l k with ⟨i, h1, _, h3⟩ | ⟨h1, _, h3⟩
  · simp [samplesOfKey, h1, h3]
  · simp [samplesOfKey, h1, h3]

/-- the three resource limits hold -/
def LimInv (s : St) : Prop :=
  (∀ m, s.qos.maxSamples = some m → totalSamples s.insts ≤ m) ∧
  (∀ m, s.qos.maxInstances = some m → regCount s.insts ≤ m) ∧
  (∀ m, s.qos.maxSpi = some m → LenOk m s.insts)

/-- DataWriterQos::is_consistent, plus depth >= 1 (which is_consistent does not check) -/
def QosOk (q : Qos) : Prop :=
  (∀ d, q.depth = some d → 1 ≤ d) ∧ (∀ d m, q.depth = some d → q.maxSpi = some m → d ≤ m)

theorem lenOk_mono {a b : Nat} (h : a ≤ b) {l : List Inst} (hl : LenOk a l) : LenOk b l :=
  fun i hi => Nat.le_trans (hl i hi) h

theorem entWrite_limInv (s : St) (k : Nat) (v : Int) (ts now : Int) (hq : QosOk s.qos) (h : LimInv s)
    (hroom : ∀ d, s.qos.depth = some d → ∀ i, findInst k s.insts = some i → i.samples.length < d) :
    LimInv (entWrite s k v ts now).1 := by
  rcases entWrite_cases s k v ts now with hc | hc
  · rw [hc.2.2.1]; exact h
  · obtain ⟨_, hqos, _, _, hins, hhit, hreg, _⟩ := hc
    obtain ⟨h1, h2, h3⟩ := h
    simp only [Bool.or_eq_false_iff] at hhit
    obtain ⟨hspi, hsam⟩ := hhit
    have hfind : ∃ i, findInst k (regInsts s.insts k) = some i := by
      rcases findInst_regInsts s.insts k with ⟨i, _, _, hi⟩ | ⟨_, _, hi⟩ <;> exact ⟨_, hi⟩
    obtain ⟨i0, hi0⟩ := hfind
    refine ⟨?_, ?_, ?_⟩
    · intro m hm
      rw [hqos] at hm
      rw [hins, totalSamples_pushSample _ hi0, totalSamples_regInsts]
      simp only [samplesHit, hm, decide_eq_false_iff_not] at hsam
      omega
    · intro m hm
      rw [hqos] at hm
      rw [hins, regCount_pushSample, regCount_regInsts]
      have := h2 m hm
      split
      · exact this
      · rename_i hn
        rcases hreg with hr | hr
        · exact absurd hr hn
        · simp only [ltLen, hm, decide_eq_true_eq] at hr; omega
    · intro m hm
      rw [hqos] at hm
      rw [hins]
      refine pushSample_lenOk m k _ _ (regInsts_lenOk m k _ (h3 m hm)) ?_
      intro i hi
      -- the instance has room below m: by the active check, or by KEEP_LAST with depth <= m
      have hcount : i.samples.length = samplesOfKey s.insts k := by
        rw [← samplesOfKey_regInsts]; simp [samplesOfKey, hi]
      rw [hcount]
      cases hd : s.qos.depth with
      | none =>
        simp only [spiHit, hm, hd, decide_eq_false_iff_not] at hspi
        omega
      | some d =>
        by_cases hdm : d ≤ m
        · have h1d := hq.1 d hd
          cases hf : findInst k s.insts with
          | none => simp [samplesOfKey, hf]; omega
          | some j =>
            have := hroom d hd j hf
            simp [samplesOfKey, hf]; omega
        · simp only [spiHit, hm, hd, hdm, if_false, decide_eq_false_iff_not] at hspi
          omega

theorem evict_limInv (s : St) (k sn : Nat) (h : LimInv s) : LimInv (evict s k sn) := by
  obtain ⟨h1, h2, h3⟩ := h
  refine ⟨?_, ?_, ?_⟩
  · intro m hm; exact Nat.le_trans (totalSamples_popFront_le k s.insts) (h1 m hm)
  · intro m hm; simp only [evict, regCount_popFront]; exact h2 m hm
  · intro m hm; exact popFront_lenOk m k _ (h3 m hm)

/-- invariant of every run: the limits hold and (KEEP_LAST) no instance exceeds the depth -/
def WInv (s : St) : Prop := QosOk s.qos ∧ LimInv s ∧ (∀ d, s.qos.depth = some d → LenOk d s.insts)

theorem evictWrite_winv (s : St) (k : Nat) (v : Int) (ts now : Int) (sn : Nat) (h : WInv s)
    (hff : fullFront s k = some sn) : WInv (evictWrite s k v ts now sn).1 := by
  obtain ⟨hq, hl, hd⟩ := h
  unfold evictWrite
  split
  · exact ⟨hq, hl, hd⟩
  · simp only [entOut]
    refine ⟨by rw [entWrite_qos]; exact hq, ?_, ?_⟩
    · refine entWrite_limInv (evict s k sn) k v ts now hq (evict_limInv s k sn hl) ?_
      intro d hdd
      exact evict_room hdd (hq.1 d hdd) hff
    · intro d hdd
      rw [entWrite_qos] at hdd
      exact entWrite_lenOk d _ k v ts now (hq.1 d hdd) (popFront_lenOk d k _ (hd d hdd)) (evict_room hdd (hq.1 d hdd) hff)

theorem methodWrite_winv (s : St) (k : Nat) (v : Int) (ts now : Int) (h : WInv s) : WInv (methodWrite s k v ts now).1 := by
  have h0 := h
  obtain ⟨hq, hl, hd⟩ := h
  unfold methodWrite
  split
  · rename_i sn hff
    split
    · split
      · exact h0
      · exact ⟨hq, hl, hd⟩
    · exact evictWrite_winv s k v ts now sn h0 hff
  · rename_i hff
    simp only [entOut]
    refine ⟨by rw [entWrite_qos]; exact hq, ?_, ?_⟩
    · refine entWrite_limInv s k v ts now hq hl ?_
      intro d hdd
      exact fullFront_none_room hdd (hq.1 d hdd) (hd d hdd) hff
    · intro d hdd
      rw [entWrite_qos] at hdd
      exact entWrite_lenOk d s k v ts now (hq.1 d hdd) (hd d hdd) (fullFront_none_room hdd (hq.1 d hdd) (hd d hdd) hff)

theorem processPending_winv (s : St) (now : Int) (h : WInv s) : WInv (processPending s now).1 := by
  have h0 := h
  obtain ⟨hq, hl, hd⟩ := h
  unfold processPending
  split
  · exact h0
  · rename_i p hp
    split
    · split
      · rename_i sn hff
        exact evictWrite_winv { s with pending := none } p.key p.val p.ts now sn ⟨hq, hl, hd⟩ hff
      · rename_i hff
        simp only [entOut]
        refine ⟨by rw [entWrite_qos]; exact hq, ?_, ?_⟩
        · refine entWrite_limInv { s with pending := none } p.key p.val p.ts now hq hl ?_
          intro d hdd
          exact fullFront_none_room (s := { s with pending := none }) hdd (hq.1 d hdd) (hd d hdd) hff
        · intro d hdd
          rw [entWrite_qos] at hdd
          exact entWrite_lenOk d { s with pending := none } p.key p.val p.ts now (hq.1 d hdd) (hd d hdd)
            (fullFront_none_room (s := { s with pending := none }) hdd (hq.1 d hdd) (hd d hdd) hff)
    · exact h0

/-- a step that only touches history / proxies / pending keeps the invariant -/
theorem winv_of_frame {s s' : St} (h : WInv s) (hq : s'.qos = s.qos) (hi : s'.insts = s.insts) : WInv s' := by
  obtain ⟨h1, ⟨h2, h3, h4⟩, h5⟩ := h
  refine ⟨by rw [hq]; exact h1, ⟨?_, ?_, ?_⟩, ?_⟩
  · intro m hm; rw [hq] at hm; rw [hi]; exact h2 m hm
  · intro m hm; rw [hq] at hm; rw [hi]; exact h3 m hm
  · intro m hm; rw [hq] at hm; rw [hi]; exact h4 m hm
  · intro d hd; rw [hq] at hd; rw [hi]; exact h5 d hd

theorem step_winv (s : St) (e : Ev) (h : WInv s) : WInv (step s e).1 := by
  cases e with
  | write k v ts now =>
    exact methodWrite_winv _ k v ts now (winv_of_frame h (removeStale_frame s now).1 (removeStale_frame s now).2.1)
  | acknack rid base set count now =>
    simp only [step, onAcknack]
    exact processPending_winv _ now (winv_of_frame h (removeStale_frame s now).1 (removeStale_frame s now).2.1)
  | tick now =>
    simp only [step, tick, tickRest]
    have hr := removeStale_frame s now
    have hc := checkTimeout_frame (removeStale s now) now
    have h1 : WInv (checkTimeout (removeStale s now) now).1 :=
      winv_of_frame h (by rw [hc.1, hr.1]) (by rw [hc.2.1, hr.2.1])
    have h2 := processPending_winv _ now h1
    exact winv_of_frame h2 (poke_frame _ now).1 (poke_frame _ now).2.1
  | matchReader rid rel tl =>
    exact winv_of_frame h (matchReader_frame s rid rel tl).1 (matchReader_frame s rid rel tl).2.1
  | unregister k ts now =>
    have h0 : WInv (removeStale s now) := winv_of_frame h (removeStale_frame s now).1 (removeStale_frame s now).2.1
    have hu := unregisterW_frame (removeStale s now) k ts now
    simp only [step]
    rcases hu.2.2.2 with hi | hi
    · exact winv_of_frame h0 hu.1 hi
    · obtain ⟨h1, ⟨h2, h3, h4⟩, h5⟩ := h0
      refine ⟨by rw [hu.1]; exact h1, ⟨?_, ?_, ?_⟩, ?_⟩
      · intro m hm; rw [hu.1] at hm; rw [hi, totalSamples_clearReg]; exact h2 m hm
      · intro m hm; rw [hu.1] at hm; rw [hi]; exact Nat.le_trans (regCount_clearReg_le k _) (h3 m hm)
      · intro m hm; rw [hu.1] at hm; rw [hi]; exact clearReg_lenOk m k _ (h4 m hm)
      · intro d hd; rw [hu.1] at hd; rw [hi]; exact clearReg_lenOk d k _ (h5 d hd)

end DustVerif.Wrt
