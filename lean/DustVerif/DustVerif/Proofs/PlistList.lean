import DustVerif.Proofs.PlistCodec
/-! List-level lemmas for Model/Plist.lean: what the PidIterator sees in a well-delimited list, look-ups by
    pid, lifting of the value round trip to whole records. -/
namespace DustVerif.Plist

/-- a parameter exactly as it lies on the wire: pid, length, value (nothing added) -/
def serRaw (p : Param) : Bytes := le16 p.1 ++ le16 p.2.length ++ p.2

def serRaws : List Param → Bytes
  | [] => []
  | p :: ps => serRaw p ++ serRaws ps

/-- a parameter the iterator can step over: 16-bit pid other than the sentinel, 16-bit length -/
def RawOk (p : Param) : Prop := p.1 < 65536 ∧ p.1 ≠ 1 ∧ p.2.length < 65536

theorem serRaws_append (a b : List Param) : serRaws (a ++ b) = serRaws a ++ serRaws b := by
  induction a with
  | nil => simp [serRaws]
  | cons p ps ih => simp [serRaws, ih]

theorem serRaws_length_ge (ps : List Param) : 4 * ps.length ≤ (serRaws ps).length := by
  induction ps with
  | nil => simp [serRaws]
  | cons p ps ih => simp [serRaws, serRaw]; omega

theorem scan_step (f : Nat) (p : Param) (rest : Bytes) (h : RawOk p) :
    scan .le (f + 1) (serRaw p ++ rest) = (p :: (scan .le f rest).1, (scan .le f rest).2) := by
  obtain ⟨h1, h2, h3⟩ := h
  have hpid : rd16 .le (p.1 % 256) (p.1 / 256 % 256) = p.1 := rd16_le16 _ h1
  have hlen : rd16 .le (p.2.length % 256) (p.2.length / 256 % 256) = p.2.length := rd16_le16 _ h3
  have hne : (p.1 == 1) = false := by simp [h2]
  simp only [serRaw, le16, List.cons_append, List.nil_append, scan, hpid, hlen, hne,
    Bool.false_or, List.length_append, decide_eq_true_eq]
  have : ¬ (p.2.length > p.2.length + rest.length) := by omega
  simp [this]

/-- the iterator over a well-delimited list yields exactly its parameters, and ends at the sentinel -/
theorem scan_raws (ps : List Param) : ∀ (f : Nat) (tail : Bytes), ps.length + 1 ≤ f → (∀ p ∈ ps, RawOk p) →
    scan .le f (serRaws ps ++ (sentinel ++ tail)) = (ps, false) := by
  induction ps with
  | nil =>
    intro f tail hf _
    cases f with
    | zero => omega
    | succ f => simp [serRaws, sentinel, scan, rd16]
  | cons p ps ih =>
    intro f tail hf h
    cases f with
    | zero => omega
    | succ f =>
      have hp : RawOk p := h p (by simp)
      have hps : ∀ q ∈ ps, RawOk q := fun q hq => h q (by simp [hq])
      simp only [serRaws, List.append_assoc, scan_step f p _ hp, ih f tail (by simpa using hf) hps]

theorem mkPl_raws (ps : List Param) (tail : Bytes) (h : ∀ p ∈ ps, RawOk p) :
    mkPl (plHeader ++ (serRaws ps ++ (sentinel ++ tail)))
      = { h0 := 0, h1 := 3, e := some .le, items := (768, []) :: ps, tailErr := false } := by
  have hhdr : plHeader = serRaw (768, []) := by simp [plHeader, serRaw, le16]
  have hall : ∀ p ∈ ((768, []) :: ps : List Param), RawOk p := by
    intro p hp
    simp only [List.mem_cons] at hp
    rcases hp with hp | hp
    · subst hp; simp [RawOk]
    · exact h p hp
  have hlen : ((768, []) :: ps : List Param).length + 1
      ≤ (plHeader ++ (serRaws ps ++ (sentinel ++ tail))).length := by
    have := serRaws_length_ge ps
    simp [plHeader, sentinel]; omega
  have hs := scan_raws ((768, []) :: ps) _ tail hlen hall
  simp only [serRaws, ← hhdr, List.append_assoc] at hs
  generalize hd : plHeader ++ (serRaws ps ++ (sentinel ++ tail)) = data at hs
  have h0 : data.headD 0 = 0 := by rw [← hd]; rfl
  have h1 : (data.drop 1).headD 0 = 3 := by rw [← hd]; rfl
  unfold mkPl
  simp only [h0, h1]
  simp [hs]

/-- the first real parameter of a little-endian list is always seen, whatever follows it -/
theorem mkPl_first (q : Param) (rest : Bytes) (hq : RawOk q) :
    ∃ X t, mkPl (plHeader ++ (serRaw q ++ rest))
      = { h0 := 0, h1 := 3, e := some .le, items := (768, []) :: q :: X, tailErr := t } := by
  have hhdr : plHeader = serRaw (768, []) := by simp [plHeader, serRaw, le16]
  have h768 : RawOk (768, []) := by simp [RawOk]
  have hlen : (plHeader ++ (serRaw q ++ rest)).length = (rest.length + q.2.length + 6) + 1 + 1 := by
    simp [plHeader, serRaw]; omega
  have hs : scan .le (plHeader ++ (serRaw q ++ rest)).length (plHeader ++ (serRaw q ++ rest))
      = ((768, []) :: q :: (scan .le (rest.length + q.2.length + 6) rest).1,
         (scan .le (rest.length + q.2.length + 6) rest).2) := by
    rw [hlen, hhdr, scan_step _ _ _ h768, scan_step _ _ _ hq]
  refine ⟨(scan .le (rest.length + q.2.length + 6) rest).1, (scan .le (rest.length + q.2.length + 6) rest).2, ?_⟩
  generalize hd : plHeader ++ (serRaw q ++ rest) = data at hs
  have h0 : data.headD 0 = 0 := by rw [← hd]; rfl
  have h1 : (data.drop 1).headD 0 = 3 := by rw [← hd]; rfl
  unfold mkPl
  simp only [h0, h1]
  simp [hs]

/-! ### look-ups -/

theorem findPid_eq_head (q : Nat) (xs : List Param) : findPid q xs = (filterPid q xs).head? := by
  induction xs with
  | nil => simp [findPid, filterPid]
  | cons p ps ih =>
    by_cases h : (p.1 == q) = true
    · simp [findPid, filterPid, h]
    · simp [findPid, filterPid, h, ih]

theorem filterPid_append (q : Nat) (xs ys : List Param) :
    filterPid q (xs ++ ys) = filterPid q xs ++ filterPid q ys := by
  induction xs with
  | nil => simp [filterPid]
  | cons p ps ih =>
    by_cases h : (p.1 == q) = true
    · simp [filterPid, h, ih]
    · simp [filterPid, h, ih]

theorem filterPid_none (q : Nat) (xs : List Param) (h : ∀ p ∈ xs, p.1 ≠ q) : filterPid q xs = [] := by
  induction xs with
  | nil => simp [filterPid]
  | cons p ps ih =>
    have h1 : (p.1 == q) = false := by simpa using h p (by simp)
    simp [filterPid, h1, ih (fun r hr => h r (by simp [hr]))]

theorem filterPid_all (q : Nat) (xs : List Param) (h : ∀ p ∈ xs, p.1 = q) :
    filterPid q xs = xs.map (fun p => p.2) := by
  induction xs with
  | nil => simp [filterPid]
  | cons p ps ih =>
    have h1 : (p.1 == q) = true := by simpa using h p (by simp)
    simp [filterPid, h1, ih (fun r hr => h r (by simp [hr]))]

/-- inserting a parameter with another pid changes no look-up -/
theorem filterPid_insert (q : Nat) (xs ys : List Param) (p : Param) (h : p.1 ≠ q) :
    filterPid q (xs ++ p :: ys) = filterPid q (xs ++ ys) := by
  have h1 : (p.1 == q) = false := by simpa using h
  simp [filterPid_append, filterPid, h1]

end DustVerif.Plist
