import DustVerif.Proofs.PlistCodec
/-! List-level lemmas for Model/Plist.lean: what the PidIterator sees in a well-delimited list, look-ups by
    pid, lifting of the value round trip to whole records. -/
namespace DustVerif.Plist

/-- a parameter exactly as it lies on the wire in byte order `e`: pid, length, value (nothing added) -/
def serRaw (e : End) (p : Param) : Bytes := enc16 e p.1 ++ enc16 e p.2.length ++ p.2

def serRaws (e : End) : List Param → Bytes
  | [] => []
  | p :: ps => serRaw e p ++ serRaws e ps

/-- a parameter the iterator can step over: 16-bit pid other than the sentinel, 16-bit length -/
def RawOk (p : Param) : Prop := p.1 < 65536 ∧ p.1 ≠ 1 ∧ p.2.length < 65536

theorem serRaws_append (e : End) (a b : List Param) : serRaws e (a ++ b) = serRaws e a ++ serRaws e b := by
  induction a with
  | nil => simp [serRaws]
  | cons p ps ih => simp [serRaws, ih]

theorem serRaws_length_ge (e : End) (ps : List Param) : 4 * ps.length ≤ (serRaws e ps).length := by
  induction ps with
  | nil => simp [serRaws]
  | cons p ps ih => simp [serRaws, serRaw]; omega

theorem rd16_enc16 (e : End) (n : Nat) (h : n < 65536) :
    ∃ a b, enc16 e n = [a, b] ∧ rd16 e a b = n := by
  cases e
  · exact ⟨_, _, rfl, rd16_le16 n h⟩
  · exact ⟨_, _, rfl, rd16_be16 n h⟩

theorem scan_step (e : End) (f : Nat) (p : Param) (rest : Bytes) (h : RawOk p) :
    scan e (f + 1) (serRaw e p ++ rest) = (p :: (scan e f rest).1, (scan e f rest).2) := by
  obtain ⟨h1, h2, h3⟩ := h
  obtain ⟨a, b, hab, hpid⟩ := rd16_enc16 e p.1 h1
  obtain ⟨c, d, hcd, hlen⟩ := rd16_enc16 e p.2.length h3
  have hne : (p.1 == 1) = false := by simp [h2]
  simp only [serRaw, hab, hcd, List.cons_append, List.nil_append, scan, hpid, hlen, hne,
    Bool.false_or, List.length_append, decide_eq_true_eq]
  have : ¬ (p.2.length > p.2.length + rest.length) := by omega
  simp [this]

theorem scan_sentinel (e : End) (f : Nat) (tail : Bytes) : scan e (f + 1) (sentinel e ++ tail) = ([], false) := by
  cases e <;> simp [sentinel, enc16, scan, rd16]

/-- the iterator over a well-delimited list yields exactly its parameters, and ends at the sentinel -/
theorem scan_raws (e : End) (ps : List Param) : ∀ (f : Nat) (tail : Bytes), ps.length + 1 ≤ f → (∀ p ∈ ps, RawOk p) →
    scan e f (serRaws e ps ++ (sentinel e ++ tail)) = (ps, false) := by
  induction ps with
  | nil =>
    intro f tail hf _
    cases f with
    | zero => omega
    | succ f => simp [serRaws, scan_sentinel]
  | cons p ps ih =>
    intro f tail hf h
    cases f with
    | zero => omega
    | succ f =>
      have hp : RawOk p := h p (by simp)
      have hps : ∀ q ∈ ps, RawOk q := fun q hq => h q (by simp [hq])
      simp only [serRaws, List.append_assoc, scan_step e f p _ hp, ih f tail (by simpa using hf) hps]

/-- the pid as which the unrepaired iterator reads the encapsulation header: 0x0300 under PL_CDR_LE,
    0x0002 (= PID_PARTICIPANT_LEASE_DURATION) under PL_CDR_BE -/
def hdrPid (e : End) : Nat :=
  match e with
  | .le => 768
  | .be => 2

/-- octet 1 of the encapsulation header -/
def hdrByte (e : End) : Nat :=
  match e with
  | .le => 3
  | .be => 2

/-- the pseudo-parameter in front of the real ones (none after fixes/D-plist-1.patch) -/
def hdrItems (cfg : Cfg) (e : End) : List Param := if cfg.fixHdr then [] else [(hdrPid e, [])]

theorem plHeader_raw (e : End) : plHeader e = serRaw e (hdrPid e, []) := by
  cases e <;> simp [plHeader, serRaw, hdrPid, enc16]

theorem plHeader_length (e : End) : (plHeader e).length = 4 := by cases e <;> rfl

theorem mkPl_header (cfg : Cfg) (e : End) (rest : Bytes) (items : List Param) (t : Bool)
    (hs : (if cfg.fixHdr then scan e (plHeader e ++ rest).length rest
           else scan e (plHeader e ++ rest).length (plHeader e ++ rest)) = (items, t)) :
    mkPl cfg (plHeader e ++ rest)
      = { h0 := 0, h1 := hdrByte e, e := some e, items := items, tailErr := t } := by
  have hdrop : (plHeader e ++ rest).drop 4 = rest := by cases e <;> simp [plHeader]
  have key : (if cfg.fixHdr then scan e (plHeader e ++ rest).length ((plHeader e ++ rest).drop 4)
      else scan e (plHeader e ++ rest).length (plHeader e ++ rest)) = (items, t) := by
    rw [hdrop]; exact hs
  clear hs hdrop
  generalize hd : plHeader e ++ rest = data at key
  have h0 : data.headD 0 = 0 := by rw [← hd]; cases e <;> rfl
  cases e with
  | le =>
    have h1 : (data.drop 1).headD 0 = 3 := by rw [← hd]; rfl
    unfold mkPl
    simp only [h0, h1]
    simp [key, hdrByte]
  | be =>
    have h1 : (data.drop 1).headD 0 = 2 := by rw [← hd]; rfl
    unfold mkPl
    simp only [h0, h1]
    simp [key, hdrByte]

/-- what the decoder knows about a well-delimited list in byte order `e` -/
theorem mkPl_raws (cfg : Cfg) (e : End) (ps : List Param) (tail : Bytes) (h : ∀ p ∈ ps, RawOk p) :
    mkPl cfg (plHeader e ++ (serRaws e ps ++ (sentinel e ++ tail)))
      = { h0 := 0, h1 := hdrByte e, e := some e, items := hdrItems cfg e ++ ps,
          tailErr := false } := by
  apply mkPl_header
  have hge := serRaws_length_ge e ps
  by_cases hf : cfg.fixHdr = true
  · simp only [hf, if_true, hdrItems, List.nil_append]
    apply scan_raws e ps _ tail _ h
    simp only [List.length_append, plHeader_length]; omega
  · simp only [hf, Bool.false_eq_true, if_false, hdrItems, List.cons_append, List.nil_append]
    have hall : ∀ p ∈ ((hdrPid e, []) :: ps : List Param), RawOk p := by
      intro p hp
      simp only [List.mem_cons] at hp
      rcases hp with hp | hp
      · subst hp; cases e <;> simp [RawOk, hdrPid]
      · exact h p hp
    have := scan_raws e ((hdrPid e, []) :: ps) (plHeader e ++ (serRaws e ps ++ (sentinel e ++ tail))).length tail
      (by simp only [List.length_append, List.length_cons, plHeader_length]; omega) hall
    simpa only [serRaws, ← plHeader_raw, List.append_assoc] using this

/-- the first real parameter of a list is always seen, whatever follows it -/
theorem mkPl_first (cfg : Cfg) (e : End) (q : Param) (rest : Bytes) (hq : RawOk q) :
    ∃ X t, mkPl cfg (plHeader e ++ (serRaw e q ++ rest))
      = { h0 := 0, h1 := hdrByte e, e := some e, items := hdrItems cfg e ++ q :: X,
          tailErr := t } := by
  have hlen : (plHeader e ++ (serRaw e q ++ rest)).length = (rest.length + q.2.length + 6) + 1 + 1 := by
    simp [plHeader_length, serRaw]; omega
  by_cases hf : cfg.fixHdr = true
  · refine ⟨(scan e (rest.length + q.2.length + 6 + 1) rest).1, (scan e (rest.length + q.2.length + 6 + 1) rest).2, ?_⟩
    apply mkPl_header
    simp only [hf, if_true, hdrItems, List.nil_append]
    rw [hlen, scan_step _ _ _ _ hq]
  · refine ⟨(scan e (rest.length + q.2.length + 6) rest).1, (scan e (rest.length + q.2.length + 6) rest).2, ?_⟩
    apply mkPl_header
    have h768 : RawOk (hdrPid e, []) := by cases e <;> simp [RawOk, hdrPid]
    simp only [hf, Bool.false_eq_true, if_false, hdrItems, List.cons_append, List.nil_append]
    rw [hlen, plHeader_raw, scan_step _ _ _ _ h768, scan_step _ _ _ _ hq]

/-! ### look-ups -/

theorem findPid_eq_head (q : Nat) (xs : List Param) : findPid q xs = (filterPid q xs).head? := by
  induction xs with
  | nil => simp [findPid, filterPid]
  | cons p ps ih =>
    by_cases h : (p.1 == q) = true
    · simp [findPid, filterPid, h]
    · simp [findPid, filterPid, h, ih]

theorem filterPid_append (q : Nat) (xs ys : List Param) :
    filterPid q (xs ++ ys) = filterPid q xs ++ filterPid q ys := by
  induction xs with
  | nil => simp [filterPid]
  | cons p ps ih =>
    by_cases h : (p.1 == q) = true
    · simp [filterPid, h, ih]
    · simp [filterPid, h, ih]

theorem filterPid_none (q : Nat) (xs : List Param) (h : ∀ p ∈ xs, p.1 ≠ q) : filterPid q xs = [] := by
  induction xs with
  | nil => simp [filterPid]
  | cons p ps ih =>
    have h1 : (p.1 == q) = false := by simpa using h p (by simp)
    simp [filterPid, h1, ih (fun r hr => h r (by simp [hr]))]

theorem filterPid_all (q : Nat) (xs : List Param) (h : ∀ p ∈ xs, p.1 = q) :
    filterPid q xs = xs.map (fun p => p.2) := by
  induction xs with
  | nil => simp [filterPid]
  | cons p ps ih =>
    have h1 : (p.1 == q) = true := by simpa using h p (by simp)
    simp [filterPid, h1, ih (fun r hr => h r (by simp [hr]))]

/-- inserting a parameter with another pid changes no look-up -/
theorem filterPid_insert (q : Nat) (xs ys : List Param) (p : Param) (h : p.1 ≠ q) :
    filterPid q (xs ++ p :: ys) = filterPid q (xs ++ ys) := by
  have h1 : (p.1 == q) = false := by simpa using h
  simp [filterPid_append, filterPid, h1]

end DustVerif.Plist
