import DustVerif.Model.AckWait
/-! Lemmas about the DCPS wait-list automaton of Model/AckWait.lean (C03 API level). -/
namespace DustVerif.AckWait

theorem isAck_iff (s : St) : s.isAck = true ↔ ∀ p, p ∈ s.proxies → p.reliable = true → s.lastSn ≤ p.highestAcked := by
  unfold St.isAck
  simp only [Bool.not_eq_true', List.any_eq_false]
  constructor
  · intro h p hp hr
    have := h p hp
    simp only [unacked, hr, Bool.true_and, decide_eq_true_eq] at this
    omega
  · intro h p hp
    simp only [unacked, Bool.and_eq_true, decide_eq_true_eq, not_and]
    intro hr
    have := h p hp hr
    omega

theorem isAck_waiters (s : St) (w : List Nat) : ({ s with waiters := w } : St).isAck = s.isAck := rfl

theorem drain_answered_acked (s : St) (id : Nat) (h : id ∈ s.drain.2) : s.drain.1.isAck = true := by
  unfold St.drain at h ⊢
  split
  · rename_i hack; exact hack
  · rename_i hack; rw [if_neg hack] at h; cases h

theorem drain_kept (s : St) (id : Nat) (h : id ∈ s.waiters) : id ∈ s.drain.2 ∨ id ∈ s.drain.1.waiters := by
  unfold St.drain
  split
  · exact Or.inl h
  · exact Or.inr h

theorem drain_not_stuck (s : St) : s.drain.1.waiters ≠ [] → s.drain.1.isAck = false := by
  unfold St.drain
  split
  · intro h; exact absurd rfl h
  · rename_i hack; intro _; simpa using hack

theorem drain_isAck (s : St) : s.drain.1.isAck = s.isAck := by
  unfold St.drain; split <;> rfl

theorem drain_all (s : St) (h : s.isAck = true) : s.drain = ({ s with waiters := [] }, s.waiters) := by
  unfold St.drain; rw [if_pos h]

end DustVerif.AckWait
