import DustVerif.Proofs.TreeHandles
/-! After a successful delete the handle resolves to nothing (needs the uniqueness invariant). -/
namespace DustVerif.Tree

theorem pub_match_key {s : St} (hi : Inv s) (hb : Bounded s) (pu b : Nat) :
    ∀ x ∈ s.pubs, ∀ y ∈ s.pubs, isPubH pu b x = true → isPubH pu b y = true → pubKey x = pubKey y := by
  intro x hx y hy h1 h2
  have k1 := hi.pubs.1 _ (mem_keys (key := pubKey) hx)
  have k2 := hi.pubs.1 _ (mem_keys (key := pubKey) hy)
  have b1 := (hb.2 x.part).1
  have b2 := (hb.2 y.part).1
  unfold isPubH at h1 h2
  simp only [Bool.and_eq_true, beq_iff_eq] at h1 h2
  unfold pubKey at k1 k2 ⊢
  simp only at k1 k2
  unfold U8 at *
  have : x.uid = y.uid := by omega
  rw [h1.1, h2.1, this]

theorem sub_match_key {s : St} (hi : Inv s) (hb : Bounded s) (pu b : Nat) :
    ∀ x ∈ s.subs, ∀ y ∈ s.subs, isSubH pu b x = true → isSubH pu b y = true → subKey x = subKey y := by
  intro x hx y hy h1 h2
  have k1 := hi.subs.1 _ (mem_keys (key := subKey) hx)
  have k2 := hi.subs.1 _ (mem_keys (key := subKey) hy)
  have b1 := (hb.2 x.part).2.1
  have b2 := (hb.2 y.part).2.1
  unfold isSubH at h1 h2
  simp only [Bool.and_eq_true, beq_iff_eq] at h1 h2
  unfold subKey at k1 k2 ⊢
  simp only at k1 k2
  unfold U8 at *
  have : x.uid = y.uid := by omega
  rw [h1.1, h2.1, this]

theorem part_match_key {s : St} (hi : Inv s) (hb : Bounded s) (ph : Nat) :
    ∀ x ∈ s.parts, ∀ y ∈ s.parts, isPartH ph x = true → isPartH ph y = true → partKey x = partKey y := by
  intro x hx y hy h1 h2
  have k1 := hi.partsLt x hx
  have k2 := hi.partsLt y hy
  have := hb.1
  unfold isPartH at h1 h2
  simp only [beq_iff_eq] at h1 h2
  unfold partKey
  unfold U32 at *
  omega

theorem writer_match_key {s : St} (hi : Inv s) (hb : Bounded s) (pu pb : Nat) (e : EntId) :
    ∀ x ∈ s.writers, ∀ y ∈ s.writers, isWriterE pu pb e x = true → isWriterE pu pb e y = true →
      writerKey x = writerKey y := by
  intro x hx y hy h1 h2
  have k1 := hi.writers.1 _ (mem_keys (key := writerKey) hx)
  have k2 := hi.writers.1 _ (mem_keys (key := writerKey) hy)
  have b1 := (hb.2 x.part).2.2.2.1
  have b2 := (hb.2 y.part).2.2.2.1
  unfold isWriterE at h1 h2
  simp only [Bool.and_eq_true, beq_iff_eq] at h1 h2
  obtain ⟨⟨hp1, _⟩, he1⟩ := h1
  obtain ⟨⟨hp2, _⟩, he2⟩ := h2
  have he := he1.trans he2.symm
  unfold writerEnt at he
  injection he with _ hlo hhi _
  unfold writerKey at k1 k2 ⊢
  simp only at k1 k2
  unfold U16 at *
  have : x.uid = y.uid := by omega
  rw [hp1, hp2, this]

theorem reader_match_key {s : St} (hi : Inv s) (hb : Bounded s) (pu sb : Nat) (e : EntId) :
    ∀ x ∈ s.readers, ∀ y ∈ s.readers, isReaderE pu sb e x = true → isReaderE pu sb e y = true →
      readerKey x = readerKey y := by
  intro x hx y hy h1 h2
  have k1 := hi.readers.1 _ (mem_keys (key := readerKey) hx)
  have k2 := hi.readers.1 _ (mem_keys (key := readerKey) hy)
  have b1 := (hb.2 x.part).2.2.2.2
  have b2 := (hb.2 y.part).2.2.2.2
  unfold isReaderE at h1 h2
  simp only [Bool.and_eq_true, beq_iff_eq] at h1 h2
  obtain ⟨⟨hp1, _⟩, he1⟩ := h1
  obtain ⟨⟨hp2, _⟩, he2⟩ := h2
  have he := he1.trans he2.symm
  unfold readerEnt at he
  injection he with _ hlo hhi _
  unfold readerKey at k1 k2 ⊢
  simp only at k1 k2
  unfold U16 at *
  have : x.uid = y.uid := by omega
  rw [hp1, hp2, this]

theorem find_filter_notTopicN (l : List Topic) (u : Nat) (n : String) :
    (l.filter (notTopicN u n)).find? (isTopicN u n) = none := by
  rw [List.find?_eq_none]
  intro x hx
  have := (List.mem_filter.mp hx).2
  unfold notTopicN at this
  unfold isTopicN
  cases h : (x.part == u && x.name == n) with
  | false => simp
  | true => rw [h] at this; simp at this

end DustVerif.Tree
