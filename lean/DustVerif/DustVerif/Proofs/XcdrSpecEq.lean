import DustVerif.Proofs.XcdrSpecEqM
/-! The transcription model's serializer produces the bytes of the specification (sequential subset). -/
namespace DustVerif.Xcdr

theorem eswap_le_eq (k x : Nat) :
    (List.range k).map (fun i => UInt8.ofNat (x / 256 ^ i % 256)) = leBytes k x := by
  induction k generalizing x with
  | zero => simp [leBytes]
  | succ k ih =>
    rw [List.range_succ_eq_map, List.map_cons, List.map_map, leBytes]
    simp only [Nat.pow_zero, Nat.div_one]
    congr 1
    rw [← ih (x / 256)]
    apply List.map_congr_left
    intro i _
    simp only [Function.comp, Nat.pow_succ, Nat.div_div_eq_div_mul]
    rw [Nat.mul_comm]

theorem eswap_eq (e : Endian) (k x : Nat) : Spec.eswap e k x = encNat e k x := by
  cases e <;> simp [Spec.eswap, encNat, eswap_le_eq]

theorem pad_eq (n : Nat) : Spec.pad n = zeros n := rfl

/-- `ALIGN(N)` of the specification = the padding of the serializer, for the alignments that occur (1, 2, 4, 8) -/
theorem alignPad_eq (ver : Ver) (n pos : Nat) (hn : n = 1 ∨ n = 2 ∨ n = 4 ∨ n = 8) :
    Spec.alignPad ver n pos = wPad ver n pos := by
  rcases hn with rfl | rfl | rfl | rfl <;> cases ver <;>
    simp [Spec.alignPad, Spec.maxAlign, wPad, Ver.maxAlign, padTo] <;> omega

theorem Prim.size_cases (p : Prim) : p.size = 1 ∨ p.size = 2 ∨ p.size = 4 ∨ p.size = 8 := by
  cases p <;> simp [Prim.size]

theorem ssize_eq (p : Prim) : Spec.ssize p = p.size := by cases p <;> rfl

theorem primitive_eq (ver : Ver) (e : Endian) (p : Prim) (n pos : Nat) (h : primOk p n = true) :
    Spec.primitive ver e p n pos = (wPrim ver e p n pos).1 := by
  simp only [Spec.primitive, wPrim, ssize_eq, alignPad_eq ver p.size pos (Prim.size_cases p), pad_eq, eswap_eq]
  congr 1
  cases p <;> simp [primBytes]
  -- CHAR8: one byte
  simp only [primOk, Bool.and_eq_true, decide_eq_true_eq] at h
  have h256 : n < 256 := by simpa using h.2
  have hm : n % 256 = n := Nat.mod_eq_of_lt h256
  cases e <;> simp [encNat, leBytes, c8Bytes, Prim.size, hm]

theorem uint32_eq (ver : Ver) (e : Endian) (n pos : Nat) (h : n < 2 ^ 32) :
    Spec.uint32 ver e n pos = (wPrim ver e .u32 n pos).1 :=
  primitive_eq ver e .u32 n pos (primOk_u32 n h)

theorem uint16_eq (ver : Ver) (e : Endian) (n pos : Nat) (h : primOk .u16 n = true) :
    Spec.uint16 ver e n pos = (wPrim ver e .u16 n pos).1 :=
  primitive_eq ver e .u16 n pos h

theorem elements_eq (f : Val → Nat → W) (g : Val → Nat → Bytes) (vs : List Val)
    (h : ∀ v ∈ vs, ∀ p, (f v p).1 = g v p ∧ (f v p).2 = p + (f v p).1.length) (pos : Nat) :
    (wList f vs pos).1 = Spec.elements g vs pos := by
  induction vs generalizing pos with
  | nil => simp [wList, Spec.elements]
  | cons v vs ih =>
    have h1 := h v (by simp) pos
    simp only [wList, Spec.elements]
    rw [← h1.1, ih (fun w hw => h w (by simp [hw])), h1.2]

theorem delimited_eq (ver : Ver) (e : Endian) (body : Nat → W) (sbody : Nat → Bytes) (pos : Nat)
    (h : ∀ p, (body p).1 = sbody p) (hlen : ∀ p, (body p).1.length < 2 ^ 32) :
    (wDh ver e body pos).1 = Spec.delimited ver e sbody pos := by
  simp only [wDh, Spec.delimited, alignPad_eq ver 4 pos (by simp), pad_eq, eswap_eq, ← h,
    Nat.mod_eq_of_lt (hlen _)]

theorem ALLOC_LIMIT_lt' : ALLOC_LIMIT < 2 ^ 32 := by decide

theorem maxSize_le_sum' (el : Ty) (vs : List Val) (v : Val) (hv : v ∈ vs) :
    maxSize el v ≤ sumNat (vs.map (maxSize el)) :=
  le_sumNat_of_mem (List.mem_map_of_mem hv)

theorem wSeqBody_facts' (cfg : Cfg) (ver : Ver) (e : Endian) (el : Ty) (vs : List Val)
    (hall : ∀ v ∈ vs, wfVal cfg ver el v = true) (p : Nat) :
    Facts (wSeqBody ver e (ser cfg ver e el) vs p) p (8 + sumNat (vs.map (maxSize el))) true := by
  have h1 := wPrim_u32_len ver e (vs.length % 2 ^ 32) p
  have h2 := wPad4_le ver p
  have h3 := wPrim_pos ver e .u32 (vs.length % 2 ^ 32) p
  have h4 := wList_len_le (ser cfg ver e el) (maxSize el) vs
    (fun v hv q => (serFacts cfg ver e el v (hall v hv) q).1) (wPrim ver e .u32 (vs.length % 2 ^ 32) p).2
  have h5 := wList_pos (ser cfg ver e el) vs
    (fun v hv q => (serFacts cfg ver e el v (hall v hv) q).2.2) (wPrim ver e .u32 (vs.length % 2 ^ 32) p).2
  simp only [Facts, wSeqBody, List.length_append]
  refine ⟨by omega, fun _ => by omega, by omega⟩

theorem optValue_absent (g : Val → Nat → Bytes) : Spec.optValue .absent g = none := rfl
theorem optValue_of_ne (f : Val) (g : Val → Nat → Bytes) (h : f ≠ .absent) : Spec.optValue f g = some (g f) := by
  cases f <;> simp_all [Spec.optValue]

/-- one member of a final / appendable structure: model bytes = specification bytes -/
theorem wFMember_eq (d : Spec.Dialect) (cfg : Cfg) (ver : Ver) (e : Endian) (id : Nat) (opt mu : Bool) (t : Ty) (f : Val)
    (hm : (match f with
       | .absent => opt && (ver == .v2 || (cfg.d46 && cfg.d61 && !pidOverflow id mu))
       | f => wfVal cfg ver t f &&
              (!opt || ver == .v2 ||
               (cfg.d46 && cfg.d61 && !pidOverflow id mu && sizePos ver t && decide (maxSize t f < 2 ^ 16)))) = true)
    (hid : (ver == .v2 || !opt || decide (id ≤ 0x3F00)) = true)
    (heq : f ≠ .absent → ∀ p, (ser cfg ver e t f p).1 = Spec.ser d ver e t f p)
    (pos : Nat) :
    (wFMember cfg ver e id opt mu f (ser cfg ver e t) pos).1 =
      Spec.fmember ver e id opt mu f (Spec.ser d ver e t) pos := by
  unfold wFMember Spec.fmember
  cases opt with
  | false =>
    have hf : f ≠ .absent := by intro h; subst h; simp at hm
    simpa using heq hf pos
  | true =>
    simp only [if_true]
    cases ver with
    | v2 =>
      by_cases hf : f = .absent
      · subst hf
        simp only [optEnc_absent, optValue_absent, wOpt2, Spec.optMember2,
          primitive_eq .v2 e .bool 0 pos primOk_bool0]
      · have hp := primitive_eq .v2 e .bool 1 pos primOk_bool1
        have hpos := wPrim_pos .v2 e .bool 1 pos
        simp only [optEnc_of_ne f _ hf, optValue_of_ne f _ hf, wOpt2, Spec.optMember2, hp, heq hf, hpos]
    | v1 =>
      have hidle : id ≤ 0x3F00 := by simpa using hid
      have hpid : (id % 2 ^ 16 + if mu = true then 2 ^ 14 else 0) % 2 ^ 16 = (if mu = true then 0x4000 else 0) + id := by
        split <;> omega
      have hcfg : cfg.d61 = true := by cases f <;> simp_all
      by_cases hf : f = .absent
      · subst hf
        simp only [optEnc_absent, optValue_absent, wMem1, Spec.mmember1, alignPad_eq .v1 4 pos (by simp), pad_eq,
          eswap_eq, hpid, List.length_nil, hidle, Nat.zero_mod]
        simp
      · have hw : wfVal cfg .v1 t f = true ∧ maxSize t f < 2 ^ 16 := by cases f <;> simp_all
        have hfacts := serFacts cfg .v1 e t f hw.1 0
        have hlen : (ser cfg .v1 e t f 0).1.length < 2 ^ 16 := Nat.lt_of_le_of_lt hfacts.1 hw.2
        have heq0 := heq hf 0
        have hle : (Spec.ser d .v1 e t f 0).length ≤ 0xFFFF := by rw [← heq0]; omega
        simp only [optEnc_of_ne f _ hf, optValue_of_ne f _ hf, wMem1, Spec.mmember1,
          alignPad_eq .v1 4 pos (by simp), pad_eq, eswap_eq, hpid,
          hidle, hle, and_self, if_true, Nat.mod_eq_of_lt hlen, heq0]
        have hm2 : (Spec.ser d .v1 e t f 0).length % 65536 = (Spec.ser d .v1 e t f 0).length :=
          Nat.mod_eq_of_lt (by omega)
        simp [hm2]

/-- XCDR1: the parameter ids of the present members fit the short header -/
theorem chunks_shortIds (cfg : Cfg) (e : Endian) : (ms : Ms) → (fs : List Val) → shortIdsMs .v1 true ms = true →
    ∀ c ∈ chunks cfg .v1 e ms fs, c.id ≤ 0x3F00
  | .nil, _, _, c, h => by simp [chunks] at h
  | .cons _ _ _ _ _, [], _, c, h => by simp [chunks] at h
  | .cons id opt mu t r, f :: fs, hid, c, h => by
    simp only [shortIdsMs, Bool.and_eq_true] at hid
    have ih := chunks_shortIds cfg e r fs hid.2
    have hidle : id ≤ 0x3F00 := by simpa using hid.1.1
    cases f <;> simp only [chunks, List.mem_cons] at h
    case absent => exact ih c h
    all_goals
      rcases h with rfl | h
      · exact hidle
      · exact ih c h

mutual
theorem ser_eq_spec (d : Spec.Dialect) (cfg : Cfg) (ver : Ver) (e : Endian) : (t : Ty) → (v : Val) →
    wfVal cfg ver t v = true → (noMutable t = true ∨ d = Spec.Dialect.dust) → shortIds ver t = true →
    maxSize t v < 2 ^ 32 →
    ∀ pos, (ser cfg ver e t v pos).1 = Spec.ser d ver e t v pos
  | .prim p, .num n, h, _, _, _, pos => by
    simp only [wfVal] at h
    simp only [ser, Spec.ser, primitive_eq ver e p n pos h]
  | .str, .str bs, h, _, _, hs, pos => by
    simp only [maxSize] at hs
    simp only [ser, Spec.ser, wStr, Spec.string]
    rw [uint32_eq ver e _ pos (by omega), Nat.mod_eq_of_lt (by omega)]
  | .wstr, .list us, h, _, _, hs, pos => by
    simp only [wfVal, Bool.and_eq_true, List.all_eq_true] at h
    simp only [maxSize] at hs
    have hl : us.length + 1 < 2 ^ 32 := by omega
    have h3 := wPrim_pos ver e .u32 (us.length + 1) pos
    have hb := elements_eq (fun v p => wPrim ver e .u16 v.unit p) (fun v r => Spec.uint16 ver e v.unit r) us
      (fun v hv p => ⟨(uint16_eq ver e v.unit p (unitOk_primOk v (h.1 v hv))).symm, wPrim_pos ver e .u16 v.unit p⟩)
      (wPrim ver e .u32 (us.length + 1) pos).2
    have hbp := wList_pos (fun v p => wPrim ver e .u16 v.unit p) us
      (fun v _ q => wPrim_pos ver e .u16 v.unit q) (wPrim ver e .u32 (us.length + 1) pos).2
    simp only [ser, Spec.ser, wWStr, Spec.wstring, Nat.mod_eq_of_lt hl]
    rw [uint32_eq ver e _ pos hl, ← h3, ← hb, uint16_eq ver e 0 _ (by decide)]
    congr 2
    rw [hbp, h3]
  | .enum hd ls _, .num n, h, _, _, _, pos => by
    simp only [wfVal, Bool.and_eq_true, decide_eq_true_eq] at h
    simp only [ser, Spec.ser, primitive_eq ver e hd n pos (enum_primOk hd n h.1.1 h.1.2)]
  | .seq el, .list vs, h, hnm, hid, hs, pos => by
    simp only [wfVal, Bool.and_eq_true, decide_eq_true_eq, List.all_eq_true] at h
    obtain ⟨⟨⟨_, _⟩, hlim⟩, hall⟩ := h
    have hnm : noMutable el = true ∨ d = Spec.Dialect.dust := hnm.imp (fun h => by simpa [noMutable] using h) id
    simp only [shortIds] at hid
    simp only [maxSize] at hs
    have hl : vs.length < 2 ^ 32 := by have := ALLOC_LIMIT_lt'; omega
    have hel : ∀ v ∈ vs, ∀ p, (ser cfg ver e el v p).1 = Spec.ser d ver e el v p ∧
        (ser cfg ver e el v p).2 = p + (ser cfg ver e el v p).1.length := fun v hv p =>
      ⟨ser_eq_spec d cfg ver e el v (hall v hv) hnm hid (by have := maxSize_le_sum' el vs v hv; omega) p,
       (serFacts cfg ver e el v (hall v hv) p).2.2⟩
    have hbody : ∀ p, (wSeqBody ver e (ser cfg ver e el) vs p).1 =
        Spec.uint32 ver e vs.length p ++
          Spec.elements (Spec.ser d ver e el) vs (p + (Spec.uint32 ver e vs.length p).length) := by
      intro p
      simp only [wSeqBody, Nat.mod_eq_of_lt hl, uint32_eq ver e _ p hl]
      rw [elements_eq _ _ vs hel, wPrim_pos]
    have hprim : el.isPrim = Spec.isPrimitive el := by cases el <;> rfl
    simp only [ser, Spec.ser]
    cases ver <;> cases hp : el.isPrim <;> simp [hp, ← hprim, hbody]
    · -- XCDR2, non-primitive elements: DHEADER
      have hsz : ∀ p, (wSeqBody .v2 e (ser cfg .v2 e el) vs p).1.length < 2 ^ 32 := fun p => by
        have := (wSeqBody_facts' cfg .v2 e el vs hall p).1; omega
      rw [delimited_eq .v2 e _ _ pos hbody hsz]
  | .arr el n, .list vs, h, hnm, hid, hs, pos => by
    simp only [wfVal, Bool.and_eq_true, decide_eq_true_eq, List.all_eq_true, beq_iff_eq] at h
    obtain ⟨⟨⟨⟨_, _⟩, _⟩, _⟩, hall⟩ := h
    have hnm : noMutable el = true ∨ d = Spec.Dialect.dust := hnm.imp (fun h => by simpa [noMutable] using h) id
    simp only [shortIds] at hid
    simp only [maxSize] at hs
    have hel : ∀ v ∈ vs, ∀ p, (ser cfg ver e el v p).1 = Spec.ser d ver e el v p ∧
        (ser cfg ver e el v p).2 = p + (ser cfg ver e el v p).1.length := fun v hv p =>
      ⟨ser_eq_spec d cfg ver e el v (hall v hv) hnm hid (by have := maxSize_le_sum' el vs v hv; omega) p,
       (serFacts cfg ver e el v (hall v hv) p).2.2⟩
    have hbody : ∀ p, (wList (ser cfg ver e el) vs p).1 = Spec.elements (Spec.ser d ver e el) vs p :=
      elements_eq _ _ vs hel
    have hprim : el.isPrim = Spec.isPrimitive el := by cases el <;> rfl
    simp only [ser, Spec.ser]
    cases ver <;> cases hp : el.isPrim <;> simp [hp, ← hprim, hbody]
    · have hsz : ∀ p, (wList (ser cfg .v2 e el) vs p).1.length < 2 ^ 32 := fun p => by
        have := wList_len_le (ser cfg .v2 e el) (maxSize el) vs
          (fun v hv q => (serFacts cfg .v2 e el v (hall v hv) q).1) p
        omega
      rw [delimited_eq .v2 e _ _ pos hbody hsz]
  | .struct .final ms, .struct fs, h, hnm, hid, hs, pos => by
    simp only [wfVal] at h
    have hnm : noMutableMs ms = true ∨ d = Spec.Dialect.dust := hnm.imp (fun h => by simpa [noMutable] using h) id
    simp only [shortIds] at hid
    simp only [maxSize] at hs
    simp only [ser, Spec.ser]
    exact serF_eq_spec d cfg ver e ms fs h hnm hid (by omega) pos
  | .struct .appendable ms, .struct fs, h, hnm, hid, hs, pos => by
    simp only [wfVal] at h
    have hnm : noMutableMs ms = true ∨ d = Spec.Dialect.dust := hnm.imp (fun h => by simpa [noMutable] using h) id
    simp only [shortIds] at hid
    simp only [maxSize] at hs
    have ih := serF_eq_spec d cfg ver e ms fs h hnm hid (by omega)
    cases ver with
    | v1 => simp [ser, Spec.ser, ih]
    | v2 =>
      have hsz : ∀ p, (serF cfg .v2 e ms fs p).1.length < 2 ^ 32 := fun p => by
        have := (serFFacts cfg .v2 e ms fs h p).1; omega
      have hv : (Ver.v2 == Ver.v1) = false := by decide
      simp only [ser, Spec.ser, hv, Bool.false_eq_true, if_false]
      rw [delimited_eq .v2 e _ _ pos ih hsz]
  | .struct .mutable ms, .struct fs, h, hnm, hid, hs, pos => by
    have hdd : d = Spec.Dialect.dust := by
      rcases hnm with h' | h'
      · simp [noMutable] at h'
      · exact h'
    subst hdd
    simp only [shortIds, beq_self_eq_true] at hid
    simp only [maxSize] at hs
    cases ver with
    | v1 =>
      simp only [wfVal, Bool.and_eq_true, decide_eq_true_eq] at h
      obtain ⟨⟨⟨⟨_, h61⟩, _⟩, _⟩, hm⟩ := h
      have hv : (Ver.v1 == Ver.v1) = true := by decide
      have hrel := present_rel Spec.Dialect.dust cfg .v1 e ms fs hm (Or.inr rfl) hid (by omega)
      have hC := chunks_C1 cfg e ms fs hm
      have hids := chunks_shortIds cfg e ms fs hid
      simp only [ser, Spec.ser, hv, if_true, Spec.order, Spec.Dialect.dust]
      exact emit1_eq_plist1 cfg h61 e hrel.sort
        (fun c hc => ⟨hids c ((mem_sortChunks c _).mp hc), by have := (hC c ((mem_sortChunks c _).mp hc)).2.2.2; omega⟩) pos
    | v2 =>
      simp only [wfVal, Bool.and_eq_true, decide_eq_true_eq] at h
      obtain ⟨⟨_, _⟩, hm⟩ := h
      have hv : (Ver.v2 == Ver.v1) = false := by decide
      have hrel := present_rel Spec.Dialect.dust cfg .v2 e ms fs hm (Or.inr rfl) hid (by omega)
      have hK := chunks_K2 cfg e ms fs hm (by omega)
      have hb : ∀ c ∈ sortChunks (chunks cfg .v2 e ms fs), C2 c ∧ (c.enc 0).1.length < 2 ^ 32 := fun c hc =>
        ⟨(hK c ((mem_sortChunks c _).mp hc)).1, (hK c ((mem_sortChunks c _).mp hc)).2.1⟩
      have hbody := emit2_eq_plist2 e hrel.sort hb
      have hsz : ∀ p, (emit2 e (sortChunks (chunks cfg .v2 e ms fs)) p).1.length < 2 ^ 32 := fun p => by
        have h1 := (emit2_facts e _ (fun c hc => (hb c hc).1) p).2
        rw [sum_sortChunks] at h1
        have h2 := (chunksFacts cfg .v2 e ms fs hm).1
        omega
      simp only [ser, Spec.ser, hv, Bool.false_eq_true, if_false, Spec.order, Spec.Dialect.dust]
      exact delimited_eq .v2 e _ _ pos hbody hsz
  | .prim _, .str _, h, _, _, _, _ | .prim _, .list _, h, _, _, _, _ | .prim _, .struct _, h, _, _, _, _ | .prim _, .absent, h, _, _, _, _ => by simp [wfVal] at h
  | .str, .num _, h, _, _, _, _ | .str, .list _, h, _, _, _, _ | .str, .struct _, h, _, _, _, _ | .str, .absent, h, _, _, _, _ => by simp [wfVal] at h
  | .enum _ _ _, .str _, h, _, _, _, _ | .enum _ _ _, .list _, h, _, _, _, _ | .enum _ _ _, .struct _, h, _, _, _, _ | .enum _ _ _, .absent, h, _, _, _, _ => by simp [wfVal] at h
  | .wstr, .num _, h, _, _, _, _ | .wstr, .str _, h, _, _, _, _ | .wstr, .struct _, h, _, _, _, _ | .wstr, .absent, h, _, _, _, _ => by simp [wfVal] at h
  | .seq _, .num _, h, _, _, _, _ | .seq _, .str _, h, _, _, _, _ | .seq _, .struct _, h, _, _, _, _ | .seq _, .absent, h, _, _, _, _ => by simp [wfVal] at h
  | .arr _ _, .num _, h, _, _, _, _ | .arr _ _, .str _, h, _, _, _, _ | .arr _ _, .struct _, h, _, _, _, _ | .arr _ _, .absent, h, _, _, _, _ => by simp [wfVal] at h
  | .union app disc bs, .struct fs, h, hnm, hid, hs, pos => by
    have hwf0 : wfVal cfg ver (.union false disc bs) (.struct fs) = true := by simpa only [wfVal] using h
    have hsz0 : maxSize (.union false disc bs) (.struct fs) = maxSize (.union app disc bs) (.struct fs) := by
      simp only [maxSize]
    have hnm' : noMutableB bs = true ∨ d = Spec.Dialect.dust :=
      hnm.imp (fun h => by simpa [noMutable] using h) (fun x => x)
    simp only [shortIds] at hid
    -- the final form
    have hU : ∀ p, (wUnion ver e disc (serB cfg ver e bs) fs p).1 =
        Spec.funion ver e disc (Spec.branch d ver e bs) fs p := by
      intro p
      simp only [wfVal] at h
      split at h
      · rename_i x bid v
        simp only [Bool.and_eq_true] at h
        obtain ⟨⟨⟨⟨hp, _⟩, _⟩, _⟩, hb⟩ := h
        simp only [maxSize] at hs
        have h3 := wPrim_pos ver e disc x p
        simp only [wUnion, Spec.funion]
        rw [primitive_eq ver e disc x p hp, serB_eq_spec d cfg ver e bs bid v hb hnm' hid (by omega), h3]
      · rename_i x
        simp only [Bool.and_eq_true] at h
        simp only [wUnion, Spec.funion, primitive_eq ver e disc x p h.1.1]
      · simp at h
    have hlen : ∀ p, (wUnion ver e disc (serB cfg ver e bs) fs p).1.length < 2 ^ 32 := by
      intro p
      have := serFacts cfg ver e (.union false disc bs) (.struct fs) hwf0 p
      simp only [ser, Bool.false_and, Bool.false_eq_true, if_false, hsz0] at this
      have := this.1
      omega
    simp only [ser, Spec.ser]
    split
    · exact delimited_eq ver e _ _ pos hU hlen
    · exact hU pos
  | .union _ _ _, .num _, h, _, _, _, _ | .union _ _ _, .str _, h, _, _, _, _ | .union _ _ _, .list _, h, _, _, _, _ | .union _ _ _, .absent, h, _, _, _, _ => by simp [wfVal] at h
  | .struct _ _, .num _, h, _, _, _, _ | .struct _ _, .str _, h, _, _, _, _ | .struct _ _, .list _, h, _, _, _, _ | .struct _ _, .absent, h, _, _, _, _ => by simp [wfVal] at h
theorem serB_eq_spec (d : Spec.Dialect) (cfg : Cfg) (ver : Ver) (e : Endian) : (bs : Bs) → (bid : Nat) → (v : Val) →
    wfB cfg ver bs bid v = true → (noMutableB bs = true ∨ d = Spec.Dialect.dust) → shortIdsB ver bs = true →
    maxSizeB bs bid v < 2 ^ 32 →
    ∀ pos, (serB cfg ver e bs bid v pos).1 = Spec.branch d ver e bs bid v pos
  | .nil, _, _, h, _, _, _, _ => by simp [wfB] at h
  | .cons id' _ _ t r, bid, v, h, hnm, hid, hs, pos => by
    simp only [wfB] at h
    simp only [maxSizeB] at hs
    simp only [shortIdsB, Bool.and_eq_true] at hid
    have hnm1 : noMutable t = true ∨ d = Spec.Dialect.dust :=
      hnm.imp (fun h => by simp only [noMutableB, Bool.and_eq_true] at h; exact h.1) (fun x => x)
    have hnm2 : noMutableB r = true ∨ d = Spec.Dialect.dust :=
      hnm.imp (fun h => by simp only [noMutableB, Bool.and_eq_true] at h; exact h.2) (fun x => x)
    simp only [serB, Spec.branch]
    split
    · rename_i hq
      simp only [hq, if_true] at h hs
      exact ser_eq_spec d cfg ver e t v h hnm1 hid.1 hs pos
    · rename_i hq
      simp only [hq, Bool.false_eq_true, if_false] at h hs
      exact serB_eq_spec d cfg ver e r bid v h hnm2 hid.2 hs pos
theorem serF_eq_spec (d : Spec.Dialect) (cfg : Cfg) (ver : Ver) (e : Endian) : (ms : Ms) → (fs : List Val) →
    wfFs cfg ver ms fs = true → (noMutableMs ms = true ∨ d = Spec.Dialect.dust) → shortIdsMs ver false ms = true →
    maxSizeMs ms fs < 2 ^ 32 →
    ∀ pos, (serF cfg ver e ms fs pos).1 = Spec.fmembers d ver e ms fs pos
  | .nil, [], _, _, _, _, pos => by simp [serF, Spec.fmembers]
  | .cons id opt mu t r, f :: fs, h, hnm, hid, hs, pos => by
    simp only [wfFs, Bool.and_eq_true] at h
    obtain ⟨hm, hr⟩ := h
    have hnm1 : noMutable t = true ∨ d = Spec.Dialect.dust :=
      hnm.imp (fun h => by simp only [noMutableMs, Bool.and_eq_true] at h; exact h.1) (fun x => x)
    have hnm2 : noMutableMs r = true ∨ d = Spec.Dialect.dust :=
      hnm.imp (fun h => by simp only [noMutableMs, Bool.and_eq_true] at h; exact h.2) (fun x => x)
    simp only [shortIdsMs, Bool.and_eq_true, Bool.or_false] at hid
    obtain ⟨⟨hid1, hid2⟩, hid3⟩ := hid
    simp only [maxSizeMs] at hs
    have heq : f ≠ .absent → ∀ p, (ser cfg ver e t f p).1 = Spec.ser d ver e t f p := by
      intro hf
      have hw : wfVal cfg ver t f = true := by cases f <;> simp_all
      exact ser_eq_spec d cfg ver e t f hw hnm1 hid2 (by omega)
    have hmem := wFMember_eq d cfg ver e id opt mu t f hm hid1 heq pos
    have hfacts : (wFMember cfg ver e id opt mu f (ser cfg ver e t) pos).2 =
        pos + (wFMember cfg ver e id opt mu f (ser cfg ver e t) pos).1.length := by
      have := (serFFacts cfg ver e (.cons id opt mu t .nil) [f] (by simp [wfFs, hm]) pos).2.2
      simpa [serF] using this
    have ih := serF_eq_spec d cfg ver e r fs hr hnm2 hid3 (by omega)
    simp only [serF, Spec.fmembers]
    rw [ih, hfacts, hmem]
  | .nil, _ :: _, h, _, _, _, _ => by simp [wfFs] at h
  | .cons _ _ _ _ _, [], h, _, _, _, _ => by simp [wfFs] at h
/-- the present members of a mutable structure: model entries and specification members correspond -/
theorem present_rel (d : Spec.Dialect) (cfg : Cfg) (ver : Ver) (e : Endian) : (ms : Ms) → (fs : List Val) →
    wfM cfg ver ms fs = true → (noMutableMs ms = true ∨ d = Spec.Dialect.dust) → shortIdsMs ver true ms = true →
    maxSizeMs ms fs < 2 ^ 32 → RelL (chunks cfg ver e ms fs) (Spec.present d ver e ms fs)
  | .nil, [], _, _, _, _ => by simp only [chunks, Spec.present]; exact .nil
  | .cons id opt mu t r, f :: fs, h, hnm, hid, hs => by
    simp only [wfM, Bool.and_eq_true] at h
    obtain ⟨hm, hr⟩ := h
    have hnm1 : noMutable t = true ∨ d = Spec.Dialect.dust :=
      hnm.imp (fun h => by simp only [noMutableMs, Bool.and_eq_true] at h; exact h.1) (fun x => x)
    have hnm2 : noMutableMs r = true ∨ d = Spec.Dialect.dust :=
      hnm.imp (fun h => by simp only [noMutableMs, Bool.and_eq_true] at h; exact h.2) (fun x => x)
    simp only [shortIdsMs, Bool.and_eq_true] at hid
    obtain ⟨⟨_, hid2⟩, hid3⟩ := hid
    simp only [maxSizeMs] at hs
    have ih := present_rel d cfg ver e r fs hr hnm2 hid3 (by omega)
    cases f with
    | absent => simp only [chunks, Spec.present]; exact ih
    | num n =>
      simp only [Bool.and_eq_true] at hm
      simp only [chunks, Spec.present]
      exact .cons ⟨rfl, rfl, rfl, ser_eq_spec d cfg ver e t _ hm.1 hnm1 hid2 (by omega)⟩ ih
    | str b =>
      simp only [Bool.and_eq_true] at hm
      simp only [chunks, Spec.present]
      exact .cons ⟨rfl, rfl, rfl, ser_eq_spec d cfg ver e t _ hm.1 hnm1 hid2 (by omega)⟩ ih
    | list l =>
      simp only [Bool.and_eq_true] at hm
      simp only [chunks, Spec.present]
      exact .cons ⟨rfl, rfl, rfl, ser_eq_spec d cfg ver e t _ hm.1 hnm1 hid2 (by omega)⟩ ih
    | struct l =>
      simp only [Bool.and_eq_true] at hm
      simp only [chunks, Spec.present]
      exact .cons ⟨rfl, rfl, rfl, ser_eq_spec d cfg ver e t _ hm.1 hnm1 hid2 (by omega)⟩ ih
  | .nil, _ :: _, h, _, _, _ => by simp [wfM] at h
  | .cons _ _ _ _ _, [], h, _, _, _ => by simp [wfM] at h
end

end DustVerif.Xcdr
