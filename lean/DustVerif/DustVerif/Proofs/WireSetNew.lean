import DustVerif.Proofs.WireBitmap
/-! What the constructors `SequenceNumberSet::new` / `FragmentNumberSet::new` build from an arbitrary member
    list (any order, duplicates allowed) within `base .. base + 255`: a well-formed set whose bits are exactly
    the members (C08: "any set contents"). -/
namespace DustVerif.Wire
open Outcome

theorem fnsetNewLoop_spec (base : Nat) (set : List Nat) (nb : Nat) (bm : List Nat)
    (hl : bm.length = 8) (hw : ∀ w ∈ bm, w < 4294967296) (hs : ∀ x ∈ set, base ≤ x ∧ x < base + 256) :
    ∃ nb' bm', fnsetNewLoop base set nb bm = ok (nb', bm') ∧ bm'.length = 8 ∧ (∀ w ∈ bm', w < 4294967296) ∧
      (∀ d, d < 256 → getBit bm' d = (getBit bm d || decide (base + d ∈ set))) ∧
      nb ≤ nb' ∧ (∀ x ∈ set, x - base < nb') ∧ (nb' = nb ∨ ∃ x ∈ set, nb' = x - base + 1) := by
  induction set generalizing nb bm with
  | nil =>
    exact ⟨nb, bm, by simp [fnsetNewLoop], hl, hw, by simp, by omega, by simp, Or.inl rfl⟩
  | cons x rest ih =>
    have hx := hs x (by simp)
    have h1 : ¬ x < base := by omega
    have h2 : ¬ (x - base) / 32 ≥ 8 := by omega
    have key : ∀ d : Nat, (x - base = d ↔ base + d = x) := by intro d; omega
    obtain ⟨nb', bm', he, hl', hw', hb, hn, hm, hor⟩ :=
      ih (if x - base + 1 > nb then x - base + 1 else nb) (setBit bm (x - base))
        (by simp [length_setBit, hl]) (setBit_lt bm (x - base) hw) (fun y hy => hs y (by simp [hy]))
    refine ⟨nb', bm', ?_, hl', hw', ?_, ?_, ?_, ?_⟩
    · simp only [fnsetNewLoop, h1, h2, if_false]
      exact he
    · intro d hd
      rw [hb d hd, getBit_setBit bm (x - base) d hl (by omega)]
      by_cases hxd : x - base = d
      · have : base + d = x := (key d).mp hxd
        simp [hxd, this]
      · have : ¬ base + d = x := fun h => hxd ((key d).mpr h)
        simp [hxd, this]
    · clear hor; split at hn <;> omega
    · clear hor
      intro y hy
      simp at hy
      rcases hy with hy | hy
      · subst hy
        split at hn <;> omega
      · exact hm y hy
    · rcases hor with hor | ⟨y, hy, hor⟩
      · by_cases hgt : x - base + 1 > nb
        · simp only [hgt, if_true] at hor
          exact Or.inr ⟨x, by simp, hor⟩
        · simp only [hgt, if_false] at hor
          exact Or.inl hor
      · exact Or.inr ⟨y, by simp [hy], hor⟩

/-- `FragmentNumberSet::new(base, set)` for any members within `base ..= base + 255` (and ≤ `u32::MAX`):
    no panic, the result is well-formed and its bits are exactly the members -/
theorem fnsetNew_wf (base : Nat) (set : List Nat) (hb : base < 4294967296)
    (hs : ∀ x ∈ set, base ≤ x ∧ x < base + 256 ∧ x < 4294967296) :
    ∃ s, fnsetNew base set = ok s ∧ s.WF ∧ s.base = base ∧
      ∀ d, d < 256 → getBit s.bitmap d = decide (base + d ∈ set) := by
  obtain ⟨nb', bm', he, hl, hw, hbits, _, hm, hor⟩ :=
    fnsetNewLoop_spec base set 0 zeroBitmap (by simp [zeroBitmap])
      (by intro w hw; simp [zeroBitmap] at hw; omega) (fun x hx => ⟨(hs x hx).1, (hs x hx).2.1⟩)
  have hbits' : ∀ d, d < 256 → getBit bm' d = decide (base + d ∈ set) := by
    intro d hd
    rw [hbits d hd, getBit_zero]
    simp
  refine ⟨{ base := base, numBits := nb', bitmap := bm' }, by simp [fnsetNew, he], ?_, rfl, hbits'⟩
  have hnb : nb' ≤ 256 ∧ base + nb' ≤ 4294967296 ∧ (0 < nb' → getBit bm' (nb' - 1) = true) := by
    rcases hor with h0 | ⟨x, hx, hnx⟩
    · subst h0; omega
    · have := hs x hx
      refine ⟨by omega, by omega, fun _ => ?_⟩
      rw [hbits' (nb' - 1) (by omega)]
      have : base + (nb' - 1) = x := by omega
      simp [this, hx]
  refine ⟨hb, hnb.1, hnb.2.1, hl, hw, ?_, hnb.2.2⟩
  clear hor hnb
  intro d hd hge
  simp only at hge
  rw [hbits' d hd]
  simp
  intro hmem
  have := hm _ hmem
  omega

theorem snsetNewLoop_spec (base : Int) (set : List Int) (nb : Nat) (bm : List Nat)
    (hl : bm.length = 8) (hw : ∀ w ∈ bm, w < 4294967296) (hs : ∀ x ∈ set, base ≤ x ∧ x < base + 256) :
    ∃ nb' bm', snsetNewLoop base set nb bm = ok (nb', bm') ∧ bm'.length = 8 ∧ (∀ w ∈ bm', w < 4294967296) ∧
      (∀ d : Nat, d < 256 → getBit bm' d = (getBit bm d || decide (base + (d : Int) ∈ set))) ∧
      nb ≤ nb' ∧ (∀ x ∈ set, (x - base).toNat < nb') ∧ (nb ≤ 256 → nb' ≤ 256) ∧
      (nb' = nb ∨ ∃ x ∈ set, nb' = (x - base).toNat + 1) := by
  induction set generalizing nb bm with
  | nil =>
    exact ⟨nb, bm, by simp [snsetNewLoop], hl, hw, by simp, by omega, by simp, fun h => h, Or.inl rfl⟩
  | cons x rest ih =>
    have hx := hs x (by simp)
    have h1 : ¬ (x - base < -9223372036854775808 ∨ x - base ≥ 9223372036854775808) := by omega
    have hd : ((x - base) % 4294967296).toNat = (x - base).toNat := by omega
    have h2 : ¬ (x - base).toNat / 32 ≥ 8 := by omega
    have key : ∀ d : Nat, ((x - base).toNat = d ↔ base + (d : Int) = x) := by intro d; omega
    obtain ⟨nb', bm', he, hl', hw', hb, hn, hm, h256, hor⟩ :=
      ih (if (x - base).toNat + 1 > nb then (x - base).toNat + 1 else nb) (setBit bm (x - base).toNat)
        (by simp [length_setBit, hl]) (setBit_lt bm _ hw) (fun y hy => hs y (by simp [hy]))
    refine ⟨nb', bm', ?_, hl', hw', ?_, ?_, ?_, ?_, ?_⟩
    · simp only [snsetNewLoop, h1, hd, h2, if_false]
      exact he
    · intro d hdd
      rw [hb d hdd, getBit_setBit bm _ d hl (by omega)]
      by_cases hxd : (x - base).toNat = d
      · have : base + (d : Int) = x := (key d).mp hxd
        simp [hxd, this]
      · have : ¬ base + (d : Int) = x := fun h => hxd ((key d).mpr h)
        simp [hxd, this]
    · clear hor; split at hn <;> omega
    · clear hor
      intro y hy
      simp at hy
      rcases hy with hy | hy
      · subst hy
        split at hn <;> omega
      · exact hm y hy
    · clear hor
      intro h
      apply h256
      split <;> omega
    · rcases hor with hor | ⟨y, hy, hor⟩
      · by_cases hgt : (x - base).toNat + 1 > nb
        · simp only [hgt, if_true] at hor
          exact Or.inr ⟨x, by simp, hor⟩
        · simp only [hgt, if_false] at hor
          exact Or.inl hor
      · exact Or.inr ⟨y, by simp [hy], hor⟩

/-- `SequenceNumberSet::new(base, set)` for any members within `base ..= base + 255`: no panic, the result is
    well-formed and its bits are exactly the members -/
theorem snsetNew_wf (base : Int) (set : List Int) (hb : isI64 base)
    (hs : ∀ x ∈ set, base ≤ x ∧ x < base + 256) (hi : ∀ x ∈ set, isI64 x) :
    ∃ s, snsetNew base set = ok s ∧ s.WF ∧ s.base = base ∧
      ∀ d : Nat, d < 256 → getBit s.bitmap d = decide (base + (d : Int) ∈ set) := by
  obtain ⟨nb', bm', he, hl, hw, hbits, _, hm, h256, hor⟩ :=
    snsetNewLoop_spec base set 0 zeroBitmap (by simp [zeroBitmap])
      (by intro w hw; simp [zeroBitmap] at hw; omega) hs
  have hbits' : ∀ d : Nat, d < 256 → getBit bm' d = decide (base + (d : Int) ∈ set) := by
    intro d hd
    rw [hbits d hd, getBit_zero]
    simp
  have hov : 0 < nb' → base + ((nb' : Int) - 1) ≤ 9223372036854775807 := by
    intro hpos
    rcases hor with h0 | ⟨x, hx, hnx⟩
    · omega
    · have h1 := hs x hx
      have h2 := (hi x hx).2
      omega
  clear hor
  refine ⟨{ base := base, numBits := nb', bitmap := bm' }, by simp [snsetNew, he], ?_, rfl, hbits'⟩
  refine ⟨hb, h256 (by omega), hl, hw, ?_, hov⟩
  apply drop_zero_of_bits bm' nb' hl hw
  intro d hd hge
  rw [hbits' d hd]
  simp
  intro hmem
  have := hm _ hmem
  omega


/-! ### the accessors `set()` return exactly the bits below `numBits` -/
theorem snsetMembersTo_spec (s : SNSet) (k : Nat) (hk : k ≤ 256) (ho : s.base + 255 < 9223372036854775808) :
    ∃ l, snsetMembersTo s k = ok l ∧
      ∀ x, x ∈ l ↔ ∃ d : Nat, d < k ∧ getBit s.bitmap d = true ∧ x = s.base + (d : Int) := by
  induction k with
  | zero => exact ⟨[], by simp [snsetMembersTo], by simp⟩
  | succ k ih =>
    obtain ⟨l, he, hm⟩ := ih (by omega)
    have h1 : ¬ k / 32 ≥ 8 := by omega
    have h2 : ¬ s.base + (k : Int) ≥ 9223372036854775808 := by omega
    by_cases hb : getBit s.bitmap k = true
    · refine ⟨l ++ [s.base + (k : Int)], by simp [snsetMembersTo, he, h1, h2, hb], ?_⟩
      intro x
      simp only [List.mem_append, List.mem_singleton, hm x]
      constructor
      · rintro (⟨d, hd, hbd, hx⟩ | hx)
        · exact ⟨d, by omega, hbd, hx⟩
        · exact ⟨k, by omega, hb, hx⟩
      · rintro ⟨d, hd, hbd, hx⟩
        by_cases hdk : d = k
        · subst hdk; exact Or.inr hx
        · exact Or.inl ⟨d, by omega, hbd, hx⟩
    · refine ⟨l, by simp [snsetMembersTo, he, h1, hb], ?_⟩
      intro x
      rw [hm x]
      constructor
      · rintro ⟨d, hd, hbd, hx⟩
        exact ⟨d, by omega, hbd, hx⟩
      · rintro ⟨d, hd, hbd, hx⟩
        by_cases hdk : d = k
        · subst hdk; exact absurd hbd hb
        · exact ⟨d, by omega, hbd, hx⟩

theorem fnsetMembersTo_spec (s : FNSet) (k : Nat) (hk : k ≤ 256) (ho : s.base + k ≤ 4294967296) :
    ∃ l, fnsetMembersTo s k = ok l ∧
      ∀ x, x ∈ l ↔ ∃ d : Nat, d < k ∧ getBit s.bitmap d = true ∧ x = s.base + d := by
  induction k with
  | zero => exact ⟨[], by simp [fnsetMembersTo], by simp⟩
  | succ k ih =>
    obtain ⟨l, he, hm⟩ := ih (by omega) (by omega)
    have h1 : ¬ k / 32 ≥ 8 := by omega
    have h2 : ¬ s.base + k ≥ P32 := by unfold P32; omega
    by_cases hb : getBit s.bitmap k = true
    · refine ⟨l ++ [s.base + k], by simp [fnsetMembersTo, he, h1, h2, hb], ?_⟩
      intro x
      simp only [List.mem_append, List.mem_singleton, hm x]
      constructor
      · rintro (⟨d, hd, hbd, hx⟩ | hx)
        · exact ⟨d, by omega, hbd, hx⟩
        · exact ⟨k, by omega, hb, hx⟩
      · rintro ⟨d, hd, hbd, hx⟩
        by_cases hdk : d = k
        · subst hdk; exact Or.inr hx
        · exact Or.inl ⟨d, by omega, hbd, hx⟩
    · refine ⟨l, by simp [fnsetMembersTo, he, h1, hb], ?_⟩
      intro x
      rw [hm x]
      constructor
      · rintro ⟨d, hd, hbd, hx⟩
        exact ⟨d, by omega, hbd, hx⟩
      · rintro ⟨d, hd, hbd, hx⟩
        by_cases hdk : d = k
        · subst hdk; exact absurd hbd hb
        · exact ⟨d, by omega, hbd, hx⟩

/-- constructor then accessor: the members of `new(base, set)` are exactly `set` (as a set) -/
theorem snsetNew_members (base : Int) (set : List Int) (hb : isI64 base)
    (hs : ∀ x ∈ set, base ≤ x ∧ x < base + 256) (hi : ∀ x ∈ set, isI64 x)
    (ho : base + 255 < 9223372036854775808) :
    ∃ s l, snsetNew base set = ok s ∧ s.WF ∧ snsetMembers s = ok l ∧ ∀ x, x ∈ l ↔ x ∈ set := by
  obtain ⟨s, he, hwf, hbase, hbits⟩ := snsetNew_wf base set hb hs hi
  obtain ⟨_, hnb, hl, hw, hz, hov⟩ := hwf
  obtain ⟨l, hl', hm⟩ := snsetMembersTo_spec s s.numBits hnb (by rw [hbase]; exact ho)
  refine ⟨s, l, he, ⟨by rw [hbase]; exact hb, hnb, hl, hw, hz, hov⟩, hl', ?_⟩
  intro x
  rw [hm x]
  constructor
  · rintro ⟨d, hd, hbd, hx⟩
    rw [hbits d (by omega)] at hbd
    simp at hbd
    rw [hx, hbase]
    exact hbd
  · intro hx
    have hr := hs x hx
    have hd : (x - base).toNat < 256 := by omega
    have hbit := hbits (x - base).toNat hd
    have e : base + ((x - base).toNat : Int) = x := by omega
    rw [e] at hbit
    simp [hx] at hbit
    -- the bit is set, hence below numBits (words beyond M are zero and WF came from `new`)
    by_cases hlt : (x - base).toNat < s.numBits
    · exact ⟨(x - base).toNat, hlt, hbit, by rw [hbase]; omega⟩
    · exfalso
      -- bits at or beyond numBits are clear for sets built by `new`
      obtain ⟨nb', bm', he', _, _, hbits2, _, hm2, _, _⟩ :=
        snsetNewLoop_spec base set 0 zeroBitmap (by simp [zeroBitmap])
          (by intro w hw; simp [zeroBitmap] at hw; omega) hs
      have : s = { base := base, numBits := nb', bitmap := bm' } := by
        simp [snsetNew, he'] at he
        exact he.symm
      have hlt2 := hm2 x hx
      rw [this] at hlt
      simp at hlt
      omega


theorem fnsetNew_members (base : Nat) (set : List Nat) (hb : base < 4294967296)
    (hs : ∀ x ∈ set, base ≤ x ∧ x < base + 256 ∧ x < 4294967296) :
    ∃ s l, fnsetNew base set = ok s ∧ s.WF ∧ fnsetMembers s = ok l ∧ ∀ x, x ∈ l ↔ x ∈ set := by
  obtain ⟨s, he, hwf, hbase, hbits⟩ := fnsetNew_wf base set hb hs
  have hwf' := hwf
  obtain ⟨_, hnb, hov, hl, hw, hz, hlast⟩ := hwf
  obtain ⟨l, hl', hm⟩ := fnsetMembersTo_spec s s.numBits hnb hov
  refine ⟨s, l, he, hwf', hl', ?_⟩
  intro x
  rw [hm x]
  constructor
  · rintro ⟨d, hd, hbd, hx⟩
    rw [hbits d (by omega)] at hbd
    simp at hbd
    rw [hx, hbase]
    exact hbd
  · intro hx
    have hr := hs x hx
    have hd : x - base < 256 := by omega
    have hbit := hbits (x - base) hd
    have e : base + (x - base) = x := by omega
    rw [e] at hbit
    simp [hx] at hbit
    by_cases hlt : x - base < s.numBits
    · exact ⟨x - base, hlt, hbit, by rw [hbase]; omega⟩
    · have := hz (x - base) hd (by omega)
      rw [hbit] at this
      simp at this

end DustVerif.Wire
