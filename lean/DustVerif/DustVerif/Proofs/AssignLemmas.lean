import DustVerif.Model.Assign
import DustVerif.Proofs.KeyLemmas
import DustVerif.Proofs.XcdrMain
/-! Lemmas for C39: Boolean type equality, decoding a prefix / a longer member list of an appendable structure,
    the member look-up of a mutable structure written with another member list. -/
namespace DustVerif.Xcdr

/-! ### Boolean equality -/
mutual
theorem Ty.beq_eq : (a b : Ty) → Ty.beq a b = true → a = b
  | .prim p, .prim q, h => by simp [Ty.beq] at h; rw [h]
  | .str, .str, _ => rfl
  | .wstr, .wstr, _ => rfl
  | .enum h ls x, .enum h' ls' x', hh => by simp [Ty.beq] at hh; rw [hh.1.1, hh.1.2, hh.2]
  | .seq a, .seq b, h => by simp only [Ty.beq] at h; rw [Ty.beq_eq a b h]
  | .arr a n, .arr b m, h => by
    simp only [Ty.beq, Bool.and_eq_true, beq_iff_eq] at h; rw [h.1, Ty.beq_eq a b h.2]
  | .struct x ms, .struct y ns, h => by
    simp only [Ty.beq, Bool.and_eq_true, beq_iff_eq] at h; rw [h.1, Ms.beq_eq ms ns h.2]
  | .union a d bs, .union a' d' bs', h => by
    simp only [Ty.beq, Bool.and_eq_true, beq_iff_eq] at h; rw [h.1.1, h.1.2, Bs.beq_eq bs bs' h.2]
  | .prim _, .str, h | .prim _, .wstr, h | .prim _, .enum _ _ _, h | .prim _, .seq _, h | .prim _, .arr _ _, h | .prim _, .struct _ _, h | .prim _, .union _ _ _, h => by simp [Ty.beq] at h
  | .str, .prim _, h | .str, .wstr, h | .str, .enum _ _ _, h | .str, .seq _, h | .str, .arr _ _, h | .str, .struct _ _, h | .str, .union _ _ _, h => by simp [Ty.beq] at h
  | .wstr, .prim _, h | .wstr, .str, h | .wstr, .enum _ _ _, h | .wstr, .seq _, h | .wstr, .arr _ _, h | .wstr, .struct _ _, h | .wstr, .union _ _ _, h => by simp [Ty.beq] at h
  | .enum _ _ _, .prim _, h | .enum _ _ _, .str, h | .enum _ _ _, .wstr, h | .enum _ _ _, .seq _, h | .enum _ _ _, .arr _ _, h | .enum _ _ _, .struct _ _, h | .enum _ _ _, .union _ _ _, h => by simp [Ty.beq] at h
  | .seq _, .prim _, h | .seq _, .str, h | .seq _, .wstr, h | .seq _, .enum _ _ _, h | .seq _, .arr _ _, h | .seq _, .struct _ _, h | .seq _, .union _ _ _, h => by simp [Ty.beq] at h
  | .arr _ _, .prim _, h | .arr _ _, .str, h | .arr _ _, .wstr, h | .arr _ _, .enum _ _ _, h | .arr _ _, .seq _, h | .arr _ _, .struct _ _, h | .arr _ _, .union _ _ _, h => by simp [Ty.beq] at h
  | .struct _ _, .prim _, h | .struct _ _, .str, h | .struct _ _, .wstr, h | .struct _ _, .enum _ _ _, h | .struct _ _, .seq _, h | .struct _ _, .arr _ _, h | .struct _ _, .union _ _ _, h => by simp [Ty.beq] at h
  | .union _ _ _, .prim _, h | .union _ _ _, .str, h | .union _ _ _, .wstr, h | .union _ _ _, .enum _ _ _, h | .union _ _ _, .seq _, h | .union _ _ _, .arr _ _, h | .union _ _ _, .struct _ _, h => by simp [Ty.beq] at h
theorem Ms.beq_eq : (a b : Ms) → Ms.beq a b = true → a = b
  | .nil, .nil, _ => rfl
  | .cons i o m t r, .cons i' o' m' t' r', h => by
    simp only [Ms.beq, Bool.and_eq_true, beq_iff_eq] at h
    rw [h.1.1.1.1, h.1.1.1.2, h.1.1.2, Ty.beq_eq t t' h.1.2, Ms.beq_eq r r' h.2]
  | .nil, .cons _ _ _ _ _, h | .cons _ _ _ _ _, .nil, h => by simp [Ms.beq] at h
theorem Bs.beq_eq : (a b : Bs) → Bs.beq a b = true → a = b
  | .nil, .nil, _ => rfl
  | .cons i ls d t r, .cons i' ls' d' t' r', h => by
    simp only [Bs.beq, Bool.and_eq_true, beq_iff_eq] at h
    rw [h.1.1.1.1, h.1.1.1.2, h.1.1.2, Ty.beq_eq t t' h.1.2, Bs.beq_eq r r' h.2]
  | .nil, .cons _ _ _ _ _, h | .cons _ _ _ _ _, .nil, h => by simp [Bs.beq] at h
end

mutual
theorem Ty.beq_refl : (a : Ty) → Ty.beq a a = true
  | .prim _ => by simp [Ty.beq]
  | .str => by simp [Ty.beq]
  | .wstr => by simp [Ty.beq]
  | .enum _ _ _ => by simp [Ty.beq]
  | .seq a => by simp only [Ty.beq]; exact Ty.beq_refl a
  | .arr a n => by simp only [Ty.beq, beq_self_eq_true, Bool.true_and]; exact Ty.beq_refl a
  | .struct x ms => by simp only [Ty.beq, beq_self_eq_true, Bool.true_and]; exact Ms.beq_refl ms
  | .union a d bs => by simp only [Ty.beq, beq_self_eq_true, Bool.true_and]; exact Bs.beq_refl bs
theorem Ms.beq_refl : (a : Ms) → Ms.beq a a = true
  | .nil => by simp [Ms.beq]
  | .cons i o m t r => by
    simp only [Ms.beq, beq_self_eq_true, Bool.true_and, Bool.and_eq_true]
    exact ⟨Ty.beq_refl t, Ms.beq_refl r⟩
theorem Bs.beq_refl : (a : Bs) → Bs.beq a a = true
  | .nil => by simp [Bs.beq]
  | .cons i ls d t r => by
    simp only [Bs.beq, beq_self_eq_true, Bool.true_and, Bool.and_eq_true]
    exact ⟨Ty.beq_refl t, Bs.beq_refl r⟩
end

mutual
theorem KTy.beq_refl : (a : KTy) → KTy.beq a a = true
  | .prim _ => by simp [KTy.beq]
  | .str => by simp [KTy.beq]
  | .wstr => by simp [KTy.beq]
  | .enum _ _ _ => by simp [KTy.beq]
  | .seq a => by simp only [KTy.beq]; exact KTy.beq_refl a
  | .arr a n => by simp only [KTy.beq, beq_self_eq_true, Bool.true_and]; exact KTy.beq_refl a
  | .struct x ms => by simp only [KTy.beq, beq_self_eq_true, Bool.true_and]; exact KMs.beq_refl ms
  | .union a d bs => by simp only [KTy.beq, beq_self_eq_true, Bool.true_and]; exact Bs.beq_refl bs
theorem KMs.beq_refl : (a : KMs) → KMs.beq a a = true
  | .nil => by simp [KMs.beq]
  | .cons i o m k t r => by
    simp only [KMs.beq, beq_self_eq_true, Bool.true_and, Bool.and_eq_true]
    exact ⟨KTy.beq_refl t, KMs.beq_refl r⟩
end

/-! ### appendable structures: the reader's member list is a prefix of the writer's, or the other way round -/
theorem deF_prefix (cfg : Cfg) (ver : Ver) (e : Endian) : (msr msw : Ms) → (fs : List Val) → msr.isPrefix msw = true →
    wfFs cfg ver msw fs = true → maxSizeMs msw fs < 2 ^ 32 → ∀ (app : Bool) (pos : Nat) (rest : Bytes),
    ∃ s', deF cfg ver e app msr ⟨(serF cfg ver e msw fs pos).1 ++ rest, pos⟩ = .ok (fs.take msr.length) s'
  | .nil, msw, fs, _, _, _ => by
    intro app pos rest
    refine ⟨⟨(serF cfg ver e msw fs pos).1 ++ rest, pos⟩, ?_⟩
    simp [deF, Ms.length]
  | .cons i o m t r, .cons i' o' m' t' w, f :: fs, hp, h, hs => by
    intro app pos rest
    simp only [Ms.isPrefix, Bool.and_eq_true, beq_iff_eq] at hp
    obtain ⟨⟨⟨⟨hi, ho⟩, hm⟩, ht⟩, hr⟩ := hp
    have ht := Ty.beq_eq t t' ht
    subst hi; subst ho; subst hm; subst ht
    simp only [wfFs, Bool.and_eq_true] at h
    obtain ⟨hm', hr'⟩ := h
    simp only [maxSizeMs] at hs
    have hrt : f ≠ .absent → RT cfg ver e t f := by
      intro hf
      have hw : wfVal cfg ver t f = true := by cases f <;> simp_all
      exact rt cfg ver e t f hw (by omega)
    have hmem := dFMember_wFMember cfg ver e i o m t f hm' hrt pos
    obtain ⟨s', ih⟩ := deF_prefix cfg ver e r w fs hr hr' (by omega) app
      (wFMember cfg ver e i o m f (ser cfg ver e t) pos).2 rest
    refine ⟨s', ?_⟩
    simp only [deF, serF, List.append_assoc, hmem, ih, Res.bind, Ms.length, List.take_succ_cons]
  | .cons _ _ _ _ _, .cons _ _ _ _ _, [], _, h, _ => by simp [wfFs] at h
  | .cons _ _ _ _ _, .nil, _, hp, _, _ => by simp [Ms.isPrefix] at hp

theorem dPrim_short (ver : Ver) (e : Endian) (p : Prim) (s : St) (h : s.rem.length < p.size) :
    ∃ s', dPrim ver e p s = .err .notEnoughData s' := by
  simp only [dPrim, rAlign, rSeek]
  split
  · simp only [Res.bind, rBytes, List.length_drop]
    have hn : ¬ p.size ≤ s.rem.length - padTo (ver.readAlign p.size) s.pos := by omega
    simp only [hn, if_false]
    exact ⟨_, rfl⟩
  · exact ⟨_, rfl⟩

/-- with fewer than four bytes left a value of a `needs4` type is not there -/
theorem de_needs4 (cfg : Cfg) (ver : Ver) (e : Endian) (t : Ty) (ht : needs4 t = true) (s : St) (h : s.rem.length < 4) :
    ∃ s', de cfg ver e t s = .err .notEnoughData s' := by
  have hu : ∃ s', dPrim ver e .u32 s = .err .notEnoughData s' := dPrim_short ver e .u32 s (by simpa [Prim.size] using h)
  cases t with
  | wstr =>
    obtain ⟨s', hs⟩ := hu
    exact ⟨s', by simp only [de, dWStr, hs, Res.bind]⟩
  | prim p =>
    simp only [needs4, decide_eq_true_eq] at ht
    obtain ⟨s', hs⟩ := dPrim_short ver e p s (by omega)
    exact ⟨s', by simp only [de, hs, Res.map]⟩
  | str =>
    obtain ⟨s', hs⟩ := hu
    exact ⟨s', by simp only [de, dStr, hs, Res.bind]⟩
  | seq el =>
    obtain ⟨s', hs⟩ := hu
    refine ⟨s', ?_⟩
    simp only [de]
    split <;> simp only [dSeqBody, dSeqLen, hs, Res.bind]
  | enum _ _ _ => simp [needs4] at ht
  | arr _ _ => simp [needs4] at ht
  | struct _ _ => simp [needs4] at ht
  | union _ _ _ => simp [needs4] at ht

theorem deF_readerLonger (cfg : Cfg) (ver : Ver) (e : Endian) : (msr msw : Ms) → (fs : List Val) →
    msr.readerLonger msw = true → wfFs cfg ver msw fs = true → maxSizeMs msw fs < 2 ^ 32 →
    ∀ (pos : Nat) (rest : Bytes), rest.length < 4 →
    ∃ s', deF cfg ver e true msr ⟨(serF cfg ver e msw fs pos).1 ++ rest, pos⟩ =
      .ok (fs ++ absents (msr.length - fs.length)) s'
  | .cons i o m t r, .cons i' o' m' t' w, f :: fs, hp, h, hs => by
    intro pos rest hrest
    simp only [Ms.readerLonger, Bool.and_eq_true, beq_iff_eq] at hp
    obtain ⟨⟨⟨⟨hi, ho⟩, hm⟩, ht⟩, hr⟩ := hp
    have ht := Ty.beq_eq t t' ht
    subst hi; subst ho; subst hm; subst ht
    simp only [wfFs, Bool.and_eq_true] at h
    obtain ⟨hm', hr'⟩ := h
    simp only [maxSizeMs] at hs
    have hrt : f ≠ .absent → RT cfg ver e t f := by
      intro hf
      have hw : wfVal cfg ver t f = true := by cases f <;> simp_all
      exact rt cfg ver e t f hw (by omega)
    have hmem := dFMember_wFMember cfg ver e i o m t f hm' hrt pos
    obtain ⟨s', ih⟩ := deF_readerLonger cfg ver e r w fs hr hr' (by omega)
      (wFMember cfg ver e i o m f (ser cfg ver e t) pos).2 rest hrest
    refine ⟨s', ?_⟩
    have hl : (Ms.cons i o m t r).length - (f :: fs).length = r.length - fs.length := by
      simp only [Ms.length, List.length_cons]; omega
    simp only [deF, serF, List.append_assoc, hmem, ih, Res.bind, hl, List.cons_append]
  | .nil, .nil, [], _, _, _ => by
    intro pos rest _
    refine ⟨⟨rest, pos⟩, ?_⟩
    simp [deF, serF, Ms.length, absents]
  | .cons i o m t r, .nil, [], hp, _, _ => by
    intro pos rest hrest
    simp only [Ms.readerLonger, Bool.and_eq_true, Bool.not_eq_true'] at hp
    obtain ⟨⟨ho, h4⟩, _⟩ := hp
    subst ho
    obtain ⟨s', hs⟩ := de_needs4 cfg ver e t h4 ⟨rest, pos⟩ hrest
    refine ⟨s', ?_⟩
    simp only [deF, serF, List.nil_append, dFMember, Bool.false_eq_true, if_false, hs, Bool.true_and, beq_self_eq_true,
      if_true, Ms.length, List.length_nil, Nat.sub_zero]
  | .nil, .nil, _ :: _, _, h, _ => by simp [wfFs] at h
  | .cons _ _ _ _ _, .nil, _ :: _, _, h, _ => by simp [wfFs] at h
  | .cons _ _ _ _ _, .cons _ _ _ _ _, [], _, h, _ => by simp [wfFs] at h
  | .nil, .cons _ _ _ _ _, _, hp, _, _ => by simp [Ms.readerLonger] at hp

/-! ### XCDR2: a member the writer did not send is searched for up to the end of the input -/
theorem seek2_short (cfg : Cfg) (e : Endian) : ∀ (fuel tgt : Nat) (s : St), s.rem.length < 4 →
    ∃ er s', seekPid2 cfg e fuel tgt s = .err er s'
  | 0, _, s, _ => ⟨_, s, by rw [seekPid2]⟩
  | fuel + 1, tgt, s, h => by
    obtain ⟨s', hs⟩ := dPrim_short .v2 e .u32 s (by simpa [Prim.size] using h)
    exact ⟨_, s', by rw [seekPid2_succ, hs]; rfl⟩

theorem seek2_skip_last (cfg : Cfg) (e : Endian) (fuel tgt : Nat) (c : Chunk) (rest : Bytes)
    (hc : K2 e c) (hne : c.id % 2 ^ 16 ≠ tgt) (p : Nat) (hp : p % 4 = 0) :
    ∃ q, seekPid2 cfg e (fuel + 1) tgt ⟨(emit2 e [c] p).1 ++ rest, p⟩ =
      (rAlign .v2 4 ⟨rest, q⟩).bind fun _ s4 => seekPid2 cfg e fuel tgt s4 := by
  have h0 := wPad4_v2_aligned p hp
  obtain ⟨L, X, dd, hl, hX, hdL, _, _⟩ := lcLen_chunk cfg e c hc
    ((emit2 e [] (p + 4 + (nextInt e c).length + (c.enc 0).1.length)).1 ++ rest) (p + 4) (by omega)
  refine ⟨p + 4 + (nextInt e c).length + (c.enc 0).1.length, ?_⟩
  simp only [emit2_cons e c hc.1, h0, zeros, List.replicate_zero, List.nil_append, Nat.add_zero, List.append_assoc]
  rw [seekPid2_succ, dU32_aligned e _ p _ hp (em2_lt c), Res.bind_ok, em2_lc, em2_pid, hl, Res.bind_ok]
  have hne' : (c.id % 2 ^ 16 == tgt) = false := beq_eq_false_iff_ne.mpr hne
  rw [hne']
  simp only [Bool.false_eq_true, if_false]
  rw [← hX, rSeek_app, Res.bind_ok]
  have hpos : p + 4 + (nextInt e c).length + dd + X.length = p + 4 + (nextInt e c).length + (c.enc 0).1.length := by
    omega
  simp only [emit2, List.nil_append, hpos]

theorem seek2_end (cfg : Cfg) (e : Endian) (tgt : Nat) (rest : Bytes) (hr : rest.length < 4) :
    ∀ (cs : List Chunk) (fuel : Nat), (∀ d ∈ cs, K2 e d ∧ d.id % 2 ^ 16 ≠ tgt) →
    ∀ p, p % 4 = 0 → ∃ er s', seekPid2 cfg e fuel tgt ⟨(emit2 e cs p).1 ++ rest, p⟩ = .err er s'
  | [], fuel, _, p, _ => by
    simpa [emit2] using seek2_short cfg e fuel tgt ⟨rest, p⟩ hr
  | [c], fuel, h, p, hp => by
    cases fuel with
    | zero => exact ⟨_, _, by rw [seekPid2]⟩
    | succ fuel =>
      obtain ⟨q, hs⟩ := seek2_skip_last cfg e fuel tgt c rest (h c (by simp)).1 (h c (by simp)).2 p hp
      rw [hs]
      simp only [rAlign, rSeek]
      split
      · simp only [Res.bind]
        exact seek2_short cfg e fuel tgt _ (by simp only [List.length_drop]; omega)
      · exact ⟨_, _, rfl⟩
  | c :: d :: cs, fuel, h, p, hp => by
    cases fuel with
    | zero => exact ⟨_, _, by rw [seekPid2]⟩
    | succ fuel =>
      obtain ⟨p', hp', hs⟩ := seek2_skip cfg e fuel tgt c d cs rest (h c (by simp)).1 (h d (by simp)).1.1
        (h c (by simp)).2 p hp
      rw [hs]
      exact seek2_end cfg e tgt rest hr (d :: cs) fuel (fun x hx => h x (by simp [hx])) p' hp'

/-- XCDR2 `deserialize_mmember` for a member that is not in the list and fewer than four bytes behind the list -/
theorem dMem2_absent (cfg : Cfg) (e : Endian) (cs : List Chunk) (id : Nat)
    (hK : ∀ d ∈ cs, K2 e d ∧ d.id % 2 ^ 16 ≠ id % 2 ^ 16) (g : St → Res Val)
    (p : Nat) (hp : p % 4 = 0) (rest : Bytes) (hr : rest.length < 4) :
    dMem2 cfg e g id ⟨(emit2 e cs p).1 ++ rest, p⟩ = .ok .absent ⟨(emit2 e cs p).1 ++ rest, p⟩ := by
  obtain ⟨er, s', hs⟩ := seek2_end cfg e (id % 2 ^ 16) rest hr cs (((emit2 e cs p).1 ++ rest).length + 1) hK p hp
  simp only [dMem2, rAlign2_aligned p hp, Res.bind, hs]

/-! ### mutable structures: the reader's member list against the writer's parameter list -/
/-- what the look-up of one reader member (id, mu, t) finds in the writer's members -/
theorem lookup_spec (cfg : Cfg) (ver : Ver) (e : Endian) (id : Nat) (mu : Bool) (t : Ty) :
    (msw : Ms) → (fsw : List Val) → compat1 id mu t msw = true → msw.lowIds.Nodup → wfM cfg ver msw fsw = true →
    (lookupM id msw fsw = .absent → ∀ c ∈ chunks cfg ver e msw fsw, c.id % 2 ^ 16 ≠ id % 2 ^ 16) ∧
    (lookupM id msw fsw ≠ .absent →
      (⟨id, mu, t.lc5, ser cfg ver e t (lookupM id msw fsw)⟩ : Chunk) ∈ chunks cfg ver e msw fsw ∧
      wfM cfg ver (.cons id false mu t .nil) [lookupM id msw fsw] = true)
  | .nil, [], _, _, _ => by simp [lookupM, chunks]
  | .cons id' o' mu' t' r, f :: fs, hc, hnd, hwf => by
    simp only [compat1, Bool.and_eq_true] at hc
    simp only [Ms.lowIds, List.nodup_cons] at hnd
    simp only [wfM, Bool.and_eq_true] at hwf
    have ih := lookup_spec cfg ver e id mu t r fs hc.2 hnd.2 hwf.2
    by_cases hid : id' = id
    · subst hid
      have hh := hc.1
      simp only [beq_self_eq_true, if_true, Bool.and_eq_true, beq_iff_eq, true_and] at hh
      obtain ⟨hmu, ht⟩ := hh
      have ht := Ty.beq_eq _ _ ht
      subst hmu; subst ht
      have hl : lookupM id' (.cons id' o' mu' t' r) (f :: fs) = f := by simp [lookupM]
      rw [hl]
      constructor
      · intro hf
        subst hf
        intro c hc' heq
        simp only [chunks] at hc'
        exact hnd.1 (heq ▸ chunks_lowIds cfg ver e r fs c hc')
      · intro hf
        constructor
        · cases f <;> first | exact absurd rfl hf | simp [chunks]
        · have h1 := hwf.1
          cases f <;> first | exact absurd rfl hf | (simp only [wfM, Bool.and_true]; exact h1)
    · have hl : lookupM id (.cons id' o' mu' t' r) (f :: fs) = lookupM id r fs := by simp [lookupM, hid]
      rw [hl]
      have hlow : id' % 2 ^ 16 ≠ id % 2 ^ 16 := by
        intro heq
        have hh := hc.1
        simp only [heq, beq_self_eq_true, if_true, Bool.and_eq_true, beq_iff_eq] at hh
        exact hid hh.1.1
      constructor
      · intro hf c hc'
        cases f with
        | absent => simp only [chunks] at hc'; exact ih.1 hf c hc'
        | num n =>
          simp only [chunks, List.mem_cons] at hc'
          rcases hc' with rfl | h
          · exact hlow
          · exact ih.1 hf c h
        | str n =>
          simp only [chunks, List.mem_cons] at hc'
          rcases hc' with rfl | h
          · exact hlow
          · exact ih.1 hf c h
        | list n =>
          simp only [chunks, List.mem_cons] at hc'
          rcases hc' with rfl | h
          · exact hlow
          · exact ih.1 hf c h
        | struct n =>
          simp only [chunks, List.mem_cons] at hc'
          rcases hc' with rfl | h
          · exact hlow
          · exact ih.1 hf c h
      · intro hf
        obtain ⟨h1, h2⟩ := ih.2 hf
        refine ⟨?_, h2⟩
        cases f <;> simp [chunks, h1]
  | .nil, _ :: _, _, _, h => by simp [wfM] at h
  | .cons _ _ _ _ _, [], _, _, h => by simp [wfM] at h

/-- every present member satisfies the member condition of `wfM`; members may be without value -/
def wfMp (cfg : Cfg) (ver : Ver) : Ms → List Val → Prop
  | .cons id _ mu t r, f :: fs => (f ≠ .absent → wfM cfg ver (.cons id false mu t .nil) [f] = true) ∧ wfMp cfg ver r fs
  | .nil, [] => True
  | _, _ => False

theorem wfMp_v1 (cfg : Cfg) : (ms : Ms) → (fs : List Val) → wfMp cfg .v1 ms fs → wfM cfg .v1 ms fs = true
  | .nil, [], _ => by simp [wfM]
  | .cons id o mu t r, f :: fs, h => by
    simp only [wfMp] at h
    have ih := wfMp_v1 cfg r fs h.2
    by_cases hf : f = .absent
    · subst hf; simp [wfM, ih]
    · have h1 := h.1 hf
      simp only [wfM, Bool.and_true] at h1
      simp only [wfM]
      rw [Bool.and_eq_true]
      exact ⟨h1, ih⟩
  | .nil, _ :: _, h => by simp [wfMp] at h
  | .cons _ _ _ _ _, [], h => by simp [wfMp] at h

/-- the reader's view of the writer's value: present members are entries of the writer's list, members without value
    have no entry there -/
theorem reader_side (cfg : Cfg) (ver : Ver) (e : Endian) (msw : Ms) (fsw : List Val) (hnd : msw.lowIds.Nodup)
    (hwf : wfM cfg ver msw fsw = true) : (msr : Ms) → mutCompat msr msw = true →
    wfMp cfg ver msr (projById msr msw fsw) ∧
    (∀ c ∈ chunks cfg ver e msr (projById msr msw fsw), c ∈ chunks cfg ver e msw fsw) ∧
    absOk (chunks cfg ver e msw fsw) msr (projById msr msw fsw)
  | .nil, _ => by simp [projById, wfMp, chunks, absOk]
  | .cons id o mu t r, hc => by
    simp only [mutCompat, Bool.and_eq_true] at hc
    obtain ⟨ih1, ih2, ih3⟩ := reader_side cfg ver e msw fsw hnd hwf r hc.2
    obtain ⟨ha, hp⟩ := lookup_spec cfg ver e id mu t msw fsw hc.1 hnd hwf
    refine ⟨?_, ?_, ?_⟩
    · simp only [projById, wfMp]
      exact ⟨fun hf => (hp hf).2, ih1⟩
    · intro c hcm
      simp only [projById] at hcm
      by_cases hf : lookupM id msw fsw = .absent
      · rw [hf] at hcm
        simp only [chunks] at hcm
        exact ih2 c hcm
      · have hmem := (hp hf).1
        have : c = ⟨id, mu, t.lc5, ser cfg ver e t (lookupM id msw fsw)⟩ ∨ c ∈ chunks cfg ver e r (projById r msw fsw) := by
          revert hcm
          cases hl : lookupM id msw fsw <;> first | exact absurd hl hf | (simp only [chunks, List.mem_cons]; exact fun h => h)
        rcases this with rfl | h
        · exact hmem
        · exact ih2 c h
    · simp only [projById, absOk]
      exact ⟨ha, ih3⟩

/-- XCDR2 `deserialize_members` of a reader member list over the writer's member list `cs`, fewer than four bytes
    behind it (top level: the encapsulation padding): members without entry decode as absent -/
theorem rtM2a (cfg : Cfg) (e : Endian) : (ms : Ms) → (fs : List Val) → wfMp cfg .v2 ms fs → maxSizeMs ms fs < 2 ^ 32 →
    ∀ (cs : List Chunk) (p : Nat) (rest : Bytes), p % 4 = 0 → (∀ d ∈ cs, K2 e d) →
      (∀ a ∈ cs, ∀ b ∈ cs, a.id % 2 ^ 16 = b.id % 2 ^ 16 → a = b) →
      (∀ c ∈ chunks cfg .v2 e ms fs, c ∈ cs) → absOk cs ms fs → rest.length < 4 →
      deM cfg .v2 e ms ⟨(emit2 e cs p).1 ++ rest, p⟩ = .ok fs ⟨(emit2 e cs p).1 ++ rest, p⟩
  | .nil, [], _, _ => by
    intro cs p rest _ _ _ _ _ _
    simp [deM]
  | .cons id opt mu t r, f :: fs, h, hs => by
    intro cs p rest hp hK hinj hsub habs hrest
    simp only [wfMp] at h
    simp only [maxSizeMs] at hs
    simp only [absOk] at habs
    have hsub' : ∀ c ∈ chunks cfg .v2 e r fs, c ∈ cs := by
      intro c hc
      apply hsub
      cases f <;> simp [chunks, hc]
    have ih := rtM2a cfg e r fs h.2 (by omega) cs p rest hp hK hinj hsub' habs.2 hrest
    by_cases hf : f = .absent
    · subst hf
      have hm1 := dMem2_absent cfg e cs id (fun d hd => ⟨hK d hd, habs.1 rfl d hd⟩) (de cfg .v2 e t) p hp rest hrest
      simp only [deM, hm1, Res.bind, ih]
    · have h1 := h.1 hf
      have hw : wfVal cfg .v2 t f = true := by
        simp only [wfM, Bool.and_true, Bool.and_eq_true] at h1
        exact h1.1
      have hrt := rt cfg .v2 e t f hw (by omega)
      have hcmem : (⟨id, mu, t.lc5, ser cfg .v2 e t f⟩ : Chunk) ∈ cs := by
        apply hsub
        cases f <;> first | exact absurd rfl hf | (simp only [chunks]; exact List.mem_cons.mpr (Or.inl rfl))
      have hg : ∀ q tail, q % 4 = 0 → ∃ s', de cfg .v2 e t ⟨(ser cfg .v2 e t f 0).1 ++ tail, q⟩ = .ok f s' := by
        intro q tail hq
        have hsh := shift_of_mod _ (ser_shift cfg e t f) q hq
        have := hrt q tail
        rw [hsh] at this
        exact ⟨_, this⟩
      have hm1 := dMem2_present cfg e cs hK hinj ⟨id, mu, t.lc5, ser cfg .v2 e t f⟩ hcmem (de cfg .v2 e t) f hg p hp rest
      simp only [deM, hm1, Res.bind, ih]
  | .nil, _ :: _, h, _ => by simp [wfMp] at h
  | .cons _ _ _ _ _, [], h, _ => by simp [wfMp] at h

/-! ### assignability of the evolution relation -/
theorem SAgen (x : Ext) (hx : x ≠ .final) (m1 m2 : List MInfo)
    (hzip : x = .mutable ∨ ∀ (a b : MInfo), (a, b) ∈ m1.zip m2 → a.id = b.id ∧ tidAssignable a.tid b.tid = true)
    (hcommon : ∃ b ∈ m2, ∃ a ∈ m1, a.id = b.id)
    (htid : ∀ a ∈ m1, ∀ b ∈ m2, a.id = b.id → tidAssignable a.tid b.tid = true)
    (hmu1 : ∀ a ∈ m1, (a.opt = true ∨ a.mu = false) ∨ ∃ b ∈ m2, b.id = a.id)
    (hmu2 : ∀ b ∈ m2, (b.opt = true ∨ b.mu = false) ∨ ∃ a ∈ m1, a.id = b.id)
    (hk1 : ∀ a ∈ m1, a.key = false) (hk2 : ∀ b ∈ m2, b.key = false) :
    structAssignable x m1 x m2 = true := by
  have hfind : ∀ (x : MInfo), x ∈ m2 →
      (match List.find? (fun a => a.id == x.id) m1 with
        | some a => tidAssignable a.tid x.tid
        | none => true) = true := by
    intro b hb
    cases hf : List.find? (fun a => a.id == b.id) m1 with
    | none => rfl
    | some a =>
      have h1 := List.find?_some hf
      have h2 := List.mem_of_find?_eq_some hf
      exact htid a h2 b hb (by simpa using h1)
  unfold structAssignable
  cases x with
  | final => exact absurd rfl hx
  | appendable =>
    simp
    refine ⟨?_, hcommon, ⟨⟨⟨hmu1, hmu2⟩, fun a ha => Or.inl (hk1 a ha)⟩, fun b hb => Or.inl (hk2 b hb)⟩, hfind⟩
    rcases hzip with h | h
    · cases h
    · exact h
  | mutable =>
    simp
    exact ⟨hcommon, ⟨⟨⟨hmu1, hmu2⟩, fun a ha => Or.inl (hk1 a ha)⟩, fun b hb => Or.inl (hk2 b hb)⟩, hfind⟩

theorem tidAssignable_refl : (t : Tid) → tidAssignable t t = true
  | .seq a => by simp only [tidAssignable]; exact tidAssignable_refl a
  | .arr n a => by simp only [tidAssignable, beq_self_eq_true, Bool.true_and]; exact tidAssignable_refl a
  | .complete => by simp [tidAssignable]
  | .bool | .byte | .i8 | .u8 | .i16 | .u16 | .i32 | .u32 | .i64 | .u64 | .f32 | .f64 | .c8 | .str | .wstr => by
    simp [tidAssignable, Tid.intLike]

/-- the member descriptions of a key-less member list -/
def infosOf : Ms → List MInfo
  | .nil => []
  | .cons id opt mu t r => ⟨id, opt, mu, false, tidOf (tyK t)⟩ :: infosOf r

theorem infos_msK : (ms : Ms) → (msK ms).infos = infosOf ms
  | .nil => by simp [msK, KMs.infos, infosOf]
  | .cons id opt mu t r => by simp [msK, KMs.infos, infosOf, infos_msK r]

theorem infosOf_key : (ms : Ms) → ∀ a ∈ infosOf ms, a.key = false
  | .nil, a, h => by simp [infosOf] at h
  | .cons _ _ _ _ r, a, h => by
    simp only [infosOf, List.mem_cons] at h
    rcases h with rfl | h
    · rfl
    · exact infosOf_key r a h

theorem infosOf_ids : (ms : Ms) → (infosOf ms).map (fun a => a.id) = ms.ids
  | .nil => rfl
  | .cons _ _ _ _ r => by simp [infosOf, Ms.ids, infosOf_ids r]

theorem hasId_mem : (ms : Ms) → (id : Nat) → ms.hasId id = true → ∃ b ∈ infosOf ms, b.id = id
  | .nil, _, h => by simp [Ms.hasId] at h
  | .cons id' o m t r, id, h => by
    simp only [Ms.hasId, Bool.or_eq_true, beq_iff_eq] at h
    rcases h with h | h
    · exact ⟨⟨id', o, m, false, tidOf (tyK t)⟩, by simp [infosOf], h⟩
    · obtain ⟨b, hb, hid⟩ := hasId_mem r id h
      exact ⟨b, by simp [infosOf, hb], hid⟩

theorem compat1_tid (id : Nat) (mu : Bool) (t : Ty) : (msw : Ms) → compat1 id mu t msw = true →
    ∀ b ∈ infosOf msw, b.id = id → b.tid = tidOf (tyK t)
  | .nil, _, b, h, _ => by simp [infosOf] at h
  | .cons id' _ mu' t' r, hc, b, h, hid => by
    simp only [compat1, Bool.and_eq_true] at hc
    simp only [infosOf, List.mem_cons] at h
    rcases h with rfl | h
    · simp only at hid
      subst hid
      have hh := hc.1
      simp only [beq_self_eq_true, if_true, Bool.and_eq_true, beq_iff_eq, true_and] at hh
      rw [Ty.beq_eq _ _ hh.2]
    · exact compat1_tid id mu t r hc.2 b h hid

theorem mutCompat_tid : (msr msw : Ms) → mutCompat msr msw = true →
    ∀ a ∈ infosOf msr, ∀ b ∈ infosOf msw, a.id = b.id → tidAssignable a.tid b.tid = true
  | .nil, _, _, a, h, _, _, _ => by simp [infosOf] at h
  | .cons id _ mu t r, msw, hc, a, h, b, hb, hid => by
    simp only [mutCompat, Bool.and_eq_true] at hc
    simp only [infosOf, List.mem_cons] at h
    rcases h with rfl | h
    · simp only at hid
      have := compat1_tid id mu t msw hc.1 b hb hid.symm
      simp only [this]
      exact tidAssignable_refl _
    · exact mutCompat_tid r msw hc.2 a h b hb hid

theorem anyCommon_mem : (msr msw : Ms) → msr.anyCommon msw = true → ∃ b ∈ infosOf msw, ∃ a ∈ infosOf msr, a.id = b.id
  | .nil, _, h => by simp [Ms.anyCommon] at h
  | .cons id o m t r, msw, h => by
    simp only [Ms.anyCommon, Bool.or_eq_true] at h
    rcases h with h | h
    · obtain ⟨b, hb, hid⟩ := hasId_mem msw id h
      exact ⟨b, hb, ⟨id, o, m, false, tidOf (tyK t)⟩, by simp [infosOf], hid.symm⟩
    · obtain ⟨b, hb, a, ha, hid⟩ := anyCommon_mem r msw h
      exact ⟨b, hb, a, by simp [infosOf, ha], hid⟩

theorem muBoth_mem : (ms other : Ms) → muBoth ms other = true →
    ∀ a ∈ infosOf ms, (a.opt = true ∨ a.mu = false) ∨ ∃ b ∈ infosOf other, b.id = a.id
  | .nil, _, _, a, h => by simp [infosOf] at h
  | .cons id opt mu _ r, other, hm, a, h => by
    simp only [muBoth, Bool.and_eq_true, Bool.or_eq_true, Bool.not_eq_true'] at hm
    simp only [infosOf, List.mem_cons] at h
    rcases h with rfl | h
    · rcases hm.1 with h1 | h1
      · exact Or.inl h1
      · exact Or.inr (hasId_mem other id h1)
    · exact muBoth_mem r other hm.2 a h

theorem noMU_mem : (ms : Ms) → ms.noMustUnderstand = true → ∀ a ∈ infosOf ms, a.opt = true ∨ a.mu = false
  | .nil, _, a, h => by simp [infosOf] at h
  | .cons _ opt mu _ r, hm, a, h => by
    simp only [Ms.noMustUnderstand, Bool.and_eq_true, Bool.or_eq_true, Bool.not_eq_true'] at hm
    simp only [infosOf, List.mem_cons] at h
    rcases h with rfl | h
    · exact hm.1
    · exact noMU_mem r hm.2 a h

theorem isPrefix_infos : (a b : Ms) → a.isPrefix b = true →
    ∃ ex, infosOf b = infosOf a ++ ex ∧ ∀ x ∈ ex, x.opt = true ∨ x.mu = false
  | .nil, w, h => ⟨infosOf w, by simp [infosOf], noMU_mem w (by simpa [Ms.isPrefix] using h)⟩
  | .cons i o m t r, .cons i' o' m' t' w, h => by
    simp only [Ms.isPrefix, Bool.and_eq_true, beq_iff_eq] at h
    obtain ⟨⟨⟨⟨hi, ho⟩, hm⟩, ht⟩, hr⟩ := h
    have ht := Ty.beq_eq t t' ht
    subst hi; subst ho; subst hm; subst ht
    obtain ⟨ex, he, hx⟩ := isPrefix_infos r w hr
    exact ⟨ex, by simp [infosOf, he], hx⟩
  | .cons _ _ _ _ _, .nil, h => by simp [Ms.isPrefix] at h

theorem readerLonger_infos : (a b : Ms) → a.readerLonger b = true →
    ∃ ex, infosOf a = infosOf b ++ ex ∧ ∀ x ∈ ex, x.opt = true ∨ x.mu = false
  | .cons i o m t r, .cons i' o' m' t' w, h => by
    simp only [Ms.readerLonger, Bool.and_eq_true, beq_iff_eq] at h
    obtain ⟨⟨⟨⟨hi, ho⟩, hm⟩, ht⟩, hr⟩ := h
    have ht := Ty.beq_eq t t' ht
    subst hi; subst ho; subst hm; subst ht
    obtain ⟨ex, he, hx⟩ := readerLonger_infos r w hr
    exact ⟨ex, by simp [infosOf, he], hx⟩
  | .nil, .nil, _ => ⟨[], by simp [infosOf], by simp⟩
  | .cons i o m t r, .nil, h => by
    simp only [Ms.readerLonger, Bool.and_eq_true] at h
    refine ⟨infosOf (.cons i o m t r), by simp [infosOf], ?_⟩
    intro x hx
    have hn : (Ms.cons i o m t r).noMustUnderstand = true := by
      have := h.2
      simpa [Ms.noMustUnderstand] using this
    exact noMU_mem _ hn x hx
  | .nil, .cons _ _ _ _ _, h => by simp [Ms.readerLonger] at h

theorem zip_self_append {α : Type} : (l ex : List α) → ∀ a b, (a, b) ∈ l.zip (l ++ ex) → a = b
  | [], _, a, b, h => by simp at h
  | x :: l, ex, a, b, h => by
    simp only [List.cons_append, List.zip_cons_cons, List.mem_cons, Prod.mk.injEq] at h
    rcases h with ⟨rfl, rfl⟩ | h
    · rfl
    · exact zip_self_append l ex a b h

theorem zip_append_self {α : Type} : (l ex : List α) → ∀ a b, (a, b) ∈ (l ++ ex).zip l → a = b
  | [], _, a, b, h => by simp at h
  | x :: l, ex, a, b, h => by
    simp only [List.cons_append, List.zip_cons_cons, List.mem_cons, Prod.mk.injEq] at h
    rcases h with ⟨rfl, rfl⟩ | h
    · rfl
    · exact zip_append_self l ex a b h

/-- two appendable member lists, one a prefix of the other (either way) -/
theorem SA_prefix (l ex : List MInfo) (hl : l ≠ []) (hnd : ((l ++ ex).map fun a => a.id).Nodup)
    (hk : ∀ a ∈ l ++ ex, a.key = false) (hex : ∀ x ∈ ex, x.opt = true ∨ x.mu = false) :
    structAssignable .appendable l .appendable (l ++ ex) = true ∧
    structAssignable .appendable (l ++ ex) .appendable l = true := by
  have hinj := inj_of_nodup_map (fun a : MInfo => a.id) (l ++ ex) hnd
  obtain ⟨x, xs, rfl⟩ := List.exists_cons_of_ne_nil hl
  constructor
  · apply SAgen .appendable (by decide)
    · exact Or.inr fun a b h => by
        have := zip_self_append (x :: xs) ex a b h
        subst this; exact ⟨rfl, tidAssignable_refl _⟩
    · exact ⟨x, by simp, x, by simp, rfl⟩
    · intro a ha b hb hid
      have := hinj a (List.mem_append.mpr (Or.inl ha)) b hb hid
      subst this; exact tidAssignable_refl _
    · intro a ha
      exact Or.inr ⟨a, List.mem_append.mpr (Or.inl ha), rfl⟩
    · intro b hb
      rcases List.mem_append.mp hb with h | h
      · exact Or.inr ⟨b, h, rfl⟩
      · exact Or.inl (hex b h)
    · intro a ha; exact hk a (List.mem_append.mpr (Or.inl ha))
    · exact hk
  · apply SAgen .appendable (by decide)
    · exact Or.inr fun a b h => by
        have := zip_append_self (x :: xs) ex a b h
        subst this; exact ⟨rfl, tidAssignable_refl _⟩
    · exact ⟨x, by simp, x, by simp, rfl⟩
    · intro a ha b hb hid
      have := hinj a ha b (List.mem_append.mpr (Or.inl hb)) hid
      subst this; exact tidAssignable_refl _
    · intro a ha
      rcases List.mem_append.mp ha with h | h
      · exact Or.inr ⟨a, h, rfl⟩
      · exact Or.inl (hex a h)
    · intro b hb
      exact Or.inr ⟨b, List.mem_append.mpr (Or.inl hb), rfl⟩
    · exact hk
    · intro a ha; exact hk a (List.mem_append.mpr (Or.inl ha))

end DustVerif.Xcdr
