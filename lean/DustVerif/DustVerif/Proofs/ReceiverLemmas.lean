import DustVerif.Model.Receiver
/-! Lemmas for C06: with every guard in place each handler of Model/Receiver.lean returns `some`, and the invariant
    "no buffered fragment has fragment_size 0" is preserved. -/
namespace DustVerif.Receiver

/-- state invariant of the repaired code: a DATA_FRAG with `fragment_size = 0` never enters the fragment buffer -/
def Inv (v : Victim) : Prop := ∀ f ∈ v.wp.frags, f.fsize ≠ 0

theorem addG_sat (a b : Int) : ∃ r, addG true a b = some r := by
  unfold addG
  split
  · exact ⟨_, rfl⟩
  · exact ⟨_, rfl⟩

theorem acm_all (p : WProxy) : ∃ r, acm Guards.all p = some r := by
  unfold acm
  obtain ⟨r, hr⟩ := addG_sat p.first (-1)
  have hr' : addG Guards.all.d9 p.first (-1) = some r := hr
  simp only [hr']
  exact ⟨_, rfl⟩

theorem expected_all (p : WProxy) : ∃ r, expected Guards.all p = some r := by
  unfold expected
  obtain ⟨a, ha⟩ := acm_all p
  obtain ⟨r, hr⟩ := addG_sat a 1
  simp only [ha]
  exact ⟨r, hr⟩

theorem missingRange_all (p : WProxy) : ∃ r, missingRange Guards.all p = some r := by
  unfold missingRange
  obtain ⟨r, hr⟩ := addG_sat p.highest 1
  have hr' : addG Guards.all.d63 p.highest 1 = some r := hr
  simp only [hr']
  exact ⟨_, rfl⟩

theorem findFragOf_mem {fs : List Frag} {s : Int} {f : Frag} (h : findFragOf fs s = some f) : f ∈ fs :=
  List.mem_of_find?_eq_some h

theorem nackFragSet_all (s : Int) (l : List Nat) : ∃ x, nackFragSet Guards.all s l = some x := by
  cases l with
  | nil => exact ⟨_, rfl⟩
  | cons b rest => exact ⟨_, rfl⟩

theorem nackFragOf_all (p : WProxy) (r : Int × Int) (hinv : ∀ f ∈ p.frags, f.fsize ≠ 0) :
    ∃ x, nackFragOf Guards.all p r = some x := by
  unfold nackFragOf
  split
  · exact ⟨_, rfl⟩
  · split
    · exact ⟨_, rfl⟩
    · rename_i f hf
      have hz : f.fsize ≠ 0 := hinv f (findFragOf_mem hf)
      simp only [hz, if_false]
      obtain ⟨x, hx⟩ := nackFragSet_all ‹Int› (missingFrags p.frags ‹Int› ((f.dsize + f.fsize - 1) / f.fsize) (p.frags.length + 258) 1).1
      simp only [hx]
      exact ⟨_, rfl⟩

theorem missingFrags_scanned (fs : List Frag) (s : Int) (total fuel k : Nat) :
    (missingFrags fs s total fuel k).2 ≤ fuel := by
  induction fuel generalizing k with
  | zero => simp [missingFrags]
  | succ n ih =>
    unfold missingFrags
    split
    · simp
    · have := ih (k + 1)
      split <;> simp <;> omega

theorem nackFragOf_steps (g : Guards) (p : WProxy) (r : Int × Int) (x : Option (Int × Nat × List Nat) × Nat)
    (h : nackFragOf g p r = some x) : x.2 ≤ p.frags.length + 258 := by
  unfold nackFragOf at h
  split at h
  · cases h; simp
  · split at h
    · cases h; simp
    · split at h
      · cases h
      · split at h
        · cases h
        · cases h
          exact missingFrags_scanned _ _ _ _ _

theorem purge_frags_sub (g : Guards) (p : WProxy) (b : Int) : ∀ f ∈ (purge g p b).frags, f ∈ p.frags := by
  intro f hf
  unfold purge at hf
  split at hf
  · exact (List.mem_filter.mp hf).1
  · exact hf

theorem purge_length (g : Guards) (p : WProxy) (b : Int) : (purge g p b).frags.length ≤ p.frags.length := by
  unfold purge
  split
  · exact List.length_filter_le _ _
  · exact Nat.le_refl _

theorem bumpNf_frags (g : Guards) (p : WProxy) (r : Int × Int) : (bumpNf g p r).frags = p.frags := by
  unfold bumpNf
  split <;> rfl

/-- RtpsWriterProxy::write_message never panics, only removes fragments, costs at most 514 + 2 |buffer| steps -/
theorem proxyWrite_all (v : Victim) (hinv : Inv v) :
    ∃ v', proxyWrite Guards.all v = some v' ∧ (∀ f ∈ v'.wp.frags, f ∈ v.wp.frags) ∧ v'.rp = v.rp ∧ v'.rq = v.rq ∧
      v'.wbLast = v.wbLast ∧ v'.steps ≤ v.steps + 514 + 2 * v.wp.frags.length := by
  unfold proxyWrite
  obtain ⟨r, hr⟩ := missingRange_all v.wp
  simp only [hr]
  by_cases hm : v.wp.mustAck = true
  · simp only [hm, Bool.not_true, Bool.false_eq_true, if_false]
    obtain ⟨b, hb⟩ := expected_all { v.wp with mustAck := false, ackCount := wrapI32 (v.wp.ackCount + 1) }
    simp only [hb]
    generalize hp2 : bumpNf Guards.all (purge Guards.all { v.wp with mustAck := false, ackCount := wrapI32 (v.wp.ackCount + 1) } b) r = p2
    have hsub : ∀ f ∈ p2.frags, f ∈ v.wp.frags := by
      intro f hf
      rw [← hp2, bumpNf_frags] at hf
      exact purge_frags_sub Guards.all { v.wp with mustAck := false, ackCount := wrapI32 (v.wp.ackCount + 1) } b f hf
    have hlen : p2.frags.length ≤ v.wp.frags.length := by
      rw [← hp2, bumpNf_frags]
      exact purge_length _ _ _
    obtain ⟨x, hx⟩ := nackFragOf_all p2 r (fun f hf => hinv f (hsub f hf))
    have hscan := nackFragOf_steps _ _ _ _ hx
    simp only [hx]
    refine ⟨_, rfl, hsub, rfl, rfl, rfl, ?_⟩
    simp only [say, tick]
    omega
  · simp only [hm, Bool.not_false, if_true]
    exact ⟨v, rfl, fun f hf => hf, rfl, rfl, rfl, by omega⟩

theorem histReceived_all (p : WProxy) : ∃ b, histReceived Guards.all p = some b := by
  unfold histReceived
  obtain ⟨r, hr⟩ := missingRange_all p
  simp only [hr]
  exact ⟨_, rfl⟩

/-- what a handler may do to the victim: the fragment buffer only loses elements or gains fragments with a non-zero size -/
def FragsOk (v v' : Victim) : Prop := ∀ f ∈ v'.wp.frags, f ∈ v.wp.frags ∨ f.fsize ≠ 0

theorem inv_of_fragsOk {v v' : Victim} (hinv : Inv v) (h : FragsOk v v') : Inv v' := by
  intro f hf
  rcases h f hf with h1 | h1
  · exact hinv f h1
  · exact h1

theorem onHeartbeat_all (ids : Ids) (rc : Recv) (v : Victim) (hinv : Inv v) (writer : EntityId) (first last count : Int)
    (final live : Bool) :
    ∃ v', onHeartbeat Guards.all ids rc v writer first last count final live = some v' ∧ (∀ f ∈ v'.wp.frags, f ∈ v.wp.frags) ∧
      v'.steps ≤ v.steps + 515 + 2 * v.wp.frags.length := by
  unfold onHeartbeat
  by_cases hc : rc.src = ids.peer ∧ writer = ids.wa ∧ v.wp.hbCount < count
  · simp only [hc, and_self, if_true]
    obtain ⟨r, hr⟩ := missingRange_all { v.wp with hbCount := count, last := last, first := first }
    simp only [hr]
    obtain ⟨v1, h1, hf, _, _, _, hs⟩ := proxyWrite_all
      { v with wp := { { v.wp with hbCount := count, last := last, first := first } with
                        mustAck := !final || (!live && decide (rangeCount r > 0)) } } hinv
    simp only [h1]
    obtain ⟨b, hb⟩ := histReceived_all v1.wp
    simp only [hb]
    refine ⟨_, rfl, ?_, ?_⟩
    · intro f hf'
      exact hf f (by simpa [tick] using hf')
    · simp only [tick] at hs ⊢
      omega
  · simp only [hc, if_false]
    obtain ⟨b, hb⟩ := histReceived_all v.wp
    simp only [hb]
    exact ⟨_, rfl, fun f hf => hf, by simp [tick]; omega⟩

theorem snElems_all (base : Int) (bits : List Nat) : ∃ l, snElems Guards.all base bits = some l ∧ l.length ≤ bits.length := by
  induction bits with
  | nil => exact ⟨[], rfl, by simp⟩
  | cons b bs ih =>
    obtain ⟨l, hl, hlen⟩ := ih
    unfold snElems
    by_cases h : inI64 (base + (b : Int)) = true
    · simp only [h, if_true, hl]
      exact ⟨_, rfl, by simp; omega⟩
    · simp only [h, Bool.false_eq_true, if_false]
      refine ⟨l, ?_, by simp; omega⟩
      have hg : Guards.all.d63 = true := rfl
      simp only [hg, if_true]
      exact hl

theorem raise_frags (p : WProxy) (s : Int) : (raise p s).frags = p.frags := by
  unfold raise; split <;> rfl

theorem foldl_raise_frags (l : List Int) (p : WProxy) : (l.foldl raise p).frags = p.frags := by
  induction l generalizing p with
  | nil => rfl
  | cons x xs ih => simp [List.foldl, ih, raise_frags]

theorem irrelevant_all (p : WProxy) (a b : Int) :
    ∃ p', irrelevant Guards.all p a b = some p' ∧ p'.frags = p.frags := by
  unfold irrelevant
  have hg : Guards.all.d8 = true := rfl
  obtain ⟨x, hx⟩ := acm_all p
  simp only [hg, if_true, hx]
  refine ⟨_, rfl, ?_⟩
  split <;> split <;> rfl

theorem irrelevantEach_all (l : List Int) (p : WProxy) :
    ∃ p', irrelevantEach Guards.all p l = some p' ∧ p'.frags = p.frags := by
  induction l generalizing p with
  | nil => exact ⟨p, rfl, rfl⟩
  | cons x xs ih =>
    obtain ⟨p1, h1, hf1⟩ := irrelevant_all p x x
    obtain ⟨p2, h2, hf2⟩ := ih p1
    exact ⟨p2, by simp [irrelevantEach, h1, h2], hf2.trans hf1⟩

/-- GAP on main (contiguous-only, range in O(1)): never panics, the cost does not depend on the range -/
theorem onGap_all (ids : Ids) (rc : Recv) (v : Victim) (writer : EntityId) (start : Int) (set : SnSet) :
    ∃ v', onGap Guards.all ids rc v writer start set = some v' ∧ v'.wp.frags = v.wp.frags ∧
      v'.steps ≤ v.steps + 1 + set.numBits := by
  unfold onGap
  by_cases hc : rc.src = ids.peer ∧ writer = ids.wa
  · simp only [hc, and_self, if_true]
    obtain ⟨p1, h1, hf1⟩ : ∃ p1, (if start < set.base then irrelevant Guards.all v.wp start (set.base - 1) else some v.wp) = some p1
        ∧ p1.frags = v.wp.frags := by
      split
      · exact irrelevant_all v.wp start (set.base - 1)
      · exact ⟨v.wp, rfl, rfl⟩
    simp only [h1]
    obtain ⟨l, hl, _⟩ := snElems_all set.base set.bits
    simp only [snSetElems, hl]
    obtain ⟨p2, h2, hf2⟩ := irrelevantEach_all l (tick { v with wp := p1 } (if Guards.all.d8 = true then 1 else if start < set.base then (set.base - start).toNat else 0)).wp
    simp only [h2]
    refine ⟨_, rfl, ?_, ?_⟩
    · simp only [tick] at hf2 ⊢
      exact hf2.trans hf1
    · simp [tick, Guards.all]
  · simp only [hc, if_false]
    exact ⟨v, rfl, rfl, by omega⟩

theorem received_frags_sub (p : WProxy) (s : Int) : ∀ f ∈ (received p s).frags, f ∈ p.frags := by
  intro f hf
  simp only [received] at hf
  exact (List.mem_filter.mp hf).1

theorem onData_all (ids : Ids) (rc : Recv) (v : Victim) (writer : EntityId) (s : Int) :
    ∃ v', onData Guards.all ids rc v writer s = some v' ∧ (∀ f ∈ v'.wp.frags, f ∈ v.wp.frags) ∧ v'.steps = v.steps := by
  unfold onData
  by_cases hc : rc.src = ids.peer ∧ writer = ids.wa
  · simp only [hc, and_self, if_true]
    obtain ⟨e, he⟩ := expected_all v.wp
    simp only [he]
    by_cases hs : s = e
    · simp only [hs, if_true]
      exact ⟨_, rfl, received_frags_sub v.wp e, rfl⟩
    · simp only [hs, if_false]
      exact ⟨v, rfl, fun f hf => hf, rfl⟩
  · simp only [hc, if_false]
    exact ⟨v, rfl, fun f hf => hf, rfl⟩

theorem totalExpected_some (f : Frag) (h : f.fsize ≠ 0) : ∃ t, totalExpected f = some t := by
  unfold totalExpected
  simp [h]

/-- DATA_FRAG: never panics; the buffer gains at most this fragment, and only when its size field is not 0 -/
theorem onDataFrag_all (ids : Ids) (rc : Recv) (v : Victim) (hinv : Inv v) (writer : EntityId) (f : Frag) :
    ∃ v', onDataFrag Guards.all ids rc v writer f = some v' ∧ FragsOk v v' := by
  unfold onDataFrag
  by_cases hz : f.fsize = 0
  · simp only [Guards.all, hz, and_self, if_true]
    exact ⟨v, rfl, fun g hg => Or.inl hg⟩
  · have hz' : ¬ (Guards.all.d6 = true ∧ f.fsize = 0) := fun h => hz h.2
    simp only [hz', if_false]
    by_cases hc : rc.src = ids.peer ∧ writer = ids.wa
    · simp only [hc, and_self, if_true]
      obtain ⟨e, he⟩ := expected_all v.wp
      simp only [he]
      -- the buffer after the possible push
      generalize hp1 : (if f.sn = e ∧ ¬ v.wp.frags.contains f = true then { v.wp with frags := v.wp.frags ++ [f] } else v.wp) = p1
      have hp1ok : ∀ x ∈ p1.frags, x ∈ v.wp.frags ∨ x.fsize ≠ 0 := by
        intro x hx
        rw [← hp1] at hx
        split at hx
        · simp only [List.mem_append, List.mem_singleton] at hx
          rcases hx with hx | hx
          · exact Or.inl hx
          · exact Or.inr (hx ▸ hz)
        · exact Or.inl hx
      have hp1inv : ∀ x ∈ p1.frags, x.fsize ≠ 0 := by
        intro x hx
        rcases hp1ok x hx with h | h
        · exact hinv x h
        · exact h
      split
      · exact ⟨_, rfl, fun x hx => hp1ok x (by simpa [tick] using hx)⟩
      · rename_i f0 hf0
        obtain ⟨te, hte⟩ := totalExpected_some f0 (hp1inv f0 (findFragOf_mem hf0))
        simp only [hte]
        split
        · split
          · obtain ⟨v', hv', hsub, _⟩ := onData_all ids rc
              { (tick { v with wp := p1 } (if Guards.all.d65 = true then 3 * (p1.frags.length + 1) + sortCost p1.frags.length
                                           else (sumInSub p1.frags f.sn + 1) * (p1.frags.length + 1))) with
                wp := { p1 with frags := p1.frags.filter (fun x => x.sn != f.sn) } } ids.wa f.sn
            refine ⟨v', hv', fun x hx => ?_⟩
            exact hp1ok x (List.mem_filter.mp (hsub x hx)).1
          · exact ⟨_, rfl, fun x hx => hp1ok x (by simpa [tick] using hx)⟩
        · exact ⟨_, rfl, fun x hx => hp1ok x (by simpa [tick] using hx)⟩
    · simp only [hc, if_false]
      exact ⟨v, rfl, fun g hg => Or.inl hg⟩

theorem serveRequested_all (w : EntityId) (lastSn : Int) (fuel : Nat) (p : RProxy) (out : List Reply) :
    ∃ r, serveRequested Guards.all w lastSn fuel p out = some r := by
  induction fuel generalizing p out with
  | zero => exact ⟨_, rfl⟩
  | succ n ih =>
    unfold serveRequested
    split
    · exact ⟨_, rfl⟩
    · split
      · exact ih _ _
      · rename_i s _ _
        obtain ⟨b, hb⟩ := addG_sat s 1
        have hb' : addG Guards.all.d63 s 1 = some b := hb
        simp only [hb']
        exact ih _ _

theorem onAckNackAt_all (w : EntityId) (lastSn : Int) (p : RProxy) (set : SnSet) (count : Int) :
    ∃ r, onAckNackAt Guards.all w lastSn p set count = some r := by
  unfold onAckNackAt
  split
  · obtain ⟨a, ha⟩ := addG_sat set.base (-1)
    have ha' : addG Guards.all.d9 set.base (-1) = some a := ha
    obtain ⟨l, hl, _⟩ := snElems_all set.base set.bits
    simp only [ha', snSetElems, hl]
    obtain ⟨r, hr⟩ := serveRequested_all w lastSn
      (({ p with highestAcked := if a > p.highestAcked then a else p.highestAcked,
                 requested := l.foldl insertReq p.requested, lastAck := count } : RProxy).requested.length + 1)
      { p with highestAcked := if a > p.highestAcked then a else p.highestAcked,
               requested := l.foldl insertReq p.requested, lastAck := count } []
    simp only [hr]
    exact ⟨_, rfl⟩
  · exact ⟨_, rfl⟩

theorem onAckNack_all (ids : Ids) (rc : Recv) (v : Victim) (reader writer : EntityId) (set : SnSet) (count : Int) :
    ∃ v', onAckNack Guards.all ids rc v reader writer set count = some v' ∧ v'.wp = v.wp := by
  unfold onAckNack
  split
  · obtain ⟨r, hr⟩ := onAckNackAt_all ids.wb v.wbLast v.rp set count
    simp only [hr]
    exact ⟨_, rfl, rfl⟩
  · split
    · obtain ⟨r, hr⟩ := onAckNackAt_all ids.wq 0 v.rq set count
      simp only [hr]
      exact ⟨_, rfl, rfl⟩
    · exact ⟨v, rfl, rfl⟩

theorem decodeFnSet_all (s : FnSetRaw) : decodeFnSet Guards.all s ≠ Dec.panic := by
  unfold decodeFnSet
  have h5 : Guards.all.d5 = true := rfl
  have h62 : Guards.all.d62 = true := rfl
  simp only [h5, h62, if_true]
  split
  · simp
  · split <;> simp

theorem onNackFragAt_all (w : EntityId) (lastSn : Int) (p : RProxy) (s : Int) (base : Nat) (elems : List Nat) (count : Int) :
    ∃ r, onNackFragAt Guards.all w lastSn p s base elems count = some r := by
  unfold onNackFragAt
  split
  · split
    · exact ⟨_, rfl⟩
    · obtain ⟨b, hb⟩ := addG_sat s 1
      have hb' : addG Guards.all.d63 s 1 = some b := hb
      simp only [hb']
      exact ⟨_, rfl⟩
  · exact ⟨_, rfl⟩

theorem onNackFrag_all (ids : Ids) (rc : Recv) (v : Victim) (reader : EntityId) (s : Int) (base : Nat) (elems : List Nat)
    (count : Int) : ∃ v', onNackFrag Guards.all ids rc v reader s base elems count = some v' ∧ v'.wp = v.wp := by
  unfold onNackFrag
  split
  · obtain ⟨r, hr⟩ := onNackFragAt_all ids.wb v.wbLast v.rp s base elems count
    simp only [hr]
    exact ⟨_, rfl, rfl⟩
  · split
    · obtain ⟨r, hr⟩ := onNackFragAt_all ids.wq 0 v.rq s base elems count
      simp only [hr]
      exact ⟨_, rfl, rfl⟩
    · exact ⟨v, rfl, rfl⟩

theorem inv_tick {v : Victim} (h : Inv v) (n : Nat) : Inv (tick v n) := h

/-- one submessage, whatever its field values, in any state satisfying the invariant: no panic, invariant kept -/
theorem stepSub_all (ids : Ids) (rc : Recv) (v : Victim) (hinv : Inv v) (s : Sub) :
    ∃ rc' v', stepSub Guards.all ids rc v s = some (rc', v') ∧ Inv v' := by
  cases s with
  | pad => exact ⟨_, _, rfl, hinv⟩
  | infoTs inv sec frac => exact ⟨_, _, rfl, hinv⟩
  | infoDst p => exact ⟨_, _, rfl, hinv⟩
  | infoSrc p => exact ⟨_, _, rfl, hinv⟩
  | infoReply => exact ⟨_, _, rfl, hinv⟩
  | data rd w sn pl =>
    obtain ⟨v', h, hsub, _⟩ := onData_all ids rc (tick v 1) w sn
    refine ⟨rc, v', by simp [stepSub, h], fun f hf => hinv f (hsub f hf)⟩
  | dataFrag rd w sn st n fs ds pl =>
    obtain ⟨v', h, hok⟩ := onDataFrag_all ids rc (tick v 1) (inv_tick hinv 1) w ⟨sn, st, n, fs, ds, pl⟩
    exact ⟨rc, v', by simp [stepSub, h], inv_of_fragsOk (inv_tick hinv 1) hok⟩
  | gap rd w st set =>
    obtain ⟨v', h, hf, _⟩ := onGap_all ids rc (tick v 1) w st set
    refine ⟨rc, v', by simp [stepSub, h], fun f hf' => hinv f (by rw [hf] at hf'; exact hf')⟩
  | heartbeat rd w f l c fin live =>
    obtain ⟨v', h, hf, _⟩ := onHeartbeat_all ids rc (tick v 1) (inv_tick hinv 1) w f l c fin live
    refine ⟨rc, v', by simp [stepSub, h], fun x hx => hinv x (hf x hx)⟩
  | hbFrag rd w sn lf c =>
    simp only [stepSub]
    split
    · exact ⟨_, _, rfl, hinv⟩
    · exact ⟨_, _, rfl, hinv⟩
  | ackNack rd w set c =>
    obtain ⟨v', h, hw⟩ := onAckNack_all ids rc (tick v 1) rd w set c
    refine ⟨rc, v', by simp [stepSub, h], fun x hx => hinv x (by rw [hw] at hx; exact hx)⟩
  | nackFrag rd w sn set c =>
    simp only [stepSub]
    have hd := decodeFnSet_all set
    split
    · rename_i b el _
      obtain ⟨v', h, hw⟩ := onNackFrag_all ids rc (tick v 1) rd sn b el c
      refine ⟨rc, v', by simp [h], fun x hx => hinv x (by rw [hw] at hx; exact hx)⟩
    · exact ⟨_, _, rfl, hinv⟩
    · rename_i hp
      exact absurd hp hd

theorem runSubs_all (ids : Ids) (subs : List Sub) (rc : Recv) (v : Victim) (hinv : Inv v) :
    ∃ v', runSubs Guards.all ids rc v subs = some v' ∧ Inv v' := by
  induction subs generalizing rc v with
  | nil => exact ⟨v, rfl, hinv⟩
  | cons s rest ih =>
    obtain ⟨rc', v1, h1, hinv1⟩ := stepSub_all ids rc v hinv s
    obtain ⟨v2, h2, hinv2⟩ := ih rc' v1 hinv1
    exact ⟨v2, by simp [runSubs, h1, h2], hinv2⟩

theorem decodeAll_all (subs : List Sub) : ∃ l, decodeAll Guards.all subs = some l := by
  induction subs with
  | nil => exact ⟨[], rfl⟩
  | cons s rest ih =>
    obtain ⟨l, hl⟩ := ih
    cases s with
    | nackFrag rd w sn set c =>
      unfold decodeAll
      have hd := decodeFnSet_all set
      split
      · rename_i hp; exact absurd hp hd
      · exact ⟨l, hl⟩
      · simp [hl]
    | gap rd w st set =>
      simp only [decodeAll]
      split
      · exact ⟨l, hl⟩
      · simp [hl]
    | ackNack rd w set c =>
      simp only [decodeAll]
      split
      · exact ⟨l, hl⟩
      · simp [hl]
    | _ => simp [decodeAll, hl]

/-- DATA_FRAG with the reassembly of fixes/D65.patch: the work is bounded by the NUMBER of buffered fragments (three passes
    and one sort), whatever fragment numbers, fragments_in_submessage, sizes the submessages carry -/
theorem onDataFrag_steps (ids : Ids) (rc : Recv) (v : Victim) (hinv : Inv v) (writer : EntityId) (f : Frag) :
    ∃ v', onDataFrag Guards.all ids rc v writer f = some v' ∧
      v'.steps ≤ v.steps + 3 * (v.wp.frags.length + 2) + sortCost v.wp.frags.length + sortCost (v.wp.frags.length + 1) := by
  unfold onDataFrag
  by_cases hz : f.fsize = 0
  · simp only [Guards.all, hz, and_self, if_true]
    exact ⟨v, rfl, by omega⟩
  · have hz' : ¬ (Guards.all.d6 = true ∧ f.fsize = 0) := fun h => hz h.2
    simp only [hz', if_false]
    by_cases hc : rc.src = ids.peer ∧ writer = ids.wa
    · simp only [hc, and_self, if_true]
      obtain ⟨e, he⟩ := expected_all v.wp
      simp only [he]
      generalize hp1 : (if f.sn = e ∧ ¬ v.wp.frags.contains f = true then { v.wp with frags := v.wp.frags ++ [f] } else v.wp) = p1
      have hlen : p1.frags.length = v.wp.frags.length ∨ p1.frags.length = v.wp.frags.length + 1 := by
        rw [← hp1]
        split
        · exact Or.inr (by simp)
        · exact Or.inl rfl
      have hp1inv : ∀ x ∈ p1.frags, x.fsize ≠ 0 := by
        intro x hx
        rw [← hp1] at hx
        split at hx
        · simp only [List.mem_append, List.mem_singleton] at hx
          rcases hx with hx | hx
          · exact hinv x hx
          · exact hx ▸ hz
        · exact hinv x hx
      have hd65 : Guards.all.d65 = true := rfl
      split
      · refine ⟨_, rfl, ?_⟩
        simp only [tick]
        rcases hlen with h | h <;> omega
      · rename_i f0 hf0
        obtain ⟨te, hte⟩ := totalExpected_some f0 (hp1inv f0 (findFragOf_mem hf0))
        simp only [hte, hd65, if_true]
        split
        · split
          · obtain ⟨v', hv', _, hst⟩ := onData_all ids rc
              { (tick { v with wp := p1 } (3 * (p1.frags.length + 1) + sortCost p1.frags.length)) with
                wp := { p1 with frags := p1.frags.filter (fun x => x.sn != f.sn) } } ids.wa f.sn
            refine ⟨v', hv', ?_⟩
            rw [hst]
            simp only [tick]
            rcases hlen with h | h <;> rw [h] <;> omega
          · refine ⟨_, rfl, ?_⟩
            simp only [tick]
            rcases hlen with h | h <;> rw [h] <;> omega
        · refine ⟨_, rfl, ?_⟩
          simp only [tick]
          rcases hlen with h | h <;> omega
    · simp only [hc, if_false]
      exact ⟨v, rfl, by omega⟩

end DustVerif.Receiver
