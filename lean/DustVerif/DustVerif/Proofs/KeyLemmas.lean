import DustVerif.Model.Key
import DustVerif.Proofs.XcdrMain
/-! Lemmas for C11 / C12: the key holder of a type whose flattened key ids are distinct, injectivity of the key
    serialization (from the round trip with remainder), the key-holder type. -/
namespace DustVerif.Xcdr

theorem lastEntry_none (id : Nat) : ∀ (l : List (KEntry × Val)), id ∉ entryIds l → lastEntry id l = none
  | [], _ => rfl
  | (k, v) :: r, h => by
    simp only [entryIds, List.map_cons, List.mem_cons, not_or] at h
    have ih := lastEntry_none id r h.2
    have hne : (k.id == id) = false := by
      apply beq_eq_false_iff_ne.mpr
      intro he; exact h.1 he.symm
    simp [lastEntry, ih, hne]

theorem first_last_of_nodup : ∀ (all : List (KEntry × Val)), (entryIds all).Nodup → ∀ k v, (k, v) ∈ all →
    firstEntry k.id all = some k ∧ lastEntry k.id all = some (k, v)
  | [], _, _, _, h => by cases h
  | (k0, v0) :: r, hn, k, v, h => by
    simp only [entryIds, List.map_cons, List.nodup_cons] at hn
    rcases List.mem_cons.mp h with heq | hr
    · injection heq with hk hv
      subst hk; subst hv
      have hl := lastEntry_none k.id r hn.1
      simp [firstEntry, lastEntry, hl]
    · have ih := first_last_of_nodup r hn.2 k v hr
      have hmem : k.id ∈ entryIds r := List.mem_map_of_mem (f := fun kv : KEntry × Val => kv.1.id) hr
      have hne : (k0.id == k.id) = false := by
        apply beq_eq_false_iff_ne.mpr
        intro he; exact hn.1 (he ▸ hmem)
      simp [firstEntry, lastEntry, hne, ih.1, ih.2]

theorem combineTy_self (t : Ty) : combineTy t t = t := by
  cases t <;> simp [combineTy, Ty.isComplex] <;> split <;> rfl

/-- with distinct flattened ids the key holder is the plain list of key members and their values -/
theorem descrFits_self (t : Ty) : descrFits t t = true := by
  cases t <;> simp [descrFits]

theorem effective_nodup (all : List (KEntry × Val)) (hn : (entryIds all).Nodup) :
    ∀ r, (∀ kv ∈ r, kv ∈ all) → effective all r = .ok r
  | [], _ => rfl
  | (k, v) :: r, h => by
    have hkv := first_last_of_nodup all hn k v (h (k, v) (by simp))
    have ih := effective_nodup all hn r (fun kv hkv => h kv (by simp [hkv]))
    simp [effective, hkv.1, hkv.2, ih, combineTy_self, descrFits_self]

theorem entriesVals_length (kvs : List (KEntry × Val)) : (entriesVals kvs).length = kvs.length := by
  induction kvs with
  | nil => rfl
  | cons x xs ih => cases x; simp [entriesVals, ih]

/-- the key holder is determined by its member list and its values -/
theorem kvs_ext : ∀ (a b : List (KEntry × Val)), a.map Prod.fst = b.map Prod.fst → entriesVals a = entriesVals b → a = b
  | [], [], _, _ => rfl
  | [], _ :: _, h, _ => by simp at h
  | _ :: _, [], h, _ => by simp at h
  | (k1, v1) :: r1, (k2, v2) :: r2, h, hv => by
    simp only [List.map_cons, List.cons.injEq] at h
    simp only [entriesVals, List.cons.injEq] at hv
    rw [h.1, hv.1, kvs_ext r1 r2 h.2 hv.2]

mutual
theorem flatV_fst : (ms : KMs) → (fs : List Val) → ∀ kvs, flatV ms fs = .ok kvs → kvs.map Prod.fst = flatT ms
  | .nil, _, kvs, h => by simp [flatV] at h; subst h; simp [flatT]
  | .cons _ _ _ _ _ _, [], kvs, h => by simp [flatV] at h
  | .cons id opt mu key t rest, f :: fs, kvs, h => by
    simp only [flatV] at h
    cases hr : flatV rest fs with
    | error e => rw [hr] at h; split at h <;> simp_all
    | ok b =>
      rw [hr] at h
      have ihr := flatV_fst rest fs b hr
      cases key with
      | true =>
        cases f <;> simp at h <;> (try (subst h; simp [flatT, ihr]))
      | false =>
        cases opt with
        | true => simp at h; subst h; simp [flatT, ihr]
        | false =>
          simp only [Bool.false_eq_true, if_false] at h
          cases ht : flatVTy t f with
          | error e => rw [ht] at h; simp at h
          | ok a =>
            rw [ht] at h
            simp at h; subst h
            have iht := flatVTy_fst t f a ht
            simp [flatT, ihr, iht]
theorem flatVTy_fst : (t : KTy) → (f : Val) → ∀ kvs, flatVTy t f = .ok kvs → kvs.map Prod.fst = flatTy t
  | .struct _ ms, .struct fs, kvs, h => by simp only [flatVTy] at h; simp [flatTy, flatV_fst ms fs kvs h]
  | .struct _ _, .absent, _, h => by simp [flatVTy] at h
  | .struct _ _, .num _, _, h | .struct _ _, .str _, _, h | .struct _ _, .list _, _, h => by simp [flatVTy] at h
  | .prim _, _, kvs, h | .str, _, kvs, h | .wstr, _, kvs, h | .union _ _ _, _, kvs, h | .enum _ _ _, _, kvs, h | .seq _, _, kvs, h | .arr _ _, _, kvs, h => by
    simp [flatVTy] at h; subst h; simp [flatTy]
end

theorem entriesMs_congr : ∀ (a b : List (KEntry × Val)), a.map Prod.fst = b.map Prod.fst → entriesMs a = entriesMs b
  | [], [], _ => rfl
  | [], _ :: _, h => by simp at h
  | _ :: _, [], h => by simp at h
  | (k1, v1) :: r1, (k2, v2) :: r2, h => by
    simp only [List.map_cons, List.cons.injEq] at h
    simp only [entriesMs, h.1, entriesMs_congr r1 r2 h.2]

/-- what `wfKey` gives for a structure -/
theorem wfKey_struct (cfg : Cfg) (x : Ext) (ms : KMs) (fs : List Val) (h : wfKey cfg (.struct x ms) (.struct fs) = true) :
    ∃ kvs, flatV ms fs = .ok kvs ∧ (entryIds kvs).Nodup ∧ keyHolder (.struct x ms) (.struct fs) = .ok kvs ∧
      wfFs cfg .v1 (entriesMs kvs) (entriesVals kvs) = true ∧ maxSizeMs (entriesMs kvs) (entriesVals kvs) < 2 ^ 32 := by
  simp only [wfKey, keyProj] at h
  cases hf : flatV ms fs with
  | error e => rw [hf] at h; simp at h
  | ok kvs =>
    rw [hf] at h
    simp only [Bool.and_eq_true, decide_eq_true_eq] at h
    refine ⟨kvs, rfl, h.1.1, ?_, h.1.2, h.2⟩
    simp only [keyHolder, keyProj, hf]
    exact effective_nodup kvs h.1.1 kvs (fun _ h => h)

/-- the key serialization is injective on well-formed keys (round trip with remainder) -/
theorem keyBytes_inj (cfg : Cfg) (x : Ext) (ms : KMs) (fs1 fs2 : List Val)
    (h1 : wfKey cfg (.struct x ms) (.struct fs1) = true) (h2 : wfKey cfg (.struct x ms) (.struct fs2) = true)
    (hb : keyBytes cfg (.struct x ms) (.struct fs1) = keyBytes cfg (.struct x ms) (.struct fs2)) :
    flatV ms fs1 = flatV ms fs2 := by
  obtain ⟨k1, hf1, _, hk1, hw1, hs1⟩ := wfKey_struct cfg x ms fs1 h1
  obtain ⟨k2, hf2, _, hk2, hw2, hs2⟩ := wfKey_struct cfg x ms fs2 h2
  have hfst : k1.map Prod.fst = k2.map Prod.fst := by rw [flatV_fst ms fs1 k1 hf1, flatV_fst ms fs2 k2 hf2]
  have hms := entriesMs_congr k1 k2 hfst
  simp only [keyBytes, hk1, hk2, Except.ok.injEq] at hb
  have r1 := rtF cfg .v1 .be (entriesMs k1) (entriesVals k1) hw1 hs1 false 0 []
  have r2 := rtF cfg .v1 .be (entriesMs k2) (entriesVals k2) hw2 hs2 false 0 []
  rw [hms] at r1 hb
  rw [hb, r2] at r1
  injection r1 with hv _
  rw [hf1, hf2, kvs_ext k1 k2 hfst hv.symm]

mutual
theorem tyK_erase : (t : Ty) → (tyK t).erase = t
  | .prim _ => rfl
  | .str => rfl
  | .wstr => rfl
  | .union _ _ _ => rfl
  | .enum _ _ _ => rfl
  | .seq el => by simp [tyK, KTy.erase, tyK_erase el]
  | .arr el n => by simp [tyK, KTy.erase, tyK_erase el]
  | .struct x ms => by simp [tyK, KTy.erase, msK_erase ms]
theorem msK_erase : (ms : Ms) → (msK ms).erase = ms
  | .nil => rfl
  | .cons id opt mu t r => by simp [msK, KMs.erase, tyK_erase t, msK_erase r]
end

/-- the key-holder type has exactly the key members as members, and extracting the key from a key-holder value gives
    the key holder back -/
theorem flatV_entriesKMs : ∀ (kvs : List (KEntry × Val)), (∀ kv ∈ kvs, kv.2 ≠ .absent) →
    flatV (entriesKMs (kvs.map Prod.fst)) (entriesVals kvs) = .ok kvs
  | [], _ => by simp [entriesKMs, flatV]
  | (k, v) :: r, h => by
    have hv : v ≠ .absent := h (k, v) (by simp)
    have ih := flatV_entriesKMs r (fun kv hkv => h kv (by simp [hkv]))
    simp only [List.map_cons, entriesKMs, entriesVals, flatV, if_true, ih, tyK_erase]
    cases v <;> simp_all

mutual
theorem flatV_nonabsent : (ms : KMs) → (fs : List Val) → ∀ kvs, flatV ms fs = .ok kvs → ∀ kv ∈ kvs, kv.2 ≠ .absent
  | .nil, _, kvs, h => by simp [flatV] at h; subst h; simp
  | .cons _ _ _ _ _ _, [], kvs, h => by simp [flatV] at h
  | .cons id opt mu key t rest, f :: fs, kvs, h => by
    simp only [flatV] at h
    cases hr : flatV rest fs with
    | error e => rw [hr] at h; split at h <;> simp_all
    | ok b =>
      rw [hr] at h
      have ihr := flatV_nonabsent rest fs b hr
      cases key with
      | true =>
        cases f <;> simp at h <;>
          (try (subst h; intro kv hkv; simp only [List.cons_append, List.nil_append, List.mem_cons] at hkv
                rcases hkv with rfl | hkv
                · simp
                · exact ihr kv hkv))
      | false =>
        cases opt with
        | true => simp at h; subst h; exact ihr
        | false =>
          simp only [Bool.false_eq_true, if_false] at h
          cases ht : flatVTy t f with
          | error e => rw [ht] at h; simp at h
          | ok a =>
            rw [ht] at h
            simp at h; subst h
            have iht := flatVTy_nonabsent t f a ht
            intro kv hkv
            rcases List.mem_append.mp hkv with h1 | h1
            · exact iht kv h1
            · exact ihr kv h1
theorem flatVTy_nonabsent : (t : KTy) → (f : Val) → ∀ kvs, flatVTy t f = .ok kvs → ∀ kv ∈ kvs, kv.2 ≠ .absent
  | .struct _ ms, .struct fs, kvs, h => by simp only [flatVTy] at h; exact flatV_nonabsent ms fs kvs h
  | .struct _ _, .absent, _, h => by simp [flatVTy] at h
  | .struct _ _, .num _, _, h | .struct _ _, .str _, _, h | .struct _ _, .list _, _, h => by simp [flatVTy] at h
  | .prim _, _, kvs, h | .str, _, kvs, h | .wstr, _, kvs, h | .union _ _ _, _, kvs, h | .enum _ _ _, _, kvs, h | .seq _, _, kvs, h | .arr _ _, _, kvs, h => by
    simp [flatVTy] at h; subst h; simp
end

/-! ### fixed-size key types (C12) -/
theorem wList_fixed (f : Val → Nat → W) (g : Nat → Option Nat) (vs : List Val)
    (h : ∀ v ∈ vs, ∀ pos p, g pos = some p → (f v pos).2 = p) :
    ∀ pos p, iterOpt g vs.length pos = some p → (wList f vs pos).2 = p := by
  induction vs with
  | nil => intro pos p hp; simp [iterOpt] at hp; simp [wList, hp]
  | cons v vs ih =>
    intro pos p hp
    simp only [List.length_cons, iterOpt] at hp
    cases hg : g pos with
    | none => rw [hg] at hp; simp at hp
    | some q =>
      rw [hg] at hp
      have hv := h v (by simp) pos q hg
      simp only [wList, hv]
      exact ih (fun w hw => h w (by simp [hw])) q p hp

mutual
theorem fixed_ser (cfg : Cfg) (e : Endian) : (t : Ty) → (v : Val) → wfVal cfg .v1 t v = true →
    ∀ pos p, fixedSizeTy t pos = some p → (ser cfg .v1 e t v pos).2 = p
  | .prim pr, .num n, h, pos, p, hp => by
    simp only [wfVal] at h
    simp only [fixedSizeTy, Option.some.injEq] at hp
    simp only [ser, wPrim, primBytes_length e pr n h]; omega
  | .enum hd ls _, .num n, h, pos, p, hp => by
    simp only [wfVal, Bool.and_eq_true, decide_eq_true_eq] at h
    simp only [fixedSizeTy, Option.some.injEq] at hp
    simp only [ser, wPrim, primBytes_length e hd n (enum_primOk hd n h.1.1 h.1.2)]; omega
  | .arr el n, .list vs, h, pos, p, hp => by
    simp only [wfVal, Bool.and_eq_true, decide_eq_true_eq, List.all_eq_true, beq_iff_eq] at h
    obtain ⟨⟨⟨⟨_, _⟩, hn⟩, _⟩, hall⟩ := h
    simp only [fixedSizeTy] at hp
    subst hn
    have hv : (Ver.v1 == Ver.v1) = true := by decide
    simp only [ser, hv, Bool.or_true, if_true]
    exact wList_fixed _ _ vs (fun v hv pos p hp => fixed_ser cfg e el v (hall v hv) pos p hp) pos p hp
  | .struct .final ms, .struct fs, h, pos, p, hp => by
    simp only [wfVal] at h
    simp only [fixedSizeTy] at hp
    simp only [ser]; exact fixed_serF cfg e ms fs h pos p hp
  | .struct .appendable ms, .struct fs, h, pos, p, hp => by
    simp only [wfVal] at h
    simp only [fixedSizeTy] at hp
    have hv : (Ver.v1 == Ver.v1) = true := by decide
    simp only [ser, hv, if_true]; exact fixed_serF cfg e ms fs h pos p hp
  | .struct .mutable _, _, _, _, _, hp => by simp [fixedSizeTy] at hp
  | .str, _, _, _, _, hp => by simp [fixedSizeTy] at hp
  | .wstr, _, _, _, _, hp => by simp [fixedSizeTy] at hp
  | .union _ _ _, _, _, _, _, hp => by simp [fixedSizeTy] at hp
  | .seq _, _, _, _, _, hp => by simp [fixedSizeTy] at hp
  | .prim _, .str _, h, _, _, _ | .prim _, .list _, h, _, _, _ | .prim _, .struct _, h, _, _, _ | .prim _, .absent, h, _, _, _ => by simp [wfVal] at h
  | .enum _ _ _, .str _, h, _, _, _ | .enum _ _ _, .list _, h, _, _, _ | .enum _ _ _, .struct _, h, _, _, _ | .enum _ _ _, .absent, h, _, _, _ => by simp [wfVal] at h
  | .arr _ _, .num _, h, _, _, _ | .arr _ _, .str _, h, _, _, _ | .arr _ _, .struct _, h, _, _, _ | .arr _ _, .absent, h, _, _, _ => by simp [wfVal] at h
  | .struct .final _, .num _, h, _, _, _ | .struct .final _, .str _, h, _, _, _ | .struct .final _, .list _, h, _, _, _ | .struct .final _, .absent, h, _, _, _ => by simp [wfVal] at h
  | .struct .appendable _, .num _, h, _, _, _ | .struct .appendable _, .str _, h, _, _, _ | .struct .appendable _, .list _, h, _, _, _ | .struct .appendable _, .absent, h, _, _, _ => by simp [wfVal] at h
theorem fixed_serF (cfg : Cfg) (e : Endian) : (ms : Ms) → (fs : List Val) → wfFs cfg .v1 ms fs = true →
    ∀ pos p, fixedSizeMs ms pos = some p → (serF cfg .v1 e ms fs pos).2 = p
  | .nil, [], _, pos, p, hp => by simp [fixedSizeMs] at hp; simp [serF, hp]
  | .cons id opt mu t r, f :: fs, h, pos, p, hp => by
    simp only [wfFs, Bool.and_eq_true] at h
    obtain ⟨hm, hr⟩ := h
    simp only [fixedSizeMs] at hp
    cases opt with
    | true => simp at hp
    | false =>
      simp only [Bool.false_eq_true, if_false] at hp
      cases hq : fixedSizeTy t pos with
      | none => rw [hq] at hp; simp at hp
      | some q =>
        rw [hq] at hp
        have hw : wfVal cfg .v1 t f = true := by cases f <;> simp_all
        have h1 := fixed_ser cfg e t f hw pos q hq
        simp only [serF, wFMember, Bool.false_eq_true, if_false, h1]
        exact fixed_serF cfg e r fs hr q p hp
  | .nil, _ :: _, h, _, _, _ => by simp [wfFs] at h
  | .cons _ _ _ _ _, [], h, _, _, _ => by simp [wfFs] at h
end

/-! ### inside the round-trip subset the XCDR1 serializer does not panic -/
theorem pidOverflow_small (id : Nat) (mu : Bool) (h : id % 2 ^ 16 < 2 ^ 14) : pidOverflow id mu = false := by
  cases mu <;> simp [pidOverflow] <;> omega

mutual
theorem wf_noPanic (cfg : Cfg) : (t : Ty) → (v : Val) → wfVal cfg .v1 t v = true → serPanics1 t v = false
  | .seq el, .list vs, h => by
    simp only [wfVal, Bool.and_eq_true, List.all_eq_true] at h
    simp only [serPanics1, List.any_eq_false]
    intro v hv; simp [wf_noPanic cfg el v (h.2 v hv)]
  | .arr el n, .list vs, h => by
    simp only [wfVal, Bool.and_eq_true, List.all_eq_true] at h
    simp only [serPanics1, List.any_eq_false]
    intro v hv; simp [wf_noPanic cfg el v (h.2 v hv)]
  | .struct .final ms, .struct fs, h => by
    simp only [wfVal] at h
    have hx : (Ext.final == Ext.mutable) = false := by decide
    simp only [serPanics1, hx]; exact wfFs_noPanic cfg ms fs h
  | .struct .appendable ms, .struct fs, h => by
    simp only [wfVal] at h
    have hx : (Ext.appendable == Ext.mutable) = false := by decide
    simp only [serPanics1, hx]; exact wfFs_noPanic cfg ms fs h
  | .struct .mutable ms, .struct fs, h => by
    simp only [wfVal, Bool.and_eq_true] at h
    have hx : (Ext.mutable == Ext.mutable) = true := by decide
    simp only [serPanics1, hx]; exact wfM_noPanic cfg ms fs h.2
  | .union app disc bs, .struct fs, h => by
    simp only [wfVal] at h
    split at h
    · rename_i d bid v
      simp only [Bool.and_eq_true] at h
      simp only [serPanics1]
      exact wfB_noPanic cfg bs bid v h.2
    · simp [serPanics1]
    · simp at h
  | .union _ _ _, .num _, _ | .union _ _ _, .str _, _ | .union _ _ _, .list _, _ | .union _ _ _, .absent, _ => by simp [serPanics1]
  | .prim _, _, _ | .str, _, _ | .wstr, _, _ | .enum _ _ _, _, _ => by simp [serPanics1]
  | .seq _, .num _, _ | .seq _, .str _, _ | .seq _, .struct _, _ | .seq _, .absent, _ => by simp [serPanics1]
  | .arr _ _, .num _, _ | .arr _ _, .str _, _ | .arr _ _, .struct _, _ | .arr _ _, .absent, _ => by simp [serPanics1]
  | .struct _ _, .num _, _ | .struct _ _, .str _, _ | .struct _ _, .list _, _ | .struct _ _, .absent, _ => by simp [serPanics1]
theorem wfB_noPanic (cfg : Cfg) : (bs : Bs) → (bid : Nat) → (v : Val) → wfB cfg .v1 bs bid v = true →
    serPanics1B bs bid v = false
  | .nil, _, _, _ => by simp [serPanics1B]
  | .cons id' _ _ t r, bid, v, h => by
    simp only [wfB] at h
    simp only [serPanics1B]
    split
    · rename_i hq
      simp only [hq, if_true] at h
      exact wf_noPanic cfg t v h
    · rename_i hq
      simp only [hq, Bool.false_eq_true, if_false] at h
      exact wfB_noPanic cfg r bid v h
theorem wfM_noPanic (cfg : Cfg) : (ms : Ms) → (fs : List Val) → wfM cfg .v1 ms fs = true → serPanics1Ms true ms fs = false
  | .nil, [], _ => by simp [serPanics1Ms]
  | .cons id opt mu t r, f :: fs, h => by
    simp only [wfM, Bool.and_eq_true] at h
    have hr := wfM_noPanic cfg r fs h.2
    cases f with
    | absent => simp [serPanics1Ms, hr]
    | num n =>
      have h1 := h.1; simp only [Bool.and_eq_true, decide_eq_true_eq] at h1
      simp [serPanics1Ms, hr, wf_noPanic cfg t _ h1.1, pidOverflow_small id mu h1.2.1.1.1]
    | str n =>
      have h1 := h.1; simp only [Bool.and_eq_true, decide_eq_true_eq] at h1
      simp [serPanics1Ms, hr, wf_noPanic cfg t _ h1.1, pidOverflow_small id mu h1.2.1.1.1]
    | list n =>
      have h1 := h.1; simp only [Bool.and_eq_true, decide_eq_true_eq] at h1
      simp [serPanics1Ms, hr, wf_noPanic cfg t _ h1.1, pidOverflow_small id mu h1.2.1.1.1]
    | struct n =>
      have h1 := h.1; simp only [Bool.and_eq_true, decide_eq_true_eq] at h1
      simp [serPanics1Ms, hr, wf_noPanic cfg t _ h1.1, pidOverflow_small id mu h1.2.1.1.1]
  | .nil, _ :: _, h => by simp [wfM] at h
  | .cons _ _ _ _ _, [], h => by simp [wfM] at h
theorem wfFs_noPanic (cfg : Cfg) : (ms : Ms) → (fs : List Val) → wfFs cfg .v1 ms fs = true → serPanics1Ms false ms fs = false
  | .nil, [], _ => by simp [serPanics1Ms]
  | .cons id opt mu t r, f :: fs, h => by
    simp only [wfFs, Bool.and_eq_true] at h
    have hr := wfFs_noPanic cfg r fs h.2
    have hv : (Ver.v1 == Ver.v2) = false := by decide
    cases f with
    | absent =>
      have h1 := h.1; simp only [hv, Bool.false_or, Bool.and_eq_true, Bool.not_eq_true'] at h1
      simp [serPanics1Ms, hr, h1.2.2]
    | num n =>
      have h1 := h.1; simp only [hv, Bool.or_false, Bool.false_or, Bool.and_eq_true, Bool.or_eq_true, Bool.not_eq_true', decide_eq_true_eq] at h1
      have hw := wf_noPanic cfg t _ h1.1
      rcases h1.2 with ho | ho
      · simp [serPanics1Ms, hr, hw, ho]
      · simp [serPanics1Ms, hr, hw, ho.1.1.2]
    | str n =>
      have h1 := h.1; simp only [hv, Bool.or_false, Bool.false_or, Bool.and_eq_true, Bool.or_eq_true, Bool.not_eq_true', decide_eq_true_eq] at h1
      have hw := wf_noPanic cfg t _ h1.1
      rcases h1.2 with ho | ho
      · simp [serPanics1Ms, hr, hw, ho]
      · simp [serPanics1Ms, hr, hw, ho.1.1.2]
    | list n =>
      have h1 := h.1; simp only [hv, Bool.or_false, Bool.false_or, Bool.and_eq_true, Bool.or_eq_true, Bool.not_eq_true', decide_eq_true_eq] at h1
      have hw := wf_noPanic cfg t _ h1.1
      rcases h1.2 with ho | ho
      · simp [serPanics1Ms, hr, hw, ho]
      · simp [serPanics1Ms, hr, hw, ho.1.1.2]
    | struct n =>
      have h1 := h.1; simp only [hv, Bool.or_false, Bool.false_or, Bool.and_eq_true, Bool.or_eq_true, Bool.not_eq_true', decide_eq_true_eq] at h1
      have hw := wf_noPanic cfg t _ h1.1
      rcases h1.2 with ho | ho
      · simp [serPanics1Ms, hr, hw, ho]
      · simp [serPanics1Ms, hr, hw, ho.1.1.2]
  | .nil, _ :: _, h => by simp [wfFs] at h
  | .cons _ _ _ _ _, [], h => by simp [wfFs] at h
end

theorem keySerFails_none (cfg : Cfg) (all : List (KEntry × Val)) (hn : (entryIds all).Nodup) :
    ∀ r, (∀ kv ∈ r, kv ∈ all) → wfFs cfg .v1 (entriesMs r) (entriesVals r) = true → keySerFails all r = none
  | [], _, _ => rfl
  | (k, v) :: r, h, hw => by
    have hkv := first_last_of_nodup all hn k v (h (k, v) (by simp))
    simp only [entriesMs, entriesVals, wfFs, Bool.and_eq_true] at hw
    have ih := keySerFails_none cfg all hn r (fun kv hkv => h kv (by simp [hkv])) hw.2
    have h1 : wfFs cfg .v1 (.cons k.id k.opt k.mu k.ty .nil) [v] = true := by
      simp only [wfFs, Bool.and_eq_true, and_true]; exact hw.1
    have hp := wfFs_noPanic cfg _ _ h1
    simp only [keySerFails, hkv.1, hkv.2, combineTy_self, descrFits_self, Bool.not_true, Bool.false_eq_true, if_false, hp, ih]

/-- inside `wfKey` the real function returns what `handle` says (no error, no panic) -/
theorem handleOutcome_of_wfKey (cfg : Cfg) (t : KTy) (v : Val) (h : wfKey cfg t v = true) :
    handleOutcome cfg t v = some (handle cfg t v) := by
  simp only [wfKey] at h
  simp only [handleOutcome]
  cases hk : keyProj t v with
  | error e => rw [hk] at h; simp at h
  | ok kvs =>
    rw [hk] at h
    simp only [Bool.and_eq_true, decide_eq_true_eq] at h
    simp only [keySerFails_none cfg kvs h.1.1 kvs (fun _ hm => hm) h.1.2]

end DustVerif.Xcdr
