import DustVerif.Model.ReaderHist
/-! Helper lemmas about the reader-history model (lists, counting, characterisation of addChange). -/
namespace DustVerif.Hist

/-- the three limit tests of `finishAdd`, in the order the code evaluates them -/
def hitSamples (q : Qos) (l : List Sample) (h : Nat) : Bool :=
  limitHit q.maxSamples (cnt isAlive l - replacedCount q l h)
def hitInsts (q : Qos) (l : List Sample) (h : Nat) : Bool :=
  !(distinctInsts l []).contains h && limitHit q.maxInst (distinctInsts l []).length
def hitSpi (q : Qos) (l : List Sample) (h : Nat) : Bool :=
  limitHit q.maxSpi (cnt (isInst h) l - replacedCount q l h)

/-- the reported reason is the first limit that is hit -/
def RejWhy (q : Qos) (l : List Sample) (h : Nat) : Reject → Prop
  | .samples => hitSamples q l h = true
  | .instances => hitSamples q l h = false ∧ hitInsts q l h = true
  | .spi => hitSamples q l h = false ∧ hitInsts q l h = false ∧ hitSpi q l h = true

def NoLimitHit (q : Qos) (l : List Sample) (h : Nat) : Prop :=
  hitSamples q l h = false ∧ hitInsts q l h = false ∧ hitSpi q l h = false

theorem finishAdd_cases (s2 : St) (x : Sample) (rts : Nat) :
    (∃ why, (finishAdd s2 x rts).2 = .rejected x.inst why ∧ (finishAdd s2 x rts).1.samples = s2.samples
        ∧ (finishAdd s2 x rts).1.qos = s2.qos
        ∧ (finishAdd s2 x rts).1.rej.total = s2.rej.total + 1
        ∧ (finishAdd s2 x rts).1.rej.reason = some why ∧ (finishAdd s2 x rts).1.rej.inst = x.inst
        ∧ RejWhy s2.qos s2.samples x.inst why) ∨
    ((finishAdd s2 x rts).2 = .added ∧ (finishAdd s2 x rts).1.samples = storeSample s2.qos s2.samples x
        ∧ (finishAdd s2 x rts).1.qos = s2.qos ∧ (finishAdd s2 x rts).1.rej = s2.rej
        ∧ NoLimitHit s2.qos s2.samples x.inst) := by
  generalize hr : finishAdd s2 x rts = r
  unfold finishAdd at hr
  simp only [] at hr
  split at hr
  · rename_i h1
    subst hr; exact Or.inl ⟨.samples, rfl, rfl, rfl, rfl, rfl, rfl, h1⟩
  · rename_i h1
    split at hr
    · rename_i h2
      subst hr; exact Or.inl ⟨.instances, rfl, rfl, rfl, rfl, rfl, rfl, by simpa [hitSamples] using h1, h2⟩
    · rename_i h2
      split at hr
      · rename_i h3
        subst hr
        exact Or.inl ⟨.spi, rfl, rfl, rfl, rfl, rfl, rfl, by simpa [hitSamples] using h1,
          by simpa [hitInsts] using h2, h3⟩
      · rename_i h3
        subst hr
        exact Or.inr ⟨rfl, rfl, rfl, rfl, by simpa [hitSamples] using h1, by simpa [hitInsts] using h2,
          by simpa [hitSpi] using h3⟩

/-- what `afterOwnership` can do to the sample list -/
theorem afterOwnership_cases (s1 : St) (owns2 : List Own) (x : Sample) (rts : Nat) :
    (afterOwnership s1 owns2 x rts).1.qos = s1.qos ∧
    (((afterOwnership s1 owns2 x rts).2 = .notAdded ∧ (afterOwnership s1 owns2 x rts).1.samples = s1.samples
        ∧ (afterOwnership s1 owns2 x rts).1.rej = s1.rej) ∨
     (∃ why, (afterOwnership s1 owns2 x rts).2 = .rejected x.inst why
        ∧ (afterOwnership s1 owns2 x rts).1.samples = s1.samples
        ∧ (afterOwnership s1 owns2 x rts).1.rej.total = s1.rej.total + 1
        ∧ (afterOwnership s1 owns2 x rts).1.rej.reason = some why
        ∧ (afterOwnership s1 owns2 x rts).1.rej.inst = x.inst
        ∧ RejWhy s1.qos s1.samples x.inst why) ∨
     ((afterOwnership s1 owns2 x rts).2 = .added
        ∧ (afterOwnership s1 owns2 x rts).1.samples = storeSample s1.qos s1.samples x
        ∧ (afterOwnership s1 owns2 x rts).1.rej = s1.rej
        ∧ timeOk s1.qos s1.samples x.inst x.sts = true
        ∧ NoLimitHit s1.qos s1.samples x.inst)) := by
  generalize hr : afterOwnership s1 owns2 x rts = r
  unfold afterOwnership at hr
  simp only [] at hr
  split at hr
  · subst hr; exact ⟨rfl, Or.inl ⟨rfl, rfl, rfl⟩⟩
  · rename_i ht
    rcases finishAdd_cases { s1 with owns := if x.kind.isAliveKind then owns2 else eraseOwn x.inst owns2 } x rts with
      ⟨why, h1, h2, h3, h4, h5, h6, h7⟩ | ⟨h1, h2, h3, h4, h5⟩
    · rw [hr] at h1 h2 h3 h4 h5 h6
      exact ⟨h3, Or.inr (Or.inl ⟨why, h1, h2, h4, h5, h6, h7⟩)⟩
    · rw [hr] at h1 h2 h3 h4
      refine ⟨h3, Or.inr (Or.inr ⟨h1, h2, h4, ?_, h5⟩)⟩
      simpa using ht

/-- characterisation of `addChange` on the stored samples, the QoS and the rejected status -/
theorem addChange_cases (s : St) (w : Nat) (data : String) (k : Kind) (h : Nat) (sts : Option Nat) (rts : Nat) :
    (addChange s w data k h sts rts).1.qos = s.qos ∧
    (((addChange s w data k h sts rts).2 = .error ∧ (addChange s w data k h sts rts).1 = s) ∨
     ((addChange s w data k h sts rts).2 = .notAdded ∧ (addChange s w data k h sts rts).1.samples = s.samples
        ∧ (addChange s w data k h sts rts).1.rej = s.rej) ∨
     (∃ why, (addChange s w data k h sts rts).2 = .rejected h why
        ∧ (addChange s w data k h sts rts).1.samples = s.samples
        ∧ (addChange s w data k h sts rts).1.rej.total = s.rej.total + 1
        ∧ (addChange s w data k h sts rts).1.rej.reason = some why
        ∧ (addChange s w data k h sts rts).1.rej.inst = h
        ∧ RejWhy s.qos s.samples h why) ∨
     (∃ dgc nwgc, (addChange s w data k h sts rts).2 = .added
        ∧ (addChange s w data k h sts rts).1.samples = storeSample s.qos s.samples (mkSample w data k h sts dgc nwgc)
        ∧ (addChange s w data k h sts rts).1.rej = s.rej ∧ timeOk s.qos s.samples h sts = true
        ∧ NoLimitHit s.qos s.samples h)) := by
  generalize hr : addChange s w data k h sts rts = r
  unfold addChange at hr
  split at hr
  · subst hr; exact ⟨rfl, Or.inl ⟨rfl, rfl⟩⟩
  · rename_i insts1 _
    simp only [] at hr
    split at hr
    · subst hr; exact ⟨rfl, Or.inr (Or.inl ⟨rfl, rfl, rfl⟩)⟩
    · rename_i owns2 _
      have := afterOwnership_cases { s with insts := insts1 } owns2
        (mkSample w data k h sts (gensOf h insts1).1 (gensOf h insts1).2) rts
      rw [hr] at this
      obtain ⟨hq, hc⟩ := this
      refine ⟨hq, ?_⟩
      rcases hc with ⟨h1, h2, h3⟩ | ⟨why, h1, h2, h3, h4, h5, h6⟩ | ⟨h1, h2, h3, h4, h5⟩
      · exact Or.inr (Or.inl ⟨h1, h2, h3⟩)
      · exact Or.inr (Or.inr (Or.inl ⟨why, h1, h2, h3, h4, h5, h6⟩))
      · exact Or.inr (Or.inr (Or.inr ⟨_, _, h1, h2, h3, h4, h5⟩))

/-- `remove_matched_publication` touches only the publication list and the ownership list -/
theorem removePub_cases (s : St) (w : Nat) :
    removePub s w = s ∨ ∃ p o, removePub s w = { s with pubs := p, owns := o } := by
  unfold removePub
  split
  · exact Or.inr ⟨_, _, rfl⟩
  · exact Or.inl rfl

/-! ### counting lemmas -/

theorem cnt_append (p : Sample → Bool) (a b : List Sample) : cnt p (a ++ b) = cnt p a + cnt p b := by
  induction a with
  | nil => simp [cnt]
  | cons x xs ih => simp [cnt, ih]; omega

@[simp] theorem cnt_nil (p : Sample → Bool) : cnt p [] = 0 := rfl
@[simp] theorem cnt_cons (p : Sample → Bool) (x : Sample) (xs : List Sample) :
    cnt p (x :: xs) = (if p x then 1 else 0) + cnt p xs := rfl
@[simp] theorem eraseFirst_nil (p : Sample → Bool) : eraseFirst p [] = [] := rfl
theorem eraseFirst_cons (p : Sample → Bool) (x : Sample) (xs : List Sample) :
    eraseFirst p (x :: xs) = if p x then xs else x :: eraseFirst p xs := rfl

theorem cnt_eraseFirst_same (p : Sample → Bool) (l : List Sample) (h : 0 < cnt p l) :
    cnt p (eraseFirst p l) + 1 = cnt p l := by
  induction l with
  | nil => simp at h
  | cons x xs ih =>
    rw [eraseFirst_cons]
    by_cases hp : p x = true
    · simp [hp]; omega
    · have hp' : p x = false := by simpa using hp
      simp only [cnt_cons, hp', Bool.false_eq_true, if_false] at h ⊢
      have := ih (by omega)
      omega

theorem cnt_eraseFirst_le (p q : Sample → Bool) (l : List Sample) : cnt q (eraseFirst p l) ≤ cnt q l := by
  induction l with
  | nil => simp
  | cons x xs ih =>
    rw [eraseFirst_cons]
    by_cases hp : p x = true
    · simp [hp]
    · simp [hp]; omega

/-- erasing the first `p` element does not change the count of a predicate disjoint from `p` -/
theorem cnt_eraseFirst_other (p q : Sample → Bool) (l : List Sample)
    (hd : ∀ x, p x = true → q x = false) : cnt q (eraseFirst p l) = cnt q l := by
  induction l with
  | nil => simp
  | cons x xs ih =>
    rw [eraseFirst_cons]
    by_cases hp : p x = true
    · simp [hp, hd x hp]
    · simp [hp, ih]

theorem cnt_insertAt (p : Sample → Bool) (x : Sample) (n : Nat) (l : List Sample) :
    cnt p (insertAt x n l) = (if p x then 1 else 0) + cnt p l := by
  induction l generalizing n with
  | nil => cases n <;> simp [insertAt, cnt]
  | cons y ys ih =>
    cases n with
    | zero => simp [insertAt, cnt]
    | succ n => simp [insertAt, cnt, ih]; omega

/-- count after `storeSample` without looking at the order -/
theorem cnt_storeSample (q : Qos) (p : Sample → Bool) (l : List Sample) (x : Sample) :
    cnt p (storeSample q l x) = (if p x then 1 else 0) +
      cnt p (if replacedCount q l x.inst = 1 then eraseFirst (isAliveOf x.inst) l else l) := by
  unfold storeSample
  simp only []
  split
  · rw [cnt_insertAt]
  · rw [cnt_append]; simp [cnt]; omega

end DustVerif.Hist
