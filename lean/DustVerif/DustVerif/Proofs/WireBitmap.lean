import DustVerif.Proofs.WireRoundTrip
/-! Bit-level facts about the 8-word RTPS bitmaps: `getBit`/`setBit`, extensionality, and what the
    constructors `SequenceNumberSet::new` / `FragmentNumberSet::new` build (C08). -/
namespace DustVerif.Wire
open Outcome

theorem length_setBit (bm : List Nat) (d : Nat) : (setBit bm d).length = bm.length := by simp [setBit]

theorem getBit_setBit (bm : List Nat) (d d' : Nat) (hl : bm.length = 8) (hd : d < 256) :
    getBit (setBit bm d) d' = (decide (d = d') || getBit bm d') := by
  unfold getBit setBit
  by_cases hw : d / 32 = d' / 32
  · have hi : d' / 32 < bm.length := by omega
    rw [hw]
    simp only [List.getD_eq_getElem?_getD, List.getElem?_set_self hi, Option.getD_some, Nat.testBit_or,
      Nat.testBit_two_pow]
    by_cases he : d = d'
    · subst he; simp
    · have : ¬ (31 - d % 32 = 31 - d' % 32) := by omega
      simp [he, this]
  · have : ¬ d = d' := by intro h; subst h; exact hw rfl
    simp [List.getD_eq_getElem?_getD, List.getElem?_set_ne hw, this]

theorem setBit_lt (bm : List Nat) (d : Nat) (h : ∀ w ∈ bm, w < 4294967296) :
    ∀ w ∈ setBit bm d, w < 4294967296 := by
  intro w hw
  unfold setBit at hw
  rcases List.mem_or_eq_of_mem_set hw with hw | hw
  · exact h w hw
  · subst hw
    have h1 : bm.getD (d / 32) 0 < 2 ^ 32 := by
      rw [List.getD_eq_getElem?_getD]
      cases hg : bm[d / 32]? with
      | none => simp
      | some x =>
        simp
        have := h x (List.mem_of_getElem? hg)
        omega
    have h2 : 2 ^ (31 - d % 32) < 2 ^ 32 := Nat.pow_lt_pow_right (by omega) (by omega)
    have := Nat.or_lt_two_pow h1 h2
    omega

/-- two 8-word bitmaps of 32-bit words with the same 256 bits are equal -/
theorem bitmap_ext (a b : List Nat) (ha : a.length = 8) (hb : b.length = 8)
    (hwa : ∀ w ∈ a, w < 4294967296) (hwb : ∀ w ∈ b, w < 4294967296)
    (h : ∀ d, d < 256 → getBit a d = getBit b d) : a = b := by
  apply List.ext_getElem (by omega)
  intro i h1 h2
  apply Nat.eq_of_testBit_eq
  intro j
  have wa : a[i] < 2 ^ 32 := by have := hwa a[i] (List.getElem_mem h1); omega
  have wb : b[i] < 2 ^ 32 := by have := hwb b[i] (List.getElem_mem h2); omega
  by_cases hj : j < 32
  · have := h (32 * i + (31 - j)) (by omega)
    unfold getBit at this
    have e1 : (32 * i + (31 - j)) / 32 = i := by omega
    have e2 : 31 - (32 * i + (31 - j)) % 32 = j := by omega
    rw [e1, e2] at this
    simpa [List.getD_eq_getElem?_getD, List.getElem?_eq_getElem h1, List.getElem?_eq_getElem h2] using this
  · have p : 2 ^ 32 ≤ 2 ^ j := Nat.pow_le_pow_right (by omega) (by omega)
    rw [Nat.testBit_lt_two_pow (by omega), Nat.testBit_lt_two_pow (by omega)]

theorem getBit_zero (d : Nat) : getBit zeroBitmap d = false := by
  unfold getBit zeroBitmap
  rw [List.getD_eq_getElem?_getD]
  cases h : ([0, 0, 0, 0, 0, 0, 0, 0] : List Nat)[d / 32]? with
  | none => simp
  | some x =>
    have := List.mem_of_getElem? h
    simp at this
    subst this
    simp


/-- words at and beyond `M = ceil(numBits/32)` are zero when no bit at or beyond `numBits` is set -/
theorem drop_zero_of_bits (bm : List Nat) (nb : Nat) (hl : bm.length = 8) (hw : ∀ w ∈ bm, w < 4294967296)
    (hz : ∀ d, d < 256 → nb ≤ d → getBit bm d = false) :
    bm.drop (divCeil32 nb) = List.replicate (8 - divCeil32 nb) 0 := by
  apply List.ext_getElem
  · simp [hl]
  · intro i h1 h2
    simp only [List.getElem_drop, List.getElem_replicate]
    simp only [List.length_drop, hl] at h1
    have hidx : divCeil32 nb + i < bm.length := by omega
    apply Nat.eq_of_testBit_eq
    intro j
    have wb : bm[divCeil32 nb + i] < 2 ^ 32 := by
      have := hw _ (List.getElem_mem hidx); omega
    simp only [Nat.zero_testBit]
    by_cases hj : j < 32
    · have hd : 32 * (divCeil32 nb + i) + (31 - j) < 256 := by omega
      have hge : nb ≤ 32 * (divCeil32 nb + i) + (31 - j) := by unfold divCeil32; omega
      have := hz _ hd hge
      unfold getBit at this
      have e1 : (32 * (divCeil32 nb + i) + (31 - j)) / 32 = divCeil32 nb + i := by omega
      have e2 : 31 - (32 * (divCeil32 nb + i) + (31 - j)) % 32 = j := by omega
      rw [e1, e2] at this
      simpa [List.getD_eq_getElem?_getD, List.getElem?_eq_getElem hidx] using this
    · have p : 2 ^ 32 ≤ 2 ^ j := Nat.pow_le_pow_right (by omega) (by omega)
      exact Nat.testBit_lt_two_pow (by omega)

/-! ### FragmentNumberSet: decode = expand the bits, then `new` -/
/-- the members in ascending order, as the decoder's loop collects them -/
def expandList (base : Nat) (bm : List Nat) : Nat → List Nat
  | 0 => []
  | k + 1 => expandList base bm k ++ (if getBit bm k then [base + k] else [])

theorem fnExpandTo_ok (g : Bool) (base : Nat) (bm : List Nat) (k : Nat) (h : base + k ≤ 4294967296) :
    fnExpandTo g base bm k = ok (expandList base bm k) := by
  induction k with
  | zero => simp [fnExpandTo, expandList]
  | succ k ih =>
    rw [fnExpandTo, ih (by omega)]
    simp only [expandList]
    have : ¬ base + k ≥ P32 := by unfold P32; omega
    by_cases hb : getBit bm k = true
    · simp [hb, this]
    · simp [hb]

theorem fnsetNewLoop_append (base : Nat) (l1 l2 : List Nat) (nb : Nat) (bm : List Nat) :
    fnsetNewLoop base (l1 ++ l2) nb bm =
      (match fnsetNewLoop base l1 nb bm with
       | ok (nb', bm') => fnsetNewLoop base l2 nb' bm'
       | err e => err e
       | .panic => .panic) := by
  induction l1 generalizing nb bm with
  | nil => simp [fnsetNewLoop]
  | cons x l1 ih =>
    simp only [List.cons_append, fnsetNewLoop]
    by_cases h1 : x < base
    · simp [h1]
    · simp only [h1, if_false]
      by_cases h2 : (x - base) / 32 ≥ 8
      · simp [h2]
      · simp only [h2, if_false]
        exact ih _ _

theorem fnsetNewLoop_expand (base : Nat) (bm : List Nat) (k : Nat) (hk : k ≤ 256) :
    ∃ nb' bm', fnsetNewLoop base (expandList base bm k) 0 zeroBitmap = ok (nb', bm') ∧
      bm'.length = 8 ∧ (∀ w ∈ bm', w < 4294967296) ∧
      (∀ d, d < 256 → getBit bm' d = (decide (d < k) && getBit bm d)) ∧
      nb' ≤ k ∧ (∀ d, d < k → getBit bm d = true → d < nb') := by
  induction k with
  | zero =>
    refine ⟨0, zeroBitmap, by simp [expandList, fnsetNewLoop], by simp [zeroBitmap], ?_, ?_, by omega, ?_⟩
    · intro w hw; simp [zeroBitmap] at hw; omega
    · intro d _; simp [getBit_zero]
    · intro d hd; omega
  | succ k ih =>
    obtain ⟨nb', bm', he, hl, hw, hb, hn, hm⟩ := ih (by omega)
    simp only [expandList]
    rw [fnsetNewLoop_append, he]
    simp only []
    by_cases hbit : getBit bm k = true
    · simp only [hbit, if_true]
      have h1 : ¬ base + k < base := by omega
      have h2 : ¬ (base + k - base) / 32 ≥ 8 := by omega
      have h3 : base + k - base = k := by omega
      have h4 : k + 1 > nb' := by omega
      refine ⟨k + 1, setBit bm' k, ?_, ?_, ?_, ?_, by omega, ?_⟩
      · simp [fnsetNewLoop, h1, h3, h4]
        omega
      · simp [length_setBit, hl]
      · exact setBit_lt bm' k hw
      · intro d hd
        rw [getBit_setBit bm' k d hl (by omega), hb d hd]
        by_cases hdk : k = d
        · subst hdk; simp [hbit]
        · have : (decide (d < k + 1)) = decide (d < k) := by
            by_cases hlt : d < k
            · simp [hlt]; omega
            · simp [hlt]; omega
          simp [hdk, this]
      · intro d hd _; omega
    · simp only [hbit]
      refine ⟨nb', bm', by simp [fnsetNewLoop], hl, hw, ?_, by omega, ?_⟩
      · intro d hd
        rw [hb d hd]
        by_cases hdk : d = k
        · subst hdk; simp [hbit]
        · have : (decide (d < k + 1)) = decide (d < k) := by
            by_cases hlt : d < k
            · simp [hlt]; omega
            · simp [hlt]; omega
          rw [this]
      · intro d hd hbd
        by_cases hdk : d = k
        · subst hdk; exact absurd hbd hbit
        · exact hm d (by omega) hbd

/-- rebuilding a well-formed set from its own members gives the same set -/
theorem fnsetNew_expand (s : FNSet) (h : s.WF) :
    fnsetNew s.base (expandList s.base s.bitmap s.numBits) = ok s := by
  obtain ⟨hbase, hnb, hov, hl, hw, hz, hlast⟩ := h
  obtain ⟨nb', bm', he, hl', hw', hb, hn, hm⟩ := fnsetNewLoop_expand s.base s.bitmap s.numBits hnb
  unfold fnsetNew
  rw [he]
  simp only []
  have ebm : bm' = s.bitmap := by
    apply bitmap_ext bm' s.bitmap hl' hl hw' hw
    intro d hd
    rw [hb d hd]
    by_cases hlt : d < s.numBits
    · simp [hlt]
    · simp [hlt, hz d hd (by omega)]
  have enb : nb' = s.numBits := by
    by_cases h0 : s.numBits = 0
    · omega
    · have := hm (s.numBits - 1) (by omega) (hlast (by omega))
      omega
  subst ebm enb
  rfl

theorem fnsetRead_enc (g le : Bool) (s : FNSet) (t : List Nat) (h : s.WF) :
    fnsetRead g le (fnsetE le s ++ t) = ok (s, t) := by
  have hwf := h
  obtain ⟨hbase, hnb, hov, hl, hw, hz, hlast⟩ := h
  have hdrop := drop_zero_of_bits s.bitmap s.numBits hl hw hz
  have hM : divCeil32 s.numBits ≤ 8 := by unfold divCeil32; omega
  have hwords : readWords le (min (divCeil32 s.numBits) 8)
      (wordsE le (s.bitmap.take (divCeil32 s.numBits)) ++ t) = ok (s.bitmap.take (divCeil32 s.numBits), t) := by
    have hlen : (s.bitmap.take (divCeil32 s.numBits)).length = min (divCeil32 s.numBits) 8 := by simp [hl]
    rw [← hlen]
    exact readWords_enc le _ t (fun w hwm => hw w (List.mem_of_mem_take hwm))
  have hpad : padWords (s.bitmap.take (divCeil32 s.numBits)) = s.bitmap := by
    unfold padWords
    have hlen : (s.bitmap.take (divCeil32 s.numBits)).length = divCeil32 s.numBits := by simp [hl]; omega
    rw [hlen, ← hdrop, List.take_append_drop]
  simp only [fnsetRead, fnsetE, List.append_assoc]
  rw [readU32_enc le _ _ hbase]; simp only []
  rw [readU32_enc le _ _ (by omega)]; simp only []
  have hg : ¬ (g = true ∧ s.numBits > 256) := by omega
  simp only [hg, if_false]
  rw [hwords]; simp only [hpad]
  have hmin : min s.numBits 256 = s.numBits := by omega
  have hnot : ¬ s.numBits > 256 := by omega
  simp only [fnExpand, hmin, fnExpandTo_ok g s.base s.bitmap s.numBits hov, hnot, if_false]
  rw [fnsetNew_expand s hwf]

end DustVerif.Wire
