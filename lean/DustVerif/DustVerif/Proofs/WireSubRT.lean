import DustVerif.Proofs.WireRoundTrip
/-! Per-submessage round trip: `decodeSub` applied to the elements written by `Sub.body` (C08). -/
namespace DustVerif.Wire
open Outcome

theorem flags_lsb (f : Nat) (le : Bool) (h : f % 2 = 0) : decide ((f + b2n le) % 2 = 1) = le := by
  cases le <;> simp [b2n] <;> omega

theorem flags_even (s : Sub) : s.flags % 2 = 0 := by
  cases s <;> simp [Sub.flags] <;> omega

theorem flagBits_data (q d k n le : Bool) :
    flagBit (2 * b2n q + 4 * b2n d + 8 * b2n k + 16 * b2n n + b2n le) 1 = q ∧
    flagBit (2 * b2n q + 4 * b2n d + 8 * b2n k + 16 * b2n n + b2n le) 2 = d ∧
    flagBit (2 * b2n q + 4 * b2n d + 8 * b2n k + 16 * b2n n + b2n le) 3 = k ∧
    flagBit (2 * b2n q + 4 * b2n d + 8 * b2n k + 16 * b2n n + b2n le) 4 = n := by
  cases q <;> cases d <;> cases k <;> cases n <;> cases le <;> decide

theorem flagBits_3 (q k n le : Bool) :
    flagBit (2 * b2n q + 4 * b2n k + 8 * b2n n + b2n le) 1 = q ∧
    flagBit (2 * b2n q + 4 * b2n k + 8 * b2n n + b2n le) 2 = k ∧
    flagBit (2 * b2n q + 4 * b2n k + 8 * b2n n + b2n le) 3 = n := by
  cases q <;> cases k <;> cases n <;> cases le <;> decide

theorem flagBits_2 (f l le : Bool) :
    flagBit (2 * b2n f + 4 * b2n l + b2n le) 1 = f ∧ flagBit (2 * b2n f + 4 * b2n l + b2n le) 2 = l := by
  cases f <;> cases l <;> cases le <;> decide

theorem flagBits_1 (f le : Bool) : flagBit (2 * b2n f + b2n le) 1 = f := by
  cases f <;> cases le <;> decide

/-! ### fixed-layout submessages -/
theorem heartbeatRead_enc (le f l : Bool) (reader writer : List Nat) (first last count : Int) (t : List Nat)
    (h : (Sub.heartbeat f l reader writer first last count).fieldsWF) :
    heartbeatRead le (2 * b2n f + 4 * b2n l + b2n le)
      ((Sub.heartbeat f l reader writer first last count).body le ++ t) =
      ok (.heartbeat f l reader writer first last count) := by
  obtain ⟨hr, hw, h1, h2, h3⟩ := h
  simp only [heartbeatRead, Sub.body, List.append_assoc]
  rw [readBytes_append 4 _ _ hr]; simp only []
  rw [readBytes_append 4 _ _ hw]; simp only []
  rw [readSN_enc le _ _ h1.1 h1.2]; simp only []
  rw [readSN_enc le _ _ h2.1 h2.2]; simp only []
  rw [readI32_enc le _ _ h3.1 h3.2]; simp only []
  simp [(flagBits_2 f l le).1, (flagBits_2 f l le).2]

theorem heartbeatFragRead_enc (le : Bool) (reader writer : List Nat) (sn : Int) (lastFrag : Nat) (count : Int)
    (t : List Nat) (h : (Sub.heartbeatFrag reader writer sn lastFrag count).fieldsWF) :
    heartbeatFragRead le ((Sub.heartbeatFrag reader writer sn lastFrag count).body le ++ t) =
      ok (.heartbeatFrag reader writer sn lastFrag count) := by
  obtain ⟨hr, hw, h1, h2, h3⟩ := h
  simp only [heartbeatFragRead, Sub.body, List.append_assoc]
  rw [readBytes_append 4 _ _ hr]; simp only []
  rw [readBytes_append 4 _ _ hw]; simp only []
  rw [readSN_enc le _ _ h1.1 h1.2]; simp only []
  rw [readU32_enc le _ _ h2]; simp only []
  rw [readI32_enc le _ _ h3.1 h3.2]

theorem gapRead_enc (chk le : Bool) (reader writer : List Nat) (start : Int) (set : SNSet) (t : List Nat)
    (h : (Sub.gap reader writer start set).fieldsWF) :
    gapRead chk le ((Sub.gap reader writer start set).body le ++ t) = ok (.gap reader writer start set) := by
  obtain ⟨hr, hw, h1, h2⟩ := h
  simp only [gapRead, Sub.body, List.append_assoc]
  rw [readBytes_append 4 _ _ hr]; simp only []
  rw [readBytes_append 4 _ _ hw]; simp only []
  rw [readSN_enc le _ _ h1.1 h1.2]; simp only []
  rw [snsetRead_enc chk le set t h2]

theorem ackNackRead_enc (chk le f : Bool) (reader writer : List Nat) (set : SNSet) (count : Int) (t : List Nat)
    (h : (Sub.ackNack f reader writer set count).fieldsWF) :
    ackNackRead chk le (2 * b2n f + b2n le) ((Sub.ackNack f reader writer set count).body le ++ t) =
      ok (.ackNack f reader writer set count) := by
  obtain ⟨hr, hw, h1, h2⟩ := h
  simp only [ackNackRead, Sub.body, List.append_assoc]
  rw [readBytes_append 4 _ _ hr]; simp only []
  rw [readBytes_append 4 _ _ hw]; simp only []
  rw [snsetRead_enc chk le set _ h1]; simp only []
  rw [readI32_enc le _ _ h2.1 h2.2]; simp only []
  simp [flagBits_1 f le]

theorem infoDstRead_enc (p t : List Nat) (h : (Sub.infoDst p).fieldsWF) :
    infoDstRead (p ++ t) = ok (.infoDst p) := by
  simp only [infoDstRead]
  rw [readBytes_append 12 _ _ h]

theorem infoSrcRead_enc (le : Bool) (version vendor p t : List Nat) (h : (Sub.infoSrc version vendor p).fieldsWF) :
    infoSrcRead le ((Sub.infoSrc version vendor p).body le ++ t) = ok (.infoSrc version vendor p) := by
  obtain ⟨h1, h2, h3⟩ := h
  simp only [infoSrcRead, Sub.body, List.append_assoc]
  have : u32E le 0 = i32E le 0 := by simp [i32E]
  rw [this, readI32_enc le 0 _ (by omega) (by omega)]; simp only []
  rw [readBytes_append 2 _ _ h1]; simp only []
  rw [readBytes_append 2 _ _ h2]; simp only []
  rw [readBytes_append 12 _ _ h3]

theorem infoTsRead_enc (le inv : Bool) (sec frac : Nat) (t : List Nat) (h : (Sub.infoTs inv sec frac).fieldsWF) :
    infoTsRead le (2 * b2n inv + b2n le) ((Sub.infoTs inv sec frac).body le ++ t) = ok (.infoTs inv sec frac) := by
  obtain ⟨h1, h2, h3⟩ := h
  cases inv
  · simp only [infoTsRead, Sub.body, flagBits_1 false le]
    simp only [Bool.false_eq_true, if_false, List.append_assoc]
    rw [readU32_enc le _ _ h1]; simp only []
    rw [readU32_enc le _ _ h2]
  · obtain ⟨e1, e2⟩ := h3 rfl
    subst e1 e2
    simp [infoTsRead, flagBits_1 true le]

theorem length_locatorsE_wf (le : Bool) (ls : List Locator) (h : ∀ l ∈ ls, l.WF) :
    (locatorsE le ls).length = 24 * ls.length := by
  induction ls with
  | nil => simp [locatorsE]
  | cons l ls ih =>
    have hl := (h l (by simp)).2.2
    simp [locatorsE, locatorE, hl, ih (fun x hx => h x (by simp [hx]))]
    omega

theorem infoReplyRead_enc (le m : Bool) (uni multi : List Locator) (t : List Nat)
    (h : (Sub.infoReply m uni multi).fieldsWF) (hl : ((Sub.infoReply m uni multi).body le).length < 65536) :
    infoReplyRead le (2 * b2n m + b2n le) ((Sub.infoReply m uni multi).body le ++ t) =
      ok (.infoReply m uni multi) := by
  obtain ⟨hm, h3, h4⟩ := h
  have hf : flagBit (2 * b2n m + b2n le) 1 = m := flagBits_1 m le
  cases m
  · have hmu := hm rfl
    subst hmu
    have hn : uni.length < 4294967296 := by
      simp [Sub.body, locatorListE, length_locatorsE_wf le uni h3] at hl
      omega
    simp only [infoReplyRead, Sub.body, hf, Bool.false_eq_true, if_false, List.append_nil]
    rw [locatorListRead_enc le uni t h3 hn]
  · have hn : uni.length < 4294967296 ∧ multi.length < 4294967296 := by
      simp [Sub.body, locatorListE, length_locatorsE_wf le uni h3, length_locatorsE_wf le multi h4] at hl
      omega
    simp only [infoReplyRead, Sub.body, hf, if_true, List.append_assoc]
    rw [locatorListRead_enc le uni _ h3 hn.1]
    simp only []
    rw [locatorListRead_enc le multi t h4 hn.2]

/-! ### DATA and DATA_FRAG -/
theorem slice_mid (a b t : List Nat) : ((a ++ (b ++ t)).take (a.length + b.length)).drop a.length = b := by
  rw [← List.append_assoc]
  have : a.length + b.length = (a ++ b).length := by simp
  rw [this, List.take_left', List.drop_left']
  · rfl
  · rfl

theorem qosAndPayload_enc (le q : Bool) (hdr : List Nat) (qos : List Param) (pl t : List Nat)
    (hq : ∀ p ∈ qos, p.WF) (hqe : q = false → qos = []) (hpos : 0 < hdr.length)
    (hlen : (hdr ++ ((if q then paramListE le qos else []) ++ pl)).length < 65536) :
    qosAndPayload le q (hdr ++ ((if q then paramListE le qos else []) ++ pl)).length hdr.length
      (hdr ++ (((if q then paramListE le qos else []) ++ pl) ++ t)) = ok (qos, pl) := by
  unfold qosAndPayload
  have hne : ¬ (hdr ++ ((if q then paramListE le qos else []) ++ pl)).length = 0 := by
    simp only [List.length_append]; omega
  simp only [hne, if_false]
  have hle : ¬ hdr.length > (hdr ++ ((if q then paramListE le qos else []) ++ pl)).length := by
    simp only [List.length_append]; omega
  simp only [hle, if_false]
  have hs : (List.take (hdr ++ ((if q then paramListE le qos else []) ++ pl)).length
      (hdr ++ (((if q then paramListE le qos else []) ++ pl) ++ t))).drop hdr.length =
      (if q then paramListE le qos else []) ++ pl := by
    have := slice_mid hdr ((if q then paramListE le qos else []) ++ pl) t
    simpa [List.length_append] using this
  rw [hs]
  cases q
  · simp [hqe rfl]
  · simp only [if_true]
    apply paramListRead_enc le qos pl MAX_PARAMETERS hq
    have h4 := paramsE_length_ge le qos
    simp [paramListE] at hlen
    unfold MAX_PARAMETERS
    omega

theorem dataRead_enc (le q d k n : Bool) (reader writer : List Nat) (sn : Int) (qos : List Param)
    (payload t : List Nat) (h : (Sub.data q d k n reader writer sn qos payload).fieldsWF)
    (hl : ((Sub.data q d k n reader writer sn qos payload).body le).length < 65536) :
    dataRead le (2 * b2n q + 4 * b2n d + 8 * b2n k + 16 * b2n n + b2n le)
      ((Sub.data q d k n reader writer sn qos payload).body le).length
      ((Sub.data q d k n reader writer sn qos payload).body le ++ t) =
      ok (.data q d k n reader writer sn qos payload) := by
  obtain ⟨hr, hw, hsn, hq, hqe, hpe⟩ := h
  obtain ⟨f1, f2, f3, f4⟩ := flagBits_data q d k n le
  have hqp := qosAndPayload_enc le q (u16E le 0 ++ u16E le 16 ++ reader ++ writer ++ snE le sn) qos
    (if d || k then payload else []) t hq hqe (by simp [hr, hw])
    (by simpa [Sub.body, List.append_assoc] using hl)
  simp only [List.append_assoc, List.length_append, length_u16E, length_snE, hr, hw, Nat.reduceAdd] at hqp
  unfold dataRead
  simp only [Sub.body, List.append_assoc, List.length_append, length_u16E, length_snE, hr, hw]
  have h0 : ¬ (2 + (2 + (4 + (4 + (8 + ((if q = true then paramListE le qos else []).length +
      (if (d || k) = true then payload else []).length))))) >
      2 + (2 + (4 + (4 + (8 + ((if q = true then paramListE le qos else []).length +
      ((if (d || k) = true then payload else []).length + t.length))))))) := by omega
  simp only [h0, if_false]
  rw [readU16_enc le 0 _ (by omega)]; simp only []
  rw [readU16_enc le 16 _ (by omega)]; simp only []
  rw [readBytes_append 4 _ _ hr]; simp only []
  rw [readBytes_append 4 _ _ hw]; simp only []
  rw [readSN_enc le _ _ hsn.1 hsn.2]; simp only []
  simp only [f1, f2, f3, f4, Nat.reduceAdd]
  rw [hqp]
  simp only []
  cases hdk : (d || k)
  · simp [hpe hdk]
  · simp


theorem dataFragRead_enc (le q k n : Bool) (reader writer : List Nat) (sn : Int)
    (fragStart fragsInSub fragSize dataSize : Nat) (qos : List Param) (payload t : List Nat)
    (h : (Sub.dataFrag q k n reader writer sn fragStart fragsInSub fragSize dataSize qos payload).fieldsWF)
    (hl : ((Sub.dataFrag q k n reader writer sn fragStart fragsInSub fragSize dataSize qos payload).body le).length
            < 65536) :
    dataFragRead le (2 * b2n q + 4 * b2n k + 8 * b2n n + b2n le)
      ((Sub.dataFrag q k n reader writer sn fragStart fragsInSub fragSize dataSize qos payload).body le).length
      ((Sub.dataFrag q k n reader writer sn fragStart fragsInSub fragSize dataSize qos payload).body le ++ t) =
      ok (.dataFrag q k n reader writer sn fragStart fragsInSub fragSize dataSize qos payload) := by
  obtain ⟨hr, hw, hsn, h1, h2, h3, h4, hq, hqe⟩ := h
  obtain ⟨f1, f2, f3⟩ := flagBits_3 q k n le
  have hqp := qosAndPayload_enc le q
    (u16E le 0 ++ u16E le 28 ++ reader ++ writer ++ snE le sn ++ u32E le fragStart ++ u16E le fragsInSub ++
      u16E le fragSize ++ u32E le dataSize) qos payload t hq hqe (by simp [hr, hw])
    (by simpa [Sub.body, List.append_assoc] using hl)
  simp only [List.append_assoc, List.length_append, length_u16E, length_u32E, length_snE, hr, hw, Nat.reduceAdd] at hqp
  unfold dataFragRead
  simp only [Sub.body, List.append_assoc, List.length_append, length_u16E, length_u32E, length_snE, hr, hw]
  have h0 : ¬ (2 + (2 + (4 + (4 + (8 + (4 + (2 + (2 + (4 + ((if q = true then paramListE le qos else []).length +
      payload.length))))))))) >
      2 + (2 + (4 + (4 + (8 + (4 + (2 + (2 + (4 + ((if q = true then paramListE le qos else []).length +
      (payload.length + t.length))))))))))) := by omega
  have h32 : ¬ (2 + (2 + (4 + (4 + (8 + (4 + (2 + (2 + (4 + ((if q = true then paramListE le qos else []).length +
      (payload.length + t.length)))))))))) < 32) := by omega
  simp only [h0, h32, if_false]
  rw [readU16_enc le 0 _ (by omega)]; simp only []
  rw [readU16_enc le 28 _ (by omega)]; simp only []
  rw [readBytes_append 4 _ _ hr]; simp only []
  rw [readBytes_append 4 _ _ hw]; simp only []
  rw [readSN_enc le _ _ hsn.1 hsn.2]; simp only []
  rw [readU32_enc le _ _ h1]; simp only []
  rw [readU16_enc le _ _ h2]; simp only []
  rw [readU16_enc le _ _ h3]; simp only []
  rw [readU32_enc le _ _ h4]; simp only []
  simp only [f1, f2, f3, Nat.reduceAdd]
  rw [hqp]

end DustVerif.Wire
