import DustVerif.Proofs.XcdrChunks
/-! XCDR2: walking the member list of a mutable structure (`seekPid2` over `emit2`). -/
namespace DustVerif.Xcdr

theorem dU32_aligned (e : Endian) (n x : Nat) (rest : Bytes) (hx : x % 4 = 0) (hn : n < 2 ^ 32) :
    dPrim .v2 e .u32 ⟨encNat e 4 n ++ rest, x⟩ = .ok n ⟨rest, x + 4⟩ := by
  have h := dPrim_wPrim .v2 e .u32 n x rest (primOk_u32 n hn)
  have hpad : wPad .v2 4 x = 0 := by rw [wPad_v2_4]; exact padTo_of_mod 4 x (by omega) hx
  simpa [wPrim, primBytes, Prim.size, hpad, zeros] using h

/-- what the XCDR2 member walk needs of a member: shift invariance, position consistency, size below 2^32, and
    if it is written with LC = 5 its value starts with the byte count of the rest (a DHEADER or an equivalent) -/
def K2 (e : Endian) (c : Chunk) : Prop :=
  C2 c ∧ (c.enc 0).1.length < 2 ^ 32 ∧
  (c.lc5 = true → ∃ body, (c.enc 0).1 = encNat e 4 body.length ++ body)

theorem em2_lt (c : Chunk) : em2 c < 2 ^ 32 := by
  unfold em2
  have h1 := lcOf_le c.lc5 ((c.enc 0).1.length % 2 ^ 32)
  have h2 : c.id % 2 ^ 28 < 2 ^ 28 := Nat.mod_lt _ (by decide)
  split <;> omega

theorem em2_pid (c : Chunk) : em2 c % 2 ^ 28 % 2 ^ 16 = c.id % 2 ^ 16 := by
  unfold em2
  have h1 := lcOf_le c.lc5 ((c.enc 0).1.length % 2 ^ 32)
  split <;> omega

theorem em2_lc (c : Chunk) : em2 c / 2 ^ 28 % 8 = lcOf c.lc5 ((c.enc 0).1.length % 2 ^ 32) := by
  unfold em2
  have h1 := lcOf_le c.lc5 ((c.enc 0).1.length % 2 ^ 32)
  have h2 : c.id % 2 ^ 28 < 2 ^ 28 := Nat.mod_lt _ (by decide)
  split <;> omega

/-- the length `seek_to_pid` computes for a member, and where that leaves the reader: `X` is what `seek(length)`
    will skip; for every LC the value itself starts at `q + |NEXTINT|` -/
theorem lcLen_chunk (cfg : Cfg) (e : Endian) (c : Chunk) (hc : K2 e c) (tail : Bytes) (q : Nat) (hq : q % 4 = 0) :
    ∃ L X d, lcLen cfg e (lcOf c.lc5 ((c.enc 0).1.length % 2 ^ 32)) ⟨nextInt e c ++ ((c.enc 0).1 ++ tail), q⟩ =
        .ok L ⟨X ++ tail, q + (nextInt e c).length + d⟩ ∧
      X.length = L ∧ d + L = (c.enc 0).1.length ∧
      (lcOf c.lc5 ((c.enc 0).1.length % 2 ^ 32) = 5 → (nextInt e c).length = 0) ∧
      (lcOf c.lc5 ((c.enc 0).1.length % 2 ^ 32) ≠ 5 → X = (c.enc 0).1 ∧ d = 0) := by
  obtain ⟨_, hlt, h5⟩ := hc
  have hm : (c.enc 0).1.length % 2 ^ 32 = (c.enc 0).1.length := Nat.mod_eq_of_lt hlt
  rw [hm]
  by_cases hl5 : c.lc5 = true
  · obtain ⟨body, hb⟩ := h5 hl5
    have hbl : body.length < 2 ^ 32 := by
      have : (c.enc 0).1.length = 4 + body.length := by rw [hb]; simp
      omega
    refine ⟨body.length, body, 4, ?_, rfl, ?_, ?_, ?_⟩
    · simp only [lcOf, hl5, if_true, nextInt, hm, lcLen]
      simp only [show (5 : Nat) = 4 ↔ False by decide, if_false, List.nil_append, hb, List.append_assoc]
      have : dPrim .v2 e .u32 ⟨encNat e 4 body.length ++ (body ++ tail), q⟩ = .ok body.length ⟨body ++ tail, q + 4⟩ :=
        dU32_aligned e _ q _ hq hbl
      simpa using this
    · rw [hb]; simp
    · intro _; simp [nextInt, lcOf, hl5]
    · intro h; simp [lcOf, hl5] at h
  · have hl5' : c.lc5 = false := by simpa using hl5
    by_cases h1 : (c.enc 0).1.length = 1
    · refine ⟨1, (c.enc 0).1, 0, ?_, h1, by omega, ?_, ?_⟩
      · simp [lcOf, hl5', h1, nextInt, hm, lcLen]
      · intro h; simp [lcOf, hl5', h1] at h
      · intro _; exact ⟨rfl, rfl⟩
    by_cases h2 : (c.enc 0).1.length = 2
    · refine ⟨2, (c.enc 0).1, 0, ?_, h2, by omega, ?_, ?_⟩
      · simp [lcOf, hl5', h2, nextInt, hm, lcLen]
      · intro h; simp [lcOf, hl5', h2] at h
      · intro _; exact ⟨rfl, rfl⟩
    by_cases h4 : (c.enc 0).1.length = 4
    · refine ⟨4, (c.enc 0).1, 0, ?_, h4, by omega, ?_, ?_⟩
      · simp [lcOf, hl5', h4, nextInt, hm, lcLen]
      · intro h; simp [lcOf, hl5', h4] at h
      · intro _; exact ⟨rfl, rfl⟩
    by_cases h8 : (c.enc 0).1.length = 8
    · refine ⟨8, (c.enc 0).1, 0, ?_, h8, by omega, ?_, ?_⟩
      · simp [lcOf, hl5', h8, nextInt, hm, lcLen]
      · intro h; simp [lcOf, hl5', h8] at h
      · intro _; exact ⟨rfl, rfl⟩
    · refine ⟨(c.enc 0).1.length, (c.enc 0).1, 0, ?_, rfl, by omega, ?_, ?_⟩
      · have hd := dU32_aligned e (c.enc 0).1.length q ((c.enc 0).1 ++ tail) hq hlt
        simp [lcOf, hl5', h1, h2, h4, h8, nextInt, hm, lcLen, hd]
      · intro h; simp [lcOf, hl5', h1, h2, h4, h8] at h
      · intro _; exact ⟨rfl, rfl⟩

theorem Res.bind_ok {α β : Type} (a : α) (s : St) (f : α → St → Res β) : (Res.ok a s).bind f = f a s := rfl

/-- one iteration of the XCDR2 `seek_to_pid` loop -/
theorem seekPid2_succ (cfg : Cfg) (e : Endian) (fuel pid : Nat) (s : St) :
    seekPid2 cfg e (fuel + 1) pid s =
      (dPrim .v2 e .u32 s).bind fun em s1 =>
        (lcLen cfg e (em / 2 ^ 28 % 8) s1).bind fun len s2 =>
          if em % 2 ^ 28 % 2 ^ 16 == pid then .ok (len % 2 ^ 16) (if em / 2 ^ 28 % 8 == 5 then s1 else s2)
          else
            (rSeek len s2).bind fun _ s3 =>
            (rAlign .v2 4 s3).bind fun _ s4 => seekPid2 cfg e fuel pid s4 := by
  rw [seekPid2]

theorem wPad4_v2_aligned (p : Nat) (h : p % 4 = 0) : wPad .v2 4 p = 0 := by
  rw [wPad_v2_4]; exact padTo_of_mod 4 p (by omega) h

theorem emit2_cons (e : Endian) (c : Chunk) (hc : C2 c) (cs : List Chunk) (p : Nat) :
    emit2 e (c :: cs) p =
      (zeros (wPad .v2 4 p) ++ (encNat e 4 (em2 c) ++ (nextInt e c ++ ((c.enc 0).1 ++
        (emit2 e cs (p + wPad .v2 4 p + 4 + (nextInt e c).length + (c.enc 0).1.length)).1))),
       (emit2 e cs (p + wPad .v2 4 p + 4 + (nextInt e c).length + (c.enc 0).1.length)).2) := by
  simp only [emit2, wMem2_eq e c hc p, List.append_assoc]

/-- a non-empty member list starts with the padding to the next multiple of four -/
theorem emit2_align (e : Endian) (c : Chunk) (hc : C2 c) (cs : List Chunk) (p : Nat) :
    emit2 e (c :: cs) p = (zeros (wPad .v2 4 p) ++ (emit2 e (c :: cs) (p + wPad .v2 4 p)).1,
                           (emit2 e (c :: cs) (p + wPad .v2 4 p)).2) := by
  have hal : (p + wPad .v2 4 p) % 4 = 0 := by rw [wPad_v2_4]; exact padTo_dvd 4 p (by omega)
  have h0 := wPad4_v2_aligned _ hal
  simp [emit2_cons e c hc, h0, zeros]

theorem rAlign2_aligned (p : Nat) (hp : p % 4 = 0) (bs : Bytes) : rAlign .v2 4 ⟨bs, p⟩ = .ok () ⟨bs, p⟩ := by
  simp [rAlign, Ver.readAlign, padTo_of_mod 4 p (by omega) hp, rSeek]

/-- one step of the XCDR2 `seek_to_pid` over a member that is not the one looked for (the list goes on) -/
theorem seek2_skip (cfg : Cfg) (e : Endian) (fuel tgt : Nat) (c d : Chunk) (cs : List Chunk) (rest : Bytes)
    (hc : K2 e c) (hd : C2 d) (hne : c.id % 2 ^ 16 ≠ tgt) (p : Nat) (hp : p % 4 = 0) :
    ∃ p', p' % 4 = 0 ∧
      seekPid2 cfg e (fuel + 1) tgt ⟨(emit2 e (c :: d :: cs) p).1 ++ rest, p⟩ =
        seekPid2 cfg e fuel tgt ⟨(emit2 e (d :: cs) p').1 ++ rest, p'⟩ := by
  have h0 := wPad4_v2_aligned p hp
  obtain ⟨L, X, dd, hl, hX, hdL, _, _⟩ := lcLen_chunk cfg e c hc
    ((emit2 e (d :: cs) (p + 4 + (nextInt e c).length + (c.enc 0).1.length)).1 ++ rest) (p + 4) (by omega)
  refine ⟨p + 4 + (nextInt e c).length + (c.enc 0).1.length +
    wPad .v2 4 (p + 4 + (nextInt e c).length + (c.enc 0).1.length), ?_, ?_⟩
  · rw [wPad_v2_4]; exact padTo_dvd 4 _ (by omega)
  · simp only [emit2_cons e c hc.1, h0, zeros, List.replicate_zero, List.nil_append, Nat.add_zero, List.append_assoc]
    rw [seekPid2_succ, dU32_aligned e _ p _ hp (em2_lt c), Res.bind_ok, em2_lc, em2_pid, hl, Res.bind_ok]
    have hne' : (c.id % 2 ^ 16 == tgt) = false := beq_eq_false_iff_ne.mpr hne
    rw [hne']
    simp only [Bool.false_eq_true, if_false]
    rw [← hX, rSeek_app, Res.bind_ok]
    rw [emit2_align e d hd cs]
    simp only [List.append_assoc, rAlign, Ver.readAlign]
    have hpos : p + 4 + (nextInt e c).length + dd + X.length = p + 4 + (nextInt e c).length + (c.enc 0).1.length := by
      omega
    have hmin : min 4 4 = 4 := rfl
    rw [hpos, hmin, ← wPad_v2_4, rSeek_zeros, Res.bind_ok]

theorem seek2_found (cfg : Cfg) (e : Endian) (tgt : Nat) (c : Chunk) (post : List Chunk) (rest : Bytes)
    (hc : K2 e c) (hct : c.id % 2 ^ 16 = tgt) :
    ∀ (pre : List Chunk) (fuel : Nat), (∀ d ∈ pre, K2 e d ∧ d.id % 2 ^ 16 ≠ tgt) → pre.length < fuel →
    ∀ p, p % 4 = 0 → ∃ q tail len, q % 4 = 0 ∧
      seekPid2 cfg e fuel tgt ⟨(emit2 e (pre ++ c :: post) p).1 ++ rest, p⟩ = .ok len ⟨(c.enc 0).1 ++ tail, q⟩
  | [], fuel, _, hf, p, hp => by
    obtain ⟨fuel, rfl⟩ : ∃ f, fuel = f + 1 := ⟨fuel - 1, by omega⟩
    have h0 := wPad4_v2_aligned p hp
    obtain ⟨L, X, dd, hl, hX, hdL, h5, hn5⟩ := lcLen_chunk cfg e c hc
      ((emit2 e post (p + 4 + (nextInt e c).length + (c.enc 0).1.length)).1 ++ rest) (p + 4) (by omega)
    have hnx : (nextInt e c).length % 4 = 0 := by
      unfold nextInt; split <;> simp
    refine ⟨p + 4 + (nextInt e c).length, (emit2 e post (p + 4 + (nextInt e c).length + (c.enc 0).1.length)).1 ++ rest,
      L % 2 ^ 16, by omega, ?_⟩
    simp only [List.nil_append, emit2_cons e c hc.1, h0, zeros, List.replicate_zero, Nat.add_zero, List.append_assoc]
    rw [seekPid2_succ, dU32_aligned e _ p _ hp (em2_lt c), Res.bind_ok, em2_lc, em2_pid, hl, Res.bind_ok]
    simp only [hct, beq_self_eq_true, if_true]
    by_cases hl5 : lcOf c.lc5 ((c.enc 0).1.length % 2 ^ 32) = 5
    · have hz := h5 hl5
      have hnil : nextInt e c = [] := List.eq_nil_of_length_eq_zero hz
      have hb : (lcOf c.lc5 ((c.enc 0).1.length % 2 ^ 32) == 5) = true := beq_iff_eq.mpr hl5
      simp only [hb, if_true, hnil, List.nil_append, List.length_nil, Nat.add_zero]
    · obtain ⟨hXe, hd0⟩ := hn5 hl5
      have hb : (lcOf c.lc5 ((c.enc 0).1.length % 2 ^ 32) == 5) = false := beq_eq_false_iff_ne.mpr hl5
      subst hd0
      subst hXe
      simp only [hb, Bool.false_eq_true, if_false, Nat.add_zero]
  | d :: pre, fuel, hpre, hf, p, hp => by
    obtain ⟨fuel, rfl⟩ : ∃ f, fuel = f + 1 := ⟨fuel - 1, by simp at hf; omega⟩
    have hd := hpre d (by simp)
    -- the next member of the list (the head of `pre`, or `c`) is shift invariant
    have hnext : ∃ x xs, pre ++ c :: post = x :: xs ∧ C2 x := by
      cases pre with
      | nil => exact ⟨c, post, rfl, hc.1⟩
      | cons x xs => exact ⟨x, xs ++ c :: post, rfl, (hpre x (by simp)).1.1⟩
    obtain ⟨x, xs, hx, hxC⟩ := hnext
    obtain ⟨p', hp', hs⟩ := seek2_skip cfg e fuel tgt d x xs rest hd.1 hxC hd.2 p hp
    rw [List.cons_append, hx, hs, ← hx]
    exact seek2_found cfg e tgt c post rest hc hct pre fuel (fun y hy => hpre y (by simp [hy]))
      (by simp at hf; omega) p' hp'

/-- XCDR2 `deserialize_mmember` for a member that is in the list: found, decoded in place, reader put back -/
theorem dMem2_present (cfg : Cfg) (e : Endian) (cs : List Chunk)
    (hK : ∀ d ∈ cs, K2 e d) (hinj : ∀ a ∈ cs, ∀ b ∈ cs, a.id % 2 ^ 16 = b.id % 2 ^ 16 → a = b)
    (c : Chunk) (hc : c ∈ cs) (g : St → Res Val) (v : Val)
    (hg : ∀ q tail, q % 4 = 0 → ∃ s', g ⟨(c.enc 0).1 ++ tail, q⟩ = .ok v s')
    (p : Nat) (hp : p % 4 = 0) (rest : Bytes) :
    dMem2 cfg e g c.id ⟨(emit2 e cs p).1 ++ rest, p⟩ = .ok v ⟨(emit2 e cs p).1 ++ rest, p⟩ := by
  obtain ⟨pre, c', post, hcs, hc't, hpre⟩ := split_first (c.id % 2 ^ 16) cs ⟨c, hc, rfl⟩
  have hc'mem : c' ∈ cs := by rw [hcs]; simp
  have hcc : c' = c := hinj c' hc'mem c hc hc't
  subst hcc
  have hpreK : ∀ d ∈ pre, K2 e d ∧ d.id % 2 ^ 16 ≠ c'.id % 2 ^ 16 := fun d hd =>
    ⟨hK d (by rw [hcs]; simp [hd]), hpre d hd⟩
  have hlen := emit2_len_ge e cs (fun d hd => (hK d hd).1) p
  have hfuel : pre.length < ((emit2 e cs p).1 ++ rest).length + 1 := by
    have : pre.length ≤ cs.length := by rw [hcs]; simp
    simp only [List.length_append]; omega
  obtain ⟨q, tail, len, hq, hs⟩ := seek2_found cfg e (c'.id % 2 ^ 16) c' post rest (hK c' hc) rfl pre _ hpreK hfuel p hp
  obtain ⟨s', hg'⟩ := hg q tail hq
  simp only [dMem2, rAlign2_aligned p hp, Res.bind]
  rw [← hcs] at hs
  rw [hs]
  simp only [hg', Res.restore]

/-! ### the present members of a well-formed XCDR2 mutable structure satisfy `K2` -/
theorem wDh_shape0 (e : Endian) (body : Nat → W) :
    (wDh .v2 e body 0).1 = encNat e 4 ((body 4).1.length % 2 ^ 32) ++ (body 4).1 := by
  have h0 : wPad .v2 4 0 = 0 := wPad4_v2_aligned 0 rfl
  simp [wDh, h0, zeros]

theorem wList_len_size1 (cfg : Cfg) (e : Endian) (p : Prim) (hp : p.size = 1) (vs : List Val)
    (hwf : ∀ v ∈ vs, wfVal cfg .v2 (.prim p) v = true) (q : Nat) :
    (wList (ser cfg .v2 e (.prim p)) vs q).1.length = vs.length := by
  induction vs generalizing q with
  | nil => simp [wList]
  | cons v vs ih =>
    have hv := hwf v (by simp)
    have ih' := ih (fun w hw => hwf w (by simp [hw])) (ser cfg .v2 e (.prim p) v q).2
    cases v with
    | num n =>
      simp only [wfVal] at hv
      have hl := wPrim_len .v2 e p n q hv
      rw [hp, wPad1] at hl
      simp only [wList, List.length_append, List.length_cons, ser, hl]
      simp only [ser] at ih'
      omega
    | str _ => simp [wfVal] at hv
    | list _ => simp [wfVal] at hv
    | struct _ => simp [wfVal] at hv
    | absent => simp [wfVal] at hv

/-- a member written with LC = 5 starts with the byte count of the rest of its value -/
theorem lc5_shape (cfg : Cfg) (e : Endian) (t : Ty) (f : Val) (hwf : wfVal cfg .v2 t f = true)
    (hok : lc5Ok t = true) (hsz : maxSize t f < 2 ^ 32) (h5 : t.lc5 = true) :
    ∃ body, (ser cfg .v2 e t f 0).1 = encNat e 4 body.length ++ body := by
  have hv : (Ver.v2 == Ver.v1) = false := by decide
  have hfacts := serFacts cfg .v2 e t f hwf 0
  -- every DHEADER-delimited case: the body is what follows the first four bytes
  have hdh : ∀ body : Nat → W, (ser cfg .v2 e t f 0).1 = (wDh .v2 e body 0).1 →
      ∃ b, (ser cfg .v2 e t f 0).1 = encNat e 4 b.length ++ b := by
    intro body hb
    refine ⟨(body 4).1, ?_⟩
    have hlen : (body 4).1.length < 2 ^ 32 := by
      have h1 := hfacts.1
      rw [hb, wDh_shape0] at h1
      simp only [List.length_append, encNat_length] at h1
      omega
    rw [hb, wDh_shape0, Nat.mod_eq_of_lt hlen]
  cases t with
  | prim _ => simp [Ty.lc5] at h5
  | str => simp [Ty.lc5] at h5
  | enum _ _ _ => simp [Ty.lc5] at h5
  | wstr => simp [Ty.lc5] at h5
  | union app disc bs =>
    cases app with
    | false => simp [Ty.lc5] at h5
    | true =>
      cases f <;> try (simp [wfVal] at hwf)
      rename_i fs
      exact hdh (wUnion .v2 e disc (serB cfg .v2 e bs) fs) (by simp [ser])
  | arr _ _ => simp [Ty.lc5] at h5
  | struct x ms =>
    cases x with
    | final => simp [Ty.lc5] at h5
    | appendable =>
      cases f <;> try (simp [wfVal] at hwf)
      rename_i fs
      exact hdh (serF cfg .v2 e ms fs) (by simp [ser, hv])
    | mutable =>
      cases f <;> try (simp [wfVal] at hwf)
      rename_i fs
      exact hdh (emit2 e (sortChunks (chunks cfg .v2 e ms fs))) (by simp [ser, hv])
  | seq el =>
    have hwf0 := hwf
    cases f <;> try (simp [wfVal] at hwf)
    rename_i vs
    cases hp : el.isPrim with
    | false =>
      exact hdh (wSeqBody .v2 e (ser cfg .v2 e el) vs) (by simp [ser, hv, hp])
    | true =>
      cases el with
      | prim p =>
        simp only [lc5Ok, beq_iff_eq] at hok
        simp only [wfVal, Bool.and_eq_true, decide_eq_true_eq, List.all_eq_true] at hwf0
        obtain ⟨⟨⟨_, _⟩, hlim⟩, hall⟩ := hwf0
        have hl : vs.length < 2 ^ 32 := by have := ALLOC_LIMIT_lt; omega
        have hlen := wList_len_size1 cfg e p hok vs hall (wPrim .v2 e .u32 vs.length 0).2
        refine ⟨(wList (ser cfg .v2 e (.prim p)) vs (wPrim .v2 e .u32 vs.length 0).2).1, ?_⟩
        have h0 : wPad .v2 4 0 = 0 := wPad4_v2_aligned 0 rfl
        have hlen4 := wList_len_size1 cfg e p hok vs hall 4
        simp [ser, Ty.isPrim, wSeqBody, Nat.mod_eq_of_lt hl, hlen, wPrim, primBytes, Prim.size, h0, zeros, hlen4]
      | _ => exact absurd hp (by simp [Ty.isPrim])

theorem chunks_K2 (cfg : Cfg) (e : Endian) : (ms : Ms) → (fs : List Val) → wfM cfg .v2 ms fs = true →
    maxSizeMs ms fs < 2 ^ 32 → ∀ c ∈ chunks cfg .v2 e ms fs, K2 e c
  | .nil, _, _, _, c, h => by simp [chunks] at h
  | .cons _ _ _ _ _, [], _, _, c, h => by simp [chunks] at h
  | .cons id opt mu t r, f :: fs, hw, hs, c, h => by
    simp only [wfM, Bool.and_eq_true] at hw
    simp only [maxSizeMs] at hs
    have ih := chunks_K2 cfg e r fs hw.2 (by omega)
    have hm := hw.1
    cases f <;> simp only [chunks, List.mem_cons] at h
    case absent => exact ih c h
    all_goals
      rcases h with rfl | h
      · simp only [Bool.and_eq_true] at hm
        obtain ⟨hwf, hok⟩ := hm
        have hf := serFacts cfg .v2 e t _ hwf 0
        refine ⟨⟨ser_shift cfg e t _, by have := hf.2.2; simpa using this⟩, ?_, ?_⟩
        · show (ser cfg .v2 e t _ 0).1.length < 2 ^ 32
          have := hf.1; omega
        · intro h5
          exact lc5_shape cfg e t _ hwf hok (by omega) h5
      · exact ih c h

end DustVerif.Xcdr
