import DustVerif.Proofs.XcdrChunks2
import DustVerif.Spec.Xcdr
/-! Mutable structures: the parameter / member lists of the transcription model are those of the specification in the
    dust-dds dialect. -/
namespace DustVerif.Xcdr

/-- a model entry and a specification member describe the same member -/
def Rel (c : Chunk) (m : Spec.Member) : Prop :=
  c.id = m.id ∧ c.mu = m.mu ∧ c.lc5 = m.ty.lc5 ∧ ∀ p, (c.enc p).1 = m.enc p

inductive RelL : List Chunk → List Spec.Member → Prop
  | nil : RelL [] []
  | cons {c m cs ms} : Rel c m → RelL cs ms → RelL (c :: cs) (m :: ms)

theorem RelL.insert {c : Chunk} {m : Spec.Member} (h : Rel c m) : ∀ {cs ms}, RelL cs ms →
    RelL (insertChunk c cs) (Spec.insertById m ms) := by
  intro cs ms hl
  induction hl with
  | nil => exact .cons h .nil
  | @cons d x ds xs hd _ ih =>
    simp only [insertChunk, Spec.insertById, ← h.1, ← hd.1]
    split
    · exact .cons h (.cons hd ‹_›)
    · exact .cons hd ih

theorem RelL.sort : ∀ {cs ms}, RelL cs ms → RelL (sortChunks cs) (Spec.sortById ms) := by
  intro cs ms hl
  induction hl with
  | nil => exact .nil
  | cons h _ ih => exact RelL.insert h ih

theorem RelL.mem {cs ms} (hl : RelL cs ms) (P : Chunk → Prop) (hP : ∀ c ∈ cs, P c) :
    ∀ c m, Rel c m → True := fun _ _ _ => trivial

theorem lcDust_eq (t : Ty) (n : Nat) : Spec.lcDust t n = lcOf t.lc5 n := by
  cases t with
  | struct x ms => cases x <;> simp [Spec.lcDust, lcOf, Ty.lc5]
  | union a d bs => cases a <;> simp [Spec.lcDust, lcOf, Ty.lc5]
  | _ => simp [Spec.lcDust, lcOf, Ty.lc5]

theorem alignPad_eq' (ver : Ver) (n pos : Nat) (hn : n = 1 ∨ n = 2 ∨ n = 4 ∨ n = 8) :
    Spec.alignPad ver n pos = wPad ver n pos := by
  rcases hn with rfl | rfl | rfl | rfl <;> cases ver <;>
    simp [Spec.alignPad, Spec.maxAlign, wPad, Ver.maxAlign, padTo] <;> omega

theorem eswap_eq' (e : Endian) (k x : Nat) : Spec.eswap e k x = encNat e k x := by
  have hle : ∀ k x, (List.range k).map (fun i => UInt8.ofNat (x / 256 ^ i % 256)) = leBytes k x := by
    intro k
    induction k with
    | zero => intro x; simp [leBytes]
    | succ k ih =>
      intro x
      rw [List.range_succ_eq_map, List.map_cons, List.map_map, leBytes]
      simp only [Nat.pow_zero, Nat.div_one]
      congr 1
      rw [← ih (x / 256)]
      apply List.map_congr_left
      intro i _
      simp only [Function.comp, Nat.pow_succ, Nat.div_div_eq_div_mul]
      rw [Nat.mul_comm]
  cases e <;> simp [Spec.eswap, encNat, hle]

theorem wMem1_eq_mmember1 (cfg : Cfg) (h61 : cfg.d61 = true) (e : Endian) (c : Chunk) (m : Spec.Member) (hc : Rel c m)
    (hid : c.id ≤ 0x3F00) (hl : (c.enc 0).1.length ≤ 0xFFFF) (pos : Nat) :
    (wMem1 cfg e c.id c.mu (some c.enc) pos).1 = Spec.mmember1 e m.id m.mu (some m.enc) pos ∧
    (wMem1 cfg e c.id c.mu (some c.enc) pos).2 = pos + (wMem1 cfg e c.id c.mu (some c.enc) pos).1.length := by
  have hpid : (c.id % 2 ^ 16 + if c.mu = true then 2 ^ 14 else 0) % 2 ^ 16 = (if m.mu = true then 0x4000 else 0) + m.id := by
    rw [← hc.1, ← hc.2.1]
    split <;> omega
  have hlen : (c.enc 0).1.length % 2 ^ 16 = (c.enc 0).1.length := Nat.mod_eq_of_lt (by omega)
  have henc := hc.2.2.2 0
  have hidm : m.id ≤ 0x3F00 := by rw [← hc.1]; exact hid
  have hlm : (m.enc 0).length ≤ 0xFFFF := by rw [← henc]; exact hl
  constructor
  · simp only [wMem1, Spec.mmember1, alignPad_eq' .v1 4 pos (by simp), Spec.pad, eswap_eq', hpid, hlen, hidm,
      ← henc, zeros]
    simp [hl]
  · simp only [wMem1, h61, if_true, List.length_append, zeros_length, encNat_length]
    omega

/-- XCDR1 parameter list: model = specification (dust-dds dialect) -/
theorem emit1_eq_plist1 (cfg : Cfg) (h61 : cfg.d61 = true) (e : Endian) : ∀ {cs ms}, RelL cs ms →
    (∀ c ∈ cs, c.id ≤ 0x3F00 ∧ (c.enc 0).1.length ≤ 0xFFFF) →
    ∀ pos, (emit1 cfg e cs pos).1 = Spec.plist1 Spec.Dialect.dust e ms pos := by
  intro cs ms hl
  induction hl with
  | nil =>
    intro _ pos
    simp [emit1_nil, Spec.plist1, Spec.Dialect.dust, alignPad_eq' .v1 4 pos (by simp), Spec.pad, zeros, eswap_eq']
  | @cons c m cs ms hc _ ih =>
    intro hb pos
    have hcb := hb c (by simp)
    have ih' := ih (fun d hd => hb d (by simp [hd]))
    have hm := wMem1_eq_mmember1 cfg h61 e c m hc hcb.1 hcb.2 pos
    simp only [emit1, Spec.plist1]
    rw [ih', hm.2, hm.1, ← hc.1, ← hc.2.1]

theorem wMem2_eq_mmember2 (e : Endian) (c : Chunk) (m : Spec.Member) (hc : Rel c m) (hC : C2 c)
    (hl : (c.enc 0).1.length < 2 ^ 32) (pos : Nat) :
    (wMem2 e c pos).1 = Spec.mmember2 Spec.Dialect.dust e m pos := by
  have hal4 : (pos + wPad .v2 4 pos + 4) % 4 = 0 := by
    have := padTo_dvd 4 pos (by omega); rw [wPad_v2_4]; omega
  have hal8 : (pos + wPad .v2 4 pos + 8) % 4 = 0 := by omega
  have h4 := shift_of_mod c.enc hC.1 _ hal4
  have h8 := shift_of_mod c.enc hC.1 _ hal8
  have hm4 : m.enc (pos + wPad .v2 4 pos + 4) = (c.enc 0).1 := by rw [← hc.2.2.2, h4]
  have hm8 : m.enc (pos + wPad .v2 4 pos + 8) = (c.enc 0).1 := by rw [← hc.2.2.2, h8]
  have hmod : (c.enc 0).1.length % 2 ^ 32 = (c.enc 0).1.length := Nat.mod_eq_of_lt hl
  rw [wMem2_eq e c hC pos]
  simp only [Spec.mmember2, alignPad_eq' .v2 4 pos (by simp), Spec.pad, eswap_eq', Spec.Dialect.dust, hm4, hm8, lcDust_eq,
    ← hc.2.2.1, em2, nextInt, hmod, ← hc.1, ← hc.2.1]
  generalize lcOf c.lc5 (c.enc 0).1.length = L
  by_cases hL : L = 4 <;> simp [hL, zeros]

/-- XCDR2 member list: model = specification (dust-dds dialect) -/
theorem emit2_eq_plist2 (e : Endian) : ∀ {cs ms}, RelL cs ms →
    (∀ c ∈ cs, C2 c ∧ (c.enc 0).1.length < 2 ^ 32) →
    ∀ pos, (emit2 e cs pos).1 = Spec.plist2 Spec.Dialect.dust e ms pos := by
  intro cs ms hl
  induction hl with
  | nil => intro _ pos; simp [emit2, Spec.plist2]
  | @cons c m cs ms hc _ ih =>
    intro hb pos
    have hcb := hb c (by simp)
    have ih' := ih (fun d hd => hb d (by simp [hd]))
    have hlen := (wMem2_len e c hcb.1 pos)
    have hm := wMem2_eq_mmember2 e c m hc hcb.1 hcb.2 pos
    simp only [emit2, Spec.plist2]
    rw [ih', hlen.2, hm]

end DustVerif.Xcdr
