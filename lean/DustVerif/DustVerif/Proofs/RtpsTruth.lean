import DustVerif.Proofs.RtpsSys
/-! Truthfulness of GAP / HEARTBEAT (DESIGN §4.5): every sequence number the writer declares irrelevant or no longer
    available is `gone` — removed from the history or never relevant to the reader — when it is sent, and `gone` only
    grows. Writer side. -/
namespace DustVerif.Rtps

/-- `sn` was published (`≤ lastSn`) and can no longer be delivered: the writer does not hold it any more, or it is not
    relevant to this reader (`≤ first_relevant_sample_seq_num`) -/
def GoneW (cs : List Change) (lastSn firstRel sn : Nat) : Prop :=
  sn ≤ lastSn ∧ ((∀ c, c ∈ cs → c.sn ≠ sn) ∨ sn ≤ firstRel)

def SubTruthful (cs : List Change) (lastSn firstRel : Nat) : Sub → Prop
  | .gap start base set => ∀ sn, 1 ≤ sn → ((start ≤ sn ∧ sn < base) ∨ sn ∈ set) → GoneW cs lastSn firstRel sn
  | .hb first last _ _ _ => (∀ sn, 1 ≤ sn → sn < first → GoneW cs lastSn firstRel sn) ∧ last ≤ lastSn
  | .acknack _ set _ _ => ∀ sn, sn ∈ set → sn ≤ lastSn
  | .nackfrag sn _ _ _ => sn ≤ lastSn
  | _ => True

def DgramsTruthful (cs : List Change) (lastSn firstRel : Nat) (ds : List Dgram) : Prop :=
  ∀ d, d ∈ ds → ∀ s, s ∈ d.subs → SubTruthful cs lastSn firstRel s

theorem GoneW.mono {cs cs' : List Change} {l l' fr fr' sn : Nat} (hl : l ≤ l') (hfr : fr ≤ fr')
    (hcs : ∀ x, x ≤ l → (∀ c, c ∈ cs → c.sn ≠ x) → (∀ c, c ∈ cs' → c.sn ≠ x)) (h : GoneW cs l fr sn) :
    GoneW cs' l' fr' sn := by
  refine ⟨Nat.le_trans h.1 hl, ?_⟩
  rcases h.2 with h2 | h2
  · exact Or.inl (hcs sn h.1 h2)
  · exact Or.inr (Nat.le_trans h2 hfr)

theorem SubTruthful.mono {cs cs' : List Change} {l l' fr fr' : Nat} (hl : l ≤ l') (hfr : fr ≤ fr')
    (hcs : ∀ x, x ≤ l → (∀ c, c ∈ cs → c.sn ≠ x) → (∀ c, c ∈ cs' → c.sn ≠ x)) (s : Sub)
    (h : SubTruthful cs l fr s) : SubTruthful cs' l' fr' s := by
  cases s <;> simp only [SubTruthful] at h ⊢
  · intro sn h1 h2; exact (h sn h1 h2).mono hl hfr hcs
  · exact ⟨fun sn h1 h2 => (h.1 sn h1 h2).mono hl hfr hcs, Nat.le_trans h.2 hl⟩
  · intro sn hsn; exact Nat.le_trans (h sn hsn) hl
  · exact Nat.le_trans h hl

theorem DgramsTruthful.mono {cs cs' : List Change} {l l' fr fr' : Nat} (hl : l ≤ l') (hfr : fr ≤ fr')
    (hcs : ∀ x, x ≤ l → (∀ c, c ∈ cs → c.sn ≠ x) → (∀ c, c ∈ cs' → c.sn ≠ x)) (ds : List Dgram)
    (h : DgramsTruthful cs l fr ds) : DgramsTruthful cs' l' fr' ds :=
  fun d hd s hs => (h d hd s hs).mono hl hfr hcs

theorem DgramsTruthful.nil (cs : List Change) (l fr : Nat) : DgramsTruthful cs l fr [] := by
  intro d hd; cases hd

theorem DgramsTruthful.append {cs : List Change} {l fr : Nat} {a b : List Dgram} (ha : DgramsTruthful cs l fr a)
    (hb : DgramsTruthful cs l fr b) : DgramsTruthful cs l fr (a ++ b) := by
  intro d hd
  rcases List.mem_append.mp hd with h | h
  · exact ha d h
  · exact hb d h

theorem DgramsTruthful.sublist {cs : List Change} {l fr : Nat} {a b : List Dgram} (h : a.Sublist b)
    (hb : DgramsTruthful cs l fr b) : DgramsTruthful cs l fr a := fun d hd => hb d (h.subset hd)

theorem dgramsTruthful_single {cs : List Change} {l fr : Nat} (to : Bool) (subs : List Sub)
    (h : ∀ s, s ∈ subs → SubTruthful cs l fr s) : DgramsTruthful cs l fr [⟨to, subs⟩] := by
  intro d hd
  simp only [List.mem_singleton] at hd
  subst hd
  exact h

/-! ### minima / maxima -/

theorem minAbove_some {hs : Nat} {cs : List Change} {n : Nat} (h : minAbove hs cs = some n) :
    (∃ c, c ∈ cs ∧ c.sn = n) ∧ n > hs ∧ ∀ c, c ∈ cs → c.sn > hs → n ≤ c.sn := by
  induction cs generalizing n with
  | nil => simp [minAbove] at h
  | cons x xs ih =>
    unfold minAbove at h
    split at h
    · rename_i hnone
      split at h
      · rename_i hx
        injection h with h; subst h
        refine ⟨⟨x, List.mem_cons_self .., rfl⟩, hx, ?_⟩
        intro c hc hgt
        rcases List.mem_cons.mp hc with rfl | hc'
        · exact Nat.le_refl _
        · -- no element of xs is above hs
          exfalso
          have : ∀ (l : List Change), minAbove hs l = none → ∀ c, c ∈ l → ¬ c.sn > hs := by
            intro l
            induction l with
            | nil => intro _ c hc; cases hc
            | cons y ys ihy =>
              intro hn c hc
              unfold minAbove at hn
              split at hn
              · split at hn
                · cases hn
                · rename_i hnn hy
                  rcases List.mem_cons.mp hc with rfl | hc''
                  · exact hy
                  · exact ihy hnn c hc''
              · split at hn <;> cases hn
          exact this xs hnone c hc' hgt
      · cases h
    · rename_i m hm
      obtain ⟨⟨c0, hc0, hc0sn⟩, hmgt, hmin⟩ := ih hm
      split at h
      · rename_i hx
        injection h with h; subst h
        refine ⟨⟨x, List.mem_cons_self .., rfl⟩, hx.1, ?_⟩
        intro c hc hgt
        rcases List.mem_cons.mp hc with rfl | hc'
        · exact Nat.le_refl _
        · have := hmin c hc' hgt; omega
      · rename_i hx
        injection h with h; subst h
        refine ⟨⟨c0, List.mem_cons_of_mem _ hc0, hc0sn⟩, hmgt, ?_⟩
        intro c hc hgt
        rcases List.mem_cons.mp hc with rfl | hc'
        · by_cases hlt : c.sn < m
          · exact absurd ⟨hgt, hlt⟩ hx
          · omega
        · exact hmin c hc' hgt

theorem minNat_some {l : List Nat} {m : Nat} (h : minNat l = some m) : m ∈ l ∧ ∀ x, x ∈ l → m ≤ x := by
  induction l generalizing m with
  | nil => simp [minNat] at h
  | cons y ys ih =>
    unfold minNat at h
    split at h
    · rename_i hn
      injection h with h; subst h
      have : ys = [] := by
        cases ys with
        | nil => rfl
        | cons z zs =>
          unfold minNat at hn
          split at hn
          · cases hn
          · split at hn <;> cases hn
      subst this
      exact ⟨List.mem_cons_self .., by intro x hx; simp at hx; omega⟩
    · rename_i m' hm'
      obtain ⟨h1, h2⟩ := ih hm'
      split at h
      · rename_i hlt
        injection h with h; subst h
        refine ⟨List.mem_cons_self .., ?_⟩
        intro x hx
        rcases List.mem_cons.mp hx with rfl | hx'
        · exact Nat.le_refl _
        · have := h2 x hx'; omega
      · rename_i hlt
        injection h with h; subst h
        refine ⟨List.mem_cons_of_mem _ h1, ?_⟩
        intro x hx
        rcases List.mem_cons.mp hx with rfl | hx'
        · omega
        · exact h2 x hx'

theorem maxNat_some {l : List Nat} {m : Nat} (h : maxNat l = some m) : m ∈ l := by
  induction l generalizing m with
  | nil => simp [maxNat] at h
  | cons y ys ih =>
    unfold maxNat at h
    split at h
    · injection h with h; subst h; exact List.mem_cons_self ..
    · rename_i m' hm'
      split at h
      · injection h with h; subst h; exact List.mem_cons_self ..
      · injection h with h; subst h; exact List.mem_cons_of_mem _ (ih hm')

theorem findChange_none {cs : List Change} {sn : Nat} (h : findChange cs sn = none) : ∀ c, c ∈ cs → c.sn ≠ sn := by
  unfold findChange at h
  intro c hc heq
  have := List.find?_eq_none.mp h c hc
  simp [hasSn, heq] at this

theorem sendable_none' {cs : List Change} {b : Bool} {fr sn l : Nat} (hsn : sn ≤ l)
    (h : sendable cs b fr sn = none) : GoneW cs l fr sn := by
  unfold sendable at h
  split at h
  · rename_i hc
    exact ⟨hsn, Or.inr (by omega)⟩
  · exact ⟨hsn, Or.inl (findChange_none h)⟩

/-- the heartbeat is truthful: nothing below `first` is held, `last` was published -/
theorem genHb_truthful (cs : List Change) (l fr : Nat) (hcs : ∀ c, c ∈ cs → c.sn ≤ l) (p : RProxy) (now : Nat) :
    SubTruthful cs l fr (p.genHb cs now).2 := by
  simp only [RProxy.genHb, SubTruthful]
  constructor
  · intro sn h1 hlt
    cases hmin : minSn cs with
    | none => rw [hmin] at hlt; simp at hlt; omega
    | some m =>
      rw [hmin] at hlt
      simp only [Option.getD_some] at hlt
      obtain ⟨hm1, hm2⟩ := minNat_some hmin
      obtain ⟨c0, hc0, hc0sn⟩ := List.mem_map.mp hm1
      have := hcs c0 hc0
      refine ⟨by unfold snOf at hc0sn; omega, Or.inl ?_⟩
      intro c hc heq
      have := hm2 c.sn (List.mem_map.mpr ⟨c, hc, rfl⟩)
      omega
  · cases hmax : maxSn cs with
    | none => simp
    | some m =>
      simp only [Option.getD_some]
      obtain ⟨c0, hc0, hc0sn⟩ := List.mem_map.mp (maxNat_some hmax)
      have := hcs c0 hc0
      unfold snOf at hc0sn; omega

/-- the range GAP in front of the next unsent change is truthful -/
theorem rangeGap_truthful (cs : List Change) (l fr hs n : Nat) (hcs : ∀ c, c ∈ cs → c.sn ≤ l)
    (hn : minAbove hs cs = some n) : SubTruthful cs l fr (.gap (hs + 1) n []) := by
  obtain ⟨⟨c0, hc0, hc0sn⟩, _, hmin⟩ := minAbove_some hn
  simp only [SubTruthful]
  intro sn _ h
  rcases h with ⟨h1, h2⟩ | h
  · have := hcs c0 hc0
    refine ⟨by omega, Or.inl ?_⟩
    intro c hc heq
    have := hmin c hc (by omega)
    omega
  · cases h

theorem singleGap_truthful (cs : List Change) (l fr n : Nat) (h : GoneW cs l fr n) :
    SubTruthful cs l fr (.gap n (n + 1) []) := by
  simp only [SubTruthful]
  intro sn _ hh
  rcases hh with ⟨h1, h2⟩ | hh
  · have : sn = n := by omega
    subst this; exact h
  · cases hh

theorem frag_truthful (cs : List Change) (l fr : Nat) (x : Frag) : SubTruthful cs l fr (.frag x) := trivial

theorem fragDgrams_truthful (cs : List Change) (l fr : Nat) (c : Change) (f n : Nat) :
    DgramsTruthful cs l fr (fragDgrams c f n) := by
  induction n with
  | zero => exact DgramsTruthful.nil cs l fr
  | succ k ih =>
    unfold fragDgrams
    apply ih.append
    apply dgramsTruthful_single
    intro s hs
    simp only [List.mem_cons, List.not_mem_nil, or_false] at hs
    rcases hs with rfl | rfl | rfl <;> trivial

theorem fragDgramsHb_truthful (cs : List Change) (l fr : Nat) (c : Change) (f n : Nat) (hb : Sub)
    (hhb : SubTruthful cs l fr hb) : DgramsTruthful cs l fr (fragDgramsHb c f n hb) := by
  unfold fragDgramsHb
  apply (fragDgrams_truthful cs l fr c f _).append
  apply dgramsTruthful_single
  intro s hs
  simp only [List.mem_cons, List.not_mem_nil, or_false] at hs
  rcases hs with rfl | rfl | rfl | rfl
  · trivial
  · trivial
  · trivial
  · exact hhb

/-- what the emission loops keep of the proxy -/
def SameCore (p p' : RProxy) : Prop :=
  p'.firstRelevant = p.firstRelevant ∧ p'.reliable = p.reliable ∧ ∀ x, x ∈ p'.requested → x ∈ p.requested

theorem SameCore.refl (p : RProxy) : SameCore p p := ⟨rfl, rfl, fun _ h => h⟩
theorem SameCore.trans {a b c : RProxy} (h1 : SameCore a b) (h2 : SameCore b c) : SameCore a c :=
  ⟨h2.1.trans h1.1, h2.2.1.trans h1.2.1, fun x hx => h1.2.2 x (h2.2.2 x hx)⟩

theorem setSent_core (p : RProxy) (n : Nat) : SameCore p (p.setSent n) := by
  unfold RProxy.setSent; split <;> exact ⟨rfl, rfl, fun _ h => h⟩

theorem genHb_core (p : RProxy) (cs : List Change) (now : Nat) : SameCore p (p.genHb cs now).1 :=
  ⟨rfl, rfl, fun _ h => h⟩

theorem relUnsentLoop_truthful (cfg : Cfg) (cs : List Change) (f now l fr : Nat) (hcs : ∀ c, c ∈ cs → c.sn ≤ l)
    (fuel : Nat) (p : RProxy) (acc : List Dgram) (hfr : p.firstRelevant = fr) (hacc : DgramsTruthful cs l fr acc) :
    DgramsTruthful cs l fr (relUnsentLoop cfg cs f now fuel p acc).2 ∧ SameCore p (relUnsentLoop cfg cs f now fuel p acc).1 := by
  induction fuel generalizing p acc with
  | zero => exact ⟨hacc, SameCore.refl p⟩
  | succ fuel ih =>
    unfold relUnsentLoop
    split
    · exact ⟨hacc, SameCore.refl p⟩
    · rename_i n hn
      obtain ⟨⟨c0, hc0, hc0sn⟩, _, _⟩ := minAbove_some hn
      have hnl : n ≤ l := by have := hcs c0 hc0; omega
      split
      · have hg : DgramsTruthful cs l fr [mkW [.dst, .gap (p.highestSent + 1) n [], (p.genHb cs now).2]] := by
          apply dgramsTruthful_single
          intro s hs
          simp only [List.mem_cons, List.not_mem_nil, or_false] at hs
          rcases hs with rfl | rfl | rfl
          · trivial
          · exact rangeGap_truthful cs l fr _ n hcs hn
          · exact genHb_truthful cs l fr hcs p now
        simp only
        split
        · have hc := (genHb_core p cs now).trans (setSent_core (p.genHb cs now).1 (n - 1))
          obtain ⟨h1, h2⟩ := ih _ _ (by rw [hc.1]; exact hfr) (hacc.append hg)
          exact ⟨h1, hc.trans h2⟩
        · have hc := (genHb_core p cs now).trans (setSent_core (p.genHb cs now).1 n)
          obtain ⟨h1, h2⟩ := ih _ _ (by rw [hc.1]; exact hfr) (hacc.append hg)
          exact ⟨h1, hc.trans h2⟩
      · split
        · rename_i c hc
          simp only
          have hcore := (genHb_core p cs now).trans (setSent_core (p.genHb cs now).1 n)
          split
          · obtain ⟨h1, h2⟩ := ih _ _ (by rw [hcore.1]; exact hfr)
              (hacc.append (fragDgramsHb_truthful cs l fr c f _ _ (genHb_truthful cs l fr hcs p now)))
            exact ⟨h1, hcore.trans h2⟩
          · have hd : DgramsTruthful cs l fr [mkW [.dst, .ts, .data c.sn c.payload, (p.genHb cs now).2]] := by
              apply dgramsTruthful_single
              intro s hs
              simp only [List.mem_cons, List.not_mem_nil, or_false] at hs
              rcases hs with rfl | rfl | rfl | rfl
              · trivial
              · trivial
              · trivial
              · exact genHb_truthful cs l fr hcs p now
            obtain ⟨h1, h2⟩ := ih _ _ (by rw [hcore.1]; exact hfr) (hacc.append hd)
            exact ⟨h1, hcore.trans h2⟩
        · rename_i hnone
          have hcore := setSent_core p n
          have hd : DgramsTruthful cs l fr [mkW [.dst, .gap n (n + 1) []]] := by
            apply dgramsTruthful_single
            intro s hs
            simp only [List.mem_cons, List.not_mem_nil, or_false] at hs
            rcases hs with rfl | rfl
            · trivial
            · rw [← hfr]; exact singleGap_truthful cs l _ n (sendable_none' hnl hnone)
          obtain ⟨h1, h2⟩ := ih _ _ (by rw [hcore.1]; exact hfr) (hacc.append hd)
          exact ⟨h1, hcore.trans h2⟩

theorem beLoop_truthful (cfg : Cfg) (cs : List Change) (f l fr : Nat) (hcs : ∀ c, c ∈ cs → c.sn ≤ l)
    (fuel : Nat) (p : RProxy) (acc : List Dgram) (hfr : p.firstRelevant = fr) (hacc : DgramsTruthful cs l fr acc) :
    DgramsTruthful cs l fr (beLoop cfg cs f fuel p acc).2 ∧ SameCore p (beLoop cfg cs f fuel p acc).1 := by
  induction fuel generalizing p acc with
  | zero => exact ⟨hacc, SameCore.refl p⟩
  | succ fuel ih =>
    unfold beLoop
    split
    · exact ⟨hacc, SameCore.refl p⟩
    · rename_i n hn
      obtain ⟨⟨c0, hc0, hc0sn⟩, _, _⟩ := minAbove_some hn
      have hnl : n ≤ l := by have := hcs c0 hc0; omega
      split
      · have hg : DgramsTruthful cs l fr [mkW [.gap (p.highestSent + 1) n []]] := by
          apply dgramsTruthful_single
          intro s hs
          simp only [List.mem_cons, List.not_mem_nil, or_false] at hs
          subst hs
          exact rangeGap_truthful cs l fr _ n hcs hn
        split
        · have hc := setSent_core p (n - 1)
          obtain ⟨h1, h2⟩ := ih _ _ (by rw [hc.1]; exact hfr) (hacc.append hg)
          exact ⟨h1, hc.trans h2⟩
        · have hc := setSent_core p n
          obtain ⟨h1, h2⟩ := ih _ _ (by rw [hc.1]; exact hfr) (hacc.append hg)
          exact ⟨h1, hc.trans h2⟩
      · have hcore := setSent_core p n
        split
        · rename_i c hc
          split
          · obtain ⟨h1, h2⟩ := ih _ _ (by rw [hcore.1]; exact hfr) (hacc.append (fragDgrams_truthful cs l fr c f _))
            exact ⟨h1, hcore.trans h2⟩
          · have hd : DgramsTruthful cs l fr [mkW [.dst, .ts, .data c.sn c.payload]] := by
              apply dgramsTruthful_single
              intro s hs
              simp only [List.mem_cons, List.not_mem_nil, or_false] at hs
              rcases hs with rfl | rfl | rfl <;> trivial
            obtain ⟨h1, h2⟩ := ih _ _ (by rw [hcore.1]; exact hfr) (hacc.append hd)
            exact ⟨h1, hcore.trans h2⟩
        · rename_i hnone
          have hd : DgramsTruthful cs l fr [mkW [.gap n (n + 1) []]] := by
            apply dgramsTruthful_single
            intro s hs
            simp only [List.mem_cons, List.not_mem_nil, or_false] at hs
            subst hs
            rw [← hfr]; exact singleGap_truthful cs l _ n (sendable_none' hnl hnone)
          obtain ⟨h1, h2⟩ := ih _ _ (by rw [hcore.1]; exact hfr) (hacc.append hd)
          exact ⟨h1, hcore.trans h2⟩

theorem minNat_mem {l : List Nat} {m : Nat} (h : minNat l = some m) : m ∈ l := (minNat_some h).1

theorem relRequestedLoop_truthful (cs : List Change) (f now l fr : Nat) (hcs : ∀ c, c ∈ cs → c.sn ≤ l)
    (fuel : Nat) (p : RProxy) (acc : List Dgram) (hfr : p.firstRelevant = fr) (hreq : ∀ x, x ∈ p.requested → x ≤ l)
    (hacc : DgramsTruthful cs l fr acc) :
    DgramsTruthful cs l fr (relRequestedLoop cs f now fuel p acc).2 ∧ SameCore p (relRequestedLoop cs f now fuel p acc).1 := by
  induction fuel generalizing p acc with
  | zero => exact ⟨hacc, SameCore.refl p⟩
  | succ fuel ih =>
    unfold relRequestedLoop
    split
    · exact ⟨hacc, SameCore.refl p⟩
    · rename_i m hm
      have hml : m ≤ l := hreq m (minNat_mem hm)
      have hcore0 : SameCore p { p with requested := p.requested.filter (neNat m) } :=
        ⟨rfl, rfl, fun x hx => (List.mem_filter.mp hx).1⟩
      have hreq0 : ∀ x, x ∈ (p.requested.filter (neNat m)) → x ≤ l := fun x hx => hreq x (List.mem_filter.mp hx).1
      simp only
      split
      · rename_i c hc
        have hcore := hcore0.trans (genHb_core { p with requested := p.requested.filter (neNat m) } cs now)
        have hhb := genHb_truthful cs l fr hcs { p with requested := p.requested.filter (neNat m) } now
        split
        · have hd : DgramsTruthful cs l fr [mkW [.dst, .ts, .frag (asDataFrag c f 0),
              (RProxy.genHb { p with requested := p.requested.filter (neNat m) } cs now).2]] := by
            apply dgramsTruthful_single
            intro s hs
            simp only [List.mem_cons, List.not_mem_nil, or_false] at hs
            rcases hs with rfl | rfl | rfl | rfl
            · trivial
            · trivial
            · trivial
            · exact hhb
          obtain ⟨h1, h2⟩ := ih _ _ (by rw [hcore.1]; exact hfr) hreq0 (hacc.append hd)
          exact ⟨h1, hcore.trans h2⟩
        · have hd : DgramsTruthful cs l fr [mkW [.dst, .ts, .data c.sn c.payload,
              (RProxy.genHb { p with requested := p.requested.filter (neNat m) } cs now).2]] := by
            apply dgramsTruthful_single
            intro s hs
            simp only [List.mem_cons, List.not_mem_nil, or_false] at hs
            rcases hs with rfl | rfl | rfl | rfl
            · trivial
            · trivial
            · trivial
            · exact hhb
          obtain ⟨h1, h2⟩ := ih _ _ (by rw [hcore.1]; exact hfr) hreq0 (hacc.append hd)
          exact ⟨h1, hcore.trans h2⟩
      · rename_i hnone
        have hd : DgramsTruthful cs l fr [mkW [.dst, .gap m (m + 1) []]] := by
          apply dgramsTruthful_single
          intro s hs
          simp only [List.mem_cons, List.not_mem_nil, or_false] at hs
          rcases hs with rfl | rfl
          · trivial
          · rw [← hfr]; exact singleGap_truthful cs l _ m (sendable_none' hml hnone)
        obtain ⟨h1, h2⟩ := ih _ _ (by rw [hcore0.1]; exact hfr) hreq0 (hacc.append hd)
        exact ⟨h1, hcore0.trans h2⟩

theorem relTop_truthful (cfg : Cfg) (cs : List Change) (f now l : Nat) (hcs : ∀ c, c ∈ cs → c.sn ≤ l) (p : RProxy) :
    DgramsTruthful cs l p.firstRelevant (p.relTop cfg cs f now).2 ∧ SameCore p (p.relTop cfg cs f now).1 := by
  unfold RProxy.relTop
  split
  · exact relUnsentLoop_truthful cfg cs f now l _ hcs _ p [] rfl (DgramsTruthful.nil _ _ _)
  · split
    · exact ⟨DgramsTruthful.nil _ _ _, SameCore.refl p⟩
    · split
      · refine ⟨?_, genHb_core p cs now⟩
        apply dgramsTruthful_single
        intro s hs
        simp only [List.mem_cons, List.not_mem_nil, or_false] at hs
        rcases hs with rfl | rfl
        · trivial
        · exact genHb_truthful cs l _ hcs p now
      · exact ⟨DgramsTruthful.nil _ _ _, SameCore.refl p⟩

theorem relMiddle_truthful (cs : List Change) (f now l : Nat) (hcs : ∀ c, c ∈ cs → c.sn ≤ l) (p : RProxy)
    (hreq : ∀ x, x ∈ p.requested → x ≤ l) :
    DgramsTruthful cs l p.firstRelevant (RProxy.relMiddle cs f now p).2 ∧ SameCore p (RProxy.relMiddle cs f now p).1 := by
  unfold RProxy.relMiddle
  split
  · exact relRequestedLoop_truthful cs f now l _ hcs _ p [] rfl hreq (DgramsTruthful.nil _ _ _)
  · exact ⟨DgramsTruthful.nil _ _ _, SameCore.refl p⟩

theorem writeReliable_truthful (cfg : Cfg) (cs : List Change) (f now l : Nat) (hcs : ∀ c, c ∈ cs → c.sn ≤ l) (p : RProxy)
    (hreq : ∀ x, x ∈ p.requested → x ≤ l) :
    DgramsTruthful cs l p.firstRelevant (p.writeReliable cfg cs f now).2 ∧ SameCore p (p.writeReliable cfg cs f now).1 := by
  unfold RProxy.writeReliable
  obtain ⟨t1, t2⟩ := relTop_truthful cfg cs f now l hcs p
  obtain ⟨m1, m2⟩ := relMiddle_truthful cs f now l hcs (p.relTop cfg cs f now).1 (fun x hx => hreq x (t2.2.2 x hx))
  rw [t2.1] at m1
  exact ⟨t1.append m1, t2.trans m2⟩

theorem proxy_writeMessage_truthful (cfg : Cfg) (cs : List Change) (f now l : Nat) (hcs : ∀ c, c ∈ cs → c.sn ≤ l)
    (p : RProxy) (hreq : ∀ x, x ∈ p.requested → x ≤ l) :
    DgramsTruthful cs l p.firstRelevant (p.writeMessage cfg cs f now).2 ∧ SameCore p (p.writeMessage cfg cs f now).1 := by
  unfold RProxy.writeMessage
  split
  · exact writeReliable_truthful cfg cs f now l hcs p hreq
  · exact beLoop_truthful cfg cs f l _ hcs _ p [] rfl (DgramsTruthful.nil _ _ _)

/-! ### writer entry points -/

def Writer.firstRel (w : Writer) : Nat :=
  match w.proxy with
  | none => 0
  | some p => p.firstRelevant

/-- every requested number was published -/
def ReqB (l : Nat) (w : Writer) : Prop := ∀ p, w.proxy = some p → ∀ x, x ∈ p.requested → x ≤ l

theorem Writer.writeMessage_truthful (cfg : Cfg) (w : Writer) (now l : Nat) (hcs : ∀ c, c ∈ w.changes → c.sn ≤ l)
    (hreq : ReqB l w) :
    DgramsTruthful w.changes l w.firstRel (w.writeMessage cfg now).2 ∧ (w.writeMessage cfg now).1.firstRel = w.firstRel ∧
    ReqB l (w.writeMessage cfg now).1 := by
  unfold Writer.writeMessage
  split
  · rename_i hnone
    exact ⟨DgramsTruthful.nil _ _ _, rfl, hreq⟩
  · rename_i p hp
    obtain ⟨h1, h2⟩ := proxy_writeMessage_truthful cfg w.changes w.f now l hcs p (hreq p hp)
    simp only [Writer.firstRel, hp]
    refine ⟨h1, h2.1, ?_⟩
    intro q hq x hx
    simp only at hq
    cases hq
    exact hreq p hp x (h2.2.2 x hx)

theorem foldl_pushNew_mem (set : List Nat) (acc : List Nat) (x : Nat) (h : x ∈ set.foldl pushNew acc) : x ∈ acc ∨ x ∈ set := by
  induction set generalizing acc with
  | nil => exact Or.inl h
  | cons y ys ih =>
    simp only [List.foldl_cons] at h
    rcases ih _ h with h' | h'
    · unfold pushNew at h'
      split at h'
      · exact Or.inl h'
      · rcases List.mem_append.mp h' with h'' | h''
        · exact Or.inl h''
        · simp only [List.mem_singleton] at h''; subst h''; exact Or.inr (List.mem_cons_self ..)
    · exact Or.inr (List.mem_cons_of_mem _ h')

theorem Writer.onAcknack_truthful (cfg : Cfg) (w : Writer) (base : Nat) (set : List Nat) (count now l : Nat)
    (hcs : ∀ c, c ∈ w.changes → c.sn ≤ l) (hreq : ReqB l w) (hset : ∀ x, x ∈ set → x ≤ l) :
    DgramsTruthful w.changes l w.firstRel (w.onAcknack cfg base set count now).2 ∧
    (w.onAcknack cfg base set count now).1.firstRel = w.firstRel ∧ ReqB l (w.onAcknack cfg base set count now).1 := by
  unfold Writer.onAcknack
  split
  · exact ⟨DgramsTruthful.nil _ _ _, rfl, hreq⟩
  · rename_i p hp
    split
    · simp only
      generalize hp2 : ({ (if base - 1 > p.highestAcked then { p with highestAcked := base - 1 } else p) with
          requested := set.foldl pushNew (if base - 1 > p.highestAcked then { p with highestAcked := base - 1 } else p).requested,
          lastAcknack := count } : RProxy) = p2
      have hfr2 : p2.firstRelevant = p.firstRelevant := by rw [← hp2]; split <;> rfl
      have hreq2 : ∀ x, x ∈ p2.requested → x ≤ l := by
        rw [← hp2]
        intro x hx
        simp only at hx
        rcases foldl_pushNew_mem set _ x hx with h | h
        · have : x ∈ p.requested := by
            revert h; split <;> exact fun h => h
          exact hreq p hp x this
        · exact hset x h
      obtain ⟨h1, h2⟩ := writeReliable_truthful cfg w.changes w.f now l hcs p2 hreq2
      simp only [Writer.firstRel, hp]
      rw [hfr2] at h1
      refine ⟨h1, h2.1.trans hfr2, ?_⟩
      intro q hq x hx
      simp only at hq
      cases hq
      exact hreq2 x (h2.2.2 x hx)
    · exact ⟨DgramsTruthful.nil _ _ _, rfl, hreq⟩

theorem nackFragAnswers_truthful (cfg : Cfg) (cs : List Change) (l fr : Nat) (c : Change) (f : Nat) (reqs : List Nat) :
    DgramsTruthful cs l fr (nackFragAnswers cfg c f reqs) := by
  induction reqs with
  | nil => exact DgramsTruthful.nil _ _ _
  | cons r rest ih =>
    unfold nackFragAnswers
    refine DgramsTruthful.append ?_ ih
    unfold nackFragAnswer
    have single : ∀ k, DgramsTruthful cs l fr [mkW [.dst, .ts, .frag (asDataFrag c f k)]] := by
      intro k
      apply dgramsTruthful_single
      intro s hs
      simp only [List.mem_cons, List.not_mem_nil, or_false] at hs
      rcases hs with rfl | rfl | rfl <;> trivial
    split
    · split
      · exact single _
      · exact DgramsTruthful.nil _ _ _
    · split
      · exact single _
      · exact DgramsTruthful.nil _ _ _

theorem Writer.onNackFrag_truthful (cfg : Cfg) (w : Writer) (sn base : Nat) (set : List Nat) (count l : Nat)
    (hreq : ReqB l w) (hsn : sn ≤ l) :
    DgramsTruthful w.changes l w.firstRel (w.onNackFrag cfg sn base set count).2 ∧
    (w.onNackFrag cfg sn base set count).1.firstRel = w.firstRel ∧ ReqB l (w.onNackFrag cfg sn base set count).1 := by
  unfold Writer.onNackFrag
  split
  · exact ⟨DgramsTruthful.nil _ _ _, rfl, hreq⟩
  · rename_i p hp
    have hreq' : ReqB l { w with proxy := some { p with lastNackFrag := count } } := by
      intro q hq x hx
      simp only at hq
      cases hq
      exact hreq p hp x hx
    split
    · split
      · exact ⟨nackFragAnswers_truthful cfg _ _ _ _ _ _, by simp only [Writer.firstRel, hp], hreq'⟩
      · rename_i hnone
        refine ⟨?_, by simp only [Writer.firstRel, hp], hreq'⟩
        apply dgramsTruthful_single
        intro s hs
        simp only [List.mem_cons, List.not_mem_nil, or_false] at hs
        rcases hs with rfl | rfl
        · trivial
        · exact singleGap_truthful _ _ _ sn ⟨hsn, Or.inl (findChange_none hnone)⟩
    · exact ⟨DgramsTruthful.nil _ _ _, rfl, hreq⟩

theorem Writer.onSub_truthful (cfg : Cfg) (w : Writer) (now l : Nat) (s : Sub) (hcs : ∀ c, c ∈ w.changes → c.sn ≤ l)
    (hreq : ReqB l w) (fr0 : Nat) (cs0 : List Change) (hs : SubTruthful cs0 l fr0 s) :
    DgramsTruthful w.changes l w.firstRel (w.onSub cfg now s).2 ∧ (w.onSub cfg now s).1.firstRel = w.firstRel ∧
    ReqB l (w.onSub cfg now s).1 := by
  cases s
  case acknack b st c fin => exact Writer.onAcknack_truthful cfg w b st c now l hcs hreq hs
  case nackfrag sn b st c => exact Writer.onNackFrag_truthful cfg w sn b st c l hreq hs
  all_goals exact ⟨DgramsTruthful.nil _ _ _, rfl, hreq⟩

theorem Writer.onSubs_truthful (cfg : Cfg) (w : Writer) (now l : Nat) (subs : List Sub)
    (hcs : ∀ c, c ∈ w.changes → c.sn ≤ l) (hreq : ReqB l w) (fr0 : Nat) (cs0 : List Change)
    (hs : ∀ s, s ∈ subs → SubTruthful cs0 l fr0 s) :
    DgramsTruthful w.changes l w.firstRel (w.onSubs cfg now subs).2 ∧ (w.onSubs cfg now subs).1.firstRel = w.firstRel ∧
    ReqB l (w.onSubs cfg now subs).1 := by
  induction subs generalizing w with
  | nil => exact ⟨DgramsTruthful.nil _ _ _, rfl, hreq⟩
  | cons s rest ih =>
    simp only [Writer.onSubs]
    obtain ⟨a1, a2, a3⟩ := Writer.onSub_truthful cfg w now l s hcs hreq fr0 cs0 (hs s (List.mem_cons_self ..))
    have hc := Writer.onSub_changes cfg w now s
    obtain ⟨b1, b2, b3⟩ := ih (w.onSub cfg now s).1 (by rw [hc.1]; exact hcs) a3
      (fun x hx => hs x (List.mem_cons_of_mem _ hx))
    rw [hc.1, a2] at b1
    exact ⟨a1.append b1, b2.trans a2, b3⟩

end DustVerif.Rtps
