import DustVerif.Model.Rtps
import Batteries.Data.List.Perm
/-! Fragmentation / reassembly lemmas for the `rtps` model (used by Props/C05, C02, C01). -/
namespace DustVerif.Rtps

theorem mem_rangeIncl (lo hi x : Nat) : x ∈ rangeIncl lo hi ↔ lo ≤ x ∧ x ≤ hi := by
  unfold rangeIncl
  simp only [List.mem_map, List.mem_range]
  constructor
  · rintro ⟨a, ha, rfl⟩; omega
  · rintro ⟨h1, h2⟩; exact ⟨x - lo, by omega, by omega⟩

theorem mem_missingFrags' (buf : List Frag) (sn total n : Nat) :
    n ∈ missingFrags buf sn total ↔ (1 ≤ n ∧ n ≤ total) ∧ fragAbsent buf sn n = true := by
  unfold missingFrags
  rw [List.mem_filter, mem_rangeIncl]

/-! ### divCeil -/

theorem divCeil_mul_ge (n f : Nat) (hf : 1 ≤ f) : n ≤ divCeil n f * f := by
  unfold divCeil
  have h1 := Nat.div_add_mod n f
  have h2 := Nat.mod_lt n (by omega : f > 0)
  generalize n / f = q at *
  generalize n % f = r at *
  by_cases h0 : r = 0
  · subst h0; simp only [if_true, Nat.add_zero]; rw [Nat.mul_comm]; omega
  · simp only [h0, if_false, Nat.add_mul, Nat.one_mul]; rw [Nat.mul_comm q f]; omega

theorem divCeil_pred_mul_lt (n f : Nat) (hf : 1 ≤ f) (hn : 0 < n) : (divCeil n f - 1) * f < n := by
  unfold divCeil
  have h1 := Nat.div_add_mod n f
  have h2 := Nat.mod_lt n (by omega : f > 0)
  generalize n / f = q at *
  generalize n % f = r at *
  by_cases h0 : r = 0
  · subst h0
    simp only [if_true, Nat.add_zero]
    cases q with
    | zero => simp at h1; omega
    | succ q =>
      simp only [Nat.add_sub_cancel]
      rw [Nat.mul_add, Nat.mul_one] at h1
      rw [Nat.mul_comm q f]; omega
  · simp only [h0, if_false, Nat.add_sub_cancel]; rw [Nat.mul_comm q f]; omega

theorem divCeil_zero (f : Nat) : divCeil 0 f = 0 := by simp [divCeil]

/-- the ceiling: the unique `N` with `(N-1)·f < n ≤ N·f` -/
theorem divCeil_unique (n f N : Nat) (hf : 1 ≤ f) (h1 : n ≤ N * f) (h2 : n = 0 → N = 0) (h3 : 0 < n → (N - 1) * f < n) :
    divCeil n f = N := by
  rcases Nat.eq_zero_or_pos n with h0 | hpos
  · subst h0; rw [divCeil_zero]; exact (h2 rfl).symm
  · have a1 := divCeil_mul_ge n f hf
    have a2 := divCeil_pred_mul_lt n f hf hpos
    have a3 := h3 hpos
    -- both are ceilings
    rcases Nat.lt_trichotomy (divCeil n f) N with h | h | h
    · exfalso
      have : divCeil n f * f ≤ (N - 1) * f := Nat.mul_le_mul_right f (by omega)
      omega
    · exact h
    · exfalso
      have : N * f ≤ (divCeil n f - 1) * f := Nat.mul_le_mul_right f (by omega)
      omega

/-! ### chunks of a payload concatenate to the payload -/

def piece (data : Payload) (f k : Nat) : Payload :=
  (data.drop (k * f)).take (min ((k + 1) * f) data.length - k * f)

theorem piece_eq_take (data : Payload) (f k : Nat) : piece data f k = (data.drop (k * f)).take f := by
  unfold piece
  by_cases h : (k + 1) * f ≤ data.length
  · have : min ((k + 1) * f) data.length - k * f = f := by
      rw [Nat.min_eq_left h, Nat.add_mul]; omega
    rw [this]
  · have hlen : (data.drop (k * f)).length ≤ min ((k + 1) * f) data.length - k * f := by
      rw [List.length_drop, Nat.min_eq_right (by omega)]; exact Nat.le_refl _
    have hlen2 : (data.drop (k * f)).length ≤ f := by
      rw [List.length_drop]; rw [Nat.add_mul] at h; omega
    rw [List.take_of_length_le hlen, List.take_of_length_le hlen2]

theorem pieces_take (data : Payload) (f n : Nat) :
    (List.range n).flatMap (piece data f) = data.take (n * f) := by
  induction n with
  | zero => simp
  | succ n ih =>
    rw [List.range_succ, List.flatMap_append, ih]
    simp only [List.flatMap_cons, List.flatMap_nil, List.append_nil]
    rw [piece_eq_take, Nat.add_mul, Nat.one_mul, List.take_add]

theorem pieces_all (data : Payload) (f : Nat) (hf : 1 ≤ f) :
    (List.range (divCeil data.length f)).flatMap (piece data f) = data := by
  rw [pieces_take]
  exact List.take_of_length_le (divCeil_mul_ge _ _ hf)

/-! ### genuine fragments -/

/-- `fr` is one of the fragments the writer makes of change `c` with fragment size `f` -/
def Genuine (c : Change) (f : Nat) (fr : Frag) : Prop := ∃ k, k < fragCount c f ∧ fr = asDataFrag c f k

theorem asDataFrag_sn (c : Change) (f k : Nat) : (asDataFrag c f k).sn = c.sn := rfl
theorem asDataFrag_bytes (c : Change) (f k : Nat) : (asDataFrag c f k).bytes = piece c.payload f k := rfl
theorem asDataFrag_inSub (c : Change) (f k : Nat) : (asDataFrag c f k).inSub = 1 := rfl

theorem fragCount_lt (c : Change) (f : Nat) (hf : 1 ≤ f) (hlen : c.payload.length < 4294967296) :
    fragCount c f ≤ c.payload.length := by
  unfold fragCount
  rcases Nat.eq_zero_or_pos c.payload.length with h | h
  · rw [h, divCeil_zero]; exact Nat.le_refl 0
  · have := divCeil_pred_mul_lt c.payload.length f hf h
    have h2 : (divCeil c.payload.length f - 1) * 1 ≤ (divCeil c.payload.length f - 1) * f := Nat.mul_le_mul_left _ hf
    omega

theorem asDataFrag_startNum (c : Change) (f k : Nat) (hf : 1 ≤ f) (hlen : c.payload.length < 4294967296)
    (hk : k < fragCount c f) : (asDataFrag c f k).startNum = k + 1 := by
  have := fragCount_lt c f hf hlen
  show (k + 1) % 4294967296 = k + 1
  exact Nat.mod_eq_of_lt (by omega)

/-- C05_count core: the reader's `total_fragments_expected` of any genuine fragment is the writer's fragment count -/
theorem totalExpected_genuine (c : Change) (f k : Nat) (hf : 1 ≤ f) (hf16 : f < 65536)
    (hlen : c.payload.length < 4294967296) : totalExpected (asDataFrag c f k) = fragCount c f := by
  unfold totalExpected fragCount asDataFrag
  simp only
  rw [Nat.mod_eq_of_lt hf16, Nat.mod_eq_of_lt hlen]

theorem asDataFrag_inj (c : Change) (f : Nat) (hf : 1 ≤ f) (hlen : c.payload.length < 4294967296) (j k : Nat)
    (hj : j < fragCount c f) (hk : k < fragCount c f) (h : asDataFrag c f j = asDataFrag c f k) : j = k := by
  have h1 := asDataFrag_startNum c f j hf hlen hj
  have h2 := asDataFrag_startNum c f k hf hlen hk
  rw [h] at h1
  omega

theorem fragments_nodup (c : Change) (f : Nat) (hf : 1 ≤ f) (hlen : c.payload.length < 4294967296) :
    (fragments c f).Nodup := by
  unfold fragments
  rw [List.nodup_iff_pairwise_ne, List.pairwise_map]
  refine List.Pairwise.imp_of_mem ?_ (List.nodup_iff_pairwise_ne.mp (List.nodup_range (n := fragCount c f)))
  intro a b ha hb hne heq
  exact hne (asDataFrag_inj c f hf hlen a b (List.mem_range.mp ha) (List.mem_range.mp hb) heq)

theorem mem_fragments (c : Change) (f : Nat) (fr : Frag) : fr ∈ fragments c f ↔ Genuine c f fr := by
  unfold fragments Genuine
  simp only [List.mem_map, List.mem_range]
  constructor
  · rintro ⟨k, hk, rfl⟩; exact ⟨k, hk, rfl⟩
  · rintro ⟨k, hk, rfl⟩; exact ⟨k, hk, rfl⟩

theorem length_fragments (c : Change) (f : Nat) : (fragments c f).length = fragCount c f := by
  simp [fragments]

/-! ### the fragment buffer -/

/-- what the reader's buffer satisfies for sequence number `c.sn` when the network does not forge:
    no duplicates (push_data_frag) and only genuine fragments of `c` under that sequence number -/
structure BufOK (c : Change) (f : Nat) (buf : List Frag) : Prop where
  nodup : buf.Nodup
  genuine : ∀ fr ∈ buf, fr.sn = c.sn → Genuine c f fr

theorem sumInSub_genuine (c : Change) (f : Nat) (l : List Frag) (h : ∀ fr ∈ l, Genuine c f fr) :
    sumInSub l = l.length := by
  induction l with
  | nil => rfl
  | cons x xs ih =>
    obtain ⟨k, _, rfl⟩ := h x (List.mem_cons_self ..)
    simp only [sumInSub, asDataFrag_inSub, List.length_cons]
    rw [ih (fun fr hfr => h fr (List.mem_cons_of_mem _ hfr))]
    omega

theorem isSn_iff (sn : Nat) (fr : Frag) : isSn sn fr = true ↔ fr.sn = sn := by simp [isSn]

theorem filter_subperm (c : Change) (f : Nat) (buf : List Frag) (h : BufOK c f buf) :
    (buf.filter (isSn c.sn)).Subperm (fragments c f) := by
  apply List.subperm_of_subset (h.nodup.sublist List.filter_sublist)
  intro fr hfr
  rw [List.mem_filter, isSn_iff] at hfr
  exact (mem_fragments c f fr).mpr (h.genuine fr hfr.1 hfr.2)

theorem sum_filter_eq (c : Change) (f : Nat) (buf : List Frag) (h : BufOK c f buf) :
    sumInSub (buf.filter (isSn c.sn)) = (buf.filter (isSn c.sn)).length := by
  apply sumInSub_genuine c f
  intro fr hfr
  rw [List.mem_filter, isSn_iff] at hfr
  exact h.genuine fr hfr.1 hfr.2

/-- count = N forces every fragment to be present -/
theorem complete_of_count (c : Change) (f : Nat) (buf : List Frag) (h : BufOK c f buf)
    (hcount : sumInSub (buf.filter (isSn c.sn)) = fragCount c f) :
    ∀ k, k < fragCount c f → asDataFrag c f k ∈ buf := by
  intro k hk
  rw [sum_filter_eq c f buf h] at hcount
  have sp := filter_subperm c f buf h
  have perm := sp.perm_of_length_le (by rw [length_fragments, hcount]; exact Nat.le_refl _)
  have : asDataFrag c f k ∈ buf.filter (isSn c.sn) :=
    perm.symm.subset ((mem_fragments c f _).mpr ⟨k, hk, rfl⟩)
  exact (List.mem_filter.mp this).1

theorem count_of_complete (c : Change) (f : Nat) (hf : 1 ≤ f) (hlen : c.payload.length < 4294967296)
    (buf : List Frag) (h : BufOK c f buf) (hall : ∀ k, k < fragCount c f → asDataFrag c f k ∈ buf) :
    sumInSub (buf.filter (isSn c.sn)) = fragCount c f := by
  rw [sum_filter_eq c f buf h]
  have sp := filter_subperm c f buf h
  have sp2 : (fragments c f).Subperm (buf.filter (isSn c.sn)) := by
    apply List.subperm_of_subset (fragments_nodup c f hf hlen)
    intro fr hfr
    obtain ⟨k, hk, rfl⟩ := (mem_fragments c f fr).mp hfr
    exact List.mem_filter.mpr ⟨hall k hk, by simp [isSn, asDataFrag_sn]⟩
  have a := sp.length_le
  have b := sp2.length_le
  rw [length_fragments] at a b
  omega

/-- the fragment found for (sn, k+1) in a good buffer is the k-th genuine one -/
theorem find_isSnStart (c : Change) (f : Nat) (hf : 1 ≤ f) (hlen : c.payload.length < 4294967296)
    (buf : List Frag) (h : BufOK c f buf) (k : Nat) (hk : k < fragCount c f) (hmem : asDataFrag c f k ∈ buf) :
    buf.find? (isSnStart c.sn (k + 1)) = some (asDataFrag c f k) := by
  have hp : isSnStart c.sn (k + 1) (asDataFrag c f k) = true := by
    simp [isSnStart, asDataFrag_sn, asDataFrag_startNum c f k hf hlen hk]
  cases hfind : buf.find? (isSnStart c.sn (k + 1)) with
  | none => exact absurd hp (by simpa using List.find?_eq_none.mp hfind _ hmem)
  | some fr =>
    have hfr := List.find?_some hfind
    have hmem' := List.mem_of_find?_eq_some hfind
    simp only [isSnStart, Bool.and_eq_true, beq_iff_eq] at hfr
    obtain ⟨j, hj, rfl⟩ := h.genuine fr hmem' hfr.1
    have := asDataFrag_startNum c f j hf hlen hj
    have : j = k := by omega
    rw [this]

theorem find_isSnStart_none (c : Change) (f : Nat) (hf : 1 ≤ f) (hlen : c.payload.length < 4294967296)
    (buf : List Frag) (h : BufOK c f buf) (n : Nat) (hn : n = 0 ∨ n > fragCount c f) :
    buf.find? (isSnStart c.sn n) = none := by
  rw [List.find?_eq_none]
  intro fr hmem hp
  simp only [isSnStart, Bool.and_eq_true, beq_iff_eq] at hp
  obtain ⟨j, hj, rfl⟩ := h.genuine fr hmem hp.1
  have := asDataFrag_startNum c f j hf hlen hj
  omega

theorem pieceAt_complete (c : Change) (f : Nat) (hf : 1 ≤ f) (hlen : c.payload.length < 4294967296)
    (buf : List Frag) (h : BufOK c f buf) (hall : ∀ k, k < fragCount c f → asDataFrag c f k ∈ buf) (k : Nat)
    (hk : k < fragCount c f) : pieceAt buf c.sn (k + 1) = piece c.payload f k := by
  unfold pieceAt
  rw [find_isSnStart c f hf hlen buf h k hk (hall k hk)]
  rfl

theorem range_succ_flatMap {β : Type} (g : Nat → List β) (n : Nat) :
    (List.range (n + 1)).flatMap g = g 0 ++ (List.range n).flatMap (fun k => g (k + 1)) := by
  rw [List.range_succ_eq_map]
  simp [List.flatMap_map]

theorem flatMap_congr_range {β : Type} (g h : Nat → List β) (n : Nat) (e : ∀ k, k < n → g k = h k) :
    (List.range n).flatMap g = (List.range n).flatMap h := by
  induction n with
  | zero => rfl
  | succ n ih =>
    rw [List.range_succ, List.flatMap_append, List.flatMap_append, ih (fun k hk => e k (by omega))]
    simp [e n (by omega)]

/-- reassembly of a complete good buffer gives the payload -/
theorem reassemble_complete (c : Change) (f : Nat) (hf : 1 ≤ f) (hf16 : f < 65536)
    (hlen : c.payload.length < 4294967296) (buf : List Frag) (h : BufOK c f buf)
    (hpos : 0 < fragCount c f) (hall : ∀ k, k < fragCount c f → asDataFrag c f k ∈ buf) :
    reassemble buf c.sn = some c.payload := by
  unfold reassemble
  have h0 := hall 0 hpos
  cases hfind : buf.find? (isSn c.sn) with
  | none => exact absurd (List.find?_eq_none.mp hfind _ h0) (by simp [isSn, asDataFrag_sn])
  | some fr0 =>
    have hfr0 := List.find?_some hfind
    rw [isSn_iff] at hfr0
    obtain ⟨j, _, rfl⟩ := h.genuine fr0 (List.mem_of_find?_eq_some hfind) hfr0
    simp only [totalExpected_genuine c f j hf hf16 hlen, count_of_complete c f hf hlen buf h hall, beq_self_eq_true, if_true]
    rw [find_isSnStart c f hf hlen buf h 0 hpos h0]
    simp only [Option.some.injEq]
    rw [range_succ_flatMap]
    have e0 : pieceAt buf c.sn 0 = [] := by
      unfold pieceAt; rw [find_isSnStart_none c f hf hlen buf h 0 (Or.inl rfl)]
    rw [e0, List.nil_append,
      flatMap_congr_range _ (piece c.payload f) _ (fun k hk => pieceAt_complete c f hf hlen buf h hall k hk)]
    exact pieces_all c.payload f hf

/-- reassembly of an incomplete good buffer gives nothing -/
theorem reassemble_incomplete (c : Change) (f : Nat) (hf : 1 ≤ f) (hf16 : f < 65536)
    (hlen : c.payload.length < 4294967296) (buf : List Frag) (h : BufOK c f buf)
    (k : Nat) (hk : k < fragCount c f) (hmiss : asDataFrag c f k ∉ buf) : reassemble buf c.sn = none := by
  unfold reassemble
  cases hfind : buf.find? (isSn c.sn) with
  | none => rfl
  | some fr0 =>
    have hfr0 := List.find?_some hfind
    rw [isSn_iff] at hfr0
    obtain ⟨j, _, rfl⟩ := h.genuine fr0 (List.mem_of_find?_eq_some hfind) hfr0
    simp only [totalExpected_genuine c f j hf hf16 hlen]
    have hne : ¬ sumInSub (buf.filter (isSn c.sn)) = fragCount c f :=
      fun heq => hmiss (complete_of_count c f buf h heq k hk)
    simp [hne]

/-- whatever reassembly returns for a good buffer is the payload of the change -/
theorem reassemble_sound (c : Change) (f : Nat) (hf : 1 ≤ f) (hf16 : f < 65536)
    (hlen : c.payload.length < 4294967296) (buf : List Frag) (h : BufOK c f buf) (d : Payload)
    (hd : reassemble buf c.sn = some d) : d = c.payload := by
  by_cases hall : ∀ k, k < fragCount c f → asDataFrag c f k ∈ buf
  · rcases Nat.eq_zero_or_pos (fragCount c f) with h0 | hpos
    · -- no fragments exist, so nothing of this sn can be in the buffer
      exfalso
      unfold reassemble at hd
      cases hfind : buf.find? (isSn c.sn) with
      | none => rw [hfind] at hd; simp at hd
      | some fr0 =>
        have hfr0 := List.find?_some hfind
        rw [isSn_iff] at hfr0
        obtain ⟨j, hj, _⟩ := h.genuine fr0 (List.mem_of_find?_eq_some hfind) hfr0
        omega
    · rw [reassemble_complete c f hf hf16 hlen buf h hpos hall] at hd
      exact (Option.some.inj hd).symm
  · exfalso
    have ⟨k, hk⟩ := Classical.not_forall.mp hall
    have ⟨hk1, hk2⟩ := Classical.not_imp.mp hk
    rw [reassemble_incomplete c f hf hf16 hlen buf h k hk1 hk2] at hd
    simp at hd

/-! ### push_data_frag keeps the buffer good -/

theorem pushFrag_nodup (buf : List Frag) (fr : Frag) (h : buf.Nodup) : (pushFrag buf fr).Nodup := by
  unfold pushFrag
  split
  · exact h
  · rename_i hc
    have hn : fr ∉ buf := by simpa using hc
    rw [List.nodup_append]
    refine ⟨h, by simp, ?_⟩
    intro a ha b hb
    simp only [List.mem_singleton] at hb
    subst hb
    intro heq; subst heq; exact hn ha

theorem mem_pushFrag (buf : List Frag) (fr x : Frag) : x ∈ pushFrag buf fr ↔ x ∈ buf ∨ x = fr := by
  unfold pushFrag
  split
  · rename_i hc
    have : fr ∈ buf := by simpa using hc
    constructor
    · exact Or.inl
    · rintro (h | rfl)
      · exact h
      · exact this
  · simp

end DustVerif.Rtps
