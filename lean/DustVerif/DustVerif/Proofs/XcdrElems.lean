import DustVerif.Proofs.XcdrFacts
/-! Decoding the elements of a sequence / array written by `wList`. -/
namespace DustVerif.Xcdr

def byteOf : Val → UInt8
  | .num n => UInt8.ofNat n
  | _ => 0

theorem wList_bytes (cfg : Cfg) (ver : Ver) (e : Endian) (p : Prim) (hp : p = .byte ∨ p = .u8) (vs : List Val)
    (hwf : ∀ v ∈ vs, wfVal cfg ver (.prim p) v = true) (pos : Nat) :
    wList (ser cfg ver e (.prim p)) vs pos = (vs.map byteOf, pos + vs.length) ∧
    (vs.map byteOf).map (fun b => Val.num b.toNat) = vs := by
  induction vs generalizing pos with
  | nil => simp [wList]
  | cons v vs ih =>
    have hv := hwf v (by simp)
    have ih' := ih (fun w hw => hwf w (by simp [hw]))
    cases v with
    | num n =>
      simp only [wfVal, primOk, Bool.and_eq_true, decide_eq_true_eq] at hv
      have hn : n < 256 := by
        rcases hp with rfl | rfl <;> simpa [Prim.size] using hv.1.1
      have hw : ser cfg ver e (.prim p) (.num n) pos = ([UInt8.ofNat n], pos + 1) := by
        rcases hp with rfl | rfl <;>
          cases e <;> simp [ser, wPrim, primBytes, Prim.size, wPad1, encNat, leBytes, zeros, Nat.mod_eq_of_lt hn]
      have h2 := ih' (pos + 1)
      simp only [wList, hw, h2.1, List.map_cons, byteOf, List.singleton_append, List.length_cons]
      refine ⟨by simp; omega, ?_⟩
      simp [h2.2, Nat.mod_eq_of_lt hn]
    | str _ => simp [wfVal] at hv
    | list _ => simp [wfVal] at hv
    | struct _ => simp [wfVal] at hv
    | absent => simp [wfVal] at hv

theorem dVec_wList (cfg : Cfg) (ver : Ver) (e : Endian) (el : Ty) (sz : Nat) (hszle : sz ≤ 48) (vs : List Val)
    (hsp : sizePos ver el = true)
    (hwf : ∀ v ∈ vs, wfVal cfg ver el v = true)
    (hrt : ∀ v ∈ vs, RT cfg ver e el v)
    (hlim : vs.length * 48 ≤ ALLOC_LIMIT) (pos : Nat) (rest : Bytes) :
    dVec cfg sz (de cfg ver e el) vs.length ⟨(wList (ser cfg ver e el) vs pos).1 ++ rest, pos⟩
      = .ok (.list vs) ⟨rest, (wList (ser cfg ver e el) vs pos).2⟩ := by
  have hge := wList_length_ge (ser cfg ver e el) vs
    (fun v hv q => (serFacts cfg ver e el v (hwf v hv) q).2.1 hsp) pos
  have hcap : initCap cfg vs.length ⟨(wList (ser cfg ver e el) vs pos).1 ++ rest, pos⟩ = vs.length := by
    simp only [initCap, List.length_append]
    split
    · apply Nat.min_eq_left; omega
    · rfl
  have hmul : vs.length * sz ≤ ALLOC_LIMIT := Nat.le_trans (Nat.mul_le_mul_left _ hszle) hlim
  simp only [dVec, hcap, hmul, if_true]
  rw [dList_wList sz (ser cfg ver e el) (de cfg ver e el) vs (fun v hv => hrt v hv) 0 vs.length (by omega) hmul]
  simp [Res.map]

theorem Prim.memSize_le (p : Prim) : p.memSize ≤ 48 := by cases p <;> simp [Prim.memSize, Prim.size]

theorem dElems_wList (cfg : Cfg) (ver : Ver) (e : Endian) (el : Ty) (vs : List Val)
    (hel : el.elemOk = true) (hsp : sizePos ver el = true)
    (hwf : ∀ v ∈ vs, wfVal cfg ver el v = true)
    (hrt : ∀ v ∈ vs, RT cfg ver e el v)
    (hlim : vs.length * 48 ≤ ALLOC_LIMIT) (pos : Nat) (rest : Bytes) :
    dElems cfg ver e el (de cfg ver e el) vs.length ⟨(wList (ser cfg ver e el) vs pos).1 ++ rest, pos⟩
      = .ok (.list vs) ⟨rest, (wList (ser cfg ver e el) vs pos).2⟩ := by
  have hbytes : ∀ p, (p = Prim.byte ∨ p = Prim.u8) → el = .prim p →
      (rBytes vs.length ⟨(wList (ser cfg ver e el) vs pos).1 ++ rest, pos⟩).map
        (fun bs => Val.list (bs.map fun b => Val.num b.toNat))
      = .ok (.list vs) ⟨rest, (wList (ser cfg ver e el) vs pos).2⟩ := by
    intro p hp hel'
    subst hel'
    have hb := wList_bytes cfg ver e p hp vs hwf pos
    rw [hb.1]
    have hl : vs.length = (vs.map byteOf).length := by simp
    conv => lhs; rw [hl]
    rw [rBytes_app]
    simp [Res.map, hb.2]
  cases el with
  | prim p =>
    cases p
    case byte => simpa [dElems] using hbytes .byte (Or.inl rfl) rfl
    case u8 => simpa [dElems] using hbytes .u8 (Or.inr rfl) rfl
    all_goals
      simp only [dElems]
      exact dVec_wList cfg ver e _ _ (Prim.memSize_le _) vs hsp hwf hrt hlim pos rest
  | str =>
    simp only [dElems]
    exact dVec_wList cfg ver e _ _ (by omega) vs hsp hwf hrt hlim pos rest
  | enum h ls x =>
    simp only [dElems]
    exact dVec_wList cfg ver e _ _ (by omega) vs hsp hwf hrt hlim pos rest
  | wstr =>
    simp only [dElems]
    exact dVec_wList cfg ver e _ _ (by omega) vs hsp hwf hrt hlim pos rest
  | struct x ms =>
    simp only [dElems]
    exact dVec_wList cfg ver e _ _ (by omega) vs hsp hwf hrt hlim pos rest
  | union a d bs =>
    simp only [dElems]
    exact dVec_wList cfg ver e _ _ (by omega) vs hsp hwf hrt hlim pos rest
  | seq _ => simp [Ty.elemOk] at hel
  | arr _ _ => simp [Ty.elemOk] at hel

end DustVerif.Xcdr
