import DustVerif.Proofs.XcdrChunks2
/-! The round-trip theorem of the sequential subset (primitives, strings, enums, sequences, arrays, final and
    appendable structures, optional members), for every configuration, version and byte order. -/
namespace DustVerif.Xcdr

theorem maxSize_le_sum (el : Ty) (vs : List Val) (v : Val) (hv : v ∈ vs) :
    maxSize el v ≤ sumNat (vs.map (maxSize el)) :=
  le_sumNat_of_mem (List.mem_map_of_mem hv)

theorem dDelimited_wDh {α : Type} (ver : Ver) (e : Endian) (body : Nat → W) (g : St → Res α) (a : α)
    (pos : Nat) (rest : Bytes)
    (hlen : (body (wPrim ver e .u32 0 pos).2).1.length < 2 ^ 32)
    (hpos : (body (wPrim ver e .u32 0 pos).2).2 = (wPrim ver e .u32 0 pos).2 + (body (wPrim ver e .u32 0 pos).2).1.length)
    (hg : g ⟨(body (wPrim ver e .u32 0 pos).2).1 ++ rest, (wPrim ver e .u32 0 pos).2⟩
          = .ok a ⟨rest, (body (wPrim ver e .u32 0 pos).2).2⟩) :
    dDelimited ver e g ⟨(wDh ver e body pos).1 ++ rest, pos⟩ = .ok a ⟨rest, (wDh ver e body pos).2⟩ := by
  simp only [dDelimited]
  rw [dPrim_wDh ver e body pos rest hlen]
  simp only [Res.bind, List.length_append]
  have hle : (body (wPrim ver e .u32 0 pos).2).1.length ≤ (body (wPrim ver e .u32 0 pos).2).1.length + rest.length := by
    omega
  simp only [hle, if_true, hg, Res.restore, List.drop_left']
  rw [wDh_eq]
  simp only [hpos]

mutual
theorem rt (cfg : Cfg) (ver : Ver) (e : Endian) : (t : Ty) → (v : Val) → wfVal cfg ver t v = true →
    maxSize t v < 2 ^ 32 → RT cfg ver e t v
  | .prim p, .num n, h, _ => by
    intro pos rest
    simp only [wfVal] at h
    simp only [de, ser, dPrim_wPrim ver e p n pos rest h, Res.map]
  | .str, .str bs, h, hs => by
    intro pos rest
    simp only [wfVal] at h
    simp only [maxSize] at hs
    simp only [de, ser]
    exact dStr_wStr ver e bs pos rest h (by omega)
  | .wstr, .list us, h, hs => by
    intro pos rest
    simp only [wfVal, Bool.and_eq_true, List.all_eq_true] at h
    simp only [maxSize] at hs
    simp only [de, ser]
    exact dWStr_wWStr ver e us pos rest h.1 h.2 (by omega)
  | .enum hd ls _, .num n, h, _ => by
    intro pos rest
    simp only [wfVal, Bool.and_eq_true, decide_eq_true_eq] at h
    obtain ⟨⟨hh, hn⟩, hl⟩ := h
    have hp := enum_primOk hd n hh hn
    have hh' : (hd == Prim.i8 || hd == Prim.i16 || hd == Prim.i32) = true := hh
    simp only [de, ser, dEnum, hh', if_true, dPrim_wPrim ver e hd n pos rest hp, Res.bind, hl]
  | .seq el, .list vs, h, hs => by
    intro pos rest
    simp only [wfVal, Bool.and_eq_true, decide_eq_true_eq, List.all_eq_true] at h
    obtain ⟨⟨⟨hel, hsp⟩, hlim⟩, hall⟩ := h
    simp only [maxSize] at hs
    have hrt : ∀ v ∈ vs, RT cfg ver e el v := fun v hv =>
      rt cfg ver e el v (hall v hv) (by have := maxSize_le_sum el vs v hv; omega)
    have hbody := dSeqBody_wSeqBody cfg ver e el vs hel hsp hall hrt hlim
    simp only [de, ser]
    split
    · exact hbody pos rest
    · have hf := wSeqBody_facts cfg ver e el vs hall (wPrim ver e .u32 0 pos).2
      rw [dPrim_wDh ver e _ pos rest (by have := hf.1; omega)]
      simp only [Res.bind]
      rw [hbody]
      rw [wDh_eq]
  | .arr el n, .list vs, h, hs => by
    intro pos rest
    simp only [wfVal, Bool.and_eq_true, decide_eq_true_eq, List.all_eq_true, beq_iff_eq] at h
    obtain ⟨⟨⟨⟨hel, hsp⟩, hn⟩, hlim⟩, hall⟩ := h
    simp only [maxSize] at hs
    have hrt : ∀ v ∈ vs, RT cfg ver e el v := fun v hv =>
      rt cfg ver e el v (hall v hv) (by have := maxSize_le_sum el vs v hv; omega)
    have hbody := dElems_wList cfg ver e el vs hel hsp hall hrt (by omega)
    subst hn
    simp only [de, ser]
    split
    · exact hbody pos rest
    · have hf := wList_len_le (ser cfg ver e el) (maxSize el) vs
        (fun v hv q => (serFacts cfg ver e el v (hall v hv) q).1) (wPrim ver e .u32 0 pos).2
      rw [dPrim_wDh ver e _ pos rest (by omega)]
      simp only [Res.bind]
      rw [hbody]
      rw [wDh_eq]
  | .struct .final ms, .struct fs, h, hs => by
    intro pos rest
    simp only [wfVal] at h
    simp only [maxSize] at hs
    simp only [de, ser, rtF cfg ver e ms fs h (by omega) false pos rest, Res.map]
  | .struct .appendable ms, .struct fs, h, hs => by
    intro pos rest
    simp only [wfVal] at h
    simp only [maxSize] at hs
    have ih := rtF cfg ver e ms fs h (by omega) true
    cases ver with
    | v1 =>
      have hv : (Ver.v1 == Ver.v1) = true := by decide
      simp only [de, ser, hv, if_true, ih pos rest, Res.map]
    | v2 =>
      have hv : (Ver.v2 == Ver.v1) = false := by decide
      have hf := serFFacts cfg .v2 e ms fs h (wPrim .v2 e .u32 0 pos).2
      simp only [de, ser, hv, Bool.false_eq_true, if_false]
      split
      · rw [dDelimited_wDh .v2 e (serF cfg .v2 e ms fs) (deF cfg .v2 e true ms) fs pos rest
          (by have := hf.1; omega) hf.2.2 (ih _ rest)]
        simp [Res.map]
      · rw [dPrim_wDh .v2 e _ pos rest (by have := hf.1; omega)]
        simp only [ih _ rest, Res.map]
        rw [wDh_eq]
  | .struct .mutable ms, .struct fs, h, hs => by
    intro pos rest
    cases ver with
    | v2 =>
      simp only [wfVal, Bool.and_eq_true, decide_eq_true_eq] at h
      obtain ⟨⟨h47, hnd⟩, hm⟩ := h
      simp only [maxSize] at hs
      have hv : (Ver.v2 == Ver.v1) = false := by decide
      have hK0 := chunks_K2 cfg e ms fs hm (by omega)
      have hK : ∀ d ∈ sortChunks (chunks cfg .v2 e ms fs), K2 e d := fun d hd => hK0 d ((mem_sortChunks d _).mp hd)
      have hnd' := chunks_nodup cfg .v2 e ms fs hnd
      have hinj : ∀ a ∈ sortChunks (chunks cfg .v2 e ms fs), ∀ b ∈ sortChunks (chunks cfg .v2 e ms fs),
          a.id % 2 ^ 16 = b.id % 2 ^ 16 → a = b := fun a ha b hb hab =>
        inj_of_nodup_map (fun c : Chunk => c.id % 2 ^ 16) _ hnd' a ((mem_sortChunks a _).mp ha) b
          ((mem_sortChunks b _).mp hb) hab
      have hfacts := serFacts cfg .v2 e (.struct .mutable ms) (.struct fs)
        (by simp [wfVal, h47, hnd, hm]) pos
      have hef := emit2_facts e (sortChunks (chunks cfg .v2 e ms fs)) (fun d hd => (hK d hd).1) (wPrim .v2 e .u32 0 pos).2
      have hal : (wPrim .v2 e .u32 0 pos).2 % 4 = 0 := by
        have := padTo_dvd 4 pos (by omega)
        simp only [wPrim, primBytes, Prim.size, encNat_length, wPad_v2_4]
        omega
      have hM := rtM2 cfg e ms fs hm (by omega) (sortChunks (chunks cfg .v2 e ms fs)) (wPrim .v2 e .u32 0 pos).2 rest
        hal hK hinj (fun c hc => (mem_sortChunks c _).mpr hc)
      have hlen : (emit2 e (sortChunks (chunks cfg .v2 e ms fs)) (wPrim .v2 e .u32 0 pos).2).1.length < 2 ^ 32 := by
        have h1 := hef.2
        rw [sum_sortChunks] at h1
        have h2 := (chunksFacts cfg .v2 e ms fs hm).1
        omega
      simp only [de, ser, hv, Bool.false_eq_true, if_false, h47, if_true]
      -- D47: DHEADER, members (each one puts the reader back), continue at the DHEADER end
      simp only [dDelimited]
      rw [dPrim_wDh .v2 e _ pos rest hlen]
      simp only [Res.bind, List.length_append]
      have hle : (emit2 e (sortChunks (chunks cfg .v2 e ms fs)) (wPrim .v2 e .u32 0 pos).2).1.length ≤
          (emit2 e (sortChunks (chunks cfg .v2 e ms fs)) (wPrim .v2 e .u32 0 pos).2).1.length + rest.length := by omega
      simp only [hle, if_true, hM, Res.restore, Res.map, List.drop_left']
      rw [wDh_eq]
      simp only [hef.1]
    | v1 =>
      simp only [wfVal, Bool.and_eq_true, decide_eq_true_eq] at h
      obtain ⟨⟨⟨⟨h45, h61⟩, hne⟩, hnd⟩, hm⟩ := h
      simp only [maxSize] at hs
      have hv : (Ver.v1 == Ver.v1) = true := by decide
      -- the parameter list
      have hC0 := chunks_C1 cfg e ms fs hm
      have hC : ∀ d ∈ sortChunks (chunks cfg .v1 e ms fs), C1 d := fun d hd => hC0 d ((mem_sortChunks d _).mp hd)
      have hnd' := chunks_nodup cfg .v1 e ms fs hnd
      have hinj : ∀ a ∈ sortChunks (chunks cfg .v1 e ms fs), ∀ b ∈ sortChunks (chunks cfg .v1 e ms fs),
          a.id % 2 ^ 16 = b.id % 2 ^ 16 → a = b := fun a ha b hb hab =>
        inj_of_nodup_map (fun c : Chunk => c.id % 2 ^ 16) _ hnd' a ((mem_sortChunks a _).mp ha) b
          ((mem_sortChunks b _).mp hb) hab
      have habs := absOk_congr _ (sortChunks (chunks cfg .v1 e ms fs)) (fun c hc => (mem_sortChunks c _).mp hc) ms fs
        (absOk_chunks cfg .v1 e ms fs hnd)
      have hal : (pos + wPad .v1 4 pos) % 4 = 0 := by rw [wPad_v1_4]; exact padTo_dvd 4 pos (by omega)
      have hM := rtM1 cfg h45 h61 e ms fs hm (by omega) (sortChunks (chunks cfg .v1 e ms fs)) (pos + wPad .v1 4 pos) rest
        hal hC hinj (fun c hc => (mem_sortChunks c _).mpr hc) habs
      -- the first member aligns the reader; every member puts it back to the aligned start
      have hpre : deM cfg .v1 e ms ⟨(emit1 cfg e (sortChunks (chunks cfg .v1 e ms fs)) pos).1 ++ rest, pos⟩ =
          deM cfg .v1 e ms ⟨(emit1 cfg e (sortChunks (chunks cfg .v1 e ms fs)) (pos + wPad .v1 4 pos)).1 ++ rest,
            pos + wPad .v1 4 pos⟩ := by
        cases ms with
        | nil => simp [Ms.length] at hne
        | cons id opt mu t r =>
          simp only [deM]
          rw [dMem1_prealign cfg e _ id _ _ (rAlign_emit1 cfg h61 e _ pos rest) (rAlign_aligned _ hal _)]
      simp only [de, ser, hv, if_true, hpre, hM, Res.bind]
      rw [seek1_sentinel cfg h61 e _ hC _ hal rest]
      simp only [Res.bind]
      rw [emit1_align cfg h61 e _ pos]
  | .union app disc bs, .struct fs, h, hs => by
    intro pos rest
    have hwf0 : wfVal cfg ver (.union false disc bs) (.struct fs) = true := by simpa only [wfVal] using h
    have hsz0 : maxSize (.union false disc bs) (.struct fs) = maxSize (.union app disc bs) (.struct fs) := by
      simp only [maxSize]
    -- the final form
    have hU : ∀ p r, dUnion ver e disc bs (fun d i s1 => deAt cfg ver e d bs i s1)
        ⟨(wUnion ver e disc (serB cfg ver e bs) fs p).1 ++ r, p⟩ =
        .ok (.struct fs) ⟨r, (wUnion ver e disc (serB cfg ver e bs) fs p).2⟩ := by
      intro p r
      simp only [wfVal] at h
      split at h
      · rename_i d id v
        simp only [Bool.and_eq_true, beq_iff_eq] at h
        obtain ⟨⟨⟨⟨hp, hdk⟩, hsome⟩, hsel⟩, hb⟩ := h
        simp only [maxSize] at hs
        obtain ⟨i, hi⟩ := Option.isSome_iff_exists.mp hsome
        rw [hi] at hsel
        simp only [dUnion, wUnion, List.append_assoc]
        rw [dPrim_wPrim ver e disc d p _ hp]
        simp only [Res.bind, hdk, Bool.not_true, Bool.false_eq_true, if_false, hsel]
        exact rtB cfg ver e d bs id v hb (by omega) i hi _ r
      · rename_i d
        simp only [Bool.and_eq_true, Option.isNone_iff_eq_none] at h
        obtain ⟨⟨hp, hdk⟩, hsel⟩ := h
        simp only [dUnion, wUnion]
        rw [dPrim_wPrim ver e disc d p _ hp]
        simp only [Res.bind, hdk, Bool.not_true, Bool.false_eq_true, if_false, hsel]
      · simp at h
    have hfacts : ∀ p, Facts (wUnion ver e disc (serB cfg ver e bs) fs p) p (maxSize (.union app disc bs) (.struct fs)) true := by
      intro p
      have := serFacts cfg ver e (.union false disc bs) (.struct fs) hwf0 p
      simpa only [ser, Bool.false_and, Bool.false_eq_true, if_false, hsz0, sizePos] using this
    simp only [de, ser]
    split
    · have hf := hfacts (wPrim ver e .u32 0 pos).2
      exact dDelimited_wDh ver e _ _ (Val.struct fs) pos rest (by have := hf.1; omega) hf.2.2 (hU _ rest)
    · exact hU pos rest
  | .union _ _ _, .num _, h, _ | .union _ _ _, .str _, h, _ | .union _ _ _, .list _, h, _ | .union _ _ _, .absent, h, _ => by simp [wfVal] at h
  | .prim _, .str _, h, _ | .prim _, .list _, h, _ | .prim _, .struct _, h, _ | .prim _, .absent, h, _ => by simp [wfVal] at h
  | .str, .num _, h, _ | .str, .list _, h, _ | .str, .struct _, h, _ | .str, .absent, h, _ => by simp [wfVal] at h
  | .enum _ _ _, .str _, h, _ | .enum _ _ _, .list _, h, _ | .enum _ _ _, .struct _, h, _ | .enum _ _ _, .absent, h, _ => by simp [wfVal] at h
  | .wstr, .num _, h, _ | .wstr, .str _, h, _ | .wstr, .struct _, h, _ | .wstr, .absent, h, _ => by simp [wfVal] at h
  | .seq _, .num _, h, _ | .seq _, .str _, h, _ | .seq _, .struct _, h, _ | .seq _, .absent, h, _ => by simp [wfVal] at h
  | .arr _ _, .num _, h, _ | .arr _ _, .str _, h, _ | .arr _ _, .struct _, h, _ | .arr _ _, .absent, h, _ => by simp [wfVal] at h
  | .struct _ _, .num _, h, _ | .struct _ _, .str _, h, _ | .struct _ _, .list _, h, _ | .struct _ _, .absent, h, _ => by simp [wfVal] at h
/-- the selected branch of a union: decoded with the type of the branch the discriminator selects, which is the branch
    the writer set -/
theorem rtB (cfg : Cfg) (ver : Ver) (e : Endian) (d : Nat) : (bs : Bs) → (id : Nat) → (v : Val) →
    wfB cfg ver bs id v = true → maxSizeB bs id v < 2 ^ 32 → ∀ i, bs.firstIdx id = some i → ∀ (pos : Nat) (rest : Bytes),
    deAt cfg ver e d bs i ⟨(serB cfg ver e bs id v pos).1 ++ rest, pos⟩ =
      .ok (.struct [.num d, .num id, v]) ⟨rest, (serB cfg ver e bs id v pos).2⟩
  | .nil, _, _, h, _, _, _, _, _ => by simp [wfB] at h
  | .cons id' ls df t r, id, v, h, hs, i, hi, pos, rest => by
    simp only [wfB] at h
    simp only [Bs.firstIdx] at hi
    simp only [maxSizeB] at hs
    by_cases hid : (id' == id) = true
    · simp only [hid, if_true] at h hi hs
      injection hi with hi
      subst hi
      have hrt := rt cfg ver e t v h hs pos rest
      have hid' : id' = id := beq_iff_eq.mp hid
      subst hid'
      simp only [serB, beq_self_eq_true, if_true, deAt, hrt, Res.map]
    · have hf : (id' == id) = false := by simpa using hid
      simp only [hf, Bool.false_eq_true, if_false] at h hi hs
      cases hj : Bs.firstIdx id r with
      | none => simp [hj] at hi
      | some j =>
        simp only [hj, Option.map_some, Option.some.injEq] at hi
        subst hi
        simp only [serB, hf, Bool.false_eq_true, if_false, deAt]
        exact rtB cfg ver e d r id v h hs j hj pos rest
theorem rtF (cfg : Cfg) (ver : Ver) (e : Endian) : (ms : Ms) → (fs : List Val) → wfFs cfg ver ms fs = true →
    maxSizeMs ms fs < 2 ^ 32 → ∀ (app : Bool) (pos : Nat) (rest : Bytes),
    deF cfg ver e app ms ⟨(serF cfg ver e ms fs pos).1 ++ rest, pos⟩ = .ok fs ⟨rest, (serF cfg ver e ms fs pos).2⟩
  | .nil, [], _, _ => by
    intro app pos rest
    simp [deF, serF]
  | .cons id opt mu t r, f :: fs, h, hs => by
    intro app pos rest
    simp only [wfFs, Bool.and_eq_true] at h
    obtain ⟨hm, hr⟩ := h
    simp only [maxSizeMs] at hs
    have hrt : f ≠ .absent → RT cfg ver e t f := by
      intro hf
      have hw : wfVal cfg ver t f = true := by cases f <;> simp_all
      exact rt cfg ver e t f hw (by omega)
    have hmem := dFMember_wFMember cfg ver e id opt mu t f hm hrt pos
    have ih := rtF cfg ver e r fs hr (by omega) app
    simp only [deF, serF, List.append_assoc, hmem, ih, Res.bind]
  | .nil, _ :: _, h, _ => by simp [wfFs] at h
  | .cons _ _ _ _ _, [], h, _ => by simp [wfFs] at h
/-- XCDR1 `deserialize_members` over a parameter list `cs` that contains the present members of `ms`: every member is
    looked up from the (aligned) start of the list, which is also where the reader is put back to -/
theorem rtM1 (cfg : Cfg) (h45 : cfg.d45 = true) (h61 : cfg.d61 = true) (e : Endian) : (ms : Ms) → (fs : List Val) →
    wfM cfg .v1 ms fs = true → maxSizeMs ms fs < 2 ^ 32 →
    ∀ (cs : List Chunk) (p : Nat) (rest : Bytes), p % 4 = 0 → (∀ d ∈ cs, C1 d) →
      (∀ a ∈ cs, ∀ b ∈ cs, a.id % 2 ^ 16 = b.id % 2 ^ 16 → a = b) →
      (∀ c ∈ chunks cfg .v1 e ms fs, c ∈ cs) → absOk cs ms fs →
      deM cfg .v1 e ms ⟨(emit1 cfg e cs p).1 ++ rest, p⟩ = .ok fs ⟨(emit1 cfg e cs p).1 ++ rest, p⟩
  | .nil, [], _, _ => by
    intro cs p rest _ _ _ _ _
    simp [deM]
  | .cons id opt mu t r, f :: fs, h, hs => by
    intro cs p rest hp hC hinj hsub habs
    simp only [wfM, Bool.and_eq_true] at h
    obtain ⟨hm, hr⟩ := h
    simp only [maxSizeMs] at hs
    simp only [absOk] at habs
    have hsub' : ∀ c ∈ chunks cfg .v1 e r fs, c ∈ cs := by
      intro c hc
      apply hsub
      cases f <;> simp [chunks, hc]
    have ih := rtM1 cfg h45 h61 e r fs hr (by omega) cs p rest hp hC hinj hsub' habs.2
    by_cases hf : f = .absent
    · subst hf
      have hm1 := dMem1_absent cfg h61 e cs id (fun d hd => ⟨hC d hd, habs.1 rfl d hd⟩) (de cfg .v1 e t) p hp rest
      simp only [deM, hm1, Res.bind, ih]
    · have hw : wfVal cfg .v1 t f = true := by cases f <;> simp_all
      have hrt := rt cfg .v1 e t f hw (by omega) 0 []
      simp only [List.append_nil] at hrt
      have hcmem : (⟨id, mu, t.lc5, ser cfg .v1 e t f⟩ : Chunk) ∈ cs := by
        apply hsub
        cases f <;> simp_all [chunks]
      have hm1 := dMem1_present cfg h45 h61 e cs hC hinj ⟨id, mu, t.lc5, ser cfg .v1 e t f⟩ hcmem (de cfg .v1 e t) f
        ⟨_, hrt⟩ p hp rest
      simp only [deM, hm1, Res.bind, ih]
  | .nil, _ :: _, h, _ => by simp [wfM] at h
  | .cons _ _ _ _ _, [], h, _ => by simp [wfM] at h
/-- XCDR2 `deserialize_members` over a member list `cs` that contains the (all present) members of `ms` -/
theorem rtM2 (cfg : Cfg) (e : Endian) : (ms : Ms) → (fs : List Val) →
    wfM cfg .v2 ms fs = true → maxSizeMs ms fs < 2 ^ 32 →
    ∀ (cs : List Chunk) (p : Nat) (rest : Bytes), p % 4 = 0 → (∀ d ∈ cs, K2 e d) →
      (∀ a ∈ cs, ∀ b ∈ cs, a.id % 2 ^ 16 = b.id % 2 ^ 16 → a = b) →
      (∀ c ∈ chunks cfg .v2 e ms fs, c ∈ cs) →
      deM cfg .v2 e ms ⟨(emit2 e cs p).1 ++ rest, p⟩ = .ok fs ⟨(emit2 e cs p).1 ++ rest, p⟩
  | .nil, [], _, _ => by
    intro cs p rest _ _ _ _
    simp [deM]
  | .cons id opt mu t r, f :: fs, h, hs => by
    intro cs p rest hp hK hinj hsub
    simp only [wfM, Bool.and_eq_true] at h
    obtain ⟨hm, hr⟩ := h
    simp only [maxSizeMs] at hs
    have hf : f ≠ .absent := by intro hf; subst hf; simp at hm
    have hsub' : ∀ c ∈ chunks cfg .v2 e r fs, c ∈ cs := by
      intro c hc
      apply hsub
      cases f <;> simp only [chunks, List.mem_cons, hc, or_true]
    have ih := rtM2 cfg e r fs hr (by omega) cs p rest hp hK hinj hsub'
    have hw : wfVal cfg .v2 t f = true := by
      cases f <;> first | exact absurd rfl hf | (simp only [Bool.and_eq_true] at hm; exact hm.1)
    have hrt := rt cfg .v2 e t f hw (by omega)
    have hcmem : (⟨id, mu, t.lc5, ser cfg .v2 e t f⟩ : Chunk) ∈ cs := by
      apply hsub
      cases f <;> first | exact absurd rfl hf | (simp only [chunks]; exact List.mem_cons.mpr (Or.inl rfl))
    have hg : ∀ q tail, q % 4 = 0 → ∃ s', de cfg .v2 e t ⟨(ser cfg .v2 e t f 0).1 ++ tail, q⟩ = .ok f s' := by
      intro q tail hq
      have hsh := shift_of_mod _ (ser_shift cfg e t f) q hq
      have := hrt q tail
      rw [hsh] at this
      exact ⟨_, this⟩
    have hm1 := dMem2_present cfg e cs hK hinj ⟨id, mu, t.lc5, ser cfg .v2 e t f⟩ hcmem (de cfg .v2 e t) f hg p hp rest
    simp only [deM, hm1, Res.bind, ih]
  | .nil, _ :: _, h, _ => by simp [wfM] at h
  | .cons _ _ _ _ _, [], h, _ => by simp [wfM] at h
end

end DustVerif.Xcdr
