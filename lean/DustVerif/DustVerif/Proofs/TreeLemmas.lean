import DustVerif.Model.Tree
/-! Helper lemmas for the entity-tree properties (C35, C36): list facts, the key-uniqueness invariant `Inv`
    and its preservation by every operation of `Model/Tree.lean`. -/
namespace DustVerif.Tree

/-! ### generic list facts -/

theorem map_updFirst_key {α β : Type} (key : α → β) (p : α → Bool) (f : α → α)
    (hf : ∀ x, key (f x) = key x) (l : List α) : (updFirst p f l).map key = l.map key := by
  induction l with
  | nil => rfl
  | cons x xs ih =>
    unfold updFirst
    split
    · simp [hf]
    · simp [ih]

/-- a function that is injective on the elements of `l` *relative to a key* keeps `Nodup` -/
theorem nodup_map_of_key {α β γ : Type} (f : α → β) (g : α → γ) (l : List α)
    (hinj : ∀ x ∈ l, ∀ y ∈ l, f x = f y → g x = g y) (hn : (l.map g).Nodup) : (l.map f).Nodup := by
  induction l with
  | nil => simp
  | cons a l ih =>
    simp only [List.map_cons, List.nodup_cons] at hn ⊢
    refine ⟨?_, ih (fun x hx y hy => hinj x (List.mem_cons_of_mem _ hx) y (List.mem_cons_of_mem _ hy)) hn.2⟩
    intro hmem
    obtain ⟨y, hy, hfy⟩ := List.mem_map.mp hmem
    have := hinj a (List.mem_cons_self) y (List.mem_cons_of_mem _ hy) hfy.symm
    exact hn.1 (List.mem_map.mpr ⟨y, hy, this.symm⟩)

/-- after removing the first element satisfying `p`, no element satisfies `p` any more, provided all
    elements satisfying `p` share one key and keys are unique -/
theorem eraseP_no_match {α β : Type} (key : α → β) (p : α → Bool) (l : List α)
    (hn : (l.map key).Nodup) (hk : ∀ x ∈ l, ∀ y ∈ l, p x = true → p y = true → key x = key y) :
    ∀ z ∈ l.eraseP p, p z = false := by
  induction l with
  | nil => simp
  | cons a l ih =>
    simp only [List.map_cons, List.nodup_cons] at hn
    intro z hz
    by_cases hpa : p a = true
    · rw [List.eraseP_cons_of_pos hpa] at hz
      cases hpz : p z with
      | false => rfl
      | true =>
        have := hk a List.mem_cons_self z (List.mem_cons_of_mem _ hz) hpa hpz
        exact absurd (List.mem_map.mpr ⟨z, hz, this.symm⟩) hn.1
    · rw [List.eraseP_cons_of_neg hpa] at hz
      rcases List.mem_cons.mp hz with h | h
      · subst h; simpa using hpa
      · exact ih hn.2 (fun x hx y hy => hk x (List.mem_cons_of_mem _ hx) y (List.mem_cons_of_mem _ hy)) z h

theorem find?_eraseP_none {α β : Type} (key : α → β) (p : α → Bool) (l : List α)
    (hn : (l.map key).Nodup) (hk : ∀ x ∈ l, ∀ y ∈ l, p x = true → p y = true → key x = key y) :
    (l.eraseP p).find? p = none := by
  rw [List.find?_eq_none]
  intro x hx
  have := eraseP_no_match key p l hn hk x hx
  simp [this]

theorem any_filter_not {α : Type} (p q : α → Bool) (l : List α) (h : ∀ x, q x = true → p x = false) :
    (l.filter p).any q = false := by
  rw [List.any_eq_false]
  intro x hx
  have hx' := (List.mem_filter.mp hx).2
  intro hq
  rw [h x hq] at hx'
  exact Bool.false_ne_true hx'

/-! ### keys -/

def pubKey (x : Pub) : Nat × Nat := (x.part, x.uid)
def subKey (x : Sub) : Nat × Nat := (x.part, x.uid)
def topicKey (x : Topic) : Nat × Nat := (x.part, x.uid)
def writerKey (x : Writer) : Nat × Nat := (x.part, x.uid)
def readerKey (x : Reader) : Nat × Nat := (x.part, x.uid)
def partKey (p : Part) : Nat := p.uid

/-- every key (owner serial, own serial) is below the owner's counter, the owner's serial below the factory
    counter, and no key occurs twice -/
def KInv (keys : List (Nat × Nat)) (ever : Nat → Nat) (np : Nat) : Prop :=
  (∀ k ∈ keys, k.1 < np ∧ k.2 < ever k.1) ∧ keys.Nodup

theorem KInv.push {keys : List (Nat × Nat)} {ever : Nat → Nat} {np : Nat} (h : KInv keys ever np) (u : Nat)
    (hu : u < np) : KInv (keys ++ [(u, ever u)]) (bump ever u) np := by
  refine ⟨?_, ?_⟩
  · intro k hk
    rcases List.mem_append.mp hk with hk | hk
    · have := h.1 k hk
      refine ⟨this.1, ?_⟩
      unfold bump setTo
      split
      · rename_i he; rw [he] at this; omega
      · exact this.2
    · simp only [List.mem_singleton] at hk
      subst hk
      exact ⟨hu, by simp [bump, setTo]⟩
  · rw [List.nodup_append]
    refine ⟨h.2, by simp, ?_⟩
    intro a ha b hb
    simp only [List.mem_singleton] at hb
    subst hb
    intro heq
    have := (h.1 a ha).2
    rw [heq] at this
    simp at this

theorem KInv.mono {keys keys' : List (Nat × Nat)} {ever ever' : Nat → Nat} {np np' : Nat}
    (h : KInv keys ever np) (hs : keys'.Sublist keys) (he : ∀ u, ever u ≤ ever' u) (hp : np ≤ np') :
    KInv keys' ever' np' := by
  refine ⟨?_, hs.nodup h.2⟩
  intro k hk
  have := h.1 k (hs.subset hk)
  have := he k.1
  omega

theorem bump_ge (m : Nat → Nat) (u v : Nat) : m v ≤ bump m u v := by
  unfold bump setTo; split
  · rename_i h; rw [h]; omega
  · omega

/-- the invariant: ghost serials are unique and below their counters (true in EVERY reachable state, both
    profiles; it is the bridge from "counters only grow" to "handles are distinct") -/
structure Inv (s : St) : Prop where
  partsLt : ∀ p ∈ s.parts, p.uid < s.nextPart
  partsNd : (s.parts.map partKey).Nodup
  pubs : KInv (s.pubs.map pubKey) s.pubEver s.nextPart
  subs : KInv (s.subs.map subKey) s.subEver s.nextPart
  topics : KInv (s.topics.map topicKey) s.topicEver s.nextPart
  writers : KInv (s.writers.map writerKey) s.wEver s.nextPart
  readers : KInv (s.readers.map readerKey) s.rEver s.nextPart

/-- `s'` has (key-wise) sub-lists of `s` and counters that did not go down -/
structure Frame (s s' : St) : Prop where
  np : s.nextPart ≤ s'.nextPart
  parts : (s'.parts.map partKey).Sublist (s.parts.map partKey)
  pubs : (s'.pubs.map pubKey).Sublist (s.pubs.map pubKey)
  subs : (s'.subs.map subKey).Sublist (s.subs.map subKey)
  topics : (s'.topics.map topicKey).Sublist (s.topics.map topicKey)
  writers : (s'.writers.map writerKey).Sublist (s.writers.map writerKey)
  readers : (s'.readers.map readerKey).Sublist (s.readers.map readerKey)
  pubEver : ∀ u, s.pubEver u ≤ s'.pubEver u
  subEver : ∀ u, s.subEver u ≤ s'.subEver u
  topicEver : ∀ u, s.topicEver u ≤ s'.topicEver u
  wEver : ∀ u, s.wEver u ≤ s'.wEver u
  rEver : ∀ u, s.rEver u ≤ s'.rEver u

theorem Inv.frame {s s' : St} (h : Inv s) (f : Frame s s') : Inv s' := by
  refine ⟨?_, f.parts.nodup h.partsNd, h.pubs.mono f.pubs f.pubEver f.np, h.subs.mono f.subs f.subEver f.np,
    h.topics.mono f.topics f.topicEver f.np, h.writers.mono f.writers f.wEver f.np,
    h.readers.mono f.readers f.rEver f.np⟩
  intro p hp
  have hm : partKey p ∈ s'.parts.map partKey := List.mem_map.mpr ⟨p, hp, rfl⟩
  obtain ⟨q, hq, hqk⟩ := List.mem_map.mp (f.parts.subset hm)
  have := h.partsLt q hq
  have := f.np
  unfold partKey at hqk
  omega

theorem Frame.refl (s : St) : Frame s s :=
  ⟨Nat.le_refl _, List.Sublist.refl _, List.Sublist.refl _, List.Sublist.refl _, List.Sublist.refl _,
   List.Sublist.refl _, List.Sublist.refl _, fun _ => Nat.le_refl _, fun _ => Nat.le_refl _,
   fun _ => Nat.le_refl _, fun _ => Nat.le_refl _, fun _ => Nat.le_refl _⟩

theorem inv_init (pr : Profile) : Inv (St.init pr) := by
  refine ⟨by simp [St.init], by simp [St.init], ?_, ?_, ?_, ?_, ?_⟩ <;> simp [St.init, KInv]


theorem map_map_key {α β : Type} (key : α → β) (g : α → α) (hg : ∀ x, key (g x) = key x) (l : List α) :
    (l.map g).map key = l.map key := by
  rw [List.map_map]; congr 1; funext x; exact hg x

theorem enableTopicsOf_key (u : Nat) (t : Topic) : topicKey (enableTopicsOf u t) = topicKey t := by
  unfold enableTopicsOf; split <;> rfl

/-- discharge a `Frame s s'` obligation field by field -/
macro "frame_fields" : tactic => `(tactic|
  first
  | exact Nat.le_refl _
  | exact List.Sublist.refl _
  | exact fun _ => Nat.le_refl _
  | exact (List.eraseP_sublist).map _
  | exact (List.filter_sublist).map _
  | (rw [map_updFirst_key _ _ _ (by intro x; rfl)]; exact List.Sublist.refl _)
  | (rw [map_map_key _ _ (enableTopicsOf_key _)]; exact List.Sublist.refl _)
  | (intro u; exact bump_ge _ _ _))

macro "frame_auto" h:ident : tactic => `(tactic|
  (refine Inv.frame $h ⟨?_, ?_, ?_, ?_, ?_, ?_, ?_, ?_, ?_, ?_, ?_, ?_⟩ <;> frame_fields))

theorem inv_die {s : St} (h : Inv s) : Inv (die s).1 := by
  unfold die; frame_auto h

theorem inv_createPart {s : St} (h : Inv s) (a : Bool) : Inv (createPart s a).1 := by
  unfold createPart
  simp only
  split
  · exact h
  refine ⟨?_, ?_, h.pubs.mono (List.Sublist.refl _) (fun _ => Nat.le_refl _) (Nat.le_succ _),
    h.subs.mono (List.Sublist.refl _) (fun _ => Nat.le_refl _) (Nat.le_succ _),
    h.topics.mono (List.Sublist.refl _) (fun _ => Nat.le_refl _) (Nat.le_succ _),
    h.writers.mono (List.Sublist.refl _) (fun _ => Nat.le_refl _) (Nat.le_succ _),
    h.readers.mono (List.Sublist.refl _) (fun _ => Nat.le_refl _) (Nat.le_succ _)⟩
  · intro p hp
    simp only [List.mem_append, List.mem_singleton] at hp
    rcases hp with hp | hp
    · have := h.partsLt p hp; simp only; omega
    · subst hp; simp
  · simp only [List.map_append, List.map_cons, List.map_nil]
    rw [List.nodup_append]
    refine ⟨h.partsNd, by simp, ?_⟩
    intro a ha b hb
    simp only [List.mem_singleton] at hb
    subst hb
    obtain ⟨q, hq, hqk⟩ := List.mem_map.mp ha
    have := h.partsLt q hq
    unfold partKey at hqk ⊢
    simp only
    omega

theorem findPart_lt {s : St} (h : Inv s) {ph : Nat} {p : Part} (hf : findPart s ph = some p) :
    p.uid < s.nextPart := h.partsLt p (List.mem_of_find?_eq_some hf)

theorem inv_deletePart {s : St} (h : Inv s) (ph : Nat) : Inv (deletePart s ph).1 := by
  unfold deletePart
  split
  · exact h
  · split
    · exact h
    · frame_auto h

theorem inv_createPub {s : St} (h : Inv s) (ph : Nat) (a : Bool) : Inv (createPub s ph a).1 := by
  unfold createPub
  split
  · exact h
  · rename_i p hp
    simp only
    split
    · exact h
    · refine ⟨h.partsLt, h.partsNd, ?_, h.subs, h.topics, h.writers, h.readers⟩
      have := h.pubs.push p.uid (findPart_lt h hp)
      simpa [pubKey] using this

theorem inv_createSub {s : St} (h : Inv s) (ph : Nat) (a : Bool) : Inv (createSub s ph a).1 := by
  unfold createSub
  split
  · exact h
  · rename_i p hp
    simp only
    split
    · exact h
    · refine ⟨h.partsLt, h.partsNd, h.pubs, ?_, h.topics, h.writers, h.readers⟩
      have := h.subs.push p.uid (findPart_lt h hp)
      simpa [subKey] using this

theorem inv_deletePub {s : St} (h : Inv s) (via : Nat) (r : GroupRef) : Inv (deletePub s via r).1 := by
  unfold deletePub
  split
  · exact h
  · split
    · exact h
    · split
      · exact h
      · split
        · exact h
        · frame_auto h

theorem inv_deleteSub {s : St} (h : Inv s) (via : Nat) (r : GroupRef) : Inv (deleteSub s via r).1 := by
  unfold deleteSub
  split
  · exact h
  · split
    · exact h
    · split
      · exact h
      · split
        · exact h
        · frame_auto h

theorem inv_createTopic {s : St} (h : Inv s) (ph : Nat) (n : String) (k : Bool) : Inv (createTopic s ph n k).1 := by
  unfold createTopic
  split
  · exact h
  · rename_i p hp
    split
    · exact h
    · split
      · exact h
      · simp only
        split
        · exact h
        · refine ⟨h.partsLt, h.partsNd, h.pubs, h.subs, ?_, h.writers, h.readers⟩
          have := h.topics.push p.uid (findPart_lt h hp)
          simpa [topicKey] using this

theorem inv_findTopicOp {s : St} (h : Inv s) (ph : Nat) (n : String) (k d : Bool) : Inv (findTopicOp s ph n k d).1 := by
  unfold findTopicOp
  split
  · exact h
  · rename_i p hp
    split
    · exact h
    · split
      · exact h
      · simp only
        split
        · exact h
        · refine ⟨h.partsLt, h.partsNd, h.pubs, h.subs, ?_, h.writers, h.readers⟩
          have := h.topics.push p.uid (findPart_lt h hp)
          simpa [topicKey] using this

theorem inv_deleteTopic {s : St} (h : Inv s) (via : Nat) (r : TopicRef) : Inv (deleteTopic s via r).1 := by
  unfold deleteTopic
  split
  · exact h
  · split
    · exact h
    · split
      · exact h
      · split
        · exact h
        · split
          · exact h
          · split
            · exact h
            · split
              · exact h
              · frame_auto h

theorem inv_createCft {s : St} (h : Inv s) (r : TopicRef) (n : String) (v : Bool) : Inv (createCft s r n v).1 := by
  unfold createCft
  split
  · exact h
  · split
    · exact h
    · split
      · exact h
      · simp only
        split
        · exact h
        · frame_auto h

theorem inv_deleteCft {s : St} (h : Inv s) (ph : Nat) (n : String) : Inv (deleteCft s ph n).1 := by
  unfold deleteCft
  split
  · exact h
  · split
    · exact h
    · split
      · exact h
      · frame_auto h

theorem inv_createWriter {s : St} (h : Inv s) (r : GroupRef) (t : String) (m : Option Nat) (c : Bool) :
    Inv (createWriter s r t m c).1 := by
  unfold createWriter
  split
  · exact h
  · rename_i p hp
    split
    · exact h
    · split
      · exact h
      · simp only
        split
        · exact h
        · split
          · frame_auto h
          · refine ⟨h.partsLt, h.partsNd, h.pubs, h.subs, h.topics, ?_, h.readers⟩
            have := h.writers.push p.uid (findPart_lt h hp)
            simpa [writerKey] using this

theorem inv_deleteWriter {s : St} (h : Inv s) (via : GroupRef) (w : EndRef) : Inv (deleteWriter s via w).1 := by
  unfold deleteWriter
  split
  · exact h
  · split
    · exact h
    · split
      · exact h
      · frame_auto h

theorem inv_createReader {s : St} (h : Inv s) (r : GroupRef) (t : String) (c : Bool) :
    Inv (createReader s r t c).1 := by
  unfold createReader
  split
  · exact h
  · rename_i p hp
    simp only
    split
    · exact h
    · split
      · exact h
      · split
        · exact h
        · split
          · exact h
          · refine ⟨h.partsLt, h.partsNd, h.pubs, h.subs, h.topics, h.writers, ?_⟩
            have := h.readers.push p.uid (findPart_lt h hp)
            simpa [readerKey] using this

theorem inv_deleteReader {s : St} (h : Inv s) (via : GroupRef) (w : EndRef) : Inv (deleteReader s via w).1 := by
  unfold deleteReader
  split
  · exact h
  · split
    · exact h
    · split
      · exact h
      · frame_auto h

theorem inv_deleteContained {s : St} (h : Inv s) (ph : Nat) : Inv (deleteContained s ph).1 := by
  unfold deleteContained
  split
  · exact h
  · frame_auto h

theorem inv_enablePart {s : St} (h : Inv s) (ph : Nat) : Inv (enablePart s ph).1 := by
  unfold enablePart
  split
  · exact h
  · frame_auto h

theorem inv_enableTopic {s : St} (h : Inv s) (r : TopicRef) : Inv (enableTopic s r).1 := by
  unfold enableTopic
  split
  · exact h
  · split
    · exact h
    · frame_auto h

theorem inv_enableWriter {s : St} (h : Inv s) (w : EndRef) : Inv (enableWriter s w).1 := by
  unfold enableWriter
  split
  · exact h
  · frame_auto h

theorem inv_enableReader {s : St} (h : Inv s) (w : EndRef) : Inv (enableReader s w).1 := by
  unfold enableReader
  split
  · exact h
  · frame_auto h

theorem wop_key (w : Writer) (o : WOp) : writerKey (wop w o).1 = writerKey w := by
  unfold wop
  cases o <;> simp only <;> (repeat' split) <;> rfl

theorem map_updFirst_found {α β : Type} (key : α → β) (p : α → Bool) (f : α → α) (l : List α) (a : α)
    (hfind : l.find? p = some a) (hf : key (f a) = key a) : (updFirst p f l).map key = l.map key := by
  induction l with
  | nil => simp at hfind
  | cons x xs ih =>
    unfold updFirst
    by_cases hp : p x = true
    · rw [List.find?_cons_of_pos hp] at hfind
      injection hfind with hx
      subst hx
      simp [hp, hf]
    · rw [List.find?_cons_of_neg hp] at hfind
      simp [hp, ih hfind]

theorem resolveWriter_find {s : St} {w : EndRef} {p : Part} {x : Pub} {wr : Writer}
    (h : resolveWriter s w = some (p, x, wr)) :
    findPart s w.ph = some p ∧ findPub s p.uid w.b = some x ∧ findWriter s p.uid x.uid w.ent = some wr := by
  unfold resolveWriter at h
  split at h
  · cases h
  · rename_i p' hp
    split at h
    · cases h
    · rename_i x' hx
      split at h
      · cases h
      · rename_i wr' hw
        injection h with h
        injection h with h1 h2
        injection h2 with h2 h3
        subst h1; subst h2; subst h3
        exact ⟨hp, hx, hw⟩

theorem resolveReader_find {s : St} {w : EndRef} {p : Part} {x : Sub} {rd : Reader}
    (h : resolveReader s w = some (p, x, rd)) :
    findPart s w.ph = some p ∧ findSub s p.uid w.b = some x ∧ findReader s p.uid x.uid w.ent = some rd := by
  unfold resolveReader at h
  split at h
  · cases h
  · rename_i p' hp
    split at h
    · cases h
    · rename_i x' hx
      split at h
      · cases h
      · rename_i rd' hw
        injection h with h
        injection h with h1 h2
        injection h2 with h2 h3
        subst h1; subst h2; subst h3
        exact ⟨hp, hx, hw⟩

theorem inv_instOp {s : St} (h : Inv s) (w : EndRef) (o : WOp) : Inv (instOp s w o).1 := by
  unfold instOp
  split
  · exact h
  · rename_i p x wr hr
    split
    · exact inv_die h
    · have hf := (resolveWriter_find hr).2.2
      unfold findWriter at hf
      refine Inv.frame h ⟨?_, ?_, ?_, ?_, ?_, ?_, ?_, ?_, ?_, ?_, ?_, ?_⟩ <;> try frame_fields
      simp only
      rw [map_updFirst_found writerKey _ _ _ wr hf (by unfold constW; exact wop_key wr o)]
      exact List.Sublist.refl _

theorem inv_probe {s : St} (h : Inv s) (b : Bool) : Inv (probe b s).1 := by
  unfold probe; split <;> exact h

end DustVerif.Tree
