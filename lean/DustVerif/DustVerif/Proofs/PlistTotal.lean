import DustVerif.Model.Plist
/-! No-panic / bounded-allocation lemmas for the (repaired) decoder of Model/Plist.lean. -/
namespace DustVerif.Plist

/-- neither a panic nor an over-limit allocation -/
def R.safe {α : Type} : R α → Prop
  | .panic => False
  | .alloc => False
  | _ => True

def Out.total {α : Type} : Out α → Prop
  | .ok _ => True
  | .err _ => True
  | _ => False

/-! ### readers never give the cursor more bytes than it had -/

theorem skip_le (n : Nat) (c c1 : Cur) (h : skip n c = .ok c1) : c1.rest.length ≤ c.rest.length := by
  unfold skip at h
  split at h
  · simp only [R.ok.injEq] at h; subst h; simp
  · simp at h

theorem takeN_le (n : Nat) (c c1 : Cur) (v : Bytes) (h : takeN n c = .ok (v, c1)) :
    c1.rest.length ≤ c.rest.length := by
  unfold takeN at h
  split at h
  · simp only [R.ok.injEq, Prod.mk.injEq] at h; obtain ⟨_, h⟩ := h; subst h; simp
  · simp at h

theorem rdU8_le (c c1 : Cur) (v : Nat) (h : rdU8 c = .ok (v, c1)) : c1.rest.length ≤ c.rest.length := by
  unfold rdU8 at h
  split at h
  · next a r heq => simp only [R.ok.injEq, Prod.mk.injEq] at h; obtain ⟨_, h⟩ := h; subst h; simp [heq]
  · simp at h

theorem rdU16_le (e : End) (c c1 : Cur) (v : Nat) (h : rdU16 e c = .ok (v, c1)) :
    c1.rest.length ≤ c.rest.length := by
  unfold rdU16 at h
  split at h
  · next c0 h0 =>
    have := skip_le _ _ _ h0
    split at h
    · next a b r heq =>
      simp only [R.ok.injEq, Prod.mk.injEq] at h; obtain ⟨_, h⟩ := h; subst h
      simp only [heq, List.length_cons] at this ⊢; omega
    · simp at h
  · simp at h

theorem rdU32_le (e : End) (c c1 : Cur) (v : Nat) (h : rdU32 e c = .ok (v, c1)) :
    c1.rest.length ≤ c.rest.length := by
  unfold rdU32 at h
  split at h
  · next c0 h0 =>
    have := skip_le _ _ _ h0
    split at h
    · next a b cc d r heq =>
      simp only [R.ok.injEq, Prod.mk.injEq] at h; obtain ⟨_, h⟩ := h; subst h
      simp only [heq, List.length_cons] at this ⊢; omega
    · simp at h
  · simp at h


theorem rdStr_le (strict : Bool) (cfg : Cfg) (e : End) (c c1 : Cur) (v : Bytes)
    (h : rdStr strict cfg e c = .ok (v, c1)) : c1.rest.length ≤ c.rest.length := by
  unfold rdStr at h
  split at h
  · next len c0 h0 =>
    have l0 := rdU32_le _ _ _ _ h0
    split at h
    · split at h <;> simp at h
    · split at h
      · next s c2 h2 =>
        have l2 := takeN_le _ _ _ _ h2
        split at h
        · next x c3 h3 =>
          have l3 := rdU8_le _ _ _ h3
          split at h
          · simp only [R.ok.injEq, Prod.mk.injEq] at h; obtain ⟨_, h⟩ := h; subst h; omega
          · simp at h
        · simp at h
      · simp at h
  · simp at h

theorem rdStrs_le (cfg : Cfg) (e : End) (k : Nat) : ∀ (c c1 : Cur) (l : List Bytes),
    rdStrs cfg e k c = .ok (l, c1) → c1.rest.length ≤ c.rest.length := by
  induction k with
  | zero => intro c c1 l h; simp only [rdStrs, R.ok.injEq, Prod.mk.injEq] at h; obtain ⟨_, h⟩ := h; subst h; omega
  | succ k ih =>
    intro c c1 l h
    simp only [rdStrs] at h
    split at h
    · next s c0 h0 =>
      have l0 := rdStr_le _ _ _ _ _ _ h0
      split at h
      · next l' c2 h2 =>
        have l2 := ih _ _ _ h2
        simp only [R.ok.injEq, Prod.mk.injEq] at h; obtain ⟨_, h⟩ := h; subst h; omega
      all_goals simp at h
    all_goals simp at h

theorem rdU16s_le (e : End) (k : Nat) : ∀ (c c1 : Cur) (l : List Nat),
    rdU16s e k c = .ok (l, c1) → c1.rest.length ≤ c.rest.length := by
  induction k with
  | zero => intro c c1 l h; simp only [rdU16s, R.ok.injEq, Prod.mk.injEq] at h; obtain ⟨_, h⟩ := h; subst h; omega
  | succ k ih =>
    intro c c1 l h
    simp only [rdU16s] at h
    split at h
    · next s c0 h0 =>
      have l0 := rdU16_le _ _ _ _ h0
      split at h
      · next l' c2 h2 =>
        have l2 := ih _ _ _ h2
        simp only [R.ok.injEq, Prod.mk.injEq] at h; obtain ⟨_, h⟩ := h; subst h; omega
      all_goals simp at h
    all_goals simp at h

/-! ### no panic, no over-limit allocation (repaired code) -/

theorem rdStr_safe (strict : Bool) (cfg : Cfg) (e : End) (c : Cur) (hf : cfg.fixD11 = true) :
    (rdStr strict cfg e c).safe := by
  unfold rdStr
  split
  · split
    · simp [R.safe]
    · split
      · split
        · split <;> simp [R.safe]
        · simp [R.safe]
      · simp [R.safe]
  · simp [R.safe]

theorem rdStrs_safe (cfg : Cfg) (e : End) (hf : cfg.fixD11 = true) (k : Nat) : ∀ c, (rdStrs cfg e k c).safe := by
  induction k with
  | zero => intro c; simp [rdStrs, R.safe]
  | succ k ih =>
    intro c
    simp only [rdStrs]
    have h1 := rdStr_safe false cfg e c hf
    split
    · next s c0 h0 =>
      have h2 := ih c0
      split <;> simp_all [R.safe]
    all_goals simp_all [R.safe]

theorem rdU16s_safe (e : End) (k : Nat) : ∀ c, (rdU16s e k c).safe := by
  induction k with
  | zero => intro c; simp [rdU16s, R.safe]
  | succ k ih =>
    intro c
    simp only [rdU16s]
    split
    · next s c0 h0 =>
      have h2 := ih c0
      split <;> simp_all [R.safe]
    · simp [R.safe]
    · simp [R.safe]
    · next h => simp [rdU16, alignTo, skip] at h; split at h <;> (try split at h) <;> simp at h
    · next h => simp [rdU16, alignTo, skip] at h; split at h <;> (try split at h) <;> simp at h


theorem reserve_fixed_false (cfg : Cfg) (hf : cfg.fixD13 = true) (count k rem : Nat) (hk : k ≤ 24)
    (h : rem * 24 ≤ allocLimit) : reserve cfg count k rem = false := by
  simp only [reserve, hf, if_true, decide_eq_false_iff_not, Nat.not_lt]
  have h1 : min count rem ≤ rem := Nat.min_le_right _ _
  calc min count rem * k ≤ rem * k := Nat.mul_le_mul_right k h1
    _ ≤ rem * 24 := Nat.mul_le_mul_left rem hk
    _ ≤ allocLimit := h

theorem decPrim_le (cfg : Cfg) (e : End) (p : Prim) (c c1 : Cur) (v : PVal)
    (h : decPrim cfg e p c = .ok (v, c1)) : c1.rest.length ≤ c.rest.length := by
  cases p <;> simp only [decPrim] at h
  case u8 => split at h <;> simp at h; next x c0 h0 => obtain ⟨_, h⟩ := h; subst h; exact rdU8_le _ _ _ h0
  case i16 => split at h <;> simp at h; next x c0 h0 => obtain ⟨_, h⟩ := h; subst h; exact rdU16_le _ _ _ _ h0
  case enum16 => split at h <;> simp at h; next x c0 h0 => obtain ⟨_, h⟩ := h; subst h; exact rdU16_le _ _ _ _ h0
  case i32 => split at h <;> simp at h; next x c0 h0 => obtain ⟨_, h⟩ := h; subst h; exact rdU32_le _ _ _ _ h0
  case enum32 => split at h <;> simp at h; next x c0 h0 => obtain ⟨_, h⟩ := h; subst h; exact rdU32_le _ _ _ _ h0
  case u32 => split at h <;> simp at h; next x c0 h0 => obtain ⟨_, h⟩ := h; subst h; exact rdU32_le _ _ _ _ h0
  case boolC => split at h <;> simp at h; next x c0 h0 => obtain ⟨_, h⟩ := h; subst h; exact rdU8_le _ _ _ h0
  case boolX =>
    split at h
    · next x c0 h0 =>
      have := rdU8_le _ _ _ h0
      split at h
      · simp at h; obtain ⟨_, h⟩ := h; subst h; exact this
      · split at h
        · simp at h; obtain ⟨_, h⟩ := h; subst h; exact this
        · simp at h
    · simp at h
  case arr n => split at h <;> simp at h; next x c0 h0 => obtain ⟨_, h⟩ := h; subst h; exact takeN_le _ _ _ _ h0
  case strC => split at h <;> simp at h; next x c0 h0 => obtain ⟨_, h⟩ := h; subst h; exact rdStr_le _ _ _ _ _ _ h0
  case strX => split at h <;> simp at h; next x c0 h0 => obtain ⟨_, h⟩ := h; subst h; exact rdStr_le _ _ _ _ _ _ h0
  case octets =>
    split at h
    · next len c0 h0 =>
      have l0 := rdU32_le _ _ _ _ h0
      split at h
      · next x c2 h2 =>
        have l2 := takeN_le _ _ _ _ h2
        simp at h; obtain ⟨_, h⟩ := h; subst h; omega
      · simp at h
    · simp at h
  case strs =>
    split at h
    · next len c0 h0 =>
      have l0 := rdU32_le _ _ _ _ h0
      split at h
      · simp at h
      · split at h <;> simp at h
        next x c2 h2 =>
          have l2 := rdStrs_le _ _ _ _ _ _ h2
          obtain ⟨_, h⟩ := h; subst h; omega
    · simp at h
  case u16s =>
    split at h
    · next len c0 h0 =>
      have l0 := rdU32_le _ _ _ _ h0
      split at h
      · simp at h
      · split at h <;> simp at h
        next x c2 h2 =>
          have l2 := rdU16s_le _ _ _ _ _ h2
          obtain ⟨_, h⟩ := h; subst h; omega
    · simp at h

/-- a member read by the repaired decoder neither panics nor reserves more than the limit, as long as the
    value it reads from is at most limit/24 octets long -/
theorem decPrim_safe (cfg : Cfg) (h11 : cfg.fixD11 = true) (h13 : cfg.fixD13 = true) (e : End) (p : Prim) (c : Cur)
    (hb : c.rest.length * 24 ≤ allocLimit) : (decPrim cfg e p c).safe := by
  cases p <;> simp only [decPrim]
  case u8 => split <;> simp [R.safe]
  case i16 => split <;> simp [R.safe]
  case enum16 => split <;> simp [R.safe]
  case i32 => split <;> simp [R.safe]
  case enum32 => split <;> simp [R.safe]
  case u32 => split <;> simp [R.safe]
  case boolC => split <;> simp [R.safe]
  case boolX => split <;> (try split) <;> (try split) <;> simp [R.safe]
  case arr n => split <;> simp [R.safe]
  case strC => have := rdStr_safe true cfg e c h11; split <;> simp_all [R.safe]
  case strX => have := rdStr_safe false cfg e c h11; split <;> simp_all [R.safe]
  case octets => split <;> (try split) <;> simp [R.safe]
  case strs =>
    split
    · next len c0 h0 =>
      have l0 := rdU32_le _ _ _ _ h0
      have hr : reserve cfg len 24 c0.rest.length = false :=
        reserve_fixed_false cfg h13 _ _ _ (Nat.le_refl _) (Nat.le_trans (Nat.mul_le_mul_right 24 l0) hb)
      simp only [hr, Bool.false_eq_true, if_false]
      have := rdStrs_safe cfg e h11 len c0
      split <;> simp_all [R.safe]
    · simp [R.safe]
  case u16s =>
    split
    · next len c0 h0 =>
      have l0 := rdU32_le _ _ _ _ h0
      have hr : reserve cfg len 2 c0.rest.length = false :=
        reserve_fixed_false cfg h13 _ _ _ (by omega) (Nat.le_trans (Nat.mul_le_mul_right 24 l0) hb)
      simp only [hr, Bool.false_eq_true, if_false]
      have := rdU16s_safe e len c0
      split <;> simp_all [R.safe]
    · simp [R.safe]

theorem decMembers_safe (cfg : Cfg) (h11 : cfg.fixD11 = true) (h13 : cfg.fixD13 = true) (e : End)
    (ps : List Prim) : ∀ (c : Cur), c.rest.length * 24 ≤ allocLimit → (decMembers cfg e ps c).safe := by
  induction ps with
  | nil => intro c _; simp [decMembers, R.safe]
  | cons p ps ih =>
    intro c hb
    simp only [decMembers]
    have h1 := decPrim_safe cfg h11 h13 e p c hb
    split
    · next v c1 h0 =>
      have l0 := decPrim_le _ _ _ _ _ _ h0
      have h2 := ih c1 (Nat.le_trans (Nat.mul_le_mul_right 24 l0) hb)
      split <;> simp_all [R.safe]
    all_goals simp_all [R.safe]

theorem decCodec_total (cfg : Cfg) (h11 : cfg.fixD11 = true) (h13 : cfg.fixD13 = true) (e : End) (c : Codec)
    (v : Bytes) (hb : v.length * 24 ≤ allocLimit) : (decCodec cfg e c v).total := by
  unfold decCodec
  have := decMembers_safe cfg h11 h13 e c.members ⟨0, v⟩ hb
  split
  · simp [Out.total]
  · split <;> simp [Out.total]
  · split <;> simp [Out.total]
  · simp_all [R.safe]
  · simp_all [R.safe]

end DustVerif.Plist
