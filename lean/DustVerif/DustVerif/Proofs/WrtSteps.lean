import DustVerif.Proofs.WrtLemmas
/-! Step lemmas of the writer model used by Props/C27, Props/C29 and Props/C19Writer: what each operation may
    change (frames), the KEEP_LAST depth invariant, and acknowledgement of evicted samples. -/
namespace DustVerif.Wrt

-- ------------------------------------------------------------------------------------------- fullFront

theorem fullFront_some {s : St} {k sn : Nat} (h : fullFront s k = some sn) :
    ∃ d i, s.qos.depth = some d ∧ findInst k s.insts = some i ∧ i.samples.length = d ∧ i.samples.head? = some sn := by
  unfold fullFront at h
  split at h
  · cases h
  · rename_i d hd
    split at h
    · cases h
    · rename_i i hi
      split at h
      · rename_i hl; exact ⟨d, i, hd, hi, hl, h⟩
      · cases h

theorem fullFront_none_room {s : St} {k d : Nat} (hd : s.qos.depth = some d) (h1 : 1 ≤ d) (hl : LenOk d s.insts)
    (h : fullFront s k = none) : ∀ i, findInst k s.insts = some i → i.samples.length < d := by
  intro i hi
  unfold fullFront at h
  rw [hd] at h
  simp only [hi] at h
  have hle := hl i (findInst_mem hi).1
  split at h
  · rename_i he
    cases hs : i.samples with
    | nil => simp [hs] at he; omega
    | cons a as => simp [hs] at h
  · omega

theorem fullFront_pending (s : St) (k : Nat) (p : Option Pending) :
    fullFront { s with pending := p } k = fullFront s k := rfl

theorem fullFront_proxies (s : St) (k : Nat) (ps : List Proxy) :
    fullFront { s with proxies := ps } k = fullFront s k := rfl

theorem evict_room {s : St} {k sn d : Nat} (hd : s.qos.depth = some d) (h1 : 1 ≤ d) (h : fullFront s k = some sn) :
    ∀ i, findInst k (evict s k sn).insts = some i → i.samples.length < d := by
  intro j hj
  obtain ⟨d', i, hd', hi, hlen, _⟩ := fullFront_some h
  rw [hd] at hd'; cases hd'
  simp only [evict, findInst_popFront, hi, Option.map_some, Option.some.injEq] at hj
  subst hj
  simp; omega

-- ------------------------------------------------------------------------------------------- entWrite

theorem entWrite_qos (s : St) (k : Nat) (v : Int) (ts now : Int) : (entWrite s k v ts now).1.qos = s.qos := by
  rcases entWrite_cases s k v ts now with h | h
  · rw [h.2.2.1]
  · exact h.2.1

theorem entWrite_reply (s : St) (k : Nat) (v : Int) (ts now : Int) :
    (entWrite s k v ts now).2.1 = .ok ∨ (entWrite s k v ts now).2.1 = .outOfResources := by
  rcases entWrite_cases s k v ts now with h | h
  · exact Or.inr h.1
  · exact Or.inl h.1

theorem entWrite_pending (s : St) (k : Nat) (v : Int) (ts now : Int) : (entWrite s k v ts now).1.pending = s.pending := by
  rcases entWrite_cases s k v ts now with h | h
  · rw [h.2.2.1]
  · exact h.2.2.2.1

theorem entWrite_lenOk (d : Nat) (s : St) (k : Nat) (v : Int) (ts now : Int) (h1 : 1 ≤ d) (h : LenOk d s.insts)
    (hroom : ∀ i, findInst k s.insts = some i → i.samples.length < d) : LenOk d (entWrite s k v ts now).1.insts := by
  rcases entWrite_cases s k v ts now with hc | hc
  · rw [hc.2.2.1]; exact h
  · rw [hc.2.2.2.2.1]
    refine pushSample_lenOk d k _ _ (regInsts_lenOk d k _ h) ?_
    intro i hi
    rcases findInst_regInsts s.insts k with ⟨j, hj, _, hj2⟩ | ⟨_, _, hj2⟩
    · rw [hj2] at hi; cases hi; exact hroom j hj
    · rw [hj2] at hi; cases hi; simp; omega

theorem entWrite_acked (s : St) (k : Nat) (v : Int) (ts now : Int) (sn : Nat) :
    isAckedBy (entWrite s k v ts now).1.proxies sn = isAckedBy s.proxies sn := by
  rcases entWrite_cases s k v ts now with hc | hc
  · rw [hc.2.2.1]
  · rcases hc.2.2.2.2.2.2.2 with he | he
    · rw [he.2.2.2]
    · rw [he.2.2.1]; exact isAckedBy_writeMessageAll _ _ _ _

-- ------------------------------------------------------------------------------------------- evictWrite (KEEP_LAST replacement + entity write)

theorem evictWrite_qos (s : St) (k : Nat) (v : Int) (ts now : Int) (sn : Nat) :
    (evictWrite s k v ts now sn).1.qos = s.qos := by
  unfold evictWrite; split
  · rfl
  · simp [entOut, entWrite_qos, evict]

theorem evictWrite_pending (s : St) (k : Nat) (v : Int) (ts now : Int) (sn : Nat) :
    (evictWrite s k v ts now sn).1.pending = s.pending := by
  unfold evictWrite; split
  · rfl
  · simp [entOut, entWrite_pending, evict]

theorem evictWrite_reply (s : St) (k : Nat) (v : Int) (ts now : Int) (sn : Nat) :
    (evictWrite s k v ts now sn).2.reply = some .ok ∨ (evictWrite s k v ts now sn).2.reply = some .outOfResources := by
  unfold evictWrite; split
  · exact Or.inr rfl
  · simp only [entOut]
    rcases entWrite_reply (evict s k sn) k v ts now with h | h <;> simp [h]

theorem evictWrite_acked (s : St) (k : Nat) (v : Int) (ts now : Int) (sn x : Nat) :
    isAckedBy (evictWrite s k v ts now sn).1.proxies x = isAckedBy s.proxies x := by
  unfold evictWrite; split
  · rfl
  · simp only [entOut]; rw [entWrite_acked]; rfl

theorem evictWrite_evicted (s : St) (k : Nat) (v : Int) (ts now : Int) (sn x : Nat)
    (h : x ∈ (evictWrite s k v ts now sn).2.evicted) : x = sn := by
  unfold evictWrite at h; split at h
  · simp at h
  · simpa [entOut] using h

-- ------------------------------------------------------------------------------------------- frames of the small steps

theorem removeStale_frame (s : St) (now : Int) :
    (removeStale s now).qos = s.qos ∧ (removeStale s now).insts = s.insts ∧ (removeStale s now).lastSn = s.lastSn
    ∧ (removeStale s now).proxies = s.proxies ∧ (removeStale s now).pending = s.pending := by
  unfold removeStale; split <;> simp

theorem checkTimeout_frame (s : St) (now : Int) :
    (checkTimeout s now).1.qos = s.qos ∧ (checkTimeout s now).1.insts = s.insts ∧ (checkTimeout s now).1.lastSn = s.lastSn
    ∧ (checkTimeout s now).1.proxies = s.proxies ∧ (checkTimeout s now).1.changes = s.changes := by
  unfold checkTimeout
  split
  · simp
  · split
    · simp
    · split <;> simp

theorem poke_frame (s : St) (now : Int) :
    (poke s now).1.qos = s.qos ∧ (poke s now).1.insts = s.insts ∧ (poke s now).1.lastSn = s.lastSn
    ∧ (poke s now).1.pending = s.pending ∧ (poke s now).1.changes = s.changes := by
  simp [poke]

theorem poke_acked (s : St) (now : Int) (sn : Nat) : isAckedBy (poke s now).1.proxies sn = isAckedBy s.proxies sn := by
  simp only [poke]; exact isAckedBy_writeMessageAll _ _ _ _

theorem matchReader_frame (s : St) (rid : Nat) (rel tl : Bool) :
    (matchReader s rid rel tl).qos = s.qos ∧ (matchReader s rid rel tl).insts = s.insts
    ∧ (matchReader s rid rel tl).lastSn = s.lastSn ∧ (matchReader s rid rel tl).pending = s.pending
    ∧ (matchReader s rid rel tl).changes = s.changes := by
  simp [matchReader]

/-- unregister_instance never touches the QoS, the pending write or a sample deque -/
theorem unregisterW_frame (s : St) (k : Nat) (ts now : Int) :
    (unregisterW s k ts now).1.qos = s.qos ∧ (unregisterW s k ts now).1.pending = s.pending
    ∧ isAckedBy (unregisterW s k ts now).1.proxies = isAckedBy s.proxies
    ∧ ((unregisterW s k ts now).1.insts = s.insts ∨ (unregisterW s k ts now).1.insts = clearReg k s.insts) := by
  unfold unregisterW
  split
  · refine ⟨by simp [addChange], by simp [addChange], ?_, Or.inr (by simp [addChange])⟩
    funext sn
    simp only [addChange]
    exact isAckedBy_writeMessageAll _ _ _ _
  · exact ⟨rfl, rfl, rfl, Or.inl rfl⟩

-- ------------------------------------------------------------------------------------------- depth invariant

/-- KEEP_LAST(d): no instance holds more than d samples -/
def DepthInv (d : Nat) (s : St) : Prop := s.qos.depth = some d ∧ LenOk d s.insts

theorem evictWrite_lenOk (d : Nat) (h1 : 1 ≤ d) (s : St) (k : Nat) (v : Int) (ts now : Int) (sn : Nat)
    (hd : s.qos.depth = some d) (hl : LenOk d s.insts) (hff : fullFront s k = some sn) :
    LenOk d (evictWrite s k v ts now sn).1.insts := by
  unfold evictWrite; split
  · exact hl
  · simp only [entOut]
    exact entWrite_lenOk d _ k v ts now h1 (popFront_lenOk d k _ hl) (evict_room hd h1 hff)

theorem methodWrite_depth (d : Nat) (h1 : 1 ≤ d) (s : St) (k : Nat) (v : Int) (ts now : Int) (h : DepthInv d s) :
    DepthInv d (methodWrite s k v ts now).1 := by
  obtain ⟨hd, hl⟩ := h
  unfold methodWrite
  split
  · rename_i sn hff
    split
    · split
      · exact ⟨hd, hl⟩
      · exact ⟨hd, hl⟩
    · exact ⟨by rw [evictWrite_qos]; exact hd, evictWrite_lenOk d h1 s k v ts now _ hd hl hff⟩
  · rename_i hff
    simp only [entOut]
    refine ⟨by rw [entWrite_qos]; exact hd, ?_⟩
    exact entWrite_lenOk d s k v ts now h1 hl (fullFront_none_room hd h1 hl hff)

theorem processPending_depth (d : Nat) (h1 : 1 ≤ d) (s : St) (now : Int) (h : DepthInv d s) :
    DepthInv d (processPending s now).1 := by
  obtain ⟨hd, hl⟩ := h
  unfold processPending
  split
  · exact ⟨hd, hl⟩
  · rename_i p hp
    split
    · split
      · rename_i sn hff
        have hff' : fullFront { s with pending := none } p.key = some sn := hff
        exact ⟨by rw [evictWrite_qos]; exact hd,
          evictWrite_lenOk d h1 { s with pending := none } p.key p.val p.ts now _ hd hl hff'⟩
      · rename_i hff
        simp only [entOut]
        refine ⟨by rw [entWrite_qos]; exact hd, ?_⟩
        exact entWrite_lenOk d _ _ _ _ now h1 hl (fullFront_none_room hd h1 hl hff)
    · exact ⟨hd, hl⟩

theorem tickRest_depth (d : Nat) (h1 : 1 ≤ d) (s : St) (now : Int) (h : DepthInv d s) : DepthInv d (tickRest s now).1 := by
  have hc := checkTimeout_frame s now
  have h2 : DepthInv d (checkTimeout s now).1 := ⟨by rw [hc.1]; exact h.1, by rw [hc.2.1]; exact h.2⟩
  have h3 := processPending_depth d h1 _ now h2
  have hp := poke_frame (processPending (checkTimeout s now).1 now).1 now
  exact ⟨by simp only [tickRest]; rw [hp.1]; exact h3.1, by simp only [tickRest]; rw [hp.2.1]; exact h3.2⟩

theorem tick_depth (d : Nat) (h1 : 1 ≤ d) (s : St) (now : Int) (h : DepthInv d s) : DepthInv d (tick s now).1 := by
  have hr := removeStale_frame s now
  exact tickRest_depth d h1 _ now ⟨by rw [hr.1]; exact h.1, by rw [hr.2.1]; exact h.2⟩

theorem onAcknack_depth (d : Nat) (h1 : 1 ≤ d) (s : St) (rid base : Nat) (set : List Nat) (count : Nat) (now : Int)
    (h : DepthInv d s) : DepthInv d (onAcknack s rid base set count now).1 := by
  simp only [onAcknack]
  exact processPending_depth d h1 _ now ⟨h.1, h.2⟩

theorem step_depth (d : Nat) (h1 : 1 ≤ d) (s : St) (e : Ev) (h : DepthInv d s) : DepthInv d (step s e).1 := by
  cases e with
  | write k v ts now =>
    have hr := removeStale_frame s now
    exact methodWrite_depth d h1 _ k v ts now ⟨by rw [hr.1]; exact h.1, by rw [hr.2.1]; exact h.2⟩
  | acknack rid base set count now =>
    have hr := removeStale_frame s now
    exact onAcknack_depth d h1 _ rid base set count now ⟨by rw [hr.1]; exact h.1, by rw [hr.2.1]; exact h.2⟩
  | tick now => exact tick_depth d h1 s now h
  | matchReader rid rel tl =>
    have hf := matchReader_frame s rid rel tl
    exact ⟨by simp only [step]; rw [hf.1]; exact h.1, by simp only [step]; rw [hf.2.1]; exact h.2⟩
  | unregister k ts now =>
    have hr := removeStale_frame s now
    have hu := unregisterW_frame (removeStale s now) k ts now
    refine ⟨by simp only [step]; rw [hu.1, hr.1]; exact h.1, ?_⟩
    simp only [step]
    rcases hu.2.2.2 with hi | hi
    · rw [hi, hr.2.1]; exact h.2
    · rw [hi, hr.2.1]; exact clearReg_lenOk d k _ h.2

-- ------------------------------------------------------------------------------------------- evictions are acknowledged

theorem methodWrite_evicted (s : St) (k : Nat) (v : Int) (ts now : Int) (sn : Nat)
    (hm : sn ∈ (methodWrite s k v ts now).2.evicted) (hr : s.qos.reliable = true) :
    isAckedBy (methodWrite s k v ts now).1.proxies sn = true := by
  cases hff : fullFront s k with
  | none => simp [methodWrite, hff, entOut] at hm
  | some sn0 =>
    simp only [methodWrite, hff] at hm ⊢
    by_cases hb : (s.qos.reliable && !(isAcked s sn0)) = true
    · rw [if_pos hb] at hm
      split at hm <;> simp [Out.none] at hm
    · rw [if_neg hb] at hm ⊢
      have := evictWrite_evicted s k v ts now sn0 sn hm
      subst this
      rw [evictWrite_acked]
      simp only [hr, Bool.true_and, Bool.not_eq_true, Bool.not_eq_false'] at hb
      simpa [isAcked] using hb

theorem processPending_evicted (s : St) (now : Int) (sn : Nat)
    (hm : sn ∈ (processPending s now).2.evicted) (hr : s.qos.reliable = true) :
    isAckedBy (processPending s now).1.proxies sn = true := by
  cases hp : s.pending with
  | none => simp [processPending, hp, Out.none] at hm
  | some p =>
    simp only [processPending, hp] at hm ⊢
    by_cases hcw : canWrite s p.key = true
    · rw [if_pos hcw] at hm ⊢
      cases hff : fullFront s p.key with
      | none => simp [hff, entOut] at hm
      | some sn0 =>
        simp only [hff] at hm ⊢
        have := evictWrite_evicted _ _ _ _ now sn0 sn hm
        subst this
        rw [evictWrite_acked]
        unfold canWrite at hcw
        rw [hff] at hcw
        simp only [hr, Bool.not_true, Bool.false_or] at hcw
        simpa [isAcked] using hcw
    · rw [if_neg hcw] at hm
      simp [Out.none] at hm

theorem processPending_qos (s : St) (now : Int) : (processPending s now).1.qos = s.qos := by
  unfold processPending
  split
  · rfl
  · split
    · split
      · rw [evictWrite_qos]
      · simp [entOut, entWrite_qos]
    · rfl

theorem methodWrite_qos (s : St) (k : Nat) (v : Int) (ts now : Int) : (methodWrite s k v ts now).1.qos = s.qos := by
  simp only [methodWrite]
  split
  · split
    · split <;> rfl
    · rw [evictWrite_qos]
  · simp [entOut, entWrite_qos]

/-- no event changes the QoS -/
theorem step_qos (s : St) (e : Ev) : (step s e).1.qos = s.qos := by
  cases e with
  | write k v ts now => simp only [step]; rw [methodWrite_qos, (removeStale_frame s now).1]
  | acknack rid base set count now =>
    simp only [step, onAcknack]; rw [processPending_qos]; exact (removeStale_frame s now).1
  | tick now =>
    simp only [step, tick, tickRest]
    rw [(poke_frame _ now).1, processPending_qos, (checkTimeout_frame _ now).1, (removeStale_frame s now).1]
  | matchReader rid rel tl => simp [step, matchReader]
  | unregister k ts now =>
    simp only [step]; rw [(unregisterW_frame _ k ts now).1, (removeStale_frame s now).1]

theorem run_qos (evs : List Ev) : ∀ s : St, (run s evs).qos = s.qos := by
  induction evs with
  | nil => intro s; rfl
  | cons e es ih => intro s; simp only [run]; rw [ih, step_qos]

end DustVerif.Wrt
