import DustVerif.Proofs.XcdrRt
/-! Size and position lemmas of the serializer model (sequential subset). -/
namespace DustVerif.Xcdr

theorem wPad_lt (ver : Ver) (a pos : Nat) (ha : 0 < a) : wPad ver a pos < min a ver.maxAlign := by
  unfold wPad
  apply padTo_lt
  cases ver <;> simp [Ver.maxAlign] <;> omega

theorem wPad4_le (ver : Ver) (pos : Nat) : wPad ver 4 pos ≤ 3 := by
  have := wPad_lt ver 4 pos (by omega)
  cases ver <;> simp [Ver.maxAlign] at this <;> omega

theorem wPad_le7 (ver : Ver) (a pos : Nat) (ha : 0 < a) : wPad ver a pos ≤ 7 := by
  have := wPad_lt ver a pos ha
  cases ver <;> simp [Ver.maxAlign] at this <;> omega

theorem wPad1 (ver : Ver) (pos : Nat) : wPad ver 1 pos = 0 := by
  have := wPad_lt ver 1 pos (by omega)
  cases ver <;> simp [Ver.maxAlign] at this <;> omega

theorem wPrim_len (ver : Ver) (e : Endian) (p : Prim) (n pos : Nat) (h : primOk p n = true) :
    (wPrim ver e p n pos).1.length = wPad ver p.size pos + p.size := by
  simp [wPrim, primBytes_length e p n h]

theorem wPrim_pos (ver : Ver) (e : Endian) (p : Prim) (n pos : Nat) :
    (wPrim ver e p n pos).2 = pos + (wPrim ver e p n pos).1.length := by
  simp [wPrim]; omega

theorem wPrim_len_le (ver : Ver) (e : Endian) (p : Prim) (n pos : Nat) (h : primOk p n = true) :
    (wPrim ver e p n pos).1.length ≤ 15 := by
  rw [wPrim_len ver e p n pos h]
  have := wPad_le7 ver p.size pos (Prim.size_pos p)
  have := Prim.size_le p
  omega

theorem wPrim_len_pos (ver : Ver) (e : Endian) (p : Prim) (n pos : Nat) (h : primOk p n = true) :
    1 ≤ (wPrim ver e p n pos).1.length := by
  rw [wPrim_len ver e p n pos h]
  have := Prim.size_pos p
  omega

theorem wPrim_u32_len (ver : Ver) (e : Endian) (n pos : Nat) :
    (wPrim ver e .u32 n pos).1.length = wPad ver 4 pos + 4 := by
  simp [wPrim, primBytes, Prim.size]

theorem wList_len_le (f : Val → Nat → W) (g : Val → Nat) (vs : List Val)
    (h : ∀ v ∈ vs, ∀ pos, (f v pos).1.length ≤ g v) (pos : Nat) :
    (wList f vs pos).1.length ≤ sumNat (vs.map g) := by
  induction vs generalizing pos with
  | nil => simp [wList, sumNat]
  | cons v vs ih =>
    simp only [wList, List.length_append, List.map_cons, sumNat]
    have h1 := h v (by simp) pos
    have h2 := ih (fun w hw => h w (by simp [hw])) (f v pos).2
    omega

theorem wList_pos (f : Val → Nat → W) (vs : List Val)
    (h : ∀ v ∈ vs, ∀ pos, (f v pos).2 = pos + (f v pos).1.length) (pos : Nat) :
    (wList f vs pos).2 = pos + (wList f vs pos).1.length := by
  induction vs generalizing pos with
  | nil => simp [wList]
  | cons v vs ih =>
    simp only [wList, List.length_append]
    have h1 := h v (by simp) pos
    have h2 := ih (fun w hw => h w (by simp [hw])) (f v pos).2
    omega

theorem enum_primOk (hd : Prim) (n : Nat) (hh : holderOk hd = true) (hn : n < 256 ^ hd.size) : primOk hd n = true := by
  simp only [holderOk, Bool.or_eq_true, beq_iff_eq] at hh
  rcases hh with (rfl | rfl) | rfl <;> simp_all [primOk]

end DustVerif.Xcdr
