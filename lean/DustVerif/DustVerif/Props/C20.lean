import DustVerif.Proofs.HistCollect
/-! Property C20: read/take return, up to max_samples, exactly the stored samples matching the masks
    (and the requested instance), in storage order; NoData only when nothing matches. -/
namespace DustVerif.Hist

/-- specification: walk the store in order, pick matching samples until `max` are collected
    (`n` = number already collected; a negative `max` never stops) -/
def specSelect (insts : List Inst) (m : Masks) (only : Option Nat) (max : Int) : List Sample → Nat → List Sample
  | [], _ => []
  | s :: ss, n =>
    if (n : Int) = max then []
    else if selects insts m only s then s :: specSelect insts m only max ss (n + 1)
    else specSelect insts m only max ss n

theorem selects_findInst (insts : List Inst) (m : Masks) (only : Option Nat) (s : Sample)
    (h : selects insts m only s = true) : ∃ i, findInst s.inst insts = some i := by
  unfold selects at h
  cases hf : findInst s.inst insts with
  | none => simp [hf] at h
  | some i => exact ⟨i, rfl⟩

/-- once `max` samples are collected the loop adds nothing -/
theorem collectLoop_full (insts : List Inst) (m : Masks) (only : Option Nat) (take : Bool) (max : Int)
    (l : List Sample) (acc : List Info) (coll : List Inst) (hfull : (acc.length : Int) = max) :
    (collectLoop insts m only take max l acc coll).2.1 = acc := by
  induction l with
  | nil => simp [collectLoop]
  | cons s ss ih =>
    unfold collectLoop
    simp only [hfull, if_true, consKept]
    exact ih

/-- the data of the returned collection is the data of the specified selection, in storage order -/
theorem collectLoop_selection (insts : List Inst) (m : Masks) (only : Option Nat) (take : Bool) (max : Int)
    (l : List Sample) (acc : List Info) (coll : List Inst) :
    (collectLoop insts m only take max l acc coll).2.1.map (·.data) =
      acc.map (·.data) ++ (specSelect insts m only max l acc.length).map (·.data) := by
  induction l generalizing acc coll with
  | nil => simp [collectLoop, specSelect]
  | cons s ss ih =>
    unfold collectLoop specSelect
    by_cases hfull : (acc.length : Int) = max
    · simp only [hfull, if_true, consKept, List.map_nil, List.append_nil]
      rw [collectLoop_full insts m only take max ss acc coll hfull]
    · simp only [hfull, if_false]
      by_cases hsel : selects insts m only s = true
      · obtain ⟨i, hi⟩ := selects_findInst insts m only s hsel
        simp only [hsel, if_true, hi]
        have := ih (acc ++ [mkInfo s i (collTouch coll s.inst s.kind)]) (collTouch coll s.inst s.kind)
        split
        · rw [this]; simp [mkInfo]
        · simp only [consKept]; rw [this]; simp [mkInfo]
      · simp only [hsel, Bool.false_eq_true, if_false, consKept]
        exact ih acc coll

theorem fillRanks_data (all l : List Info) : (fillRanks all l).map (·.data) = l.map (·.data) := by
  induction l with
  | nil => simp [fillRanks]
  | cons i is ih => simp [fillRanks, ih]

theorem fillRanks_length (all l : List Info) : (fillRanks all l).length = l.length := by
  induction l with
  | nil => simp [fillRanks]
  | cons i is ih => simp [fillRanks, ih]

/-- C20 (selection): on an enabled reader with a known (or no) instance handle, read/take return exactly the
    specified selection, in storage order, and NoData exactly when the selection is empty -/
theorem C20_selection (s : St) (max : Int) (m : Masks) (only : Option Nat) (take : Bool)
    (hen : s.enabled = true) (hknown : unknownInst s.insts only = false) :
    (∀ infos, (readOrTake s max m only take).2 = .ok infos →
        infos.map (·.data) = (specSelect s.insts m only max s.samples 0).map (·.data)) ∧
    ((readOrTake s max m only take).2 = .error .noData ↔ specSelect s.insts m only max s.samples 0 = []) ∧
    (∀ e, (readOrTake s max m only take).2 = .error e → e = .noData) := by
  have hsel := collectLoop_selection s.insts m only take max s.samples [] []
  simp only [List.map_nil, List.nil_append, List.length_nil] at hsel
  have hlen : (collectLoop s.insts m only take max s.samples [] []).2.1.length
      = (specSelect s.insts m only max s.samples 0).length := by
    have := congrArg List.length hsel
    simpa using this
  generalize hr : readOrTake s max m only take = r
  unfold readOrTake collect at hr
  simp only [hen, hknown, Bool.not_true, Bool.false_eq_true, if_false] at hr
  split at hr
  · rename_i hemp
    subst hr
    have h0 : (collectLoop s.insts m only take max s.samples [] []).2.1.length = 0 := by
      have := fillRanks_length (collectLoop s.insts m only take max s.samples [] []).2.1
        (collectLoop s.insts m only take max s.samples [] []).2.1
      have he : (fillRanks (collectLoop s.insts m only take max s.samples [] []).2.1
        (collectLoop s.insts m only take max s.samples [] []).2.1).length = 0 := by
        simpa [List.isEmpty_iff] using hemp
      omega
    refine ⟨(by intro infos h; cases h), ⟨fun _ => ?_, fun _ => rfl⟩, (by intro e h; injection h with h; exact h.symm)⟩
    exact List.eq_nil_of_length_eq_zero (by omega)
  · rename_i hemp
    subst hr
    refine ⟨?_, ⟨(fun h => by cases h), fun h => ?_⟩, (by intro e h; cases h)⟩
    · intro infos h
      injection h with h
      subst h
      rw [fillRanks_data]; exact hsel
    · exfalso
      apply hemp
      have : (collectLoop s.insts m only take max s.samples [] []).2.1.length = 0 := by rw [hlen, h]; rfl
      have h2 := fillRanks_length (collectLoop s.insts m only take max s.samples [] []).2.1
        (collectLoop s.insts m only take max s.samples [] []).2.1
      simp [List.isEmpty_iff]
      exact List.eq_nil_of_length_eq_zero (by omega)

/-- for an unlimited `max_samples` the specification is the plain filter -/
theorem specSelect_unlimited (insts : List Inst) (m : Masks) (only : Option Nat) (max : Int) (hneg : max < 0)
    (l : List Sample) (n : Nat) : specSelect insts m only max l n = l.filter (selects insts m only) := by
  induction l generalizing n with
  | nil => simp [specSelect]
  | cons s ss ih =>
    unfold specSelect
    have : ¬ ((n : Int) = max) := by omega
    simp only [this, if_false]
    by_cases hs : selects insts m only s = true
    · simp [hs, ih]
    · simp [hs, ih]

/-- with a limit the specification is the first `max` elements of the filter -/
theorem specSelect_limited (insts : List Inst) (m : Masks) (only : Option Nat) (k : Nat)
    (l : List Sample) (n : Nat) (hn : n ≤ k) :
    specSelect insts m only (k : Int) l n = (l.filter (selects insts m only)).take (k - n) := by
  induction l generalizing n with
  | nil => simp [specSelect]
  | cons s ss ih =>
    unfold specSelect
    by_cases hfull : (n : Int) = (k : Int)
    · have : n = k := by omega
      simp [this]
    · have hlt : n < k := by omega
      simp only [hfull, if_false]
      by_cases hs : selects insts m only s = true
      · simp only [hs, if_true, List.filter_cons_of_pos]
        rw [ih (n + 1) (by omega)]
        have : k - n = (k - (n + 1)) + 1 := by omega
        rw [this, List.take_succ_cons]
      · have hs' : selects insts m only s = false := by simpa using hs
        simp only [hs', Bool.false_eq_true, if_false]
        rw [ih n hn]
        simp [hs']

/-- sample_rank of every returned sample = number of later samples of the same instance in the collection -/
theorem C20_sample_rank (all l : List Info) (pre : List Info) (i : Info) (post : List Info)
    (hl : l = pre ++ i :: post) :
    ∃ j, (fillRanks all l)[pre.length]? = some j ∧ j.srank = (cntInfo i.inst post : Int) := by
  subst hl
  induction pre with
  | nil => exact ⟨_, rfl, rfl⟩
  | cons p ps ih =>
    obtain ⟨j, hj1, hj2⟩ := ih
    exact ⟨j, by simpa [fillRanks] using hj1, hj2⟩

/-- specification of the store after the call: selected samples are removed (take) or marked READ (read), everything
    else — incl. matching samples beyond `max` — is kept unchanged and in place -/
def specKeep (insts : List Inst) (m : Masks) (only : Option Nat) (take : Bool) (max : Int) : List Sample → Nat → List Sample
  | [], _ => []
  | s :: ss, n =>
    if (n : Int) = max then s :: ss
    else if selects insts m only s then
      (if take then specKeep insts m only take max ss (n + 1)
       else { s with read := true } :: specKeep insts m only take max ss (n + 1))
    else s :: specKeep insts m only take max ss n

theorem collectLoop_full_kept (insts : List Inst) (m : Masks) (only : Option Nat) (take : Bool) (max : Int)
    (l : List Sample) (acc : List Info) (coll : List Inst) (hfull : (acc.length : Int) = max) :
    (collectLoop insts m only take max l acc coll).1 = l := by
  induction l with
  | nil => simp [collectLoop]
  | cons s ss ih =>
    unfold collectLoop
    simp only [hfull, if_true, consKept]
    rw [ih]

theorem collectLoop_kept (insts : List Inst) (m : Masks) (only : Option Nat) (take : Bool) (max : Int)
    (l : List Sample) (acc : List Info) (coll : List Inst) :
    (collectLoop insts m only take max l acc coll).1 = specKeep insts m only take max l acc.length := by
  induction l generalizing acc coll with
  | nil => simp [collectLoop, specKeep]
  | cons s ss ih =>
    unfold collectLoop specKeep
    by_cases hfull : (acc.length : Int) = max
    · simp only [hfull, if_true, consKept]
      rw [collectLoop_full_kept insts m only take max ss acc coll hfull]
    · simp only [hfull, if_false]
      by_cases hsel : selects insts m only s = true
      · obtain ⟨i, hi⟩ := selects_findInst insts m only s hsel
        simp only [hsel, if_true, hi]
        have := ih (acc ++ [mkInfo s i (collTouch coll s.inst s.kind)]) (collTouch coll s.inst s.kind)
        simp only [List.length_append, List.length_singleton] at this
        cases take
        · simp only [Bool.false_eq_true, if_false, consKept]; rw [this]
        · simp only [if_true]; exact this
      · simp only [hsel, Bool.false_eq_true, if_false, consKept]
        rw [ih acc coll]

/-- C20 (effect on the store): after read/take the stored samples are exactly `specKeep`: take removes the returned
    samples, read marks them READ and keeps them, nothing else changes (also when the call answers NoData) -/
theorem C20_store_after (s : St) (max : Int) (m : Masks) (only : Option Nat) (take : Bool)
    (hen : s.enabled = true) (hknown : unknownInst s.insts only = false) :
    (readOrTake s max m only take).1.samples = specKeep s.insts m only take max s.samples 0 := by
  have hk := collectLoop_kept s.insts m only take max s.samples [] []
  unfold readOrTake collect
  simp only [hen, hknown, Bool.not_true, Bool.false_eq_true, if_false]
  split <;> exact hk

/-- the specified store after a take has the length of the old store minus the number of returned samples -/
theorem specKeep_take_length (insts : List Inst) (m : Masks) (only : Option Nat) (max : Int) (l : List Sample) (n : Nat) :
    (specKeep insts m only true max l n).length + (specSelect insts m only max l n).length = l.length := by
  induction l generalizing n with
  | nil => simp [specKeep, specSelect]
  | cons s ss ih =>
    unfold specKeep specSelect
    by_cases hfull : (n : Int) = max
    · simp [hfull]
    · simp only [hfull, if_false]
      by_cases hsel : selects insts m only s = true
      · simp only [hsel, if_true, List.length_cons]
        have := ih (n + 1); omega
      · simp only [hsel, Bool.false_eq_true, if_false, List.length_cons]
        have := ih n; omega

/-- a read keeps every sample (same data, same order) -/
theorem specKeep_read_data (insts : List Inst) (m : Masks) (only : Option Nat) (max : Int) (l : List Sample) (n : Nat) :
    (specKeep insts m only false max l n).map (·.data) = l.map (·.data) := by
  induction l generalizing n with
  | nil => simp [specKeep]
  | cons s ss ih =>
    unfold specKeep
    by_cases hfull : (n : Int) = max
    · simp [hfull]
    · simp only [hfull, if_false]
      by_cases hsel : selects insts m only s = true
      · simp [hsel, ih]
      · simp [hsel, ih]

/-- the generation-rank invariant of the collection pass: every collected SampleInfo carries the generation counts
    its sample was stored with, and absolute_generation_rank = (current counts of its instance) − (those counts) -/
def RankOk (insts : List Inst) (x : Info) : Prop :=
  ∃ i, findInst x.inst insts = some i ∧ x.agrank = (i.dgc + i.nwgc) - (x.dgc + x.nwgc)

theorem collectLoop_rankOk (insts : List Inst) (m : Masks) (only : Option Nat) (take : Bool) (max : Int)
    (l : List Sample) (acc : List Info) (coll : List Inst) (hacc : ∀ x ∈ acc, RankOk insts x) :
    ∀ x ∈ (collectLoop insts m only take max l acc coll).2.1, RankOk insts x := by
  induction l generalizing acc coll with
  | nil => simpa [collectLoop] using hacc
  | cons s ss ih =>
    unfold collectLoop
    by_cases hfull : (acc.length : Int) = max
    · simp only [hfull, if_true, consKept]; exact ih acc coll hacc
    · simp only [hfull, if_false]
      by_cases hsel : selects insts m only s = true
      · obtain ⟨i, hi⟩ := selects_findInst insts m only s hsel
        simp only [hsel, if_true, hi]
        have hacc' : ∀ x ∈ acc ++ [mkInfo s i (collTouch coll s.inst s.kind)], RankOk insts x := by
          intro x hx
          rcases List.mem_append.mp hx with h | h
          · exact hacc x h
          · simp only [List.mem_singleton] at h
            subst h
            exact ⟨i, hi, rfl⟩
        have := ih (acc ++ [mkInfo s i (collTouch coll s.inst s.kind)]) (collTouch coll s.inst s.kind) hacc'
        split
        · exact this
        · simpa only [consKept] using this
      · simp only [hsel, Bool.false_eq_true, if_false, consKept]
        exact ih acc coll hacc

/-- `fillRanks` only writes sample_rank and generation_rank -/
theorem fillRanks_mem (all l : List Info) (y : Info) (hy : y ∈ fillRanks all l) :
    ∃ x ∈ l, y.inst = x.inst ∧ y.agrank = x.agrank ∧ y.dgc = x.dgc ∧ y.nwgc = x.nwgc ∧
      y.grank = x.agrank - (match lastAgrankOf x.inst all with
        | some r => r
        | none => 0) := by
  induction l with
  | nil => simp [fillRanks] at hy
  | cons i is ih =>
    simp only [fillRanks, List.mem_cons] at hy
    rcases hy with h | h
    · subst h; exact ⟨i, by simp, rfl, rfl, rfl, rfl, rfl⟩
    · obtain ⟨x, hx, h1⟩ := ih h
      exact ⟨x, by simp [hx], h1⟩

/-- `lastAgrankOf h all` is the absolute rank of some sample of instance `h` in the collection (the last one) -/
theorem lastAgrankOf_mem (h : Nat) (all : List Info) (r : Int) (hr : lastAgrankOf h all = some r) :
    ∃ z ∈ all, z.inst = h ∧ z.agrank = r := by
  induction all with
  | nil => simp [lastAgrankOf] at hr
  | cons i is ih =>
    unfold lastAgrankOf at hr
    cases hl : lastAgrankOf h is with
    | some r' =>
      simp only [hl] at hr
      obtain ⟨z, hz, h1, h2⟩ := ih (by rw [hl]; exact hr)
      exact ⟨z, by simp [hz], h1, h2⟩
    | none =>
      simp only [hl] at hr
      split at hr
      · rename_i hi
        injection hr with hr
        exact ⟨i, by simp, hi, hr⟩
      · cases hr

theorem lastAgrankOf_some_of_mem (h : Nat) (all : List Info) (x : Info) (hx : x ∈ all) (hh : x.inst = h) :
    ∃ r, lastAgrankOf h all = some r := by
  induction all with
  | nil => cases hx
  | cons i is ih =>
    unfold lastAgrankOf
    cases hl : lastAgrankOf h is with
    | some r' => exact ⟨r', rfl⟩
    | none =>
      rcases List.mem_cons.mp hx with h1 | h1
      · subst h1; simp [hh]
      · obtain ⟨r, hr⟩ := ih h1
        rw [hl] at hr; cases hr

/-- C20 (ranks): every SampleInfo returned by read/take carries
    absolute_generation_rank = generations between the sample and the instance's most recent state, and
    generation_rank = generations between the sample and some (the most recent) sample of the same instance in the
    returned collection, both computed from the generation counts the samples were stored with (DDS 1.4 §2.2.2.5.1) -/
theorem C20_generation_ranks (s : St) (max : Int) (m : Masks) (only : Option Nat) (take : Bool) (infos : List Info)
    (hok : (readOrTake s max m only take).2 = .ok infos) :
    ∀ y ∈ infos,
      (∃ i, findInst y.inst s.insts = some i ∧ y.agrank = (i.dgc + i.nwgc) - (y.dgc + y.nwgc)) ∧
      (∃ z ∈ infos, z.inst = y.inst ∧ y.grank = (z.dgc + z.nwgc) - (y.dgc + y.nwgc)) := by
  generalize hr : readOrTake s max m only take = r at hok
  unfold readOrTake collect at hr
  split at hr
  · subst hr; cases hok
  · split at hr
    · subst hr; cases hok
    · simp only [] at hr
      split at hr
      · subst hr; cases hok
      · subst hr
        injection hok with hok
        subst hok
        intro y hy
        have hall := collectLoop_rankOk s.insts m only take max s.samples [] [] (by simp)
        obtain ⟨x, hx, hinst, hag, hd, hn, hg⟩ := fillRanks_mem _ _ y hy
        obtain ⟨i, hi, hxa⟩ := hall x hx
        refine ⟨⟨i, by rw [hinst]; exact hi, by rw [hag, hd, hn]; exact hxa⟩, ?_⟩
        obtain ⟨r, hr⟩ := lastAgrankOf_some_of_mem x.inst _ x hx rfl
        obtain ⟨z, hz, hzi, hzr⟩ := lastAgrankOf_mem x.inst _ r hr
        obtain ⟨iz, hiz, hza⟩ := hall z hz
        rw [hzi, hi] at hiz
        injection hiz with hiz
        subst hiz
        -- z itself appears (with ranks filled) in the result
        have : ∃ z' ∈ fillRanks (collectLoop s.insts m only take max s.samples [] []).2.1
              (collectLoop s.insts m only take max s.samples [] []).2.1,
              z'.inst = z.inst ∧ z'.dgc = z.dgc ∧ z'.nwgc = z.nwgc := by
          clear hy hg hr hzr hza hall hx
          generalize (collectLoop s.insts m only take max s.samples [] []).2.1 = all at hz ⊢
          suffices ∀ l, z ∈ l → ∃ z' ∈ fillRanks all l, z'.inst = z.inst ∧ z'.dgc = z.dgc ∧ z'.nwgc = z.nwgc from
            this all hz
          intro l hl
          induction l with
          | nil => cases hl
          | cons a as ih =>
            rcases List.mem_cons.mp hl with h | h
            · subst h
              unfold fillRanks
              refine ⟨_, List.mem_cons_self .., ?_, ?_, ?_⟩ <;> rfl

            · obtain ⟨z', hz', h1⟩ := ih h
              exact ⟨z', by simp [fillRanks, hz'], h1⟩
        obtain ⟨z', hz', hz'i, hz'd, hz'n⟩ := this
        refine ⟨z', hz', by rw [hz'i, hzi, hinst], ?_⟩
        rw [hg, hr, hz'd, hz'n, hd, hn]
        simp only []
        rw [hxa, ← hzr, hza]
        omega

example :
    let q : Qos := { depth := none, maxSamples := none, maxInst := none, maxSpi := none, bySource := false,
                     exclusive := false, minSep := some 0 }
    let s1 := (addChange (St.init q true) 1 "aa" .alive 5 (some 10) 100).1
    let s2 := (addChange s1 1 "bb" .alive 6 (some 20) 200).1
    (match (readOrTake s2 1 { ss := 3, vs := 3, is := 7 } none true).2 with
      | .ok l => l.map (·.data) | .error _ => []) = ["aa"] := by decide

end DustVerif.Hist
