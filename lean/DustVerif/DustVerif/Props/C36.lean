import DustVerif.Proofs.TreeDelete
import DustVerif.Proofs.TreeTopics
import DustVerif.Model.TreeOld
/-! Property C36: entity deletion follows the DDS preconditions.  Model: `Model/Tree.lean`
    (participant_methods.rs:99,188,303,408,508, publisher_methods.rs:128, subscriber_methods.rs:153,
    dcps_participant_factory.rs:80) = the code WITH fixes/D-tree-1.patch (`delete_contentfilteredtopic` removes the
    content-filtered topic unless a reader uses it; `delete_contained_entities` clears them) and fixes/D-tree-2.patch
    (`delete_topic` refuses while a content-filtered topic refers to the topic).  Every clause is a statement about
    ONE step from an ARBITRARY state, hence about every step of every history; "changes nothing" is the `s` in the
    result pair.

    Not callable (so not modelled): `PublisherAsync/SubscriberAsync::delete_contained_entities` are `todo!()`.
    The two failures of the code before the patches (`Model/TreeOld.lean`) are kept as regression witnesses. -/
namespace DustVerif.Tree

/-! ### a non-empty parent is not deleted, and nothing changes -/

/-- deleting a publisher that still has a writer → PreconditionNotMet, state unchanged -/
theorem C36_publisher_with_writers (s : St) (via : Nat) (r : GroupRef) (p : Part) (x : Pub)
    (hp : findPart s via = some p) (hpar : r.ph = p.uid % U32) (hx : findPub s p.uid r.b = some x)
    (hw : s.writers.any (writerOfPub p.uid x.uid) = true) :
    deletePub s via r = (s, .err .preconditionNotMet) := by
  unfold deletePub; simp [hp, hpar, hx, hw]

/-- deleting a subscriber that still has a reader → PreconditionNotMet, state unchanged -/
theorem C36_subscriber_with_readers (s : St) (via : Nat) (r : GroupRef) (p : Part) (x : Sub)
    (hp : findPart s via = some p) (hpar : r.ph = p.uid % U32) (hx : findSub s p.uid r.b = some x)
    (hw : s.readers.any (readerOfSub p.uid x.uid) = true) :
    deleteSub s via r = (s, .err .preconditionNotMet) := by
  unfold deleteSub; simp [hp, hpar, hx, hw]

/-- deleting a participant that still has a publisher, a subscriber, a topic or a content-filtered topic →
    PreconditionNotMet, state unchanged -/
theorem C36_participant_with_entities (s : St) (ph : Nat) (p : Part) (hp : findPart s ph = some p)
    (he : s.pubs.any (pubOfPart p.uid) = true ∨ s.subs.any (subOfPart p.uid) = true ∨
          s.topics.any (topicOfPart p.uid) = true ∨ s.cfts.any (cftOfPart p.uid) = true) :
    deletePart s ph = (s, .err .preconditionNotMet) := by
  unfold deletePart partEmpty
  rcases he with h | h | h | h <;> simp [hp, h]

/-- deleting a topic still used by a writer → PreconditionNotMet, state unchanged -/
theorem C36_topic_used_by_writer (s : St) (via : Nat) (r : TopicRef) (p : Part) (t : Topic)
    (hp : findPart s r.ph = some p) (hpar : via = p.uid % U32) (hb : isBuiltinName r.name = false)
    (ht : findTopic s p.uid r.name = some t) (hw : s.writers.any (writerUsesTopic p.uid r.name) = true) :
    deleteTopic s via r = (s, .err .preconditionNotMet) := by
  unfold deleteTopic; simp [hp, hpar, hb, ht, hw]

/-- deleting a topic still used by a reader (created on the topic itself) → PreconditionNotMet, state unchanged -/
theorem C36_topic_used_by_reader (s : St) (via : Nat) (r : TopicRef) (p : Part) (t : Topic)
    (hp : findPart s r.ph = some p) (hpar : via = p.uid % U32) (hb : isBuiltinName r.name = false)
    (ht : findTopic s p.uid r.name = some t) (hw : s.readers.any (readerUsesTopic p.uid r.name) = true) :
    deleteTopic s via r = (s, .err .preconditionNotMet) := by
  unfold deleteTopic
  cases hww : s.writers.any (writerUsesTopic p.uid r.name) <;> simp [hp, hpar, hb, ht, hw, hww]

/-- deleting a topic a content-filtered topic refers to → PreconditionNotMet, state unchanged (fixes/D-tree-2) -/
theorem C36_topic_referred_by_cft (s : St) (via : Nat) (r : TopicRef) (p : Part) (t : Topic)
    (hp : findPart s r.ph = some p) (hpar : via = p.uid % U32) (hb : isBuiltinName r.name = false)
    (ht : findTopic s p.uid r.name = some t) (hc : s.cfts.any (cftRefersTo p.uid r.name) = true) :
    deleteTopic s via r = (s, .err .preconditionNotMet) := by
  unfold deleteTopic
  cases hww : s.writers.any (writerUsesTopic p.uid r.name) <;>
    cases hrr : s.readers.any (readerUsesTopic p.uid r.name) <;> simp [hp, hpar, hb, ht, hc, hww, hrr]

/-- deleting a topic that a reader uses THROUGH a content-filtered topic (the reader's topic name is the name of a
    content-filtered topic of that participant whose related topic is this one) → PreconditionNotMet, state unchanged -/
theorem C36_topic_used_through_cft (s : St) (via : Nat) (r : TopicRef) (p : Part) (t : Topic) (c : Cft) (rd : Reader)
    (hp : findPart s r.ph = some p) (hpar : via = p.uid % U32) (hb : isBuiltinName r.name = false)
    (ht : findTopic s p.uid r.name = some t)
    (hc : c ∈ s.cfts) (hcp : c.part = p.uid) (hrel : c.related = r.name)
    (_hrd : rd ∈ s.readers ∧ rd.part = p.uid ∧ rd.topic = c.name) :
    deleteTopic s via r = (s, .err .preconditionNotMet) := by
  apply C36_topic_referred_by_cft s via r p t hp hpar hb ht
  rw [List.any_eq_true]
  exact ⟨c, hc, by simp [cftRefersTo, hcp, hrel]⟩

/-- deleting a content-filtered topic a reader was created on → PreconditionNotMet, state unchanged (fixes/D-tree-1) -/
theorem C36_cft_used_by_reader (s : St) (ph : Nat) (n : String) (p : Part) (hp : findPart s ph = some p)
    (hc : s.cfts.any (isCftN p.uid n) = true) (hr : s.readers.any (readerUsesTopic p.uid n) = true) :
    deleteCft s ph n = (s, .err .preconditionNotMet) := by
  unfold deleteCft; simp [hp, hc, hr]

/-- deleting an entity through a participant that is not its parent → PreconditionNotMet, state unchanged -/
theorem C36_wrong_parent (s : St) (via : Nat) (p : Part) (hp : findPart s via = some p) :
    (∀ r : GroupRef, r.ph ≠ p.uid % U32 → deletePub s via r = (s, .err .preconditionNotMet)) ∧
    (∀ r : GroupRef, r.ph ≠ p.uid % U32 → deleteSub s via r = (s, .err .preconditionNotMet)) := by
  refine ⟨?_, ?_⟩ <;> intro r hr
  · unfold deletePub; simp [hp, hr]
  · unfold deleteSub; simp [hp, hr]

/-! ### operations on entities that are gone answer AlreadyDeleted and change nothing -/

/-- no participant with that handle: every participant-level call -/
theorem C36_absent_participant (s : St) (ph : Nat) (h : findPart s ph = none) :
    deletePart s ph = (s, .err .alreadyDeleted) ∧ deleteContained s ph = (s, .err .alreadyDeleted) ∧
    enablePart s ph = (s, .err .alreadyDeleted) ∧ step s (.probePart ph) = (s, .err .alreadyDeleted) ∧
    (∀ a, createPub s ph a = (s, .err .alreadyDeleted)) ∧ (∀ a, createSub s ph a = (s, .err .alreadyDeleted)) ∧
    (∀ n k, createTopic s ph n k = (s, .err .alreadyDeleted)) := by
  refine ⟨?_, ?_, ?_, ?_, ?_, ?_, ?_⟩
  · unfold deletePart; simp [h]
  · unfold deleteContained; simp [h]
  · unfold enablePart; simp [h]
  · simp [step, probe, h]
  · intro a; unfold createPub; simp [h]
  · intro a; unfold createSub; simp [h]
  · intro n k; unfold createTopic; simp [h]

/-- the publisher is gone (its participant still exists): every publisher-level call -/
theorem C36_absent_publisher (s : St) (r : GroupRef) (p : Part) (hp : findPart s r.ph = some p)
    (h : findPub s p.uid r.b = none) :
    deletePub s r.ph r = (s, .err .alreadyDeleted) ∧ step s (.probePub r) = (s, .err .alreadyDeleted) ∧
    (∀ t m c, findTopic s p.uid t ≠ none → createWriter s r t m c = (s, .err .alreadyDeleted)) ∧
    (∀ w, deleteWriter s r w = (s, .err .alreadyDeleted)) := by
  have hph : r.ph = p.uid % U32 := by
    have := List.find?_some hp
    unfold isPartH at this
    simp at this
    exact this.symm
  refine ⟨?_, ?_, ?_, ?_⟩
  · unfold deletePub; rw [hp]; simp [hph, h]
  · simp [step, probe, hp, h]
  · intro t m c ht
    unfold createWriter
    cases hft : findTopic s p.uid t with
    | none => exact absurd hft ht
    | some _ => simp [hp, hft, h]
  · intro w; unfold deleteWriter; simp [hp, h]

/-- the subscriber is gone -/
theorem C36_absent_subscriber (s : St) (r : GroupRef) (p : Part) (hp : findPart s r.ph = some p)
    (h : findSub s p.uid r.b = none) :
    deleteSub s r.ph r = (s, .err .alreadyDeleted) ∧ step s (.probeSub r) = (s, .err .alreadyDeleted) ∧
    (∀ w, deleteReader s r w = (s, .err .alreadyDeleted)) := by
  have hph : r.ph = p.uid % U32 := by
    have := List.find?_some hp
    unfold isPartH at this
    simp at this
    exact this.symm
  refine ⟨?_, ?_, ?_⟩
  · unfold deleteSub; rw [hp]; simp [hph, h]
  · simp [step, probe, hp, h]
  · intro w; unfold deleteReader; simp [hp, h]

/-- the topic is gone: delete / enable / get_qos and the creation of writers on it -/
theorem C36_absent_topic (s : St) (r : TopicRef) (p : Part) (hp : findPart s r.ph = some p)
    (hb : isBuiltinName r.name = false) (h : findTopic s p.uid r.name = none) :
    deleteTopic s r.ph r = (s, .err .alreadyDeleted) ∧ enableTopic s r = (s, .err .alreadyDeleted) ∧
    step s (.probeTopic r) = (s, .err .alreadyDeleted) ∧
    (∀ b m c, createWriter s { ph := r.ph, b := b } r.name m c = (s, .err .alreadyDeleted)) := by
  have hph : r.ph = p.uid % U32 := by
    have := List.find?_some hp
    unfold isPartH at this
    simp at this
    exact this.symm
  refine ⟨?_, ?_, ?_, ?_⟩
  · unfold deleteTopic; rw [hp]; simp [hph, hb, h]
  · unfold enableTopic; simp [hp, h]
  · simp [step, probe, hp, h]
  · intro b m c; unfold createWriter; simp [hp, h]

/-- the writer is gone (or its publisher, or its participant): every writer call, instance operations included -/
theorem C36_absent_writer (s : St) (w : EndRef) (h : resolveWriter s w = none) :
    enableWriter s w = (s, .err .alreadyDeleted) ∧ step s (.probeWriter w) = (s, .err .alreadyDeleted) ∧
    (∀ o, instOp s w o = (s, .err .alreadyDeleted)) := by
  refine ⟨?_, ?_, ?_⟩
  · unfold enableWriter; simp [h]
  · simp [step, probe, h]
  · intro o; unfold instOp; simp [h]

/-- the reader is gone -/
theorem C36_absent_reader (s : St) (w : EndRef) (h : resolveReader s w = none) :
    enableReader s w = (s, .err .alreadyDeleted) ∧ step s (.probeReader w) = (s, .err .alreadyDeleted) := by
  refine ⟨?_, ?_⟩
  · unfold enableReader; simp [h]
  · simp [step, probe, h]

/-- no content-filtered topic of that name (never created, or deleted): `delete_contentfilteredtopic` → AlreadyDeleted -/
theorem C36_absent_cft (s : St) (ph : Nat) (n : String) (p : Part) (hp : findPart s ph = some p)
    (h : s.cfts.any (isCftN p.uid n) = false) : deleteCft s ph n = (s, .err .alreadyDeleted) := by
  unfold deleteCft; simp [hp, h]

/-! ### a deleted entity IS gone (needs unique handles: `Inv` and `Bounded` = no counter has wrapped; with
    fixes/D40.patch both hold in EVERY reachable state of either profile, `C36_reachable_good`) -/

theorem C36_reachable_good (pr : Profile) (ops : List Op) :
    Inv (run (St.init pr) ops) ∧ Bounded (run (St.init pr) ops) :=
  let hg := good_run (good_init pr) ops
  ⟨hg.1, hg.2.bounded⟩

/-- after a successful `delete_publisher` no publisher answers to that handle any more -/
theorem C36_deleted_publisher_is_gone (s : St) (hi : Inv s) (hb : Bounded s) (via : Nat) (r : GroupRef) (s' : St)
    (h : deletePub s via r = (s', .ok)) :
    ∃ p, findPart s' via = some p ∧ findPub s' p.uid r.b = none := by
  unfold deletePub at h
  split at h
  · simp at h
  · rename_i p hp
    split at h
    · simp at h
    · split at h
      · simp at h
      · split at h
        · simp at h
        · injection h with h _
          subst h
          refine ⟨p, hp, ?_⟩
          exact find?_eraseP_none pubKey _ _ hi.pubs.2 (pub_match_key hi hb p.uid r.b)

/-- after a successful `delete_subscriber` no subscriber answers to that handle any more -/
theorem C36_deleted_subscriber_is_gone (s : St) (hi : Inv s) (hb : Bounded s) (via : Nat) (r : GroupRef) (s' : St)
    (h : deleteSub s via r = (s', .ok)) :
    ∃ p, findPart s' via = some p ∧ findSub s' p.uid r.b = none := by
  unfold deleteSub at h
  split at h
  · simp at h
  · rename_i p hp
    split at h
    · simp at h
    · split at h
      · simp at h
      · split at h
        · simp at h
        · injection h with h _
          subst h
          refine ⟨p, hp, ?_⟩
          exact find?_eraseP_none subKey _ _ hi.subs.2 (sub_match_key hi hb p.uid r.b)

/-- after a successful `delete_participant` the handle resolves to nothing -/
theorem C36_deleted_participant_is_gone (s : St) (hi : Inv s) (hb : Bounded s) (ph : Nat) (s' : St)
    (h : deletePart s ph = (s', .ok)) : findPart s' ph = none := by
  unfold deletePart at h
  split at h
  · simp at h
  · split at h
    · simp at h
    · injection h with h _
      subst h
      exact find?_eraseP_none partKey _ _ hi.partsNd (part_match_key hi hb ph)

/-- after a successful `delete_datawriter` the writer handle resolves to nothing -/
theorem C36_deleted_writer_is_gone (s : St) (hi : Inv s) (hb : Bounded s) (via : GroupRef) (w : EndRef) (s' : St)
    (hv : via.ph = w.ph ∧ via.b = w.b) (h : deleteWriter s via w = (s', .ok)) : resolveWriter s' w = none := by
  unfold deleteWriter at h
  split at h
  · simp at h
  · rename_i p hp
    split at h
    · simp at h
    · rename_i x hx
      split at h
      · simp at h
      · injection h with h _
        subst h
        unfold resolveWriter
        have hp' : findPart { s with writers := s.writers.eraseP (isWriterE p.uid x.uid w.ent) } w.ph = some p := by
          rw [← hv.1]; exact hp
        have hx' : findPub { s with writers := s.writers.eraseP (isWriterE p.uid x.uid w.ent) } p.uid w.b = some x := by
          rw [← hv.2]; exact hx
        rw [hp']
        simp only
        rw [hx']
        simp only
        have : findWriter { s with writers := s.writers.eraseP (isWriterE p.uid x.uid w.ent) } p.uid x.uid w.ent = none :=
          find?_eraseP_none writerKey _ _ hi.writers.2 (writer_match_key hi hb p.uid x.uid w.ent)
        rw [this]

/-- after a successful `delete_datareader` the reader handle resolves to nothing -/
theorem C36_deleted_reader_is_gone (s : St) (hi : Inv s) (hb : Bounded s) (via : GroupRef) (w : EndRef) (s' : St)
    (hv : via.ph = w.ph ∧ via.b = w.b) (h : deleteReader s via w = (s', .ok)) : resolveReader s' w = none := by
  unfold deleteReader at h
  split at h
  · simp at h
  · rename_i p hp
    split at h
    · simp at h
    · rename_i x hx
      split at h
      · simp at h
      · injection h with h _
        subst h
        unfold resolveReader
        have hp' : findPart { s with readers := s.readers.eraseP (isReaderE p.uid x.uid w.ent) } w.ph = some p := by
          rw [← hv.1]; exact hp
        have hx' : findSub { s with readers := s.readers.eraseP (isReaderE p.uid x.uid w.ent) } p.uid w.b = some x := by
          rw [← hv.2]; exact hx
        rw [hp']
        simp only
        rw [hx']
        simp only
        have : findReader { s with readers := s.readers.eraseP (isReaderE p.uid x.uid w.ent) } p.uid x.uid w.ent = none :=
          find?_eraseP_none readerKey _ _ hi.readers.2 (reader_match_key hi hb p.uid x.uid w.ent)
        rw [this]

/-- after a successful `delete_topic` no topic of that name is left (a topic is its name: a later topic of the same
    name makes old `Topic` objects valid again — by design of the API objects, not counted as a violation) -/
theorem C36_deleted_topic_is_gone (s : St) (via : Nat) (r : TopicRef) (s' : St) (hb : isBuiltinName r.name = false)
    (h : deleteTopic s via r = (s', .ok)) : ∃ p, findPart s' r.ph = some p ∧ findTopic s' p.uid r.name = none := by
  unfold deleteTopic at h
  split at h
  · simp at h
  · rename_i p hp
    split at h
    · simp at h
    · split at h
      · rename_i hbb; rw [hb] at hbb; simp at hbb
      · split at h
        · simp at h
        · split at h
          · simp at h
          · split at h
            · simp at h
            · split at h
              · simp at h
              · injection h with h _
                subst h
                exact ⟨p, hp, find_filter_notTopicN _ _ _⟩

/-- after a successful `delete_contentfilteredtopic` no content-filtered topic of that name is left -/
theorem C36_deleted_cft_is_gone (s : St) (ph : Nat) (n : String) (s' : St) (h : deleteCft s ph n = (s', .ok)) :
    ∃ p, findPart s' ph = some p ∧ s'.cfts.any (isCftN p.uid n) = false := by
  unfold deleteCft at h
  split at h
  · simp at h
  · rename_i p hp
    split at h
    · simp at h
    · split at h
      · simp at h
      · injection h with h _
        subst h
        refine ⟨p, hp, ?_⟩
        exact any_filter_not (notCftN p.uid n) (isCftN p.uid n) s.cfts
          (by intro x hx; unfold notCftN; unfold isCftN at hx; simp [hx])

/-! ### delete_contained_entities -/

/-- C36: `delete_contained_entities` of ANY participant succeeds, leaves the participant empty, and
    `delete_participant` then succeeds (full: with fixes/D-tree-1.patch the content-filtered topics go as well) -/
theorem C36_delete_contained_then_delete (s : St) (ph : Nat) (p : Part) (hp : findPart s ph = some p) :
    (deleteContained s ph).2 = .ok ∧ partEmpty (deleteContained s ph).1 p.uid = true ∧
    (deletePart (deleteContained s ph).1 ph).2 = .ok := by
  have e1 := any_filter_not (notPubOfPart p.uid) (pubOfPart p.uid) s.pubs
    (by intro x hx; unfold notPubOfPart; unfold pubOfPart at hx; simp [hx])
  have e2 := any_filter_not (notSubOfPart p.uid) (subOfPart p.uid) s.subs
    (by intro x hx; unfold notSubOfPart; unfold subOfPart at hx; simp [hx])
  have e3 := any_filter_not (notTopicOfPart p.uid) (topicOfPart p.uid) s.topics
    (by intro x hx; unfold notTopicOfPart; unfold topicOfPart at hx; simp [hx])
  have e4 := any_filter_not (notCftOfPart p.uid) (cftOfPart p.uid) s.cfts
    (by intro x hx; unfold notCftOfPart; unfold cftOfPart at hx; simp [hx])
  have hp2 := hp
  unfold findPart at hp2
  unfold deleteContained
  rw [hp]
  simp only
  refine ⟨trivial, ?_, ?_⟩
  · unfold partEmpty
    simp only
    rw [e1, e2, e3, e4]
    rfl
  · unfold deletePart findPart partEmpty
    simp only
    rw [hp2]
    simp only
    rw [e1, e2, e3, e4]
    rfl

/-- C36 (history form of the topic clauses): in EVERY reachable state every writer's topic exists, every reader's
    topic or content-filtered topic exists, and every content-filtered topic's related topic exists — no sequence of
    deletions (delete_topic, delete_contentfilteredtopic, delete_contained_entities, …) can take a topic away from
    under an entity that uses it -/
theorem C36_topic_in_use_exists (pr : Profile) (ops : List Op) : TopInv (run (St.init pr) ops) :=
  top_run (top_init pr) ops

/-! ### regression witnesses: the code before the patches (`Model/TreeOld.lean`) and the same histories after -/

/-- before fixes/D-tree-1.patch: one content-filtered topic, and the participant can never be deleted again — neither
    `delete_contentfilteredtopic` (a no-op) nor `delete_contained_entities` removed it.  After: it can. -/
theorem C36_delete_contained_counterexample :
    let ops : List Op := [.createPart true, .createTopic 0 "A" true, .createCft { ph := 0, name := "A" } "F" true,
      .deleteCft 0 "F", .deleteContained 0, .deletePart 0]
    (outsOld (St.init .debug) ops).getLast? = some (.err .preconditionNotMet) ∧
    (outs (St.init .debug) ops).getLast? = some .ok := by decide +kernel

/-- before fixes/D-tree-2.patch: a topic that a reader uses through a content-filtered topic is deleted without
    complaint.  After: PreconditionNotMet, and the topic is still there. -/
theorem C36_topic_in_use_counterexample :
    let ops : List Op := [.createPart true, .createTopic 0 "A" true, .createCft { ph := 0, name := "A" } "F" true,
      .createSub 0 true, .createReader { ph := 0, b := 0 } "F" true, .deleteTopic 0 { ph := 0, name := "A" }]
    (outsOld (St.init .debug) ops).getLast? = some .ok ∧
    (runOld (St.init .debug) ops).readers.length = 1 ∧ (runOld (St.init .debug) ops).topics.length = 0 ∧
    (outs (St.init .debug) ops).getLast? = some (.err .preconditionNotMet) ∧
    (run (St.init .debug) ops).topics.length = 1 := by
  decide +kernel

/-! ### non-vacuity: the hypotheses of the clauses are met in reachable states -/

example :
    let s := run (St.init .debug) [.createPart true, .createPub 0 true, .createTopic 0 "A" true,
      .createWriter { ph := 0, b := 0 } "A" none true]
    deletePub s 0 { ph := 0, b := 0 } = (s, .err .preconditionNotMet) ∧
    deleteTopic s 0 { ph := 0, name := "A" } = (s, .err .preconditionNotMet) ∧
    deletePart s 0 = (s, .err .preconditionNotMet) ∧
    (deletePart (deleteContained s 0).1 0).2 = .ok := by
  refine ⟨?_, ?_, ?_, ?_⟩
  · exact C36_publisher_with_writers _ 0 _ { uid := 0, enabled := true, autoenable := true }
      { part := 0, uid := 0, enabled := true, autoenable := true } (by decide +kernel) (by decide) (by decide +kernel)
      (by decide +kernel)
  · exact C36_topic_used_by_writer _ 0 _ { uid := 0, enabled := true, autoenable := true }
      { part := 0, uid := 0, name := "A", keyed := true, enabled := true } (by decide +kernel) (by decide)
      (by decide +kernel) (by decide +kernel) (by decide +kernel)
  · exact C36_participant_with_entities _ 0 { uid := 0, enabled := true, autoenable := true } (by decide +kernel)
      (Or.inl (by decide +kernel))
  · exact (C36_delete_contained_then_delete _ 0 { uid := 0, enabled := true, autoenable := true }
      (by decide +kernel)).2.2

/-- the content-filtered-topic clauses are met in reachable states: a reader on a filtered topic protects both the
    filtered topic and its base topic; once the reader is gone both can be deleted, in that order -/
example :
    let s := run (St.init .debug) [.createPart true, .createTopic 0 "A" true, .createCft { ph := 0, name := "A" } "F" true,
      .createSub 0 true, .createReader { ph := 0, b := 0 } "F" true]
    deleteCft s 0 "F" = (s, .err .preconditionNotMet) ∧
    deleteTopic s 0 { ph := 0, name := "A" } = (s, .err .preconditionNotMet) ∧
    outs s [.deleteReader { ph := 0, b := 0 } { ph := 0, b := 0, ent := readerEnt 0 0 true },
            .deleteTopic 0 { ph := 0, name := "A" }, .deleteCft 0 "F", .deleteTopic 0 { ph := 0, name := "A" },
            .deleteCft 0 "F"] =
      [.ok, .err .preconditionNotMet, .ok, .ok, .err .alreadyDeleted] := by
  refine ⟨?_, ?_, by decide +kernel⟩
  · exact C36_cft_used_by_reader _ 0 "F" { uid := 0, enabled := true, autoenable := true } (by decide +kernel)
      (by decide +kernel) (by decide +kernel)
  · exact C36_topic_referred_by_cft _ 0 _ { uid := 0, enabled := true, autoenable := true }
      { part := 0, uid := 0, name := "A", keyed := true, enabled := true } (by decide +kernel) (by decide)
      (by decide +kernel) (by decide +kernel) (by decide +kernel)

end DustVerif.Tree
