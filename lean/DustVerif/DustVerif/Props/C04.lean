import DustVerif.Proofs.RtpsRel
import DustVerif.Proofs.AckWaitLemmas
import DustVerif.Props.C01
/-! Property C04 (protocol part): a VOLATILE reader never receives a sample written before it was matched.
    At match time `add_matched_reader` (stateful_writer.rs:74) sets `first_relevant_sample_seq_num` to the highest
    sequence number in the history for a VOLATILE reader and to 0 for TRANSIENT_LOCAL; the theorems below show that
    nothing at or below that number is ever sent as DATA / DATA_FRAG, requested, buffered or delivered.
    `wait_for_historical_data` (reader_methods.rs:522, communication_methods.rs:628): `C04_hist_received_sound` —
    `is_historical_data_received` implies that everything the newest heartbeat announced was delivered or is gone —
    and, for the wait list, `C04_wait_hist_sound` / `C04_wait_hist_kept` (namespace `DustVerif.AckWait`).
    The liveness clause is stated, not proved (`C04_tl_gets_history_statement`) and checked by the oracle of
    vlib/props/C04.py on the full stack. All theorems are about ONE reader of the writer per participant: on the real
    stack a second reader of the same writer in the same participant sees the first one's DATA and GAP submessages
    (open finding D-rtps-2). -/
namespace DustVerif.Rtps

/-- what `add_matched_reader` fixes at the first match: VOLATILE = highest sequence number held, TRANSIENT_LOCAL = 0 -/
theorem C04_first_relevant_at_match (cfg : Cfg) (w : Writer) (rel tl : Bool) (hnone : w.proxy = none) :
    (w.addMatchedReader cfg rel tl).firstRel = (if tl then 0 else (maxSn w.changes).getD 0) := by
  simp [Writer.addMatchedReader, hnone, Writer.firstRel, RProxy.new]

/-- **C04_volatile_never_old**: for EVERY step list (writes before and after the match, removals, ticks,
    re-announcements, any loss / duplication / reordering) every delivered sample has a sequence number above
    `first_relevant_sample_seq_num` — for a VOLATILE reader: it was written after the match. Holds for a reliable
    reader on every variant of the code with fixes/D43.patch, and for a best-effort reader with fixes/D4_D42.patch too. -/
theorem C04_volatile_never_old (cfg : Cfg) (hfix : cfg.fixD43 = true) (rel tl : Bool)
    (hc : rel = true ∨ cfg.fixD4 = true) (f : Nat) (steps : List Step) (s : Sys)
    (hrun : Sys.run cfg (Sys.init rel tl f) steps = .ok s) (c : Change) (hcache : c ∈ s.r.cache) :
    c.sn > s.w.firstRel :=
  (inv4_run cfg hfix rel hc steps _ s (inv4_init rel tl f) hrun).rdR.1 c hcache

/-- nor is such a sample ever in flight as DATA / DATA_FRAG or waiting in the fragment buffer -/
theorem C04_never_sent_old (cfg : Cfg) (hfix : cfg.fixD43 = true) (rel tl : Bool)
    (hc : rel = true ∨ cfg.fixD4 = true) (f : Nat) (steps : List Step) (s : Sys)
    (hrun : Sys.run cfg (Sys.init rel tl f) steps = .ok s) :
    (∀ d, d ∈ s.net → ∀ sub, sub ∈ d.subs → SubRel s.w.firstRel sub) ∧
    (∀ p, s.r.proxy = some p → ∀ fr, fr ∈ p.fragBuf → fr.sn > s.w.firstRel) := by
  have h := inv4_run cfg hfix rel hc steps _ s (inv4_init rel tl f) hrun
  exact ⟨h.netR, h.rdR.2⟩

/-- non-vacuity: a late VOLATILE reliable reader; samples 1, 2 were written before the match, 3 after -/
example :
    (match Sys.run Cfg.fixed (Sys.init true false 8)
        [.write [1], .write [2], .doMatch, .write [3], .deliver 0, .deliver 0, .deliver 0, .deliver 0] with
      | .ok s => (s.w.firstRel, s.r.cache.map snOf)
      | .panic => (0, [])) = (2, [3]) := by decide

/-- as-is (D4): the best-effort path ignores `first_relevant_sample_seq_num`: a late best-effort VOLATILE reader is
    sent — and delivers — the samples written before the match -/
theorem C04_besteffort_old_sample_asis_counterexample :
    (match Sys.run Cfg.asIs (Sys.init false false 8)
        [.write [1], .write [2], .doMatch, .write [3], .deliver 0, .deliver 0] with
      | .ok s => (s.w.firstRel, s.r.cache.map snOf)
      | .panic => (0, [])) = (2, [1, 2]) := by decide

/-- the same schedule on the repaired code: GAP 1, GAP 2, then sample 3 -/
example :
    (match Sys.run Cfg.fixed (Sys.init false false 8)
        [.write [1], .write [2], .doMatch, .write [3], .deliver 0, .deliver 0, .deliver 0] with
      | .ok s => (s.w.firstRel, s.r.cache.map snOf)
      | .panic => (0, [])) = (2, [3]) := by decide

theorem rangeIncl_isEmpty (lo hi : Nat) (h : (rangeIncl lo hi).isEmpty = true) : hi < lo := by
  unfold rangeIncl at h
  cases hn : hi + 1 - lo with
  | zero => omega
  | succ n => rw [hn] at h; simp [List.range_succ_eq_map] at h

/-- **C04_hist_received_sound**: for EVERY step list: when the reliable reader's `is_historical_data_received` holds
    (a heartbeat was processed and nothing is missing), every sequence number up to `last_available_seq_num` — the `last`
    of the newest heartbeat processed, i.e. the highest number the writer held when it sent it, which is at or after the
    match — was delivered or is gone; a change the writer still holds, relevant and announced by that heartbeat IS in the
    cache. Needs fixes/D2_D8.patch and fixes/D43.patch (both on main). -/
theorem C04_hist_received_sound (cfg : Cfg) (hfix : cfg.fixD43 = true) (hfix2 : cfg.fixD2 = true) (tl : Bool) (f : Nat)
    (hf : 1 ≤ f) (hf16 : f < 65536) (steps : List Step) (hsteps : ∀ st, st ∈ steps → StepOK st) (s : Sys)
    (hrun : Sys.run cfg (Sys.init true tl f) steps = .ok s) (p : WProxy) (hp : s.r.proxy = some p)
    (hh : DustVerif.AckWait.proxyHistReceived p = true) :
    (∀ sn, 1 ≤ sn → sn ≤ p.lastAvail → (∃ c, c ∈ s.r.cache ∧ c.sn = sn) ∨ s.Gone sn) ∧
    (∀ c, c ∈ s.w.changes → c.sn > s.w.firstRel → c.sn ≤ p.lastAvail → c ∈ s.r.cache) := by
  simp only [DustVerif.AckWait.proxyHistReceived, Bool.and_eq_true, decide_eq_true_eq] at hh
  have hlt := rangeIncl_isEmpty _ _ hh.2
  have hle : p.lastAvail ≤ p.availMax := by
    unfold WProxy.availMax
    omega
  constructor
  · intro sn h1 h2
    exact C01_no_skip cfg hfix hfix2 tl f hf hf16 steps hsteps s hrun p hp sn h1 (by omega)
  · intro c hc hr hl
    exact C01_held_not_skipped cfg hfix hfix2 tl f hf hf16 steps hsteps s hrun p hp c hc hr (by omega)

/-- **C04_tl_gets_history — STATEMENT ONLY (unproved)**: a reliable TRANSIENT_LOCAL reader matched at any step: after a
    healing suffix every change the writer held at match time and still holds is in the reader's cache and
    `is_historical_data_received` holds (so `wait_for_historical_data` is answered, `C04_wait_hist_sound`). With
    KEEP_LAST the writer history at match time is the last `depth` samples per instance (writer-history invariant C27).
    Checked by the oracle of vlib/props/C04.py on the full stack with lossy catch-up. -/
def C04_tl_gets_history_statement : Prop :=
  ∀ (f : Nat) (before after : List Step) (s₁ s₂ : Sys), 1 ≤ f → f < 65536 →
    (∀ st, st ∈ before ++ after → StepOK st) →
    Sys.run Cfg.fixed (Sys.init true true f) (before ++ [.doMatch]) = .ok s₁ →
    Sys.run Cfg.fixed s₁ after = .ok s₂ → s₂.w.changes ≠ [] →
    ∃ k s₃, k ≤ 2 * s₂.lastSn + 4 ∧ Sys.heal Cfg.fixed k s₂ = .ok s₃ ∧
      (∀ c, c ∈ s₁.w.changes → c ∈ s₃.w.changes → c ∈ s₃.r.cache) ∧ DustVerif.AckWait.histReceived s₃.r = true

/-- open finding D-rtps-4 (why the statement above needs a non-empty history): a reliable writer sends HEARTBEATs only
    while it holds unacknowledged changes, so a TRANSIENT_LOCAL reader matched with a writer whose history is EMPTY
    never sees a heartbeat, `is_historical_data_received` stays false and `wait_for_historical_data` never completes
    (until the writer's first write). -/
theorem C04_empty_history_never_received_counterexample :
    (match Sys.run Cfg.fixed (Sys.init true true 8) [.doMatch] with
      | .ok s => (match Sys.heal Cfg.fixed 10 s with
          | .ok s' => (DustVerif.AckWait.histReceived s'.r, s'.net, s'.w.changes)
          | .panic => (true, [], []))
      | .panic => (true, [], [])) = (false, [], []) := by decide

/-- one instance (a test, not a proof): history {1, 3} (2 removed), late reader, the first DATA lost -/
example :
    (match Sys.run Cfg.fixed (Sys.init true true 8) [.write [1], .write [2], .write [3], .remove 2, .doMatch, .tick 10, .drop 0] with
      | .ok s => (match Sys.heal Cfg.fixed 2 s with
          | .ok s' => (s'.r.cache.map snOf, DustVerif.AckWait.histReceived s'.r)
          | .panic => ([], false))
      | .panic => ([], false)) = ([1, 3], true) := by decide

end DustVerif.Rtps

/-! ## wait_for_historical_data: the reader-side wait list -/
namespace DustVerif.Rtps
open DustVerif.AckWait
open DustVerif.Rtps

/-- **C04_wait_hist_sound**: a `wait_for_historical_data` caller is answered `Ok` only at a step after which
    `is_historical_data_received` holds (at the call itself, or when a heartbeat is handled), never for a VOLATILE reader
    (`IllegalOperation`); with `C04_hist_received_sound`: everything announced by the newest heartbeat was delivered. -/
theorem C04_wait_hist_sound (cfg : Cfg) (s s' : RSt) (ev : REv) (ids : List Nat) (out : List Dgram) (id : Nat)
    (h : rstep cfg s ev = .ok (s', .ok ids, out)) (hid : id ∈ ids) : histReceived s'.r = true ∧ s.volatile = false ∨
      (histReceived s'.r = true ∧ ∃ m, ev = .sub m ∧ isHb m = true) := by
  cases ev with
  | sub m =>
    simp only [rstep] at h
    split at h
    · cases h
    · split at h
      · rename_i hc
        injection h with h; injection h with h1 h2; subst h1
        exact Or.inr ⟨hc.2, m, rfl, hc.1⟩
      · injection h with h; injection h with _ h2; injection h2 with h2 _; cases h2
  | matchWriter =>
    simp only [rstep] at h
    injection h with h; injection h with _ h2; injection h2 with h2 _; cases h2
  | waitHist w =>
    simp only [rstep] at h
    split at h
    · injection h with h; injection h with _ h2; injection h2 with h2 _; cases h2
    · rename_i hv
      split at h
      · rename_i hh
        injection h with h; injection h with h1 _; subst h1
        exact Or.inl ⟨hh, by simpa using hv⟩
      · injection h with h; injection h with _ h2; injection h2 with h2 _; cases h2

/-- **C04_wait_hist_kept**: no step loses a parked `wait_for_historical_data` caller: it is answered or still parked -/
theorem C04_wait_hist_kept (cfg : Cfg) (s s' : RSt) (ev : REv) (a : RAns) (out : List Dgram) (id : Nat)
    (h : rstep cfg s ev = .ok (s', a, out)) (hid : id ∈ s.waiters) : (∃ ids, a = .ok ids ∧ id ∈ ids) ∨ id ∈ s'.waiters := by
  cases ev with
  | sub m =>
    simp only [rstep] at h
    split at h
    · cases h
    · split at h
      · injection h with h; injection h with h1 h2; injection h2 with h2 _; subst h1; subst h2
        exact Or.inl ⟨_, rfl, hid⟩
      · injection h with h; injection h with h1 _; subst h1; exact Or.inr hid
  | matchWriter =>
    simp only [rstep] at h
    injection h with h; injection h with h1 _; subst h1; exact Or.inr hid
  | waitHist w =>
    simp only [rstep] at h
    split at h
    · injection h with h; injection h with h1 _; subst h1; exact Or.inr hid
    · split at h
      · injection h with h; injection h with h1 _; subst h1; exact Or.inr hid
      · injection h with h; injection h with h1 _; subst h1; exact Or.inr (List.mem_append_left _ hid)

/-- `is_historical_data_received` of the reader = of EVERY matched writer proxy; with no matched writer it holds -/
theorem histReceivedAll_iff (ps : List WProxy) : histReceivedAll ps = true ↔ ∀ p, p ∈ ps → proxyHistReceived p = true := by
  unfold histReceivedAll
  simp only [Bool.not_eq_true', List.any_eq_false, proxyHistMissing, Bool.not_eq_true']
  constructor
  · intro h p hp
    have := h p hp
    cases hb : proxyHistReceived p <;> simp_all
  · intro h p hp
    simp [h p hp]

/-- **C04_wait_hist_all_writers**: with any number of matched writers, a `wait_for_historical_data` caller is answered
    `Ok` only at a step after which `is_historical_data_received` holds for EVERY matched writer proxy (each one has
    processed a heartbeat and misses nothing — with `C04_hist_received_sound`, applied per writer: has the history that
    writer announced); with no matched writer it is answered at once; a VOLATILE reader is never answered `Ok`. -/
theorem C04_wait_hist_all_writers (cfg : Cfg) (s s' : MSt) (ev : MEv) (ids : List Nat) (out : List Dgram) (id : Nat)
    (h : mstep cfg s ev = .ok (s', .ok ids, out)) (hid : id ∈ ids) :
    ∀ p, p ∈ s'.proxies → proxyHistReceived p = true := by
  have key : histReceivedAll s'.proxies = true := by
    cases ev with
    | matchWriter wid =>
      simp only [mstep] at h
      split at h <;> (injection h with h; injection h with _ h2; injection h2 with h2 _; cases h2)
    | sub wid m =>
      simp only [mstep] at h
      split at h
      · injection h with h; injection h with _ h2; injection h2 with h2 _; cases h2
      · split at h
        · cases h
        · split at h
          · rename_i hc
            injection h with h; injection h with h1 _; subst h1
            exact hc.2
          · injection h with h; injection h with _ h2; injection h2 with h2 _; cases h2
    | waitHist w =>
      simp only [mstep] at h
      split at h
      · injection h with h; injection h with _ h2; injection h2 with h2 _; cases h2
      · split at h
        · rename_i hh
          injection h with h; injection h with h1 _; subst h1; exact hh
        · injection h with h; injection h with _ h2; injection h2 with h2 _; cases h2
  exact (histReceivedAll_iff _).mp key

/-- no matched writer: answered at once (TRANSIENT_LOCAL reader) -/
theorem C04_wait_hist_no_writer (cfg : Cfg) (rel : Bool) (ws : List Nat) (id : Nat) :
    mstep cfg { ws := [], reliable := rel, volatile := false, waiters := ws } (.waitHist id) =
      .ok ({ ws := [], reliable := rel, volatile := false, waiters := ws }, .ok [id], []) := by
  simp [mstep, MSt.proxies, histReceivedAll]

/-- the seeded simplification `any(|p| p.is_historical_data_received())` is NOT equivalent: one writer complete, one not -/
theorem C04_any_writer_is_not_enough_counterexample :
    let done : WProxy := { WProxy.new with lastHbCount := 1, lastAvail := 1, highestRecv := 1 }
    let open_ : WProxy := { WProxy.new with lastHbCount := 1, lastAvail := 2, highestRecv := 0 }
    histReceivedAll [done, open_] = false ∧ [done, open_].any proxyHistReceived = true ∧
    histReceivedAll [] = true ∧ ([] : List WProxy).any proxyHistReceived = false := by decide

end DustVerif.Rtps
