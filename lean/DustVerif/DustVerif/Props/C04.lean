import DustVerif.Proofs.RtpsRel
/-! Property C04 (protocol part): a VOLATILE reader never receives a sample written before it was matched.
    At match time `add_matched_reader` (stateful_writer.rs:74) sets `first_relevant_sample_seq_num` to the highest
    sequence number in the history for a VOLATILE reader and to 0 for TRANSIENT_LOCAL; the theorems below show that
    nothing at or below that number is ever sent as DATA / DATA_FRAG, requested, buffered or delivered.
    The DCPS-level parts (wait_for_historical_data, KEEP_LAST history) and the liveness clause
    `C04_tl_gets_history` (an instance of `C01_eventual_statement`, unproved) are outside this file. -/
namespace DustVerif.Rtps

/-- what `add_matched_reader` fixes at the first match: VOLATILE = highest sequence number held, TRANSIENT_LOCAL = 0 -/
theorem C04_first_relevant_at_match (cfg : Cfg) (w : Writer) (rel tl : Bool) (hnone : w.proxy = none) :
    (w.addMatchedReader cfg rel tl).firstRel = (if tl then 0 else (maxSn w.changes).getD 0) := by
  simp [Writer.addMatchedReader, hnone, Writer.firstRel, RProxy.new]

/-- **C04_volatile_never_old**: for EVERY step list (writes before and after the match, removals, ticks,
    re-announcements, any loss / duplication / reordering) every delivered sample has a sequence number above
    `first_relevant_sample_seq_num` — for a VOLATILE reader: it was written after the match. Holds for a reliable
    reader on every variant of the code with fixes/D43.patch, and for a best-effort reader with fixes/D4_D42.patch too. -/
theorem C04_volatile_never_old (cfg : Cfg) (hfix : cfg.fixD43 = true) (rel tl : Bool)
    (hc : rel = true ∨ cfg.fixD4 = true) (f : Nat) (steps : List Step) (s : Sys)
    (hrun : Sys.run cfg (Sys.init rel tl f) steps = .ok s) (c : Change) (hcache : c ∈ s.r.cache) :
    c.sn > s.w.firstRel :=
  (inv4_run cfg hfix rel hc steps _ s (inv4_init rel tl f) hrun).rdR.1 c hcache

/-- nor is such a sample ever in flight as DATA / DATA_FRAG or waiting in the fragment buffer -/
theorem C04_never_sent_old (cfg : Cfg) (hfix : cfg.fixD43 = true) (rel tl : Bool)
    (hc : rel = true ∨ cfg.fixD4 = true) (f : Nat) (steps : List Step) (s : Sys)
    (hrun : Sys.run cfg (Sys.init rel tl f) steps = .ok s) :
    (∀ d, d ∈ s.net → ∀ sub, sub ∈ d.subs → SubRel s.w.firstRel sub) ∧
    (∀ p, s.r.proxy = some p → ∀ fr, fr ∈ p.fragBuf → fr.sn > s.w.firstRel) := by
  have h := inv4_run cfg hfix rel hc steps _ s (inv4_init rel tl f) hrun
  exact ⟨h.netR, h.rdR.2⟩

/-- non-vacuity: a late VOLATILE reliable reader; samples 1, 2 were written before the match, 3 after -/
example :
    (match Sys.run Cfg.fixed (Sys.init true false 8)
        [.write [1], .write [2], .doMatch, .write [3], .deliver 0, .deliver 0, .deliver 0, .deliver 0] with
      | .ok s => (s.w.firstRel, s.r.cache.map snOf)
      | .panic => (0, [])) = (2, [3]) := by decide

/-- as-is (D4): the best-effort path ignores `first_relevant_sample_seq_num`: a late best-effort VOLATILE reader is
    sent — and delivers — the samples written before the match -/
theorem C04_besteffort_old_sample_asis_counterexample :
    (match Sys.run Cfg.asIs (Sys.init false false 8)
        [.write [1], .write [2], .doMatch, .write [3], .deliver 0, .deliver 0] with
      | .ok s => (s.w.firstRel, s.r.cache.map snOf)
      | .panic => (0, [])) = (2, [1, 2]) := by decide

/-- the same schedule on the repaired code: GAP 1, GAP 2, then sample 3 -/
example :
    (match Sys.run Cfg.fixed (Sys.init false false 8)
        [.write [1], .write [2], .doMatch, .write [3], .deliver 0, .deliver 0, .deliver 0] with
      | .ok s => (s.w.firstRel, s.r.cache.map snOf)
      | .panic => (0, [])) = (2, [3]) := by decide

end DustVerif.Rtps
