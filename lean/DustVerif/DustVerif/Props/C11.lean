import DustVerif.Proofs.KeyLemmas
import DustVerif.Props.C09
/-! Property C11: two samples of a keyed type get the same instance handle exactly when their key members are equal;
    the handle the writer assigns is the handle the reader derives, with or without the inline key hash.

`handle cfg t v` models `get_instance_handle_from_dynamic_data` (key_and_instance_handle.rs:125), `keyProj t v` is the
list of key members (with the structure path flattened as the code does) and their values, `readerHandle` models
communication_methods.rs:218-272.  MD5 is the executable `Model/Md5.lean` and stays opaque: a digest collision is
part of the statement, not assumed away. -/
namespace DustVerif.Xcdr

/-- **C11 (⇐)**: equal key members ⇒ equal handles — for EVERY type and value, no hypothesis. -/
theorem C11_same_key_same_handle (cfg : Cfg) (t : KTy) (v1 v2 : Val) (h : keyProj t v1 = keyProj t v2) :
    handle cfg t v1 = handle cfg t v2 := by
  simp only [handle, keyBytes, keyHolder, h]

mutual
  /-- the two values agree on every key member (found by the traversal of the code: key members, and key members of
      non-key, non-optional nested structures); all other members are unconstrained -/
  def KeyEqv : KMs → List Val → List Val → Prop
    | .nil, _, _ => True
    | .cons _ opt _ key t rest, f1 :: r1, f2 :: r2 =>
      (if key then f1 = f2 else if opt then True else KeyEqvTy t f1 f2) ∧ KeyEqv rest r1 r2
    | .cons _ _ _ _ _ _, [], [] => True
    | _, _, _ => False
  def KeyEqvTy : KTy → Val → Val → Prop
    | .struct _ ms, .struct a, .struct b => KeyEqv ms a b
    | .struct _ _, a, b => a = b
    | _, _, _ => True
end

mutual
theorem keyEqv_flatV : (ms : KMs) → (a b : List Val) → KeyEqv ms a b → flatV ms a = flatV ms b
  | .nil, _, _, _ => by simp [flatV]
  | .cons _ _ _ _ _ _, [], [], _ => rfl
  | .cons _ _ _ _ _ _, [], _ :: _, h => by simp [KeyEqv] at h
  | .cons _ _ _ _ _ _, _ :: _, [], h => by simp [KeyEqv] at h
  | .cons id opt mu key t rest, f1 :: r1, f2 :: r2, h => by
    simp only [KeyEqv] at h
    have ihr := keyEqv_flatV rest r1 r2 h.2
    cases key with
    | true =>
      have hf : f1 = f2 := by simpa using h.1
      subst hf
      simp only [flatV, ihr]
    | false =>
      cases opt with
      | true => simp [flatV, ihr]
      | false =>
        have ht := keyEqvTy_flatV t f1 f2 (by simpa using h.1)
        simp only [flatV, Bool.false_eq_true, if_false, ihr, ht]
theorem keyEqvTy_flatV : (t : KTy) → (a b : Val) → KeyEqvTy t a b → flatVTy t a = flatVTy t b
  | .struct _ ms, .struct a, .struct b, h => by simp only [KeyEqvTy] at h; simp only [flatVTy, keyEqv_flatV ms a b h]
  | .struct _ _, .struct _, .num _, h | .struct _ _, .struct _, .str _, h | .struct _ _, .struct _, .list _, h
  | .struct _ _, .struct _, .absent, h => by simp [KeyEqvTy] at h
  | .struct _ _, .num _, b, h | .struct _ _, .str _, b, h | .struct _ _, .list _, b, h | .struct _ _, .absent, b, h => by
    simp only [KeyEqvTy] at h; subst h; rfl
  | .prim _, _, _, _ | .str, _, _, _ | .wstr, _, _, _ | .union _ _ _, _, _, _ | .enum _ _ _, _, _, _ | .seq _, _, _, _ | .arr _ _, _, _, _ => by simp [flatVTy]
end

/-- **C11, non-key members are irrelevant**: values that agree on the key members (whatever their other members
    are) have the same handle — every type, every value. -/
theorem C11_nonkey_irrelevant (cfg : Cfg) (x : Ext) (ms : KMs) (a b : List Val) (h : KeyEqv ms a b) :
    handle cfg (.struct x ms) (.struct a) = handle cfg (.struct x ms) (.struct b) :=
  C11_same_key_same_handle cfg _ _ _ (by simp only [keyProj]; exact keyEqv_flatV ms a b h)

/-- two different key serializations that end in the same 16 bytes: equal MD5 digests, a zero-padded key equal to a
    digest, or two zero-padded keys that differ only in trailing zero bytes -/
def DigestCollision (cfg : Cfg) (t : KTy) (v1 v2 : Val) : Prop :=
  ∃ b1 b2, keyBytes cfg t v1 = .ok b1 ∧ keyBytes cfg t v2 = .ok b2 ∧ b1 ≠ b2 ∧ handleOfBytes b1 = handleOfBytes b2

/-- **C11 (⇔)** for keyed structures inside `wfKey` (key members present, flattened key ids distinct, key members in
    the C09 subset): handles are equal exactly when the key members are equal or the two key serializations collide
    in `handleOfBytes`.  Injectivity of the key serialization comes from the round trip with remainder (C09).
    `_partial`: without distinct flattened ids the statement is false (D73, witness below). -/
theorem C11_iff_partial (cfg : Cfg) (x : Ext) (ms : KMs) (a b : List Val)
    (ha : wfKey cfg (.struct x ms) (.struct a) = true) (hb : wfKey cfg (.struct x ms) (.struct b) = true) :
    handle cfg (.struct x ms) (.struct a) = handle cfg (.struct x ms) (.struct b) ↔
      (keyProj (.struct x ms) (.struct a) = keyProj (.struct x ms) (.struct b) ∨
       DigestCollision cfg (.struct x ms) (.struct a) (.struct b)) := by
  obtain ⟨k1, _, _, hk1, _, _⟩ := wfKey_struct cfg x ms a ha
  obtain ⟨k2, _, _, hk2, _, _⟩ := wfKey_struct cfg x ms b hb
  constructor
  · intro h
    by_cases hbe : keyBytes cfg (.struct x ms) (.struct a) = keyBytes cfg (.struct x ms) (.struct b)
    · exact Or.inl (by simp only [keyProj]; exact keyBytes_inj cfg x ms a b ha hb hbe)
    · have hb1 : keyBytes cfg (.struct x ms) (.struct a) =
          .ok (serF cfg .v1 .be (entriesMs k1) (entriesVals k1) 0).1 := by simp only [keyBytes, hk1]
      have hb2 : keyBytes cfg (.struct x ms) (.struct b) =
          .ok (serF cfg .v1 .be (entriesMs k2) (entriesVals k2) 0).1 := by simp only [keyBytes, hk2]
      refine Or.inr ⟨_, _, hb1, hb2, ?_, ?_⟩
      · intro he; apply hbe; rw [hb1, hb2, he]
      · simpa [handle, hb1, hb2] using h
  · rintro (h | ⟨b1, b2, h1, h2, _, hc⟩)
    · exact C11_same_key_same_handle cfg _ _ _ h
    · simp [handle, h1, h2, hc]

/-- **C11, writer and reader agree**: for a sample inside the C09 subset (`wfVal` for the representation used on the
    wire) whose key the writer can compute (`handle … = ok h`), the reader files the change under `h`
    * when the DATA submessage carries the key hash (it takes the hash as it is),
    * when it does not: from the decoded sample (alive changes),
    * and for dispose / unregister: from the key-only payload, decoded with the key-holder type (needs `wfKey`, and
      the key holder inside the C09 subset for that representation). -/
theorem C11_writer_reader_agree (cfg : Cfg) (ver : Ver) (e : Endian) (x : Ext) (ms : KMs) (fs : List Val) (h : Bytes)
    (hh : handle cfg (.struct x ms) (.struct fs) = .ok h)
    (hwf : wfVal cfg ver (KTy.struct x ms).erase (.struct fs) = true)
    (hsz : maxSize (KTy.struct x ms).erase (.struct fs) < 2 ^ 32) :
    readerHandle cfg (.struct x ms) (some h) .alive (serTop cfg ver e (KTy.struct x ms).erase (.struct fs)) = some h ∧
    readerHandle cfg (.struct x ms) none .alive (serTop cfg ver e (KTy.struct x ms).erase (.struct fs)) = some h ∧
    (∀ kvs, wfKey cfg (.struct x ms) (.struct fs) = true → keyHolder (.struct x ms) (.struct fs) = .ok kvs →
      wfVal cfg ver (keyHolderTy (.struct x ms)).erase (.struct (entriesVals kvs)) = true →
      maxSize (keyHolderTy (.struct x ms)).erase (.struct (entriesVals kvs)) < 2 ^ 32 →
      readerHandle cfg (.struct x ms) none .notAlive
        (serTop cfg ver e (keyHolderTy (.struct x ms)).erase (.struct (entriesVals kvs))) = some h) := by
  refine ⟨rfl, ?_, ?_⟩
  · have hrt := C09_roundtrip_partial cfg ver e x ms.erase (.struct fs) hwf hsz
    have he : (KTy.struct x ms).erase = Ty.struct x ms.erase := rfl
    simp only [readerHandle, he, hrt, hh]
  · intro kvs hk hkh hwf' hsz'
    obtain ⟨k1, hf1, hn1, hk1, _, _⟩ := wfKey_struct cfg x ms fs hk
    rw [hk1] at hkh; injection hkh with hkk; subst hkk
    have hrt := C09_roundtrip_partial cfg ver e x (entriesKMs (flatT ms)).erase (.struct (entriesVals k1))
      (by simpa [keyHolderTy, KTy.erase] using hwf') (by simpa [keyHolderTy, KTy.erase] using hsz')
    have hfl : flatV (entriesKMs (flatT ms)) (entriesVals k1) = .ok k1 := by
      rw [← flatV_fst ms fs k1 hf1]
      exact flatV_entriesKMs k1 (flatV_nonabsent ms fs k1 hf1)
    have hh' : handle cfg (.struct x (entriesKMs (flatT ms))) (.struct (entriesVals k1)) = .ok h := by
      have he := effective_nodup k1 hn1 k1 (fun _ h => h)
      simp only [handle, keyBytes, keyHolder, keyProj, hfl, he]
      simpa [handle, keyBytes, hk1] using hh
    simp only [readerHandle, keyHolderTy, KTy.erase] at hrt ⊢
    simp only [hrt, hh']

/-! ### non-vacuity -/
/-- Inside `wfKey` the real function (`handleOutcome`: its errors and the `unwrap` panics of the XCDR1 serializer
    included) returns a handle, the one `handle` computes: the theorems above speak about what the code returns. -/
theorem C11_handle_total (cfg : Cfg) (t : KTy) (v : Val) (h : wfKey cfg t v = true) :
    ∃ hb, handleOutcome cfg t v = some (.ok hb) ∧ handle cfg t v = .ok hb := by
  rw [handleOutcome_of_wfKey cfg t v h]
  simp only [wfKey] at h
  cases hk : keyProj t v with
  | error e => rw [hk] at h; simp at h
  | ok kvs =>
    rw [hk] at h
    simp only [Bool.and_eq_true, decide_eq_true_eq] at h
    have he := effective_nodup kvs h.1.1 kvs (fun _ hm => hm)
    have hh : handle cfg t v = .ok (handleOfBytes (serF cfg .v1 .be (entriesMs kvs) (entriesVals kvs) 0).1) := by
      simp only [handle, keyBytes, keyHolder, hk, he]
    exact ⟨_, by rw [hh], hh⟩

/-- outside `wfKey`: colliding flattened ids of different storage kinds under an optional descriptor make the
    XCDR1 serializer unwrap an error (panic); replayed (`kh SF{0ok:u8,1:SF{0k:u16}} {1,{2}}`) -/
theorem C11_collision_panics_counterexample :
    handleOutcome Cfg.fixed (.struct .final (.cons 0 true false true (.prim .u8)
      (.cons 1 false false false (.struct .final (.cons 0 false false true (.prim .u16) .nil)) .nil)))
      (.struct [.num 1, .struct [.num 2]]) = none := by
  decide +kernel


/-! ### optional nested structures contribute nothing to the key (follow-up 3) -/
mutual
theorem keyEqv_refl : (ms : KMs) → (a : List Val) → KeyEqv ms a a
  | .nil, _ => by simp [KeyEqv]
  | .cons _ _ _ _ _ _, [] => by simp [KeyEqv]
  | .cons id opt mu key t rest, f :: r => by
    simp only [KeyEqv]
    refine ⟨?_, keyEqv_refl rest r⟩
    cases key with
    | true => simp
    | false =>
      cases opt with
      | true => simp
      | false => simpa using keyEqvTy_refl t f
theorem keyEqvTy_refl : (t : KTy) → (a : Val) → KeyEqvTy t a a
  | .struct _ ms, .struct a => by simp only [KeyEqvTy]; exact keyEqv_refl ms a
  | .struct _ _, .num _ | .struct _ _, .str _ | .struct _ _, .list _ | .struct _ _, .absent => by simp [KeyEqvTy]
  | .prim _, _ | .str, _ | .wstr, _ | .union _ _ _, _ | .enum _ _ _, _ | .seq _, _ | .arr _ _, _ => by simp [KeyEqvTy]
end

/-- the member at index `i` is optional and is not itself a key member (its type may be a structure with key members) -/
def KMs.optNonKeyAt : KMs → Nat → Bool
  | .nil, _ => false
  | .cons _ opt _ key _ _, 0 => opt && !key
  | .cons _ _ _ _ _ r, i + 1 => r.optNonKeyAt i

/-- giving the optional member at index `i` any other value (or none: `w = .absent`) keeps the values key-equivalent -/
theorem keyEqv_set : (ms : KMs) → (fs : List Val) → (i : Nat) → (w : Val) → ms.optNonKeyAt i = true →
    KeyEqv ms (fs.set i w) fs
  | .nil, _, _, _, h => by simp [KMs.optNonKeyAt] at h
  | .cons _ _ _ _ _ _, [], _, _, _ => by simp [KeyEqv]
  | .cons id opt mu key t rest, f :: r, 0, w, h => by
    simp only [KMs.optNonKeyAt, Bool.and_eq_true, Bool.not_eq_true'] at h
    simp only [List.set_cons_zero, KeyEqv, h.1, h.2, Bool.false_eq_true, if_false, if_true, true_and]
    exact keyEqv_refl rest r
  | .cons id opt mu key t rest, f :: r, i + 1, w, h => by
    simp only [KMs.optNonKeyAt] at h
    simp only [List.set_cons_succ, KeyEqv]
    refine ⟨?_, keyEqv_set rest r i w h⟩
    cases key with
    | true => simp
    | false =>
      cases opt with
      | true => simp
      | false => simpa using keyEqvTy_refl t f

/-- the result of the real function (errors and panics included) depends on the key projection only -/
theorem handleOutcome_congr (cfg : Cfg) (t : KTy) (v1 v2 : Val) (h : keyProj t v1 = keyProj t v2) :
    handleOutcome cfg t v1 = handleOutcome cfg t v2 := by
  simp only [handleOutcome, h, C11_same_key_same_handle cfg t v1 v2 h]

/-- **C11, an optional member is never part of the instance identity**: for EVERY keyed structure type, every value
    and every optional non-key member (in particular an optional member of STRUCTURE type whose structure has key
    members of its own): replacing its value by any other value `w`, or removing it (`w = .absent`), changes neither the
    key projection, nor the handle, nor the outcome of `get_instance_handle_from_dynamic_data` (so a sample in which
    the optional member is absent gets a handle exactly when the sample with the member present does). -/
theorem C11_optional_member_irrelevant (cfg : Cfg) (x : Ext) (ms : KMs) (fs : List Val) (i : Nat) (w : Val)
    (h : ms.optNonKeyAt i = true) :
    keyProj (.struct x ms) (.struct (fs.set i w)) = keyProj (.struct x ms) (.struct fs) ∧
    handle cfg (.struct x ms) (.struct (fs.set i w)) = handle cfg (.struct x ms) (.struct fs) ∧
    handleOutcome cfg (.struct x ms) (.struct (fs.set i w)) = handleOutcome cfg (.struct x ms) (.struct fs) := by
  have hp : keyProj (.struct x ms) (.struct (fs.set i w)) = keyProj (.struct x ms) (.struct fs) := by
    simp only [keyProj]; exact keyEqv_flatV ms _ _ (keyEqv_set ms fs i w h)
  exact ⟨hp, C11_same_key_same_handle cfg _ _ _ hp, handleOutcome_congr cfg _ _ _ hp⟩

/-- the same one level down: the optional member sits in a non-key, non-optional nested structure (member `j`) -/
theorem C11_nested_optional_member_irrelevant (cfg : Cfg) (x : Ext) (ms : KMs) (a b : List Val)
    (h : KeyEqv ms a b) :
    handleOutcome cfg (.struct x ms) (.struct a) = handleOutcome cfg (.struct x ms) (.struct b) :=
  handleOutcome_congr cfg _ _ _ (by simp only [keyProj]; exact keyEqv_flatV ms a b h)

/-- type level: the key-holder type does not contain the key members of an optional nested structure -/
theorem C11_optional_struct_not_in_key_holder_type (id : Nat) (mu : Bool) (t : KTy) (rest : KMs) :
    flatT (.cons id true mu false t rest) = flatT rest := by
  simp [flatT]

/-- the exemplar of the seeded change C12_b, kernel-checked: `T { @key a: u8; @optional In n; b: u32 }` with
    `In { @key k: u8; @key l: u16 }`: the handle of (5, {1,2}, 7), of (5, {3,4}, 7) and of (5, -, 7) is `05 00…`;
    the optional member's keys 1, 2 are not in it; replay `kh SF{0k:u8,5o:SF{6k:u8,7k:u16},2:u32} {5,{1,2},7}`. -/
def tyOptKey : KTy := .struct .final (.cons 0 false false true (.prim .u8)
  (.cons 5 true false false (.struct .final (.cons 6 false false true (.prim .u8) (.cons 7 false false true (.prim .u16) .nil)))
  (.cons 2 false false false (.prim .u32) .nil)))
theorem C11_optional_nested_struct_example :
    (handleOutcome Cfg.fixed tyOptKey (.struct [.num 5, .struct [.num 1, .num 2], .num 7])).map Except.toOption =
      some (some (5 :: List.replicate 15 0)) ∧
    (handleOutcome Cfg.fixed tyOptKey (.struct [.num 5, .struct [.num 3, .num 4], .num 7])).map Except.toOption =
      some (some (5 :: List.replicate 15 0)) ∧
    (handleOutcome Cfg.fixed tyOptKey (.struct [.num 5, .absent, .num 7])).map Except.toOption =
      some (some (5 :: List.replicate 15 0)) ∧
    wfKey Cfg.fixed tyOptKey (.struct [.num 5, .absent, .num 7]) = true ∧
    KMs.optNonKeyAt (.cons 0 false false true (.prim .u8) (.cons 5 true false false (.prim .u8) .nil)) 1 = true := by
  decide +kernel


/-! ### a key member of structure type is copied whole: its own key flags are irrelevant (follow-up 5) -/
mutual
  /-- the member list with every key flag INSIDE the type of a key member cleared (`tyK t.erase`); key flags of
      non-key nested structures (which the traversal does descend into) are kept -/
  def normKeys : KMs → KMs
    | .nil => .nil
    | .cons id opt mu key t rest => .cons id opt mu key (if key then tyK t.erase else normKeysTy t) (normKeys rest)
  def normKeysTy : KTy → KTy
    | .struct x ms => .struct x (normKeys ms)
    | t => t
end

mutual
theorem flatV_normKeys : (ms : KMs) → (fs : List Val) → flatV (normKeys ms) fs = flatV ms fs
  | .nil, _ => by simp [normKeys, flatV]
  | .cons _ _ _ _ _ _, [] => by simp [normKeys, flatV]
  | .cons id opt mu key t rest, f :: fs => by
    have ihr := flatV_normKeys rest fs
    cases key with
    | true => simp only [normKeys, flatV, if_true, tyK_erase, ihr]
    | false =>
      cases opt with
      | true => simp only [normKeys, flatV, Bool.false_eq_true, if_false, if_true, ihr]
      | false =>
        have iht := flatVTy_normKeys t f
        simp only [normKeys, flatV, Bool.false_eq_true, if_false, ihr, iht]
theorem flatVTy_normKeys : (t : KTy) → (f : Val) → flatVTy (normKeysTy t) f = flatVTy t f
  | .struct _ ms, .struct fs => by simp only [normKeysTy, flatVTy, flatV_normKeys ms fs]
  | .struct _ _, .num _ | .struct _ _, .str _ | .struct _ _, .list _ | .struct _ _, .absent => by simp [normKeysTy, flatVTy]
  | .prim _, _ | .str, _ | .wstr, _ | .union _ _ _, _ | .enum _ _ _, _ | .seq _, _ | .arr _ _, _ => by simp [normKeysTy]
end

mutual
theorem flatT_normKeys : (ms : KMs) → flatT (normKeys ms) = flatT ms
  | .nil => by simp [normKeys, flatT]
  | .cons id opt mu key t rest => by
    have ihr := flatT_normKeys rest
    cases key with
    | true => simp only [normKeys, flatT, if_true, tyK_erase, ihr]
    | false =>
      cases opt with
      | true => simp only [normKeys, flatT, Bool.false_eq_true, if_false, if_true, ihr]
      | false => simp only [normKeys, flatT, Bool.false_eq_true, if_false, ihr, flatTy_normKeys t]
theorem flatTy_normKeys : (t : KTy) → flatTy (normKeysTy t) = flatTy t
  | .struct _ ms => by simp only [normKeysTy, flatTy, flatT_normKeys ms]
  | .prim _ | .str | .wstr | .union _ _ _ | .enum _ _ _ | .seq _ | .arr _ _ => by simp [normKeysTy]
end

/-- **C11, a key member of structure type is not flattened**: for EVERY keyed structure type and every value, clearing
    (or setting differently) the key flags inside the types of its KEY members - e.g. `@key Location location` with
    `Location { @key zone; floor }` - changes neither the key-holder type, nor the key projection, nor the handle, nor
    the outcome of `get_instance_handle_from_dynamic_data`: a key member is copied whole (`set_value(id, whole value)`),
    the traversal does not descend into it, so its inner member ids cannot meet the outer key ids. -/
theorem C11_key_struct_member_not_flattened (cfg : Cfg) (x : Ext) (ms : KMs) (v : Val) :
    flatT (normKeys ms) = flatT ms ∧
    keyProj (.struct x (normKeys ms)) v = keyProj (.struct x ms) v ∧
    handle cfg (.struct x (normKeys ms)) v = handle cfg (.struct x ms) v ∧
    handleOutcome cfg (.struct x (normKeys ms)) v = handleOutcome cfg (.struct x ms) v := by
  have hp : keyProj (.struct x (normKeys ms)) v = keyProj (.struct x ms) v := by
    cases v <;> simp only [keyProj, flatV_normKeys]
  refine ⟨flatT_normKeys ms, hp, ?_, ?_⟩
  · simp only [handle, keyBytes, keyHolder, hp]
  · simp only [handleOutcome, handle, keyBytes, keyHolder, hp]

/-- the exemplar of the seeded change C12_c, kernel-checked: `Sensor { @key id (0): u32; @key location (1): Location }`,
    `Location { @key zone (0): u32; floor (2): u8 }`: the handle of (7, {3,1}) is `[id][zone][floor]` =
    00000007 00000003 01, that of (8, {3,1}) differs - the inner `zone` (member id 0) does not overwrite `id` (member id 0);
    the type is inside `wfKey` (the flattened key ids 0, 1 are distinct). Replay `kh SF{0k:u32,1k:SF{0k:u32,2:u8},3:u16} …`. -/
def tySensor : KTy := .struct .final (.cons 0 false false true (.prim .u32)
  (.cons 1 false false true (.struct .final (.cons 0 false false true (.prim .u32) (.cons 2 false false false (.prim .u8) .nil)))
  (.cons 3 false false false (.prim .u16) .nil)))
theorem C11_key_struct_member_example :
    (handle Cfg.fixed tySensor (.struct [.num 7, .struct [.num 3, .num 1], .num 5])).toOption =
      some ([0, 0, 0, 7, 0, 0, 0, 3, 1] ++ List.replicate 7 0) ∧
    (handle Cfg.fixed tySensor (.struct [.num 8, .struct [.num 3, .num 1], .num 5])).toOption =
      some ([0, 0, 0, 8, 0, 0, 0, 3, 1] ++ List.replicate 7 0) ∧
    wfKey Cfg.fixed tySensor (.struct [.num 7, .struct [.num 3, .num 1], .num 5]) = true := by
  decide +kernel

def tyKeyDemo : KTy := .struct .appendable
  (.cons 0 false false false (.struct .final (.cons 10 false false true (.prim .u8) (.cons 11 false false false .str .nil)))
  (.cons 1 false false true .str (.cons 2 false false false (.prim .u64) (.cons 3 false false true (.arr (.prim .i16) 2) .nil))))
def valKeyDemo (n : Nat) : Val := .struct [.struct [.num 7, .str [0x78]], .str [0x61, 0x62], .num n, .list [.num 1, .num 2]]
example : wfKey Cfg.fixed tyKeyDemo (valKeyDemo 5) = true ∧ wfVal Cfg.fixed .v2 tyKeyDemo.erase (valKeyDemo 5) = true := by
  decide
example : (handle Cfg.fixed tyKeyDemo (valKeyDemo 5)).toOption = (handle Cfg.fixed tyKeyDemo (valKeyDemo 6)).toOption ∧
    (handle Cfg.fixed tyKeyDemo (valKeyDemo 5)).toOption.isSome = true := by decide +kernel

/-! ### the flattening defect (D73) -/
def tyD73 : KTy := .struct .final (.cons 0 false false true (.prim .u8)
  (.cons 1 false false false (.struct .final (.cons 0 false false true (.prim .u8) .nil)) .nil))
/-- D73: `struct Outer { #[key] k: u8 /* id 0 */, inner: Inner }`, `struct Inner { #[key] k: u8 /* id 0 */ }`: the key
    members of the nested struct are flattened into the key holder by their own member ids, both keys land on id 0, and
    the outer key is overwritten: (k = 1, inner.k = 2) and (k = 5, inner.k = 2) are different keys with the same handle
    `02 02 00 …` (replayed: `kh SF{0k:u8,1:SF{0k:u8}} {1,{2}}` / `{5,{2}}`). -/
theorem C11_flattened_ids_collide_counterexample :
    keyProj tyD73 (.struct [.num 1, .struct [.num 2]]) ≠ keyProj tyD73 (.struct [.num 5, .struct [.num 2]]) ∧
    (handle Cfg.fixed tyD73 (.struct [.num 1, .struct [.num 2]])).toOption =
      (handle Cfg.fixed tyD73 (.struct [.num 5, .struct [.num 2]])).toOption ∧
    (handle Cfg.fixed tyD73 (.struct [.num 1, .struct [.num 2]])).toOption = some ([2, 2] ++ zeros 14) := by
  refine ⟨?_, by decide +kernel, by decide +kernel⟩
  intro h
  simp [keyProj, tyD73, flatV, flatVTy, KTy.erase] at h

end DustVerif.Xcdr
